(** cosmossdk.io/math LegacyDec (sdk.Dec) as an integer scaled by 10^18.

    A [LegacyDec] is a [*big.Int] holding value * 10^18.  This file transcribes
    the arithmetic of dec.go (v1.3.0) on that integer: executable definitions
    only; the characterising lemmas are in DecProofs.v.

    Go's [big.Int.Quo]/[QuoRem] truncate towards zero: [Z.quot]/[Z.rem].
    Go's [big.Int.Div]/[Mod] are Euclidean: for a positive divisor they are
    Coq's [Z.div]/[Z.modulo].

    Panics of the library are not part of the total functions below:
    - division by zero ([dquo _ 0], [dquo_int _ 0]): Coq returns 0, Go panics;
      models that can reach it test the divisor first;
    - "Int overflow": the result of Add/Sub/Mul/Quo must have at most
      [max_dec_bits] = 315 bits, [fits] is that test;
    - NewDecFromStr rejects values of more than 315 bits ([fits] again);
    - NewIntFromBigInt (RoundInt/TruncateInt results) rejects more than 256
      bits ([fits_int]). *)
From Coq Require Import ZArith.
Local Open Scope Z_scope.

Notation dec := Z (only parsing).

(** precisionReuse = 10^18, fivePrecision = precisionReuse / 2 *)
Definition prec : Z := 1000000000000000000.
Definition half : Z := 500000000000000000.

(** LegacyNewDec / LegacyNewDecFromInt / NewDecFromStr of an integer string *)
Definition of_int (n : Z) : dec := n * prec.

(** chopPrecisionAndRound on a non-negative argument: remove 18 digits,
    banker's rounding on the removed digits. *)
Definition chop_nonneg (x : Z) : Z :=
  let q := x / prec in
  let r := x mod prec in
  if r =? 0 then q
  else if r <? half then q
  else if half <? r then q + 1
  else if Z.even q then q else q + 1.

(** chopPrecisionAndRound: the sign is removed and added back. *)
Definition chop (x : Z) : Z :=
  if x <? 0 then - chop_nonneg (- x) else chop_nonneg x.

(** chopPrecisionAndTruncate: big.Int.Quo by 10^18 (towards zero). *)
Definition chop_trunc (x : Z) : Z := Z.quot x prec.

(** chopPrecisionAndRoundUp: negative arguments are truncated, positive ones
    rounded away from zero. *)
Definition chop_up (x : Z) : Z :=
  if x <? 0 then Z.quot x prec
  else if x mod prec =? 0 then x / prec else x / prec + 1.

Definition dadd (a b : dec) : dec := a + b.
Definition dsub (a b : dec) : dec := a - b.
Definition dneg (a : dec) : dec := - a.

(** Mul, MulTruncate, MulRoundUp *)
Definition dmul (a b : dec) : dec := chop (a * b).
Definition dmul_trunc (a b : dec) : dec := chop_trunc (a * b).
Definition dmul_up (a b : dec) : dec := chop_up (a * b).

(** MulInt, MulInt64: no rounding. *)
Definition dmul_int (a : dec) (i : Z) : dec := a * i.

(** Quo, QuoTruncate, QuoRoundUp: multiply by 10^36, big.Int.Quo (towards
    zero), then chop 18 digits. *)
Definition dquo (a b : dec) : dec := chop (Z.quot (a * prec * prec) b).
Definition dquo_trunc (a b : dec) : dec := chop_trunc (Z.quot (a * prec * prec) b).
Definition dquo_up (a b : dec) : dec := chop_up (Z.quot (a * prec * prec) b).

(** QuoInt, QuoInt64: big.Int.Quo. *)
Definition dquo_int (a : dec) (i : Z) : dec := Z.quot a i.

(** TruncateInt, RoundInt (results are integers, not decs). *)
Definition truncate (a : dec) : Z := Z.quot a prec.
Definition round_int (a : dec) : Z := chop a.

(** TruncateDec *)
Definition truncate_dec (a : dec) : dec := of_int (truncate a).

(** Ceil: QuoRem by 10^18; a zero or negative remainder keeps the (truncated)
    quotient, a positive one adds 1. *)
Definition ceil_int (a : dec) : Z :=
  let q := Z.quot a prec in
  let r := Z.rem a prec in
  if r =? 0 then q else if r <? 0 then q else q + 1.
Definition ceil (a : dec) : dec := of_int (ceil_int a).

Definition dmax (a b : dec) : dec := if a <? b then b else a.   (* LegacyMaxDec *)
Definition dmin (a b : dec) : dec := if a <? b then a else b.   (* LegacyMinDec *)

Definition is_integer (a : dec) : bool := Z.rem a prec =? 0.    (* IsInteger *)

(** overflow tests: big.Int.BitLen of the result against maxDecBitLen = 256 + 59
    and MaxBitLen = 256 *)
Definition max_dec_bits : Z := 315.
Definition fits (x : Z) : bool := Z.abs x <? 2 ^ max_dec_bits.
Definition fits_int (x : Z) : bool := Z.abs x <? 2 ^ 256.

(** ---- correspondence support: one library call as data, so that the harness
    can compare every function above with the real cosmossdk.io/math. ---- *)
From Coq Require Import List NArith.
Import ListNotations.

Definition dec_eval (op : N) (a b : Z) : Z :=
  match op with
  | 0%N => dmul a b
  | 1%N => dquo a b
  | 2%N => dmul_int a b
  | 3%N => dquo_int a b
  | 4%N => truncate a
  | 5%N => round_int a
  | 6%N => ceil a
  | 7%N => dmul_trunc a b
  | 8%N => dquo_trunc a b
  | 9%N => dmul_up a b
  | 10%N => dquo_up a b
  | 11%N => dmax a b
  | 12%N => dmin a b
  | 13%N => if is_integer a then 1 else 0
  | 14%N => if fits a then 1 else 0
  | 15%N => of_int a
  | _ => 0
  end.

(** a case: (op, a, b, result observed from the Go library) *)
Fixpoint dec_mismatches_from (i : nat) (cs : list (N * Z * Z * Z)) : list nat :=
  match cs with
  | [] => []
  | (op, a, b, r) :: t =>
      if dec_eval op a b =? r then dec_mismatches_from (S i) t
      else i :: dec_mismatches_from (S i) t
  end.
Definition dec_mismatches cs := dec_mismatches_from 0 cs.
