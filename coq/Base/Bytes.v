(** Byte strings, big-endian minimal integers (Go's [big.Int.Bytes] /
    [big.Int.SetBytes]) and hexadecimal text (go-ethereum's [hexutil.Encode],
    [common.FromHex]).  Shared infrastructure: definitions and their lemmas.

    A byte is an [N]; a byte string is a [list N].  Validity (every element
    below 256) is a separate predicate [valid_bytes]: most lemmas do not need it. *)
From Coq Require Import Ascii String.
From Coq Require Import NArith ZArith List Lia Bool.
Import ListNotations.
Local Open Scope N_scope.

Notation bytes := (list N) (only parsing).

Definition valid_bytes (l : bytes) : Prop := Forall (fun b => b < 256) l.
Definition valid_bytesb (l : bytes) : bool := forallb (fun b => b <? 256) l.

Lemma valid_bytesb_spec l : valid_bytesb l = true <-> valid_bytes l.
Proof.
  unfold valid_bytesb, valid_bytes. rewrite forallb_forall, Forall_forall.
  split; intros H x Hx; specialize (H x Hx); [apply N.ltb_lt in H | apply N.ltb_lt]; exact H.
Qed.

Definition len (l : bytes) : N := N.of_nat (length l).

(** * Big-endian minimal encoding of a natural number

    [le_digits fuel n] lists the base-256 digits of [n], least significant
    first, stopping at the last non-zero digit (so [0] has no digits);
    [be_encode n] is the reversed list: exactly [new(big.Int).SetUint64(n).Bytes()]
    / [x.Bytes()] for a non-negative [x]. *)
Fixpoint le_digits (fuel : nat) (n : N) : bytes :=
  match fuel with
  | O => []
  | S f => if n =? 0 then [] else (n mod 256) :: le_digits f (n / 256)
  end.

Definition be_encode (n : N) : bytes := rev (le_digits (N.size_nat n) n).

(** [big.Int.SetBytes]: Horner evaluation, most significant byte first. *)
Definition be_decode (bs : bytes) : N := fold_left (fun a b => a * 256 + b) bs 0.

Fixpoint le_value (bs : bytes) : N :=
  match bs with [] => 0 | b :: r => b + 256 * le_value r end.

Lemma be_decode_app l b : be_decode (l ++ [b]) = be_decode l * 256 + b.
Proof. unfold be_decode. rewrite fold_left_app. reflexivity. Qed.

Lemma be_decode_rev l : be_decode (rev l) = le_value l.
Proof.
  induction l as [|b r IH]; [reflexivity|]. cbn [rev le_value].
  rewrite be_decode_app, IH. lia.
Qed.

Lemma le_digits_value fuel : forall n, n < 2 ^ N.of_nat fuel -> le_value (le_digits fuel n) = n.
Proof.
  induction fuel as [|f IH]; intros n Hn.
  - cbn in Hn. assert (n = 0) by lia. subst. reflexivity.
  - cbn [le_digits]. destruct (N.eqb_spec n 0) as [->|Hnz]; [reflexivity|].
    cbn [le_value]. rewrite IH.
    + pose proof (N.div_mod n 256). lia.
    + rewrite Nat2N.inj_succ, N.pow_succ_r' in Hn.
      apply N.div_lt_upper_bound; [lia|]. lia.
Qed.

Lemma size_nat_bound n : n < 2 ^ N.of_nat (N.size_nat n).
Proof.
  destruct n as [|p]; [cbn; lia|].
  cbn [N.size_nat]. induction p as [p IH|p IH|]; cbn [Pos.size_nat].
  - rewrite Nat2N.inj_succ, N.pow_succ_r'. lia.
  - rewrite Nat2N.inj_succ, N.pow_succ_r'. lia.
  - cbn. lia.
Qed.

(** [SetBytes (Bytes n) = n] *)
Theorem be_decode_encode n : be_decode (be_encode n) = n.
Proof. unfold be_encode. rewrite be_decode_rev. apply le_digits_value, size_nat_bound. Qed.

Theorem be_encode_inj a b : be_encode a = be_encode b -> a = b.
Proof. intros H. rewrite <- (be_decode_encode a), <- (be_decode_encode b), H. reflexivity. Qed.

Lemma le_digits_valid fuel : forall n, valid_bytes (le_digits fuel n).
Proof.
  induction fuel as [|f IH]; intros n; cbn [le_digits]; [constructor|].
  destruct (n =? 0); [constructor|]. constructor; [|apply IH].
  apply N.mod_lt. lia.
Qed.

Lemma be_encode_valid n : valid_bytes (be_encode n).
Proof. unfold be_encode, valid_bytes. apply Forall_rev, le_digits_valid. Qed.

Lemma le_digits_length fuel : forall n k, n < 256 ^ N.of_nat k -> (length (le_digits fuel n) <= k)%nat.
Proof.
  induction fuel as [|f IH]; intros n k Hn; cbn [le_digits]; [cbn; lia|].
  destruct (N.eqb_spec n 0) as [->|Hnz]; [cbn; lia|].
  destruct k as [|k]; [cbn in Hn; lia|].
  cbn [length]. apply le_n_S, IH.
  rewrite Nat2N.inj_succ, N.pow_succ_r' in Hn.
  apply N.div_lt_upper_bound; lia.
Qed.

(** a number below [256^k] has at most [k] bytes *)
Lemma be_encode_length n k : n < 256 ^ N.of_nat k -> (length (be_encode n) <= k)%nat.
Proof. intros H. unfold be_encode. rewrite rev_length. apply le_digits_length, H. Qed.

Lemma be_encode_0 : be_encode 0 = [].
Proof. reflexivity. Qed.

Lemma be_encode_nonempty n : n <> 0 -> be_encode n <> [].
Proof.
  intros Hn H. apply Hn. rewrite <- (be_decode_encode n), H. reflexivity.
Qed.

(** minimality: the leading byte of the encoding is never zero *)
Lemma le_digits_last_nonzero fuel : forall n, n < 2 ^ N.of_nat fuel ->
  last (le_digits fuel n) 1 <> 0.
Proof.
  induction fuel as [|f IH]; intros n Hn; cbn [le_digits]; [cbn; lia|].
  destruct (N.eqb_spec n 0) as [->|Hnz]; [cbn; lia|].
  assert (Hq : n / 256 < 2 ^ N.of_nat f).
  { rewrite Nat2N.inj_succ, N.pow_succ_r' in Hn. apply N.div_lt_upper_bound; lia. }
  specialize (IH _ Hq).
  pose proof (N.div_mod n 256 ltac:(lia)) as Hdm.
  destruct f as [|f'].
  - cbn in Hq. cbn [le_digits last].
    set (q := n / 256) in *. set (r := n mod 256) in *. clearbody q r. lia.
  - cbn [le_digits] in *. destruct (N.eqb_spec (n / 256) 0) as [E|E].
    + cbn [last]. set (q := n / 256) in *. set (r := n mod 256) in *. clearbody q r. lia.
    + remember (le_digits f' (n / 256 / 256)) as t. cbn [last] in *. exact IH.
Qed.

Lemma be_encode_head_nonzero n : hd 1 (be_encode n) <> 0.
Proof.
  unfold be_encode. pose proof (le_digits_last_nonzero _ _ (size_nat_bound n)) as H.
  remember (le_digits (N.size_nat n) n) as l. clear Heql.
  assert (G : forall (l : bytes) d, hd d (rev l) = last l d).
  { clear. induction l as [|a r IH]; intros d; [reflexivity|].
    destruct r as [|b r']; [reflexivity|].
    change (last (a :: b :: r') d) with (last (b :: r') d). rewrite <- IH.
    change (rev (a :: b :: r')) with (rev (b :: r') ++ [a]).
    destruct (rev (b :: r')) eqn:E; [|reflexivity].
    cbn [rev] in E. destruct (rev r'); discriminate. }
  rewrite G. exact H.
Qed.

(** * Integers of the [Z] kind ([big.Int]): [Bytes] drops the sign. *)
Definition z_bytes (x : Z) : bytes := be_encode (Z.abs_N x).
Definition z_of_bytes (b : bytes) : Z := Z.of_N (be_decode b).

Lemma z_bytes_roundtrip x : (0 <= x)%Z -> z_of_bytes (z_bytes x) = x.
Proof. intros H. unfold z_of_bytes, z_bytes. rewrite be_decode_encode. lia. Qed.

Lemma z_bytes_empty_iff x : z_bytes x = [] <-> x = 0%Z.
Proof.
  unfold z_bytes. split.
  - intros H. destruct (N.eq_dec (Z.abs_N x) 0) as [E|E]; [lia|]. destruct (be_encode_nonempty _ E H).
  - intros ->. reflexivity.
Qed.

(** [big.Int.BitLen() <= 256] *)
Definition fits256 (x : Z) : bool := (Z.abs x <? 2 ^ 256)%Z.

(** * Hexadecimal text *)

(** digit value of a character, both cases accepted ([encoding/hex]) *)
Definition hexval (c : ascii) : option N :=
  let n := N_of_ascii c in
  if (48 <=? n) && (n <=? 57) then Some (n - 48)
  else if (97 <=? n) && (n <=? 102) then Some (n - 87)
  else if (65 <=? n) && (n <=? 70) then Some (n - 55)
  else None.

(** the character of a digit; [up] asks for the upper-case letter (EIP-55) *)
Definition hexchar (up : bool) (d : N) : ascii :=
  if d <? 10 then ascii_of_N (48 + d) else if up then ascii_of_N (55 + d) else ascii_of_N (87 + d).

Lemma hexval_hexchar up d : d < 16 -> hexval (hexchar up d) = Some d.
Proof.
  intros H. unfold hexchar.
  assert (C : d = 0 \/ d = 1 \/ d = 2 \/ d = 3 \/ d = 4 \/ d = 5 \/ d = 6 \/ d = 7 \/ d = 8 \/ d = 9 \/
              d = 10 \/ d = 11 \/ d = 12 \/ d = 13 \/ d = 14 \/ d = 15) by lia.
  destruct up; repeat (destruct C as [->|C]; [reflexivity|]); subst; reflexivity.
Qed.

(** [hex_of up i bs]: two characters per byte, most significant nibble first;
    [up k] decides the case of the [k]-th character (counting from [i]). *)
Fixpoint hex_of (up : nat -> bool) (i : nat) (bs : bytes) : string :=
  match bs with
  | [] => EmptyString
  | b :: r => String (hexchar (up i) (b / 16)) (String (hexchar (up (S i)) (b mod 16)) (hex_of up (S (S i)) r))
  end.

(** strict decoding of an even-length hex string *)
Fixpoint unhex (s : string) : option bytes :=
  match s with
  | EmptyString => Some []
  | String a (String b r) =>
      match hexval a, hexval b, unhex r with
      | Some x, Some y, Some t => Some ((x * 16 + y) :: t)
      | _, _, _ => None
      end
  | String _ EmptyString => None
  end.

Lemma unhex_hex_of up bs : forall i, valid_bytes bs -> unhex (hex_of up i bs) = Some bs.
Proof.
  induction bs as [|b r IH]; intros i Hv; [reflexivity|].
  inversion Hv as [|? ? Hb Hr]; subst. cbn [hex_of unhex].
  rewrite !hexval_hexchar, IH by (try apply N.div_lt_upper_bound; try apply N.mod_lt; try assumption; lia).
  f_equal. f_equal. pose proof (N.div_mod b 16). lia.
Qed.

(** total version used for case files: malformed input gives [[]] *)
Definition unhex_or_nil (s : string) : bytes := match unhex s with Some b => b | None => [] end.

Definition strip0x (s : string) : string :=
  match s with
  | String "0"%char (String "x"%char r) => r
  | String "0"%char (String "X"%char r) => r
  | _ => s
  end.

(** ["0x" ++ hex] as printed by [hexutil.Encode] / [Address.Hex] *)
Definition hex0x (up : nat -> bool) (bs : bytes) : string := String "0"%char (String "x"%char (hex_of up 0 bs)).

(** [common.HexToAddress] / [common.HexToHash] restricted to what the codec
    ever stores: "0x" followed by exactly [2*n] hex digits.  Any other string
    yields [None] here (the Go functions crop / pad instead; [Validate] refuses
    such a [To], and nothing else ever writes one). *)
Definition parse_hex_fixed (n : nat) (s : string) : option bytes :=
  match unhex (strip0x s) with
  | Some b => if Nat.eqb (length b) n then Some b else None
  | None => None
  end.

Lemma parse_hex0x up n bs : valid_bytes bs -> length bs = n -> parse_hex_fixed n (hex0x up bs) = Some bs.
Proof.
  intros Hv Hl. unfold parse_hex_fixed, hex0x. cbn [strip0x].
  rewrite unhex_hex_of by exact Hv. rewrite Hl, Nat.eqb_refl. reflexivity.
Qed.

(** lower-casing (for comparing checksummed text case-insensitively) *)
Definition lower_char (c : ascii) : ascii :=
  let n := N_of_ascii c in if (65 <=? n) && (n <=? 90) then ascii_of_N (n + 32) else c.
Fixpoint lower (s : string) : string :=
  match s with EmptyString => EmptyString | String c r => String (lower_char c) (lower r) end.
