(** Property C19 — an exported genesis re-imports to the same module state.
    Per Haqq module: [export : state -> gen] and [init : .. -> gen -> state]
    are the transcriptions of ExportGenesis / InitGenesis (coq/Genesis/*Model.v);
    each theorem is closed by a lemma of coq/Genesis/*Proofs.v and followed by
    [Print Assumptions].  [.._wf] is the module's own invariant; it is shown to
    hold after InitGenesis and to be preserved by the module's operations.
    Parameter validation, Keccak ([hash]) and the pair id hash ([pid]) enter as
    universally quantified functions. *)
From Coq Require Import ZArith NArith List.
From stdpp Require Import gmap.
From HV Require Import Genesis.Common Genesis.SimpleModel Genesis.SimpleProofs
  Genesis.Erc20Model Genesis.Erc20Proofs Genesis.DaoModel Genesis.DaoProofs
  Genesis.EvmModel Genesis.EvmProofs.
Import ListNotations.
Local Open Scope Z_scope.

(** ** coinomics (code after the "fix:" commit = [co_init valid true]) *)
Theorem C19_coinomics_export_init_export :
  forall valid s, co_wf valid s ->
    co_export <$> co_init valid true (co_export s) = Some (co_export s).
Proof. exact co_export_init_export. Qed.
Print Assumptions C19_coinomics_export_init_export.

Theorem C19_coinomics_query_equiv :
  forall valid s q, co_wf valid s ->
    co_ask q <$> co_init valid true (co_export s) = Some (co_ask q s).
Proof. exact co_query_equiv. Qed.
Print Assumptions C19_coinomics_query_equiv.

Theorem C19_coinomics_invariant :
  forall valid, (forall fixed g s, co_init valid fixed g = Some s -> co_wf valid s) /\
                (forall ops s, co_wf valid s -> co_wf valid (fold_left (co_step valid) ops s)).
Proof. exact (fun valid => conj (co_init_wf valid) (co_run_wf valid)). Qed.
Print Assumptions C19_coinomics_invariant.

(** F3: the pinned InitGenesis never imported PrevBlockTs — the exported
    1700000015000 comes back as 0, and the first block after the re-import
    mints nothing where the original chain mints for 5000 ms. *)
Theorem C19_coinomics_roundtrip_refuted :
  co_wf (fun _ => true) co_witness /\
  (co_export <$> co_init (fun _ => true) false (co_export co_witness))
     = Some (mk_cog 0%N 0 (0%N, 100000000000000000000000000000)) /\
  cg_prev (co_export co_witness) = 1700000015000 /\
  (co_ask (CoQNextElapsed 1700000020000) <$> co_init (fun _ => true) false (co_export co_witness))
     = Some (CoAO None) /\
  co_ask (CoQNextElapsed 1700000020000) co_witness = CoAO (Some 5000).
Proof. exact coinomics_roundtrip_refuted_lemma. Qed.
Print Assumptions C19_coinomics_roundtrip_refuted.

(** ** fee market (no invariant needed) *)
Theorem C19_feemarket_export_init_export :
  forall s, fm_export (fm_init (fm_export s)) = fm_export s.
Proof. exact fm_export_init_export. Qed.
Print Assumptions C19_feemarket_export_init_export.

Theorem C19_feemarket_query_equiv :
  forall (A : Type) (base_fee_of : N -> A) q s,
    fm_ask base_fee_of q (fm_init (fm_export s)) = fm_ask base_fee_of q s.
Proof. exact @fm_query_equiv. Qed.
Print Assumptions C19_feemarket_query_equiv.

(** ** epochs: K8 *)
(** The statement of the property fails for the code as it is: *)
Theorem C19_epochs_roundtrip_refuted :
  ep_wf ep_witness /\
  ep_export ep_witness = [(0%N, mk_ep 1700000000000000000 86400000000000 1 1700000000000000000 true 1)] /\
  ep_export (ep_init 4 1700000015000000000 (ep_export ep_witness))
    = [(0%N, mk_ep 1700000000000000000 86400000000000 1 1700000000000000000 true 4)].
Proof. exact epochs_roundtrip_refuted_lemma. Qed.
Print Assumptions C19_epochs_roundtrip_refuted.

(** ... in exactly one field: everything but CurrentEpochStartHeight survives
    (under the invariant "no stored start time is zero"), that field becomes the
    init height; the epoch queries that do not show it answer identically. *)
Theorem C19_epochs_roundtrip_modulo_start_height_partial :
  forall h t s, ep_wf s ->
    ep_export (ep_init h t (ep_export s)) = ep_export (ep_set_height h <$> s).
Proof. exact ep_roundtrip_modulo_height. Qed.
Print Assumptions C19_epochs_roundtrip_modulo_start_height_partial.

Theorem C19_epochs_query_equiv_partial :
  forall h t s q, ep_wf s -> ep_ask q (ep_init h t (ep_export s)) = ep_ask q s.
Proof. exact ep_query_equiv. Qed.
Print Assumptions C19_epochs_query_equiv_partial.

Theorem C19_epochs_invariant :
  (forall h t g, t <> 0 -> ep_wf (ep_init h t g)) /\
  (forall h t s, ep_wf s -> ep_wf (ep_begin_block h t s)).
Proof. exact (conj ep_init_wf ep_begin_wf). Qed.
Print Assumptions C19_epochs_invariant.

(** a faithful import (what the property demands) round-trips exactly *)
Theorem C19_epochs_spec_roundtrip : forall s, ep_init_spec (ep_export s) = s.
Proof. exact ep_spec_roundtrip. Qed.
Print Assumptions C19_epochs_spec_roundtrip.

(** ** erc20: the whole state, both secondary indexes included, comes back *)
Theorem C19_erc20_init_export :
  forall pid, (forall a d a' d', pid a d = pid a' d' -> a = a' /\ d = d') ->
  forall s, e2_wf pid s -> e2_init pid (e2_export s) = s.
Proof. exact (fun pid _ => e2_init_export pid). Qed.
Print Assumptions C19_erc20_init_export.

Theorem C19_erc20_export_init_export :
  forall pid s, e2_wf pid s -> e2_export (e2_init pid (e2_export s)) = e2_export s.
Proof. exact e2_export_init_export. Qed.
Print Assumptions C19_erc20_export_init_export.

Theorem C19_erc20_query_equiv :
  forall pid s q, e2_wf pid s -> e2_ask q (e2_init pid (e2_export s)) = e2_ask q s.
Proof. exact e2_query_equiv. Qed.
Print Assumptions C19_erc20_query_equiv.

Theorem C19_erc20_invariant :
  forall pid, (forall a d a' d', pid a d = pid a' d' -> a = a' /\ d = d') ->
    (forall g, NoDup (map tp_denom (eg_pairs g)) -> NoDup (map tp_erc20 (eg_pairs g)) -> e2_wf pid (e2_init pid g)) /\
    (forall ops s, e2_wf pid s -> e2_wf pid (fold_left (e2_step pid) ops s)).
Proof. exact (fun pid Hinj => conj (e2_init_wf pid Hinj) (e2_run_wf pid Hinj)). Qed.
Print Assumptions C19_erc20_invariant.

(** ** liquid vesting *)
Theorem C19_liquidvesting_export_init_export :
  forall valid s, lv_wf valid s -> lv_export <$> lv_init valid (lv_export s) = Some (lv_export s).
Proof. exact lv_export_init_export. Qed.
Print Assumptions C19_liquidvesting_export_init_export.

Theorem C19_liquidvesting_query_equiv :
  forall valid s q, lv_wf valid s -> lv_ask q <$> lv_init valid (lv_export s) = Some (lv_ask q s).
Proof. exact lv_query_equiv. Qed.
Print Assumptions C19_liquidvesting_query_equiv.

Theorem C19_liquidvesting_invariant :
  forall valid name_of,
    (forall g s, lv_init valid g = Some s -> lv_wf valid s) /\
    (forall ops s, lv_wf valid s -> lv_wf valid (fold_left (lv_step valid name_of) ops s)).
Proof. exact (fun valid name_of => conj (lv_init_wf valid) (lv_run_wf valid name_of)). Qed.
Print Assumptions C19_liquidvesting_invariant.

(** ** UC DAO: balances, total, and the two indexes that are not exported *)
Theorem C19_ucdao_init_export :
  forall s, dao_wf s -> dao_init (dao_export s) = Some s.
Proof. exact dao_init_export. Qed.
Print Assumptions C19_ucdao_init_export.

Theorem C19_ucdao_export_init_export :
  forall s, dao_wf s -> dao_export <$> dao_init (dao_export s) = Some (dao_export s).
Proof. exact dao_export_init_export. Qed.
Print Assumptions C19_ucdao_export_init_export.

Theorem C19_ucdao_query_equiv :
  forall s q, dao_wf s -> dao_ask q <$> dao_init (dao_export s) = Some (dao_ask q s).
Proof. exact dao_query_equiv. Qed.
Print Assumptions C19_ucdao_query_equiv.

(** all states reachable by fund / transfer / parameter changes round-trip *)
Theorem C19_ucdao_reachable_roundtrip :
  forall p ops, let s := fold_left dao_step ops (mk_dao p ∅ ∅ ∅ ∅) in
    dao_wf s /\ dao_init (dao_export s) = Some s.
Proof. exact (fun p ops => conj (dao_run_wf ops _ (dao_wf_empty p)) (dao_reachable_roundtrip p ops)). Qed.
Print Assumptions C19_ucdao_reachable_roundtrip.

(** ** EVM: code and storage of every account, parameters.
    [auth] maps every address of the auth module to (account kind, code hash); ExportGenesis
    ([evm_export]) visits the kinds that implement the interface EthAccountI: the plain
    EthAccount and the ClawbackVestingAccount. *)
Theorem C19_evm_export_init_export :
  forall hash valid norm, (forall x y, hash x = hash y -> x = y) ->
  forall auth s, evm_wf hash valid norm auth s ->
    evm_export auth <$> evm_init hash valid norm auth (evm_export auth s) = Some (evm_export auth s).
Proof. exact evm_export_init_export. Qed.
Print Assumptions C19_evm_export_init_export.

Theorem C19_evm_query_equiv :
  forall hash valid norm, (forall x y, hash x = hash y -> x = y) ->
  forall auth s q, evm_wf hash valid norm auth s ->
    evm_ask auth q <$> evm_init hash valid norm auth (evm_export auth s) = Some (evm_ask auth q s).
Proof. exact evm_query_equiv. Qed.
Print Assumptions C19_evm_query_equiv.

(** the invariant: re-established by InitGenesis, preserved by every operation -- contract creation
    onto a fresh address or onto an account of any kind that is already there (a clawback vesting
    account created ahead of the deployment), account creation of every kind, conversion into a
    vesting account and back, SSTORE, self-destruct, parameter change; [op_ok]: SSTORE happens at
    accounts that implement EthAccountI (code only runs where a code hash can be recorded) *)
Theorem C19_evm_invariant :
  forall hash valid norm, (forall x y, hash x = hash y -> x = y) -> (forall p, norm (norm p) = norm p) ->
    (forall auth s s', evm_wf hash valid norm auth s ->
        evm_init hash valid norm auth (evm_export auth s) = Some s' -> evm_wf hash valid norm auth s') /\
    (forall auth s o, evm_wf hash valid norm auth s -> op_ok auth o = true ->
        let '(auth', s') := evm_step hash valid norm (auth, s) o in evm_wf hash valid norm auth' s').
Proof.
  exact (fun hash valid norm Hinj Hidem =>
           conj (evm_init_wf_of_export hash valid norm Hinj) (evm_step_wf hash valid norm Hidem)).
Qed.
Print Assumptions C19_evm_invariant.

(** init (export s) = s on the EVM projection, for ALL states: the parameters, the storage of every
    address and the code of every address come back, whatever kind of account sits there (eth and
    clawback vesting accounts carry code; base and module accounts have none before and after) *)
Theorem C19_evm_init_export_projection :
  forall hash valid norm, (forall x y, hash x = hash y -> x = y) ->
  forall auth s, evm_wf hash valid norm auth s ->
    exists s', evm_init hash valid norm auth (evm_export auth s) = Some s' /\
      ev_params s' = ev_params s /\
      (forall a, stor s' a = stor s a) /\
      (forall a, code_at auth s' a = code_at auth s a).
Proof. exact evm_init_export_projection. Qed.
Print Assumptions C19_evm_init_export_projection.

(** the same for ANY selection [sel] of the account kinds that ExportGenesis visits, under exactly two
    hypotheses: it selects only kinds that InitGenesis accepts ([sel_sound]) and it selects every
    account that holds code or storage ([sel_covers]) *)
Theorem C19_evm_selection_export_init_export :
  forall hash valid norm, (forall x y, hash x = hash y -> x = y) ->
  forall sel auth s, sel_sound sel -> sel_covers sel auth s -> evm_wf hash valid norm auth s ->
    evm_export_sel sel auth <$> evm_init hash valid norm auth (evm_export_sel sel auth s)
      = Some (evm_export_sel sel auth s).
Proof. exact evm_sel_export_init_export. Qed.
Print Assumptions C19_evm_selection_export_init_export.

Theorem C19_evm_selection_query_equiv :
  forall hash valid norm, (forall x y, hash x = hash y -> x = y) ->
  forall sel auth s q, sel_sound sel -> sel_covers sel auth s -> evm_wf hash valid norm auth s ->
    evm_ask auth q <$> evm_init hash valid norm auth (evm_export_sel sel auth s) = Some (evm_ask auth q s).
Proof. exact evm_sel_query_equiv. Qed.
Print Assumptions C19_evm_selection_query_equiv.

(** the selection by the interface satisfies both hypotheses in every state *)
Theorem C19_evm_interface_selection_covers :
  sel_sound implements_eth /\ forall auth s, sel_covers implements_eth auth s.
Proof. exact (conj implements_sound implements_covers). Qed.
Print Assumptions C19_evm_interface_selection_covers.

(** every state reached from the empty one by [op_ok] operations satisfies the invariant *)
Theorem C19_evm_reachable_invariant :
  forall hash valid norm, (forall p, norm (norm p) = norm p) ->
  forall p ops, valid p = true -> norm p = p ->
    run_ok hash valid norm (∅, mk_evm p ∅ ∅) ops = true ->
    let r := fold_left (evm_step hash valid norm) ops (∅, mk_evm p ∅ ∅) in evm_wf hash valid norm r.1 r.2.
Proof.
  exact (fun hash valid norm Hidem p ops Hv Hn Hok =>
           evm_run_wf hash valid norm Hidem ops (∅, mk_evm p ∅ ∅) (evm_wf_empty hash valid norm p Hv Hn) Hok).
Qed.
Print Assumptions C19_evm_reachable_invariant.

(** The hypothesis about the selection is exactly what matters: selecting by the concrete type
    *EthAccount is sound but does not cover the (reachable, invariant-satisfying) witness state
    [toy_run] in which the clawback vesting account 7 holds the contract 66 and the slot 0 -> 42
    (vesting account created first, contract deployed onto its address afterwards): its entry is
    missing from the exported document, and after the re-import the code and the storage of 7 are
    gone, while the selection of the code keeps both. *)
Theorem C19_evm_concrete_selection_refuted :
  let v := fun _ : N => true in let nm := fun p : N => p in
  let auth := toy_run.1 in let s := toy_run.2 in
  evm_wf toy_hash v nm auth s /\
  sel_sound concrete_eth /\ ~ sel_covers concrete_eth auth s /\
  auth !! 7%N = Some (KClawback, 1066%N) /\
  evm_export_sel concrete_eth auth s = mk_evmg 4 [mk_ea 2 77 [(3, 0); (5, 9)]; mk_ea 9 0 []]%N /\
  evm_ask auth (EvQCode 7) s = EvAN 66 /\
  evm_ask auth (EvQStorage 7 0) s = EvAO (Some 42%N) /\
  (evm_ask auth (EvQCode 7) <$> evm_init toy_hash v nm auth (evm_export_sel concrete_eth auth s)) = Some (EvAN 0) /\
  (evm_ask auth (EvQStorage 7 0) <$> evm_init toy_hash v nm auth (evm_export_sel concrete_eth auth s)) = Some (EvAO None) /\
  (evm_ask auth (EvQCode 7) <$> evm_init toy_hash v nm auth (evm_export auth s)) = Some (EvAN 66) /\
  (evm_ask auth (EvQStorage 7 0) <$> evm_init toy_hash v nm auth (evm_export auth s)) = Some (EvAO (Some 42%N)).
Proof. exact evm_concrete_selection_refuted_lemma. Qed.
Print Assumptions C19_evm_concrete_selection_refuted.

(** Outside the invariant (a candidate finding, reproduced on the real code with a genesis file that
    holds an SDK BaseAccount at the CREATE address of a deployer): an account kind without a code hash
    at a contract creation address.  The deployment succeeds, no code hash can be recorded (the contract
    never answers), the constructor's storage lands under the address -- the run is not [run_ok], the
    state is not [evm_wf], the account is not exported and its storage is gone after the re-import. *)
Theorem C19_evm_base_account_storage_refuted :
  let v := fun _ : N => true in let nm := fun p : N => p in
  let auth := base_run.1 in let s := base_run.2 in
  run_ok toy_hash v nm (∅, mk_evm 0 ∅ ∅) base_ops = false /\
  ~ evm_wf toy_hash v nm auth s /\
  auth !! 5%N = Some (KBase, 1000%N) /\
  evm_export auth s = mk_evmg 0 [mk_ea 1 0 []]%N /\
  evm_ask auth (EvQCode 5) s = EvAN 0 /\
  evm_ask auth (EvQStorage 5 0) s = EvAO (Some 42%N) /\
  (evm_ask auth (EvQStorage 5 0) <$> evm_init toy_hash v nm auth (evm_export auth s)) = Some (EvAO None).
Proof. exact evm_base_account_storage_refuted_lemma. Qed.
Print Assumptions C19_evm_base_account_storage_refuted.

(** ** EVM: storage survives whatever the code of its account
    For ALL states satisfying the invariant, every storage slot of every address comes back after
    export -> InitGenesis (state, single-slot query, whole-storage query): InitGenesis runs the SetState
    loop for every exported account -- there is no shortcut for accounts whose code is empty. *)
Theorem C19_evm_storage_survives :
  forall hash valid norm, (forall x y, hash x = hash y -> x = y) ->
  forall auth s, evm_wf hash valid norm auth s ->
    exists s', evm_init hash valid norm auth (evm_export auth s) = Some s' /\
      (forall a, stor s' a = stor s a) /\
      (forall a k, evm_ask auth (EvQStorage a k) s' = evm_ask auth (EvQStorage a k) s) /\
      (forall a, evm_ask auth (EvQAccountStorage a) s' = evm_ask auth (EvQAccountStorage a) s).
Proof. exact evm_storage_survives. Qed.
Print Assumptions C19_evm_storage_survives.

(** ... stated separately for an address WITHOUT code.  Empty code does not mean "externally owned
    account": a contract creation whose constructor executes SSTORE and returns zero-length code (or
    STOPs) leaves an account with the empty code hash AND storage ([EvCreate a 0] followed by [EvSStore]).
    For every such address of every well-formed state: the re-imported state holds the same storage
    there and still no code, every stored slot answers its value, the second document equals the first,
    and both list the account with code "" and exactly its storage. *)
Theorem C19_evm_codeless_storage_survives :
  forall hash valid norm, (forall x y, hash x = hash y -> x = y) ->
  forall auth s a, evm_wf hash valid norm auth s -> code_at auth s a = 0%N ->
    exists s', evm_init hash valid norm auth (evm_export auth s) = Some s' /\
      code_at auth s' a = 0%N /\
      stor s' a = stor s a /\
      (forall k v, stor s a !! k = Some v -> evm_ask auth (EvQStorage a k) s' = EvAO (Some v)) /\
      evm_export auth s' = evm_export auth s /\
      (stor s a <> ∅ ->
       mk_ea a 0%N (export_map (stor s a)) ∈ vg_accounts (evm_export auth s) /\
       mk_ea a 0%N (export_map (stor s a)) ∈ vg_accounts (evm_export auth s')).
Proof. exact evm_codeless_storage_survives. Qed.
Print Assumptions C19_evm_codeless_storage_survives.

(** non-vacuity: [codeless_run] is reached from the empty state by [run_ok] operations (creation with
    empty runtime at the fresh address 4 and at the clawback vesting account 6, the constructor's SSTOREs,
    the control 5 with one byte of code, the externally owned account 1), satisfies the invariant, and
    address 4 has no code and the slot 0 -> 42, which is exported and comes back. *)
Example C19_evm_codeless_storage_nonvacuous :
  let v := fun _ : N => true in let nm := fun p : N => p in
  let auth := codeless_run.1 in let s := codeless_run.2 in
  run_ok toy_hash v nm (∅, mk_evm 0 ∅ ∅) codeless_ops = true /\
  evm_wf toy_hash v nm auth s /\
  auth !! 4%N = Some (KEth, toy_hash 0) /\ auth !! 6%N = Some (KClawback, toy_hash 0) /\
  code_at auth s 4 = 0%N /\ code_at auth s 6 = 0%N /\ code_at auth s 5 = 1%N /\
  stor s 4 !! 0%N = Some 42%N /\ stor s 4 <> ∅ /\
  evm_export auth s
    = mk_evmg 0 [mk_ea 1 0 []; mk_ea 4 0 [(0, 42)]; mk_ea 5 1 [(0, 42)]; mk_ea 6 0 [(0, 42); (1, 7)]]%N /\
  (evm_ask auth (EvQStorage 4 0) <$> evm_init toy_hash v nm auth (evm_export auth s)) = Some (EvAO (Some 42%N)) /\
  (evm_ask auth (EvQAccountStorage 6) <$> evm_init toy_hash v nm auth (evm_export auth s))
    = Some (EvAL [(0, 42); (1, 7)]%N) /\
  (evm_export auth <$> evm_init toy_hash v nm auth (evm_export auth s)) = Some (evm_export auth s).
Proof. exact evm_codeless_nonvacuous_lemma. Qed.
Print Assumptions C19_evm_codeless_storage_nonvacuous.

(** The shape of a seeded defect, refuted on that state: an InitGenesis that takes the exported accounts
    with empty code for externally owned accounts and skips them before SetCode and the storage loop
    ([evm_init_skip_codeless]).  The first document is the same; the skipping import loses the slot 0 -> 42
    of 4 (and both slots of the vesting account 6): the Storage query answers nothing, the second document
    lists 4 and 6 with an empty storage list, so export o init o export <> export -- while the control 5
    (one byte of code) keeps its slot, and InitGenesis as it is ([evm_init]) keeps everything. *)
Theorem C19_evm_skip_codeless_refuted :
  let v := fun _ : N => true in let nm := fun p : N => p in
  let auth := codeless_run.1 in let s := codeless_run.2 in
  evm_wf toy_hash v nm auth s /\
  code_at auth s 4 = 0%N /\
  evm_ask auth (EvQStorage 4 0) s = EvAO (Some 42%N) /\
  (evm_ask auth (EvQStorage 4 0) <$> evm_init_skip_codeless toy_hash v nm auth (evm_export auth s)) = Some (EvAO None) /\
  (evm_ask auth (EvQStorage 6 1) <$> evm_init_skip_codeless toy_hash v nm auth (evm_export auth s)) = Some (EvAO None) /\
  (evm_ask auth (EvQStorage 5 0) <$> evm_init_skip_codeless toy_hash v nm auth (evm_export auth s)) = Some (EvAO (Some 42%N)) /\
  (evm_export auth <$> evm_init_skip_codeless toy_hash v nm auth (evm_export auth s))
    = Some (mk_evmg 0 [mk_ea 1 0 []; mk_ea 4 0 []; mk_ea 5 1 [(0, 42)]; mk_ea 6 0 []]%N) /\
  (evm_export auth <$> evm_init_skip_codeless toy_hash v nm auth (evm_export auth s)) <> Some (evm_export auth s) /\
  (evm_ask auth (EvQStorage 4 0) <$> evm_init toy_hash v nm auth (evm_export auth s)) = Some (EvAO (Some 42%N)) /\
  (evm_export auth <$> evm_init toy_hash v nm auth (evm_export auth s)) = Some (evm_export auth s).
Proof. exact evm_skip_codeless_refuted_lemma. Qed.
Print Assumptions C19_evm_skip_codeless_refuted.
