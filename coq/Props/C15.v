(** Property C15 — module accounting invariants hold after every block (PARTIAL).
    This file only states the theorems and closes each with a lemma of
    Bank/InvariantProofs.v; [Print Assumptions] follows every theorem.

    What is a theorem here: the bank's "sum of balances = supply" invariant and
    the part of the distribution module-account invariant that Haqq's own code
    can touch, for ALL sequences of the coin-moving operations of Haqq's modules
    (each transcribed as the sequence of bank primitives its Go code calls).
    What is NOT a theorem: the SDK's staking / distribution / governance
    invariants themselves (pool balances vs validator records, delegator shares,
    outstanding rewards, deposits) are SDK code; they are only sampled, by running
    every registered invariant route after every block of random histories. *)
From Coq Require Import ZArith List.
From stdpp Require Import gmap.
From HV Require Import Dao.LedgerModel Dao.LedgerProofs Bank.InvariantModel Bank.InvariantProofs.
Import ListNotations.
Local Open Scope Z_scope.

(** Each bank primitive preserves  sum over all accounts of the balance = recorded supply,  per denomination. *)
Theorem C15_send_preserves_supply_inv :
  forall b a c d x b', b_send b a c d x = Some b' ->
    (forall d, dsum (bal b) d = zget (sup b) d) -> (forall d, dsum (bal b') d = zget (sup b') d).
Proof. exact send_preserves_supply_inv. Qed.
Print Assumptions C15_send_preserves_supply_inv.

Theorem C15_mint_preserves_supply_inv :
  forall b m d x b', b_mint b m d x = Some b' ->
    (forall d, dsum (bal b) d = zget (sup b) d) -> (forall d, dsum (bal b') d = zget (sup b') d).
Proof. exact mint_preserves_supply_inv. Qed.
Print Assumptions C15_mint_preserves_supply_inv.

Theorem C15_burn_preserves_supply_inv :
  forall b m d x b', b_burn b m d x = Some b' ->
    (forall d, dsum (bal b) d = zget (sup b) d) -> (forall d, dsum (bal b') d = zget (sup b') d).
Proof. exact burn_preserves_supply_inv. Qed.
Print Assumptions C15_burn_preserves_supply_inv.

(** For every sequence of Haqq operations (coinomics mint, redirected or plain
    burn of one coin or of a coin list, DAO fund, liquidate, redeem, ERC20 conversions of native coins and of
    registered tokens, EVM SetBalance, plain sends / mints; failed operations
    leave no trace) from any state satisfying the invariant: afterwards the
    balances still add up to the supply in every denomination and no balance is
    negative. *)
Theorem C15_haqq_ops_preserve_supply_inv_partial :
  forall (ops : list hop) (s : st),
    (forall d, dsum (bal (bk s)) d = zget (sup (bk s)) d) ->
    (forall a d, 0 <= balance (bk s) a d) ->
    (forall d, dsum (bal (bk (run ops s))) d = zget (sup (bk (run ops s))) d) /\
    (forall a d, 0 <= balance (bk (run ops s)) a d).
Proof. exact haqq_ops_preserve_supply_inv. Qed.
Print Assumptions C15_haqq_ops_preserve_supply_inv_partial.

(** The redirected burn (governance deposits, slashed bonded / not-bonded
    tokens): supply unchanged, exactly x leaves the module, exactly x reaches
    the distribution account and the community pool. *)
Theorem C15_redirect_exact :
  forall s m d x s', redirected m = true -> m <> M_DISTR -> haqq_burn s m d x = Some s' ->
    sup (bk s') = sup (bk s) /\
    (forall d', zget (pool s') d' = zget (pool s) d' + (if decide (d = d') then x else 0)) /\
    outst s' = outst s /\
    (forall a' d', balance (bk s') a' d' = balance (bk s) a' d'
        - (if decide (m = a' /\ d = d') then x else 0) + (if decide (M_DISTR = a' /\ d = d') then x else 0)) /\
    0 <= x <= balance (bk s) m d.
Proof. exact redirect_exact. Qed.
Print Assumptions C15_redirect_exact.

(** ... hence "community pool + outstanding rewards <= balance of the
    distribution account" survives it: both sides grow by x. *)
Theorem C15_redirect_preserves_distr_account_inv :
  forall s m d x s', redirected m = true -> haqq_burn s m d x = Some s' ->
    (forall d, zget (pool s) d + zget (outst s) d <= balance (bk s) M_DISTR d) ->
    (forall d, zget (pool s') d + zget (outst s') d <= balance (bk s') M_DISTR d).
Proof. exact redirect_preserves_distr_account_inv. Qed.
Print Assumptions C15_redirect_preserves_distr_account_inv.

(** The same for a coin LIST: [BurnCoins(module, amounts)] takes sdk.Coins, and a governance deposit may
    hold several denominations (gov accepts any denomination).  [amount_of cs d] is Coins.AmountOf.  If the
    redirected burn of the list succeeds then the supply is unchanged and, in EVERY denomination d', exactly
    [amount_of cs d'] leaves the module and exactly that reaches the distribution account and the community
    pool; the list was valid (no denomination twice, every amount positive) and covered by the module. *)
Theorem C15_redirect_coins_exact :
  forall s m (cs : list (N * Z)) s', redirected m = true -> m <> M_DISTR -> haqq_burn_coins s m cs = Some s' ->
    sup (bk s') = sup (bk s) /\
    (forall d', zget (pool s') d' = zget (pool s) d' + amount_of cs d') /\
    outst s' = outst s /\
    (forall a' d', balance (bk s') a' d' = balance (bk s) a' d'
        - (if decide (m = a') then amount_of cs d' else 0) + (if decide (M_DISTR = a') then amount_of cs d' else 0)) /\
    NoDup (map fst cs) /\
    (forall d x, In (d, x) cs -> amount_of cs d = x /\ 0 < x <= balance (bk s) m d).
Proof. exact redirect_coins_exact. Qed.
Print Assumptions C15_redirect_coins_exact.

(** ... hence the redirected burn of a whole coin list keeps "community pool + outstanding rewards <=
    balance of the distribution account" in every denomination. *)
Theorem C15_redirect_coins_preserves_distr_account_inv :
  forall s m (cs : list (N * Z)) s', redirected m = true -> haqq_burn_coins s m cs = Some s' ->
    (forall d, zget (pool s) d + zget (outst s) d <= balance (bk s) M_DISTR d) ->
    (forall d, zget (pool s') d + zget (outst s') d <= balance (bk s') M_DISTR d).
Proof. exact redirect_coins_preserves_distr_account_inv. Qed.
Print Assumptions C15_redirect_coins_preserves_distr_account_inv.

(** Non-vacuity of the two: a deposit of two denominations is redirected as a whole (see [demo_ops]), and a
    list of which one coin is not covered, a denomination written twice or a zero amount moves nothing. *)
Theorem C15_redirect_coins_all_or_nothing :
  let s := run demo_ops st0 in
  let rejected (cs : list (N * Z)) := match haqq_burn_coins s M_GOV cs with None => true | Some _ => false end in
  rejected [(7%N, 8); (BASE, 1)] = true /\ rejected [(7%N, 2); (7%N, 2)] = true /\ rejected [(7%N, 0)] = true /\
  option_map (fun s' => (zget (pool s') 7%N, balance (bk s') M_DISTR 7%N, balance (bk s') M_GOV 7%N))
             (haqq_burn_coins s M_GOV [(7%N, 8)]) = Some (20, 20, 0).
Proof. exact demo_burn_coins_all_or_nothing. Qed.
Print Assumptions C15_redirect_coins_all_or_nothing.

(** More generally no sequence of Haqq operations that never names the
    distribution account as the paying side can make it unable to pay. *)
Theorem C15_haqq_ops_preserve_distr_account_inv_partial :
  forall (ops : list hop) (s : st),
    (forall o, In o ops -> debits_distr o = false) ->
    (forall d, zget (pool s) d + zget (outst s) d <= balance (bk s) M_DISTR d) ->
    (forall d, zget (pool (run ops s)) d + zget (outst (run ops s)) d <= balance (bk (run ops s)) M_DISTR d).
Proof. exact haqq_ops_preserve_distr_inv. Qed.
Print Assumptions C15_haqq_ops_preserve_distr_account_inv_partial.

(** A burn from any other module account is an ordinary burn: supply - x. *)
Theorem C15_plain_burn_exact :
  forall s m d x s', redirected m = false -> haqq_burn s m d x = Some s' ->
    (forall d', zget (sup (bk s')) d' = zget (sup (bk s)) d' - (if decide (d = d') then x else 0)) /\
    pool s' = pool s /\ outst s' = outst s.
Proof. exact plain_burn_exact. Qed.
Print Assumptions C15_plain_burn_exact.

Theorem C15_plain_burn_coins_exact :
  forall s m (cs : list (N * Z)) s', redirected m = false -> haqq_burn_coins s m cs = Some s' ->
    (forall d', zget (sup (bk s')) d' = zget (sup (bk s)) d' - amount_of cs d') /\
    pool s' = pool s /\ outst s' = outst s.
Proof. exact plain_burn_coins_exact. Qed.
Print Assumptions C15_plain_burn_coins_exact.

(** Non-vacuity: the empty chain satisfies both invariants, and there is a
    history in which every kind of operation succeeds (so the implications above
    are not about operations that always fail). *)
Theorem C15_invariants_hold_initially :
  (forall d, dsum (bal (bk st0)) d = zget (sup (bk st0)) d) /\ (forall a d, 0 <= balance (bk st0) a d) /\
  (forall d, zget (pool st0) d + zget (outst st0) d <= balance (bk st0) M_DISTR d).
Proof. exact (conj (proj1 inv0) (conj (proj2 inv0) distr_inv0)). Qed.
Print Assumptions C15_invariants_hold_initially.

Theorem C15_every_operation_kind_can_succeed :
  (fix go (s : st) (l : list hop) : bool :=
     match l with [] => true | o :: r => match hstep s o with Some s' => go s' r | None => false end end) st0 demo_ops = true.
Proof. exact demo_all_succeed. Qed.
Print Assumptions C15_every_operation_kind_can_succeed.
