(** Property C15 — module accounting invariants hold after every block (PARTIAL).
    This file only states the theorems and closes each with a lemma of
    Bank/InvariantProofs.v; [Print Assumptions] follows every theorem.

    What is a theorem here: the bank's "sum of balances = supply" invariant and
    the part of the distribution module-account invariant that Haqq's own code
    can touch, for ALL sequences of the coin-moving operations of Haqq's modules
    (each transcribed as the sequence of bank primitives its Go code calls).
    What is NOT a theorem: the SDK's staking / distribution / governance
    invariants themselves (pool balances vs validator records, delegator shares,
    outstanding rewards, deposits) are SDK code; they are only sampled, by running
    every registered invariant route after every block of random histories. *)
From Coq Require Import ZArith List.
From stdpp Require Import gmap.
From HV Require Import Dao.LedgerModel Dao.LedgerProofs Bank.InvariantModel Bank.InvariantProofs.
Import ListNotations.
Local Open Scope Z_scope.

(** Each bank primitive preserves  sum over all accounts of the balance = recorded supply,  per denomination. *)
Theorem C15_send_preserves_supply_inv :
  forall b a c d x b', b_send b a c d x = Some b' ->
    (forall d, dsum (bal b) d = zget (sup b) d) -> (forall d, dsum (bal b') d = zget (sup b') d).
Proof. exact send_preserves_supply_inv. Qed.
Print Assumptions C15_send_preserves_supply_inv.

Theorem C15_mint_preserves_supply_inv :
  forall b m d x b', b_mint b m d x = Some b' ->
    (forall d, dsum (bal b) d = zget (sup b) d) -> (forall d, dsum (bal b') d = zget (sup b') d).
Proof. exact mint_preserves_supply_inv. Qed.
Print Assumptions C15_mint_preserves_supply_inv.

Theorem C15_burn_preserves_supply_inv :
  forall b m d x b', b_burn b m d x = Some b' ->
    (forall d, dsum (bal b) d = zget (sup b) d) -> (forall d, dsum (bal b') d = zget (sup b') d).
Proof. exact burn_preserves_supply_inv. Qed.
Print Assumptions C15_burn_preserves_supply_inv.

(** For every sequence of Haqq operations (coinomics mint, redirected or plain
    burn of one coin or of a coin list, DAO fund, liquidate, redeem, ERC20 conversions of native coins and of
    registered tokens, EVM SetBalance, plain sends / mints; failed operations
    leave no trace) from any state satisfying the invariant: afterwards the
    balances still add up to the supply in every denomination and no balance is
    negative. *)
Theorem C15_haqq_ops_preserve_supply_inv_partial :
  forall (ops : list hop) (s : st),
    (forall d, dsum (bal (bk s)) d = zget (sup (bk s)) d) ->
    (forall a d, 0 <= balance (bk s) a d) ->
    (forall d, dsum (bal (bk (run ops s))) d = zget (sup (bk (run ops s))) d) /\
    (forall a d, 0 <= balance (bk (run ops s)) a d).
Proof. exact haqq_ops_preserve_supply_inv. Qed.
Print Assumptions C15_haqq_ops_preserve_supply_inv_partial.

(** The redirected burn (governance deposits, slashed bonded / not-bonded
    tokens): supply unchanged, exactly x leaves the module, exactly x reaches
    the distribution account and the community pool. *)
Theorem C15_redirect_exact :
  forall s m d x s', redirected m = true -> m <> M_DISTR -> haqq_burn s m d x = Some s' ->
    sup (bk s') = sup (bk s) /\
    (forall d', zget (pool s') d' = zget (pool s) d' + (if decide (d = d') then x else 0)) /\
    outst s' = outst s /\
    (forall a' d', balance (bk s') a' d' = balance (bk s) a' d'
        - (if decide (m = a' /\ d = d') then x else 0) + (if decide (M_DISTR = a' /\ d = d') then x else 0)) /\
    0 <= x <= balance (bk s) m d.
Proof. exact redirect_exact. Qed.
Print Assumptions C15_redirect_exact.

(** ... hence "community pool + outstanding rewards <= balance of the
    distribution account" survives it: both sides grow by x. *)
Theorem C15_redirect_preserves_distr_account_inv :
  forall s m d x s', redirected m = true -> haqq_burn s m d x = Some s' ->
    (forall d, zget (pool s) d + zget (outst s) d <= balance (bk s) M_DISTR d) ->
    (forall d, zget (pool s') d + zget (outst s') d <= balance (bk s') M_DISTR d).
Proof. exact redirect_preserves_distr_account_inv. Qed.
Print Assumptions C15_redirect_preserves_distr_account_inv.

(** The same for a coin LIST: [BurnCoins(module, amounts)] takes sdk.Coins, and a governance deposit may
    hold several denominations (gov accepts any denomination).  [amount_of cs d] is Coins.AmountOf.  If the
    redirected burn of the list succeeds then the supply is unchanged and, in EVERY denomination d', exactly
    [amount_of cs d'] leaves the module and exactly that reaches the distribution account and the community
    pool; the list was valid (no denomination twice, every amount positive) and covered by the module. *)
Theorem C15_redirect_coins_exact :
  forall s m (cs : list (N * Z)) s', redirected m = true -> m <> M_DISTR -> haqq_burn_coins s m cs = Some s' ->
    sup (bk s') = sup (bk s) /\
    (forall d', zget (pool s') d' = zget (pool s) d' + amount_of cs d') /\
    outst s' = outst s /\
    (forall a' d', balance (bk s') a' d' = balance (bk s) a' d'
        - (if decide (m = a') then amount_of cs d' else 0) + (if decide (M_DISTR = a') then amount_of cs d' else 0)) /\
    NoDup (map fst cs) /\
    (forall d x, In (d, x) cs -> amount_of cs d = x /\ 0 < x <= balance (bk s) m d).
Proof. exact redirect_coins_exact. Qed.
Print Assumptions C15_redirect_coins_exact.

(** ... hence the redirected burn of a whole coin list keeps "community pool + outstanding rewards <=
    balance of the distribution account" in every denomination. *)
Theorem C15_redirect_coins_preserves_distr_account_inv :
  forall s m (cs : list (N * Z)) s', redirected m = true -> haqq_burn_coins s m cs = Some s' ->
    (forall d, zget (pool s) d + zget (outst s) d <= balance (bk s) M_DISTR d) ->
    (forall d, zget (pool s') d + zget (outst s') d <= balance (bk s') M_DISTR d).
Proof. exact redirect_coins_preserves_distr_account_inv. Qed.
Print Assumptions C15_redirect_coins_preserves_distr_account_inv.

(** Non-vacuity of the two: a deposit of two denominations is redirected as a whole (see [demo_ops]), and a
    list of which one coin is not covered, a denomination written twice or a zero amount moves nothing. *)
Theorem C15_redirect_coins_all_or_nothing :
  let s := run demo_ops st0 in
  let rejected (cs : list (N * Z)) := match haqq_burn_coins s M_GOV cs with None => true | Some _ => false end in
  rejected [(7%N, 8); (BASE, 1)] = true /\ rejected [(7%N, 2); (7%N, 2)] = true /\ rejected [(7%N, 0)] = true /\
  option_map (fun s' => (zget (pool s') 7%N, balance (bk s') M_DISTR 7%N, balance (bk s') M_GOV 7%N))
             (haqq_burn_coins s M_GOV [(7%N, 8)]) = Some (20, 20, 0).
Proof. exact demo_burn_coins_all_or_nothing. Qed.
Print Assumptions C15_redirect_coins_all_or_nothing.

(** More generally no sequence of Haqq operations that never names the
    distribution account as the paying side can make it unable to pay. *)
Theorem C15_haqq_ops_preserve_distr_account_inv_partial :
  forall (ops : list hop) (s : st),
    (forall o, In o ops -> debits_distr o = false) ->
    (forall d, zget (pool s) d + zget (outst s) d <= balance (bk s) M_DISTR d) ->
    (forall d, zget (pool (run ops s)) d + zget (outst (run ops s)) d <= balance (bk (run ops s)) M_DISTR d).
Proof. exact haqq_ops_preserve_distr_inv. Qed.
Print Assumptions C15_haqq_ops_preserve_distr_account_inv_partial.

(** A burn from any other module account is an ordinary burn: supply - x. *)
Theorem C15_plain_burn_exact :
  forall s m d x s', redirected m = false -> haqq_burn s m d x = Some s' ->
    (forall d', zget (sup (bk s')) d' = zget (sup (bk s)) d' - (if decide (d = d') then x else 0)) /\
    pool s' = pool s /\ outst s' = outst s.
Proof. exact plain_burn_exact. Qed.
Print Assumptions C15_plain_burn_exact.

Theorem C15_plain_burn_coins_exact :
  forall s m (cs : list (N * Z)) s', redirected m = false -> haqq_burn_coins s m cs = Some s' ->
    (forall d', zget (sup (bk s')) d' = zget (sup (bk s)) d' - amount_of cs d') /\
    pool s' = pool s /\ outst s' = outst s.
Proof. exact plain_burn_coins_exact. Qed.
Print Assumptions C15_plain_burn_coins_exact.

(** Non-vacuity: the empty chain satisfies both invariants, and there is a
    history in which every kind of operation succeeds (so the implications above
    are not about operations that always fail). *)
Theorem C15_invariants_hold_initially :
  (forall d, dsum (bal (bk st0)) d = zget (sup (bk st0)) d) /\ (forall a d, 0 <= balance (bk st0) a d) /\
  (forall d, zget (pool st0) d + zget (outst st0) d <= balance (bk st0) M_DISTR d).
Proof. exact (conj (proj1 inv0) (conj (proj2 inv0) distr_inv0)). Qed.
Print Assumptions C15_invariants_hold_initially.

Theorem C15_every_operation_kind_can_succeed :
  (fix go (s : st) (l : list hop) : bool :=
     match l with [] => true | o :: r => match hstep s o with Some s' => go s' r | None => false end end) st0 demo_ops = true.
Proof. exact demo_all_succeed. Qed.
Print Assumptions C15_every_operation_kind_can_succeed.

(** ------------------------------------------------------------------------------------------------------------
    User transactions, governance parameters and the module accounts.

    [ust] is the chain state of above plus the x/erc20 parameter EnableErc20; [uop] are: a module operation
    ([UMod], any of the above), the parameter change ([UParamErc20], MsgUpdateParams by the governance authority),
    and the signed bank messages MsgSend / MsgMultiSend as Haqq's bank message server executes them
    (x/bank/keeper/msg_server.go: recipient check, then the branch on the parameter; with the module enabled a
    denomination with a token pair is converted = escrowed in the erc20 module account and moves as ERC20 tokens).
    [blocked] are the module accounts and the precompile addresses. *)

(** The rule: a send to a blocked address is refused in every state, under BOTH values of the parameter. *)
Theorem C15_send_to_blocked_address_rejected :
  forall (u : ust) a c d x paired conv, blocked c = true -> ustep u (UMsgSend a c d x paired conv) = None.
Proof. exact send_to_blocked_rejected. Qed.
Print Assumptions C15_send_to_blocked_address_rejected.

Theorem C15_multisend_to_blocked_address_rejected :
  forall (u : ust) a d outs, existsb (fun o : N * Z => blocked (fst o)) outs = true -> ustep u (UMsgMultiSend a d outs) = None.
Proof. exact multisend_to_blocked_rejected. Qed.
Print Assumptions C15_multisend_to_blocked_address_rejected.

(** The messages of a block history that the harness hands to the model ([hcheck]) are refused by the step
    function in every state: the stateless predicate used there is sound. *)
Theorem C15_rejects_blocked_sound :
  forall o, rejects_blocked o = true -> forall u, ustep u o = None.
Proof. exact rejects_blocked_sound. Qed.
Print Assumptions C15_rejects_blocked_sound.

(** ALL histories of user operations (sends, multi-sends, parameter changes in any order; refused ones leave no
    trace): the distribution account still EQUALS community pool + outstanding rewards (the SDK's registered
    "module-account" invariant of x/distribution), the bonded / not-bonded pools, the governance account and every
    other module account but the erc20 escrow hold what they held (so whatever equation ties them to validator,
    unbonding and deposit records, which no user send touches, still holds), pool, rewards and supply unchanged. *)
Theorem C15_user_histories_leave_module_accounts_untouched :
  forall (ops : list uop) (u : ust),
    (forall o, In o ops -> is_user_op o = true /\ signed_by_user o = true) ->
    let u' := urun ops u in
    ((forall d, balance (bk (ust_st u)) M_DISTR d = zget (pool (ust_st u)) d + zget (outst (ust_st u)) d) ->
     (forall d, balance (bk (ust_st u')) M_DISTR d = zget (pool (ust_st u')) d + zget (outst (ust_st u')) d)) /\
    (forall m d, In m [M_FEECOLL; M_DISTR; M_BONDED; M_NOTBONDED; M_GOV; M_COINOMICS; M_DAO; M_LV; M_EVM; M_TRANSFER; M_ICA; M_VESTING] ->
       balance (bk (ust_st u')) m d = balance (bk (ust_st u)) m d) /\
    pool (ust_st u') = pool (ust_st u) /\ outst (ust_st u') = outst (ust_st u) /\ sup (bk (ust_st u')) = sup (bk (ust_st u)).
Proof. exact user_histories_preserve_module_accounts. Qed.
Print Assumptions C15_user_histories_leave_module_accounts_untouched.

(** Module accounts change only through module operations: in ALL histories that mix user operations, parameter
    changes and module operations, every property P of the chain state that reads only the blocked accounts (but
    the erc20 escrow), the community pool, the outstanding rewards and the supply, and that the module operations
    occurring in the history preserve, holds after the history if it held before. *)
Theorem C15_module_accounts_change_only_through_module_ops :
  forall (P : st -> Prop) (ops : list uop),
    (forall s s',
        (pool s' = pool s /\ outst s' = outst s /\ sup (bk s') = sup (bk s) /\
         forall m d, blocked m = true -> m <> M_ERC20 -> balance (bk s') m d = balance (bk s) m d) -> P s -> P s') ->
    (forall o, In (UMod o) ops -> forall s s', hstep s o = Some s' -> P s -> P s') ->
    (forall o, In o ops -> signed_by_user o = true) ->
    forall u, P (ust_st u) -> P (ust_st (urun ops u)).
Proof. exact module_view_invariants_preserved. Qed.
Print Assumptions C15_module_accounts_change_only_through_module_ops.

(** Instance: the distribution account stays able to pay through every mixed history whose MODULE operations do
    not debit it; nothing is asked of the user operations or of the parameter. *)
Theorem C15_mixed_histories_preserve_distr_account_inv :
  forall (ops : list uop),
    (forall o, In (UMod o) ops -> debits_distr o = false) ->
    (forall o, In o ops -> signed_by_user o = true) ->
    forall u, (forall d, zget (pool (ust_st u)) d + zget (outst (ust_st u)) d <= balance (bk (ust_st u)) M_DISTR d) ->
      (forall d, zget (pool (ust_st (urun ops u))) d + zget (outst (ust_st (urun ops u))) d <= balance (bk (ust_st (urun ops u))) M_DISTR d).
Proof. exact mixed_histories_preserve_distr_inv. Qed.
Print Assumptions C15_mixed_histories_preserve_distr_account_inv.

(** ... and the balances add up to the supply, no balance negative, through every mixed history. *)
Theorem C15_mixed_histories_preserve_supply_inv :
  forall (ops : list uop) (u : ust),
    (forall d, dsum (bal (bk (ust_st u))) d = zget (sup (bk (ust_st u))) d) ->
    (forall a d, 0 <= balance (bk (ust_st u)) a d) ->
    (forall d, dsum (bal (bk (ust_st (urun ops u)))) d = zget (sup (bk (ust_st (urun ops u)))) d) /\
    (forall a d, 0 <= balance (bk (ust_st (urun ops u))) a d).
Proof. exact mixed_histories_preserve_supply_inv. Qed.
Print Assumptions C15_mixed_histories_preserve_supply_inv.

(** Non-vacuity: user 1 is funded and the distribution account paid by module operations; governance disables
    the ERC20 module; the sends to the distribution account and to the bonded pool are refused while the send to
    user 2 is accepted; the module is enabled again: the send to the distribution account and a multi-send with
    the not-bonded pool among its outputs are refused, a multi-send to users and a send of a paired denomination
    are accepted.  Final balances of users 1-3, distribution account, the two pools; the flag. *)
Example C15_param_flip_then_send_to_module_account :
  accepted_flags demo_uops u0 = [true; true; true; true; false; false; true; true; false; false; true; true] /\
  (let u := urun demo_uops u0 in
   (balance (bk (ust_st u)) 1%N BASE, balance (bk (ust_st u)) 2%N BASE, balance (bk (ust_st u)) 3%N BASE,
    balance (bk (ust_st u)) M_DISTR BASE, balance (bk (ust_st u)) M_BONDED BASE, balance (bk (ust_st u)) M_NOTBONDED BASE,
    erc20_on u)) = (888, 8, 4, 100, 0, 0, true).
Proof. exact demo_uops_flags. Qed.
Print Assumptions C15_param_flip_then_send_to_module_account.

(** Why the order of the two checks matters: with the recipient check moved behind the early return taken when
    the ERC20 module is disabled ([u_send_late_check]), the state reached by [funding; UParamErc20 false] accepts
    a user's send to the distribution account and the equality of that account is broken; [ustep] refuses it. *)
Theorem C15_late_recipient_check_breaks_distr_account_refuted :
  exists s', u_send_late_check late_u 1%N M_DISTR BASE 5 false 0 = Some s' /\
             ~ (forall d, balance (bk s') M_DISTR d = zget (pool s') d + zget (outst s') d) /\
             ustep late_u (UMsgSend 1%N M_DISTR BASE 5 false 0) = None.
Proof. exact late_check_breaks_distr_eq. Qed.
Print Assumptions C15_late_recipient_check_breaks_distr_account_refuted.
