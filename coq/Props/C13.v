(** Property C13 — coinomics mints the formula amount and never exceeds the cap.
    This file only states the property theorems and closes each with a lemma of
    Coinomics/MintProofs.v; [Print Assumptions] follows every theorem.

    [end_blocker s ts bonded] is the model of x/coinomics EndBlocker /
    MintAndAllocate at block time [ts] (Unix ms) with [bonded] tokens in the
    bonded pool; [None] = a LegacyDec overflow panic (values beyond 315 bits),
    so every theorem about [Some s'] is about a block that completes.
    Decimals are integers scaled by 10^18 ([of_int n] = n * 10^18); [dmul],
    [dquo], [round_int] are cosmossdk.io/math's Mul, Quo, RoundInt
    (Base/Dec.v).  All integers are unbounded ([Z]). *)
From Coq Require Import ZArith List.
From HV Require Import Base.Dec Coinomics.MintModel Coinomics.MintProofs.
Import ListNotations.
Local Open Scope Z_scope.

(** With coinomics enabled and a previous block time recorded, a block whose
    formula amount is non-negative and fits under the maximum mints
      round( bonded * (rc / 100) * ((ts - prev) / year) )
    evaluated in 18-digit fixed point, all of it to the fee collector (the
    module account keeps nothing), and records the block time. *)
Theorem C13_mint_formula :
  forall s ts bonded s',
    end_blocker s ts bonded = Some s' -> enabled s = true -> prev_ts s <> 0 ->
    let bm := dmul (dmul (of_int bonded) (dquo (rc s) (of_int 100)))
                   (dquo (dsub (of_int ts) (of_int (prev_ts s))) (of_int (year_ms (year_of_ms ts)))) in
    dadd (of_int (supply s)) bm <= of_int (max_supply s) -> 0 <= bm ->
    supply s' = supply s + round_int bm /\ fee_col s' = fee_col s + round_int bm /\
    mod_bal s' = mod_bal s /\ prev_ts s' = ts /\ enabled s' = true /\ rc s' = rc s /\ max_supply s' = max_supply s.
Proof. exact mint_formula. Qed.
Print Assumptions C13_mint_formula.

(** Distance of the minted amount m from the exact rational
    R = bonded * (rc/10^18/100) * (ts-prev)/yr, denominators cleared (P = 10^18):
    |m - R| <= 1/2 + 1/(2P) + |bonded| * (|rc|/(200 P^2) + |ts-prev|/(2 yr P) + 1/(4 P^2)) * (1 + 2/P). *)
Theorem C13_mint_error_bound :
  forall bonded c ts prev yr, 0 < yr ->
    let m := round_int (block_mint bonded c ts prev yr) in
    2 * prec * Z.abs (m * 100 * yr * prec * prec - bonded * c * (ts - prev) * prec)
    <= Z.abs bonded * (Z.abs c * yr * (prec + 2) + 100 * Z.abs (ts - prev) * prec * prec + 50 * yr * (prec + 2))
       + 100 * yr * prec * prec * (prec + 1).
Proof. exact mint_error_bound. Qed.
Print Assumptions C13_mint_error_bound.

(** The year length follows leap years: the year Go's Time.Year() computes from
    the block time (model: civil-from-days) is the Gregorian year containing
    it, for every timestamp; [days_before_year] is the Gregorian calendar
    (0 at 1970, +366 for leap years, +365 otherwise); the leap test of the code
    is the Gregorian rule; the milliseconds used are that year's length. *)
Theorem C13_leap_rule_correct :
  (forall ms, days_before_year (year_of_ms ms) * ms_per_day <= ms
              < days_before_year (year_of_ms ms + 1) * ms_per_day) /\
  (forall d y, days_before_year y <= d < days_before_year (y + 1) -> year_of_days d = y) /\
  days_before_year 1970 = 0 /\
  (forall y, days_before_year (y + 1) = days_before_year y + (if is_leap y then 366 else 365)) /\
  (forall y, is_leap y = true <-> (y mod 4 = 0 /\ y mod 100 <> 0) \/ y mod 400 = 0) /\
  (forall y, year_ms y = (days_before_year (y + 1) - days_before_year y) * ms_per_day).
Proof. exact leap_rule_correct. Qed.
Print Assumptions C13_leap_rule_correct.

(** Minting never lifts the supply above the maximum. *)
Theorem C13_cap_never_crossed :
  forall s ts bonded s', end_blocker s ts bonded = Some s' ->
    supply s' <= Z.max (supply s) (max_supply s).
Proof. exact cap_never_crossed. Qed.
Print Assumptions C13_cap_never_crossed.

(** The block that would cross the maximum mints exactly the remainder and
    switches minting off; with the supply already above the maximum nothing is
    minted (and minting is switched off). *)
Theorem C13_cap_block_mints_remainder_and_disables :
  forall s ts bonded s',
    end_blocker s ts bonded = Some s' -> enabled s = true -> prev_ts s <> 0 ->
    of_int (max_supply s) < dadd (of_int (supply s)) (the_mint s ts bonded) ->
    enabled s' = false /\
    (supply s <= max_supply s ->
       supply s' = max_supply s /\ fee_col s' = fee_col s + (max_supply s - supply s) /\ prev_ts s' = ts) /\
    (max_supply s < supply s -> supply s' = supply s /\ fee_col s' = fee_col s).
Proof. exact cap_block_mints_remainder_and_disables. Qed.
Print Assumptions C13_cap_block_mints_remainder_and_disables.

(** ... and only that block does: below the maximum minting stays on. *)
Theorem C13_not_capped_keeps_enabled :
  forall s ts bonded s',
    end_blocker s ts bonded = Some s' -> enabled s = true -> prev_ts s <> 0 ->
    dadd (of_int (supply s)) (the_mint s ts bonded) <= of_int (max_supply s) -> enabled s' = true.
Proof. exact not_capped_keeps_enabled. Qed.
Print Assumptions C13_not_capped_keeps_enabled.

(** While minting is disabled nothing is minted and nothing changes but the reference timestamp, which is forgotten. *)
Theorem C13_no_mint_when_disabled :
  forall s ts bonded, enabled s = false -> end_blocker s ts bonded = Some (set_prev s 0).
Proof. exact no_mint_when_disabled. Qed.
Print Assumptions C13_no_mint_when_disabled.

Theorem C13_first_block_only_records_ts :
  forall s ts bonded, enabled s = true -> prev_ts s = 0 ->
    end_blocker s ts bonded = Some (set_prev s ts).
Proof. exact first_block_only_records_ts. Qed.
Print Assumptions C13_first_block_only_records_ts.

(** "Nothing is minted ... on the first block after activation", over histories: the block that follows a block with
    minting off mints nothing — whether this block's parameter change switches minting on again or not, whatever the
    stored timestamp was before the pause — and, if minting is on, records its own time.  (Before 81b5da1 the stale
    timestamp of the last minting block survived the pause and the first block after a re-activation minted for the
    whole disabled period: finding F11.) *)
Theorem C13_first_block_after_reactivation_mints_nothing :
  forall s b1 s1 b2 s2,
    block s b1 = Some s1 -> enabled (apply_params s (b_params b1)) = false -> block s1 b2 = Some s2 ->
    supply s2 = supply s1 /\ fee_col s2 = fee_col s1 /\
    (enabled (apply_params s1 (b_params b2)) = true -> prev_ts s2 = b_ts b2 /\ enabled s2 = true).
Proof. exact block_after_disabled_block_mints_nothing. Qed.
Print Assumptions C13_first_block_after_reactivation_mints_nothing.

(** "elapsed measured between consecutive block timestamps": of two consecutive minting blocks the second one's formula
    amount is computed with the first one's block time (the first block being an ordinary one: non-negative bonded
    amount and rate, time not running backwards, supply not above the maximum). *)
Theorem C13_elapsed_is_between_consecutive_blocks :
  forall s b1 s1 b2 s2,
    block s b1 = Some s1 -> block s1 b2 = Some s2 ->
    let t1 := apply_params s (b_params b1) in let t2 := apply_params s1 (b_params b2) in
    enabled t1 = true -> enabled t2 = true ->
    0 <= b_bonded b1 -> 0 <= rc t1 -> prev_ts t1 <= b_ts b1 -> supply t1 <= max_supply t1 -> b_ts b1 <> 0 ->
    the_mint t2 (b_ts b2) (b_bonded b2) =
      block_mint (b_bonded b2) (rc t2) (b_ts b2) (b_ts b1) (year_ms (year_of_ms (b_ts b2))).
Proof. exact elapsed_is_between_consecutive_blocks. Qed.
Print Assumptions C13_elapsed_is_between_consecutive_blocks.

(** Equal or decreasing block times mint nothing. *)
Theorem C13_nonpositive_elapsed_mints_nothing :
  forall s ts bonded s',
    end_blocker s ts bonded = Some s' -> 0 <= bonded -> 0 <= rc s -> ts <= prev_ts s ->
    supply s' = supply s /\ fee_col s' = fee_col s.
Proof. exact nonpositive_elapsed_mints_nothing. Qed.
Print Assumptions C13_nonpositive_elapsed_mints_nothing.

Theorem C13_zero_rate_mints_nothing :
  forall s ts bonded s',
    end_blocker s ts bonded = Some s' -> rc s = 0 \/ bonded = 0 -> supply s <= max_supply s ->
    supply s' = supply s.
Proof. exact zero_rate_mints_nothing. Qed.
Print Assumptions C13_zero_rate_mints_nothing.

(** Whatever happens in a block: nothing is burned, everything minted is in the
    fee collector, the module account keeps nothing, cap and coefficient are
    untouched. *)
Theorem C13_all_to_fee_collector :
  forall s ts bonded s', end_blocker s ts bonded = Some s' ->
    0 <= supply s' - supply s /\ fee_col s' - fee_col s = supply s' - supply s /\
    mod_bal s' = mod_bal s /\ max_supply s' = max_supply s /\ rc s' = rc s.
Proof. exact all_to_fee_collector. Qed.
Print Assumptions C13_all_to_fee_collector.

(** Histories: over every sequence of blocks — any timestamps (equal and
    decreasing ones included), any bonded amounts, any parameter changes
    (re-enabling after the automatic switch-off included) — the total minted is
    at most the headroom max(0, maximum - initial supply), and all of it is in
    the fee collector. *)
Theorem C13_total_minted_le_headroom :
  forall bs s s', run s bs = Some s' ->
    supply s <= supply s' /\
    supply s' <= Z.max (supply s) (max_supply s) /\
    supply s' - supply s <= Z.max 0 (max_supply s - supply s) /\
    fee_col s' - fee_col s = supply s' - supply s /\
    mod_bal s' = mod_bal s /\ max_supply s' = max_supply s.
Proof. exact total_minted_le_headroom. Qed.
Print Assumptions C13_total_minted_le_headroom.

Theorem C13_nothing_minted_at_cap :
  forall bs s s', run s bs = Some s' -> max_supply s <= supply s -> supply s' = supply s.
Proof. exact nothing_minted_at_cap. Qed.
Print Assumptions C13_nothing_minted_at_cap.

(** Non-vacuity: a mainnet-like block (10^27 bonded, 7.8 %, 5 s) mints
    12.37 * 10^18 units; year boundaries 2023/24/25, 2100, 2400; a history that
    crosses the cap, is switched off, and stays at the cap after re-enabling. *)
Theorem C13_nonvacuous :
  end_blocker ex_s 1700000005000 1000000000000000000000000000
    = Some (mint_to_collector ex_s 12366818873682000000 1700000005000) /\
  (year_of_ms 1704067199999 = 2023 /\ year_of_ms 1704067200000 = 2024 /\
   year_of_ms 4102444800000 = 2100 /\ year_of_ms 13569465600000 = 2400 /\
   is_leap 2024 = true /\ is_leap 2100 = false /\ is_leap 2400 = true) /\
  run ex_cap [mkblk 1700000005000 1000000000000000000000000000 None;
              mkblk 1700000010000 1000000000000000000000000000 None;
              mkblk 1700000015000 1000000000000000000000000000 (Some (true, 7800000000000000000))]
    = Some (mkst 1700000015000 (of_int 20000000000 + 1000) true 7800000000000000000
                 (of_int 20000000000 + 1000) 1000 0).
Proof. exact nonvacuous. Qed.
Print Assumptions C13_nonvacuous.
