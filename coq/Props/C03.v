(** Property C03 — only the key holder can authorise a transaction, once.
    Only statements, each closed by a lemma of Ante/SigProofs.v,
    TxCodec/SignBytesProofs.v or Base/RlpProofs.v and followed by
    [Print Assumptions].

    What is a theorem and what is an assumption.
    - Theorems without any cryptographic premise: the signing bytes determine
      everything that is signed (RLP injectivity); every (account, nonce) is
      accepted at most once over ALL histories of submissions, in any order, with
      arbitrary outcomes of the unmodelled checks -- also when one Cosmos
      transaction carries several MsgEthereumTx: each (account, nonce) executes
      at most once even inside one transaction, a transaction containing a
      duplicated, replayed or out-of-order message is rejected as a whole and
      has no effect, in-order batches are accepted; a replay-protected transaction
      for another chain id, and an unprotected one while AllowUnprotectedTxs is
      false, are refused; a correctly signed transaction with the right nonce is
      accepted; a signed Ethereum message shipped on any other route (inside
      authz.MsgExec, as a plain message of a Cosmos or EIP-712 transaction, ...)
      is never executed there, over all histories, and the at-most-once theorem
      holds over histories containing such submissions.  They hold for ANY hash,
      recovery, signing and verification functions.
    - Theorems named [..._partial] carry, as explicit premises, ECDSA
      unforgeability ("a signature that verifies for an account over a digest was
      made by that account's key holder over a message with that digest") and
      Keccak-256 collision resistance ("equal digests, equal preimages").  These
      cannot be theorems; nothing else is assumed.  ECDSA and Keccak themselves
      are not modelled: the correspondence run uses the real ones. *)
From Coq Require Import Ascii String.
From Coq Require Import NArith ZArith List Bool.
From HV Require Import Base.Bytes Base.Rlp Base.RlpProofs TxCodec.EthTxModel TxCodec.SignBytesProofs
     Ante.SigModel Ante.SigProofs.
Import ListNotations.

(** * what is signed *)
Theorem C03_rlp_encode_inj :
  forall a b : item, wf a -> wf b -> encode a = encode b -> a = b.
Proof. exact rlp_encode_inj. Qed.
Print Assumptions C03_rlp_encode_inj.

(** Equal signing bytes, equal signed content: transaction type, replay
    protection, chain id (when protected), nonce, tip and fee cap (= gas price),
    gas, To / creation, value, data, access list.  [signable]: integers are not
    negative, a present To is not empty, the payload is shorter than 2^64 bytes. *)
Theorem C03_sign_preimage_inj :
  forall (cid1 : Z) (tx1 : eth_tx) (cid2 : Z) (tx2 : eth_tx),
    signable cid1 tx1 -> signable cid2 tx2 ->
    sign_preimage cid1 tx1 = sign_preimage cid2 tx2 ->
    signed_content_of cid1 tx1 = signed_content_of cid2 tx2.
Proof. exact sign_preimage_inj. Qed.
Print Assumptions C03_sign_preimage_inj.

(** Any change of a signed field (or of the chain id) changes the signing bytes. *)
Theorem C03_mutation_changes_sign_bytes :
  forall (cid : Z) (tx tx' : eth_tx),
    signable cid tx -> signable cid tx' ->
    signed_content_of cid tx <> signed_content_of cid tx' ->
    sign_preimage cid tx <> sign_preimage cid tx'.
Proof. exact mutation_changes_sign_bytes. Qed.
Print Assumptions C03_mutation_changes_sign_bytes.

(** * Ethereum route: the nonce state machine, all histories *)

(** For every hash and recovery function, every chain configuration, every
    initial sequences, every history of submitted transactions (valid, replayed,
    out of order, malformed; with any verdict of the unmodelled checks): a given
    (account, nonce) is accepted at most once. *)
Theorem C03_each_nonce_once :
  forall (hash : list N -> list N) (recover : list N -> Z -> Z -> Z -> option (list N))
         (cfg : chain_cfg) (h : list (eth_tx * bool)) (st : list N -> N) (i j : nat) (a : list N) (n : N),
    accepted_eth hash recover cfg st h i a n ->
    accepted_eth hash recover cfg st h j a n -> i = j.
Proof. exact eth_each_nonce_once. Qed.
Print Assumptions C03_each_nonce_once.

(** ... hence a transaction accepted once is rejected ever after. *)
Theorem C03_replay_rejected :
  forall (hash : list N -> list N) (recover : list N -> Z -> Z -> Z -> option (list N))
         (cfg : chain_cfg) (h : list (eth_tx * bool)) (st : list N -> N) (i j : nat) (a : list N) (n : N),
    accepted_eth hash recover cfg st h i a n -> i <> j ->
    ~ accepted_eth hash recover cfg st h j a n.
Proof. exact eth_replay_rejected. Qed.
Print Assumptions C03_replay_rejected.

(** A replay-protected transaction (EIP-155 legacy, access-list, dynamic-fee)
    whose chain id is not the chain's EIP-155 id is refused and changes nothing. *)
Theorem C03_foreign_chain_rejected :
  forall (hash : list N -> list N) (recover : list N -> Z -> Z -> Z -> option (list N))
         (cfg : chain_cfg) (st : list N -> N) (tx : eth_tx) (ok : bool),
    protected tx = true -> chain_id tx <> c_eip155 cfg ->
    step_eth hash recover cfg st (tx, ok) = (st, None).
Proof. exact foreign_chain_rejected. Qed.
Print Assumptions C03_foreign_chain_rejected.

(** While AllowUnprotectedTxs is false a pre-EIP-155 signature is refused. *)
Theorem C03_unprotected_rejected :
  forall (hash : list N -> list N) (recover : list N -> Z -> Z -> Z -> option (list N))
         (cfg : chain_cfg) (st : list N -> N) (tx : eth_tx) (ok : bool),
    c_allow_unprotected cfg = false -> protected tx = false ->
    step_eth hash recover cfg st (tx, ok) = (st, None).
Proof. exact unprotected_rejected. Qed.
Print Assumptions C03_unprotected_rejected.

(** The single hypothesis on the signature scheme, [recover (sign k h) h = addr k],
    suffices for the positive direction. *)
Theorem C03_honest_tx_accepted :
  forall (K : Type) (hash : list N -> list N) (recover : list N -> Z -> Z -> Z -> option (list N))
         (sign : K -> list N -> Z * Z * Z) (addr : K -> list N),
    (forall (k : K) (h : list N), let '(r, s, i) := sign k h in recover h r s (i + 27)%Z = Some (addr k)) ->
    (forall (k : K) (h : list N), let '(_, _, i) := sign k h in (0 <= i <= 1)%Z) ->
    forall (cfg : chain_cfg) (st : list N -> N) (k : K) (tx : eth_tx),
      (0 < c_eip155 cfg)%Z ->
      (tx_type tx <> 0%N -> chain_id tx = c_eip155 cfg) ->
      tx_nonce tx = st (addr k) ->
      step_eth hash recover cfg st (sign_tx hash sign k (c_eip155 cfg) tx, true)
      = (upd (list_eq_dec N.eq_dec) st (addr k) (st (addr k) + 1)%N, Some (addr k)).
Proof. exact @honest_tx_accepted. Qed.
Print Assumptions C03_honest_tx_accepted.

(** * Ethereum route: several MsgEthereumTx in one Cosmos transaction

    [step_eth_tx st (msgs, ok)]: EthSigVerificationDecorator authenticates every
    message, EthIncrementSenderSequenceDecorator then demands, message by message,
    nonce = the sender's CURRENT sequence and bumps it; all or nothing.
    [executed_eth st h j k a n]: message [k] of transaction [j] of history [h]
    was executed on behalf of [a] with nonce [n]. *)

(** Over all histories of multi-message transactions (any mix of valid,
    duplicated, replayed, out-of-order messages, any senders, any verdicts of the
    unmodelled checks): a given (account, nonce) is executed at most once --
    neither in two transactions nor twice inside one. *)
Theorem C03_tx_each_nonce_once :
  forall (hash : list N -> list N) (recover : list N -> Z -> Z -> Z -> option (list N))
         (cfg : chain_cfg) (h : list (list eth_tx * bool)) (st : list N -> N) (j k j' k' : nat) (a : list N) (n : N),
    executed_eth hash recover cfg st h j k a n ->
    executed_eth hash recover cfg st h j' k' a n -> j = j' /\ k = k'.
Proof. exact eth_tx_each_nonce_once. Qed.
Print Assumptions C03_tx_each_nonce_once.

(** A rejected transaction has no effect at all (no message of it executes, no
    sequence moves). *)
Theorem C03_tx_reject_no_effect :
  forall (hash : list N -> list N) (recover : list N -> Z -> Z -> Z -> option (list N))
         (cfg : chain_cfg) (st : list N -> N) (x : list eth_tx * bool),
    snd (step_eth_tx hash recover cfg st x) = None -> fst (step_eth_tx hash recover cfg st x) = st.
Proof. exact eth_tx_reject_no_effect. Qed.
Print Assumptions C03_tx_reject_no_effect.

(** Acceptance, exactly: the other checks passed; every message is authenticated
    (protection, chain id, recovered sender) and carries its sender's sequence at
    the start of the transaction plus the number of that sender's EARLIER
    messages in it; afterwards every sequence has grown by the number of the
    account's messages. *)
Theorem C03_tx_accept_spec :
  forall (hash : list N -> list N) (recover : list N -> Z -> Z -> Z -> option (list N))
         (cfg : chain_cfg) (st : list N -> N) (ms : list eth_tx) (ok : bool) (l : list (list N)),
    snd (step_eth_tx hash recover cfg st (ms, ok)) = Some l ->
    ok = true /\ length l = length ms /\
    (forall (k : nat) (m : eth_tx) (a : list N), nth_error ms k = Some m -> nth_error l k = Some a ->
       auth_eth hash recover cfg st m = Some a /\
       tx_nonce m = (st a + N.of_nat (count_occ (list_eq_dec N.eq_dec) (firstn k l) a))%N) /\
    (forall b : list N, fst (step_eth_tx hash recover cfg st (ms, ok)) b
                        = (st b + N.of_nat (count_occ (list_eq_dec N.eq_dec) l b))%N).
Proof. exact eth_tx_accept_spec. Qed.
Print Assumptions C03_tx_accept_spec.

(** Replay: once message (a, n) has been executed, every later transaction that
    contains -- anywhere among its messages -- a message of [a] with nonce [n] is
    rejected as a whole and leaves the state as it was. *)
Theorem C03_tx_replay_rejected :
  forall (hash : list N -> list N) (recover : list N -> Z -> Z -> Z -> option (list N))
         (cfg : chain_cfg) (h : list (list eth_tx * bool)) (st : list N -> N) (j k : nat) (a : list N) (n : N)
         (j' : nat) (ms : list eth_tx) (ok : bool) (m : eth_tx),
    executed_eth hash recover cfg st h j k a n -> (j < j')%nat ->
    nth_error h j' = Some (ms, ok) -> In m ms ->
    auth_eth hash recover cfg st m = Some a -> tx_nonce m = n ->
    nth_error (outcomes_eth_tx hash recover cfg st h) j' = Some None /\
    final_eth_tx hash recover cfg st (firstn (S j') h) = final_eth_tx hash recover cfg st (firstn j' h).
Proof. exact eth_tx_replay_rejected. Qed.
Print Assumptions C03_tx_replay_rejected.

(** The same signed transaction twice, or two transactions of one sender with the
    same nonce, inside one Cosmos transaction: rejected as a whole, no effect. *)
Theorem C03_tx_duplicate_rejected :
  forall (hash : list N -> list N) (recover : list N -> Z -> Z -> Z -> option (list N))
         (cfg : chain_cfg) (st : list N -> N) (ms : list eth_tx) (ok : bool) (k k' : nat) (m m' : eth_tx) (a : list N),
    k <> k' -> nth_error ms k = Some m -> nth_error ms k' = Some m' ->
    auth_eth hash recover cfg st m = Some a -> auth_eth hash recover cfg st m' = Some a ->
    tx_nonce m = tx_nonce m' ->
    step_eth_tx hash recover cfg st (ms, ok) = (st, None).
Proof. exact eth_tx_duplicate_rejected. Qed.
Print Assumptions C03_tx_duplicate_rejected.

(** Out of order (gap, future nonce, reversed, duplicate): a message whose nonce
    is not its sender's sequence at that point of the transaction makes the whole
    transaction fail without effect. *)
Theorem C03_tx_out_of_order_rejected :
  forall (hash : list N -> list N) (recover : list N -> Z -> Z -> Z -> option (list N))
         (cfg : chain_cfg) (st : list N -> N) (ms : list eth_tx) (ok : bool) (l : list (list N))
         (k : nat) (m : eth_tx) (a : list N),
    auth_all (auth_eth hash recover cfg) st ms = Some l ->
    nth_error ms k = Some m -> nth_error l k = Some a ->
    tx_nonce m <> (st a + N.of_nat (count_occ (list_eq_dec N.eq_dec) (firstn k l) a))%N ->
    step_eth_tx hash recover cfg st (ms, ok) = (st, None).
Proof. exact eth_tx_out_of_order_rejected. Qed.
Print Assumptions C03_tx_out_of_order_rejected.

(** A message with an already used nonce anywhere in the transaction. *)
Theorem C03_tx_stale_rejected :
  forall (hash : list N -> list N) (recover : list N -> Z -> Z -> Z -> option (list N))
         (cfg : chain_cfg) (st : list N -> N) (ms : list eth_tx) (ok : bool) (m : eth_tx) (a : list N),
    In m ms -> auth_eth hash recover cfg st m = Some a -> (tx_nonce m < st a)%N ->
    step_eth_tx hash recover cfg st (ms, ok) = (st, None).
Proof. exact eth_tx_stale_rejected. Qed.
Print Assumptions C03_tx_stale_rejected.

(** One foreign-chain or unprotected message poisons the whole transaction. *)
Theorem C03_tx_foreign_chain_rejected :
  forall (hash : list N -> list N) (recover : list N -> Z -> Z -> Z -> option (list N))
         (cfg : chain_cfg) (st : list N -> N) (ms : list eth_tx) (ok : bool) (tx : eth_tx),
    In tx ms -> protected tx = true -> chain_id tx <> c_eip155 cfg ->
    step_eth_tx hash recover cfg st (ms, ok) = (st, None).
Proof. exact eth_tx_foreign_chain_rejected. Qed.
Print Assumptions C03_tx_foreign_chain_rejected.

Theorem C03_tx_unprotected_rejected :
  forall (hash : list N -> list N) (recover : list N -> Z -> Z -> Z -> option (list N))
         (cfg : chain_cfg) (st : list N -> N) (ms : list eth_tx) (ok : bool) (tx : eth_tx),
    In tx ms -> c_allow_unprotected cfg = false -> protected tx = false ->
    step_eth_tx hash recover cfg st (ms, ok) = (st, None).
Proof. exact eth_tx_unprotected_rejected. Qed.
Print Assumptions C03_tx_unprotected_rejected.

(** The positive direction: authenticated messages whose nonces follow their
    senders' sequences (n, n+1, ... per sender, senders interleaved at will) are
    accepted together. *)
Theorem C03_tx_in_order_accepted :
  forall (hash : list N -> list N) (recover : list N -> Z -> Z -> Z -> option (list N))
         (cfg : chain_cfg) (st : list N -> N) (ms : list eth_tx) (l : list (list N)),
    ms <> [] -> auth_all (auth_eth hash recover cfg) st ms = Some l ->
    (forall (k : nat) (m : eth_tx) (a : list N), nth_error ms k = Some m -> nth_error l k = Some a ->
       tx_nonce m = (st a + N.of_nat (count_occ (list_eq_dec N.eq_dec) (firstn k l) a))%N) ->
    snd (step_eth_tx hash recover cfg st (ms, true)) = Some l.
Proof. exact eth_tx_in_order_accepted. Qed.
Print Assumptions C03_tx_in_order_accepted.

(** The one-message transaction is the machine of the theorems above
    ([step_eth]), so those keep describing ordinary JSON-RPC traffic. *)
Theorem C03_tx_singleton :
  forall (hash : list N -> list N) (recover : list N -> Z -> Z -> Z -> option (list N))
         (cfg : chain_cfg) (st : list N -> N) (tx : eth_tx) (ok : bool),
    step_eth_tx hash recover cfg st ([tx], ok)
    = (fst (step_eth hash recover cfg st (tx, ok)),
       option_map (fun a => [a]) (snd (step_eth hash recover cfg st (tx, ok)))).
Proof. exact eth_tx_singleton. Qed.
Print Assumptions C03_tx_singleton.

(** Non-vacuity (toy signature scheme; key 42 at sequence 5, key 43 at 0): a valid
    two-message transaction and a transaction of two interleaved senders are
    accepted and every message executes; the same signed transaction twice, a
    same-nonce pair, a gap, reversed nonces, a duplicate behind another sender's
    message are each rejected as a whole with the sequences untouched; in a
    history a replayed message poisons the transaction it sits in. *)
Theorem C03_tx_nonvacuous :
  (outcomes_eth_tx toy_hash toy_recover ex_cfg ex_state [([ex_tx 42 5 1; ex_tx 42 6 2], true)]
   = [Some [toy_addr 42; toy_addr 42]] /\
   seq_of (final_eth_tx toy_hash toy_recover ex_cfg ex_state [([ex_tx 42 5 1; ex_tx 42 6 2], true)]) = (7%N, 0%N)) /\
  (outcomes_eth_tx toy_hash toy_recover ex_cfg ex_state
     [([ex_tx 42 5 1; ex_tx 43 0 1; ex_tx 42 6 2; ex_tx 43 1 2], true)]
   = [Some [toy_addr 42; toy_addr 43; toy_addr 42; toy_addr 43]] /\
   seq_of (final_eth_tx toy_hash toy_recover ex_cfg ex_state
     [([ex_tx 42 5 1; ex_tx 43 0 1; ex_tx 42 6 2; ex_tx 43 1 2], true)]) = (7%N, 2%N)) /\
  (let bad := [ [ex_tx 42 5 1; ex_tx 42 5 1]; [ex_tx 42 5 1; ex_tx 42 5 9]; [ex_tx 42 5 1; ex_tx 42 7 1];
                [ex_tx 42 6 1; ex_tx 42 5 1]; [ex_tx 42 5 1; ex_tx 43 0 1; ex_tx 42 5 1];
                [ex_tx 43 0 1; ex_tx 42 5 1; ex_tx 42 6 1; ex_tx 42 6 1] ] in
   map (fun ms => (snd (step_eth_tx toy_hash toy_recover ex_cfg ex_state (ms, true)),
                   seq_of (fst (step_eth_tx toy_hash toy_recover ex_cfg ex_state (ms, true))))) bad
   = repeat (None, (5%N, 0%N)) 6) /\
  outcomes_eth_tx toy_hash toy_recover ex_cfg ex_state
    [([ex_tx 42 5 1; ex_tx 42 6 2], true); ([ex_tx 42 7 3; ex_tx 42 6 2], true); ([ex_tx 42 6 2; ex_tx 42 7 3], true);
     ([ex_tx 42 7 3], true); ([ex_tx 42 7 3], true)]
  = [Some [toy_addr 42; toy_addr 42]; None; None; Some [toy_addr 42]; None].
Proof. exact (conj ex_batch_accepted (conj ex_interleaved_accepted (conj ex_bad_batches_rejected ex_history))). Qed.
Print Assumptions C03_tx_nonvacuous.

(** * Signed Ethereum messages shipped on any other route

    A signed MsgEthereumTx can be put into a Cosmos transaction that is not its
    own route: as an inner message of authz.MsgExec (alone, behind plain
    messages, nested, beside other inner messages, wrapped by its own signer or
    by somebody else), as a plain message of an ordinary or EIP-712-signed Cosmos
    transaction, inside a wrapper behind the Ethereum extension option.  In the
    model such a submission is [Wrapped w carried ok] ([w]: the wrapper's own
    signed unit and shape, [carried]: the signed messages, [ok]: the verdict of
    all other checks); its acceptance rule is "never".  Histories mix [Direct]
    (the Ethereum route, [step_eth_tx]) and [Wrapped] submissions;
    [executed_eth_any st h j k a n]: signed message [k] of submission [j] --
    direct or carried -- was executed on behalf of [a] with nonce [n]. *)

(** A wrapped submission is refused and changes nothing: for every wrapper, every
    carried messages (valid for the current sequence, executed before, from the
    future, of any signer), every verdict of the other checks. *)
Theorem C03_wrapped_rejected :
  forall (hash : list N -> list N) (recover : list N -> Z -> Z -> Z -> option (list N))
         (cfg : chain_cfg) (W : Type) (st : list N -> N) (w : W) (carried : list eth_tx) (ok : bool),
    step_eth_any hash recover cfg st (Wrapped w carried ok) = (st, None).
Proof. exact @eth_wrapped_rejected. Qed.
Print Assumptions C03_wrapped_rejected.

(** Over ALL histories: submission [j] being a wrapper, its outcome is
    "rejected" and the sequences after it are the sequences before it. *)
Theorem C03_wrapped_no_effect :
  forall (hash : list N -> list N) (recover : list N -> Z -> Z -> Z -> option (list N))
         (cfg : chain_cfg) (W : Type) (h : list (@submission eth_tx W)) (st : list N -> N) (j : nat)
         (w : W) (carried : list eth_tx) (ok : bool),
    nth_error h j = Some (Wrapped w carried ok) ->
    nth_error (outcomes_eth_any hash recover cfg st h) j = Some None /\
    final_eth_any hash recover cfg st (firstn (S j) h) = final_eth_any hash recover cfg st (firstn j h).
Proof. exact @eth_wrapped_no_effect. Qed.
Print Assumptions C03_wrapped_no_effect.

(** Over ALL histories: no signed Ethereum message at all is executed through a
    wrapped submission -- for no account, no nonce, no position. *)
Theorem C03_wrapped_never_executes :
  forall (hash : list N -> list N) (recover : list N -> Z -> Z -> Z -> option (list N))
         (cfg : chain_cfg) (W : Type) (h : list (@submission eth_tx W)) (st : list N -> N) (j : nat)
         (w : W) (carried : list eth_tx) (ok : bool) (k : nat) (a : list N) (n : N),
    nth_error h j = Some (Wrapped w carried ok) -> ~ executed_eth_any hash recover cfg st h j k a n.
Proof. exact @eth_wrapped_never_executes. Qed.
Print Assumptions C03_wrapped_never_executes.

(** Replay through a wrapper: a message executed anywhere in the history (at
    [j], for [a] with nonce [n]) is not executed by a wrapped submission [j']
    (before or after), which is rejected without effect. *)
Theorem C03_wrapped_replay_rejected :
  forall (hash : list N -> list N) (recover : list N -> Z -> Z -> Z -> option (list N))
         (cfg : chain_cfg) (W : Type) (h : list (@submission eth_tx W)) (st : list N -> N) (j k : nat) (a : list N) (n : N)
         (j' : nat) (w : W) (carried : list eth_tx) (ok : bool) (k' : nat),
    executed_eth_any hash recover cfg st h j k a n -> nth_error h j' = Some (Wrapped w carried ok) ->
    ~ executed_eth_any hash recover cfg st h j' k' a n /\
    nth_error (outcomes_eth_any hash recover cfg st h) j' = Some None /\
    final_eth_any hash recover cfg st (firstn (S j') h) = final_eth_any hash recover cfg st (firstn j' h).
Proof. exact @eth_wrapped_replay_rejected. Qed.
Print Assumptions C03_wrapped_replay_rejected.

(** Whatever is executed in such a history was submitted on the Ethereum route,
    with a nonce not below the account's sequence before that submission and
    below its sequence after it (the sequence has passed it). *)
Theorem C03_executed_only_direct :
  forall (hash : list N -> list N) (recover : list N -> Z -> Z -> Z -> option (list N))
         (cfg : chain_cfg) (W : Type) (h : list (@submission eth_tx W)) (st : list N -> N) (j k : nat) (a : list N) (n : N),
    executed_eth_any hash recover cfg st h j k a n ->
    (exists (ms : list eth_tx) (ok : bool), nth_error h j = Some (Direct ms ok)) /\
    (final_eth_any hash recover cfg st (firstn j h) a <= n
     < final_eth_any hash recover cfg st (firstn (S j) h) a)%N.
Proof. exact @eth_executed_only_direct. Qed.
Print Assumptions C03_executed_only_direct.

(** At most once still holds: over all histories that mix Ethereum-route and
    wrapped submissions in any order, a given (account, nonce) is executed at
    most once. *)
Theorem C03_any_each_nonce_once :
  forall (hash : list N -> list N) (recover : list N -> Z -> Z -> Z -> option (list N))
         (cfg : chain_cfg) (W : Type) (h : list (@submission eth_tx W)) (st : list N -> N) (j k j' k' : nat) (a : list N) (n : N),
    executed_eth_any hash recover cfg st h j k a n ->
    executed_eth_any hash recover cfg st h j' k' a n -> j = j' /\ k = k'.
Proof. exact @eth_any_each_nonce_once. Qed.
Print Assumptions C03_any_each_nonce_once.

(** Wrapped submissions are inert: deleting them from a history changes no
    sequence; and a history without them is a [step_eth_tx] history. *)
Theorem C03_wrapped_inert :
  forall (hash : list N -> list N) (recover : list N -> Z -> Z -> Z -> option (list N))
         (cfg : chain_cfg) (W : Type) (h : list (@submission eth_tx W)) (st : list N -> N),
    final_eth_any hash recover cfg st h
    = final_eth_any hash recover cfg st
        (filter (fun x => match x with Direct _ _ => true | Wrapped _ _ _ => false end) h).
Proof. exact @eth_wrapped_inert. Qed.
Print Assumptions C03_wrapped_inert.

Theorem C03_any_direct_only :
  forall (hash : list N -> list N) (recover : list N -> Z -> Z -> Z -> option (list N))
         (cfg : chain_cfg) (W : Type) (h : list (list eth_tx * bool)) (st : list N -> N),
    outcomes_eth_any (W:=W) hash recover cfg st (map (fun x => Direct (fst x) (snd x)) h)
    = outcomes_eth_tx hash recover cfg st h /\
    final_eth_any (W:=W) hash recover cfg st (map (fun x => Direct (fst x) (snd x)) h)
    = final_eth_tx hash recover cfg st h.
Proof. exact @eth_any_direct_only. Qed.
Print Assumptions C03_any_direct_only.

(** The machine the correspondence run evaluates ([step_sub_any]: interned
    accounts, recorded answers of the cryptographic oracle) is an instance:
    wrapped submissions are refused without effect, direct ones are
    [step_sub_tx], and every (account, nonce) executes at most once. *)
Theorem C03_sub_wrapped_rejected :
  forall (nd : node) (st : N -> N) (w : wrap) (carried : list sub) (ok : bool),
    step_sub_any nd st (Wrapped w carried ok) = (st, None).
Proof. exact sub_wrapped_rejected. Qed.
Print Assumptions C03_sub_wrapped_rejected.

Theorem C03_sub_any_each_nonce_once :
  forall (nd : node) (h : list (@submission sub wrap)) (st : N -> N) (j k j' k' : nat) (a n : N),
    executed_any N.eq_dec (auth_sub nd) sub_nonce st h j k a n ->
    executed_any N.eq_dec (auth_sub nd) sub_nonce st h j' k' a n -> j = j' /\ k = k'.
Proof. exact sub_any_each_nonce_once. Qed.
Print Assumptions C03_sub_any_each_nonce_once.

(** Non-vacuity.  Key 42 (sequence 5): nonce 5 executes on the Ethereum route;
    then the SAME signed transaction inside a MsgExec behind a plain message (the
    replay), the not yet executed nonce 6 inside a MsgExec, nonce 9 as a plain
    Cosmos message, a nested wrapper carrying nonce 6, the replay and another
    account's message -- every one rejected, the sequence stays 6; nonce 6 then
    executes on the Ethereum route, once.  The premises of the theorems above hold
    in this history (message 0 of submission 0 is executed for (key 42, nonce
    5); submission 1 is a wrapper carrying that very message) and so does their
    conclusion. *)
Theorem C03_wrapped_nonvacuous :
  (outcomes_eth_any toy_hash toy_recover ex_cfg ex_state ex_wrapped_history
   = [Some [toy_addr 42]; None; None; None; None; Some [toy_addr 42]; None; None] /\
   seq_of (final_eth_any toy_hash toy_recover ex_cfg ex_state ex_wrapped_history) = (7%N, 0%N) /\
   seq_of (final_eth_any toy_hash toy_recover ex_cfg ex_state (firstn 5 ex_wrapped_history)) = (6%N, 0%N)) /\
  (executed_eth_any toy_hash toy_recover ex_cfg ex_state ex_wrapped_history 0 0 (toy_addr 42) 5%N /\
   nth_error ex_wrapped_history 1 = Some (Wrapped (ex_w 1 1) [ex_tx 42 5 1] true) /\
   nth_error (msgs_of (Wrapped (ex_w 1 1) [ex_tx 42 5 1] true)) 0 = Some (ex_tx 42 5 1) /\
   ~ executed_eth_any toy_hash toy_recover ex_cfg ex_state ex_wrapped_history 1 0 (toy_addr 42) 5%N /\
   executed_eth_any toy_hash toy_recover ex_cfg ex_state ex_wrapped_history 5 0 (toy_addr 42) 6%N).
Proof. exact (conj ex_wrapped_outcomes ex_wrapped_premises). Qed.
Print Assumptions C03_wrapped_nonvacuous.

(** * Ethereum route: the negative direction (partial: cryptographic premises) *)

(** A transaction executes on behalf of account [a] only if [a]'s key holder
    signed exactly its content for exactly this chain id, and its nonce is [a]'s
    current sequence.  Premises: unforgeability, collision resistance. *)
Theorem C03_accepted_only_if_signed_partial :
  forall (hash : list N -> list N) (recover : list N -> Z -> Z -> Z -> option (list N))
         (cfg : chain_cfg) (signed : list N -> Z -> eth_tx -> Prop)
         (st : list N -> N) (tx : eth_tx) (ok : bool) (a : list N),
    (* ECDSA unforgeability *)
    (forall (h : list N) (r s v : Z) (a : list N), recover h r s v = Some a ->
       exists (cid0 : Z) (tx0 : eth_tx), signed a cid0 tx0 /\ hash (sign_preimage cid0 tx0) = h) ->
    (* Keccak collision resistance on signing preimages *)
    (forall cid1 tx1 cid2 tx2, hash (sign_preimage cid1 tx1) = hash (sign_preimage cid2 tx2) ->
       sign_preimage cid1 tx1 = sign_preimage cid2 tx2) ->
    (forall a cid0 tx0, signed a cid0 tx0 -> signable cid0 tx0) ->
    signable (c_eip155 cfg) tx ->
    snd (step_eth hash recover cfg st (tx, ok)) = Some a ->
    (exists (cid0 : Z) (tx0 : eth_tx),
        signed a cid0 tx0 /\ signed_content_of cid0 tx0 = signed_content_of (c_eip155 cfg) tx) /\
    tx_nonce tx = st a /\
    (c_allow_unprotected cfg = false -> protected tx = true /\ chain_id tx = c_eip155 cfg).
Proof. exact accepted_only_if_signed_partial. Qed.
Print Assumptions C03_accepted_only_if_signed_partial.

(** Changing any signed field: a transaction whose content [a]'s key holder never
    signed does not execute on [a]'s behalf, whatever signature it carries. *)
Theorem C03_mutation_rejected_partial :
  forall (hash : list N -> list N) (recover : list N -> Z -> Z -> Z -> option (list N))
         (cfg : chain_cfg) (signed : list N -> Z -> eth_tx -> Prop)
         (st : list N -> N) (tx' : eth_tx) (ok : bool) (a : list N),
    (forall (h : list N) (r s v : Z) (a : list N), recover h r s v = Some a ->
       exists (cid0 : Z) (tx0 : eth_tx), signed a cid0 tx0 /\ hash (sign_preimage cid0 tx0) = h) ->
    (forall cid1 tx1 cid2 tx2, hash (sign_preimage cid1 tx1) = hash (sign_preimage cid2 tx2) ->
       sign_preimage cid1 tx1 = sign_preimage cid2 tx2) ->
    (forall a cid0 tx0, signed a cid0 tx0 -> signable cid0 tx0) ->
    signable (c_eip155 cfg) tx' ->
    (forall (cid0 : Z) (tx0 : eth_tx), signed a cid0 tx0 ->
       signed_content_of cid0 tx0 <> signed_content_of (c_eip155 cfg) tx') ->
    snd (step_eth hash recover cfg st (tx', ok)) <> Some a.
Proof. exact mutation_rejected_partial. Qed.
Print Assumptions C03_mutation_rejected_partial.

(** A signature made for another chain id is useless here, even if the
    transaction is re-labelled with this chain's id. *)
Theorem C03_foreign_signature_rejected_partial :
  forall (hash : list N -> list N) (recover : list N -> Z -> Z -> Z -> option (list N))
         (cfg : chain_cfg) (signed : list N -> Z -> eth_tx -> Prop)
         (st : list N -> N) (tx : eth_tx) (ok : bool) (a : list N),
    (forall (h : list N) (r s v : Z) (a : list N), recover h r s v = Some a ->
       exists (cid0 : Z) (tx0 : eth_tx), signed a cid0 tx0 /\ hash (sign_preimage cid0 tx0) = h) ->
    (forall cid1 tx1 cid2 tx2, hash (sign_preimage cid1 tx1) = hash (sign_preimage cid2 tx2) ->
       sign_preimage cid1 tx1 = sign_preimage cid2 tx2) ->
    (forall a cid0 tx0, signed a cid0 tx0 -> signable cid0 tx0) ->
    signable (c_eip155 cfg) tx ->
    (forall (cid0 : Z) (tx0 : eth_tx), signed a cid0 tx0 -> protected tx0 = true /\ cid0 <> c_eip155 cfg) ->
    snd (step_eth hash recover cfg st (tx, ok)) <> Some a.
Proof. exact foreign_signature_rejected_partial. Qed.
Print Assumptions C03_foreign_signature_rejected_partial.

(** * Cosmos route (sign doc = chain id, account number, sequence, body) *)
Theorem C03_cosmos_each_seq_once :
  forall (A B S : Type) (A_dec : forall a b : A, {a = b} + {a <> b})
         (digests : @sign_doc B -> list (list N)) (verify : A -> list N -> S -> bool) (chain : string)
         (accnum : A -> N) (h : list (@cosmos_tx A B S * bool)) (st : A -> N) (i j : nat) (a : A) (n : N),
    accepted_cosmos A_dec digests verify chain accnum st h i a n ->
    accepted_cosmos A_dec digests verify chain accnum st h j a n -> i = j.
Proof. exact @cosmos_each_seq_once. Qed.
Print Assumptions C03_cosmos_each_seq_once.

Theorem C03_cosmos_replay_rejected :
  forall (A B S : Type) (A_dec : forall a b : A, {a = b} + {a <> b})
         (digests : @sign_doc B -> list (list N)) (verify : A -> list N -> S -> bool) (chain : string)
         (accnum : A -> N) (h : list (@cosmos_tx A B S * bool)) (st : A -> N) (i j : nat) (a : A) (n : N),
    accepted_cosmos A_dec digests verify chain accnum st h i a n -> i <> j ->
    ~ accepted_cosmos A_dec digests verify chain accnum st h j a n.
Proof. exact @cosmos_replay_rejected. Qed.
Print Assumptions C03_cosmos_replay_rejected.

Theorem C03_cosmos_accepted_only_if_signed_partial :
  forall (A B S : Type) (A_dec : forall a b : A, {a = b} + {a <> b})
         (digests : @sign_doc B -> list (list N)) (verify : A -> list N -> S -> bool) (chain : string)
         (accnum : A -> N) (signed_doc : A -> @sign_doc B -> Prop)
         (st : A -> N) (t : @cosmos_tx A B S) (ok : bool) (a : A),
    (* unforgeability *)
    (forall (a : A) (h : list N) (s : S), verify a h s = true ->
       exists d, signed_doc a d /\ In h (digests d)) ->
    (* collision resistance / injective sign bytes *)
    (forall d d' h, In h (digests d) -> In h (digests d') -> d = d') ->
    snd (step_cosmos A_dec digests verify chain accnum st (t, ok)) = Some a ->
    a = ct_signer t /\
    signed_doc a (mk_doc chain (accnum a) (st a) (ct_body t)) /\
    ct_seq t = st a.
Proof. exact @cosmos_accepted_only_if_signed_partial. Qed.
Print Assumptions C03_cosmos_accepted_only_if_signed_partial.

Theorem C03_cosmos_mutation_rejected_partial :
  forall (A B S : Type) (A_dec : forall a b : A, {a = b} + {a <> b})
         (digests : @sign_doc B -> list (list N)) (verify : A -> list N -> S -> bool) (chain : string)
         (accnum : A -> N) (signed_doc : A -> @sign_doc B -> Prop)
         (st : A -> N) (t : @cosmos_tx A B S) (ok : bool) (a : A),
    (forall (a : A) (h : list N) (s : S), verify a h s = true ->
       exists d, signed_doc a d /\ In h (digests d)) ->
    (forall d d' h, In h (digests d) -> In h (digests d') -> d = d') ->
    (forall d, signed_doc a d -> d <> mk_doc chain (accnum a) (st a) (ct_body t)) ->
    snd (step_cosmos A_dec digests verify chain accnum st (t, ok)) <> Some a.
Proof. exact @cosmos_mutation_rejected_partial. Qed.
Print Assumptions C03_cosmos_mutation_rejected_partial.

Theorem C03_cosmos_foreign_chain_rejected_partial :
  forall (A B S : Type) (A_dec : forall a b : A, {a = b} + {a <> b})
         (digests : @sign_doc B -> list (list N)) (verify : A -> list N -> S -> bool) (chain : string)
         (accnum : A -> N) (signed_doc : A -> @sign_doc B -> Prop)
         (st : A -> N) (t : @cosmos_tx A B S) (ok : bool) (a : A),
    (forall (a : A) (h : list N) (s : S), verify a h s = true ->
       exists d, signed_doc a d /\ In h (digests d)) ->
    (forall d d' h, In h (digests d) -> In h (digests d') -> d = d') ->
    (forall d, signed_doc a d -> sd_chain d <> chain) ->
    snd (step_cosmos A_dec digests verify chain accnum st (t, ok)) <> Some a.
Proof. exact @cosmos_foreign_chain_rejected_partial. Qed.
Print Assumptions C03_cosmos_foreign_chain_rejected_partial.

Theorem C03_cosmos_honest_accepted :
  forall (A B S : Type) (A_dec : forall a b : A, {a = b} + {a <> b})
         (digests : @sign_doc B -> list (list N)) (verify : A -> list N -> S -> bool) (chain : string)
         (accnum st : A -> N) (t : @cosmos_tx A B S) (h : list N),
    In h (digests (mk_doc chain (accnum (ct_signer t)) (st (ct_signer t)) (ct_body t))) ->
    verify (ct_signer t) h (ct_sig t) = true ->
    ct_seq t = st (ct_signer t) ->
    step_cosmos A_dec digests verify chain accnum st (t, true)
    = (upd A_dec st (ct_signer t) (st (ct_signer t) + 1)%N, Some (ct_signer t)).
Proof. exact @cosmos_honest_accepted. Qed.
Print Assumptions C03_cosmos_honest_accepted.

(** * legacy EIP-712 route *)
Theorem C03_eip712_each_seq_once :
  forall (A B S : Type) (A_dec : forall a b : A, {a = b} + {a <> b})
         (digests : @sign_doc B -> list (list N)) (verify : A -> list N -> S -> bool) (chain : string)
         (accnum : A -> N) (eip155 : Z) (h : list (@cosmos_tx A B S * bool)) (st : A -> N) (i j : nat) (a : A) (n : N),
    accepted_eip712 A_dec digests verify chain accnum eip155 st h i a n ->
    accepted_eip712 A_dec digests verify chain accnum eip155 st h j a n -> i = j.
Proof. exact @eip712_each_seq_once. Qed.
Print Assumptions C03_eip712_each_seq_once.

Theorem C03_eip712_replay_rejected :
  forall (A B S : Type) (A_dec : forall a b : A, {a = b} + {a <> b})
         (digests : @sign_doc B -> list (list N)) (verify : A -> list N -> S -> bool) (chain : string)
         (accnum : A -> N) (eip155 : Z) (h : list (@cosmos_tx A B S * bool)) (st : A -> N) (i j : nat) (a : A) (n : N),
    accepted_eip712 A_dec digests verify chain accnum eip155 st h i a n -> i <> j ->
    ~ accepted_eip712 A_dec digests verify chain accnum eip155 st h j a n.
Proof. exact @eip712_replay_rejected. Qed.
Print Assumptions C03_eip712_replay_rejected.

Theorem C03_eip712_accepted_only_if_signed_partial :
  forall (A B S : Type) (A_dec : forall a b : A, {a = b} + {a <> b})
         (digests : @sign_doc B -> list (list N)) (verify : A -> list N -> S -> bool) (chain : string)
         (accnum : A -> N) (eip155 : Z) (signed_doc : A -> @sign_doc B -> Prop)
         (st : A -> N) (t : @cosmos_tx A B S) (ok : bool) (a : A),
    (forall (a : A) (h : list N) (s : S), verify a h s = true ->
       exists d, signed_doc a d /\ In h (digests d)) ->
    (forall d d' h, In h (digests d) -> In h (digests d') -> d = d') ->
    snd (step_eip712 A_dec digests verify chain accnum eip155 st (t, ok)) = Some a ->
    a = ct_signer t /\
    signed_doc a (mk_doc chain (accnum a) (st a) (ct_body t)) /\
    ct_seq t = st a /\
    ct_ext_chain t = eip155 /\ ct_payer_is_signer t = true.
Proof. exact @eip712_accepted_only_if_signed_partial. Qed.
Print Assumptions C03_eip712_accepted_only_if_signed_partial.

(** a typed-data chain id other than the chain's EIP-155 id is refused outright *)
Theorem C03_eip712_foreign_chain_rejected :
  forall (A B S : Type) (A_dec : forall a b : A, {a = b} + {a <> b})
         (digests : @sign_doc B -> list (list N)) (verify : A -> list N -> S -> bool) (chain : string)
         (accnum : A -> N) (eip155 : Z) (st : A -> N) (t : @cosmos_tx A B S) (ok : bool),
    ct_ext_chain t <> eip155 ->
    step_eip712 A_dec digests verify chain accnum eip155 st (t, ok) = (st, None).
Proof. exact @eip712_foreign_chain_rejected. Qed.
Print Assumptions C03_eip712_foreign_chain_rejected.

Theorem C03_eip712_mutation_rejected_partial :
  forall (A B S : Type) (A_dec : forall a b : A, {a = b} + {a <> b})
         (digests : @sign_doc B -> list (list N)) (verify : A -> list N -> S -> bool) (chain : string)
         (accnum : A -> N) (eip155 : Z) (signed_doc : A -> @sign_doc B -> Prop)
         (st : A -> N) (t : @cosmos_tx A B S) (ok : bool) (a : A),
    (forall (a : A) (h : list N) (s : S), verify a h s = true ->
       exists d, signed_doc a d /\ In h (digests d)) ->
    (forall d d' h, In h (digests d) -> In h (digests d') -> d = d') ->
    (forall d, signed_doc a d -> d <> mk_doc chain (accnum a) (st a) (ct_body t)) ->
    snd (step_eip712 A_dec digests verify chain accnum eip155 st (t, ok)) <> Some a.
Proof. exact @eip712_mutation_rejected_partial. Qed.
Print Assumptions C03_eip712_mutation_rejected_partial.

(** * non-vacuity *)

(** With a toy signature scheme that satisfies the single hypothesis: a signed
    dynamic-fee transaction for chain 11235 at the right nonce is accepted once,
    its replays are rejected, the other Haqq network (54211) refuses it, it is
    [signable], and a pre-EIP-155 transaction is refused. *)
Theorem C03_nonvacuous :
  outcomes_eth toy_hash toy_recover ex_cfg ex_state [(ex_signed, true); (ex_signed, true); (ex_signed, true)]
  = [Some (toy_addr 42); None; None] /\
  outcomes_eth toy_hash toy_recover (mk_cfg 54211 false) ex_state [(ex_signed, true)] = [None] /\
  signable 11235 ex_signed /\
  (protected ex_homestead = false /\
   step_eth toy_hash toy_recover ex_cfg ex_state (ex_homestead, true) = (ex_state, None)).
Proof. exact (conj ex_accept_then_replay (conj ex_other_chain (conj ex_signable ex_unprotected))). Qed.
Print Assumptions C03_nonvacuous.

(** The cryptographic premises of the [_partial] theorems are jointly
    satisfiable, and under them a transaction is accepted: those theorems are not
    vacuous for want of a model of their hypotheses. *)
Theorem C03_partial_premises_satisfiable :
  (forall (h : list N) (r s v : Z) (a : list N), one_recover h r s v = Some a ->
     exists (cid0 : Z) (tx0 : eth_tx), one_signed a cid0 tx0 /\ id_hash (sign_preimage cid0 tx0) = h) /\
  (forall cid1 tx1 cid2 tx2, id_hash (sign_preimage cid1 tx1) = id_hash (sign_preimage cid2 tx2) ->
     sign_preimage cid1 tx1 = sign_preimage cid2 tx2) /\
  (forall a cid0 tx0, one_signed a cid0 tx0 -> signable cid0 tx0) /\
  snd (step_eth id_hash one_recover ex_cfg (fun _ => 5%N) (ex_unsigned, true)) = Some [9%N; 9%N].
Proof.
  exact (conj (proj1 premises_satisfiable)
        (conj (proj1 (proj2 premises_satisfiable))
        (conj (proj2 (proj2 premises_satisfiable)) premises_allow_acceptance))).
Qed.
Print Assumptions C03_partial_premises_satisfiable.

(** * Contract creations inside multi-message Ethereum transactions; events

    A MsgEthereumTx may be a contract creation.  The ante handler has advanced
    the sender's sequence for ALL messages of the Cosmos transaction before the
    first one executes; executing a successful creation with nonce [m] then
    writes the sender's nonce again (ApplyMessageWithConfig "takes over the nonce
    management").  [step_eth_txc rule]: the ante handler ([step_eth_tx]) followed
    by the execution phase, in which a message flagged [creates] and [create_ok]
    writes [rule (current nonce) m].  The code as it is now:
    [nonce_after_creation before m = max before (m + 1)]; the code before commit
    f9ff121: [nonce_after_creation_old before m = m + 1]. *)

(** With the rule of the code as it is now the execution phase changes no
    sequence, whatever the flags: a transaction with creations is accepted
    exactly when the ante handler accepts it and leaves exactly its sequences. *)
Theorem C03_creating_execution_noop :
  forall (hash : list N -> list N) (recover : list N -> Z -> Z -> Z -> option (list N))
         (cfg : chain_cfg) (st : list N -> N) (msc : list (eth_tx * cflag)) (ok : bool),
    snd (step_eth_txc hash recover cfg nonce_after_creation st (msc, ok))
    = snd (step_eth_tx hash recover cfg st (map fst msc, ok)) /\
    forall b : list N, fst (step_eth_txc hash recover cfg nonce_after_creation st (msc, ok)) b
                       = fst (step_eth_tx hash recover cfg st (map fst msc, ok)) b.
Proof. exact eth_txc_execution_noop. Qed.
Print Assumptions C03_creating_execution_noop.

(** Sequence = n + k: after an accepted transaction every account's sequence
    has grown by the number of its messages in it, creations (successful or
    failed) or calls, at any position. *)
Theorem C03_creating_sequence_n_plus_k :
  forall (hash : list N -> list N) (recover : list N -> Z -> Z -> Z -> option (list N))
         (cfg : chain_cfg) (st : list N -> N) (msc : list (eth_tx * cflag)) (ok : bool) (l : list (list N)),
    snd (step_eth_txc hash recover cfg nonce_after_creation st (msc, ok)) = Some l ->
    forall b : list N, fst (step_eth_txc hash recover cfg nonce_after_creation st (msc, ok)) b
                       = (st b + N.of_nat (count_occ (list_eq_dec N.eq_dec) l b))%N.
Proof. exact eth_txc_sequence. Qed.
Print Assumptions C03_creating_sequence_n_plus_k.

(** At most once, over ALL histories of transactions with creations (any flags,
    any order, any replays alone or in sub-batches). *)
Theorem C03_creating_each_nonce_once :
  forall (hash : list N -> list N) (recover : list N -> Z -> Z -> Z -> option (list N))
         (cfg : chain_cfg) (h : list (list (eth_tx * cflag) * bool)) (st : list N -> N)
         (j k j' k' : nat) (a : list N) (n : N),
    executed_eth_txc hash recover cfg nonce_after_creation st h j k a n ->
    executed_eth_txc hash recover cfg nonce_after_creation st h j' k' a n -> j = j' /\ k = k'.
Proof. exact eth_txc_each_nonce_once. Qed.
Print Assumptions C03_creating_each_nonce_once.

Theorem C03_creating_sequences_monotone :
  forall (hash : list N -> list N) (recover : list N -> Z -> Z -> Z -> option (list N))
         (cfg : chain_cfg) (h1 h2 : list (list (eth_tx * cflag) * bool)) (st : list N -> N) (b : list N),
    (final_eth_txc hash recover cfg nonce_after_creation st h1 b
     <= final_eth_txc hash recover cfg nonce_after_creation st (h1 ++ h2) b)%N.
Proof. exact eth_txc_sequences_monotone. Qed.
Print Assumptions C03_creating_sequences_monotone.

(** REFUTED for the old rule (the code before commit f9ff121): in the history
    [tx [create 5; call 6]; tx [call 6]] the call executes twice -- the
    at-most-once statement is false -- and after the first transaction (two
    messages accepted from sequence 5) the sequence is 6, not 7. *)
Theorem C03_old_creation_rule_refuted :
  ~ (forall (h : list (list (eth_tx * cflag) * bool)) (st : list N -> N) (j k j' k' : nat) (a : list N) (n : N),
       executed_eth_txc toy_hash toy_recover ex_cfg nonce_after_creation_old st h j k a n ->
       executed_eth_txc toy_hash toy_recover ex_cfg nonce_after_creation_old st h j' k' a n -> j = j' /\ k = k').
Proof. exact old_creation_rule_refuted. Qed.
Print Assumptions C03_old_creation_rule_refuted.

Theorem C03_old_creation_rule_sequence_refuted :
  ~ (forall (st : list N -> N) (msc : list (eth_tx * cflag)) (ok : bool) (l : list (list N)),
       snd (step_eth_txc toy_hash toy_recover ex_cfg nonce_after_creation_old st (msc, ok)) = Some l ->
       forall b : list N, fst (step_eth_txc toy_hash toy_recover ex_cfg nonce_after_creation_old st (msc, ok)) b
                          = (st b + N.of_nat (count_occ (list_eq_dec N.eq_dec) l b))%N).
Proof. exact old_creation_rule_sequence_refuted. Qed.
Print Assumptions C03_old_creation_rule_sequence_refuted.

(** The witness, and the same history under the rule of the code as it is now
    (the replay is rejected, the sequence ends at 7 = 5 + 2). *)
Theorem C03_creating_nonvacuous :
  (outcomes_eth_txc toy_hash toy_recover ex_cfg nonce_after_creation ex_state ex_create_history
   = [Some [toy_addr 42; toy_addr 42]; None] /\
   seq_of (final_eth_txc toy_hash toy_recover ex_cfg nonce_after_creation ex_state ex_create_history) = (7%N, 0%N) /\
   executed_eth_txc toy_hash toy_recover ex_cfg nonce_after_creation ex_state ex_create_history 0 1 (toy_addr 42) 6%N) /\
  (outcomes_eth_txc toy_hash toy_recover ex_cfg nonce_after_creation_old ex_state ex_create_history
   = [Some [toy_addr 42; toy_addr 42]; Some [toy_addr 42]] /\
   seq_of (final_eth_txc toy_hash toy_recover ex_cfg nonce_after_creation_old ex_state (firstn 1 ex_create_history)) = (6%N, 0%N) /\
   executed_eth_txc toy_hash toy_recover ex_cfg nonce_after_creation_old ex_state ex_create_history 0 1 (toy_addr 42) 6%N /\
   executed_eth_txc toy_hash toy_recover ex_cfg nonce_after_creation_old ex_state ex_create_history 1 0 (toy_addr 42) 6%N).
Proof. exact (conj ex_create_new_rule ex_create_old_rule). Qed.
Print Assumptions C03_creating_nonvacuous.

(** ** Events: everything that happens to the sequences

    A history of events mixes submissions (Ethereum route, wrapped), Ethereum
    transactions with creations ([ECreating]) and account-type operations
    ([EAccountOp o target signed ok]: conversion of [target] into a vesting
    account by a third party, a merge into it, the conversion back -- a
    transaction of its own signers, which leaves [target]'s sequence alone). *)

(** At most once, over ALL histories of events. *)
Theorem C03_event_each_nonce_once :
  forall (hash : list N -> list N) (recover : list N -> Z -> Z -> Z -> option (list N))
         (cfg : chain_cfg) (W O : Type) (h : list (@event (list N) eth_tx W O)) (st : list N -> N)
         (j k j' k' : nat) (a : list N) (n : N),
    executed_eth_event hash recover cfg nonce_after_creation st h j k a n ->
    executed_eth_event hash recover cfg nonce_after_creation st h j' k' a n -> j = j' /\ k = k'.
Proof. exact eth_event_each_nonce_once. Qed.
Print Assumptions C03_event_each_nonce_once.

(** A message executed once is never executed again, whatever events lie
    between (account-type operations, creations, wrapped submissions). *)
Theorem C03_event_replay_rejected :
  forall (hash : list N -> list N) (recover : list N -> Z -> Z -> Z -> option (list N))
         (cfg : chain_cfg) (W O : Type) (h : list (@event (list N) eth_tx W O)) (st : list N -> N)
         (j k : nat) (a : list N) (n : N) (j' k' : nat),
    executed_eth_event hash recover cfg nonce_after_creation st h j k a n -> (j < j')%nat ->
    ~ executed_eth_event hash recover cfg nonce_after_creation st h j' k' a n.
Proof. exact eth_event_replay_rejected. Qed.
Print Assumptions C03_event_replay_rejected.

(** Sequences never decrease, over ALL histories of events. *)
Theorem C03_event_sequences_monotone :
  forall (hash : list N -> list N) (recover : list N -> Z -> Z -> Z -> option (list N))
         (cfg : chain_cfg) (W O : Type) (h1 h2 : list (@event (list N) eth_tx W O)) (st : list N -> N) (b : list N),
    (final_eth_event hash recover cfg nonce_after_creation st h1 b
     <= final_eth_event hash recover cfg nonce_after_creation st (h1 ++ h2) b)%N.
Proof. exact eth_event_sequences_monotone. Qed.
Print Assumptions C03_event_sequences_monotone.

(** Whatever executes carried a nonce not below the account's sequence before
    the event and below its sequence after it. *)
Theorem C03_event_executed_at_current_sequence :
  forall (hash : list N -> list N) (recover : list N -> Z -> Z -> Z -> option (list N))
         (cfg : chain_cfg) (W O : Type) (h : list (@event (list N) eth_tx W O)) (st : list N -> N)
         (j k : nat) (a : list N) (n : N),
    executed_eth_event hash recover cfg nonce_after_creation st h j k a n ->
    (final_eth_event hash recover cfg nonce_after_creation st (firstn j h) a <= n
     < final_eth_event hash recover cfg nonce_after_creation st (firstn (S j) h) a)%N.
Proof. exact eth_event_executed_at_current_sequence. Qed.
Print Assumptions C03_event_executed_at_current_sequence.

(** An account-type operation does not move its target's sequence (unless the
    target itself signed the operation). *)
Theorem C03_account_op_target_untouched :
  forall (hash : list N -> list N) (recover : list N -> Z -> Z -> Z -> option (list N))
         (cfg : chain_cfg) (W O : Type) (st : list N -> N) (o : O) (target : list N) (signed : list eth_tx) (ok : bool),
    (forall m, In m signed -> auth_eth hash recover cfg st m <> Some target) ->
    fst (step_eth_event (W:=W) hash recover cfg nonce_after_creation st (EAccountOp o target signed ok)) target = st target.
Proof. exact eth_account_op_target_untouched. Qed.
Print Assumptions C03_account_op_target_untouched.

(** The machine the correspondence run evaluates ([step_sub_event]) is an
    instance. *)
Theorem C03_sub_event_each_nonce_once :
  forall (nd : node) (h : list (@event N sub wrap account_op)) (st : N -> N) (j k j' k' : nat) (a n : N),
    executed_event N.eq_dec (auth_sub nd) sub_nonce nonce_after_creation st h j k a n ->
    executed_event N.eq_dec (auth_sub nd) sub_nonce nonce_after_creation st h j' k' a n -> j = j' /\ k = k'.
Proof. exact sub_event_each_nonce_once. Qed.
Print Assumptions C03_sub_event_each_nonce_once.

Theorem C03_sub_event_sequences_monotone :
  forall (nd : node) (h1 h2 : list (@event N sub wrap account_op)) (st : N -> N) (b : N),
    (final_event N.eq_dec (auth_sub nd) sub_nonce nonce_after_creation st h1 b
     <= final_event N.eq_dec (auth_sub nd) sub_nonce nonce_after_creation st (h1 ++ h2) b)%N.
Proof. exact sub_event_sequences_monotone. Qed.
Print Assumptions C03_sub_event_sequences_monotone.

(** Non-vacuity: a creation batch of key 42, a conversion of key 42's account
    signed by key 43, the replay of the batch's call (rejected), the replay of
    the creation (rejected), a wrapped replay (rejected), the conversion back, a
    batch with a FAILED creation (accepted, sequence + 2), a stale message. *)
Theorem C03_event_nonvacuous :
  outcomes_eth_event toy_hash toy_recover ex_cfg nonce_after_creation ex_state ex_event_history
  = [Some [toy_addr 42; toy_addr 42]; Some [toy_addr 43]; None; None; None; Some [toy_addr 43];
     Some [toy_addr 42; toy_addr 42]; None] /\
  map (fun i => seq_of (final_eth_event toy_hash toy_recover ex_cfg nonce_after_creation ex_state (firstn i ex_event_history)))
      [0; 1; 2; 6; 7; 8]%nat
  = [(5%N, 0%N); (7%N, 0%N); (7%N, 1%N); (7%N, 2%N); (9%N, 2%N); (9%N, 2%N)] /\
  executed_eth_event toy_hash toy_recover ex_cfg nonce_after_creation ex_state ex_event_history 0 1 (toy_addr 42) 6%N.
Proof. exact ex_event_outcomes. Qed.
Print Assumptions C03_event_nonvacuous.

(** ** The message as it travels: Data, and the self-reported Hash and From

    A MsgEthereumTx carries its TxData and two texts that whoever builds the
    Cosmos envelope writes: [Hash] and [From].  The validation binds Hash to
    Data (ValidateBasic recomputes it from the conversion of Data) and demands an
    empty From; who a message is authenticated as, the nonce compared with the
    sequence, and what executes are functions of Data alone, computed afresh at
    every use -- no step remembers a message seen earlier in the process.
    Hence a message built from an executed (or merely validated) transaction
    -- nonce set to the account's current sequence, value / recipient / gas
    changed, the old signature values kept, the Hash text of the original or
    of any other transaction, a From text naming the victim -- is refused,
    alone or inside a multi-message transaction, whatever happened before. *)

(** The claims cannot choose the account: for given Data at most one (Hash, From)
    pair passes, and the account is the same whatever is claimed. *)
Theorem C03_msg_claims_cannot_choose :
  forall (hash : list N -> list N) (recover : list N -> Z -> Z -> Z -> option (list N)) (cfg : chain_cfg)
         (st : list N -> N) (d : tx_data) (h f h' f' : string) (a a' : list N),
    auth_emsg hash recover cfg st (mk_emsg d h f) = Some a ->
    auth_emsg hash recover cfg st (mk_emsg d h' f') = Some a' -> a = a' /\ h = h' /\ f = f'.
Proof. exact emsg_claims_cannot_choose. Qed.
Print Assumptions C03_msg_claims_cannot_choose.

(** A Cosmos transaction containing a message whose Hash text is not the hash of
    its own Data is refused as a whole, without effect -- for every state, every
    other message beside it, every verdict of the other checks. *)
Theorem C03_msg_forged_hash_rejected :
  forall (hash : list N -> list N) (recover : list N -> Z -> Z -> Z -> option (list N)) (cfg : chain_cfg)
         (st : list N -> N) (ms : list emsg) (ok : bool) (m : emsg) (tx : eth_tx),
    In m ms -> as_tx m = Some tx -> m_hash m <> hash_hex (tx_hash hash tx) ->
    step_emsg_tx hash recover cfg st (ms, ok) = (st, None).
Proof. exact emsg_tx_forged_hash_rejected. Qed.
Print Assumptions C03_msg_forged_hash_rejected.

(** ... and so is one containing a message with a From text. *)
Theorem C03_msg_forged_from_rejected :
  forall (hash : list N -> list N) (recover : list N -> Z -> Z -> Z -> option (list N)) (cfg : chain_cfg)
         (st : list N -> N) (ms : list emsg) (ok : bool) (m : emsg),
    In m ms -> m_from m <> EmptyString -> step_emsg_tx hash recover cfg st (ms, ok) = (st, None).
Proof. exact emsg_tx_forged_from_rejected. Qed.
Print Assumptions C03_msg_forged_from_rejected.

(** At most once over ALL histories of transactions of messages, whatever the
    messages claim. *)
Theorem C03_msg_each_nonce_once :
  forall (hash : list N -> list N) (recover : list N -> Z -> Z -> Z -> option (list N)) (cfg : chain_cfg)
         (h : list (list emsg * bool)) (st : list N -> N) (j k j' k' : nat) (a : list N) (n : N),
    executed_emsg hash recover cfg st h j k a n -> executed_emsg hash recover cfg st h j' k' a n -> j = j' /\ k = k'.
Proof. exact emsg_tx_each_nonce_once. Qed.
Print Assumptions C03_msg_each_nonce_once.

(** On messages as FromEthereumTx writes them the machine of messages is the
    machine of transactions: all theorems of the Ethereum route apply. *)
Theorem C03_msg_canonical_is_tx_machine :
  forall (hash : list N -> list N) (recover : list N -> Z -> Z -> Z -> option (list N)) (cfg : chain_cfg)
         (st : list N -> N) (ms : list emsg) (txs : list eth_tx) (ok : bool),
    Forall2 (fun m tx => as_tx m = Some tx /\ claims_ok hash m tx = true) ms txs ->
    step_emsg_tx hash recover cfg st (ms, ok) = step_eth_tx hash recover cfg st (txs, ok).
Proof. exact emsg_tx_canonical. Qed.
Print Assumptions C03_msg_canonical_is_tx_machine.

(** Message [k] of an accepted transaction executes on behalf of [a] only if
    its Hash text is the hash of its Data, its From text is empty, the nonce
    in its Data is [a]'s sequence at that point, and -- premises as in
    [C03_accepted_only_if_signed_partial] -- [a]'s key holder signed exactly the
    content of its Data. *)
Theorem C03_msg_executes_only_signed_data_partial :
  forall (hash : list N -> list N) (recover : list N -> Z -> Z -> Z -> option (list N)) (cfg : chain_cfg)
         (signed : list N -> Z -> eth_tx -> Prop)
         (st : list N -> N) (ms : list emsg) (ok : bool) (l : list (list N)) (k : nat) (m : emsg) (a : list N),
    (forall (h : list N) (r s v : Z) (a : list N), recover h r s v = Some a ->
       exists (cid0 : Z) (tx0 : eth_tx), signed a cid0 tx0 /\ hash (sign_preimage cid0 tx0) = h) ->
    (forall cid1 tx1 cid2 tx2, hash (sign_preimage cid1 tx1) = hash (sign_preimage cid2 tx2) ->
       sign_preimage cid1 tx1 = sign_preimage cid2 tx2) ->
    (forall a cid0 tx0, signed a cid0 tx0 -> signable cid0 tx0) ->
    snd (step_emsg_tx hash recover cfg st (ms, ok)) = Some l -> nth_error ms k = Some m -> nth_error l k = Some a ->
    exists tx, as_tx m = Some tx /\ m_hash m = hash_hex (tx_hash hash tx) /\ m_from m = EmptyString /\
               tx_nonce tx = (st a + N.of_nat (count_occ (list_eq_dec N.eq_dec) (firstn k l) a))%N /\
               (signable (c_eip155 cfg) tx ->
                exists cid0 tx0, signed a cid0 tx0 /\ signed_content_of cid0 tx0 = signed_content_of (c_eip155 cfg) tx).
Proof. exact emsg_executes_only_signed_data_partial. Qed.
Print Assumptions C03_msg_executes_only_signed_data_partial.

(** A message whose Data has a content nobody ever signed poisons the whole
    Cosmos transaction, whatever its Hash and From texts claim. *)
Theorem C03_msg_unsigned_data_rejected_partial :
  forall (hash : list N -> list N) (recover : list N -> Z -> Z -> Z -> option (list N)) (cfg : chain_cfg)
         (signed : list N -> Z -> eth_tx -> Prop)
         (st : list N -> N) (ms : list emsg) (ok : bool) (m : emsg) (tx' : eth_tx),
    (forall (h : list N) (r s v : Z) (a : list N), recover h r s v = Some a ->
       exists (cid0 : Z) (tx0 : eth_tx), signed a cid0 tx0 /\ hash (sign_preimage cid0 tx0) = h) ->
    (forall cid1 tx1 cid2 tx2, hash (sign_preimage cid1 tx1) = hash (sign_preimage cid2 tx2) ->
       sign_preimage cid1 tx1 = sign_preimage cid2 tx2) ->
    (forall a cid0 tx0, signed a cid0 tx0 -> signable cid0 tx0) ->
    In m ms -> as_tx m = Some tx' -> signable (c_eip155 cfg) tx' ->
    (forall a cid0 tx0, signed a cid0 tx0 -> signed_content_of cid0 tx0 <> signed_content_of (c_eip155 cfg) tx') ->
    step_emsg_tx hash recover cfg st (ms, ok) = (st, None).
Proof. exact emsg_unsigned_data_rejected_partial. Qed.
Print Assumptions C03_msg_unsigned_data_rejected_partial.

(** The recorded form of the correspondence run: a unit whose Hash text is not
    bound to its Data, or whose From text is not empty, makes the whole event be
    refused without effect; with both facts true it is the plain Ethereum unit. *)
Theorem C03_sub_forged_rejected :
  forall (nd : node) (st : N -> N) (ms : list sub) (ok : bool) (hash_bound from_empty prot : bool) (c : Z) (n : N) (r : option N),
    In (SEthMsg hash_bound from_empty prot c n r) ms -> hash_bound && from_empty = false ->
    step_sub_event nd st (ESub (Direct ms ok)) = (st, None).
Proof. exact sub_event_forged_rejected. Qed.
Print Assumptions C03_sub_forged_rejected.

Theorem C03_sub_canonical_msg :
  forall (nd : node) (st : N -> N) (prot : bool) (c : Z) (n : N) (r : option N),
    auth_sub nd st (SEthMsg true true prot c n r) = auth_sub nd st (SEth prot c n r).
Proof. exact sub_ethmsg_canonical. Qed.
Print Assumptions C03_sub_canonical_msg.

(** NOT the code of /repo: a process-wide memo "Hash text -> converted
    transaction" consulted by the self-reported Hash before Data is converted
    ([step_memo]) -- T executes; then a message whose Data is T with the nonce
    set to the account's new sequence (Data from which no account is recovered)
    under the Hash text of T executes T a second time for the account.  The
    machine of the code refuses that message. *)
Theorem C03_memo_replays_refuted :
  exists (hash : list N -> list N) (recover : list N -> Z -> Z -> Z -> option (list N)) (cfg : chain_cfg)
         (st : list N -> N) (m1 m2 : emsg) (a : list N) (T T2 : eth_tx),
    outcomes_memo hash recover cfg (st, []) [(m1, true); (m2, true)] = [Some (a, T); Some (a, T)] /\
    as_tx m1 = Some T /\ as_tx m2 = Some T2 /\ T2 <> T /\ sender hash recover (c_eip155 cfg) T2 = None /\
    outcomes_emsg_tx hash recover cfg st [([m1], true); ([m2], true)] = [Some [a]; None].
Proof. exact memo_replays_refuted. Qed.
Print Assumptions C03_memo_replays_refuted.

(** Non-vacuity: T (executes); T's Data re-nonced under T's Hash text; the same
    with the Hash recomputed; the genuine next transaction under T's Hash text;
    with a From text; beside a forged replay; as it should be (executes); T again. *)
Theorem C03_msg_nonvacuous :
  from_eth_tx toy_hash no_csum ex_T = Some (ex_msg ex_T) /\
  as_tx ex_forged_replay = Some (renonce ex_T 6) /\
  outcomes_emsg_tx toy_hash toy_recover ex_cfg ex_state ex_forged_history
  = [Some [toy_addr 42]; None; None; None; None; None; Some [toy_addr 42]; None] /\
  seq_of (final_emsg_tx toy_hash toy_recover ex_cfg ex_state ex_forged_history) = (7%N, 0%N).
Proof. exact ex_forged_outcomes. Qed.
Print Assumptions C03_msg_nonvacuous.

Theorem C03_msg_forged_premises_nonvacuous :
  as_tx ex_forged_replay = Some (renonce ex_T 6) /\
  m_hash ex_forged_replay <> hash_hex (tx_hash toy_hash (renonce ex_T 6)) /\
  step_emsg_tx toy_hash toy_recover ex_cfg ex_state ([ex_forged_replay], true) = (ex_state, None).
Proof. exact ex_forged_premises. Qed.
Print Assumptions C03_msg_forged_premises_nonvacuous.
