(** Property C05 — a reverted EVM call frame leaves no trace, precompiles included.
    Only statements; each is closed by a lemma of Evm/JournalProofs.v or Evm/SupplyProofs.v. *)
From Coq Require Import ZArith List.
From stdpp Require Import gmap.
From HV Require Import Evm.ExecModel Evm.JournalProofs Evm.SupplyProofs Evm.ConservationProofs Evm.LazyProofs Evm.Witnesses.
Local Open Scope Z_scope.

(** The journal is a correct undo log: for ANY sequence of cache mutations (balance
    changes, storage writes, logs, account loads and creations) made after a snapshot,
    RevertToSnapshot restores every observable of the cache: balances, storage reads,
    the log count, the dirty counters and the journal itself. *)
Theorem C05_revert_restores_every_cache_observable :
  forall (W : world) (D : sdb) (ops : list cop), wf W D ->
    obs_eq W (revert_to (fold_left (cop_apply W) ops D) (snapshot D)) D.
Proof. exact revert_restores. Qed.
Print Assumptions C05_revert_restores_every_cache_observable.

Theorem C05_observational_equality_covers_all_reads :
  forall W D1 D2, obs_eq W D1 D2 ->
    (forall a, rbal D1 a = rbal D2 a) /\ (forall a k, rstate W D1 a k = rstate W D2 a k) /\
    logs D1 = logs D2 /\ dirties D1 = dirties D2 /\ journal D1 = journal D2.
Proof. exact obs_eq_reads. Qed.
Print Assumptions C05_observational_equality_covers_all_reads.

(** Every pure EVM program (any call tree of SSTORE / LOG / BALANCE / value calls / SELFDESTRUCT /
    CREATE with a constructor running such code / REVERT, with catching and propagating callers, no
    precompile call; [pure] is exactly "no IPre anywhere") leaves the
    Cosmos side untouched while it runs and only extends the journal in a way that
    reverts cleanly to ANY earlier snapshot. *)
Theorem C05_pure_code_is_a_clean_journal_extension :
  forall i, pure i = true -> forall order o self W D, wf W D ->
    pure_step W D (exec_instr order o self i (W, D)).
Proof. exact pure_instr_ext. Qed.
Print Assumptions C05_pure_code_is_a_clean_journal_extension.

(** A call into pure code that fails (reverts, or propagates an inner failure) leaves
    no trace at all: Cosmos state unchanged, cache observationally as before the call. *)
Theorem C05_failed_pure_frame_leaves_no_trace :
  forall order o W D caller t value body, wf W D -> forallb pure body = true ->
    let r := do_call order (W, D) caller t value (exec_list order o t body) in
    snd r = Fail -> fst (fst r) = W /\ obs_eq W (snd (fst r)) D.
Proof. exact pure_failed_call_no_trace. Qed.
Print Assumptions C05_failed_pure_frame_leaves_no_trace.

(** The theorems above are stated for caches in which the existing accounts are loaded
    ([wf]); the real StateDB loads lazily.  That makes no difference: a pure program run
    from any cache proceeds in lockstep — same outcomes, same journal, same dirty set,
    equal objects wherever the lazy cache has one — with the run from the cache that has
    further existing accounts pre-loaded. *)
Theorem C05_lazy_loading_is_irrelevant_for_pure_code :
  forall i, pure i = true -> forall order o self W D D', sim W D D' ->
    lock W (exec_instr order o self i (W, D)) (exec_instr order o self i (W, D')).
Proof. exact pure_instr_lock. Qed.
Print Assumptions C05_lazy_loading_is_irrelevant_for_pure_code.

(** A transaction that ultimately fails changes nothing (ApplyTransaction runs on a
    cache context that is written back only on success; fee and nonce are handled by
    the ante handler, outside this model). *)
Theorem C05_failed_transaction_changes_nothing :
  forall order W0 value t, snd (run_tx order W0 value t) = false -> fst (run_tx order W0 value t) = W0.
Proof.
  intros order W0 value t. unfold run_tx.
  destruct (match t with TopCall c body => _ | TopPre p => _ end) as [[W D] oc].
  destruct (commit order W D) as [[W1 D1] ok]. destruct ok, oc; cbn; congruence.
Qed.
Print Assumptions C05_failed_transaction_changes_nothing.

(** The property is FALSE for frames that called a stateful precompile (known
    finding K3): the model reproduces the implementation's observation on these
    witnesses, the transaction succeeds, and the reverted frame's Cosmos effect /
    flushed storage is still there. *)
Theorem C05_reverted_frame_with_precompile_call_refuted :
  model_obs w_k3_setwithdraw_reverted = impl_obs w_k3_setwithdraw_reverted /\
  b_ok (model_obs w_k3_setwithdraw_reverted) = true /\
  nth 3 (b_wd (model_obs w_k3_setwithdraw_reverted)) 0 = 1.
Proof. exact k3_refuted. Qed.
Print Assumptions C05_reverted_frame_with_precompile_call_refuted.

Theorem C05_flushed_storage_and_delegation_survive_revert_refuted :
  model_obs w_k3_storage_and_delegate_reverted = impl_obs w_k3_storage_and_delegate_reverted /\
  b_ok (model_obs w_k3_storage_and_delegate_reverted) = true /\
  nth 3 (b_deleg (model_obs w_k3_storage_and_delegate_reverted)) 0 = 100.
Proof. exact k3_storage_refuted. Qed.
Print Assumptions C05_flushed_storage_and_delegation_survive_revert_refuted.

(** The same for an ICS-20 transfer made in a frame that then reverts: the coins stay escrowed. *)
Theorem C05_ibc_transfer_survives_revert_refuted :
  model_obs w_k3c_transfer_reverted = impl_obs w_k3c_transfer_reverted /\
  b_ok (model_obs w_k3c_transfer_reverted) = true /\
  nth 13 (b_bal (model_obs w_k3c_transfer_reverted)) 0 = 100.
Proof. exact k3c_refuted. Qed.
Print Assumptions C05_ibc_transfer_survives_revert_refuted.

(** SELFDESTRUCT is journalled like every other cache mutation (it is one of the operations of
    [C05_revert_restores_every_cache_observable] and a pure instruction of the frame theorems above);
    on the implementation: a self-destruct inside a reverted frame leaves the contract alive, and a
    repeated self-destruct inside a reverted frame restores both the flag and the balance. *)
Theorem C05_selfdestruct_in_reverted_frame_undone_example :
  model_obs w_sd_in_reverted_frame = impl_obs w_sd_in_reverted_frame /\ b_ok (model_obs w_sd_in_reverted_frame) = true /\
  b_supply (model_obs w_sd_in_reverted_frame) = 0 /\ firstn 3 (b_alive (model_obs w_sd_in_reverted_frame)) = [2; 2; 2].
Proof. exact sd_in_reverted_frame_undone. Qed.
Print Assumptions C05_selfdestruct_in_reverted_frame_undone_example.

Theorem C05_repeated_selfdestruct_in_reverted_frame_undone_example :
  model_obs w_sd_again_in_reverted_frame = impl_obs w_sd_again_in_reverted_frame /\
  b_ok (model_obs w_sd_again_in_reverted_frame) = true /\
  b_supply (model_obs w_sd_again_in_reverted_frame) = -1000 /\ nth 1 (b_bal (model_obs w_sd_again_in_reverted_frame)) 0 = 5000.
Proof. exact sd_again_in_reverted_frame_undone. Qed.
Print Assumptions C05_repeated_selfdestruct_in_reverted_frame_undone_example.

Theorem C05_selfdestruct_after_reverted_selfdestruct_pays_out_example :
  model_obs w_sd_third_after_reverted = impl_obs w_sd_third_after_reverted /\
  b_ok (model_obs w_sd_third_after_reverted) = true /\
  b_supply (model_obs w_sd_third_after_reverted) = 0 /\ nth 0 (b_bal (model_obs w_sd_third_after_reverted)) 0 = 6000.
Proof. exact sd_third_after_reverted_pays_out. Qed.
Print Assumptions C05_selfdestruct_after_reverted_selfdestruct_pays_out_example.

(** CREATE: CreateAccount over an existing object is one of the journalled operations of
    [C05_revert_restores_every_cache_observable] ([OReset]: the journal keeps the whole previous object).  On the
    implementation, reproduced exactly by the model: a creation with an endowment onto an address that already
    holds coins, whose constructor reverts, leaves the earlier coins and returns the endowment; a creation inside
    a reverted frame does not even consume the creator's nonce. *)
Theorem C05_reverted_creation_on_funded_address_leaves_no_trace_example :
  model_obs w_cr_reverted_on_funded_address = impl_obs w_cr_reverted_on_funded_address /\
  b_ok (model_obs w_cr_reverted_on_funded_address) = true /\ b_supply (model_obs w_cr_reverted_on_funded_address) = 0 /\
  nth 14 (b_bal (model_obs w_cr_reverted_on_funded_address)) 0 = 7 /\ nth 2 (b_bal (model_obs w_cr_reverted_on_funded_address)) 0 = 3993.
Proof. exact cr_reverted_on_funded_address. Qed.
Print Assumptions C05_reverted_creation_on_funded_address_leaves_no_trace_example.

Theorem C05_creation_in_reverted_frame_keeps_the_nonce_example :
  model_obs w_cr_nested_reverted_then_selfdestruct = impl_obs w_cr_nested_reverted_then_selfdestruct /\
  b_ok (model_obs w_cr_nested_reverted_then_selfdestruct) = true /\ b_supply (model_obs w_cr_nested_reverted_then_selfdestruct) = 0 /\
  b_nonce (model_obs w_cr_nested_reverted_then_selfdestruct) = [0; 1; 0] /\ nth 0 (b_bal (model_obs w_cr_nested_reverted_then_selfdestruct)) 0 = 4966.
Proof. exact cr_nested_reverted_then_selfdestruct. Qed.
Print Assumptions C05_creation_in_reverted_frame_keeps_the_nonce_example.

(** A storage write that restores the value the slot had before the transaction is a write like any other: made in a
    frame that fails, it is undone with the frame (model = implementation on three witnesses: directly re-entered,
    re-entered through another contract that propagates the failure, kept by a succeeding frame and then repeated in
    a failing one). *)
Theorem C05_write_back_of_committed_value_in_reverted_frame_is_undone_example :
  (model_obs w_wb_direct = impl_obs w_wb_direct /\ b_ok (model_obs w_wb_direct) = true /\
   In (2%N, 1, 7) (b_storage (model_obs w_wb_direct))) /\
  (model_obs w_wb_through_other_contract = impl_obs w_wb_through_other_contract /\ b_ok (model_obs w_wb_through_other_contract) = true /\
   In (2%N, 0, 2) (b_storage (model_obs w_wb_through_other_contract))) /\
  (model_obs w_wb_kept_then_reverted = impl_obs w_wb_kept_then_reverted /\ b_ok (model_obs w_wb_kept_then_reverted) = true /\
   b_storage (model_obs w_wb_kept_then_reverted) = []).
Proof. exact (conj wb_direct (conj wb_through_other_contract wb_kept_then_reverted)). Qed.
Print Assumptions C05_write_back_of_committed_value_in_reverted_frame_is_undone_example.

(** The frame theorem with CREATE: for every call tree without precompile calls — value transfers, storage writes,
    logs, self-destructs, reverts, and contract creations whose constructors run any such code, at any depth — the
    execution of an instruction leaves the Cosmos side untouched and extends the journal cleanly: reverting to any
    earlier snapshot (what an enclosing frame that fails does) restores every cache observable. *)
Theorem C05_pure_code_with_creations_is_a_clean_journal_extension :
  forall i, pure i = true -> forall order o self W D, wf W D ->
    fst (fst (exec_instr order o self i (W, D))) = W /\
    ext W D (snd (fst (exec_instr order o self i (W, D)))).
Proof. exact pure_instr_ext. Qed.
Print Assumptions C05_pure_code_with_creations_is_a_clean_journal_extension.
