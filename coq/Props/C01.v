(** Property C01 — deterministic state machine: replicas agree on every block (PARTIAL).
    This file only states the theorems and closes each with a lemma of
    App/DeterminismProofs.v; [Print Assumptions] follows every theorem.

    Partial by nature: a Coq theorem cannot exhibit Go's map iteration order,
    goroutine scheduling, IAVL hashing or the wall clock.  What is proved is the
    LOGIC by which the code is independent of them: every modelled map
    enumeration enters the state only through a sort or a set / look-up table,
    the Go map of the DAO export is an index only, and the DeliverTx branch of the
    modelled ante functions ignores the node-local configuration.  That the real
    application has no other dependence is sampled by the replica run (independent
    applications, different node-local settings, one in a separate process, same
    blocks, byte-identical responses and application hashes) and bounded by the
    site scan (every `range` over a map, every `go` statement and every wall-clock
    read in the state-machine packages must be discharged by one of these
    arguments). *)
From Coq Require Import ZArith List.
From stdpp Require Import gmap sorting.
From HV Require Import Evm.ExecModel App.DeterminismModel App.DeterminismProofs.
Import ListNotations.
Local Open Scope Z_scope.

(** StateDB.Commit (the model of Evm/ExecModel.v, tied to the real keeper by the
    evmexec driver): whatever order the Go map of dirty accounts is enumerated
    in, the commit writes the same state, returns the same StateDB and the same
    verdict — because the enumeration is sorted before use. *)
Theorem C01_commit_order_independent :
  forall (iter1 iter2 : list N) (W : world) (D : sdb),
    iter1 ≡ₚ iter2 -> commit_sorted iter1 W D = commit_sorted iter2 W D.
Proof. exact commit_order_independent. Qed.
Print Assumptions C01_commit_order_independent.

(** The same for the dirty storage keys of one account (Storage.SortedKeys). *)
Theorem C01_storage_commit_order_independent :
  forall (iter1 iter2 : list Z) (W : world) (a : N) (o : obj),
    iter1 ≡ₚ iter2 -> commit_storage_sorted iter1 W a o = commit_storage_sorted iter2 W a o.
Proof. exact storage_commit_order_independent. Qed.
Print Assumptions C01_storage_commit_order_independent.

(** Generic form used by the site scan for "keys collected, sorted, then used". *)
Theorem C01_sorted_collection_order_independent :
  forall (l1 l2 : list N), l1 ≡ₚ l2 -> merge_sort N.le l1 = merge_sort N.le l2.
Proof. exact sort_perm_N. Qed.
Print Assumptions C01_sorted_collection_order_independent.

(** The sort is what makes it so: in the same model, without it, two
    enumerations of the same dirty set commit different balances when a blocked
    address aborts the loop midway (and with it they agree). *)
Theorem C01_unsorted_commit_order_matters_refuted_in_model :
  exists (W : world) (D : sdb) (iter1 iter2 : list N),
    iter1 ≡ₚ iter2 /\
    zg (bank (fst (fst (commit_unsorted iter1 W D)))) 1%N <> zg (bank (fst (fst (commit_unsorted iter2 W D)))) 1%N /\
    commit_sorted iter1 W D = commit_sorted iter2 W D.
Proof. exact unsorted_commit_order_matters_refuted_in_model. Qed.
Print Assumptions C01_unsorted_commit_order_matters_refuted_in_model.

(** Registries are look-up tables: a map built from the entries in any order
    answers every look-up alike (keys are distinct), a set built in any order has
    the same members. *)
Theorem C01_registry_order_independent :
  (forall (V : Type) (e1 e2 : list (N * V)), NoDup e1.*1 -> e1 ≡ₚ e2 -> forall k, build_map e1 !! k = build_map e2 !! k) /\
  (forall (e1 e2 : list N), e1 ≡ₚ e2 -> forall k, k ∈ build_set e1 <-> k ∈ build_set e2).
Proof. exact (conj (@registry_map_order_independent) registry_set_order_independent). Qed.
Print Assumptions C01_registry_order_independent.

(** app.ModuleAccountAddrs / app.BlockedAddrs: independent of the enumeration of
    the permission map and of the order of the precompile list; and the blocked
    set is exactly { address of a module name } ∪ { precompiles }. *)
Theorem C01_blocked_addrs_order_independent :
  forall (addr_of : N -> N) (iter1 iter2 pre1 pre2 : list N),
    iter1 ≡ₚ iter2 -> pre1 ≡ₚ pre2 ->
    blocked_addrs addr_of iter1 pre1 = blocked_addrs addr_of iter2 pre2 /\
    forall x, x ∈ blocked_addrs addr_of iter1 pre1 <-> (exists n, n ∈ iter1 /\ x = addr_of n) \/ x ∈ pre1.
Proof. exact blocked_addrs_order_independent_full. Qed.
Print Assumptions C01_blocked_addrs_order_independent.

(** Keeper.GetAvailablePrecompileAddrs: the sorted key list of the precompile registry. *)
Theorem C01_precompile_addrs_order_independent :
  forall (iter1 iter2 : list N), iter1 ≡ₚ iter2 -> available_precompile_addrs iter1 = available_precompile_addrs iter2.
Proof. exact available_precompile_addrs_order_independent. Qed.
Print Assumptions C01_precompile_addrs_order_independent.

(** ucdao GetAccountsBalances (genesis export): the Go map is only an index into
    the slice that is filled in store-iteration order; however the hash table
    lays itself out after each insertion ([scramble], any permutation), the
    exported list is the same. *)
Theorem C01_holders_export_order_independent :
  forall (scramble : list (N * nat) -> list (N * nat)),
    (forall l, scramble l ≡ₚ l) ->
    forall entries, export_with scramble entries [] [] = export_balances entries.
Proof. exact holders_export_order_independent. Qed.
Print Assumptions C01_holders_export_order_independent.

(** A block is a fold of steps over (state, block inputs).  For ANY state
    machine (BeginBlock, message execution, EndBlock: arbitrary functions that
    take no node-local argument) run behind the modelled ante functions
    (EthMempoolFeeDecorator, the min-gas-price fee fallback, the gas-wanted rule
    of EthGasConsumeDecorator) and the TPS-counting DeliverTx wrapper: the state
    after the block and every response are the same for any two node-local
    configurations (minimum gas price, max-tx-gas-wanted, TPS counters, wall
    clock). *)
Theorem C01_block_is_function_partial :
  forall (St P R H RB RE : Type) (london : St -> bool) (exec : St -> txm P -> Z -> St * R) (rejected : R)
         (failed : R -> bool) (begin_block : St -> H -> St * RB) (end_block : St -> H -> St * RE)
         (nl1 nl2 : nlocal) (s : St) (b : H * list (txm P)),
    snd (fst (run_block london exec rejected failed begin_block end_block nl1 s b)) =
    snd (fst (run_block london exec rejected failed begin_block end_block nl2 s b)) /\
    snd (run_block london exec rejected failed begin_block end_block nl1 s b) =
    snd (run_block london exec rejected failed begin_block end_block nl2 s b).
Proof. exact @block_is_function. Qed.
Print Assumptions C01_block_is_function_partial.

(** ... and so do two replicas over every history of blocks. *)
Theorem C01_replicas_agree_partial :
  forall (St P R H RB RE : Type) (london : St -> bool) (exec : St -> txm P -> Z -> St * R) (rejected : R)
         (failed : R -> bool) (begin_block : St -> H -> St * RB) (end_block : St -> H -> St * RE)
         (bs : list (H * list (txm P))) (nl1 nl2 : nlocal) (s : St),
    snd (fst (run_chain london exec rejected failed begin_block end_block nl1 s bs)) =
    snd (fst (run_chain london exec rejected failed begin_block end_block nl2 s bs)) /\
    snd (run_chain london exec rejected failed begin_block end_block nl1 s bs) =
    snd (run_chain london exec rejected failed begin_block end_block nl2 s bs).
Proof. exact @replicas_agree. Qed.
Print Assumptions C01_replicas_agree_partial.

(** Non-vacuity: the node-local argument is really used by the modelled
    functions — in CheckTx mode it changes the verdict and the gas wanted. *)
Theorem C01_check_mode_depends_on_node_local :
  let strict := mknl 10 0 0 0 0 in let lax := mknl 0 0 0 0 0 in
  eth_mempool_fee Check false false strict [(5, 1)] = false /\ eth_mempool_fee Check false false lax [(5, 1)] = true /\
  cosmos_min_gas_fee Check strict 5 1 = None /\ cosmos_min_gas_fee Check lax 5 1 = Some (5, 5) /\
  eth_gas_wanted Check (mknl 0 100 0 0 0) [1000; 50] = 150 /\ eth_gas_wanted Deliver (mknl 0 100 0 0 0) [1000; 50] = 1050.
Proof. exact check_mode_depends_on_node_local. Qed.
Print Assumptions C01_check_mode_depends_on_node_local.
