(** Property C01 — deterministic state machine: replicas agree on every block (PARTIAL).
    This file only states the theorems and closes each with a lemma of
    App/DeterminismProofs.v; [Print Assumptions] follows every theorem.

    Partial by nature: a Coq theorem cannot exhibit Go's map iteration order,
    goroutine scheduling, IAVL hashing or the wall clock.  What is proved is the
    LOGIC by which the code is independent of them: every modelled map
    enumeration enters the state only through a sort or a set / look-up table,
    the Go map of the DAO export is an index only, and the DeliverTx branch of the
    modelled ante functions ignores the node-local configuration.  That the real
    application has no other dependence is sampled by the replica run (independent
    applications, different node-local settings, one in a separate process, same
    blocks, byte-identical responses and application hashes) and bounded by the
    site scan (every `range` over a map, every `go` statement and every wall-clock
    read in the state-machine packages must be discharged by one of these
    arguments). *)
From Coq Require Import ZArith List.
From stdpp Require Import gmap sorting.
From HV Require Import Evm.ExecModel App.DeterminismModel App.DeterminismProofs App.BlockHashProofs.
Import ListNotations.
Local Open Scope Z_scope.

(** StateDB.Commit (the model of Evm/ExecModel.v, tied to the real keeper by the
    evmexec driver): whatever order the Go map of dirty accounts is enumerated
    in, the commit writes the same state, returns the same StateDB and the same
    verdict — because the enumeration is sorted before use. *)
Theorem C01_commit_order_independent :
  forall (iter1 iter2 : list N) (W : world) (D : sdb),
    iter1 ≡ₚ iter2 -> commit_sorted iter1 W D = commit_sorted iter2 W D.
Proof. exact commit_order_independent. Qed.
Print Assumptions C01_commit_order_independent.

(** The same for the dirty storage keys of one account (Storage.SortedKeys). *)
Theorem C01_storage_commit_order_independent :
  forall (iter1 iter2 : list Z) (W : world) (a : N) (o : obj),
    iter1 ≡ₚ iter2 -> commit_storage_sorted iter1 W a o = commit_storage_sorted iter2 W a o.
Proof. exact storage_commit_order_independent. Qed.
Print Assumptions C01_storage_commit_order_independent.

(** Generic form used by the site scan for "keys collected, sorted, then used". *)
Theorem C01_sorted_collection_order_independent :
  forall (l1 l2 : list N), l1 ≡ₚ l2 -> merge_sort N.le l1 = merge_sort N.le l2.
Proof. exact sort_perm_N. Qed.
Print Assumptions C01_sorted_collection_order_independent.

(** The sort is what makes it so: in the same model, without it, two
    enumerations of the same dirty set commit different balances when a blocked
    address aborts the loop midway (and with it they agree). *)
Theorem C01_unsorted_commit_order_matters_refuted_in_model :
  exists (W : world) (D : sdb) (iter1 iter2 : list N),
    iter1 ≡ₚ iter2 /\
    zg (bank (fst (fst (commit_unsorted iter1 W D)))) 1%N <> zg (bank (fst (fst (commit_unsorted iter2 W D)))) 1%N /\
    commit_sorted iter1 W D = commit_sorted iter2 W D.
Proof. exact unsorted_commit_order_matters_refuted_in_model. Qed.
Print Assumptions C01_unsorted_commit_order_matters_refuted_in_model.

(** Registries are look-up tables: a map built from the entries in any order
    answers every look-up alike (keys are distinct), a set built in any order has
    the same members. *)
Theorem C01_registry_order_independent :
  (forall (V : Type) (e1 e2 : list (N * V)), NoDup e1.*1 -> e1 ≡ₚ e2 -> forall k, build_map e1 !! k = build_map e2 !! k) /\
  (forall (e1 e2 : list N), e1 ≡ₚ e2 -> forall k, k ∈ build_set e1 <-> k ∈ build_set e2).
Proof. exact (conj (@registry_map_order_independent) registry_set_order_independent). Qed.
Print Assumptions C01_registry_order_independent.

(** app.ModuleAccountAddrs / app.BlockedAddrs: independent of the enumeration of
    the permission map and of the order of the precompile list; and the blocked
    set is exactly { address of a module name } ∪ { precompiles }. *)
Theorem C01_blocked_addrs_order_independent :
  forall (addr_of : N -> N) (iter1 iter2 pre1 pre2 : list N),
    iter1 ≡ₚ iter2 -> pre1 ≡ₚ pre2 ->
    blocked_addrs addr_of iter1 pre1 = blocked_addrs addr_of iter2 pre2 /\
    forall x, x ∈ blocked_addrs addr_of iter1 pre1 <-> (exists n, n ∈ iter1 /\ x = addr_of n) \/ x ∈ pre1.
Proof. exact blocked_addrs_order_independent_full. Qed.
Print Assumptions C01_blocked_addrs_order_independent.

(** Keeper.GetAvailablePrecompileAddrs: the sorted key list of the precompile registry. *)
Theorem C01_precompile_addrs_order_independent :
  forall (iter1 iter2 : list N), iter1 ≡ₚ iter2 -> available_precompile_addrs iter1 = available_precompile_addrs iter2.
Proof. exact available_precompile_addrs_order_independent. Qed.
Print Assumptions C01_precompile_addrs_order_independent.

(** ucdao GetAccountsBalances (genesis export): the Go map is only an index into
    the slice that is filled in store-iteration order; however the hash table
    lays itself out after each insertion ([scramble], any permutation), the
    exported list is the same. *)
Theorem C01_holders_export_order_independent :
  forall (scramble : list (N * nat) -> list (N * nat)),
    (forall l, scramble l ≡ₚ l) ->
    forall entries, export_with scramble entries [] [] = export_balances entries.
Proof. exact holders_export_order_independent. Qed.
Print Assumptions C01_holders_export_order_independent.

(** A block is a fold of steps over (state, block inputs).  For ANY state
    machine (BeginBlock, message execution, EndBlock: arbitrary functions that
    take no node-local argument) run behind the modelled ante functions
    (EthMempoolFeeDecorator, the min-gas-price fee fallback, the gas-wanted rule
    of EthGasConsumeDecorator) and the TPS-counting DeliverTx wrapper: the state
    after the block and every response are the same for any two node-local
    configurations (minimum gas price, max-tx-gas-wanted, TPS counters, wall
    clock). *)
Theorem C01_block_is_function_partial :
  forall (St P R H RB RE : Type) (london : St -> bool) (exec : St -> txm P -> Z -> St * R) (rejected : R)
         (failed : R -> bool) (begin_block : St -> H -> St * RB) (end_block : St -> H -> St * RE)
         (nl1 nl2 : nlocal) (s : St) (b : H * list (txm P)),
    snd (fst (run_block london exec rejected failed begin_block end_block nl1 s b)) =
    snd (fst (run_block london exec rejected failed begin_block end_block nl2 s b)) /\
    snd (run_block london exec rejected failed begin_block end_block nl1 s b) =
    snd (run_block london exec rejected failed begin_block end_block nl2 s b).
Proof. exact @block_is_function. Qed.
Print Assumptions C01_block_is_function_partial.

(** ... and so do two replicas over every history of blocks. *)
Theorem C01_replicas_agree_partial :
  forall (St P R H RB RE : Type) (london : St -> bool) (exec : St -> txm P -> Z -> St * R) (rejected : R)
         (failed : R -> bool) (begin_block : St -> H -> St * RB) (end_block : St -> H -> St * RE)
         (bs : list (H * list (txm P))) (nl1 nl2 : nlocal) (s : St),
    snd (fst (run_chain london exec rejected failed begin_block end_block nl1 s bs)) =
    snd (fst (run_chain london exec rejected failed begin_block end_block nl2 s bs)) /\
    snd (run_chain london exec rejected failed begin_block end_block nl1 s bs) =
    snd (run_chain london exec rejected failed begin_block end_block nl2 s bs).
Proof. exact @replicas_agree. Qed.
Print Assumptions C01_replicas_agree_partial.

(** Non-vacuity: the node-local argument is really used by the modelled
    functions — in CheckTx mode it changes the verdict and the gas wanted. *)
Theorem C01_check_mode_depends_on_node_local :
  let strict := mknl 10 0 0 0 0 in let lax := mknl 0 0 0 0 0 in
  eth_mempool_fee Check false false strict [(5, 1)] = false /\ eth_mempool_fee Check false false lax [(5, 1)] = true /\
  cosmos_min_gas_fee Check strict 5 1 = None /\ cosmos_min_gas_fee Check lax 5 1 = Some (5, 5) /\
  eth_gas_wanted Check (mknl 0 100 0 0 0) [1000; 50] = 150 /\ eth_gas_wanted Deliver (mknl 0 100 0 0 0) [1000; 50] = 1050.
Proof. exact check_mode_depends_on_node_local. Qed.
Print Assumptions C01_check_mode_depends_on_node_local.

(** ---- the BLOCKHASH environment function (x/evm GetHashFn over x/staking's HistoricalInfo) ---- *)

(** Whatever happens to a node between and around the blocks that is not a block input --
    ABCI queries (eth_call, estimateGas, Simulate, bank / staking queries), CheckTx, restarts
    from the database, construction of further application objects -- in any interleaving:
    two replicas that got the same blocks have the same historical info and height after
    every block (there is one state per block), and therefore answer BLOCKHASH identically
    for every requested height. *)
Theorem C01_blockhash_replicas_agree :
  forall (evs1 evs2 : list pevent) (r : replica),
    blocks_of evs1 = blocks_of evs2 ->
    length (ptrace evs1 r) = length (blocks_of evs1) /\
    ptrace evs1 r = ptrace evs2 r /\
    prun evs1 r = prun evs2 r /\
    Forall2 (fun a b => r_hist a = r_hist b /\ r_height a = r_height b /\
                        forall cur_hash req, hash_fn (r_hist a) (r_height a) cur_hash req = hash_fn (r_hist b) (r_height b) cur_hash req)
            (ptrace evs1 r) (ptrace evs2 r).
Proof. exact blockhash_replicas_agree. Qed.
Print Assumptions C01_blockhash_replicas_agree.

(** TrackHistoricalInfo, exactly: after n blocks from genesis with HistoricalEntries = e the
    header of height req is stored iff max 1 (n - e + 1) <= req <= n. *)
Theorem C01_historical_info_exact :
  forall (e : Z) (hdr : Z -> bhash) (n : nat) (req : Z),
    0 <= e ->
    hist_after e hdr n !! req =
    if (Z.max 1 (Z.of_nat n - e + 1) <=? req) && (req <=? Z.of_nat n) then Some (hdr req) else None.
Proof. exact hist_after_lookup. Qed.
Print Assumptions C01_historical_info_exact.

(** BLOCKHASH in block n (or in a query on the state committed by block n): the stored header's
    hash iff max 1 (n - e + 1) <= req < n and n - req <= 256, zero otherwise -- whatever the
    hash of the current block is. *)
Theorem C01_blockhash_available_exact :
  forall (e : Z) (hdr : Z -> bhash) (n : nat) (cur_hash req : Z),
    0 <= e -> Z.of_nat n <= max_int64 ->
    hash_fn (hist_after e hdr n) (Z.of_nat n) cur_hash req =
    if bh_available e (Z.of_nat n) req then hdr req else 0.
Proof. exact blockhash_available_exact. Qed.
Print Assumptions C01_blockhash_available_exact.

Theorem C01_blockhash_nonzero_iff :
  forall (e : Z) (hdr : Z -> bhash) (n : nat) (cur_hash req : Z),
    0 <= e -> Z.of_nat n <= max_int64 -> (forall k, hdr k <> 0) ->
    (hash_fn (hist_after e hdr n) (Z.of_nat n) cur_hash req <> 0 <->
     Z.max 1 (Z.of_nat n - e + 1) <= req /\ req < Z.of_nat n /\ Z.of_nat n - req <= 256).
Proof. exact blockhash_nonzero_iff. Qed.
Print Assumptions C01_blockhash_nonzero_iff.

(** ... and a replica that was queried / restarted in any way while it executed those n blocks
    answers by the same closed formula. *)
Theorem C01_blockhash_perturbed_replica_exact :
  forall (e : Z) (hdr : Z -> bhash) (n : nat) (evs : list pevent) (cur_hash req : Z),
    0 <= e -> Z.of_nat n <= max_int64 ->
    blocks_of evs = block_events e hdr n ->
    let r := prun evs rep0 in
    r_height r = Z.of_nat n /\
    hash_fn (r_hist r) (r_height r) cur_hash req = if bh_available e (Z.of_nat n) req then hdr req else 0.
Proof. exact blockhash_perturbed_replica_exact. Qed.
Print Assumptions C01_blockhash_perturbed_replica_exact.

(** Non-vacuity: HistoricalEntries = 3, block 6: height 2 is inside the 256 window but pruned and
    gives zero, 4 and 5 are answered, 6 and 7 are not (GetHashFn itself would answer 6 with the
    current header hash); 257 blocks back is outside the window even when every header is kept;
    HistoricalEntries 0 and 1 never answer. *)
Theorem C01_blockhash_pruned_inside_window :
  let h := hist_after 3 (fun k => 100 + k) 6 in
  hash_fn h 6 7 2 = 0 /\ hash_fn h 6 7 3 = 0 /\ hash_fn h 6 7 4 = 104 /\ hash_fn h 6 7 5 = 105 /\
  hash_fn h 6 7 6 = 0 /\ hash_fn h 6 7 7 = 0 /\ get_hash_fn h 6 7 6 = 7 /\
  bh_available 3 6 2 = false /\ bh_available 10000 6 2 = true /\
  hash_fn (hist_after 10000 (fun k => 100 + k) 300) 300 7 44 = 144 /\
  hash_fn (hist_after 10000 (fun k => 100 + k) 300) 300 7 43 = 0 /\
  hash_fn (hist_after 0 (fun k => 100 + k) 6) 6 7 5 = 0 /\
  hash_fn (hist_after 1 (fun k => 100 + k) 6) 6 7 5 = 0.
Proof. exact blockhash_pruned_inside_window. Qed.
Print Assumptions C01_blockhash_pruned_inside_window.

(** Why the replicas of the harness must differ in their process history: in the same model with
    a memo of resolved hashes inside the keeper object (shared by DeliverTx and queries, lost on
    restart) the same blocks give different answers for the pruned height 2 in block 6 -- after
    one eth_call the memo answers 102, without it or after a restart the answer is zero --
    while the historical info is the same and the function as implemented answers zero. *)
Theorem C01_blockhash_memo_breaks_agreement_refuted_in_model :
  let b k := PBlock 3 (100 + k) in
  let quiet := [b 1; b 2; b 3; b 4; b 5; b 6] in
  let queried := [b 1; b 2; b 3; PQuery 2; b 4; b 5; b 6] in
  let restarted := [b 1; b 2; b 3; PQuery 2; b 4; PRestart; b 5; b 6] in
  blocks_of queried = blocks_of quiet /\ blocks_of restarted = blocks_of quiet /\
  fst (hash_fn_memo (crun quiet c0) 7 2) = 0 /\
  fst (hash_fn_memo (crun queried c0) 7 2) = 102 /\
  fst (hash_fn_memo (crun restarted c0) 7 2) = 0 /\
  c_hist (crun queried c0) = c_hist (crun quiet c0) /\
  hash_fn (r_hist (prun queried rep0)) 6 7 2 = 0 /\ hash_fn (r_hist (prun restarted rep0)) 6 7 2 = 0.
Proof. exact memo_breaks_agreement. Qed.
Print Assumptions C01_blockhash_memo_breaks_agreement_refuted_in_model.

(** The harness compares the zero / non-zero pattern of every BLOCKHASH the probe contract
    evaluated with [check_bh]; that check is the closed formula. *)
Theorem C01_check_bh_is_closed_formula :
  forall (e : Z) (obs : list bh_obs),
    0 <= e -> Forall (fun '(cur, req, nz) => 0 <= cur <= max_int64) obs ->
    check_bh (e, obs) = forallb (fun '(cur, req, nz) => Bool.eqb (bh_available e cur req) nz) obs.
Proof. exact check_bh_spec. Qed.
Print Assumptions C01_check_bh_is_closed_formula.

(** ---- the base fee (x/feemarket BeginBlock / EndBlock around the computation of property C17) ---- *)
From HV Require Import Base.Dec Feemarket.BaseFeeModel App.FeeReplicaModel App.FeeReplicaProofs.

(** The base fee is rewritten by every block and read by every transaction.  Whatever happens to a
    node between and around the blocks that is not a block input -- queries, CheckTx, restarts from
    the database, further application objects in the process -- in any interleaving: two replicas
    that got the same blocks (Block.MaxGas in force, parameter updates, declared and consumed gas)
    have the same fee-market store, hence the same base fee, after every block. *)
Theorem C01_base_fee_replicas_agree :
  forall (evs1 evs2 : list fevent) (on : option fnode),
    fblocks_of evs1 = fblocks_of evs2 ->
    length (ftrace evs1 on) = length (fblocks_of evs1) /\
    ftrace evs1 on = ftrace evs2 on /\
    frun evs1 on = frun evs2 on /\
    Forall2 (fun a b => a = b /\ base_fee_of a = base_fee_of b) (ftrace evs1 on) (ftrace evs2 on).
Proof. exact fee_replicas_agree. Qed.
Print Assumptions C01_base_fee_replicas_agree.

(** The block step of that node is the block of property C17's model (no parameter update). *)
Theorem C01_base_fee_block_is_c17_block :
  forall (n : fnode) (mg : option Z) (w u : Z),
    fblock_step n mg None w u =
    match block (fn_state n) (mkblk (fn_height n + 1) mg w u) with
    | Some s => Some (mkfn s (fn_height n + 1))
    | None => None
    end.
Proof. exact fblock_step_is_c17_block. Qed.
Print Assumptions C01_base_fee_block_is_c17_block.

(** The harness hands every BeginBlock of the leading replica to [check_fee]: it accepts exactly
    when the base fee found in the store is the one the modelled BeginBlock stores. *)
Theorem C01_check_fee_is_begin_block :
  forall (p : params) (h : Z) (mg : option Z) (g : Z) (a : option Z),
    check_fee (p, h, mg, g, a) = true <->
    exists s', begin_block (mkfs p g) h mg = Some s' /\ p_base_fee (fs_params s') = a /\ fs_bgw s' = g.
Proof. exact check_fee_spec. Qed.
Print Assumptions C01_check_fee_is_begin_block.

(** Non-vacuity: base fee 7, Block.MaxGas 8,000,000, elasticity 2, every block above the target:
    blocks 2 and 3 take the minimum step of the increase, 7, 8, 9, with or without a query, a
    CheckTx and a restart in between. *)
Theorem C01_base_fee_min_step_twice :
  let quiet := [ex_b; ex_b; ex_b] in
  let restarted := [ex_b; FQuery; ex_b; FRestart; FCheckTx; ex_b] in
  fblocks_of restarted = fblocks_of quiet /\
  map base_fee_of (ftrace quiet (Some ex_node)) = [Some 7; Some 8; Some 9] /\
  map base_fee_of (ftrace restarted (Some ex_node)) = [Some 7; Some 8; Some 9].
Proof. exact min_step_twice_as_implemented. Qed.
Print Assumptions C01_base_fee_min_step_twice.

(** Why the histories must reach the minimum step twice with a restart (or a replica in another
    process) in between: in the same model with the "1" of the minimum step held in a value shared
    by the operating-system process and updated in place, a fresh process computes the formula, the
    first minimum step overwrites the shared value, and the same three blocks give base fee 16 on
    the node that ran on and 9 on the node restarted before the third block -- while the function
    as implemented gives 9 on both. *)
Theorem C01_base_fee_shared_one_fresh_process_is_formula :
  forall base g T d m : Z, fst (next_base_fee_shared 1 base g T d m) = next_base_fee base g T d m.
Proof. exact shared_one_fresh_is_formula. Qed.
Print Assumptions C01_base_fee_shared_one_fresh_process_is_formula.

Theorem C01_base_fee_shared_one_breaks_agreement_refuted_in_model :
  let quiet := [ex_b; ex_b; ex_b] in
  let restarted := [ex_b; ex_b; FRestart; ex_b] in
  let early := [ex_b; FRestart; ex_b; ex_b] in
  fblocks_of restarted = fblocks_of quiet /\ fblocks_of early = fblocks_of quiet /\
  sbase_fee_of (srun [ex_b; ex_b] (Some ex_snode)) = Some 8 /\
  sbase_fee_of (srun quiet (Some ex_snode)) = Some 16 /\
  sbase_fee_of (srun restarted (Some ex_snode)) = Some 9 /\
  sbase_fee_of (srun early (Some ex_snode)) = Some 16 /\
  base_fee_of (frun quiet (Some ex_node)) = Some 9 /\
  base_fee_of (frun restarted (Some ex_node)) = Some 9.
Proof. exact shared_one_breaks_agreement. Qed.
Print Assumptions C01_base_fee_shared_one_breaks_agreement_refuted_in_model.
