(** Property C14 — slashing and deposit burns go to the community pool, not to zero.
    This file only states the property theorems and closes each with a lemma of
    Bank/BurnProofs.v; [Print Assumptions] follows every theorem.

    [burn_coins s m amt] is the model of x/bank/keeper/keeper.go BurnCoins (the
    keeper instance app/app.go hands to the staking and governance keepers);
    [redirected m] is its [switch]: gov, bonded_tokens_pool, not_bonded_tokens_pool.
    [balof s a d], [supplyof s d], [poolof s d]: bank balance, bank supply,
    FeePool.CommunityPool (in 10^-18 units); [lsum amt d]: amount of denomination
    [d] in the coins [amt]. *)
From Coq Require Import ZArith List.
From stdpp Require Import gmap.
From HV Require Import Dao.LedgerModel Dao.LedgerProofs Bank.BurnModel Bank.BurnProofs.
Local Open Scope Z_scope.

(** exactly the three names of the code are redirected *)
Theorem C14_redirected_names :
  forall m, redirected m = true <-> m = GOV \/ m = BONDED \/ m = NOTBONDED.
Proof. exact redirected_iff. Qed.
Print Assumptions C14_redirected_names.

(** a burn by gov / bonded pool / not-bonded pool leaves the supply of every
    denomination unchanged ... *)
Theorem C14_redirect_keeps_supply :
  forall s m amt s', redirected m = true -> burn_coins s m amt = (s', B_OK) ->
    forall d, supplyof s' d = supplyof s d.
Proof. exact redirect_keeps_supply. Qed.
Print Assumptions C14_redirect_keeps_supply.

(** ... the community pool grows by exactly the amount, in every denomination ... *)
Theorem C14_redirect_pool_plus_x :
  forall s m amt s', redirected m = true -> burn_coins s m amt = (s', B_OK) ->
    forall d, poolof s' d = poolof s d + lsum amt d * 10 ^ 18.
Proof. exact redirect_pool_plus_x. Qed.
Print Assumptions C14_redirect_pool_plus_x.

(** ... and the distribution module account holds the matching coins: it gains
    exactly what the burning module loses, nobody else's balance changes. *)
Theorem C14_redirect_distr_plus_x :
  forall s m amt s', redirected m = true -> burn_coins s m amt = (s', B_OK) ->
    (forall d, balof s' DISTR d = balof s DISTR d + lsum amt d) /\
    (forall d, balof s' m d = balof s m d - lsum amt d) /\
    (forall c d, c <> m -> c <> DISTR -> balof s' c d = balof s c d) /\
    (forall d, 0 <= lsum amt d).
Proof. exact redirect_distr_plus_x. Qed.
Print Assumptions C14_redirect_distr_plus_x.

(** Burns by every other module keep their normal meaning: supply and the
    module's balance drop by the amount, community pool and every other account
    (the distribution account included) are untouched. *)
Theorem C14_other_modules_burn_normally :
  forall s m amt s', redirected m = false -> burn_coins s m amt = (s', B_OK) ->
    (forall d, supplyof s' d = supplyof s d - lsum amt d) /\
    (forall d, balof s' m d = balof s m d - lsum amt d) /\
    (forall c d, c <> m -> balof s' c d = balof s c d) /\
    (forall d, poolof s' d = poolof s d) /\
    (forall d, 0 <= lsum amt d).
Proof. exact other_modules_burn_normally. Qed.
Print Assumptions C14_other_modules_burn_normally.

(** a failing bank call (invalid coins, insufficient funds, missing permission) changes nothing *)
Theorem C14_failed_call_no_effect :
  forall s o s' r, bstep s o = (s', r) -> r <> B_OK -> s' = s.
Proof. exact bstep_fail. Qed.
Print Assumptions C14_failed_call_no_effect.

(** Over ANY history of burns (by any module), mints and sends, from any state,
    per denomination: community-pool growth = 10^18 x (sum of the successfully
    redirected amounts); supply changes only by ordinary burns and mints;
    the distribution account grows by the redirected sum plus the net of the
    plain sends to / from it. *)
Theorem C14_history_accounting :
  forall ops s d,
    poolof (brun ops s) d = poolof s d + hsum eff_red ops s d * 10 ^ 18 /\
    supplyof (brun ops s) d = supplyof s d + hsum eff_mint ops s d - hsum eff_burn ops s d /\
    balof (brun ops s) DISTR d = balof s DISTR d + hsum eff_red ops s d + hsum eff_distr_send ops s d.
Proof. exact history_accounting. Qed.
Print Assumptions C14_history_accounting.

(** ... so with no other traffic on the distribution account: sum of redirected
    amounts = pool growth = distribution-account growth. *)
Theorem C14_history_redirected_sum :
  forall ops s d, Forall no_distr_send ops ->
    let R := hsum eff_red ops s d in
    poolof (brun ops s) d - poolof s d = R * 10 ^ 18 /\
    balof (brun ops s) DISTR d - balof s DISTR d = R /\
    supplyof (brun ops s) d - supplyof s d = hsum eff_mint ops s d - hsum eff_burn ops s d.
Proof. exact history_redirected_sum. Qed.
Print Assumptions C14_history_redirected_sum.

(** "never removed from circulation" in the strong sense: supply = sum of all
    balances is preserved by every history (so redirected coins sit in an
    account), and the community pool stays backed by the distribution account as
    long as nothing debits that account. *)
Theorem C14_supply_is_sum_of_balances :
  forall ops s, supply_inv s -> supply_inv (brun ops s).
Proof. exact brun_supply_inv. Qed.
Print Assumptions C14_supply_is_sum_of_balances.

Theorem C14_pool_stays_backed :
  forall ops, Forall no_distr_debit ops -> forall s, pool_backed s -> pool_backed (brun ops s).
Proof. exact brun_pool_backed. Qed.
Print Assumptions C14_pool_stays_backed.

(** non-vacuity: a redirected multi-denomination burn, an ordinary burn, and a
    history mixing both (with a failing burn and a mint) from a reachable state *)
Theorem C14_nonvacuous_redirect :
  exists s', burn_coins ex_state GOV [(0%N, 50); (3%N, 7)] = (s', B_OK) /\ redirected GOV = true /\
             supplyof s' 3%N = 7 /\ poolof s' 3%N = 7 * 10 ^ 18 /\ balof s' DISTR 3%N = 7 /\ balof s' GOV 3%N = 0.
Proof. exact ex_redirect. Qed.
Print Assumptions C14_nonvacuous_redirect.

Theorem C14_nonvacuous_ordinary :
  exists s', burn_coins ex_state EVM [(0%N, 40)] = (s', B_OK) /\ redirected EVM = false /\
             supplyof s' 0%N = 1355 /\ poolof s' 0%N = 5 * 10 ^ 18 /\ balof s' DISTR 0%N = 5 /\ balof s' EVM 0%N = 0.
Proof. exact ex_ordinary. Qed.
Print Assumptions C14_nonvacuous_ordinary.

Theorem C14_nonvacuous_history :
  let s := brun (ex_setup ++ ex_history) empty_bank in
  supply_inv s /\ pool_backed s /\ poolof s 0%N = 180 * 10 ^ 18 /\ balof s DISTR 0%N = 180 /\ supplyof s 0%N = 1361.
Proof. exact ex_invariants. Qed.
Print Assumptions C14_nonvacuous_history.
