(** Property C14 — slashing and deposit burns go to the community pool, not to zero.
    This file only states the property theorems and closes each with a lemma of
    Bank/BurnProofs.v; [Print Assumptions] follows every theorem.

    [burn_coins s m amt] is the model of x/bank/keeper/keeper.go BurnCoins (the
    keeper instance app/app.go hands to the staking and governance keepers);
    [redirected m] is its [switch]: gov, bonded_tokens_pool, not_bonded_tokens_pool.
    [balof s a d], [supplyof s d], [poolof s d]: bank balance, bank supply,
    FeePool.CommunityPool (in 10^-18 units); [lsum amt d]: amount of denomination
    [d] in the coins [amt]. *)
From Coq Require Import ZArith List.
From stdpp Require Import gmap.
From HV Require Import Dao.LedgerModel Dao.LedgerProofs Bank.BurnModel Bank.BurnProofs.
Local Open Scope Z_scope.

(** exactly the three names of the code are redirected *)
Theorem C14_redirected_names :
  forall m, redirected m = true <-> m = GOV \/ m = BONDED \/ m = NOTBONDED.
Proof. exact redirected_iff. Qed.
Print Assumptions C14_redirected_names.

(** a burn by gov / bonded pool / not-bonded pool leaves the supply of every
    denomination unchanged ... *)
Theorem C14_redirect_keeps_supply :
  forall s m amt s', redirected m = true -> burn_coins s m amt = (s', B_OK) ->
    forall d, supplyof s' d = supplyof s d.
Proof. exact redirect_keeps_supply. Qed.
Print Assumptions C14_redirect_keeps_supply.

(** ... the community pool grows by exactly the amount, in every denomination ... *)
Theorem C14_redirect_pool_plus_x :
  forall s m amt s', redirected m = true -> burn_coins s m amt = (s', B_OK) ->
    forall d, poolof s' d = poolof s d + lsum amt d * 10 ^ 18.
Proof. exact redirect_pool_plus_x. Qed.
Print Assumptions C14_redirect_pool_plus_x.

(** ... and the distribution module account holds the matching coins: it gains
    exactly what the burning module loses, nobody else's balance changes. *)
Theorem C14_redirect_distr_plus_x :
  forall s m amt s', redirected m = true -> burn_coins s m amt = (s', B_OK) ->
    (forall d, balof s' DISTR d = balof s DISTR d + lsum amt d) /\
    (forall d, balof s' m d = balof s m d - lsum amt d) /\
    (forall c d, c <> m -> c <> DISTR -> balof s' c d = balof s c d) /\
    (forall d, 0 <= lsum amt d).
Proof. exact redirect_distr_plus_x. Qed.
Print Assumptions C14_redirect_distr_plus_x.

(** Burns by every other module keep their normal meaning: supply and the
    module's balance drop by the amount, community pool and every other account
    (the distribution account included) are untouched. *)
Theorem C14_other_modules_burn_normally :
  forall s m amt s', redirected m = false -> burn_coins s m amt = (s', B_OK) ->
    (forall d, supplyof s' d = supplyof s d - lsum amt d) /\
    (forall d, balof s' m d = balof s m d - lsum amt d) /\
    (forall c d, c <> m -> balof s' c d = balof s c d) /\
    (forall d, poolof s' d = poolof s d) /\
    (forall d, 0 <= lsum amt d).
Proof. exact other_modules_burn_normally. Qed.
Print Assumptions C14_other_modules_burn_normally.

(** a failing bank call (invalid coins, insufficient funds, missing permission) changes nothing *)
Theorem C14_failed_call_no_effect :
  forall s o s' r, bstep s o = (s', r) -> r <> B_OK -> s' = s.
Proof. exact bstep_fail. Qed.
Print Assumptions C14_failed_call_no_effect.

(** Over ANY history of burns (by any module), mints, sends and FeePool updates
    of the distribution keeper itself ([DistrBook]), from any state, per
    denomination: community-pool growth = 10^18 x (sum of the successfully
    redirected amounts) + what the distribution keeper booked; supply changes
    only by ordinary burns and mints; the distribution account grows by the
    redirected sum plus the net of the plain sends to / from it. *)
Theorem C14_history_accounting :
  forall ops s d,
    poolof (brun ops s) d = poolof s d + hsum eff_red ops s d * 10 ^ 18 + hsum eff_book ops s d /\
    supplyof (brun ops s) d = supplyof s d + hsum eff_mint ops s d - hsum eff_burn ops s d /\
    balof (brun ops s) DISTR d = balof s DISTR d + hsum eff_red ops s d + hsum eff_distr_send ops s d.
Proof. exact history_accounting. Qed.
Print Assumptions C14_history_accounting.

(** ... so with no other traffic on the distribution account and its pool: sum of redirected
    amounts = pool growth = distribution-account growth. *)
Theorem C14_history_redirected_sum :
  forall ops s d, Forall no_distr_send ops ->
    let R := hsum eff_red ops s d in
    poolof (brun ops s) d - poolof s d = R * 10 ^ 18 /\
    balof (brun ops s) DISTR d - balof s DISTR d = R /\
    supplyof (brun ops s) d - supplyof s d = hsum eff_mint ops s d - hsum eff_burn ops s d.
Proof. exact history_redirected_sum. Qed.
Print Assumptions C14_history_redirected_sum.

(** "never removed from circulation" in the strong sense: supply = sum of all
    balances is preserved by every history (so redirected coins sit in an
    account), and the community pool stays backed by the distribution account as
    long as nothing debits that account. *)
Theorem C14_supply_is_sum_of_balances :
  forall ops s, supply_inv s -> supply_inv (brun ops s).
Proof. exact brun_supply_inv. Qed.
Print Assumptions C14_supply_is_sum_of_balances.

Theorem C14_pool_stays_backed :
  forall ops, Forall no_distr_debit ops -> forall s, pool_backed s -> pool_backed (brun ops s).
Proof. exact brun_pool_backed. Qed.
Print Assumptions C14_pool_stays_backed.

(** non-vacuity: a redirected multi-denomination burn, an ordinary burn, and a
    history mixing both (with a failing burn and a mint) from a reachable state *)
Theorem C14_nonvacuous_redirect :
  exists s', burn_coins ex_state GOV [(0%N, 50); (3%N, 7)] = (s', B_OK) /\ redirected GOV = true /\
             supplyof s' 3%N = 7 /\ poolof s' 3%N = 7 * 10 ^ 18 /\ balof s' DISTR 3%N = 7 /\ balof s' GOV 3%N = 0.
Proof. exact ex_redirect. Qed.
Print Assumptions C14_nonvacuous_redirect.

Theorem C14_nonvacuous_ordinary :
  exists s', burn_coins ex_state EVM [(0%N, 40)] = (s', B_OK) /\ redirected EVM = false /\
             supplyof s' 0%N = 1355 /\ poolof s' 0%N = 5 * 10 ^ 18 /\ balof s' DISTR 0%N = 5 /\ balof s' EVM 0%N = 0.
Proof. exact ex_ordinary. Qed.
Print Assumptions C14_nonvacuous_ordinary.

Theorem C14_nonvacuous_history :
  let s := brun (ex_setup ++ ex_history) empty_bank in
  supply_inv s /\ pool_backed s /\ poolof s 0%N = 180 * 10 ^ 18 /\ balof s DISTR 0%N = 180 /\ supplyof s 0%N = 1361.
Proof. exact ex_invariants. Qed.
Print Assumptions C14_nonvacuous_history.

(** ---- sequences of events at one block height and across heights ----

    [crun evs s]: the events [evs] executed in this order from state [s] (one
    denomination): [EvBurn m x] is BurnCoins(m, x) (redirected for gov / bonded /
    not-bonded: coins to the distribution account, pool read from the store,
    + x, written back; ordinary otherwise), [EvFund] MsgFundCommunityPool,
    [EvSpend] a community-pool spend, [EvRemainder p r] a distribution hook or
    withdrawal paying out p coins and booking the remainder r into the pool,
    [EvAllocate f c] the AllocateTokens of a BeginBlock, [EvMint], [EvMove] plain
    sends, [EvNextBlock] the next height.  [csum f evs s] sums f over the events
    that went through.  Every statement is over ALL sequences (any interleaving,
    any number of heights) from ANY state. *)

(** the supply is changed only by ordinary burns (and mints) ... *)
Theorem C14_seq_supply_only_plain_burns :
  forall evs s, c_supply (crun evs s) = c_supply s + csum ce_mint evs s - csum ce_plain evs s.
Proof. exact crun_supply. Qed.
Print Assumptions C14_seq_supply_only_plain_burns.

(** ... so a sequence of redirected burns, donations, spends, hook bookings,
    allocations and sends leaves it unchanged *)
Theorem C14_seq_supply_unchanged :
  forall evs, Forall no_supply_event evs -> forall s, c_supply (crun evs s) = c_supply s.
Proof. exact crun_supply_unchanged. Qed.
Print Assumptions C14_seq_supply_unchanged.

(** community pool after the sequence = initial + sum of redirected burns + sum
    of donations - sum of spends (x 10^18) + sum of the remainders and community
    shares the distribution module booked, whatever the interleaving *)
Theorem C14_seq_pool_is_sum_of_bookings :
  forall evs s,
    c_pool (crun evs s) = c_pool s + (csum ce_red evs s + csum ce_fund evs s - csum ce_spend evs s) * 10 ^ 18
                          + csum ce_rem evs s.
Proof. exact crun_pool. Qed.
Print Assumptions C14_seq_pool_is_sum_of_bookings.

(** the distribution account receives every redirected coin *)
Theorem C14_seq_distr_balance :
  forall evs s,
    c_distr (crun evs s) = c_distr s + csum ce_red evs s + csum ce_fund evs s - csum ce_spend evs s
                           + csum ce_distr_other evs s.
Proof. exact crun_distr. Qed.
Print Assumptions C14_seq_distr_balance.

(** when every event of two interleavings of the same events goes through, the
    community pool ends up the same: no booking is lost by reordering *)
Theorem C14_seq_pool_any_interleaving :
  forall evs evs' s, Permutation.Permutation evs evs' -> all_ok evs s -> all_ok evs' s ->
    c_pool (crun evs' s) = c_pool (crun evs s).
Proof. exact crun_pool_any_interleaving. Qed.
Print Assumptions C14_seq_pool_any_interleaving.

Theorem C14_seq_pool_all_ok :
  forall evs s, all_ok evs s -> c_pool (crun evs s) = c_pool s + pool_bookings evs.
Proof. exact crun_pool_all_ok. Qed.
Print Assumptions C14_seq_pool_all_ok.

(** the distribution module account covers community pool + outstanding rewards
    after every sequence (nothing but the distribution keeper debits it) *)
Theorem C14_seq_distr_covers_pool :
  forall evs, Forall no_distr_move_out evs -> forall s, covered s ->
    covered (crun evs s) /\ c_pool (crun evs s) <= c_distr (crun evs s) * 10 ^ 18.
Proof. exact crun_covers_pool. Qed.
Print Assumptions C14_seq_distr_covers_pool.

Theorem C14_seq_supply_is_sum_of_balances :
  forall evs s, csupply_inv s -> csupply_inv (crun evs s).
Proof. exact crun_supply_inv. Qed.
Print Assumptions C14_seq_supply_is_sum_of_balances.

(** non-vacuity: slash 100, donation 777, deposit burn 400 at one height; and one
    slash whose Unbond hook books a remainder between two burns *)
Theorem C14_seq_nonvacuous :
  covered ex_cst /\ csupply_inv ex_cst /\ all_ok ex_one_block ex_cst /\ all_ok ex_one_slash ex_cst /\
  crun ex_one_block ex_cst = mkcst 100000 (1282 * 10 ^ 18) 1289 (6 * 10 ^ 18 + 250) 4500 94211 /\
  crun ex_one_slash ex_cst = mkcst 100000 (105 * 10 ^ 18 + 250) 110 (4 * 10 ^ 18) 4900 94990.
Proof. exact ex_seq_faithful. Qed.
Print Assumptions C14_seq_nonvacuous.

(** A BurnCoins that memoises the decoded FeePool per block height ([krun]; not
    what /repo does) does NOT have the property: a donation between two
    redirected burns of one height is lost from the pool (the coins stay in the
    distribution account, unaccounted), and so is a remainder booked by the
    hook that fires between two burns of ONE slash; across heights, or with
    nothing between the burns, it behaves like the faithful one. *)
Theorem C14_seq_memo_per_height_refuted :
  exists evs k, k_memo k = None /\ covered (k_st k) /\ all_ok evs (k_st k) /\
    Forall (fun e => e <> EvNextBlock) evs /\
    c_pool (k_st (krun evs k)) <> c_pool (crun evs (k_st k)).
Proof. exact memo_refuted. Qed.
Print Assumptions C14_seq_memo_per_height_refuted.

Theorem C14_seq_memo_loses_interleaved_fund :
  let s := crun ex_one_block ex_cst in
  let s' := k_st (krun ex_one_block ex_kst) in
  c_pool s = c_pool ex_cst + (100 + 777 + 400) * 10 ^ 18 /\
  c_pool s' = c_pool ex_cst + (100 + 400) * 10 ^ 18 /\
  c_supply s' = c_supply s /\ c_distr s' = c_distr s /\ c_out s' = c_out s /\
  c_distr s' * 10 ^ 18 - (c_pool s' + c_out s') = (c_distr ex_cst * 10 ^ 18 - (c_pool ex_cst + c_out ex_cst)) + 777 * 10 ^ 18.
Proof. exact memo_loses_interleaved_fund. Qed.
Print Assumptions C14_seq_memo_loses_interleaved_fund.

Theorem C14_seq_memo_loses_hook_remainder :
  let s := crun ex_one_slash ex_cst in
  let s' := k_st (krun ex_one_slash ex_kst) in
  c_pool s = c_pool ex_cst + 100 * 10 ^ 18 + 250 /\
  c_pool s' = c_pool ex_cst + 100 * 10 ^ 18 /\
  c_supply s' = c_supply s /\ c_distr s' = c_distr s /\ c_out s' = c_out s.
Proof. exact memo_loses_hook_remainder. Qed.
Print Assumptions C14_seq_memo_loses_hook_remainder.

Theorem C14_seq_memo_agrees_across_heights :
  k_st (krun [redirected_burn 100; EvFund 777; EvNextBlock; EvBurn GOV 400] ex_kst)
    = crun [redirected_burn 100; EvFund 777; EvNextBlock; EvBurn GOV 400] ex_cst /\
  k_st (krun [redirected_burn 100; EvBurn GOV 400; EvFund 777] ex_kst)
    = crun [redirected_burn 100; EvBurn GOV 400; EvFund 777] ex_cst.
Proof. exact memo_agrees_across_heights. Qed.
Print Assumptions C14_seq_memo_agrees_across_heights.
