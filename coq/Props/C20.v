(** Property C20 — restarting a node at any block boundary changes nothing
    (partial: the theorems are about the logic of "memory is rebuilt from the
    database"; the database itself, IAVL and baseapp are outside the model and
    are exercised by the driver "restart" on the real application).
    Each theorem is closed by a lemma of App/RestartModel.v. *)
From Coq Require Import ZArith NArith List.
From HV Require Import App.RestartModel.
Import ListNotations.

(** For any node model (db, mem) with [restart n = (db, rebuild db)]: if steps
    and queries read memory only up to R, and every step keeps the memory
    R-equivalent to what a restart would rebuild, then for every history, every
    set of restart points and every list of queries asked after each block, the
    block results, app hashes, (height, app hash) reports and query answers are
    those of the node that never stopped, and so is the final database. *)
Theorem C20_restart_equiv_partial :
  forall (DB Mem Block Result Hash Q A : Type)
         (rebuild : DB -> Mem) (step : DB * Mem -> Block -> (DB * Mem) * Result)
         (apphash : DB -> Hash) (height : DB -> Z) (query : DB * Mem -> Q -> A)
         (R : Mem -> Mem -> Prop),
    (forall a b, R a b -> R b a) ->
    (forall a b c, R a b -> R b c -> R a c) ->
    (forall db m1 m2 b, R m1 m2 ->
        fst (fst (step (db, m1) b)) = fst (fst (step (db, m2) b)) /\
        snd (step (db, m1) b) = snd (step (db, m2) b) /\
        R (snd (fst (step (db, m1) b))) (snd (fst (step (db, m2) b)))) ->
    (forall db m1 m2 q, R m1 m2 -> query (db, m1) q = query (db, m2) q) ->
    (forall db m b, R m (rebuild db) ->
        R (snd (fst (step (db, m) b))) (rebuild (fst (fst (step (db, m) b))))) ->
    forall qs db m (bs : list Block) (rs : list bool),
      R m (rebuild db) ->
      snd (run DB Mem Block Result Hash Q A rebuild step apphash height query qs (db, m) (schedule Block rs bs))
      = snd (run DB Mem Block Result Hash Q A rebuild step apphash height query qs (db, m) (never Block bs)) /\
      fst (fst (run DB Mem Block Result Hash Q A rebuild step apphash height query qs (db, m) (schedule Block rs bs)))
      = fst (fst (run DB Mem Block Result Hash Q A rebuild step apphash height query qs (db, m) (never Block bs))).
Proof. exact restart_equiv. Qed.
Print Assumptions C20_restart_equiv_partial.

(** On start-up the node reports the height and app hash it stopped with, and
    answers queries as before. *)
Theorem C20_restart_info_partial :
  forall (DB Mem Hash : Type) (rebuild : DB -> Mem) (apphash : DB -> Hash) (height : DB -> Z) (n : DB * Mem),
    info DB Mem Hash apphash height (restart DB Mem rebuild n) = info DB Mem Hash apphash height n.
Proof. exact restart_info. Qed.
Print Assumptions C20_restart_info_partial.

Theorem C20_restart_query_partial :
  forall (DB Mem Q A : Type) (rebuild : DB -> Mem) (query : DB * Mem -> Q -> A) (R : Mem -> Mem -> Prop),
    (forall a b, R a b -> R b a) ->
    (forall db m1 m2 q, R m1 m2 -> query (db, m1) q = query (db, m2) q) ->
    forall db m q, R m (rebuild db) -> query (restart DB Mem rebuild (db, m)) q = query (db, m) q.
Proof. exact restart_query. Qed.
Print Assumptions C20_restart_query_partial.

(** Instance, Haqq's in-memory fields.  The EIP-155 chain id cached in the EVM
    keeper is irrelevant at a block boundary: whatever it is (unset after a
    restart, or the chain's id), BeginBlock overwrites it before any
    transaction reads it. *)
Theorem C20_chainid_initial_irrelevant :
  forall (DB Tx Res : Type) (exec : DB -> Z -> list N -> Tx -> DB * Res) (end_commit : DB -> DB) (cid : Z)
         db reg t1 t2 c1 c2 (b : hblock Tx),
    (c1 = None \/ c1 = Some cid) -> (c2 = None \/ c2 = Some cid) -> b_chain Tx b = cid ->
    fst (fst (hstep DB Tx Res exec end_commit (db, mk_hmem c1 reg t1) b))
      = fst (fst (hstep DB Tx Res exec end_commit (db, mk_hmem c2 reg t2) b)) /\
    snd (hstep DB Tx Res exec end_commit (db, mk_hmem c1 reg t1) b)
      = snd (hstep DB Tx Res exec end_commit (db, mk_hmem c2 reg t2) b) /\
    m_chain (snd (fst (hstep DB Tx Res exec end_commit (db, mk_hmem c1 reg t1) b))) = Some cid /\
    m_chain (snd (fst (hstep DB Tx Res exec end_commit (db, mk_hmem c2 reg t2) b))) = Some cid.
Proof. exact chainid_initial_irrelevant. Qed.
Print Assumptions C20_chainid_initial_irrelevant.

(** The precompile registry is a constant of construction. *)
Theorem C20_registry_constant :
  forall (DB Tx Res : Type) (exec : DB -> Z -> list N -> Tx -> DB * Res) (end_commit : DB -> DB)
         db m (b : hblock Tx),
    m_reg (snd (fst (hstep DB Tx Res exec end_commit (db, m) b))) = m_reg m.
Proof. exact registry_constant. Qed.
Print Assumptions C20_registry_constant.

(** Hence, for the node whose memory is (chain id cache, registry, tps counter):
    all histories of this chain's blocks, all restart points. *)
Theorem C20_haqq_restart_equiv_partial :
  forall (DB Tx Res : Type) (exec : DB -> Z -> list N -> Tx -> DB * Res) (end_commit : DB -> DB)
         (static_registry : list N) (cid : Z)
         (Hash Q A : Type) (apphash : DB -> Hash) (height : DB -> Z) (query : DB * hmem -> Q -> A),
    (forall db m1 m2 q, hR cid m1 m2 -> query (db, m1) q = query (db, m2) q) ->
    forall qs db m (bs : list (hblock Tx)) (rs : list bool),
      Forall (fun b => b_chain Tx b = cid) bs -> hR cid m (hrebuild DB static_registry db) ->
      snd (run DB hmem (hblock Tx) (hres Res) Hash Q A (hrebuild DB static_registry)
               (hstep DB Tx Res exec end_commit) apphash height query qs (db, m) (schedule (hblock Tx) rs bs))
      = snd (run DB hmem (hblock Tx) (hres Res) Hash Q A (hrebuild DB static_registry)
               (hstep DB Tx Res exec end_commit) apphash height query qs (db, m) (never (hblock Tx) bs)).
Proof. exact haqq_restart_equiv. Qed.
Print Assumptions C20_haqq_restart_equiv_partial.

(** If a transaction could register a precompile at run time (AddEVMExtensions /
    RegisterERC20Extensions writing the keeper's registry), a restart between the
    registration and a call would be visible: the continuous node runs the
    precompile (1, 1), the restarted node panics on the call (1, 99). *)
Theorem C20_dynamic_registration_breaks_restart_refuted_in_model :
  let qs : list unit := [] in
  let go := run ddb dmem dtx N nat unit unit drebuild dstep (fun db => length db) (fun _ => 0%Z) (fun _ _ => tt) qs in
  let n0 : ddb * dmem := (dstatic, drebuild dstatic) in
  map (fun o => fst (fst o)) (snd (go n0 [(false, DRegister 4096%N); (false, DCall 4096%N)])) = [1%N; 1%N] /\
  map (fun o => fst (fst o)) (snd (go n0 [(false, DRegister 4096%N); (true, DCall 4096%N)])) = [1%N; 99%N] /\
  map (fun o => fst (fst o)) (snd (go n0 [(false, DCall 2048%N); (true, DCall 2048%N)])) = [1%N; 1%N].
Proof. exact dynamic_registration_breaks_restart_refuted_in_model. Qed.
Print Assumptions C20_dynamic_registration_breaks_restart_refuted_in_model.
