(** Property C20 — restarting a node at any block boundary changes nothing
    (partial: the theorems are about the logic of "memory is rebuilt from the
    database"; the database itself, IAVL and baseapp are outside the model and
    are exercised by the driver "restart" on the real application).
    Each theorem is closed by a lemma of App/RestartModel.v. *)
From Coq Require Import ZArith NArith List.
From HV Require Import Base.Dec Feemarket.BaseFeeModel App.FeeReplicaModel App.ProcRestartModel App.ProcRestartProofs.
From HV Require Import App.RestartModel.
Import ListNotations.

(** For any node model (db, mem) with [restart n = (db, rebuild db)]: if steps
    and queries read memory only up to R, and every step keeps the memory
    R-equivalent to what a restart would rebuild, then for every history, every
    set of restart points and every list of queries asked after each block, the
    block results, app hashes, (height, app hash) reports and query answers are
    those of the node that never stopped, and so is the final database. *)
Theorem C20_restart_equiv_partial :
  forall (DB Mem Block Result Hash Q A : Type)
         (rebuild : DB -> Mem) (step : DB * Mem -> Block -> (DB * Mem) * Result)
         (apphash : DB -> Hash) (height : DB -> Z) (query : DB * Mem -> Q -> A)
         (R : Mem -> Mem -> Prop),
    (forall a b, R a b -> R b a) ->
    (forall a b c, R a b -> R b c -> R a c) ->
    (forall db m1 m2 b, R m1 m2 ->
        fst (fst (step (db, m1) b)) = fst (fst (step (db, m2) b)) /\
        snd (step (db, m1) b) = snd (step (db, m2) b) /\
        R (snd (fst (step (db, m1) b))) (snd (fst (step (db, m2) b)))) ->
    (forall db m1 m2 q, R m1 m2 -> query (db, m1) q = query (db, m2) q) ->
    (forall db m b, R m (rebuild db) ->
        R (snd (fst (step (db, m) b))) (rebuild (fst (fst (step (db, m) b))))) ->
    forall qs db m (bs : list Block) (rs : list bool),
      R m (rebuild db) ->
      snd (run DB Mem Block Result Hash Q A rebuild step apphash height query qs (db, m) (schedule Block rs bs))
      = snd (run DB Mem Block Result Hash Q A rebuild step apphash height query qs (db, m) (never Block bs)) /\
      fst (fst (run DB Mem Block Result Hash Q A rebuild step apphash height query qs (db, m) (schedule Block rs bs)))
      = fst (fst (run DB Mem Block Result Hash Q A rebuild step apphash height query qs (db, m) (never Block bs))).
Proof. exact restart_equiv. Qed.
Print Assumptions C20_restart_equiv_partial.

(** On start-up the node reports the height and app hash it stopped with, and
    answers queries as before. *)
Theorem C20_restart_info_partial :
  forall (DB Mem Hash : Type) (rebuild : DB -> Mem) (apphash : DB -> Hash) (height : DB -> Z) (n : DB * Mem),
    info DB Mem Hash apphash height (restart DB Mem rebuild n) = info DB Mem Hash apphash height n.
Proof. exact restart_info. Qed.
Print Assumptions C20_restart_info_partial.

Theorem C20_restart_query_partial :
  forall (DB Mem Q A : Type) (rebuild : DB -> Mem) (query : DB * Mem -> Q -> A) (R : Mem -> Mem -> Prop),
    (forall a b, R a b -> R b a) ->
    (forall db m1 m2 q, R m1 m2 -> query (db, m1) q = query (db, m2) q) ->
    forall db m q, R m (rebuild db) -> query (restart DB Mem rebuild (db, m)) q = query (db, m) q.
Proof. exact restart_query. Qed.
Print Assumptions C20_restart_query_partial.

(** Instance, Haqq's in-memory fields.  The EIP-155 chain id cached in the EVM
    keeper is irrelevant at a block boundary: whatever it is (unset after a
    restart, or the chain's id), BeginBlock overwrites it before any
    transaction reads it. *)
Theorem C20_chainid_initial_irrelevant :
  forall (DB Tx Res : Type) (exec : DB -> Z -> list N -> Tx -> DB * Res) (end_commit : DB -> DB) (cid : Z)
         db reg t1 t2 c1 c2 (b : hblock Tx),
    (c1 = None \/ c1 = Some cid) -> (c2 = None \/ c2 = Some cid) -> b_chain Tx b = cid ->
    fst (fst (hstep DB Tx Res exec end_commit (db, mk_hmem c1 reg t1) b))
      = fst (fst (hstep DB Tx Res exec end_commit (db, mk_hmem c2 reg t2) b)) /\
    snd (hstep DB Tx Res exec end_commit (db, mk_hmem c1 reg t1) b)
      = snd (hstep DB Tx Res exec end_commit (db, mk_hmem c2 reg t2) b) /\
    m_chain (snd (fst (hstep DB Tx Res exec end_commit (db, mk_hmem c1 reg t1) b))) = Some cid /\
    m_chain (snd (fst (hstep DB Tx Res exec end_commit (db, mk_hmem c2 reg t2) b))) = Some cid.
Proof. exact chainid_initial_irrelevant. Qed.
Print Assumptions C20_chainid_initial_irrelevant.

(** The precompile registry is a constant of construction. *)
Theorem C20_registry_constant :
  forall (DB Tx Res : Type) (exec : DB -> Z -> list N -> Tx -> DB * Res) (end_commit : DB -> DB)
         db m (b : hblock Tx),
    m_reg (snd (fst (hstep DB Tx Res exec end_commit (db, m) b))) = m_reg m.
Proof. exact registry_constant. Qed.
Print Assumptions C20_registry_constant.

(** Hence, for the node whose memory is (chain id cache, registry, tps counter):
    all histories of this chain's blocks, all restart points. *)
Theorem C20_haqq_restart_equiv_partial :
  forall (DB Tx Res : Type) (exec : DB -> Z -> list N -> Tx -> DB * Res) (end_commit : DB -> DB)
         (static_registry : list N) (cid : Z)
         (Hash Q A : Type) (apphash : DB -> Hash) (height : DB -> Z) (query : DB * hmem -> Q -> A),
    (forall db m1 m2 q, hR cid m1 m2 -> query (db, m1) q = query (db, m2) q) ->
    forall qs db m (bs : list (hblock Tx)) (rs : list bool),
      Forall (fun b => b_chain Tx b = cid) bs -> hR cid m (hrebuild DB static_registry db) ->
      snd (run DB hmem (hblock Tx) (hres Res) Hash Q A (hrebuild DB static_registry)
               (hstep DB Tx Res exec end_commit) apphash height query qs (db, m) (schedule (hblock Tx) rs bs))
      = snd (run DB hmem (hblock Tx) (hres Res) Hash Q A (hrebuild DB static_registry)
               (hstep DB Tx Res exec end_commit) apphash height query qs (db, m) (never (hblock Tx) bs)).
Proof. exact haqq_restart_equiv. Qed.
Print Assumptions C20_haqq_restart_equiv_partial.

(** If a transaction could register a precompile at run time (AddEVMExtensions /
    RegisterERC20Extensions writing the keeper's registry), a restart between the
    registration and a call would be visible: the continuous node runs the
    precompile (1, 1), the restarted node panics on the call (1, 99). *)
Theorem C20_dynamic_registration_breaks_restart_refuted_in_model :
  let qs : list unit := [] in
  let go := run ddb dmem dtx N nat unit unit drebuild dstep (fun db => length db) (fun _ => 0%Z) (fun _ _ => tt) qs in
  let n0 : ddb * dmem := (dstatic, drebuild dstatic) in
  map (fun o => fst (fst o)) (snd (go n0 [(false, DRegister 4096%N); (false, DCall 4096%N)])) = [1%N; 1%N] /\
  map (fun o => fst (fst o)) (snd (go n0 [(false, DRegister 4096%N); (true, DCall 4096%N)])) = [1%N; 99%N] /\
  map (fun o => fst (fst o)) (snd (go n0 [(false, DCall 2048%N); (true, DCall 2048%N)])) = [1%N; 1%N].
Proof. exact dynamic_registration_breaks_restart_refuted_in_model. Qed.
Print Assumptions C20_dynamic_registration_breaks_restart_refuted_in_model.

(** ** Memory as a function of the database (the obligation on the code)

    [mem_is_function_of_db rebuild step R]: after every step the memory is - on
    the part steps and queries read, i.e. up to R - what a restart would rebuild
    from the database the step leaves.  If every step preserves it, then a node
    that has run any history with any earlier restarts, is stopped and restarted
    now and possibly again at any later boundaries, reports the same height and
    app hash on start-up, answers every query identically, and produces the same
    results, app hashes and query answers for all following blocks as the same
    node that keeps running; and ends with the same database. *)
Theorem C20_invariant_gives_restart_equiv :
  forall (DB Mem Block Result Hash Q A : Type)
         (rebuild : DB -> Mem) (step : DB * Mem -> Block -> (DB * Mem) * Result)
         (apphash : DB -> Hash) (height : DB -> Z) (query : DB * Mem -> Q -> A) (R : Mem -> Mem -> Prop),
    (forall a b, R a b -> R b a) -> (forall a b c, R a b -> R b c -> R a c) ->
    reads_mem_through step R -> query_reads_mem_through query R ->
    mem_is_function_of_db rebuild step R ->
    forall qs db m (bs1 : list Block) (rs1 : list bool) (bs2 : list Block) (rs2 : list bool),
      R m (rebuild db) ->
      let go := run DB Mem Block Result Hash Q A rebuild step apphash height query qs in
      let n := fst (go (db, m) (schedule Block rs1 bs1)) in
      info DB Mem Hash apphash height (restart DB Mem rebuild n) = info DB Mem Hash apphash height n /\
      (forall q, query (restart DB Mem rebuild n) q = query n q) /\
      snd (go (restart DB Mem rebuild n) (schedule Block rs2 bs2)) = snd (go n (never Block bs2)) /\
      fst (fst (go (restart DB Mem rebuild n) (schedule Block rs2 bs2))) = fst (fst (go n (never Block bs2))).
Proof. exact invariant_gives_restart_equiv. Qed.
Print Assumptions C20_invariant_gives_restart_equiv.

(** The same with the observable part given as a projection [view] of the memory. *)
Theorem C20_invariant_on_observable_part_gives_restart_equiv :
  forall (DB Mem Block Result Hash Q A V : Type) (view : Mem -> V)
         (rebuild : DB -> Mem) (step : DB * Mem -> Block -> (DB * Mem) * Result)
         (apphash : DB -> Hash) (height : DB -> Z) (query : DB * Mem -> Q -> A),
    reads_mem_through step (observable_part view) -> query_reads_mem_through query (observable_part view) ->
    mem_is_function_of_db rebuild step (observable_part view) ->
    forall qs db m (bs : list Block) (rs : list bool),
      view m = view (rebuild db) ->
      snd (run DB Mem Block Result Hash Q A rebuild step apphash height query qs (db, m) (schedule Block rs bs))
      = snd (run DB Mem Block Result Hash Q A rebuild step apphash height query qs (db, m) (never Block bs)) /\
      fst (fst (run DB Mem Block Result Hash Q A rebuild step apphash height query qs (db, m) (schedule Block rs bs)))
      = fst (fst (run DB Mem Block Result Hash Q A rebuild step apphash height query qs (db, m) (never Block bs))).
Proof. exact invariant_on_observable_part_gives_restart_equiv. Qed.
Print Assumptions C20_invariant_on_observable_part_gives_restart_equiv.

(** Any two sets of restart points give the same observations. *)
Theorem C20_restart_points_interchangeable :
  forall (DB Mem Block Result Hash Q A : Type)
         (rebuild : DB -> Mem) (step : DB * Mem -> Block -> (DB * Mem) * Result)
         (apphash : DB -> Hash) (height : DB -> Z) (query : DB * Mem -> Q -> A) (R : Mem -> Mem -> Prop),
    (forall a b, R a b -> R b a) -> (forall a b c, R a b -> R b c -> R a c) ->
    reads_mem_through step R -> query_reads_mem_through query R ->
    mem_is_function_of_db rebuild step R ->
    forall qs db m (bs : list Block) (rs rs' : list bool),
      R m (rebuild db) ->
      snd (run DB Mem Block Result Hash Q A rebuild step apphash height query qs (db, m) (schedule Block rs bs))
      = snd (run DB Mem Block Result Hash Q A rebuild step apphash height query qs (db, m) (schedule Block rs' bs)).
Proof. exact restart_points_interchangeable. Qed.
Print Assumptions C20_restart_points_interchangeable.

(** ** The converse witness: a once-per-process latch
    Memory holds [initialised], cleared by a restart; when it is clear the block
    step prunes the unimplemented addresses from the stored active precompiles.
    Concrete 2-block history: block 1 activates 0x..0803 (2051), block 2 is one
    EVM transaction.  Never stopped: the transaction fails (99), 2051 stays.
    Restarted between the blocks: 2051 is pruned, the transaction succeeds (0),
    the final databases differ.  Without the latch the restart is invisible. *)
Theorem C20_latch_breaks_restart_refuted :
  let n0 : kvdb * lmem := (db_of genesis_pproj, mk_lmem true) in
  results_and_active (snd (lrun true n0 [(false, witness_b1); (false, witness_b2)]))
    = [([0%N], [with_0x803]); ([99%N], [with_0x803])] /\
  results_and_active (snd (lrun true n0 [(false, witness_b1); (true, witness_b2)]))
    = [([0%N], [with_0x803]); ([0%N], [available])] /\
  fst (fst (lrun true n0 [(false, witness_b1); (false, witness_b2)]))
    <> fst (fst (lrun true n0 [(false, witness_b1); (true, witness_b2)])) /\
  snd (lrun false n0 [(false, witness_b1); (true, witness_b2)]) = snd (lrun false n0 [(false, witness_b1); (false, witness_b2)]).
Proof. exact latch_breaks_restart_refuted. Qed.
Print Assumptions C20_latch_breaks_restart_refuted.

Theorem C20_latch_violates_mem_is_function_of_db :
  ~ mem_is_function_of_db lrebuild (lstep true) (observable_part initialised).
Proof. exact latch_violates_mem_is_function_of_db. Qed.
Print Assumptions C20_latch_violates_mem_is_function_of_db.

(** No choice of observable part repairs the latch. *)
Theorem C20_latch_admits_no_relation :
  forall R : lmem -> lmem -> Prop,
    reads_mem_through (lstep true) R ->
    R (mk_lmem false) (mk_lmem false) ->
    ~ mem_is_function_of_db lrebuild (lstep true) R.
Proof. exact latch_admits_no_relation. Qed.
Print Assumptions C20_latch_admits_no_relation.

(** The same step without the latch: all histories, all restart points. *)
Theorem C20_unlatched_restart_equiv :
  forall qs d m (bs : list (list ltx)) (rs : list bool),
    let go := run kvdb lmem (list ltx) (list N) kvdb N (list Z) lrebuild (lstep false)
                  (fun x => x) (fun _ => 0%Z) (fun n k => kv_get (fst n) k) qs in
    snd (go (d, m) (schedule (list ltx) rs bs)) = snd (go (d, m) (never (list ltx) bs)).
Proof. exact unlatched_restart_equiv. Qed.
Print Assumptions C20_unlatched_restart_equiv.

(** ** Parameter updates (database writes) commute with restart *)
Theorem C20_kv_write_commutes_with_restart :
  forall (Mem : Type) (rebuild : kvdb -> Mem) (reads : N -> Prop),
    rebuild_reads_only rebuild reads ->
    forall k v (n : kvdb * Mem), ~ reads k ->
      restart kvdb Mem rebuild (put_node k v n) = put_node k v (restart kvdb Mem rebuild n).
Proof. exact kv_write_commutes_with_restart. Qed.
Print Assumptions C20_kv_write_commutes_with_restart.

Theorem C20_param_update_commutes_with_restart :
  forall (Mem : Type) (rebuild : kvdb -> Mem) (reads : N -> Prop),
    rebuild_reads_only rebuild reads -> (forall k, reads k -> ~ is_param_key k) ->
    forall (o : pop) (n : kvdb * Mem),
      restart kvdb Mem rebuild (update_node o n) = update_node o (restart kvdb Mem rebuild n).
Proof. exact param_update_commutes_with_restart. Qed.
Print Assumptions C20_param_update_commutes_with_restart.

Theorem C20_haqq_param_update_commutes_with_restart :
  forall (static : list N) (o : pop) (n : kvdb * hmem),
    restart kvdb hmem (hrebuild kvdb static) (update_node o n)
    = update_node o (restart kvdb hmem (hrebuild kvdb static) n).
Proof. exact haqq_param_update_commutes_with_restart. Qed.
Print Assumptions C20_haqq_param_update_commutes_with_restart.

Theorem C20_param_block_commutes_with_restart :
  forall (static : list N) (cid : Z) (d : kvdb) (m : hmem) (ops : list pop),
    hR cid m (hrebuild kvdb static d) ->
    let b := mk_hblock pop cid ops in
    let rs := restart kvdb hmem (hrebuild kvdb static) in
    fst (fst (pstep (rs (d, m)) b)) = fst (rs (fst (pstep (d, m) b))) /\
    snd (pstep (rs (d, m)) b) = snd (pstep (d, m) b) /\
    hR cid (snd (fst (pstep (rs (d, m)) b))) (snd (rs (fst (pstep (d, m) b)))).
Proof. exact param_block_commutes_with_restart. Qed.
Print Assumptions C20_param_block_commutes_with_restart.

(** The Haqq node over the persisted parameters: all histories of parameter
    updates, all restart points, every stored key after every block. *)
Theorem C20_params_node_restart_equiv :
  forall (static : list N) (cid : Z) (qs : list N) (d : kvdb) (m : hmem) (bs : list (hblock pop)) (rs : list bool),
    Forall (fun b => b_chain pop b = cid) bs -> hR cid m (hrebuild kvdb static d) ->
    let go := run kvdb hmem (hblock pop) (hres bool) kvdb N (list Z) (hrebuild kvdb static) pstep
                  (fun x => x) (fun _ => 0%Z) (fun n k => kv_get (fst n) k) qs in
    snd (go (d, m) (schedule (hblock pop) rs bs)) = snd (go (d, m) (never (hblock pop) bs)).
Proof. exact params_node_restart_equiv. Qed.
Print Assumptions C20_params_node_restart_equiv.

Theorem C20_params_node_nonvacuous :
  let static := [256; 1024; 2048; 2049; 2050; 2052]%N in
  let go := run kvdb hmem (hblock pop) (hres bool) kvdb N (list Z) (hrebuild kvdb static) pstep
                (fun x => x) (fun _ => 0%Z) (fun n k => kv_get (fst n) k) [K_ACTIVE] in
  let bs := [mk_hblock pop 11235 [PEvm with_0x803 [3855]%Z [1; 1; 0]%Z]; mk_hblock pop 11235 []; mk_hblock pop 11235 [PFm [0; 0; 2; 7; 0; 0; 0]%Z]] in
  let n0 := (db_of genesis_pproj, hrebuild kvdb static (db_of genesis_pproj)) in
  snd (go n0 (schedule (hblock pop) [false; true; true] bs)) = snd (go n0 (never (hblock pop) bs)) /\
  map snd (snd (go n0 (never (hblock pop) bs))) = [[with_0x803]; [with_0x803]; [with_0x803]] /\
  map (fun o => fst (fst o)) (snd (go n0 (never (hblock pop) bs))) = [Done bool [true]; Done bool []; Done bool [false]].
Proof. exact params_node_nonvacuous. Qed.
Print Assumptions C20_params_node_nonvacuous.

(** ** Known finding K16 (faithful model): a once-per-process begin-block cost
    ([downgrade_verified], the capability memory store) leaks into the gas that
    baseapp reports for a transaction failing before the ante handler, and into
    the block gas x/feemarket stores.  [any block]; restart; [such a transaction]:
    77465 vs 105308 reported and stored; when another transaction's limited gas
    wanted dominates, only the reported gas differs. *)
Theorem C20_preante_gas_leak_breaks_restart_refuted :
  let n0 : Z * gmem := (0%Z, mk_gmem true) in
  map (fun o => (fst (fst o), snd (snd (fst o)))) (snd (grun n0 [(false, []); (false, [GFailBeforeAnte])]))
    = [([], 0%Z); ([77465%Z], 77465%Z)] /\
  map (fun o => (fst (fst o), snd (snd (fst o)))) (snd (grun n0 [(false, []); (true, [GFailBeforeAnte])]))
    = [([], 0%Z); ([105308%Z], 105308%Z)] /\
  map (fun o => (fst (fst o), snd (snd (fst o)))) (snd (grun n0 [(false, []); (false, [GOk 1000000 21000; GFailBeforeAnte])]))
    = [([], 0%Z); ([21000%Z; 77465%Z], 500000%Z)] /\
  map (fun o => (fst (fst o), snd (snd (fst o)))) (snd (grun n0 [(false, []); (true, [GOk 1000000 21000; GFailBeforeAnte])]))
    = [([], 0%Z); ([21000%Z; 105308%Z], 500000%Z)].
Proof. exact preante_gas_leak_breaks_restart_refuted. Qed.
Print Assumptions C20_preante_gas_leak_breaks_restart_refuted.

Theorem C20_gas_latch_admits_no_relation :
  forall R : gmem -> gmem -> Prop,
    reads_mem_through gstep R ->
    R (mk_gmem false) (mk_gmem false) ->
    ~ mem_is_function_of_db grebuild gstep R.
Proof. exact gas_latch_admits_no_relation. Qed.
Print Assumptions C20_gas_latch_admits_no_relation.

(** The repair (begin blockers on a private gas meter): the step no longer
    reads the latch; all histories, all restart points. *)
Theorem C20_preante_gas_fixed_restart_equiv :
  forall d m (bs : list (list gtx)) (rs : list bool),
    let go := run Z gmem (list gtx) (list Z) Z unit unit grebuild gstep_fixed (fun x => x) (fun _ => 0%Z) (fun _ _ => tt) [] in
    snd (go (d, m) (schedule (list gtx) rs bs)) = snd (go (d, m) (never (list gtx) bs)) /\
    fst (fst (go (d, m) (schedule (list gtx) rs bs))) = fst (fst (go (d, m) (never (list gtx) bs))).
Proof. exact preante_gas_fixed_restart_equiv. Qed.
Print Assumptions C20_preante_gas_fixed_restart_equiv.

Theorem C20_preante_gas_fixed_nonvacuous :
  let go := run Z gmem (list gtx) (list Z) Z unit unit grebuild gstep_fixed (fun x => x) (fun _ => 0%Z) (fun _ _ => tt) [] in
  map (fun o => (fst (fst o), snd (snd (fst o)))) (snd (go (0%Z, mk_gmem true) [(false, []); (true, [GFailBeforeAnte])]))
    = [([], 0%Z); ([3000%Z], 3000%Z)] /\
  map (fun o => (fst (fst o), snd (snd (fst o)))) (snd (go (0%Z, mk_gmem true) [(false, []); (false, [GFailBeforeAnte])]))
    = [([], 0%Z); ([3000%Z], 3000%Z)].
Proof. exact preante_gas_fixed_nonvacuous. Qed.
Print Assumptions C20_preante_gas_fixed_nonvacuous.

(** ** The state of the operating-system process
    A node is (db, mem, proc): proc is the package-level state of the process that hosts the
    application (go-ethereum's common.Big1, sync.Once latches, registries filled by init
    functions).  At a boundary the node keeps running (Keep), a new application object is built on
    the database inside the same process (Reopen: mem := rebuild db, proc kept - what an
    in-process "restart" of a test harness is), or the process exits and a new one starts
    (NewProcess: mem := rebuild db, proc := fresh).  If steps and queries read the memory only up to
    a relation that every step re-establishes with [rebuild db], and do not read the process state,
    then THE CONTINUATION IS A FUNCTION OF (DATABASE, BLOCKS) ONLY: two nodes on the same database,
    with any process states and any schedules of stops of the three kinds, report the same results,
    databases (height, app hash) and query answers for all following blocks. *)
Theorem C20_continuation_is_function_of_db_and_blocks :
  forall (DB Mem P Block Result Q A : Type) (rebuild : DB -> Mem) (fresh : P)
         (step : DB * Mem * P -> Block -> (DB * Mem * P) * Result) (query : DB * Mem * P -> Q -> A)
         (R : Mem -> Mem -> Prop),
    (forall a b, R a b -> R b a) -> (forall a b c, R a b -> R b c -> R a c) ->
    step_reads_mem_through_not_proc DB Mem P Block Result step R ->
    query_reads_mem_through_not_proc DB Mem P Q A query R ->
    step_keeps_mem_rebuildable DB Mem P Block Result rebuild step R ->
    forall qs db m1 m2 p1 p2 (bs : list Block) (ks1 ks2 : list stop),
      R m1 (rebuild db) -> R m2 (rebuild db) ->
      snd (prun DB Mem P Block Result Q A rebuild fresh step query qs (db, m1, p1) (pschedule Block ks1 bs))
      = snd (prun DB Mem P Block Result Q A rebuild fresh step query qs (db, m2, p2) (pschedule Block ks2 bs)) /\
      pdb DB Mem P (fst (prun DB Mem P Block Result Q A rebuild fresh step query qs (db, m1, p1) (pschedule Block ks1 bs)))
      = pdb DB Mem P (fst (prun DB Mem P Block Result Q A rebuild fresh step query qs (db, m2, p2) (pschedule Block ks2 bs))).
Proof. exact continuation_is_function_of_db_and_blocks. Qed.
Print Assumptions C20_continuation_is_function_of_db_and_blocks.

(** Any schedule of stops - real process restarts included - is indistinguishable from never stopping. *)
Theorem C20_process_restart_equiv :
  forall (DB Mem P Block Result Q A : Type) (rebuild : DB -> Mem) (fresh : P)
         (step : DB * Mem * P -> Block -> (DB * Mem * P) * Result) (query : DB * Mem * P -> Q -> A)
         (R : Mem -> Mem -> Prop),
    (forall a b, R a b -> R b a) -> (forall a b c, R a b -> R b c -> R a c) ->
    step_reads_mem_through_not_proc DB Mem P Block Result step R ->
    query_reads_mem_through_not_proc DB Mem P Q A query R ->
    step_keeps_mem_rebuildable DB Mem P Block Result rebuild step R ->
    forall qs db m p (bs : list Block) (ks : list stop),
      R m (rebuild db) ->
      snd (prun DB Mem P Block Result Q A rebuild fresh step query qs (db, m, p) (pschedule Block ks bs))
      = snd (prun DB Mem P Block Result Q A rebuild fresh step query qs (db, m, p) (pnever Block bs)) /\
      pdb DB Mem P (fst (prun DB Mem P Block Result Q A rebuild fresh step query qs (db, m, p) (pschedule Block ks bs)))
      = pdb DB Mem P (fst (prun DB Mem P Block Result Q A rebuild fresh step query qs (db, m, p) (pnever Block bs))).
Proof. exact process_restart_equiv. Qed.
Print Assumptions C20_process_restart_equiv.

(** Right after a stop of either kind the node answers every query as before. *)
Theorem C20_stop_query :
  forall (DB Mem P Q A : Type) (rebuild : DB -> Mem) (fresh : P) (query : DB * Mem * P -> Q -> A) (R : Mem -> Mem -> Prop),
    (forall a b, R a b -> R b a) -> (forall a b c, R a b -> R b c -> R a c) ->
    query_reads_mem_through_not_proc DB Mem P Q A query R ->
    forall k db m p q, R m (rebuild db) ->
      query (apply_stop DB Mem P rebuild fresh k (db, m, p)) q = query (db, m, p) q.
Proof. exact stop_query. Qed.
Print Assumptions C20_stop_query.

(** Instance: the fee-market node (store with the base fee and the gas figure of the parent block,
    height; process state = the "one" of the minimum step).  As implemented the step does not read
    the process state: all block histories, all schedules of stops, all process states. *)
Theorem C20_fee_step_obligations :
  step_reads_mem_through_not_proc fdb unit Z fblk (option Z) fee_step (fun _ _ => True) /\
  query_reads_mem_through_not_proc fdb unit Z unit (option Z) fee_query (fun _ _ => True) /\
  step_keeps_mem_rebuildable fdb unit Z fblk (option Z) fee_rebuild fee_step (fun _ _ => True).
Proof. exact fee_step_obligations. Qed.
Print Assumptions C20_fee_step_obligations.

Theorem C20_fee_process_restart_equiv :
  forall db m p1 p2 (bs : list fblk) (ks1 ks2 : list stop),
    snd (prun fdb unit Z fblk (option Z) unit (option Z) fee_rebuild 1%Z fee_step fee_query [tt] (db, m, p1) (pschedule fblk ks1 bs))
    = snd (prun fdb unit Z fblk (option Z) unit (option Z) fee_rebuild 1%Z fee_step fee_query [tt] (db, m, p2) (pschedule fblk ks2 bs)).
Proof. exact fee_process_restart_equiv. Qed.
Print Assumptions C20_fee_process_restart_equiv.

Theorem C20_fee_process_restart_nonvacuous :
  results (snd (fee_run px_node [(Keep, px_b); (Keep, px_b); (Keep, px_b)])) = [Some 7; Some 8; Some 9]%Z /\
  results (snd (fee_run px_node [(Keep, px_b); (Keep, px_b); (NewProcess, px_b)])) = [Some 7; Some 8; Some 9]%Z /\
  results (snd (fee_run px_node [(Keep, px_b); (Reopen, px_b); (NewProcess, px_b)])) = [Some 7; Some 8; Some 9]%Z /\
  map (fun o => snd o) (snd (fee_run px_node [(Keep, px_b); (NewProcess, px_b)])) = [[Some 7]; [Some 8]]%Z.
Proof. exact fee_process_restart_nonvacuous. Qed.
Print Assumptions C20_fee_process_restart_nonvacuous.

(** The converse witness: the minimum step taken from a process-global "one" that is updated in
    place (math.BigMax handing out common.Big1).  Base fee 7, denominator 8, target 4,000,000,
    every block declares 6,000,000 gas.  Never stopped: 7, 8, 16; RE-OPENED inside the process
    before the third block: 7, 8, 16 as well (an in-process restart cannot see it); restarted as
    a NEW PROCESS before the third block: 7, 8, 9 - same database at the boundary, different
    continuation, different final database. *)
Theorem C20_shared_one_breaks_process_restart_refuted :
  results (snd (fee_run_shared px_node [(Keep, px_b); (Keep, px_b); (Keep, px_b)])) = [Some 7; Some 8; Some 16]%Z /\
  results (snd (fee_run_shared px_node [(Keep, px_b); (Keep, px_b); (Reopen, px_b)])) = [Some 7; Some 8; Some 16]%Z /\
  results (snd (fee_run_shared px_node [(Keep, px_b); (Keep, px_b); (NewProcess, px_b)])) = [Some 7; Some 8; Some 9]%Z /\
  results (snd (fee_run_shared px_node [(Keep, px_b); (Keep, px_b); (Keep, px_b); (Keep, px_b)])) = [Some 7; Some 8; Some 16; Some 32]%Z /\
  results (snd (fee_run_shared px_node [(Keep, px_b); (Keep, px_b); (Keep, px_b); (NewProcess, px_b)])) = [Some 7; Some 8; Some 16; Some 17]%Z /\
  pdb fdb unit Z (fst (fee_run_shared px_node [(Keep, px_b); (Keep, px_b)]))
    = pdb fdb unit Z (fst (fee_run_shared px_node [(Keep, px_b); (NewProcess, px_b)])) /\
  pdb fdb unit Z (fst (fee_run_shared px_node [(Keep, px_b); (Keep, px_b); (Keep, px_b)]))
    <> pdb fdb unit Z (fst (fee_run_shared px_node [(Keep, px_b); (Keep, px_b); (NewProcess, px_b)])).
Proof. exact shared_one_breaks_process_restart_refuted. Qed.
Print Assumptions C20_shared_one_breaks_process_restart_refuted.

(** Under no relation on memories does that variant meet the obligation: it reads the process state. *)
Theorem C20_shared_one_reads_process_state :
  forall R : unit -> unit -> Prop, R tt tt ->
    ~ step_reads_mem_through_not_proc fdb unit Z fblk (option Z) fee_step_shared R.
Proof. exact shared_one_reads_process_state. Qed.
Print Assumptions C20_shared_one_reads_process_state.

(** What the correspondence check accepts: for every application instance of a history - in the
    process of the continuous node or in a process of its own - every BeginBlock stored the base
    fee that [begin_block] (the model of property C17, the step of [fee_step]) stores. *)
Theorem C20_fee_case_ok_spec :
  forall c : fee_case,
    fee_case_ok c = true <->
    Forall (fun seg : bool * list fee_obs =>
              Forall (fun o : fee_obs => let '(p, h, mg, g, a) := o in
                        exists s', begin_block (mkfs p g) h mg = Some s' /\ p_base_fee (fs_params s') = a /\ fs_bgw s' = g)
                     (snd seg)) c.
Proof. exact fee_case_ok_spec. Qed.
Print Assumptions C20_fee_case_ok_spec.
