(** Property C08 — locked and unvested coins cannot leave a clawback vesting account.
    This file only states the property theorems and closes each with a lemma of
    Vesting/LockProofs.v; [Print Assumptions] follows every theorem.

    One denomination of one account: [lk_acct] = original vesting, lockup and
    vesting periods, start, end, DelegatedVesting, DelegatedFree; [lk_state] adds
    the bank balance, what the staking module holds for the account (bonded,
    unbonding) and the block time.  [lk_locked_coins a t] is LockedCoins exactly
    as x/vesting/types/clawback_vesting_account.go computes it, [lk_send] the
    SDK's debit rule (subUnlockedCoins) that every debit path goes through,
    [lk_delegate] Haqq's guard followed by DelegateCoins/TrackDelegation.
    [lk_wf_b]: period amounts and lengths >= 0 and both schedules sum to the
    original (what the message servers establish and Validate() demands). *)
From Coq Require Import ZArith List Bool.
From HV Require Import Vesting.LockModel Vesting.LockProofs.
Import ListNotations.
Local Open Scope Z_scope.

(** The code's formula original - (unlockedVested + min(DF + DV, lockedUpVested))
    IS max(original - unlockedVested - trackedDelegated, unvested) whenever
    vested <= original; for arbitrary (even ill-formed) accounts it is that
    maximum clamped at zero.  Well-formed accounts always have vested <= original. *)
Theorem C08_locked_eq_max :
  forall a t, lk_vested a t <= lk_orig a ->
    lk_locked_coins a t = Z.max (lk_orig a - lk_unlocked_vested a t - (lk_df a + lk_dv a)) (lk_unvested a t).
Proof. exact lk_locked_eq_max. Qed.
Print Assumptions C08_locked_eq_max.

Theorem C08_locked_eq_max_clamped :
  forall a t,
    lk_locked_coins a t = Z.max 0 (Z.max (lk_orig a - lk_unlocked_vested a t - (lk_df a + lk_dv a)) (lk_unvested a t)).
Proof. exact lk_locked_eq_max_clamped. Qed.
Print Assumptions C08_locked_eq_max_clamped.

Theorem C08_locked_eq_max_wellformed :
  forall a t, lk_wf_b a = true ->
    lk_locked_coins a t = Z.max (lk_orig a - lk_unlocked_vested a t - (lk_df a + lk_dv a)) (lk_unvested a t)
    /\ 0 <= lk_vested a t <= lk_orig a /\ 0 <= lk_unlocked a t <= lk_orig a.
Proof. exact lk_locked_eq_max_wf_full. Qed.
Print Assumptions C08_locked_eq_max_wellformed.

(** for all schedules: the locked amount only goes down as block time advances *)
Theorem C08_locked_antitone_in_time :
  forall a t1 t2, lk_wf_b a = true -> t1 <= t2 -> lk_locked_coins a t2 <= lk_locked_coins a t1.
Proof. exact lk_locked_antitone_in_time. Qed.
Print Assumptions C08_locked_antitone_in_time.

(** the debit rule: more than balance - locked cannot leave (by any debit path), at any block time ... *)
Theorem C08_send_fails_above_spendable :
  forall s x, lk_bal s - lk_locked_coins (lk_a s) (lk_now s) < x ->
    lk_send s x = (s, LK_INSUFFICIENT) \/ lk_send s x = (s, LK_INVALID).
Proof. exact lk_send_fails_above_spendable. Qed.
Print Assumptions C08_send_fails_above_spendable.

(** ... and after ANY successful debit the balance is still at least the locked
    amount, whatever the state before (no invariant assumed). *)
Theorem C08_successful_debit_leaves_locked :
  forall s x s', lk_send s x = (s', LK_OK) ->
    lk_locked_coins (lk_a s') (lk_now s') <= lk_bal s' /\ 0 < x <= lk_bal s - lk_locked_coins (lk_a s) (lk_now s).
Proof. exact lk_successful_debit. Qed.
Print Assumptions C08_successful_debit_leaves_locked.

(** the eth ante pre-check never lets through a value the debit rule would refuse *)
Theorem C08_eth_precheck_sound :
  forall s v, lk_eth_value_precheck s v = true -> 0 < v -> lk_send s v = (lk_set_bal s (lk_bal s - v), LK_OK).
Proof. exact lk_eth_precheck_sound. Qed.
Print Assumptions C08_eth_precheck_sound.

(** a successful delegation (message, authz exec or precompile: all reach the
    same guard) takes at most balance - unvested *)
Theorem C08_delegation_within_vested :
  forall s x s', lk_delegate s x = (s', LK_OK) ->
    0 < x <= lk_bal s - lk_unvested (lk_a s) (lk_now s) /\ lk_bal s' = lk_bal s - x.
Proof. exact lk_delegation_within_vested. Qed.
Print Assumptions C08_delegation_within_vested.

(** Invariant "unvested coins are never delegated" (all of them sit in the bank
    balance): preserved by every operation — credit, debit, delegation,
    undelegation, payout, slash, time, clawback, new grant — and hence true
    after ALL histories, over all schedules and block times. *)
Theorem C08_unvested_not_delegated_step :
  forall s o, lk_wfs s -> lk_safe s -> lk_safe (fst (lk_step s o)).
Proof. exact lk_step_safe. Qed.
Print Assumptions C08_unvested_not_delegated_step.

Theorem C08_unvested_not_delegated_all_histories :
  forall ops s, lk_wfs s -> lk_safe s -> lk_safe (lk_run ops s) /\ lk_wfs (lk_run ops s).
Proof. exact lk_run_safe_wfs. Qed.
Print Assumptions C08_unvested_not_delegated_all_histories.

(** Invariant "balance >= locked": preserved by every operation other than a
    new grant (delegations included), and by a new grant when the tracked
    delegation does not exceed what the staking module holds ... *)
Theorem C08_balance_ge_locked_step :
  forall s o, lk_wfs s -> lk_inv s -> (lk_is_grant o = true -> lk_tracked_le_actual s) -> lk_inv (fst (lk_step s o)).
Proof. exact lk_step_inv. Qed.
Print Assumptions C08_balance_ge_locked_step.

(** ... hence after all histories that do not merge a grant after a slash
    (or share-rounding adjustment) of the account's stake.  [_partial]: the
    excluded histories are exactly those of [C08_balance_ge_locked_refuted]. *)
Theorem C08_balance_ge_locked_all_histories_partial :
  forall ops s, lk_wfs s -> lk_inv s -> lk_tracked_le_actual s ->
    lk_no_grant_after_slash false ops = true -> lk_inv (lk_run ops s).
Proof. exact lk_run_inv_partial. Qed.
Print Assumptions C08_balance_ge_locked_all_histories_partial.

(** a freshly created (or converted and funded) account satisfies all hypotheses *)
Theorem C08_fresh_account_ok :
  forall orig lockup vesting start endt extra now bond,
    lk_wf_b (mklka orig lockup vesting start endt 0 0) = true -> 0 <= extra ->
    let s := lk_fresh orig lockup vesting start endt extra now bond in
    lk_wfs s /\ lk_inv s /\ lk_safe s /\ lk_tracked_le_actual s.
Proof. exact lk_fresh_ok. Qed.
Print Assumptions C08_fresh_account_ok.

(** The faithful model violates "balance >= locked after any successful
    transaction": delegate 100 vested-but-locked coins, lose half to a slash,
    receive a 10-coin grant merge (addGrant resets DelegatedFree to the 50 still
    staked): balance 10, locked 60.  The merge transaction succeeds. *)
Theorem C08_balance_ge_locked_refuted :
  let s := lk_run lk_underwater_witness lk_ex_start in
  lk_wfs lk_ex_start /\ lk_inv lk_ex_start /\ lk_tracked_le_actual lk_ex_start /\
  snd (lk_step (lk_run [LkDelegate 100; LkSlash 50 0] lk_ex_start) (LkAddGrant 10 0 1000 [(1000, 110)] [(10, 100); (90, 10)])) = LK_OK /\
  lk_bal s = 10 /\ lk_locked_coins (lk_a s) (lk_now s) = 60 /\ lk_unvested (lk_a s) (lk_now s) = 10 /\ ~ lk_inv s.
Proof. exact lk_inv_refuted. Qed.
Print Assumptions C08_balance_ge_locked_refuted.

(** No coin can leave in that state (every debit fails) — the funder's clawback
    of the unvested 10 coins included, although they are in the balance. *)
Theorem C08_underwater_blocks_every_debit :
  let s := lk_run lk_underwater_witness lk_ex_start in
  snd (lk_clawback s [(1000, 100)] 1000) = LK_INSUFFICIENT /\ lk_unvested (lk_a s) (lk_now s) <= lk_bal s /\
  (forall x, 0 < x -> snd (lk_send s x) = LK_INSUFFICIENT).
Proof. exact lk_underwater_blocks_clawback. Qed.
Print Assumptions C08_underwater_blocks_every_debit.

(** a failed operation changes nothing *)
Theorem C08_failed_op_no_effect :
  forall s o s' r, lk_step s o = (s', r) -> r <> LK_OK -> s' = s.
Proof. exact lk_step_fail. Qed.
Print Assumptions C08_failed_op_no_effect.

(** non-vacuity: an account mid-schedule (500 of 1000 vested, 400 unlocked, 30
    free coins) with a 12-operation history in which every kind of operation
    succeeds once, a debit at spendable+1 and a delegation at delegatable+1 fail *)
Theorem C08_nonvacuous :
  lk_wfs lk_ex2_state /\ lk_inv lk_ex2_state /\ lk_tracked_le_actual lk_ex2_state /\
  lk_vested (lk_a lk_ex2_state) 120 = 500 /\ lk_unlocked (lk_a lk_ex2_state) 120 = 400 /\
  lk_locked_coins (lk_a lk_ex2_state) 120 = 600 /\
  snd (lk_step lk_ex2_state (LkSend 431)) = LK_INSUFFICIENT /\
  snd (lk_step lk_ex2_state (LkDelegate 531)) = LK_UNVESTED /\
  map (fun k => snd (lk_step (lk_run (firstn k lk_ex2_history) lk_ex2_state) (nth k lk_ex2_history (LkReceive 0))))
      (seq 0 12) = [LK_OK; LK_INSUFFICIENT; LK_OK; LK_OK; LK_OK; LK_OK; LK_OK; LK_OK; LK_OK; LK_OK; LK_OK; LK_OK] /\
  lk_no_grant_after_slash false lk_ex2_history = true /\
  lk_inv (lk_run lk_ex2_history lk_ex2_state) /\ lk_bal (lk_run lk_ex2_history lk_ex2_state) = 35.
Proof. exact lk_ex2_runs. Qed.
Print Assumptions C08_nonvacuous.

(** ---- account-type operations: MsgConvertVestingAccount, MsgConvertIntoVestingAccount, merges, funder ----
    [lkx_state] = [lk_state] + the KIND of the stored account (clawback vesting / plain EthAccount) + the funder;
    [lkx_step] = the code ([lkx_step_g LkGuardSchedule]): MsgConvertVestingAccount succeeds iff the account is a
    vesting account, GetVestingCoins(t) is zero and GetLockedUpCoins(t) (the lock-up SCHEDULE: original - unlocked,
    whatever is delegated) is zero; a plain account has no locked amount, no delegation guard, no tracking.
    For a plain state [lk_a] is the vesting record the conversion discarded ("as if it had not been converted").
    [lk_sched_locked a t] = original - unlockedVested = max(locked-up, unvested): what the schedule locks at t
    regardless of delegation; the bank-facing [lk_locked_coins] never exceeds it. *)
Theorem C08_locked_le_schedule_locked :
  forall a t, lk_wf_b a = true -> 0 <= lk_df a + lk_dv a ->
    0 <= lk_locked_coins a t <= lk_sched_locked a t /\ lk_sched_locked a t = Z.max (lk_locked_up a t) (lk_unvested a t).
Proof. exact lk_locked_le_sched_full. Qed.
Print Assumptions C08_locked_le_schedule_locked.

(** a successful conversion: only of a vesting account whose schedule has nothing unvested and nothing locked
    up at that block time; nothing but the kind changes *)
Theorem C08_convert_requires_schedule_done :
  forall s s', lkx_step s LxConvert = (s', LK_OK) ->
    lx_vesting s = true /\ lk_unvested (lk_a (lx_s s)) (lk_now (lx_s s)) = 0 /\ lk_locked_up (lk_a (lx_s s)) (lk_now (lx_s s)) = 0 /\
    lk_sched_locked (lk_a (lx_s s)) (lk_now (lx_s s)) = 0 /\ s' = mklkx (lx_s s) false (lx_funder s).
Proof. exact lkx_convert_ok. Qed.
Print Assumptions C08_convert_requires_schedule_done.

(** unlocking and vesting are monotone: a schedule that locks nothing at t locks nothing at any later time,
    and the bank-facing locked amount of that record is 0 whatever delegation it tracks *)
Theorem C08_schedule_done_stays_done :
  forall a t t', lk_wf_b a = true -> lk_sched_locked a t = 0 -> t <= t' ->
    lk_sched_locked a t' = 0 /\ lk_unvested a t' = 0 /\ lk_locked_up a t' = 0 /\
    (0 <= lk_df a + lk_dv a -> lk_locked_coins a t' = 0).
Proof. exact lk_sched_zero_forever. Qed.
Print Assumptions C08_schedule_done_stays_done.

(** inside ANY history (all operations incl. conversions both ways, merges, funder changes, clawbacks, slashes),
    whenever MsgConvertVestingAccount succeeds the schedule of the account locks nothing then and ever after *)
Theorem C08_convert_in_any_history_only_when_unlocked :
  forall pre s s', lkx_wfs s -> lkx_step (lkx_run pre s) LxConvert = (s', LK_OK) ->
    let c := lx_s (lkx_run pre s) in
    lk_unvested (lk_a c) (lk_now c) = 0 /\ lk_locked_up (lk_a c) (lk_now c) = 0 /\
    (forall t, lk_now c <= t -> lk_sched_locked (lk_a c) t = 0 /\ lk_locked_coins (lk_a c) t = 0).
Proof. exact lkx_convert_in_history. Qed.
Print Assumptions C08_convert_in_any_history_only_when_unlocked.

(** the invariant across kinds ([lkx_inv]: vesting: balance >= LockedCoins; plain: balance >= 0 and the discarded
    schedule locks nothing) is preserved by every operation (a merge / conversion into vesting needs tracked <= actual) ... *)
Theorem C08_balance_ge_locked_conversion_step :
  forall s o, lkx_wfs s -> lkx_inv s -> (lkx_is_grant o = true -> lkx_tracked s) -> lkx_inv (fst (lkx_step s o)).
Proof. exact lkx_step_inv. Qed.
Print Assumptions C08_balance_ge_locked_conversion_step.

(** ... hence after all histories over the extended operation set that do not merge a grant after a slash
    ([_partial]: the same exclusion as [C08_balance_ge_locked_all_histories_partial], finding K11) *)
Theorem C08_balance_ge_locked_survives_conversion_all_histories_partial :
  forall ops s, lkx_wfs s -> lkx_inv s -> lkx_tracked s ->
    lkx_no_grant_after_slash false ops = true -> lkx_inv (lkx_run ops s) /\ lkx_wfs (lkx_run ops s).
Proof. exact lkx_run_inv_wfs_partial. Qed.
Print Assumptions C08_balance_ge_locked_survives_conversion_all_histories_partial.

(** what the invariant gives for a converted account: at every later block time the ORIGINAL obligation
    (the discarded schedule, with any tracked delegation) is zero and covered by the balance *)
Theorem C08_converted_account_owes_nothing :
  forall s t, lkx_wfs s -> lkx_inv s -> lx_vesting s = false -> lk_now (lx_s s) <= t ->
    let a := lk_a (lx_s s) in
    lk_sched_locked a t = 0 /\ lk_unvested a t = 0 /\ lk_locked_up a t = 0 /\ lk_locked_coins a t = 0 /\
    lk_locked_coins a t <= lk_bal (lx_s s).
Proof. exact lkx_inv_plain_forever. Qed.
Print Assumptions C08_converted_account_owes_nothing.

(** "unvested coins are never delegated" holds after ALL histories over the extended operation set *)
Theorem C08_unvested_not_delegated_all_histories_with_conversion :
  forall ops s, lkx_wfs s -> lkx_safe s -> lkx_safe (lkx_run ops s) /\ lkx_wfs (lkx_run ops s).
Proof. exact lkx_run_safe_wfs. Qed.
Print Assumptions C08_unvested_not_delegated_all_histories_with_conversion.

Theorem C08_fresh_account_ok_with_kind :
  forall orig lockup vesting start endt extra now bond,
    lk_wf_b (mklka orig lockup vesting start endt 0 0) = true -> 0 <= extra ->
    let s := lkx_fresh orig lockup vesting start endt extra now bond in
    lkx_wfs s /\ lkx_inv s /\ lkx_safe s /\ lkx_tracked s.
Proof. exact lkx_fresh_ok. Qed.
Print Assumptions C08_fresh_account_ok_with_kind.

Theorem C08_failed_account_op_no_effect :
  forall gd s o s' r, lkx_step_g gd s o = (s', r) -> r <> LK_OK -> s' = s.
Proof. exact lkx_step_g_fail. Qed.
Print Assumptions C08_failed_account_op_no_effect.

(** With the conversion guard computed from the bank-facing locked amount (LockedCoins = original -
    unlockedVested - min(delegated, lockedUpVested)) instead of the schedule, the history
    [delegate all; convert; undelegate; wait; payout; send all] succeeds step by step on a fully vested grant
    100 days inside its lock-up: the account is plain, its balance 0, while the schedule still locks all 1000
    coins.  With the code's guard the conversion is refused (LK_LOCKED) and the last debit fails. *)
Theorem C08_convert_bank_guard_refuted :
  let s := lkx_run_g LkGuardBank lkx_escape_witness lkx_ex_start in
  lkx_wfs lkx_ex_start /\ lkx_inv lkx_ex_start /\ lkx_tracked lkx_ex_start /\
  lkx_no_grant_after_slash false lkx_escape_witness = true /\
  lkx_results LkGuardBank lkx_escape_witness lkx_ex_start = [LK_OK; LK_OK; LK_OK; LK_OK; LK_OK; LK_OK] /\
  lx_vesting s = false /\ lk_bal (lx_s s) = 0 /\ lk_now (lx_s s) = 2400 /\
  lk_locked_up (lk_a (lx_s s)) 2400 = 1000 /\ lk_sched_locked (lk_a (lx_s s)) 2400 = 1000 /\ ~ lkx_inv s /\
  lkx_results LkGuardSchedule lkx_escape_witness lkx_ex_start = [LK_OK; LK_LOCKED; LK_OK; LK_OK; LK_OK; LK_INSUFFICIENT] /\
  lk_bal (lx_s (lkx_run lkx_escape_witness lkx_ex_start)) = 1000 /\ lkx_inv (lkx_run lkx_escape_witness lkx_ex_start).
Proof. exact lkx_bank_guard_refuted. Qed.
Print Assumptions C08_convert_bank_guard_refuted.

(** non-vacuity of the conversion theorems: a 15-step history in which a conversion is refused inside the
    lock-up, succeeds after it, the plain account spends, is converted into a vesting account again, the
    funder changes, the stale funder's clawback is refused, the new funder's succeeds, and a final
    conversion succeeds *)
Theorem C08_conversion_nonvacuous :
  lkx_results LkGuardSchedule lkx_ex2_history lkx_ex_start =
    [LK_OK; LK_LOCKED; LK_OK; LK_OK; LK_OK; LK_NOTVESTING; LK_OK; LK_INSUFFICIENT; LK_LOCKED; LK_OK; LK_OK;
     LK_UNAUTHORIZED; LK_OK; LK_OK; LK_OK] /\
  lkx_no_grant_after_slash false lkx_ex2_history = true /\
  lkx_inv (lkx_run lkx_ex2_history lkx_ex_start) /\ lkx_safe (lkx_run lkx_ex2_history lkx_ex_start) /\
  lx_vesting (lkx_run lkx_ex2_history lkx_ex_start) = false /\ lk_bal (lx_s (lkx_run lkx_ex2_history lkx_ex_start)) = 250.
Proof. exact lkx_ex2_runs. Qed.
Print Assumptions C08_conversion_nonvacuous.

(** ---- MsgConvertIntoVestingAccount{Stake:true}: the auto-stake step ----
    [LxConvertIntoStake signer merge g start' end' lockup' vesting' gstart gv] = the message with the stake option:
    the schedule part is [LxConvertInto] (conversion of a plain account, or a merge by the funder), then
    delegateVestedCoins stakes [lk_grant_vested gstart gv now] = ReadSchedule over the vesting periods CARRIED BY THE
    MESSAGE (the vested part of this grant only) by calling stakingKeeper.Delegate directly, i.e. WITHOUT the guard
    validateDelegationAmountNotUnvested ([lk_stake]: only balance >= amount).  [lkx_step] covers the operation, so
    [C08_unvested_not_delegated_all_histories_with_conversion], [C08_balance_ge_locked_conversion_step],
    [C08_balance_ge_locked_survives_conversion_all_histories_partial] and [C08_failed_account_op_no_effect] above
    quantify over histories that contain it.  The merged schedule is an input (C09); the step checks that at the
    block time it has vested at least (old vested + vested part of the grant).

    Whenever no unvested coin was delegated before, a successful stake message IS the schedule message followed
    by an ordinary delegation of the vested part of this grant that Haqq's guard accepts: the missing guard is
    implied. *)
Theorem C08_stake_is_guarded_delegation_of_this_grants_vested_part :
  forall s sg mg g st e l v gst gv s', lkx_wfs s -> lkx_safe s ->
    lkx_step s (LxConvertIntoStake sg mg g st e l v gst gv) = (s', LK_OK) ->
    exists s1, lkx_step s (LxConvertInto sg mg g st e l v) = (s1, LK_OK) /\ lx_vesting s1 = true /\
      let x := lk_grant_vested gst gv (lk_now (lx_s s)) in
      0 < x <= lk_bal (lx_s s1) - lk_unvested (lk_a (lx_s s1)) (lk_now (lx_s s1)) /\
      lkx_oldv s + x <= lk_vested (lk_a (lx_s s1)) (lk_now (lx_s s1)) /\
      lkx_step s1 (LxBase (LkDelegate x) 0%N) = (s', LK_OK).
Proof. exact lkx_into_stake_decompose. Qed.
Print Assumptions C08_stake_is_guarded_delegation_of_this_grants_vested_part.

(** the stake step preserves "no unvested coin is delegated" (all unvested coins are in the balance) and, with
    tracked <= actual, "balance >= locked" *)
Theorem C08_stake_preserves_unvested_not_delegated :
  forall s sg mg g st e l v gst gv, lkx_wfs s -> lkx_safe s ->
    lkx_safe (fst (lkx_step s (LxConvertIntoStake sg mg g st e l v gst gv))).
Proof. exact (fun s sg mg g st e l v gst gv => lkx_step_safe s (LxConvertIntoStake sg mg g st e l v gst gv)). Qed.
Print Assumptions C08_stake_preserves_unvested_not_delegated.

Theorem C08_stake_preserves_balance_ge_locked :
  forall s sg mg g st e l v gst gv, lkx_wfs s -> lkx_inv s -> lkx_tracked s ->
    lkx_inv (fst (lkx_step s (LxConvertIntoStake sg mg g st e l v gst gv))).
Proof. exact (fun s sg mg g st e l v gst gv Hw Hi Ht => lkx_step_inv s (LxConvertIntoStake sg mg g st e l v gst gv) Hw Hi (fun _ => Ht)). Qed.
Print Assumptions C08_stake_preserves_balance_ge_locked.

(** Non-vacuity and refutation.  Grant #1 (500, fully vested and unlocked) is spent; grant #2 (1000; 250 vested)
    is merged with the stake option.  The code stakes 250 and keeps balance 750 = unvested 750.  With the amount
    read from the whole account after the merge (GetVestedCoins of the merged schedule = 750) the same message
    succeeds, stakes 500 of the freshly deposited unvested coins, leaves balance 250 < unvested 750, and the
    funder's clawback fails. *)
Theorem C08_stake_account_wide_amount_refuted :
  lkx_wfs lkx_stake_start /\ lkx_inv lkx_stake_start /\ lkx_safe lkx_stake_start /\ lkx_tracked lkx_stake_start /\
  snd (lkx_step lkx_stake_start (LxBase (LkSend 500) 0%N)) = LK_OK /\ lk_bal (lx_s lkx_stake_spent) = 0 /\
  lk_grant_vested 19990 lkx_stake_gv 20000 = 250 /\
  lkx_step lkx_stake_spent (LxConvertIntoStake 0%N true 1000 0 25995 lkx_stake_lockup' lkx_stake_vesting' 19990 lkx_stake_gv)
    = lkx_stake_msg LkStakeGrant lkx_stake_spent /\
  (let r := lkx_stake_msg LkStakeGrant lkx_stake_spent in
   snd r = LK_OK /\ lk_deleg (lx_s (fst r)) = 250 /\ lk_bal (lx_s (fst r)) = 750 /\
   lk_unvested (lk_a (lx_s (fst r))) 20000 = 750 /\ lkx_safe (fst r) /\ lkx_inv (fst r)) /\
  (let r := lkx_stake_msg LkStakeAccount lkx_stake_spent in
   snd r = LK_OK /\ lk_deleg (lx_s (fst r)) = 750 /\ lk_bal (lx_s (fst r)) = 250 /\
   lk_unvested (lk_a (lx_s (fst r))) 20000 = 750 /\ ~ lkx_safe (fst r) /\ ~ lkx_inv (fst r) /\
   snd (lk_clawback (lx_s (fst r)) [(5000, 500); (19990, 250)] 25995) = LK_INSUFFICIENT).
Proof. exact lkx_stake_account_wide_refuted. Qed.
Print Assumptions C08_stake_account_wide_amount_refuted.

(** ---- validator creation: the self-bond of MsgCreateValidator is a delegation ----
    [LyCreateValidator r x] = MsgCreateValidator{DelegatorAddress = the account, Value = x} over route [r]:
    [LkRouteMsg] the message in a Cosmos transaction (message router), [LkRouteAuthz] the message inside authz
    MsgExec (a generic grant on its type URL; the same router), [LkRoutePrecompile] the staking precompile's
    createValidator in an Ethereum transaction signed by the account (precompiles/staking/tx.go builds its own message
    server).  [lky_step] = the code: Haqq's wrapper x/staking/keeper.msgServer.CreateValidator on every route
    (validateDelegationAmountNotUnvested, then the SDK's CreateValidator = DelegateCoins + TrackDelegation);
    [lky_step_g srv] = the same with the message server chosen per route by [srv] ([LkCvSdk] = the Cosmos SDK's own
    server, which knows nothing of clawback vesting), kept for the refutation.  [lky_op] = every operation of
    [lkx_op] and validator creation; [lky_run] folds [lky_step] over a history.

    On every route the code's validator creation IS the ordinary guarded delegation of the self-bond. *)
Theorem C08_validator_creation_is_guarded_delegation :
  forall s r x, lky_step s (LyCreateValidator r x) = lkx_step s (LxBase (LkDelegate x) 0%N).
Proof. exact lky_create_validator_is_delegate. Qed.
Print Assumptions C08_validator_creation_is_guarded_delegation.

(** a successful validator creation by a vesting account, on every route: the self-bond is positive and covered by
    balance - unvested; it leaves the balance, is bonded and tracked (DelegatedFree); the unvested amount, the
    account kind and the funder are unchanged *)
Theorem C08_validator_creation_within_vested :
  forall s r x s', lx_vesting s = true -> lky_step s (LyCreateValidator r x) = (s', LK_OK) ->
    0 < x <= lk_bal (lx_s s) - lk_unvested (lk_a (lx_s s)) (lk_now (lx_s s)) /\
    lk_bal (lx_s s') = lk_bal (lx_s s) - x /\ lk_deleg (lx_s s') = lk_deleg (lx_s s) + x /\
    lk_df (lk_a (lx_s s')) = lk_df (lk_a (lx_s s)) + x /\ lk_dv (lk_a (lx_s s')) = lk_dv (lk_a (lx_s s)) /\
    lk_unvested (lk_a (lx_s s')) (lk_now (lx_s s')) = lk_unvested (lk_a (lx_s s)) (lk_now (lx_s s)) /\
    lx_vesting s' = true /\ lx_funder s' = lx_funder s.
Proof. exact lky_create_validator_ok. Qed.
Print Assumptions C08_validator_creation_within_vested.

(** a self-bond above balance - unvested is refused on every route, and a refusal changes nothing *)
Theorem C08_validator_creation_refused_above_vested :
  forall s r x, lx_vesting s = true ->
    lk_bal (lx_s s) - lk_unvested (lk_a (lx_s s)) (lk_now (lx_s s)) < x ->
    snd (lky_step s (LyCreateValidator r x)) <> LK_OK.
Proof. exact lky_create_validator_refused_above_vested. Qed.
Print Assumptions C08_validator_creation_refused_above_vested.

Theorem C08_failed_validator_creation_no_effect :
  forall s r x s' e, lky_step s (LyCreateValidator r x) = (s', e) -> e <> LK_OK -> s' = s.
Proof. exact lky_create_validator_fail. Qed.
Print Assumptions C08_failed_validator_creation_no_effect.

(** validator creation preserves "no unvested coin is delegated" on every route, in every state ... *)
Theorem C08_validator_creation_preserves_unvested_not_delegated :
  forall s r x, lkx_wfs s -> lkx_safe s ->
    lkx_safe (fst (lky_step s (LyCreateValidator r x))) /\ lkx_wfs (fst (lky_step s (LyCreateValidator r x))).
Proof. exact lky_create_validator_safe. Qed.
Print Assumptions C08_validator_creation_preserves_unvested_not_delegated.

(** ... and "balance >= locked" *)
Theorem C08_validator_creation_preserves_balance_ge_locked :
  forall s r x, lkx_wfs s -> lkx_inv s -> lkx_inv (fst (lky_step s (LyCreateValidator r x))).
Proof. exact lky_create_validator_inv. Qed.
Print Assumptions C08_validator_creation_preserves_balance_ge_locked.

(** all histories mixing validator creation over the three routes with every other operation (spends, delegations,
    undelegation, payout, slash, time, clawback, merges, conversions, stake messages, funder updates) *)
Theorem C08_unvested_not_delegated_all_histories_with_validator_creation :
  forall ops s, lkx_wfs s -> lkx_safe s -> lkx_safe (lky_run ops s) /\ lkx_wfs (lky_run ops s).
Proof. exact lky_run_safe_wfs. Qed.
Print Assumptions C08_unvested_not_delegated_all_histories_with_validator_creation.

(** "balance >= locked": the K11 exclusion (no grant merged after a slash) unchanged; a validator creation counts as
    the delegation it is ([lky_lower]) *)
Theorem C08_balance_ge_locked_all_histories_with_validator_creation_partial :
  forall ops s, lkx_wfs s -> lkx_inv s -> lkx_tracked s ->
    lkx_no_grant_after_slash false (map lky_lower ops) = true ->
    lkx_inv (lky_run ops s) /\ lkx_wfs (lky_run ops s).
Proof. exact lky_run_inv_wfs_partial. Qed.
Print Assumptions C08_balance_ge_locked_all_histories_with_validator_creation_partial.

(** Refutation of the other message server.  1000 coins, 250 vested, everything locked up, block time 2000: the
    account may delegate 250.  The code refuses a self-bond of 251 on each route and of 1000 through the precompile,
    and accepts 250.  With the Cosmos SDK's message server behind the staking precompile ([lk_cv_precompile_sdk]) the
    account's own Ethereum transaction bonds the whole grant: balance 0 < unvested 750 — unvested coins are
    delegated, "balance >= locked" is lost and the funder's clawback fails; the other two routes still refuse. *)
Theorem C08_validator_creation_sdk_server_refuted :
  lkx_wfs lky_ex_start /\ lkx_inv lky_ex_start /\ lkx_safe lky_ex_start /\ lkx_tracked lky_ex_start /\
  lk_unvested (lk_a (lx_s lky_ex_start)) 2000 = 750 /\
  lky_results lk_cv_code [LyCreateValidator LkRouteMsg 251; LyCreateValidator LkRouteAuthz 251; LyCreateValidator LkRoutePrecompile 251;
                          LyCreateValidator LkRoutePrecompile 1000; LyCreateValidator LkRoutePrecompile 250] lky_ex_start
    = [LK_UNVESTED; LK_UNVESTED; LK_UNVESTED; LK_UNVESTED; LK_OK] /\
  (let r := lky_step_g lk_cv_precompile_sdk lky_ex_start (LyCreateValidator LkRoutePrecompile 1000) in
   snd r = LK_OK /\ lk_bal (lx_s (fst r)) = 0 /\ lk_deleg (lx_s (fst r)) = 1000 /\ lk_df (lk_a (lx_s (fst r))) = 1000 /\
   lk_unvested (lk_a (lx_s (fst r))) 2000 = 750 /\ ~ lkx_safe (fst r) /\ ~ lkx_inv (fst r) /\
   snd (lk_clawback (lx_s (fst r)) [(8640000, 250)] 8640000) = LK_INSUFFICIENT) /\
  lky_results lk_cv_precompile_sdk [LyCreateValidator LkRouteMsg 251; LyCreateValidator LkRouteAuthz 251] lky_ex_start
    = [LK_UNVESTED; LK_UNVESTED].
Proof. exact lky_sdk_server_refuted. Qed.
Print Assumptions C08_validator_creation_sdk_server_refuted.

(** Non-vacuity: the same account delegates 100, is refused a self-bond of 151 on each route (150 = balance 900 -
    unvested 750), creates its validator with 150 through the precompile, is refused one more coin, and after the
    second vesting event is refused 751 and bonds the remaining 750. *)
Theorem C08_validator_creation_nonvacuous :
  lky_results lk_cv_code lky_ex_history lky_ex_start
    = [LK_OK; LK_UNVESTED; LK_UNVESTED; LK_UNVESTED; LK_OK; LK_UNVESTED; LK_OK; LK_UNVESTED; LK_OK] /\
  lkx_no_grant_after_slash false (map lky_lower lky_ex_history) = true /\
  lkx_safe (lky_run lky_ex_history lky_ex_start) /\ lkx_inv (lky_run lky_ex_history lky_ex_start) /\
  lk_bal (lx_s (lky_run lky_ex_history lky_ex_start)) = 0 /\ lk_deleg (lx_s (lky_run lky_ex_history lky_ex_start)) = 1000 /\
  lk_unvested (lk_a (lx_s (lky_run lky_ex_history lky_ex_start))) 5000 = 0.
Proof. exact lky_ex_runs. Qed.
Print Assumptions C08_validator_creation_nonvacuous.
