(** Property C10 — ERC20 <-> coin conversion keeps a 1:1 backed peg.
    This file only states the property theorems and closes each with a lemma of
    Erc20/PegProofs.v; [Print Assumptions] follows every theorem.

    [step tk cf s o] is the model of one operation on one token pair (messages
    ConvertCoin / ConvertERC20, a signed Ethereum transaction to the token followed
    by the PostTxProcessing hook, a signed Ethereum transaction to a contract that holds
    tokens and makes a LIST of calls (several Transfer logs in one receipt) followed by
    the hook, the bank MsgSend wrapper, the IBC receive / ack /
    timeout callbacks, toggle, params, and [Spend owner x]: the beneficiary of the allowances that the
    delayed-malicious token hands out calls transferFrom(owner, thief, x)) against the token oracle [tk];
    [cf = impl] is /repo as it is (after the "fix:" commit 1c369cb), [cf = spec] what the
    property demands (no log-driven mint for externally owned pairs), [cf = pre_fix] the
    tree before 1c369cb ("transfer returned false" was treated as success by the wrapper).
    [HT] is the honest token (OpenZeppelin ledger with minter/burner role). *)
From Coq Require Import ZArith List.
From stdpp Require Import gmap.
From HV Require Import Erc20.PegModel Erc20.PegProofs Erc20.MultiProofs Erc20.SpellProofs Erc20.AllowProofs.
Import ListNotations.
Local Open Scope Z_scope.

(** ** honest token: backing over ALL histories *)

(** For every history of operations (any actors, amounts, order; valid or
    rejected; [Batch]: transactions whose receipt carries any number of Transfer logs
    included) starting from a freshly registered pair, in either semantics:
    coin-origin pair: ERC20 totalSupply <= coins escrowed in the module account;
    token-origin pair: coin supply <= balanceOf(module). *)
Theorem C10_backing_inv_all_histories :
  forall (cf : cfg) (ops : list op) (s : st ledger), fresh s -> backing_inv (run HT cf ops s).
Proof. exact backing_inv_all_histories. Qed.
Print Assumptions C10_backing_inv_all_histories.

(** coin-origin: the escrow exceeds the total supply by exactly what holders
    burned of their own tokens (ERC20Burnable.burn), which is never negative ... *)
Theorem C10_backing_coin_exact :
  forall (cf : cfg) (ops : list op) (s : st ledger), fresh s -> own_mod s = true ->
    let s' := run HT cf ops s in
    zget (cbal s') MODULE = ltotal (tok s') + holder_burns cf ops s /\ 0 <= holder_burns cf ops s.
Proof. exact backing_coin_exact. Qed.
Print Assumptions C10_backing_coin_exact.

(** ... so without such burns escrow = total supply. *)
Theorem C10_backing_coin_equal_without_burns :
  forall (cf : cfg) (ops : list op) (s : st ledger), fresh s -> own_mod s = true -> no_holder_burn ops ->
    let s' := run HT cf ops s in zget (cbal s') MODULE = ltotal (tok s').
Proof. exact backing_coin_equal_without_burns. Qed.
Print Assumptions C10_backing_coin_equal_without_burns.

(** step form: every single operation moves escrow - totalSupply by exactly the
    amount of a successful holder burn (0 for everything else) *)
Theorem C10_backing_coin_step :
  forall (cf : cfg) (s : st ledger) (o : op) (s' : st ledger) (r : N),
    InvCoin s -> step HT cf s o = (s', r) -> InvCoin s' /\ gap s' = gap s + burn_of o r.
Proof. exact coin_step. Qed.
Print Assumptions C10_backing_coin_step.

Theorem C10_backing_ext_step :
  forall (cf : cfg) (s : st ledger) (o : op) (s' : st ledger) (r : N),
    InvExt s -> step HT cf s o = (s', r) -> InvExt s'.
Proof. exact ext_step. Qed.
Print Assumptions C10_backing_ext_step.

(** ** ANY token: each conversion is exact or has no effect *)

(** MsgConvertCoin against an arbitrary token behaviour [tk]: either it fails and
    the state (bank, registry and the token's own storage: the message is atomic)
    is unchanged; or the contract had self-destructed and only the pair is dropped;
    or exactly x coins left the sender — into the escrow (coin-origin, supply
    unchanged) or out of existence (token-origin, supply - x) — nobody else's coins
    moved, and the token reports the receiver's balance x higher than before. *)
Theorem C10_convert_coin_exact_or_error :
  forall (T : Type) (tk : token T) (s : st T) (a b : N) (x : Z) (s' : st T) (r : N),
    msg_convert_coin tk s a b x = (s', r) ->
    conv_outcome tk (a <> MODULE /\ cc_post tk s s' a b x) s s' r.
Proof. exact @msg_convert_coin_exact_or_error. Qed.
Print Assumptions C10_convert_coin_exact_or_error.

(** MsgConvertERC20: ... exactly x coins reach the receiver — out of the escrow
    (coin-origin: the token reports the sender's balance x lower) or newly minted
    (token-origin: the token reports the module's balance x higher). *)
Theorem C10_convert_erc20_exact_or_error :
  forall (T : Type) (tk : token T) (s : st T) (a b : N) (x : Z) (s' : st T) (r : N),
    msg_convert_erc20 tk s a b x = (s', r) ->
    conv_outcome tk (0 < x /\ a <> MODULE /\ ce_post tk s s' a b x) s s' r.
Proof. exact @msg_convert_erc20_exact_or_error. Qed.
Print Assumptions C10_convert_erc20_exact_or_error.

(** the keeper entry points used by the IBC callbacks and the wrapper (no ValidateBasic) *)
Theorem C10_keeper_convert_coin_exact_or_error :
  forall (T : Type) (tk : token T) (s : st T) (a b : N) (x : Z) (s' : st T) (r : N),
    convert_coin tk s a b x = (s', r) -> conv_outcome tk (cc_post tk s s' a b x) s s' r.
Proof. exact @convert_coin_spec. Qed.
Print Assumptions C10_keeper_convert_coin_exact_or_error.

Theorem C10_keeper_convert_erc20_exact_or_error :
  forall (T : Type) (tk : token T) (s : st T) (a b : N) (x : Z) (s' : st T) (r : N),
    convert_erc20 tk s a b x = (s', r) -> conv_outcome tk (ce_post tk s s' a b x) s s' r.
Proof. exact @convert_erc20_spec. Qed.
Print Assumptions C10_keeper_convert_erc20_exact_or_error.

(** the bank MsgSend wrapper (every semantics in which "transfer returned false" is an
    error: [impl] and [spec]): failure without effect, or: plain bank send when conversion is off;
    otherwise an exact conversion of everything spendable followed by a token
    transfer that the token reports as x received by the recipient; bank side
    otherwise untouched *)
Theorem C10_wrapper_exact_or_error :
  forall (T : Type) (tk : token T) (cf : cfg) (s : st T) (a b : N) (x : Z) (s' : st T) (r : N),
    wrap_false_ok cf = false ->
    msg_send tk cf s a b x = (s', r) -> (r <> OK /\ s' = s) \/ (r = OK /\ send_post tk s s' a b x).
Proof. exact @msg_send_exact_or_error. Qed.
Print Assumptions C10_wrapper_exact_or_error.

(** every operation of the model (IBC callbacks, hook transactions, ... included),
    any token, either semantics: a result other than OK leaves the state untouched *)
Theorem C10_failed_operation_no_effect :
  forall (T : Type) (tk : token T) (cf : cfg) (s : st T) (o : op) (s' : st T) (r : N),
    step tk cf s o = (s', r) -> r <> OK -> s' = s.
Proof. exact @failed_step_no_effect. Qed.
Print Assumptions C10_failed_operation_no_effect.

(** honest token: BOTH sides of a successful message conversion: exactly x leaves
    the sender's one representation and reaches the receiver's other one *)
Theorem C10_honest_convert_coin_both_sides :
  forall (s : st ledger) (a b : N) (x : Z) (s' : st ledger),
    msg_convert_coin HT s a b x = (s', OK) ->
    0 < x /\ x <= zget (cbal s) a /\ a <> MODULE /\ b <> MODULE /\
    if own_mod s
    then coin_moves s s' (fun c => x * ind MODULE c - x * ind a c) /\ supply s' = supply s /\
         tok_moves s s' (fun c => x * ind b c) /\ ltotal (tok s') = ltotal (tok s) + x
    else coin_moves s s' (fun c => - x * ind a c) /\ supply s' = supply s - x /\
         tok_moves s s' (fun c => x * ind b c - x * ind MODULE c) /\ ltotal (tok s') = ltotal (tok s).
Proof. exact honest_convert_coin_both_sides. Qed.
Print Assumptions C10_honest_convert_coin_both_sides.

Theorem C10_honest_convert_erc20_both_sides :
  forall (s : st ledger) (a b : N) (x : Z) (s' : st ledger),
    msg_convert_erc20 HT s a b x = (s', OK) ->
    0 < x /\ x <= zget (lbal (tok s)) a /\ a <> MODULE /\ b <> MODULE /\
    if own_mod s
    then coin_moves s s' (fun c => x * ind b c - x * ind MODULE c) /\ supply s' = supply s /\
         tok_moves s s' (fun c => - x * ind a c) /\ ltotal (tok s') = ltotal (tok s) - x
    else coin_moves s s' (fun c => x * ind b c) /\ supply s' = supply s + x /\
         tok_moves s s' (fun c => x * ind MODULE c - x * ind a c) /\ ltotal (tok s') = ltotal (tok s).
Proof. exact honest_convert_erc20_both_sides. Qed.
Print Assumptions C10_honest_convert_erc20_both_sides.

(** ** the transfer-to-module hook *)

(** honest token, coin-origin pair: a holder's transfer of x > 0 tokens to the
    module address burns exactly x of his tokens and pays him exactly x escrowed coins *)
Theorem C10_hook_honest_exact_coin :
  forall (cf : cfg) (s : st ledger) (a : N) (x : Z) (s' : st ledger) (r : N),
    InvCoin s -> hook_active s -> 0 < x ->
    eth_tx HT cf s a (UTransfer MODULE x) = (s', r) ->
    (r <> OK /\ s' = s) \/
    (r = OK /\ x <= zget (lbal (tok s)) a /\ a <> MODULE /\ same_pair s s' /\
     tok_moves s s' (fun c => - x * ind a c) /\ ltotal (tok s') = ltotal (tok s) - x /\
     coin_moves s s' (fun c => x * ind a c - x * ind MODULE c) /\ supply s' = supply s).
Proof. exact hook_honest_exact_coin. Qed.
Print Assumptions C10_hook_honest_exact_coin.

(** honest token, token-origin pair: x tokens move from the holder to the module,
    x coins are minted to the holder *)
Theorem C10_hook_honest_exact_ext :
  forall (cf : cfg) (s : st ledger) (a : N) (x : Z) (s' : st ledger) (r : N),
    InvExt s -> hook_active s -> 0 < x -> hook_ext cf = true -> 0 <= zget (cbal s) MODULE ->
    eth_tx HT cf s a (UTransfer MODULE x) = (s', r) ->
    (r <> OK /\ s' = s) \/
    (r = OK /\ x <= zget (lbal (tok s)) a /\ a <> MODULE /\ same_pair s s' /\
     tok_moves s s' (fun c => x * ind MODULE c - x * ind a c) /\ ltotal (tok s') = ltotal (tok s) /\
     coin_moves s s' (fun c => x * ind a c) /\ supply s' = supply s + x).
Proof. exact hook_honest_exact_ext. Qed.
Print Assumptions C10_hook_honest_exact_ext.

(** ONE transaction in which a contract ([SCRIPT]) that holds tokens transfers
    x1, x2, ... > 0 to the module address (calls to the tokens of other registered
    pairs in between): the receipt carries one Transfer-to-module log per transfer
    and every log converts its own amount.  Coin-origin pair: exactly X = x1 + x2 + ...
    tokens of the contract are burned and exactly X escrowed coins are paid to it *)
Theorem C10_hook_honest_exact_coin_batch :
  forall (cf : cfg) (s : st ledger) (a : N) (cs : list bcall) (s' : st ledger) (r : N),
    InvCoin s -> hook_active s -> Forall plain_xfer cs -> let X := zsum (mod_amounts cs) in
    batch_tx HT cf s a cs = (s', r) ->
    (r <> OK /\ s' = s) \/
    (r = OK /\ X <= zget (lbal (tok s)) SCRIPT /\ same_pair s s' /\
     tok_moves s s' (fun c => - X * ind SCRIPT c) /\ ltotal (tok s') = ltotal (tok s) - X /\
     coin_moves s s' (fun c => X * ind SCRIPT c - X * ind MODULE c) /\ supply s' = supply s).
Proof. exact hook_honest_exact_coin_batch. Qed.
Print Assumptions C10_hook_honest_exact_coin_batch.

(** token-origin pair: X tokens move from the contract to the module, exactly X coins are minted to it *)
Theorem C10_hook_honest_exact_ext_batch :
  forall (cf : cfg) (s : st ledger) (a : N) (cs : list bcall) (s' : st ledger) (r : N),
    InvExt s -> hook_active s -> Forall plain_xfer cs -> hook_ext cf = true ->
    0 <= zget (cbal s) MODULE -> 0 <= zget (lbal (tok s)) SCRIPT ->
    let X := zsum (mod_amounts cs) in
    batch_tx HT cf s a cs = (s', r) ->
    (r <> OK /\ s' = s) \/
    (r = OK /\ X <= zget (lbal (tok s)) SCRIPT /\ same_pair s s' /\
     tok_moves s s' (fun c => X * ind MODULE c - X * ind SCRIPT c) /\ ltotal (tok s') = ltotal (tok s) /\
     coin_moves s s' (fun c => X * ind SCRIPT c) /\ supply s' = supply s + X).
Proof. exact hook_honest_exact_ext_batch. Qed.
Print Assumptions C10_hook_honest_exact_ext_batch.

(** ANY list of calls of the contract (any recipients, tolerated failures): the
    transaction keeps both backing invariants (these are the [Batch] cases of
    C10_backing_coin_step / C10_backing_ext_step) *)
Theorem C10_batch_keeps_backing_coin :
  forall (cf : cfg) (s : st ledger) (a : N) (cs : list bcall) (s' : st ledger) (r : N),
    InvCoin s -> batch_tx HT cf s a cs = (s', r) -> InvCoin s' /\ gap s' = gap s.
Proof. exact coin_batch. Qed.
Print Assumptions C10_batch_keeps_backing_coin.

Theorem C10_batch_keeps_backing_ext :
  forall (cf : cfg) (s : st ledger) (a : N) (cs : list bcall) (s' : st ledger) (r : N),
    InvExt s -> batch_tx HT cf s a cs = (s', r) -> InvExt s'.
Proof. exact ext_batch. Qed.
Print Assumptions C10_batch_keeps_backing_ext.

(** finding K7 (known, class erc20:external-token-fake-transfer-log): against a
    registered external token that only emits Transfer(caller, module, 1000) the
    pinned hook mints 1000 coins to the caller: supply 0 -> 1000, nothing escrowed *)
Theorem C10_hook_external_log_only_refuted :
  let s' := fst (step fakelog_token impl k7_state (Eth 1 UOther)) in
  snd (step fakelog_token impl k7_state (Eth 1 UOther)) = OK /\
  supply k7_state = 0 /\ supply s' = 1000 /\ zget (cbal s') 1 = 1000 /\
  balance_of fakelog_token (tok k7_state) MODULE = None /\ balance_of fakelog_token (tok s') MODULE = None.
Proof. exact hook_external_log_only_refuted. Qed.
Print Assumptions C10_hook_external_log_only_refuted.

(** the same against a token that behaved honestly first (delayed-malicious): the
    module's token balance is reported as 0, 33 coins exist ... *)
Theorem C10_hook_external_delayed_refuted :
  let s' := run cham_token impl k7_delayed (init false ∅ 0 (mkcham 0 ∅ 0 true)) in
  supply s' = 33 /\ zget (cbal s') 1 = 33 /\
  balance_of cham_token (tok s') MODULE = Some 0 /\ balance_of cham_token (tok s') 1 = Some 90.
Proof. exact hook_external_delayed_refuted. Qed.
Print Assumptions C10_hook_external_delayed_refuted.

(** ... while the message path refuses the very same token (post-condition balance check) *)
Theorem C10_message_path_rejects_fake_transfer :
  let s := run cham_token impl [Eth 1 (UMint 1 100); Eth 1 (UMode 1)] (init false ∅ 0 (mkcham 0 ∅ 0 true)) in
  snd (step cham_token impl s (CE 1 1 33)) = EBalance.
Proof. exact message_path_rejects_fake_transfer. Qed.
Print Assumptions C10_message_path_rejects_fake_transfer.

(** what the property demands instead: in the semantics without the log-driven
    mint for external pairs EVERY coin creation of EVERY operation is witnessed by
    the token reporting the same amount arriving at the module — against ANY token *)
Theorem C10_mint_witnessed_spec :
  forall (T : Type) (tk : token T) (cf : cfg) (s : st T) (o : op) (s' : st T) (r : N),
    hook_ext cf = false -> own_mod s = false -> step tk cf s o = (s', r) -> mint_witnessed tk s s'.
Proof. exact @mint_witnessed_spec. Qed.
Print Assumptions C10_mint_witnessed_spec.

Theorem C10_mint_witnessed_impl_refuted :
  ~ mint_witnessed fakelog_token k7_state (fst (step fakelog_token impl k7_state (Eth 1 UOther))).
Proof. exact mint_witnessed_impl_refuted. Qed.
Print Assumptions C10_mint_witnessed_impl_refuted.

(** ** finding K19: a conversion that enters through the EVM hook is not monitored for Approval events

    [approve_token] is /repo/contracts/ERC20MaliciousDelayed.sol WITH the allowances it hands out:
    every transfer(recipient, x) first sets allowance(recipient, thief) = 10^18 and emits Approval.
    [peg_backed tk s] is the state clause of the property against any token oracle: coin-origin pair:
    total supply <= coins escrowed in the module account; ERC20-origin pair: coin supply <= the
    balance the token reports for the module. *)

(** finding K19 (known, class erc20:hook-path-conversion-grants-allowance-on-module-tokens): there is a
    history - the deployer mints 1000 tokens to holder 1; holder 1 sends the Ethereum transaction
    token.transfer(module address, 100); the thief calls transferFrom(module, thief, 100) - every step
    of which succeeds in the semantics of /repo, after whose second step the pair is backed (100 coins,
    100 tokens in escrow, on which the thief holds an allowance of 10^18) and after which 100 coins
    circulate while the token reports 0 for the module: the backing invariant fails *)
Theorem C10_hook_path_approving_token_breaks_backing_refuted :
  exists h : list op,
    let s1 := run approve_token impl (firstn 2 h) approve0 in
    let s' := run approve_token impl h approve0 in
    peg_backed approve_token approve0 /\
    codes approve_token impl h approve0 = [OK; OK; OK] /\
    peg_backed approve_token s1 /\ supply s1 = 100 /\ zget (aallow (tok s1)) MODULE = 10 ^ 18 /\
    reg s' = true /\ en s' = true /\ own_mod s' = false /\
    supply s' = 100 /\ zget (cbal s') 1 = 100 /\
    balance_of approve_token (tok s') MODULE = Some 0 /\ balance_of approve_token (tok s') THIEF = Some 100 /\
    ~ peg_backed approve_token s'.
Proof. exact hook_path_approving_token_breaks_backing_refuted. Qed.
Print Assumptions C10_hook_path_approving_token_breaks_backing_refuted.

(** the same history in the semantics the property demands ([spec]: no log-driven mint for externally
    owned pairs): no coin is created, the pair stays backed *)
Theorem C10_hook_path_approving_token_spec :
  let s' := run approve_token spec k19_history approve0 in
  codes approve_token spec k19_history approve0 = [OK; OK; OK] /\ supply s' = 0 /\ peg_backed approve_token s'.
Proof. exact hook_path_approving_token_spec. Qed.
Print Assumptions C10_hook_path_approving_token_spec.

(** the positive counterpart: the MESSAGE path refuses this token in EVERY state of an ERC20-origin pair
    (any sender, receiver, amount): MsgConvertERC20 and MsgConvertCoin fail without effect (the
    Approval monitor, when every other check passes) ... *)
Theorem C10_message_path_refuses_approving_token :
  forall (s : st apl) (a b : N) (x : Z), own_mod s = false ->
    (exists r, msg_convert_erc20 approve_token s a b x = (s, r) /\ r <> OK) /\
    (exists r, msg_convert_coin approve_token s a b x = (s, r) /\ r <> OK).
Proof. exact message_path_refuses_approving_token. Qed.
Print Assumptions C10_message_path_refuses_approving_token.

(** ... so over ALL histories without an Ethereum transaction (messages, the MsgSend wrapper, the IBC
    callbacks, toggles, parameter changes, the environment's credits AND any spends of the thief), from
    ANY state in which the module's tokens carry no allowance and back the coins (any balances, any
    allowances on the holders' own tokens), in either semantics, the pair stays backed and the
    module's tokens stay free of allowances *)
Theorem C10_message_paths_keep_backing_against_approving_token :
  forall (cf : cfg) (ops : list op) (s : st apl), InvA s -> Forall not_eth ops ->
    InvA (run approve_token cf ops s) /\ peg_backed approve_token (run approve_token cf ops s).
Proof. exact message_paths_keep_backing_against_approving_token. Qed.
Print Assumptions C10_message_paths_keep_backing_against_approving_token.

(** for the honest token the general state clause is [backing_inv] *)
Theorem C10_state_clause_of_honest_token :
  forall s : st ledger, peg_backed HT s <-> backing_inv s.
Proof. exact peg_backed_honest. Qed.
Print Assumptions C10_state_clause_of_honest_token.

(** non-vacuity: the hypotheses hold after the deployer has handed out tokens; the conversion
    attempts of a message-path history are refused by the monitor, the thief can spend what a holder
    received (120 of holder 2's tokens) but nothing of the module's, no coin exists *)
Theorem C10_nonvacuous_message_paths_approving_token :
  let s := run approve_token impl [Eth DEPLOYER (UMint 1 1000); Eth 1 (UTransfer 2 300)] approve0 in
  let h := [CE 1 1 100; Spend MODULE 5; Spend 2 120; Toggle; CE 2 2 10; Toggle; Send 1 2 7] in
  InvA s /\ Forall not_eth h /\
  codes approve_token impl h s = [EApproval; EOther; OK; OK; EDisabled; OK; EApproval] /\
  balance_of approve_token (tok (run approve_token impl h s)) THIEF = Some 120 /\
  supply (run approve_token impl h s) = 0.
Proof. exact message_paths_nonvacuous. Qed.
Print Assumptions C10_nonvacuous_message_paths_approving_token.

(** repaired defect (fix: 1c369cb): before the fix the MsgSend wrapper reported
    success when the token's transfer() answered false: nothing moved ... *)
Theorem C10_wrapper_false_return_refuted :
  let '(s', r) := msg_send cham_token pre_fix wrap_state 1 2 7 in
  r = OK /\ s' = wrap_state /\
  balance_of cham_token (tok s') 2 = Some 0 /\ balance_of cham_token (tok s') 1 = Some 10.
Proof. exact wrapper_false_return_refuted. Qed.
Print Assumptions C10_wrapper_false_return_refuted.

(** ... now the same message fails without effect *)
Theorem C10_wrapper_false_return_fixed :
  msg_send cham_token impl wrap_state 1 2 7 = (wrap_state, EFalse).
Proof. exact wrapper_false_return_fixed. Qed.
Print Assumptions C10_wrapper_false_return_fixed.

(** ** non-vacuity *)

(** the hypotheses are satisfiable and every conversion path succeeds somewhere *)
Theorem C10_nonvacuous_coin_origin :
  fresh coin0 /\ own_mod coin0 = true /\
  codes HT impl coin_history coin0 = [OK; OK; OK; OK; OK; OK; OK; OK; OK; OK; EDisabled] /\
  observe HT (run HT impl coin_history coin0) OK =
    mkobs OK true false true true [84; 0; 0; 35; 0; 0; 0; 0] 120
          [Some 0; Some 10; Some 29; Some 40; Some 0; Some 0; Some 0; Some 0] (Some 79) true /\
  holder_burns impl coin_history coin0 = 5.
Proof. exact (conj coin0_fresh (conj eq_refl coin_history_runs)). Qed.
Print Assumptions C10_nonvacuous_coin_origin.

Theorem C10_nonvacuous_token_origin :
  fresh ext0 /\ own_mod ext0 = false /\
  codes HT impl ext_history ext0 = [OK; OK; OK; OK; OK; OK; OK; EOther] /\
  observe HT (run HT impl ext_history ext0) OK =
    mkobs OK true true true true [0; 65; 10; 0; 0; 0; 0; 0] 75
          [Some 75; Some 200; Some 125; Some 100; Some 0; Some 0; Some 0; Some 0] (Some 500) true.
Proof. exact (conj ext0_fresh (conj eq_refl ext_history_runs)). Qed.
Print Assumptions C10_nonvacuous_token_origin.

(** several transfers to the module in ONE transaction: the hypotheses of the two
    batch theorems are satisfiable and the transaction succeeds (5 + 7 on a coin-origin
    pair: escrow = totalSupply = 88 afterwards, 12 coins paid to the contract) *)
Theorem C10_nonvacuous_batch_coin :
  InvCoin coin_batch_state /\ hook_active coin_batch_state /\ Forall plain_xfer coin_batch_calls /\
  zsum (mod_amounts coin_batch_calls) = 12 /\
  snd (step HT impl coin_batch_state (Batch 1 coin_batch_calls)) = OK /\
  observe HT coin_batch_state OK =
    mkobs OK true true true true [100; 0; 0; 0; 0; 0; 0; 0] 101
          [Some 0; Some 88; Some 0; Some 0; Some 0; Some 0; Some 0; Some 12] (Some 100) true /\
  observe HT (fst (step HT impl coin_batch_state (Batch 1 coin_batch_calls))) OK =
    mkobs OK true true true true [88; 0; 0; 0; 0; 0; 0; 12] 101
          [Some 0; Some 88; Some 0; Some 0; Some 0; Some 0; Some 0; Some 0] (Some 88) true.
Proof. exact coin_batch_runs. Qed.
Print Assumptions C10_nonvacuous_batch_coin.

Theorem C10_nonvacuous_batch_token_origin :
  InvExt ext_batch_state /\ hook_active ext_batch_state /\
  snd (step HT impl ext_batch_state (Batch 2 ext_batch_calls)) = OK /\
  observe HT (fst (step HT impl ext_batch_state (Batch 2 ext_batch_calls))) OK =
    mkobs OK true true true true [0; 0; 0; 0; 0; 0; 0; 26] 26
          [Some 26; Some 450; Some 0; Some 4; Some 0; Some 0; Some 0; Some 20] (Some 500) true /\
  step HT impl ext_batch_state (Batch 2 [BXfer MODULE 20 false; BXfer MODULE 100 false]) = (ext_batch_state, EVMFail) /\
  Forall plain_xfer [BXfer MODULE 20 false; BXfer MODULE 6 false] /\
  snd (step HT impl ext_batch_state (Batch 2 [BXfer MODULE 20 false; BXfer MODULE 6 false])) = OK.
Proof. exact ext_batch_runs. Qed.
Print Assumptions C10_nonvacuous_batch_token_origin.

(** a self-destructed token contract: the next conversion only drops the pair *)
Theorem C10_selfdestructed_pair_dropped :
  let s := run cham_token impl [Eth 1 (UMint 1 100); CE 1 1 60; Eth 2 UKill] (init false ∅ 0 (mkcham 0 ∅ 0 true)) in
  let '(s', r) := step cham_token impl s (CC 1 1 10) in
  r = OK /\ reg s = true /\ reg s' = false /\ supply s' = supply s /\ supply s = 60 /\ cbal s' = cbal s.
Proof. exact selfdestructed_pair_dropped. Qed.
Print Assumptions C10_selfdestructed_pair_dropped.

(** ** ONE receipt with the logs of SEVERAL token contracts

    [world] = per token contract (id) its pair state: [reg = false]: the contract is not
    a registered pair; [en = false]: registered but disabled.  A [clog] is a log together
    with the contract that emitted it.  [mhook_log tkof cf w l] looks the pair up by the
    log's contract ([lookup_pair w (lc l)]), skips the log when there is none and converts
    for that pair only; [mhook_logs] = the hook over a whole receipt; [mcalls] = the calls
    of the script contract (token.transfer / token.transferFrom on any of the contracts, in
    the scripted order); [multi_tx] = the whole Ethereum transaction.  [tkof c] is the
    behaviour of the token contract [c]: ANY token for contracts that are not registered. *)

(** a log of a contract that is not a registered pair changes no pair ... *)
Theorem C10_log_of_unregistered_contract_changes_nothing :
  forall (tkof : N -> token ledger) (cf : cfg) (w : gmap N (st ledger)) (l : clog),
    lookup_pair w (lc l) = None -> mhook_log tkof cf w l = Some w.
Proof. exact mhook_log_unregistered. Qed.
Print Assumptions C10_log_of_unregistered_contract_changes_nothing.

(** ... neither does a log of a registered but disabled pair *)
Theorem C10_log_of_disabled_pair_changes_nothing :
  forall (tkof : N -> token ledger) (cf : cfg) (w : gmap N (st ledger)) (l : clog) (s : st ledger),
    w !! lc l = Some s -> en s = false -> mhook_log tkof cf w l = Some w.
Proof. exact mhook_log_disabled. Qed.
Print Assumptions C10_log_of_disabled_pair_changes_nothing.

(** a log of the contract of pair p is processed by p's hook on p's state and changes no other pair *)
Theorem C10_log_changes_only_its_own_pair :
  forall (tkof : N -> token ledger) (cf : cfg) (w w' : gmap N (st ledger)) (l : clog),
    mhook_log tkof cf w l = Some w' ->
    (forall c, c <> lc l -> w' !! c = w !! c) /\
    (forall s, lookup_pair w (lc l) = Some s ->
       exists s', hook_log (tkof (lc l)) cf s (ll l) = Some s' /\ w' = <[lc l := s']> w).
Proof.
  exact (fun tkof cf w w' l H => conj (mhook_log_frame tkof cf w l w' H)
                                      (fun s Hs => mhook_log_pair tkof cf w l s w' Hs H)).
Qed.
Print Assumptions C10_log_changes_only_its_own_pair.

(** ... by exactly its amount: coin-origin pair (honest token): x tokens of the module
    burned, x escrowed coins paid to the log's sender, nothing else *)
Theorem C10_log_converts_exactly_its_amount_coin :
  forall (tkof : N -> token ledger) (cf : cfg) (w : gmap N (st ledger)) (l : clog) (s : st ledger) (from : N) (x : Z),
    lookup_pair w (lc l) = Some s -> tkof (lc l) = HT -> InvCoin s -> en s = true ->
    ll l = tlog from MODULE x -> 0 < x -> x <= zget (lbal (tok s)) MODULE -> from <> MODULE ->
    exists s', mhook_log tkof cf w l = Some (<[lc l := s']> w) /\ InvCoin s' /\ same_pair s s' /\
      tok_moves s s' (fun c => - x * ind MODULE c) /\ ltotal (tok s') = ltotal (tok s) - x /\
      coin_moves s s' (fun c => x * ind from c - x * ind MODULE c) /\ supply s' = supply s.
Proof. exact mhook_log_exact_coin. Qed.
Print Assumptions C10_log_converts_exactly_its_amount_coin.

(** token-origin pair: x coins minted to the log's sender, the token untouched (or the
    sdk.Int overflow panic, which reverts the transaction) *)
Theorem C10_log_converts_exactly_its_amount_ext :
  forall (tkof : N -> token ledger) (cf : cfg) (w : gmap N (st ledger)) (l : clog) (s : st ledger) (from : N) (x : Z),
    lookup_pair w (lc l) = Some s -> tkof (lc l) = HT -> own_mod s = false -> en s = true -> hook_ext cf = true ->
    ll l = tlog from MODULE x -> 0 < x -> 0 <= zget (cbal s) MODULE -> from <> MODULE ->
    match mhook_log tkof cf w l with
    | None => MAXU < supply s + x
    | Some w' => exists s', w' = <[lc l := s']> w /\ same_pair s s' /\ tok s' = tok s /\
                   coin_moves s s' (fun c => x * ind from c) /\ supply s' = supply s + x
    end.
Proof. exact mhook_log_exact_ext. Qed.
Print Assumptions C10_log_converts_exactly_its_amount_ext.

(** ALL log sequences, any interleaving of any contracts: the pair registered for
    contract p ends exactly where p's own hook ends on the sub-sequence of p's logs
    ([proj p logs]); a contract that is not a registered pair is not touched.  Every
    per-pair theorem above therefore holds inside any receipt. *)
Theorem C10_interleaved_logs_act_per_pair :
  forall (tkof : N -> token ledger) (cf : cfg) (logs : list clog) (w w' : gmap N (st ledger)),
    mhook_logs tkof cf w logs = Some w' -> forall p,
    match lookup_pair w p with
    | Some s => exists s', fold_left (fun acc l => match acc with None => None | Some s => hook_log (tkof p) cf s l end)
                                     (proj p logs) (Some s) = Some s' /\ w' !! p = Some s'
    | None => w' !! p = w !! p
    end.
Proof. exact mhook_logs_proj. Qed.
Print Assumptions C10_interleaved_logs_act_per_pair.

(** ... hence the result does not depend on the logs of unregistered or disabled
    contracts: erasing them from the receipt gives the same final state *)
Theorem C10_ignored_logs_can_be_erased :
  forall (tkof : N -> token ledger) (cf : cfg) (logs : list clog) (w : gmap N (st ledger)),
    mhook_logs tkof cf w logs = mhook_logs tkof cf w (keep (live w) logs).
Proof. exact mhook_logs_erase_ignored. Qed.
Print Assumptions C10_ignored_logs_can_be_erased.

(** ... and the backing of every coin-origin pair (honest token) survives ANY sequence of
    logs of ANY contracts, whatever they claim: totalSupply <= escrow afterwards, the gap
    never shrinks, and is unchanged unless a log names the module account as the sender *)
Theorem C10_any_logs_keep_coin_backing :
  forall (tkof : N -> token ledger) (cf : cfg) (logs : list clog) (w w' : gmap N (st ledger)) (p : N) (s : st ledger),
    mhook_logs tkof cf w logs = Some w' -> lookup_pair w p = Some s -> tkof p = HT -> InvCoin s ->
    exists s', lookup_pair w' p = Some s' /\ InvCoin s' /\ gap s <= gap s' /\
               (Forall (fun g => lfrom g <> MODULE) (proj p logs) -> gap s' = gap s).
Proof. exact mhook_logs_keeps_coin_backing. Qed.
Print Assumptions C10_any_logs_keep_coin_backing.

(** what the property demands for token-origin pairs (no log-driven mint, finding K7):
    in that semantics NO sequence of logs changes such a pair *)
Theorem C10_any_logs_leave_ext_pairs_alone_spec :
  forall (tkof : N -> token ledger) (cf : cfg) (logs : list clog) (w w' : gmap N (st ledger)) (p : N) (s : st ledger),
    hook_ext cf = false -> mhook_logs tkof cf w logs = Some w' -> lookup_pair w p = Some s -> own_mod s = false ->
    w' !! p = Some s.
Proof. exact mhook_logs_ext_untouched_spec. Qed.
Print Assumptions C10_any_logs_leave_ext_pairs_alone_spec.

(** the whole transaction, either semantics: ANY list of transfer / transferFrom calls
    on ANY mix of contracts in ANY order; the registered pairs have honest tokens, the
    contracts that are not registered pairs are ARBITRARY token behaviours (they may emit
    whatever Transfer events they like, to the module address included): every
    registered pair of either origin is backed afterwards ... *)
Theorem C10_multi_contract_tx_keeps_backing :
  forall (tkof : N -> token ledger) (cf : cfg) (on : bool) (w : gmap N (st ledger)) (signer : N) (cs : list mcall)
         (w' : gmap N (st ledger)) (r : N) (logs : list clog),
    (forall c s, lookup_pair w c = Some s -> tkof c = HT) ->
    Forall (fun c => mc_from c <> MODULE) cs -> WInv w ->
    multi_tx tkof cf on w signer cs = (w', r, logs) -> WInv w'.
Proof. exact multi_tx_keeps_backing. Qed.
Print Assumptions C10_multi_contract_tx_keeps_backing.

(** ... and an unregistered contract's denomination, registry entry and flags are
    exactly as before: only its own token state can have moved *)
Theorem C10_multi_contract_tx_unregistered_frame :
  forall (tkof : N -> token ledger) (cf : cfg) (on : bool) (w : gmap N (st ledger)) (signer : N) (cs : list mcall)
         (w' : gmap N (st ledger)) (r : N) (logs : list clog) (p : N) (s : st ledger),
    multi_tx tkof cf on w signer cs = (w', r, logs) -> w !! p = Some s -> reg s = false ->
    exists t1, w' !! p = Some (set_tok s t1).
Proof. exact multi_tx_unregistered_frame. Qed.
Print Assumptions C10_multi_contract_tx_unregistered_frame.

(** refutation of a lookup that REMEMBERS the pair of the previous log's contract and
    does not forget it on a registry miss ([memo_hook_logs]; not the code of /repo): on
    the receipt [A; B; B] (A a registered coin-origin pair with escrow 100 = totalSupply
    100, B an unregistered honest ERC20, both B logs Transfer(holder 1, module, 25)) B's
    second log is converted for pair A: escrow 75 < totalSupply 100, holder 1 got 25
    coins for 25 burned B tokens; /repo's per-log lookup leaves A alone *)
Theorem C10_memoised_pair_lookup_refuted :
  let '(w1, logs) := after_calls (abb_calls 1) in
  match memo_hook_logs tk_of impl w1 None None logs with
  | Some w2 => view w2 1 = Some (75, 100, 25, 100, 0) /\ backed w2 1 = false /\ view w2 4 = Some (0, 0, 0, 55, 25)
  | None => False
  end.
Proof. exact abb_memo_refuted_coin. Qed.
Print Assumptions C10_memoised_pair_lookup_refuted.

Theorem C10_per_log_lookup_on_A_B_B :
  let '(w1, logs) := after_calls (abb_calls 1) in
  logs = [mkclog 1 (tlog 1 2 10); mkclog 4 (tlog 1 MODULE 25); mkclog 4 (tlog 1 MODULE 25)] /\
  match mhook_logs tk_of impl w1 logs with
  | Some w2 => view w2 1 = Some (100, 100, 0, 100, 0) /\ backed w2 1 = true /\ view w2 4 = Some (0, 0, 0, 80, 50)
  | None => False
  end.
Proof. exact abb_faithful_coin. Qed.
Print Assumptions C10_per_log_lookup_on_A_B_B.

(** the same with a token-origin A: 25 coins minted for B's second log: coin supply 65 >
    40 tokens held by the module; /repo: supply stays 40 *)
Theorem C10_memoised_pair_lookup_refuted_token_origin :
  let '(w1, logs) := after_calls (abb_calls 2) in
  match memo_hook_logs tk_of impl w1 None None logs with
  | Some w2 => view w2 2 = Some (0, 65, 25, 100, 40) /\ backed w2 2 = false
  | None => False
  end.
Proof. exact abb_memo_refuted_ext. Qed.
Print Assumptions C10_memoised_pair_lookup_refuted_token_origin.

Theorem C10_per_log_lookup_on_A_B_B_token_origin :
  let '(w1, logs) := after_calls (abb_calls 2) in
  match mhook_logs tk_of impl w1 logs with
  | Some w2 => view w2 2 = Some (0, 40, 0, 100, 40) /\ backed w2 2 = true
  | None => False
  end.
Proof. exact abb_faithful_ext. Qed.
Print Assumptions C10_per_log_lookup_on_A_B_B_token_origin.

(** the neighbours [B; B; A], [A; B], [A; B; A; B]: there the remembering lookup and the
    per-log lookup agree (and A stays backed): the witness above is minimal *)
Theorem C10_memoised_lookup_agrees_on_neighbours :
  Forall (fun cs => let '(w1, logs) := after_calls cs in
                    views (memo_hook_logs tk_of impl w1 None None logs) = views (mhook_logs tk_of impl w1 logs) /\
                    match mhook_logs tk_of impl w1 logs with Some w2 => backed w2 1 = true | None => False end)
         [bba_calls; ab_calls; abab_calls].
Proof. exact memo_agrees_on_neighbours. Qed.
Print Assumptions C10_memoised_lookup_agrees_on_neighbours.

(** non-vacuity: the hypotheses of C10_multi_contract_tx_keeps_backing hold for a world
    with a coin-origin pair (1), a token-origin pair (2), a disabled pair (3) and an
    unregistered ERC20 (4); the receipt [1; 4; 4; 1; 2; 3; 4; 2] converts exactly the
    to-module logs of the two live pairs (10 + 5 and 7), and erasing the logs of 3 and 4
    gives the same result *)
Theorem C10_nonvacuous_multi_contract_tx :
  WInv wit_world /\ (forall c s, lookup_pair wit_world c = Some s -> tk_of c = HT) /\
  Forall (fun c => mc_from c <> MODULE) mix_calls /\
  let '(w', r, logs) := multi_tx tk_of impl true wit_world 1 mix_calls in
  r = OK /\ map lc logs = [1; 4; 4; 1; 2; 3; 4; 2]%N /\
  view w' 1 = Some (85, 100, 15, 85, 0) /\ view w' 2 = Some (0, 47, 7, 100, 47) /\
  view w' 3 = Some (30, 30, 0, 30, 9) /\ view w' 4 = Some (0, 0, 0, 80, 50) /\
  views (mhook_logs tk_of impl (fst (after_calls mix_calls)) logs)
    = views (mhook_logs tk_of impl (fst (after_calls mix_calls)) (keep (fun l => N.eqb (lc l) 1 || N.eqb (lc l) 2) logs)).
Proof. exact mix_runs. Qed.
Print Assumptions C10_nonvacuous_multi_contract_tx.

(** ** equivalent spellings of the same message

    Addresses and token identifiers reach the chain as strings.  [step_sp tk cf s sp o] is the
    step function the correspondence evaluates: the operation [o] (RESOLVED actors) together with
    the spelling [sp] of its string fields (hex: EIP-55 / lower / upper / wrong checksum / without
    0x / 0X; bech32: lower / upper / another prefix / hex / mixed; token: denomination or the
    contract address in any hex spelling; see PegModel.v).  The conversion functions take
    addresses, not strings: *)

(** the outcome of a message is a function of the resolved operation: any two spellings the
    chain's parsing accepts give the same state and the same result, namely [step] *)
Theorem C10_outcome_independent_of_spelling :
  forall (T : Type) (tk : token T) (cf : cfg) (s : st T) (sp1 sp2 : spell) (o : op),
    spell_ok o sp1 = true -> spell_ok o sp2 = true ->
    step_sp tk cf s sp1 o = step_sp tk cf s sp2 o /\ step_sp tk cf s sp1 o = step tk cf s o.
Proof. exact @outcome_independent_of_spelling. Qed.
Print Assumptions C10_outcome_independent_of_spelling.

(** which spellings are accepted: every hex spelling of every hex field (letter case, checksum,
    prefix) and the upper-case bech32 spelling of the message fields (the receiver of a received
    ICS-20 packet: lower case only) *)
Theorem C10_hex_spellings_and_letter_case_accepted :
  forall (o : op) (c a b : N), (c < 7)%N -> (a < 2)%N -> (b < 2)%N ->
    match o with Recv _ _ _ _ _ => b = 0%N | _ => True end -> spell_ok o (mkspell c a b) = true.
Proof. exact spell_ok_hex_and_case. Qed.
Print Assumptions C10_hex_spellings_and_letter_case_accepted.

(** a spelling the parsing refuses does nothing the canonical spelling would not do: the
    message fails without effect (or the callback never reads the string) *)
Theorem C10_refused_spelling_no_effect :
  forall (T : Type) (tk : token T) (cf : cfg) (s : st T) (sp : spell) (o : op),
    spell_ok o sp = false ->
    step_sp tk cf s sp o = step tk cf s o \/
    (fst (step_sp tk cf s sp o) = s /\ snd (step_sp tk cf s sp o) <> OK).
Proof. exact @step_sp_refused. Qed.
Print Assumptions C10_refused_spelling_no_effect.

Theorem C10_failed_written_message_no_effect :
  forall (T : Type) (tk : token T) (cf : cfg) (s : st T) (sp : spell) (o : op) (s' : st T) (r : N),
    step_sp tk cf s sp o = (s', r) -> r <> OK -> s' = s.
Proof. exact @failed_step_sp_no_effect. Qed.
Print Assumptions C10_failed_written_message_no_effect.

(** honest token: the backing invariant over ALL histories of written messages, whatever the
    spellings (accepted or refused) *)
Theorem C10_backing_inv_all_spelled_histories :
  forall (cf : cfg) (h : list (spell * op)) (s : st ledger), fresh s -> backing_inv (run_sp HT cf h s).
Proof. exact backing_inv_all_spelled_histories. Qed.
Print Assumptions C10_backing_inv_all_spelled_histories.

Theorem C10_accepted_spellings_run_like_resolved_history :
  forall (T : Type) (tk : token T) (cf : cfg) (h : list (spell * op)) (s : st T),
    Forall (fun e => spell_ok (snd e) (fst e) = true) h -> run_sp tk cf h s = run tk cf (map snd h) s.
Proof. exact @run_sp_accepted. Qed.
Print Assumptions C10_accepted_spellings_run_like_resolved_history.

(** the delayed-malicious token of /repo/contracts: MsgConvertERC20 is refused (unexpected
    Approval event) in every accepted spelling of contract, sender and receiver *)
Theorem C10_delayed_malicious_refused_in_every_spelling :
  forall c a b, In c [0; 1; 2; 3; 4; 5; 6]%N -> In a [0; 1; 2; 3; 4; 5; 6]%N -> In b [0; 1]%N ->
    step_sp (preset_token approve_transfer) impl approve_state (mkspell c a b) (CE 1 1 40) = (approve_state, EApproval).
Proof. exact approve_token_refused_in_every_spelling. Qed.
Print Assumptions C10_delayed_malicious_refused_in_every_spelling.

(** refutation witness (NOT the code of /repo): an Approval monitor that compares the emitting
    contract with the message's contract address as STRINGS refuses the canonical spelling and
    converts in the lower-case one *)
Theorem C10_spelling_dependent_monitor_refuted :
  let tk := preset_token approve_transfer in
  snd (ce_native_token_strcmp tk approve_state csp 1 1 40) = EApproval /\
  snd (ce_native_token_strcmp tk approve_state (mkspell 1 0 0) 1 1 40) = OK /\
  supply (fst (ce_native_token_strcmp tk approve_state (mkspell 1 0 0) 1 1 40)) = 40 /\
  ce_native_token_strcmp tk approve_state (mkspell 1 0 0) 1 1 40 <> ce_native_token tk approve_state 1 1 40 /\
  ce_native_token_strcmp tk approve_state csp 1 1 40 = ce_native_token tk approve_state 1 1 40.
Proof. exact spelling_dependent_monitor_refuted. Qed.
Print Assumptions C10_spelling_dependent_monitor_refuted.

Theorem C10_nonvacuous_spelling :
  let r := step HT impl honest_state (CE 1 2 40) in
  snd r = OK /\ supply (fst r) = 40 /\ zget (cbal (fst r)) 2 = 40 /\
  zget (lbal (tok (fst r))) MODULE = 40 /\ zget (lbal (tok (fst r))) 1 = 60 /\
  step_sp HT impl honest_state (mkspell 1 4 1) (CE 1 2 40) = r /\
  step_sp HT impl honest_state (mkspell 6 2 0) (CE 1 2 40) = r /\
  step_sp HT impl honest_state (mkspell 7 0 0) (CE 1 2 40) = (honest_state, EOther) /\
  step_sp HT impl honest_state (mkspell 0 0 4) (CE 1 2 40) = (honest_state, EOther) /\
  step_sp HT impl honest_state (mkspell 2 0 0) Toggle = step HT impl honest_state Toggle /\
  step_sp HT impl honest_state (mkspell 9 0 0) Toggle = (honest_state, ENotFound).
Proof. exact spelling_nonvacuous. Qed.
Print Assumptions C10_nonvacuous_spelling.
