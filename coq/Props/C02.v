From HV Require Import Evm.ExecModel.
