(** Property C02 — EVM execution never mints or burns the native coin.
    Only statements; each is closed by a lemma of Evm/SupplyProofs.v / Evm/JournalProofs.v. *)
From Coq Require Import ZArith List.
From stdpp Require Import gmap.
From HV Require Import Evm.ExecModel Evm.JournalProofs Evm.SupplyProofs Evm.ConservationProofs Evm.LazyProofs Evm.NoMintProofs Evm.Witnesses.
Local Open Scope Z_scope.

(** Exact accounting of the StateDB commit: for every dirty account the bank balance
    becomes the cached balance and the total supply moves by exactly the difference
    (SetBalance mints or burns it); nobody else's bank balance changes.  Hence the
    supply is conserved by a commit iff the cached balances of the dirty accounts sum
    to their bank balances — the "mirror" obligation of every precompile. *)
Theorem C02_commit_mints_or_burns_exactly_cache_minus_bank :
  forall W D a o W' D', objs D !! a = Some o -> osui o = false -> commit_one W D a = (W', D', true) ->
    zg (bank W') a = obal o /\
    supply W' = supply W + (obal o - zg (bank W) a) /\
    (forall b, b <> a -> zg (bank W') b = zg (bank W) b).
Proof. exact commit_one_exact. Qed.
Print Assumptions C02_commit_mints_or_burns_exactly_cache_minus_bank.

(** ... and a self-destructed contract is deleted: exactly its bank balance is burned (the
    sanctioned burn; nothing when its account is gone already), nobody else's balance moves. *)
Theorem C02_commit_of_self_destructed_contract_burns_exactly_its_balance :
  forall W D a o W' D' ok, objs D !! a = Some o -> osui o = true -> commit_one W D a = (W', D', ok) ->
    ok = true /\ D' = D /\ a ∉ wexists W' /\
    (a ∈ wexists W -> zg (bank W') a = 0 /\ supply W' = supply W - zg (bank W) a) /\
    (a ∉ wexists W -> W' = W) /\
    (forall b, b <> a -> zg (bank W') b = zg (bank W) b).
Proof. exact commit_one_suicided_exact. Qed.
Print Assumptions C02_commit_of_self_destructed_contract_burns_exactly_its_balance.

(** The supply delta of a whole commit, for ANY cache and ANY program that produced it:
    the sum, over the dirty accounts, of cached balance minus bank balance (minus the bank
    balance for a self-destructed contract, see [gap1]). *)
Theorem C02_commit_supply_delta_formula :
  forall order W D W' D', NoDup order -> commit_list W D order = (W', D', true) ->
    supply W' = supply W + lsumz (gap1 W D) order.
Proof. exact commit_supply_formula. Qed.
Print Assumptions C02_commit_supply_delta_formula.

(** The flush every stateful precompile performs before it touches the Cosmos side: after a successful
    commit the bank agrees with the cache on every dirty, live account.  This is what makes the
    "mirror" discipline necessary and sufficient: from here on, a bank change to a cached account that
    is not mirrored into the cache by exactly the same amount is overwritten by the next commit. *)
Theorem C02_commit_syncs_bank_with_cache_on_dirty_accounts :
  forall order W D W' D', NoDup order -> commit_list W D order = (W', D', true) ->
    forall a o, a ∈ order -> is_Some (dirties D !! a) -> objs D !! a = Some o -> osui o = false ->
      zg (bank W') a = obal o.
Proof. exact commit_syncs_dirty. Qed.
Print Assumptions C02_commit_syncs_bank_with_cache_on_dirty_accounts.

(** Every pure EVM transaction without SELFDESTRUCT — any call tree of value transfers between any of the
    accounts, storage writes, logs, contract creations (CREATE with any endowment, at any depth, constructors
    running any such code, at addresses that hold coins already, failing or succeeding), reverts at any
    place with catching or propagating callers, any amounts — leaves the total supply of the native coin unchanged.  This
    is about the real transaction function [run_tx] (empty cache, lazy loading, final
    commit); [closedb order] only says that the commit's address list contains every
    call target and every creation address, [world_ok] that non-existing accounts hold no coins. *)
Theorem C02_pure_transaction_conserves_supply :
  forall order W0 value c body,
    NoDup order -> world_ok W0 -> (forall a, a ∈ wexists W0 -> a ∈ order) -> 0%N ∈ order -> c ∈ order ->
    forallb pure body = true -> forallb nosd body = true -> forallb (closedb order) body = true ->
    supply (fst (run_tx order W0 value (TopCall c body))) = supply W0.
Proof. exact pure_run_tx_conserves_supply. Qed.
Print Assumptions C02_pure_transaction_conserves_supply.

(** With SELFDESTRUCT anywhere in the call tree (self-beneficiary, repeated, inside reverted frames,
    value sent to dead contracts, constructors that self-destruct, re-creation over a destroyed
    contract): pure EVM code NEVER MINTS.  The supply after the transaction is at
    most the supply before; what is missing is what self-destructed contracts held when they were
    deleted, the sanctioned burn.  [okv]: call values are non-negative, call targets and beneficiaries
    are in the commit's address list; [bank_nn]: bank balances are non-negative. *)
Theorem C02_pure_transaction_never_mints :
  forall order W0 value c body,
    NoDup order -> world_ok W0 -> bank_nn W0 -> (forall a, a ∈ wexists W0 -> a ∈ order) -> 0%N ∈ order -> c ∈ order ->
    0 <= value -> forallb pure body = true -> forallb (okv order) body = true ->
    supply (fst (run_tx order W0 value (TopCall c body))) <= supply W0.
Proof. exact pure_run_tx_never_mints. Qed.
Print Assumptions C02_pure_transaction_never_mints.

(** non-vacuity: all premises hold for the state and address order the implementation ran witness
    w_sd_to_self in, and the inequality is strict there (the contract burns its 4025) *)
Theorem C02_never_mints_premises_hold_example :
  let x := w_sd_to_self in
  let W0 := wit_world x in let order := wit_order x in
  NoDup order /\ world_ok W0 /\ bank_nn W0 /\ (forall a, a ∈ wexists W0 -> a ∈ order) /\ 0%N ∈ order /\ 2%N ∈ order /\
  forallb pure [ISelfdestruct 2%N] = true /\ forallb (okv order) [ISelfdestruct 2%N] = true /\
  supply (fst (run_tx order W0 25 (TopCall 2%N [ISelfdestruct 2%N]))) < supply W0.
Proof. exact never_mints_premises_hold. Qed.
Print Assumptions C02_never_mints_premises_hold_example.

(** non-vacuity with contract creations: the premises hold for the program, state and address order of witness
    w_cr_nested_reverted_then_selfdestruct (a creation inside a reverted frame, a creation at an address that was
    sent coins before, a constructor that self-destructs to the origin), and there the supply is conserved exactly *)
Theorem C02_never_mints_premises_hold_with_creations_example :
  let x := w_cr_nested_reverted_then_selfdestruct in
  let W0 := wit_world x in let order := wit_order x in
  match e_top (fst (fst x)) with
  | TopCall t body =>
      NoDup order /\ world_ok W0 /\ bank_nn W0 /\ (forall a, a ∈ wexists W0 -> a ∈ order) /\ 0%N ∈ order /\ t ∈ order /\
      0 <= e_value (fst (fst x)) /\ forallb pure body = true /\ forallb (okv order) body = true /\
      existsb (fun i => match i with ICreate _ _ _ _ _ _ => true | _ => false end) body = true /\
      supply (fst (run_tx order W0 (e_value (fst (fst x))) (TopCall t body))) = supply W0
  | TopPre _ => False
  end.
Proof. exact never_mints_premises_hold_with_creations. Qed.
Print Assumptions C02_never_mints_premises_hold_with_creations_example.

(** Pure EVM code cannot touch the bank or the supply before the final commit. *)
Theorem C02_pure_code_never_touches_the_bank_partial :
  forall i, pure i = true -> forall order o self W D, wf W D ->
    fst (fst (exec_instr order o self i (W, D))) = W.
Proof. intros i Hp order o self W D Hwf. exact (proj1 (pure_instr_ext i Hp order o self W D Hwf)). Qed.
Print Assumptions C02_pure_code_never_touches_the_bank_partial.

(** The property is FALSE on the unchanged tree in four input classes (known findings);
    each witness pairs the input with the observation of the REAL implementation, the
    model reproduces it exactly, the transaction succeeds and the supply moves. *)
Theorem C02_rewards_paid_out_then_overwritten_refuted_K6 :
  model_obs w_k6_eoa_delegate = impl_obs w_k6_eoa_delegate /\
  b_ok (model_obs w_k6_eoa_delegate) = true /\ b_supply (model_obs w_k6_eoa_delegate) = -1499.
Proof. exact k6_refuted. Qed.
Print Assumptions C02_rewards_paid_out_then_overwritten_refuted_K6.

Theorem C02_contract_withdraws_signer_rewards_refuted_K4 :
  model_obs w_k4_origin_rewards = impl_obs w_k4_origin_rewards /\
  b_ok (model_obs w_k4_origin_rewards) = true /\ b_supply (model_obs w_k4_origin_rewards) = -1499.
Proof. exact k4_refuted. Qed.
Print Assumptions C02_contract_withdraws_signer_rewards_refuted_K4.

Theorem C02_value_to_precompile_minted_refuted_K5 :
  model_obs w_k5_value_to_precompile = impl_obs w_k5_value_to_precompile /\
  b_ok (model_obs w_k5_value_to_precompile) = true /\ b_supply (model_obs w_k5_value_to_precompile) = 7.
Proof. exact k5_refuted. Qed.
Print Assumptions C02_value_to_precompile_minted_refuted_K5.

Theorem C02_contract_delegates_for_signer_minted_refuted_K9 :
  model_obs w_k9_contract_delegates_for_origin = impl_obs w_k9_contract_delegates_for_origin /\
  b_ok (model_obs w_k9_contract_delegates_for_origin) = true /\
  b_supply (model_obs w_k9_contract_delegates_for_origin) = 154.
Proof. exact k9_refuted. Qed.
Print Assumptions C02_contract_delegates_for_signer_minted_refuted_K9.

Theorem C02_contract_transfers_for_signer_minted_refuted_K15 :
  model_obs w_k15_contract_transfers_for_origin = impl_obs w_k15_contract_transfers_for_origin /\
  b_ok (model_obs w_k15_contract_transfers_for_origin) = true /\
  b_supply (model_obs w_k15_contract_transfers_for_origin) = 154.
Proof. exact k15_refuted. Qed.
Print Assumptions C02_contract_transfers_for_signer_minted_refuted_K15.

(** SELFDESTRUCT on witnesses reproduced exactly by the model: paying out to another account conserves
    the supply; self-destructing to oneself, and value reaching a contract after its self-destruct, are
    destroyed (the only sanctioned burn); a staking call after the self-destruct cannot spend the
    balance a second time. *)
Theorem C02_selfdestruct_to_other_conserves_example :
  model_obs w_sd_to_other = impl_obs w_sd_to_other /\ b_ok (model_obs w_sd_to_other) = true /\
  b_supply (model_obs w_sd_to_other) = 0 /\ firstn 3 (b_alive (model_obs w_sd_to_other)) = [0; 2; 2] /\
  nth 1 (b_bal (model_obs w_sd_to_other)) 0 = 5025.
Proof. exact sd_to_other_conserves. Qed.
Print Assumptions C02_selfdestruct_to_other_conserves_example.

Theorem C02_selfdestruct_to_self_is_the_sanctioned_burn_example :
  model_obs w_sd_to_self = impl_obs w_sd_to_self /\ b_ok (model_obs w_sd_to_self) = true /\
  b_supply (model_obs w_sd_to_self) = -4025.
Proof. exact sd_to_self_burns. Qed.
Print Assumptions C02_selfdestruct_to_self_is_the_sanctioned_burn_example.

Theorem C02_selfdestruct_then_delegate_cannot_spend_twice_example :
  model_obs w_sd_then_delegate = impl_obs w_sd_then_delegate /\ b_ok (model_obs w_sd_then_delegate) = true /\
  b_supply (model_obs w_sd_then_delegate) = 0 /\ nth 2 (b_deleg (model_obs w_sd_then_delegate)) 0 = 0.
Proof. exact sd_then_delegate_conserves. Qed.
Print Assumptions C02_selfdestruct_then_delegate_cannot_spend_twice_example.
