(** Property C17 — the base fee follows EIP-1559 and stays within its bounds.
    This file only states the property theorems and closes each with a lemma of
    Feemarket/BaseFeeProofs.v; [Print Assumptions] follows every theorem.

    [calc_base_fee p height max_gas g] is the model of
    x/feemarket/keeper/eip1559.go CalculateBaseFee (params [p], block height,
    consensus Block.MaxGas — [None] = no consensus params, [Some (-1)] =
    unlimited —, stored gas figure [g] of the previous block);
    [end_block_gas wanted used mult] is the figure EndBlock stores.
    All integers are unbounded ([Z]).  [target p mg] = gas limit / elasticity,
    [min_int p] = MinGasPrice.TruncateInt().

    Guards are explicit: a value is only produced when elasticity <> 0 and,
    off target, T <> 0 and denominator <> 0; with ElasticityMultiplier = 0 or
    MaxGas = 0 the Go code divides by zero ([RPanic] in the model): the
    property's formula is undefined there (out-of-domain observation). *)
From Coq Require Import ZArith List.
From HV Require Import Base.Dec Feemarket.BaseFeeModel Feemarket.BaseFeeProofs.
Import ListNotations.
Local Open Scope Z_scope.

(** The three branches exactly as stated: unchanged at target, raised by
    max(1, base*(g-T)/T/d) above it, lowered by base*(T-g)/T/d below it but not
    below the minimum gas price; for every parameter set, height, gas limit
    (configured, unlimited, absent) and gas figure. *)
Theorem C17_base_fee_formula :
  forall p h mg g v,
    calc_base_fee p h mg g = RVal v -> h <> p_enable_height p ->
    exists base, p_base_fee p = Some base /\
      let T := target p mg in let d := p_denom p in
      (g = T -> v = base) /\
      (T < g -> T <> 0 /\ d <> 0 /\ v = base + Z.max 1 (base * (g - T) / T / d) /\ base + 1 <= v) /\
      (g < T -> T <> 0 /\ d <> 0 /\ v = Z.max (base - base * (T - g) / T / d) (min_int p) /\ min_int p <= v).
Proof. exact base_fee_formula. Qed.
Print Assumptions C17_base_fee_formula.

(** ... and inside the guarded domain the call does return that value (the
    theorem above is not vacuous for any input of the domain). *)
Theorem C17_defined_in_domain :
  forall p h mg g base,
    p_no_base_fee p = false -> p_enable_height p < h -> p_base_fee p = Some base ->
    0 < p_elasticity p -> 0 < target p mg -> 0 < p_denom p -> is_uint64 (target p mg) = true ->
    calc_base_fee p h mg g = RVal (next_base_fee base g (target p mg) (p_denom p) (min_int p)).
Proof. exact calc_in_domain. Qed.
Print Assumptions C17_defined_in_domain.

(** Unlimited block gas (MaxGas = -1 or no consensus params) is a limit of
    MaxUint64, a configured limit is itself; the target always fits a uint64. *)
Theorem C17_gas_limit :
  gas_limit (Some (-1)) = max_uint64 /\ gas_limit None = max_uint64 /\
  (forall m, 0 <= m -> gas_limit (Some m) = m) /\
  (forall p mg, 0 < p_elasticity p -> (forall m, mg = Some m -> m <= max_uint64) ->
     is_uint64 (target p mg) = true).
Proof. exact gas_limit_facts. Qed.
Print Assumptions C17_gas_limit.

Theorem C17_unchanged_at_target :
  forall base T d m, next_base_fee base T T d m = base.
Proof. exact nbf_at_target. Qed.
Print Assumptions C17_unchanged_at_target.

Theorem C17_increase_at_least_one :
  forall base g T d m, T < g -> base + 1 <= next_base_fee base g T d m.
Proof. exact increase_at_least_one. Qed.
Print Assumptions C17_increase_at_least_one.

(** Below target the result is never below the integer part of the minimum gas
    price, hence less than one unit below the (decimal) price and not below it
    at all when the price is a whole number. *)
Theorem C17_decrease_floor :
  forall p h mg g v,
    calc_base_fee p h mg g = RVal v -> h <> p_enable_height p -> g < target p mg ->
    0 <= p_min_gas_price p ->
    truncate (p_min_gas_price p) <= v /\
    p_min_gas_price p < of_int (v + 1) /\
    (is_integer (p_min_gas_price p) = true -> p_min_gas_price p <= of_int v).
Proof. exact decrease_floor_dec. Qed.
Print Assumptions C17_decrease_floor.

(** The bound above is tight: a fractional minimum gas price is enforced through
    its integer part (MinGasPrice.TruncateInt()), so the fee can end below the
    decimal price by less than one unit: base 1, minimum 0.5, T = 10, d = 1,
    g = 0 gives 0 (observation, reproduced on the real code by the corpus). *)
Theorem C17_floor_fractional_min_refuted :
  calc_base_fee frac_params 5 (Some 10) 0 = RVal 0 /\ of_int 0 < p_min_gas_price frac_params.
Proof. exact floor_fractional_min_refuted. Qed.
Print Assumptions C17_floor_fractional_min_refuted.

(** Below target the fee does not rise, and stays non-negative. *)
Theorem C17_decrease_le_base :
  forall base g T d m, 0 <= base -> m <= base -> 0 < T -> 0 < d -> 0 <= g < T ->
    next_base_fee base g T d m <= base /\ 0 <= next_base_fee base g T d m.
Proof. exact decrease_le_base. Qed.
Print Assumptions C17_decrease_le_base.

(** Monotone in the gas figure whenever the parent fee is not below the
    minimum gas price. *)
Theorem C17_mono_in_g :
  forall base T d m g1 g2,
    0 <= base -> m <= base -> 0 < T -> 0 < d -> g1 <= g2 ->
    next_base_fee base g1 T d m <= next_base_fee base g2 T d m.
Proof. exact mono_in_g. Qed.
Print Assumptions C17_mono_in_g.

Theorem C17_mono_in_g_on_the_call :
  forall p h mg g1 g2 v1 v2 base,
    calc_base_fee p h mg g1 = RVal v1 -> calc_base_fee p h mg g2 = RVal v2 -> h <> p_enable_height p ->
    p_base_fee p = Some base -> 0 <= base -> min_int p <= base -> 0 < p_elasticity p -> 0 < target p mg ->
    0 < p_denom p -> g1 <= g2 -> v1 <= v2.
Proof. exact calc_mono. Qed.
Print Assumptions C17_mono_in_g_on_the_call.

(** Known finding K2: the hypothesis min <= base cannot be dropped.  Base fee
    100, minimum gas price 200, gas limit 20 / elasticity 2 = target 10:
    g = 9 gives 200, g = 10 gives 100, g = 11 gives 101. *)
Theorem C17_mono_refuted_when_base_lt_min :
  calc_base_fee k2_params 5 (Some 20) 9 = RVal 200 /\
  calc_base_fee k2_params 5 (Some 20) 10 = RVal 100 /\
  calc_base_fee k2_params 5 (Some 20) 11 = RVal 101.
Proof. exact mono_refuted_when_base_lt_min. Qed.
Print Assumptions C17_mono_refuted_when_base_lt_min.

(** Over every sequence of blocks (any heights, gas limits, declared and used
    gas) that does not halt: once base fee >= minimum gas price it stays so, and
    nothing but the base fee changes in the parameters. *)
Theorem C17_base_ge_min_invariant :
  forall bs s s', run s bs = Some s' -> base_ge_min s ->
    base_ge_min s' /\ same_config (fs_params s) (fs_params s').
Proof. exact base_ge_min_invariant. Qed.
Print Assumptions C17_base_ge_min_invariant.

(** ... and any block below target establishes it. *)
Theorem C17_below_target_establishes_min :
  forall p h mg g v,
    calc_base_fee p h mg g = RVal v -> h <> p_enable_height p -> g < target p mg -> min_int p <= v.
Proof. exact below_target_establishes_min. Qed.
Print Assumptions C17_below_target_establishes_min.

(** The gas figure: exactly max(floor(wanted * multiplier), used) — the product
    is exact in 18-digit fixed point because the gas is a whole number — so it
    is never below the gas used, never below the declared gas times the
    multiplier (rounded down), and monotone in the declared gas. *)
Theorem C17_gas_figure_is_max :
  forall w u m v, 0 <= u -> end_block_gas w u m = GSet v -> v = Z.max (w * m / prec) u.
Proof. exact gas_figure_is_max. Qed.
Print Assumptions C17_gas_figure_is_max.

Theorem C17_gas_figure_ge_used :
  forall w u m v, 0 <= u -> end_block_gas w u m = GSet v -> u <= v.
Proof. exact gas_figure_ge_used. Qed.
Print Assumptions C17_gas_figure_ge_used.

Theorem C17_gas_figure_ge_mult_wanted :
  forall w u m v, 0 <= u -> end_block_gas w u m = GSet v ->
    w * m / prec <= v /\ w * m < (v + 1) * prec.
Proof. exact gas_figure_ge_mult_wanted. Qed.
Print Assumptions C17_gas_figure_ge_mult_wanted.

Theorem C17_gas_figure_mono_in_wanted :
  forall w1 w2 u m v1 v2, 0 <= u -> 0 <= m -> w1 <= w2 ->
    end_block_gas w1 u m = GSet v1 -> end_block_gas w2 u m = GSet v2 -> v1 <= v2.
Proof. exact gas_figure_mono_wanted. Qed.
Print Assumptions C17_gas_figure_mono_in_wanted.

Theorem C17_gas_figure_defined :
  forall w u m, 0 <= w <= max_int64 -> 0 <= u <= max_int64 -> 0 <= m <= prec ->
    exists v, end_block_gas w u m = GSet v.
Proof. exact gas_figure_defined. Qed.
Print Assumptions C17_gas_figure_defined.

(** Non-vacuity: a mainnet-like configuration takes every branch, with limited
    and unlimited block gas, and a three-block run satisfies the invariant's
    hypotheses. *)
Theorem C17_nonvacuous :
  calc_base_fee ex_params 10 (Some 40000000) 20000000 = RVal 1000000000 /\
  calc_base_fee ex_params 10 (Some 40000000) 40000000 = RVal 1125000000 /\
  calc_base_fee ex_params 10 (Some 40000000) 20000001 = RVal 1000000006 /\
  calc_base_fee ex_params 10 (Some 40000000) 20000000 = RVal 1000000000 /\
  calc_base_fee ex_params 10 (Some 40000000) 0 = RVal 875000000 /\
  calc_base_fee (set_base ex_params 7) 10 (Some 40000000) 0 = RVal 7 /\
  calc_base_fee ex_params 10 (Some (-1)) 12345 = RVal 875000001 /\
  end_block_gas 1000 300 (of_int 1 / 2) = GSet 500 /\
  end_block_gas 1000 700 (of_int 1 / 2) = GSet 700.
Proof. exact ex_three_branches. Qed.
Print Assumptions C17_nonvacuous.

(** ---- the gas figure of a block of delivered transactions ----
    [mkdtx declared used ante] is one delivered transaction: its gas limit, the
    gas charged to the block for it, whether its ante handler succeeded.
    [fold_wanted] is the running total of app/ante/evm/fee_market.go
    (GasWantedDecorator -> AddTransientGasWanted: uint64 addition, no cap, kept
    only when the ante handler succeeds); [block_figure enabled max_gas mult txs]
    is what EndBlock stores after the block ([enabled] = base fee enabled at
    that height); [declared_sum] = sum of the gas limits of the transactions
    that passed the ante handler; [block_used] = sum of the gas used, at most the
    block gas meter's limit. *)

(** For ALL lists of transactions: the stored figure is
    max(floor(declared gas of the block x multiplier), gas used). *)
Theorem C17_block_figure_is_max :
  forall mg m txs v,
    Forall tx_wf txs -> declared_sum txs <= max_uint64 ->
    block_figure true mg m txs = GSet v ->
    v = Z.max (declared_sum txs * m / prec) (block_used (meter_limit mg) txs).
Proof. exact block_figure_is_max. Qed.
Print Assumptions C17_block_figure_is_max.

(** The running total itself is the plain sum (no cap at the block gas limit or
    anywhere else below 2^64) ... *)
Theorem C17_declared_gas_is_the_sum :
  forall txs, Forall tx_wf txs -> declared_sum txs <= max_uint64 -> fold_wanted txs = declared_sum txs.
Proof. exact fold_wanted_sum. Qed.
Print Assumptions C17_declared_gas_is_the_sum.

(** ... transactions whose ante handler failed are not counted, transactions
    that fail later are ... *)
Theorem C17_failed_ante_not_counted :
  forall en txs, block_wanted en (filter t_ante txs) = block_wanted en txs.
Proof. exact failed_ante_not_counted. Qed.
Print Assumptions C17_failed_ante_not_counted.

(** ... and with the base fee disabled the figure is the gas used. *)
Theorem C17_block_figure_disabled :
  forall mg m txs v,
    Forall tx_wf txs -> block_figure false mg m txs = GSet v -> v = block_used (meter_limit mg) txs.
Proof. exact block_figure_disabled. Qed.
Print Assumptions C17_block_figure_disabled.

(** Monotone in the declared gas of every transaction (same outcomes, same gas
    used, every gas limit at least as large: the figure is at least as large). *)
Theorem C17_block_figure_mono_in_declared :
  forall mg m l1 l2 v1 v2,
    Forall2 tx_le l1 l2 -> Forall tx_wf l1 -> Forall tx_wf l2 -> declared_sum l2 <= max_uint64 -> 0 <= m ->
    block_figure true mg m l1 = GSet v1 -> block_figure true mg m l2 = GSet v2 -> v1 <= v2.
Proof. exact block_figure_mono_declared. Qed.
Print Assumptions C17_block_figure_mono_in_declared.

(** A block whose declared gas times the multiplier exceeds the target raises
    the next base fee by max(1, base x (g-T) / T / denominator) >= 1, whatever
    gas it actually used: the figure cannot be pushed down to the target by the
    way the gas is declared. *)
Theorem C17_over_declared_block_raises_base_fee :
  forall p h h' mg txs g v,
    Forall tx_wf txs -> declared_sum txs <= max_uint64 -> fm_enabled p h = true ->
    block_figure (fm_enabled p h) mg (p_min_gas_mult p) txs = GSet g ->
    target p mg < declared_sum txs * p_min_gas_mult p / prec ->
    calc_base_fee p h' mg g = RVal v -> h' <> p_enable_height p ->
    exists base, p_base_fee p = Some base /\ target p mg < g /\
      v = base + Z.max 1 (base * (g - target p mg) / target p mg / p_denom p) /\ base + 1 <= v.
Proof. exact over_declared_raises. Qed.
Print Assumptions C17_over_declared_block_raises_base_fee.

(** Capping the running total at the block gas limit refutes the statement:
    limit 20 000 000, elasticity 2, multiplier 1/2, five transactions declaring
    8 000 000 each: the code's accumulation stores 20 000 000 and the base fee
    goes from 1 000 000 000 to 1 125 000 000; the capped accumulation stores
    10 000 000 = T and the base fee stays, while the block satisfies the
    hypothesis of the theorem above (40 000 000 x 1/2 > 10 000 000). *)
Theorem C17_capped_accumulation_refuted :
  block_figure true (Some 20000000) (p_min_gas_mult ex_params) seed_txs = GSet 20000000 /\
  calc_base_fee ex_params 10 (Some 20000000) 20000000 = RVal 1125000000 /\
  block_figure_capped (Some 20000000) (p_min_gas_mult ex_params) seed_txs = GSet 10000000 /\
  target ex_params (Some 20000000) = 10000000 /\
  calc_base_fee ex_params 10 (Some 20000000) 10000000 = RVal 1000000000 /\
  declared_sum seed_txs = 40000000 /\
  target ex_params (Some 20000000) < declared_sum seed_txs * p_min_gas_mult ex_params / prec.
Proof. exact capped_accumulation_refuted. Qed.
Print Assumptions C17_capped_accumulation_refuted.

(** The hypothesis "the declared gas of the block fits a uint64" cannot be
    dropped (AddTransientGasWanted adds with uint64 +, unguarded): three
    transactions declaring 2^63-1 each — the most a transaction may declare,
    possible only with unlimited block gas — leave a running total of 2^63-3. *)
Theorem C17_declared_sum_wrap_refuted :
  let txs := repeat (mkdtx 9223372036854775807 100000 true) 3 in
  Forall tx_wf txs /\ max_uint64 < declared_sum txs /\ fold_wanted txs = 9223372036854775805 /\
  block_figure true (Some (-1)) (of_int 1 / 2) txs = GSet 4611686018427387902.
Proof. exact declared_sum_wrap_refuted. Qed.
Print Assumptions C17_declared_sum_wrap_refuted.

(** Non-vacuity of the block theorems: the five-transaction block satisfies
    their hypotheses, and halving every declared gas limit halves its figure. *)
Theorem C17_block_nonvacuous :
  Forall tx_wf seed_txs /\ declared_sum seed_txs <= max_uint64 /\ fm_enabled ex_params 9 = true /\
  block_figure (fm_enabled ex_params 9) (Some 20000000) (p_min_gas_mult ex_params) seed_txs = GSet 20000000 /\
  Forall2 tx_le (repeat (mkdtx 4000000 106918 true) 5) seed_txs /\
  block_figure true (Some 20000000) (p_min_gas_mult ex_params) (repeat (mkdtx 4000000 106918 true) 5) = GSet 10000000.
Proof. exact ex_seed_block. Qed.
Print Assumptions C17_block_nonvacuous.
