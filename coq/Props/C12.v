(** Property C12 — UC DAO ledger: shares always add up to the pooled funds.
    This file only states the property theorems and closes each with a lemma of
    Dao/LedgerProofs.v; [Print Assumptions] follows every theorem.
    [step allowed true] is the model of the message server of /repo after the
    "fix:" commit (debit before credit); [step allowed false] is the pinned order. *)
From Coq Require Import ZArith List.
From stdpp Require Import gmap.
From HV Require Import Dao.LedgerModel Dao.LedgerProofs.
Local Open Scope Z_scope.

(** For every history of messages (any accounts, sender = recipient included,
    any ratios and amounts, valid or malformed), for every denomination: the sum
    of all holders' balances = the recorded total = the module account's coins;
    the holder index lists exactly the accounts with a non-zero balance; no
    balance is negative. *)
Theorem C12_ledger_invariant_all_histories :
  forall (allowed : N -> bool) (ops : list op),
    Inv (run allowed true ops init).
Proof. intros allowed ops. exact (run_inv allowed ops init inv_init). Qed.
Print Assumptions C12_ledger_invariant_all_histories.

(** Funding credits the depositor with exactly what was deposited, takes exactly
    that from the depositor's bank balance, adds it to the total and to the
    module account, and touches nobody else. *)
Theorem C12_fund_exact :
  forall allowed s a cs s', step allowed true s (Fund a cs) = (s', OK) ->
    (forall a' d, zget (coins_of (bal s') a') d
                  = zget (coins_of (bal s) a') d + (if decide (a = a') then lsum cs d else 0)) /\
    (forall a' d, zget (coins_of (bank s') a') d
                  = zget (coins_of (bank s) a') d - (if decide (a = a') then lsum cs d else 0)) /\
    (forall d, zget (total s') d = zget (total s) d + lsum cs d) /\
    (forall d, zget (modbal s') d = zget (modbal s) d + lsum cs d) /\
    (forall d, 0 <= lsum cs d) /\
    (forall d, lsum cs d <> 0 -> allowed d = true).
Proof. exact fund_exact. Qed.
Print Assumptions C12_fund_exact.

(** An ownership transfer moves exactly the stated amount from the signer's own
    balance to the recipient (net zero when they are the same account), the
    amount is within the signer's balance, and nothing else changes: no third
    account, no total, no bank balance. *)
Theorem C12_transfer_all_exact :
  forall allowed s o n s', Inv s -> step allowed true s (TAll o n) = (s', OK) ->
    moves s s' o n (fun d => zget (coins_of (bal s) o) d).
Proof. exact transfer_all_exact. Qed.
Print Assumptions C12_transfer_all_exact.

Theorem C12_transfer_ratio_exact :
  forall allowed s o n r s', Inv s -> step allowed true s (TRatio o n r) = (s', OK) ->
    0 < r <= 10 ^ 18 /\ moves s s' o n (fun d => zget (coins_of (bal s) o) d * r / 10 ^ 18).
Proof. exact transfer_ratio_exact. Qed.
Print Assumptions C12_transfer_ratio_exact.

Theorem C12_transfer_amount_exact :
  forall allowed s o n cs s', Inv s -> step allowed true s (TAmt o n cs) = (s', OK) ->
    moves s s' o n (lsum cs).
Proof. exact transfer_amount_exact. Qed.
Print Assumptions C12_transfer_amount_exact.

(** A rejected message changes nothing. *)
Theorem C12_failed_message_no_effect :
  forall allowed s o s' r, step allowed true s o = (s', r) -> r <> OK -> s' = s.
Proof. exact step_fail. Qed.
Print Assumptions C12_failed_message_no_effect.

(** The order of the pinned tree violated the property for sender = recipient
    (finding F2, repaired by the "fix:" commit): 1000 funded, 400 "transferred"
    to oneself leaves shares summing to 600 against a total of 1000. *)
Theorem C12_pinned_order_refuted :
  let s := run allowed_h false self_transfer_witness init in
  dsum (bal s) 0%N = 600 /\ zget (total s) 0%N = 1000.
Proof. exact transfer_self_refuted. Qed.
Print Assumptions C12_pinned_order_refuted.

(** ... and only there: for distinct accounts both orders are the same function. *)
Theorem C12_orders_agree_when_distinct :
  forall s o n amt, o <> n -> transfer false s o n amt = transfer true s o n amt.
Proof. exact transfer_order_irrelevant_when_distinct. Qed.
Print Assumptions C12_orders_agree_when_distinct.
