From HV Require Import Dao.LedgerModel.
