(** Property C04 — precompiles act only for the signer or the caller, within grants.
    This file only states the property theorems and closes each with a lemma of
    Authz/IdentityProofs.v, Authz/AllowanceProofs.v, Authz/TransferHistoryProofs.v, Authz/CallProofs.v;
    [Print Assumptions] follows every theorem.

    [o]: transaction signer (evm.Origin); [c]: immediate caller of the precompile;
    [step cf impl W o c call]: one precompile call on the Cosmos state [W]
    ([impl = true]: the order of the code as it is; [impl = false]: the grant
    accepts before the message runs); result: new state, status, mirror amount.
    A failed call keeps what it had already written (the precompile does not run
    on a cache context), so every frame theorem is stated for every status. *)
From Coq Require Import ZArith List.
From stdpp Require Import gmap.
From HV Require Import Authz.IdentityModel Authz.IdentityProofs Authz.AllowanceModel Authz.AllowanceProofs
     Authz.TransferHistoryProofs Authz.CallModel Authz.CallProofs.
Import ListNotations.
Local Open Scope Z_scope.

(** ** 1. whose assets a call can change *)

(** Identity decision, all methods: an accepted call of any method (but ERC-20
    transferFrom) changes assets of the signer or of the immediate caller. *)
Theorem C04_identity_owner_is_signer_or_caller :
  forall m o c named, accepts_identity m o c named = true -> m <> ETransferFrom ->
    owner_of m o c named = o \/ owner_of m o c named = c.
Proof. exact owner_signer_or_caller. Qed.
Print Assumptions C04_identity_owner_is_signer_or_caller.

(** ERC-20 (registered native coins; not wired into the application): own tokens
    and grants of the caller, except transferFrom, which by design moves the
    tokens of whoever granted the caller an allowance. *)
Theorem C04_erc20_owner_is_caller_or_granter :
  forall m o c named, is_erc20 m = true -> accepts_identity m o c named = true ->
    (m <> ETransferFrom -> owner_of m o c named = c) /\
    (m = ETransferFrom -> owner_of m o c named = named /\
       (named <> c -> needs_grant m o c named = true /\ grant_parties m o c named = (named, c))).
Proof. exact erc20_owner. Qed.
Print Assumptions C04_erc20_owner_is_caller_or_granter.

(** Naming a third account in a staking / distribution / ICS-20 method is refused. *)
Theorem C04_third_party_refused :
  forall m o c named,
    (is_stake_spend m || is_distribution m || is_ics_spend m || (match m with SCreateValidator => true | _ => false end))%bool = true ->
    named <> o -> named <> c -> accepts_identity m o c named = false.
Proof. exact third_party_refused. Qed.
Print Assumptions C04_third_party_refused.

(** State transition, every call (accepted or refused, successful or failed
    half-way, either order): an account whose balance, stake, unbonding, pending
    rewards, withdraw address or grants got worse is the signer or the caller. *)
Theorem C04_owner_is_signer_or_caller :
  forall cf impl W o c cl W1 st m a,
    step cf impl W o c cl = (W1, st, m) -> worse a W W1 -> a = o \/ a = c.
Proof. exact owner_signer_or_caller_step. Qed.
Print Assumptions C04_owner_is_signer_or_caller.

(** ... and every other account can only have received: balances grow or stay,
    everything else is unchanged. *)
Theorem C04_others_only_receive :
  forall cf impl W o c cl W1 st m,
    step cf impl W o c cl = (W1, st, m) ->
    now W1 = now W /\ forall a, a <> o -> a <> c -> acct_ok a W W1.
Proof. exact step_others. Qed.
Print Assumptions C04_others_only_receive.

(** The same for a whole transaction (several calls, tolerated failures, the
    StateDB write-back of the caller's cached balance, whole-transaction revert). *)
Theorem C04_owner_is_signer_or_caller_tx :
  forall cf impl W o c calls W1 ok l a,
    run_tx cf impl W o c calls = (W1, ok, l) -> worse a W W1 -> a = o \/ a = c.
Proof. exact owner_signer_or_caller_tx. Qed.
Print Assumptions C04_owner_is_signer_or_caller_tx.

(** ... and for whole histories: an account that is not the signer (0) and never
    the calling contract only receives, whatever is signed, called and granted. *)
Theorem C04_others_only_receive_history :
  forall cf impl a txs W, a <> 0%N -> Forall (fun tx => snd (fst tx) <> a) txs ->
    acct_ok a W (final_world cf impl W txs).
Proof. exact history_others. Qed.
Print Assumptions C04_others_only_receive_history.

(** ** 2. when a grant is needed *)

Theorem C04_grant_needed_iff_caller_not_signer :
  forall m o c named, (is_stake_spend m || is_ics_spend m)%bool = true ->
    (needs_grant m o c named = true <-> c <> o) /\ grant_parties m o c named = (o, c).
Proof. exact grant_needed_iff_and_parties. Qed.
Print Assumptions C04_grant_needed_iff_caller_not_signer.

(** The second sentence of the property over EVERY method that spends the named account's funds or stake — the four
    staking spends, the ICS-20 transfer and createValidator (whose self-delegation no authorization covers): a call
    by a caller that is not the signer is accepted only if a grant signer -> caller is consulted; createValidator
    in particular is accepted only when the signer itself calls (before c43fab9 a contract called by the signer
    could stake the signer's coins into a new validator with no grant at all). *)
Theorem C04_contract_spends_signer_funds_only_with_grant :
  forall m o c named, spends_named m = true -> accepts_identity m o c named = true -> c <> o ->
    needs_grant m o c named = true /\ grant_parties m o c named = (o, c).
Proof. exact contract_spends_signer_funds_only_with_grant. Qed.
Print Assumptions C04_contract_spends_signer_funds_only_with_grant.

Theorem C04_create_validator_only_by_signer :
  forall o c named, accepts_identity SCreateValidator o c named = true -> c = o /\ named = o.
Proof. exact create_validator_only_by_signer. Qed.
Print Assumptions C04_create_validator_only_by_signer.

(** A staking spend (delegate, undelegate, redelegate, cancelUnbondingDelegation)
    by a caller that is not the signer succeeds only with a live
    StakeAuthorization signer -> caller for the message type that admits the
    validator and covers the amount, and updates that grant exactly. *)
Theorem C04_spend_needs_grant :
  forall cf impl W o c cl ty val amt W1 m,
    spend_of cl = Some (ty, val, amt) -> c <> o -> step cf impl W o c cl = (W1, SOk, m) ->
    exists lim al dl exp,
      grants W !! (o, c, ty) = Some (mkgrant (AStake lim al dl) exp) /\
      expired (now W) (mkgrant (AStake lim al dl) exp) = false /\
      val_admissible al dl val /\
      match lim with
      | None => grants W1 = grants W
      | Some l => amt <= l /\ (amt = l -> grants W1 = delete (o, c, ty) (grants W)) /\
                  (amt < l -> grants W1 = <[(o, c, ty) := mkgrant (AStake (Some (l - amt)) al dl) exp]> (grants W))
      end.
Proof. exact spend_needs_grant. Qed.
Print Assumptions C04_spend_needs_grant.

(** The same for an ICS-20 transfer: a live TransferAuthorization whose
    allocation for the channel accepts (receiver, denomination, amount). *)
Theorem C04_transfer_needs_grant :
  forall cf impl W o c who ch d amt recv W1 m,
    c <> o -> step cf impl W o c (CIcsTransfer who ch d amt recv) = (W1, SOk, m) ->
    0 < amt /\
    exists allocs exp r,
      grants W !! (o, c, MTransfer) = Some (mkgrant (ATransfer allocs) exp) /\
      expired (now W) (mkgrant (ATransfer allocs) exp) = false /\
      transfer_accept allocs ch d amt recv = Some r /\
      match r with
      | TKeep => grants W1 = grants W
      | TDelete => grants W1 = delete (o, c, MTransfer) (grants W)
      | TUpdate al => grants W1 = <[(o, c, MTransfer) := mkgrant (ATransfer al) exp]> (grants W)
      end.
Proof. exact transfer_needs_grant. Qed.
Print Assumptions C04_transfer_needs_grant.

(** what an accepting allocation is, and what it becomes *)
Theorem C04_transfer_accept_exact :
  forall allocs ch d amt recv r,
    nodup_chans [] allocs = true -> Forall (fun a => sorted_pos None (a_limits a) = true) allocs -> 0 < amt ->
    transfer_accept allocs ch d amt recv = Some r ->
    exists a, find_alloc allocs ch = Some a /\ recv_ok a recv /\
      let L := amount_of d (a_limits a) in
      (L = MAXU /\ r = TKeep) \/
      (L <> MAXU /\ amt <= L /\
       exists al', (r = TUpdate al' \/ (r = TDelete /\ al' = [])) /\
         remaining_transfer al' ch d = L - amt /\
         (forall d', d' <> d -> remaining_transfer al' ch d' =
                                if decide (coins_set d (L - amt) (a_limits a) = []) then 0 else amount_of d' (a_limits a))).
Proof. exact transfer_accept_exact. Qed.
Print Assumptions C04_transfer_accept_exact.

(** The signer calling the precompile itself needs no grant and touches none. *)
Theorem C04_signer_needs_no_grant :
  forall cf impl W o cl ty val amt W1 st m,
    spend_of cl = Some (ty, val, amt) -> step cf impl W o o cl = (W1, st, m) -> grants W1 = grants W.
Proof. exact signer_needs_no_grant. Qed.
Print Assumptions C04_signer_needs_no_grant.

Theorem C04_signer_transfer_needs_no_grant :
  forall cf impl W o who ch d amt recv W1 st m,
    step cf impl W o o (CIcsTransfer who ch d amt recv) = (W1, st, m) -> grants W1 = grants W.
Proof. exact signer_transfer_needs_no_grant. Qed.
Print Assumptions C04_signer_transfer_needs_no_grant.

(** Distribution methods consult no grant at all: a contract may withdraw the
    signer's rewards and redirect the signer's withdraw address unauthorised
    (these are assets of the signer: within the first sentence of the property). *)
Theorem C04_distribution_ignores_grants :
  forall cf impl W o c cl W1 st m,
    is_distribution (method_of cl) = true -> step cf impl W o c cl = (W1, st, m) -> grants W1 = grants W.
Proof. exact distribution_ignores_grants. Qed.
Print Assumptions C04_distribution_ignores_grants.

Theorem C04_distribution_needs_no_grant :
  forall m o c named, is_distribution m = true -> needs_grant m o c named = false.
Proof. exact distribution_needs_no_grant. Qed.
Print Assumptions C04_distribution_needs_no_grant.

(** approve / revoke / increaseAllowance / decreaseAllowance of the staking and
    ICS-20 precompiles: the granter is the signer, whoever calls. *)
Theorem C04_authz_granter_is_signer :
  forall m o c g, is_origin_authz m = true ->
    accepts_identity m o c g = true /\ owner_of m o c g = o /\ grant_parties m o c g = (o, g).
Proof. exact authz_granter_is_signer. Qed.
Print Assumptions C04_authz_granter_is_signer.

(** ** 3. what a spend does to the grant (either order) *)

Theorem C04_limited_grant_decrements_exactly :
  forall impl now G k val amt ok G' eff l al dl exp,
    G !! k = Some (mkgrant (AStake (Some l) al dl) exp) ->
    stake_spend impl now G k val amt ok = (G', eff, SOk) -> amt < l ->
    G' = <[k := mkgrant (AStake (Some (l - amt)) al dl) exp]> G.
Proof. exact limited_grant_decrements_exactly. Qed.
Print Assumptions C04_limited_grant_decrements_exactly.

Theorem C04_exhausted_grant_deleted :
  forall impl now G k val amt ok G' eff al dl exp,
    G !! k = Some (mkgrant (AStake (Some amt) al dl) exp) ->
    stake_spend impl now G k val amt ok = (G', eff, SOk) -> G' = delete k G /\ G' !! k = None.
Proof. exact exhausted_grant_deleted. Qed.
Print Assumptions C04_exhausted_grant_deleted.

Theorem C04_unlimited_grant_never_decrements :
  forall impl now G k val amt ok G' eff al dl exp,
    G !! k = Some (mkgrant (AStake None al dl) exp) ->
    stake_spend impl now G k val amt ok = (G', eff, SOk) -> G' = G.
Proof. exact unlimited_grant_never_decrements. Qed.
Print Assumptions C04_unlimited_grant_never_decrements.

Theorem C04_expired_grant_unusable :
  forall impl now G k val amt ok g,
    G !! k = Some g -> expired now g = true -> stake_spend impl now G k val amt ok = (G, false, SErr).
Proof. exact expired_grant_unusable. Qed.
Print Assumptions C04_expired_grant_unusable.

Theorem C04_absent_grant_unusable :
  forall impl now G k val amt ok, G !! k = None -> stake_spend impl now G k val amt ok = (G, false, SErr).
Proof. exact absent_grant_unusable. Qed.
Print Assumptions C04_absent_grant_unusable.

(** a grant of another kind stored under the message type; a grant for another
    message type is simply absent under this key *)
Theorem C04_wrong_type_rejected :
  forall impl now G k val amt ok g,
    G !! k = Some g -> (forall lim al dl, g_auth g <> AStake lim al dl) ->
    stake_spend impl now G k val amt ok = (G, false, SErr).
Proof. exact wrong_type_rejected. Qed.
Print Assumptions C04_wrong_type_rejected.

Theorem C04_overspend_rejected :
  forall impl now G k val amt ok l al dl exp,
    G !! k = Some (mkgrant (AStake (Some l) al dl) exp) -> l < amt ->
    stake_spend impl now G k val amt ok = (G, false, SErr).
Proof. exact overspend_rejected. Qed.
Print Assumptions C04_overspend_rejected.

Theorem C04_transfer_expired_or_absent_unusable :
  forall impl now G k ch d amt recv ok,
    (G !! k = None \/ exists g, G !! k = Some g /\ (expired now g = true \/ forall al, g_auth g <> ATransfer al)) ->
    transfer_spend impl now G k ch d amt recv ok = (G, false, SErr).
Proof. exact transfer_expired_or_absent_unusable. Qed.
Print Assumptions C04_transfer_expired_or_absent_unusable.

Theorem C04_transfer_no_allocation_rejected :
  forall allocs ch d amt recv, find_alloc allocs ch = None -> transfer_accept allocs ch d amt recv = None.
Proof. exact transfer_no_allocation_rejected. Qed.
Print Assumptions C04_transfer_no_allocation_rejected.

Theorem C04_transfer_receiver_or_amount_rejected :
  forall allocs ch d amt recv a,
    find_alloc allocs ch = Some a ->
    (~ recv_ok a recv \/ (amount_of d (a_limits a) <> MAXU /\ amount_of d (a_limits a) < amt)) ->
    transfer_accept allocs ch d amt recv = None.
Proof. exact transfer_receiver_or_amount_rejected. Qed.
Print Assumptions C04_transfer_receiver_or_amount_rejected.

(** ** 4. the running allowance over all sequences *)

(** Corrected order, every sequence of approve / increase / decrease / revoke /
    native grant / spend / passage of time over one grant: what was spent since
    the grant was last (re)defined never exceeds what was granted, and a limited
    grant holds exactly granted - spent. *)
Theorem C04_spent_le_allowance :
  forall vals k ops, Forall wf_op ops ->
    let s := arun false vals k ops ainit in
    (forall g, s_granted s = Some g -> s_spent s <= g) /\
    (forall l al dl exp, s_G s !! k = Some (mkgrant (AStake (Some l) al dl) exp) ->
                         s_granted s = Some (l + s_spent s) /\ 0 <= l).
Proof. exact spent_le_allowance_spec. Qed.
Print Assumptions C04_spent_le_allowance.

(** The code's order violates it (finding K10): 1000 granted for validator 0,
    300 + 900 taken for validator 1, the grant still says 1000. *)
Theorem C04_spent_le_allowance_refuted :
  Forall wf_op k10_ops /\
  let s := arun true [0%N; 1%N] (0%N, 2%N, MDelegate) k10_ops ainit in
  s_granted s = Some 1000 /\ s_spent s = 1200 /\
  s_G s !! (0%N, 2%N, MDelegate) = Some (mkgrant (AStake (Some 1000) [0%N] []) (Some 5000)).
Proof. exact spent_le_allowance_refuted. Qed.
Print Assumptions C04_spent_le_allowance_refuted.

(** ... and only there: a history in which no spend meets a grant that lets the
    amount through but cannot accept / be updated runs the same in both orders,
    so the bound holds for the code as it is. *)
Theorem C04_spent_le_allowance_impl_outside_k10 :
  forall vals k ops, Forall wf_op ops -> k10_free vals k ops ainit = true ->
    let s := arun true vals k ops ainit in forall g, s_granted s = Some g -> s_spent s <= g.
Proof. exact spent_le_allowance_impl_outside_k10. Qed.
Print Assumptions C04_spent_le_allowance_impl_outside_k10.

(** exactly when that is: live grant, amount within the limit, and the validator
    not admitted or the expiration equal to the block time (unless the grant is
    used up, which deletes it) *)
Theorem C04_k10_characterised :
  forall now G k val amt,
    stake_spend_update now G k val amt = Some None <->
    exists lim al dl exp,
      G !! k = Some (mkgrant (AStake lim al dl) exp) /\ expired now (mkgrant (AStake lim al dl) exp) = false /\
      match lim with Some l => amt <= l | None => True end /\
      (~ val_admissible al dl val \/ (exp = Some now /\ lim <> Some amt)).
Proof. exact spend_update_cannot. Qed.
Print Assumptions C04_k10_characterised.

Theorem C04_step_impl_eq_spec_outside_k10 :
  forall cf W o c cl ty val amt,
    spend_of cl = Some (ty, val, amt) ->
    (c <> o -> stake_spend_update (now W) (grants W) (o, c, ty) val amt <> Some None) ->
    step cf true W o c cl = step cf false W o c cl.
Proof. exact step_impl_eq_spec_outside_k10. Qed.
Print Assumptions C04_step_impl_eq_spec_outside_k10.

(** ** 4b. ICS-20: one approve with several allocations; the running allowance per (channel, denomination) *)

(** A successful ICS-20 approve stores exactly the allocations it was given: every
    channel of the call exists, the stored grant holds for every channel and
    denomination the amount the call named for THAT channel and denomination
    (nothing of one allocation leaks into another), expiring one year later. *)
Theorem C04_ics_approve_stores_what_was_approved :
  forall now ce G k allocs G1, ics_approve now ce G k allocs = (G1, SOk) ->
    G1 = <[k := mkgrant (ATransfer (strip_allow allocs)) (Some (now + YEAR))]> G /\
    wf_allocs (strip_allow allocs) /\
    Forall (fun a => ce (a_chan a) = true) allocs /\
    forall ch d, trem G1 k ch d = remaining_transfer allocs ch d.
Proof. exact ics_approve_stores_exactly. Qed.
Print Assumptions C04_ics_approve_stores_what_was_approved.

Theorem C04_ics_approve_failed_writes_nothing :
  forall now ce G k allocs G1 st, ics_approve now ce G k allocs = (G1, st) -> st <> SOk -> G1 = G.
Proof. exact ics_approve_failed_keeps. Qed.
Print Assumptions C04_ics_approve_failed_writes_nothing.

(** An accepted transfer draws on the allocation of ITS channel and on the limit of
    ITS denomination only: that limit goes down by exactly the amount, every other
    (channel, denomination) of the grant is what it was. *)
Theorem C04_transfer_accept_touches_one_limit :
  forall allocs ch d amt recv r,
    wf_allocs allocs -> 0 < amt -> transfer_accept allocs ch d amt recv = Some r ->
    let L := remaining_transfer allocs ch d in
    (L = MAXU /\ r = TKeep) \/
    (L <> MAXU /\ amt <= L /\
     exists al', (r = TUpdate al' \/ (r = TDelete /\ al' = [])) /\ wf_allocs al' /\
       remaining_transfer al' ch d = L - amt /\
       forall ch' d', (ch' <> ch \/ d' <> d) -> remaining_transfer al' ch' d' = remaining_transfer allocs ch' d').
Proof. exact transfer_accept_rem. Qed.
Print Assumptions C04_transfer_accept_touches_one_limit.

(** Corrected order, every sequence of approve (any number of allocations) /
    increaseAllowance / decreaseAllowance of one (channel, denomination) / revoke /
    native grant / transfer over any channel in any denomination / passage of time
    over one grant, for EVERY channel and denomination: what the grantee's
    transfers have spent since the allowance was last (re)defined never exceeds
    what the signer granted there, a limited allowance holds exactly
    granted - spent, an unbounded one is stored as the sentinel. *)
Theorem C04_transfer_spent_le_allowance :
  forall ce k ops, Forall wf_top ops ->
    let s := trun false ce k ops tinit in
    forall ch d,
      (forall g, t_granted s ch d = Some g -> t_spent s ch d <= g /\ trem (t_G s) k ch d = g - t_spent s ch d) /\
      (t_granted s ch d = None -> trem (t_G s) k ch d = MAXU).
Proof. exact transfer_spent_le_allowance_spec. Qed.
Print Assumptions C04_transfer_spent_le_allowance.

(** The code's order: the same outside the one K10 shape the ICS-20 flow has (a
    transfer the grant accepts but whose update cannot be saved: the grant expires
    in this very block, see C04_k10_transfer_grant_expiring_now_refuted). *)
Theorem C04_transfer_spent_le_allowance_impl_outside_k10 :
  forall ce k ops, Forall wf_top ops -> tk10_free ce k ops tinit = true ->
    let s := trun true ce k ops tinit in
    forall ch d g, t_granted s ch d = Some g -> t_spent s ch d <= g /\ trem (t_G s) k ch d = g - t_spent s ch d.
Proof. exact transfer_spent_le_allowance_impl_outside_k10. Qed.
Print Assumptions C04_transfer_spent_le_allowance_impl_outside_k10.

(** ** 5. finding K10 as theorems *)

(** corrected order: no covering, updatable grant -> nothing happens at all *)
Theorem C04_spec_spend_without_cover_no_effect :
  forall cf W o c cl ty val amt,
    spend_of cl = Some (ty, val, amt) -> c <> o ->
    (forall G1, stake_spend_update (now W) (grants W) (o, c, ty) val amt <> Some (Some G1)) ->
    step cf false W o c cl = (W, SErr, 0).
Proof. exact spec_spend_without_cover_no_effect. Qed.
Print Assumptions C04_spec_spend_without_cover_no_effect.

Theorem C04_spec_validator_not_admitted_rejected :
  forall now G k val amt ok lim al dl exp,
    G !! k = Some (mkgrant (AStake lim al dl) exp) -> ~ val_admissible al dl val ->
    stake_spend false now G k val amt ok = (G, false, SErr).
Proof. exact spec_validator_not_admitted_rejected. Qed.
Print Assumptions C04_spec_validator_not_admitted_rejected.

(** the code as it is: the grant of the witness covers validator 0 only; the
    contract delegates 300 of the signer's coins to validator 1: the call fails,
    the signer's balance and delegation have moved, the grant is untouched *)
Theorem C04_k10_spend_effect_without_cover_refuted :
  (forall G1, stake_spend_update (now k10_world) (grants k10_world) (0%N, 2%N, MDelegate) 1%N 300 <> Some (Some G1)) /\
  exists W1, step k10_cfg true k10_world 0 2 k10_call = (W1, SErr, 0) /\
             stk W1 0 1 = stk k10_world 0 1 + 300 /\ bal W1 0 0 = bal k10_world 0 0 - 300 /\
             grants W1 = grants k10_world.
Proof. exact k10_spend_effect_without_cover_refuted. Qed.
Print Assumptions C04_k10_spend_effect_without_cover_refuted.

Theorem C04_k10_absent_in_corrected_order :
  step k10_cfg false k10_world 0 2 k10_call = (k10_world, SErr, 0).
Proof. exact k10_absent_in_corrected_order. Qed.
Print Assumptions C04_k10_absent_in_corrected_order.

(** second shape: block time = expiration (GetAuthorization: live; SaveGrant: refused) *)
Theorem C04_k10_grant_expiring_now_refuted :
  exists now G k val amt,
    (exists l, G !! k = Some (mkgrant (AStake (Some l) [0%N; 1%N] []) (Some now)) /\ amt < l) /\
    stake_spend true now G k val amt true = (G, true, SErr).
Proof. exact grant_expiring_now_refuted. Qed.
Print Assumptions C04_k10_grant_expiring_now_refuted.

Theorem C04_k10_transfer_grant_expiring_now_refuted :
  exists now G k, transfer_spend true now G k 0%N 0%N 300 0%N true = (G, true, SErr) /\
                  transfer_spend false now G k 0%N 0%N 300 0%N true = (G, false, SErr).
Proof. exact transfer_grant_expiring_now_refuted. Qed.
Print Assumptions C04_k10_transfer_grant_expiring_now_refuted.
