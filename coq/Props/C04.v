From HV Require Import Authz.IdentityModel Authz.AllowanceModel Authz.CallModel.
