(** Property C11 — liquid vesting conserves backing and never unlocks early.
    This file only states the property theorems and closes each with a lemma of
    Liquid/*Proofs.v; [Print Assumptions] follows every theorem.

    [subtract_amount] etc. (Liquid/SplitModel.v) transcribe
    x/liquidvesting/types/schedule.go, [step true] (Liquid/KeeperModel.v) the
    message server of /repo as it is now (after commit 83e9993, finding F1);
    [step false] keeps the merge-start computation of the tree before that fix.
    [ev s ps t] is the reference meaning of a schedule: the sum of the amounts
    of all periods whose absolute end time is <= t. *)
From Coq Require Import ZArith List Lia.
From stdpp Require Import gmap.
From HV Require Import Liquid.SplitModel Liquid.VestingLite Liquid.KeeperModel
                       Liquid.SplitProofs Liquid.VestingLiteProofs Liquid.KeeperProofs
                       Liquid.TimeProofs.
Import ListNotations.
Local Open Scope Z_scope.

(** ** SubtractAmountFromPeriods splits exactly *)

(** For every period list with non-negative amounts and every requested amount
    [sub >= 0] on which the function succeeds: both results have the length and
    the period lengths of the input, at every index decreased + moved = original
    with both parts >= 0 (so no [Coins.Sub] of the Go code can go negative), the
    moved parts sum to exactly the requested amount. *)
Theorem C11_split_exact :
  forall ps sub dec diff,
    amounts_nonneg ps -> 0 <= sub -> subtract_amount ps sub = Some (dec, diff) ->
    length dec = length ps /\ length diff = length ps /\
    (forall i, (i < length ps)%nat ->
       plen (nth i dec (0, 0)) = plen (nth i ps (0, 0)) /\
       plen (nth i diff (0, 0)) = plen (nth i ps (0, 0)) /\
       pamt (nth i dec (0, 0)) + pamt (nth i diff (0, 0)) = pamt (nth i ps (0, 0)) /\
       0 <= pamt (nth i dec (0, 0)) /\ 0 <= pamt (nth i diff (0, 0))) /\
    total diff = sub /\ total dec = total ps - sub.
Proof. exact split_exact_nth. Qed.
Print Assumptions C11_split_exact.

(** It fails exactly when the total is smaller than the request or zero. *)
Theorem C11_split_error_guard :
  forall ps sub, subtract_amount ps sub = None <-> total ps < sub \/ total ps = 0.
Proof. exact subtract_amount_none. Qed.
Print Assumptions C11_split_error_guard.

(** Inside the function: every proportional share lies in [0, amount], the
    residue pushed from the tail is >= 0, smaller than the number of periods and
    never more than what the decreased periods still hold — the preconditions of
    every [sdk.NewCoin] / [Coins.Sub] call, so none can panic. *)
Theorem C11_split_no_panic :
  forall ps sub,
    amounts_nonneg ps -> 0 <= sub <= total ps -> 0 < total ps ->
    Forall (fun p => 0 <= prop_part sub (total ps) (pamt p) <= pamt p) ps /\
    0 <= residue_of ps sub /\
    residue_of ps sub <= total (fst (split_prop sub (total ps) ps)).
Proof. exact split_no_panic. Qed.
Print Assumptions C11_split_no_panic.

Theorem C11_split_residue_lt_n :
  forall ps sub,
    amounts_nonneg ps -> 0 <= sub <= total ps -> 0 < total ps ->
    0 <= residue_of ps sub /\ residue_of ps sub < Z.of_nat (length ps) /\
    residue_of ps sub <= total (fst (split_prop sub (total ps) ps)).
Proof. exact residue_bounds. Qed.
Print Assumptions C11_split_residue_lt_n.

(** The split is exact in time too: started at the same time, the two parts
    together have released at every time t exactly what the original had. *)
Theorem C11_split_time :
  forall ps sub dec diff,
    amounts_nonneg ps -> 0 <= sub -> subtract_amount ps sub = Some (dec, diff) ->
    forall s t, ev s dec t + ev s diff t = ev s ps t /\ 0 <= ev s dec t /\ 0 <= ev s diff t.
Proof. exact split_time. Qed.
Print Assumptions C11_split_time.

(** ** Liquidate *)

(** In every reachable state a successful MsgLiquidate of [x] at block time [t]
    leaves the already-past lockup periods untouched, splits the upcoming ones
    index by index (left + moved = original, both >= 0, moved total = x), records
    the moved parts as the new denom's schedule starting at [t], and — through
    CurrentPeriodShift — keeps every event at its absolute time: for all times,
    released by the liquid schedule + released by the account's remaining
    schedule = released by the original schedule. *)
Theorem C11_liquidate_time_split :
  forall ops t from to x s',
    let s := run true ops init in
    step true s (Liquidate t from to x) = (s', OK) ->
    exists va va' den k dec diff,
      accts s !! from = Some va /\ accts s' !! from = Some va' /\
      denoms s' !! counter s = Some den /\
      a_start va' = a_start va /\ a_end va' = a_end va /\ a_orig va' = a_orig va - x /\
      a_lock va' = firstn k (a_lock va) ++ dec /\
      split3 (skipn k (a_lock va)) dec diff /\ total diff = x /\
      map pamt (d_periods den) = map pamt diff /\ length (d_periods den) = length diff /\
      d_start den = t /\ a_start va < t < a_end va /\
      (forall tau, ev (d_start den) (d_periods den) tau + unlocked_ev va' tau = unlocked_ev va tau).
Proof. exact liquidate_split_all_histories. Qed.
Print Assumptions C11_liquidate_time_split.

(** [split3 orig dec diff] is the index-wise statement *)
Theorem C11_split3_meaning :
  forall o d f, split3 o d f ->
    length d = length o /\ length f = length o /\
    forall i, (i < length o)%nat ->
      plen (nth i d (0, 0)) = plen (nth i o (0, 0)) /\ plen (nth i f (0, 0)) = plen (nth i o (0, 0)) /\
      pamt (nth i d (0, 0)) + pamt (nth i f (0, 0)) = pamt (nth i o (0, 0)) /\
      0 <= pamt (nth i d (0, 0)) /\ 0 <= pamt (nth i f (0, 0)).
Proof. exact split3_meaning. Qed.
Print Assumptions C11_split3_meaning.

Theorem C11_liquidate_exact_amount :
  forall fixed s t from to x s',
    step fixed s (Liquidate t from to x) = (s', OK) ->
    0 < x /\ minliq s <= x /\ counter s' = (counter s + 1)%N /\
    (forall a, zget (bank s') a = zget (bank s) a - (if decide (from = a) then x else 0)) /\
    escrow s' = escrow s + x /\
    (forall d' a, hold s' d' a =
                  hold s d' a + (if decide (counter s = d') then if decide (to = a) then x else 0 else 0)) /\
    (forall d', zget (supply s') d' = zget (supply s) d' + (if decide (counter s = d') then x else 0)).
Proof. exact liquidate_exact_amount. Qed.
Print Assumptions C11_liquidate_exact_amount.

(** ** Invariants over all histories (any number of holders, any interleaving of
    liquidate / transfer / partial and full redeem / set-up ops / failing messages) *)

(** Backing: the liquid supplies add up to the native coins escrowed in the
    module account; every supply is exactly what the holders hold; no holding is
    negative. *)
Theorem C11_backing :
  forall ops,
    let s := run true ops init in
    msum (supply s) = escrow s /\
    (forall d, msum (holders_of s d) = zget (supply s) d) /\
    (forall d a, 0 <= hold s d a).
Proof. exact backing_all_histories. Qed.
Print Assumptions C11_backing.

(** The recorded schedule of every registered liquid denom sums to its supply
    (which is positive), an unregistered denom has no supply; recorded schedules
    are well formed (lengths, amounts >= 0, end = start + total length). *)
Theorem C11_schedule_sums_to_supply :
  forall ops d,
    let s := run true ops init in
    match denoms s !! d with
    | Some den => total (d_periods den) = zget (supply s) d /\ 0 < zget (supply s) d /\
                  (d < counter s)%N /\ den_ok den
    | None => zget (supply s) d = 0
    end.
Proof. exact schedule_sums_all_histories. Qed.
Print Assumptions C11_schedule_sums_to_supply.

(** Every vesting account of a reachable state satisfies the schedule
    conditions of ClawbackVestingAccount.Validate (lockup and vesting amounts
    each sum to OriginalVesting, lengths >= 0, both schedules end by EndTime). *)
Theorem C11_accounts_stay_valid :
  forall ops a va, accts (run true ops init) !! a = Some va -> acct_ok va.
Proof. exact accounts_valid_all_histories. Qed.
Print Assumptions C11_accounts_stay_valid.

(** A rejected message changes nothing. *)
Theorem C11_failed_message_no_effect :
  forall fixed s o s' r, step fixed s o = (s', r) -> r <> OK -> s' = s.
Proof. exact step_fail. Qed.
Print Assumptions C11_failed_message_no_effect.

(** ** Redeem *)

(** Redeeming [x] burns exactly [x] liquid tokens of the redeemer, releases
    exactly [x] native coins from the escrow to the recipient, nothing else moves. *)
Theorem C11_redeem_exact_amount :
  forall fixed s t from to d x s',
    step fixed s (Redeem t from to d x) = (s', OK) ->
    0 < x /\ x <= hold s d from /\
    (forall a, zget (bank s') a = zget (bank s) a + (if decide (to = a) then x else 0)) /\
    escrow s' = escrow s - x /\
    (forall d' a, hold s' d' a =
                  hold s d' a - (if decide (d = d') then if decide (from = a) then x else 0 else 0)) /\
    (forall d', zget (supply s') d' = zget (supply s) d' - (if decide (d = d') then x else 0)).
Proof. exact redeem_exact_amount. Qed.
Print Assumptions C11_redeem_exact_amount.

(** No early unlock, in every reachable state, for every recipient (ordinary
    account, existing vesting account with an earlier or later start, the
    redeemer itself): the redeemed part [diff] is index-wise within the denom's
    recorded schedule; at every time the recipient's lockup schedule has released
    at most what it had released before plus what the liquid schedule has
    released of the redeemed part; from the block time on, the recipient holds
    locked exactly its former locked amount plus the still-locked rest of the
    redeemed amount — also when measured with the code's own GetLockedUpCoins. *)
Theorem C11_redeem_no_early_unlock :
  forall ops t from to d x s',
    let s := run true ops init in
    step true s (Redeem t from to d x) = (s', OK) ->
    exists den dec diff,
      denoms s !! d = Some den /\
      subtract_amount (d_periods den) x = Some (dec, diff) /\
      split3 (d_periods den) dec diff /\ total diff = x /\
      (forall tau, ev (d_start den) diff tau <= ev (d_start den) (d_periods den) tau) /\
      (forall tau, lock_ev s' to tau <= lock_ev s to tau + ev (d_start den) diff tau) /\
      (forall tau, t <= tau ->
         locked_ev s' to tau = locked_ev s to tau + (x - ev (d_start den) diff tau)) /\
      (forall tau, t <= tau ->
         locked_ev s to tau + (x - ev (d_start den) diff tau) <= locked_real s' to tau).
Proof. exact redeem_no_early_unlock_all_histories. Qed.
Print Assumptions C11_redeem_no_early_unlock.

(** Between its creation and any later state a liquid denom keeps its start and
    end time and its recorded schedule only shrinks: at every time it has released
    at most what the schedule recorded earlier had released.  Together with
    [C11_liquidate_time_split] (the schedule recorded at creation is a part of the
    original lockup schedule at the original absolute times) and
    [C11_redeem_no_early_unlock] this is the end-to-end statement: coins that come
    back through any sequence of transfers and redeems are never released before
    the original lockup schedule released them. *)
Theorem C11_denom_schedule_only_shrinks :
  forall ops1 ops2 d den den',
    denoms (run true ops1 init) !! d = Some den ->
    denoms (run true (ops1 ++ ops2) init) !! d = Some den' ->
    d_start den' = d_start den /\ d_end den' = d_end den /\
    forall tau, ev (d_start den') (d_periods den') tau <= ev (d_start den) (d_periods den) tau.
Proof. exact denom_shrinks_all_histories. Qed.
Print Assumptions C11_denom_schedule_only_shrinks.

(** The event sum used above is what the account's own GetUnlockedCoins reports
    (valid account, any time other than the start second itself), and is never
    below it. *)
Theorem C11_event_sum_is_GetUnlockedCoins :
  forall va t, acct_ok va ->
    unlocked_at va t <= unlocked_ev va t /\ (t <> a_start va -> unlocked_at va t = unlocked_ev va t).
Proof. exact event_sum_is_unlocked. Qed.
Print Assumptions C11_event_sum_is_GetUnlockedCoins.

(** DisjunctPeriods (used by the merge) is the union of the two event sets at
    their absolute times, whatever the period lengths. *)
Theorem C11_disjunct_is_union :
  forall sa sb pa pb s e ps, disjunct sa sb pa pb = (s, e, ps) ->
    s = Z.min sa sb /\ forall t, ev s ps t = ev sa pa t + ev sb pb t.
Proof. exact disjunct_ev. Qed.
Print Assumptions C11_disjunct_is_union.

(** Finding F1 (fixed in /repo by commit 83e9993).  With the earlier merge-start
    computation the statement above is false: account 1 started at 100, the
    liquid denom at 1100 with its 600 coins due at 2000; after redeeming them
    into account 1 they are released at 1500 already. *)
Theorem C11_redeem_no_early_unlock_refuted :
  let s := run false f1_prefix init in
  let s' := fst (step false s f1_redeem) in
  snd (step false s f1_redeem) = OK /\
  denoms s !! 0%N = Some (mkdenom 1100 2000 [(900, 600)]) /\
  lock_ev s 1%N 1500 = 0 /\ ev 1100 [(900, 600)] 1500 = 0 /\
  lock_ev s' 1%N 1500 = 600.
Proof. exact redeem_no_early_unlock_refuted. Qed.
Print Assumptions C11_redeem_no_early_unlock_refuted.

(** ... the repaired computation keeps them locked until 2000 on the same input, *)
Theorem C11_f1_witness_on_fixed_code :
  let s := run true f1_prefix init in
  let s' := fst (step true s f1_redeem) in
  snd (step true s f1_redeem) = OK /\
  lock_ev s' 1%N 1500 = 0 /\ lock_ev s' 1%N 1999 = 0 /\ lock_ev s' 1%N 2000 = 600.
Proof. exact redeem_no_early_unlock_witness_fixed. Qed.
Print Assumptions C11_f1_witness_on_fixed_code.

(** ... and the two computations differ only for a recipient that started
    before the grant. *)
Theorem C11_merge_start_agree :
  forall va gs gl gv c, gs <= a_start va -> add_grant false va gs gl gv c = add_grant true va gs gl gv c.
Proof. exact merge_start_agree. Qed.
Print Assumptions C11_merge_start_agree.

(** ** Non-vacuity: a history over four accounts in which a liquidation, a
    transfer and redeems into an existing vesting account, into an ordinary
    account, after the schedule's end and of the last tokens all succeed; a split
    with a non-zero residue. *)
Theorem C11_nonvacuous_history :
  run_codes true ex_history init = [OK; OK; OK; OK; OK; OK; OK; OK] /\
  (let s := run true ex_history init in
   escrow s = 0 /\ denoms s !! 0%N = None /\ zget (bank s) 0%N = 56 /\ zget (bank s) 3%N = 4).
Proof. exact nonvacuous_history. Qed.
Print Assumptions C11_nonvacuous_history.

Theorem C11_nonvacuous_split :
  subtract_amount [(100, 10); (100, 0); (100, 1); (5, 1)] 7
  = Some ([(100, 5); (100, 0); (100, 0); (5, 0)], [(100, 5); (100, 0); (100, 1); (5, 1)])
  /\ residue_of [(100, 10); (100, 0); (100, 1); (5, 1)] 7 = 2.
Proof. exact ex_split_nonvacuous. Qed.
Print Assumptions C11_nonvacuous_split.

(** ** Redeem into an EXISTING vesting account, over time *)

(** The merge the code performs (addGrant: union of the lockup events, union of
    the vesting events, start = min, end = max(new lockup end, new vesting end)),
    for ALL accounts, grants, amounts and times: what GetLockedUpCoins of the
    merged account reports is at least what the account's own lockup schedule
    still holds plus what the redeemed share still holds at its ORIGINAL absolute
    times; the bank's LockedCoins is at least that; in terms of the code's own
    getters (away from the two start seconds) locked(merged) >= locked(old
    account) + locked(share as its own account); in particular after the END of
    the account's own schedule, where the old account locks nothing, the merged
    account still locks all of the share that is not yet due. *)
Theorem C11_merge_keeps_both_locked :
  forall va gs gl gv c va',
    acct_ok va -> grant_ok gl gv c -> add_grant true va gs gl gv c = Some va' ->
    forall t,
      (a_orig va - unlocked_ev va t) + (c - ev gs gl t) <= lockedup_at va' t /\
      lockedup_at va' t <= locked_coins va' t /\
      (t <> a_start va -> t <> gs ->
         lockedup_at va t + lockedup_at (new_acct gs c gl gv) t <= lockedup_at va' t) /\
      (a_start va < a_end va <= t -> lockedup_at va t = 0 /\ c - ev gs gl t <= locked_coins va' t).
Proof. exact merge_locks_both. Qed.
Print Assumptions C11_merge_keeps_both_locked.

(** With end := max(OLD account end, end of the merged VESTING periods) this is
    false: the merged period lists are the same, but ReadSchedule's shortcut
    "t >= end: everything is unlocked" frees the 500 coins of a share due at 2000
    already at the account's old end 1100. *)
Theorem C11_merge_end_rule_refuted :
  exists v_old v_new,
    add_grant_oldend er_acct 1000 er_lock er_vest 500 = Some v_old /\
    add_grant true er_acct 1000 er_lock er_vest 500 = Some v_new /\
    acct_ok er_acct /\ grant_ok er_lock er_vest 500 /\
    a_lock v_old = a_lock v_new /\ a_vest v_old = a_vest v_new /\
    a_start v_old = a_start v_new /\ a_orig v_old = a_orig v_new /\
    a_end er_acct = 1100 /\ a_end v_old = 1100 /\ a_end v_new = 2000 /\
    (a_orig er_acct - unlocked_ev er_acct 1100) + (500 - ev 1000 er_lock 1100) = 500 /\
    (a_orig er_acct - unlocked_ev er_acct 1999) + (500 - ev 1000 er_lock 1999) = 500 /\
    locked_coins v_old 1099 = 600 /\ locked_coins v_old 1100 = 0 /\ locked_coins v_old 1999 = 0 /\
    locked_coins v_new 1099 = 600 /\ locked_coins v_new 1100 = 500 /\ locked_coins v_new 1999 = 500 /\
    locked_coins v_new 2000 = 0.
Proof. exact merge_end_rule_refuted. Qed.
Print Assumptions C11_merge_end_rule_refuted.

(** Over all histories (set-up, liquidate, transfer, partial / full redeem into
    fresh, ordinary and existing vesting accounts incl. the liquidator itself, in
    any order, failing messages, probes), for every account and every time from
    the last redeem on: the obligations written down independently of the
    accounts' records ([step_obl]: + the set-up lockup schedule, - every
    liquidated token's schedule as recorded at its creation, + every redeemed
    share at the token's start time) are exactly what the account's lockup
    schedule holds locked, which GetLockedUpCoins and the bank's LockedCoins never
    undercut. *)
Theorem C11_no_early_unlock_obligations :
  forall ops a tau,
    redeems_by ops tau ->
    let s := run true ops init in
    let g := snd (run_obl true ops init []) in
    need g a tau = locked_ev s a tau /\
    locked_ev s a tau <= locked_real s a tau /\
    locked_real s a tau <= locked_bank s a tau.
Proof. exact no_early_unlock_obligations. Qed.
Print Assumptions C11_no_early_unlock_obligations.

(** Non-vacuity: the short token first, then the long one, into the same fresh
    account; between the two ends all of the long token's coins are locked. *)
Theorem C11_two_tokens_same_account :
  run_codes true tw_history init = [OK; OK; OK; OK; OK; OK; OK; OK] /\
  (let s5 := run true (firstn 5 tw_history) init in
   exists v, accts s5 !! 3%N = Some v /\ a_end v = 1040) /\
  (let s := run true tw_history init in
   let g := snd (run_obl true tw_history init []) in
   redeems_by tw_history 1030 /\
   (exists v, accts s !! 3%N = Some v /\ a_end v = 1300) /\
   map (fun t => need g 3%N t) [1030; 1039; 1040; 1099; 1100; 1199; 1200; 1299; 1300]
     = [80; 80; 60; 60; 40; 40; 20; 20; 0] /\
   map (locked_bank s 3%N) [1030; 1039; 1040; 1099; 1100; 1199; 1200; 1299; 1300]
     = [80; 80; 60; 60; 40; 40; 20; 20; 0] /\
   need g 0%N 1050 = 30 /\ locked_bank s 0%N 1050 = 30).
Proof. exact tw_history_ok. Qed.
Print Assumptions C11_two_tokens_same_account.

(** The bank's LockedCoins also counts the account's own UNVESTED coins.  While the
    account's own vesting is not behind its own lockup (in particular once it is
    fully vested) the merged account locks, by the bank's reckoning, everything the
    bank held locked of the own grant plus the unreleased part of the share ... *)
Theorem C11_merge_bank_locked_partial :
  forall va gs gl gv c va' t,
    acct_ok va -> grant_ok gl gv c -> add_grant true va gs gl gv c = Some va' ->
    unlocked_ev va t <= vested_ev va t ->
    locked_ref va t + (c - ev gs gl t) <= locked_coins va' t.
Proof. exact merge_bank_locked. Qed.
Print Assumptions C11_merge_bank_locked_partial.

(** ... without that hypothesis it does not (the clawback account's spendable
    amount is min(unlocked, vested) over the merged schedules): own coins that are
    unlocked but unvested and a share that is vested but locked free each other.
    The lockup obligations of C11 are still met (last clause); what becomes
    spendable early are coins the bank held back as unvested. *)
Theorem C11_merge_bank_locked_unvested_refuted :
  exists va',
    add_grant true uv_acct 1100 [(900, 50)] [(0, 50)] 50 = Some va' /\
    acct_ok uv_acct /\ grant_ok [(900, 50)] [(0, 50)] 50 /\
    locked_coins uv_acct 1500 = 100 /\ locked_ref uv_acct 1500 = 100 /\
    50 - ev 1100 [(900, 50)] 1500 = 50 /\
    locked_coins va' 1500 = 100 /\
    ~ (locked_ref uv_acct 1500 + (50 - ev 1100 [(900, 50)] 1500) <= locked_coins va' 1500) /\
    (a_orig uv_acct - unlocked_ev uv_acct 1500) + (50 - ev 1100 [(900, 50)] 1500) <= locked_coins va' 1500.
Proof. exact merge_bank_locked_unvested_refuted. Qed.
Print Assumptions C11_merge_bank_locked_unvested_refuted.
