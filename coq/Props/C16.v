(** Property C16 — a precompile call has exactly the effect of the native message.
    Only statements; closed by lemmas of Evm/SupplyProofs.v. *)
From Coq Require Import ZArith List.
From stdpp Require Import gmap.
From HV Require Import Evm.ExecModel Evm.SupplyProofs Evm.Witnesses.
Local Open Scope Z_scope.

(** For every method and every argument value, in every state: when the account owner
    calls the precompile directly, the Cosmos-side effect of the precompile body
    (delegations, unbondings, rewards, withdraw address, grants, bank balances) and its
    success or failure are exactly those of the native message.  Partial: the statement
    is about the effect before the transaction's final StateDB commit. *)
Theorem C16_owner_call_cosmos_effect_eq_native_partial :
  forall W D o p, who_of p = o ->
    let '(W1, _, oc) := pre_body W D o o p in
    let '(W2, oc2) := native W p in
    W1 = W2 /\ oc = oc2.
Proof. exact owner_call_cosmos_effect_eq_native. Qed.
Print Assumptions C16_owner_call_cosmos_effect_eq_native_partial.

(** ... and the final commit is where the whole-transaction statement fails on the
    unchanged tree (known finding K6): delegate with pending rewards. *)
Theorem C16_delegate_with_pending_rewards_refuted_K6 :
  model_obs w_k6_eoa_delegate = impl_obs w_k6_eoa_delegate /\
  b_ok (model_obs w_k6_eoa_delegate) = true /\ b_supply (model_obs w_k6_eoa_delegate) = -1499.
Proof. exact k6_refuted. Qed.
Print Assumptions C16_delegate_with_pending_rewards_refuted_K6.

(** non-vacuity: an owner call without pending rewards, reproduced exactly *)
Theorem C16_owner_call_reproduced_example :
  model_obs w_ok_setwithdraw = impl_obs w_ok_setwithdraw /\ b_ok (model_obs w_ok_setwithdraw) = true.
Proof. vm_compute. auto. Qed.
Print Assumptions C16_owner_call_reproduced_example.

(** non-vacuity for the ICS-20 precompile: the owner's transfer escrows exactly the amount, reproduced exactly *)
Theorem C16_owner_ibc_transfer_reproduced_example :
  model_obs w_ok_owner_transfer = impl_obs w_ok_owner_transfer /\
  b_ok (model_obs w_ok_owner_transfer) = true /\ b_supply (model_obs w_ok_owner_transfer) = 0 /\
  nth 13 (b_bal (model_obs w_ok_owner_transfer)) 0 = 700.
Proof. exact ok_owner_transfer_conserves. Qed.
Print Assumptions C16_owner_ibc_transfer_reproduced_example.

(** ---------------------------------------------------------------------------------------------
    Staking share arithmetic (Staking/StakeModel.v): the numbers behind delegate / undelegate in
    unusual validator states (emptied, slashed, unbonded, full entry lists), for BOTH routes. *)
From HV Require Import Base.Dec Staking.StakeModel Staking.StakeProofs.

(** For every state (validator record or none, any tokens / shares / status, any delegation, entry
    count, balance, pending rewards), both methods and every uint256 amount: the precompile body run
    by the account owner (caller = origin = delegator) succeeds exactly when the native message does
    and leaves the same validator and delegation numbers.  The only route-specific step, the
    Delegate event's SharesFromTokens on the validator after the delegation, can never fail. *)
Theorem C16_stake_owner_body_eq_native :
  forall s a g m amt, a <> 0 -> 0 <= amt < 2 ^ 256 -> wf s ->
    precompile_body s a a a g m amt = native s m amt.
Proof. exact owner_body_eq_native. Qed.
Print Assumptions C16_stake_owner_body_eq_native.

(** ... and so does the whole transaction (final StateDB commit included) whenever the distribution
    hook pays no rewards to the delegator itself; with such rewards it is refuted below (K6). *)
Theorem C16_stake_owner_tx_eq_native_without_self_rewards_partial :
  forall s a g m amt, a <> 0 -> 0 <= amt < 2 ^ 256 -> wf s -> i_rew s = 0 ->
    precompile_tx_impl s a a a g m amt = native s m amt.
Proof. exact owner_tx_eq_native_without_self_rewards. Qed.
Print Assumptions C16_stake_owner_tx_eq_native_without_self_rewards_partial.

Theorem C16_stake_owner_tx_refuted_K6 :
  o_ok (native w_k6 SDelegate 120) = true /\
  precompile_body w_k6 1 1 1 false SDelegate 120 = native w_k6 SDelegate 120 /\
  precompile_tx_impl w_k6 1 1 1 false SDelegate 120 = unchanged w_k6.
Proof. exact k6_commit_refuted. Qed.
Print Assumptions C16_stake_owner_tx_refuted_K6.

(** A validator record without tokens and shares (every delegator left; the record is kept until the
    unbonding period ends), whatever its status: a delegation succeeds on both routes, the exchange
    rate becomes one (shares = tokens). *)
Theorem C16_stake_delegate_to_empty_validator :
  forall s v a g amt, a <> 0 -> i_val s = Some v -> v_tokens v = 0 -> v_shares v = 0 ->
    0 < amt <= i_bal s + i_rew s -> amt < 2 ^ 256 ->
    precompile_body s a a a g SDelegate amt =
      mk_sout true (Some (set_ts v amt (of_int amt))) (Some (opt0 (i_del s) + of_int amt)).
Proof. exact owner_delegate_to_empty_validator. Qed.
Print Assumptions C16_stake_delegate_to_empty_validator.

(** non-vacuity, and the state of the seeded change: computing the event's shares BEFORE the message
    refuses exactly this state, which the native message accepts *)
Theorem C16_stake_emptied_validator_example :
  native w_emptied SDelegate 300000000000000000 =
    mk_sout true (Some (mk_val 300000000000000000 300000000000000000000000000000000000 2%N false 0))
                 (Some 300000000000000000000000000000000000) /\
  precompile_tx_impl w_emptied 1 1 1 false SDelegate 300000000000000000 =
    native w_emptied SDelegate 300000000000000000 /\
  o_ok (precompile_body_event_first w_emptied 1 1 1 false 300000000000000000) = false.
Proof. exact emptied_validator_example. Qed.
Print Assumptions C16_stake_emptied_validator_example.

Theorem C16_stake_event_first_refuses_every_empty_validator :
  forall s v a g amt, i_val s = Some v -> v_tokens v = 0 ->
    o_ok (precompile_body_event_first s a a a g amt) = false.
Proof. exact event_first_refuses_empty_validator. Qed.
Print Assumptions C16_stake_event_first_refuses_every_empty_validator.

(** exact effect of a successful delegation / undelegation (both routes, by the first theorem) *)
Theorem C16_stake_delegate_effect :
  forall s amt, wf s -> o_ok (native s SDelegate amt) = true ->
  exists v v' iss, i_val s = Some v /\ o_val (native s SDelegate amt) = Some v' /\
    0 < amt <= i_bal s + i_rew s /\ 0 <= iss /\
    v_tokens v' = v_tokens v + amt /\ v_shares v' = v_shares v + iss /\
    o_del (native s SDelegate amt) = Some (opt0 (i_del s) + iss).
Proof. exact delegate_effect. Qed.
Print Assumptions C16_stake_delegate_effect.

Theorem C16_stake_undelegate_effect :
  forall s amt, wf s -> o_ok (native s SUndelegate amt) = true ->
  exists v d sh, i_val s = Some v /\ i_del s = Some d /\ 0 <= sh <= d /\ (i_entries s < i_max s)%N /\
    o_del (native s SUndelegate amt) = (if d - sh =? 0 then None else Some (d - sh)) /\
    match o_val (native s SUndelegate amt) with
    | Some v2 => v_shares v2 = v_shares v - sh /\ 0 <= v_tokens v2 <= v_tokens v /\ v_status v2 = v_status v
    | None => v_shares v = sh /\ v_status v = 1%N
    end.
Proof. exact undelegate_effect. Qed.
Print Assumptions C16_stake_undelegate_effect.

(** max-entries rule: with MaxEntries unbonding entries the undelegation is refused, state unchanged *)
Theorem C16_stake_undelegate_max_entries :
  forall s amt, (i_max s <= i_entries s)%N -> native s SUndelegate amt = unchanged s.
Proof. exact undelegate_max_entries. Qed.
Print Assumptions C16_stake_undelegate_max_entries.

Theorem C16_stake_max_entries_example :
  let v := mk_val 2000000000000000000 2000000000000000000000000000000000000 3%N false 0 in
  let d := Some 1000000000000000000000000000000000000 in
  o_ok (native (mk_sin (Some v) d 7%N 7%N 0 0 false) SUndelegate 5) = false /\
  o_ok (native (mk_sin (Some v) d 6%N 7%N 0 0 false) SUndelegate 5) = true.
Proof. exact max_entries_example. Qed.
Print Assumptions C16_stake_max_entries_example.

(** shares <-> tokens with the SDK's truncation: bonding [a] tokens and converting the issued shares
    back never yields more than [a], and loses at most two tokens plus the token worth of one share
    unit; at exchange rate one the round trip is exact *)
Theorem C16_stake_roundtrip_upper :
  forall v a sh, 0 < v_tokens v -> 0 < v_shares v -> 0 <= a -> shares_from_tokens v a = Some sh ->
    0 <= sh /\ truncate (tokens_from_shares v sh) <= a.
Proof. exact roundtrip_le. Qed.
Print Assumptions C16_stake_roundtrip_upper.

Theorem C16_stake_roundtrip_lower :
  forall v a sh, 0 < v_tokens v -> 0 < v_shares v -> 0 <= a -> shares_from_tokens v a = Some sh ->
    a - v_tokens v / v_shares v - 2 <= truncate (tokens_from_shares v sh).
Proof. exact roundtrip_ge. Qed.
Print Assumptions C16_stake_roundtrip_lower.

Theorem C16_stake_roundtrip_exact_at_rate_one :
  forall v a, 0 < v_tokens v -> v_shares v = of_int (v_tokens v) -> 0 <= a ->
    shares_from_tokens v a = Some (of_int a) /\ truncate (tokens_from_shares v (of_int a)) = a.
Proof. exact roundtrip_exact_rate_one. Qed.
Print Assumptions C16_stake_roundtrip_exact_at_rate_one.

Theorem C16_stake_roundtrip_example :
  let v := mk_val 3 2000000000000000000 3%N false 0 in
  shares_from_tokens v 1 = Some 666666666666666666 /\
  truncate (tokens_from_shares v 666666666666666666) = 0.
Proof. exact roundtrip_example. Qed.
Print Assumptions C16_stake_roundtrip_example.

(** ---------------------------------------------------------------------------------------------
    The read-only method [delegation] (precompiles/staking/query.go) against the native
    Query/Delegation, for every validator record (any tokens / shares, i.e. after any slashes) and
    every delegation: the same shares, and the same balance - what the shares are worth in whole
    tokens, rounded DOWN. *)
Theorem C16_stake_delegation_query_eq_native :
  forall v sh,
    native_delegation_query (Some v) (Some sh) = QOk sh (truncate (tokens_from_shares v sh)) /\
    precompile_delegation_query (Some v) (Some sh) = Some (sh, truncate (tokens_from_shares v sh)).
Proof. exact delegation_query_eq_native. Qed.
Print Assumptions C16_stake_delegation_query_eq_native.

(** in every state (validator record or none, delegation or none) the precompile reports numbers
    exactly when the query reports them, or (0, 0) when the query says NotFound *)
Theorem C16_stake_delegation_query_agrees :
  forall ov od sh b,
    precompile_delegation_query ov od = Some (sh, b) <->
    native_delegation_query ov od = QOk sh b \/
    (native_delegation_query ov od = QNotFound /\ sh = 0 /\ b = 0).
Proof. exact delegation_query_agrees. Qed.
Print Assumptions C16_stake_delegation_query_agrees.

Theorem C16_stake_delegation_query_not_found :
  forall ov, native_delegation_query ov None = QNotFound /\ precompile_delegation_query ov None = Some (0, 0).
Proof. exact delegation_query_not_found. Qed.
Print Assumptions C16_stake_delegation_query_not_found.

(** the truncation rule in integers: with N = shares * tokens and S = the validator's shares the
    reported balance is floor(N / S), or one more when N / S lies within 10^-18 / 2 below the next
    integer (LegacyDec.Quo rounds at 18 digits before TruncateInt) ... *)
Theorem C16_stake_delegation_balance_floor :
  forall v sh, 0 <= sh -> 0 <= v_tokens v -> 0 < v_shares v ->
    sh * v_tokens v / v_shares v <= delegation_balance v sh <= sh * v_tokens v / v_shares v + 1.
Proof. exact delegation_balance_floor. Qed.
Print Assumptions C16_stake_delegation_balance_floor.

(** ... and exactly floor(N / S) otherwise *)
Theorem C16_stake_delegation_balance_exact :
  forall v sh, 0 <= sh -> 0 <= v_tokens v -> 0 < v_shares v ->
    2 * prec * ((sh * v_tokens v) mod v_shares v) < (2 * prec - 1) * v_shares v ->
    delegation_balance v sh = sh * v_tokens v / v_shares v.
Proof. exact delegation_balance_exact. Qed.
Print Assumptions C16_stake_delegation_balance_exact.

Theorem C16_stake_delegation_balance_rate_one :
  forall v sh, 0 <= sh -> 0 < v_tokens v -> v_shares v = of_int (v_tokens v) ->
    delegation_balance v sh = truncate sh.
Proof. exact delegation_balance_rate_one. Qed.
Print Assumptions C16_stake_delegation_balance_rate_one.

(** non-vacuity: two delegators (10^18 and 10^18 + 10), the validator slashed by 5 %: the second
    delegation is worth 950000000000000009.75 tokens; both routes report ...009 *)
Theorem C16_stake_delegation_query_slashed_example :
  precompile_delegation_query (Some w_slashed) (Some w_slashed_del) = Some (w_slashed_del, 950000000000000009) /\
  native_delegation_query (Some w_slashed) (Some w_slashed_del) = QOk w_slashed_del 950000000000000009 /\
  w_slashed_del * v_tokens w_slashed / v_shares w_slashed = 950000000000000009.
Proof. exact delegation_query_slashed_example. Qed.
Print Assumptions C16_stake_delegation_query_slashed_example.

(** a balance rounded to the NEAREST integer (RoundInt instead of TruncateInt) is not the query's
    answer: one unit more, and more than ValidateUnbondAmount lets the delegator take out *)
Theorem C16_stake_delegation_balance_rounded_refuted :
  exists v sh, 0 <= sh /\ 0 <= v_tokens v /\ 0 < v_shares v /\
    delegation_balance_rounded v sh = delegation_balance v sh + 1 /\
    (exists sht, shares_from_tokens_trunc v (delegation_balance_rounded v sh) = Some sht /\ sh < sht).
Proof. exact delegation_balance_rounded_refuted. Qed.
Print Assumptions C16_stake_delegation_balance_rounded_refuted.

(** ---------------------------------------------------------------------------------------------
    createValidator (Staking/CreateValModel.v): argument conversion and validation.  The ABI hands
    the precompile five uint256 numbers (three commission rates with 18 decimals, the minimum
    self-delegation, the value); a native MsgCreateValidator carries the same integers (a LegacyDec
    is its integer).  The code's conversion is the identity on the naturals below 2^256, followed
    by the native ValidateBasic and the native message server. *)
From HV Require Import Staking.CreateValModel Staking.CreateValProofs.

(** For every state, every description / address / consensus-key shape and ALL uint256 numbers: the
    signer's own call (caller = origin = delegator) does exactly what the native message with the same
    values does: same success, same validator record (commission rates, minimum self-delegation,
    tokens, shares), same self-delegation, same balance. *)
Theorem C16_create_owner_eq_native :
  forall st a g, a <> 0 -> args_u256 g ->
    precompile_create conv_id st a a a g = native_create st g.
Proof. exact create_owner_eq_native. Qed.
Print Assumptions C16_create_owner_eq_native.

(** ... in particular the precompile accepts exactly what the native message accepts *)
Theorem C16_create_owner_accepts_iff_native_accepts :
  forall st a g, a <> 0 -> args_u256 g ->
    (c_ok (precompile_create conv_id st a a a g) = true <-> c_ok (native_create st g) = true).
Proof. exact create_owner_accepts_iff. Qed.
Print Assumptions C16_create_owner_accepts_iff_native_accepts.

(** what an accepted creation satisfies and does (both routes, by the first theorem): the rates are
    ordered and at most 100 %, the minimum commission holds, the value covers the minimum
    self-delegation and is covered by the balance; the record holds the numbers of the message, the
    first delegation is issued at rate one, the balance falls by the value *)
Theorem C16_create_effect :
  forall st g, c_ok (native_create st g) = true ->
  s_mincomm st <= m_rate g /\ 0 <= m_rate g <= m_max g /\ m_max g <= one_dec /\
  0 <= m_change g <= m_max g /\ 0 < m_minself g <= m_value g /\ m_value g <= s_bal st /\
  s_owner st = false /\ m_pk g = 0%N /\ m_valaddr_ok g = true /\ desc_empty g = false /\ desc_len_ok g = true /\
  native_create st g =
    mk_cout true
      (Some (mk_cnew (m_rate g) (m_max g) (m_change g) (m_minself g) (m_value g)
                     (m_value g * one_dec) (m_value g * one_dec)))
      (s_bal st - m_value g).
Proof. exact native_create_effect. Qed.
Print Assumptions C16_create_effect.

(** a caller other than the signer is refused whatever the arguments (F10): only the direct call applies *)
Theorem C16_create_by_another_caller_refused :
  forall conv st caller a g, caller <> a -> precompile_create conv st caller a a g = cfail st.
Proof. exact create_by_another_caller_refused. Qed.
Print Assumptions C16_create_by_another_caller_refused.

(** non-vacuity: an ordinary creation (5 % / 20 % / 5 %, value 10^18 of a balance of 50 * 10^18) *)
Theorem C16_create_example :
  args_u256 w_cv_plain /\
  native_create w_cv_state w_cv_plain =
    mk_cout true
      (Some (mk_cnew 50000000000000000 200000000000000000 50000000000000000 1 1000000000000000000
                     1000000000000000000000000000000000000 1000000000000000000000000000000000000))
      49000000000000000000 /\
  precompile_create conv_id w_cv_state 1 1 1 w_cv_plain = native_create w_cv_state w_cv_plain /\
  precompile_create conv_low64 w_cv_state 1 1 1 w_cv_plain = native_create w_cv_state w_cv_plain /\
  c_ok (precompile_create conv_id w_cv_state 2 1 1 w_cv_plain) = false.
Proof. exact create_example. Qed.
Print Assumptions C16_create_example.

(** The seeded variant: the rates converted through big.Int.Int64 (the low 64 bits).  It is the code on
    everything below 2^63, hence on every rate set a native message is accepted with ... *)
Theorem C16_create_low64_id_below_2_63 :
  forall x, 0 <= x < 2 ^ 63 -> conv_low64 x = x.
Proof. exact low64_id_below_2_63. Qed.
Print Assumptions C16_create_low64_id_below_2_63.

Theorem C16_create_low64_agrees_where_native_accepts :
  forall st a g, a <> 0 -> args_u256 g -> c_ok (native_create st g) = true ->
    precompile_create conv_low64 st a a a g = native_create st g.
Proof. exact low64_agrees_where_native_accepts. Qed.
Print Assumptions C16_create_low64_agrees_where_native_accepts.

(** ... and it is refuted where the native message refuses: rates 2^64 + 5 % / 2^64 + 20 % / 2^64 + 5 %
    (about 1849 %) are refused by the native message and by the code, the variant creates a validator
    with a commission of 5 % and locks the self-delegation; one rate above 2^64 is enough *)
Theorem C16_create_low64_refuted :
  args_u256 w_cv_huge /\
  native_create w_cv_state w_cv_huge = cfail w_cv_state /\
  precompile_create conv_id w_cv_state 1 1 1 w_cv_huge = cfail w_cv_state /\
  precompile_create conv_low64 w_cv_state 1 1 1 w_cv_huge =
    mk_cout true
      (Some (mk_cnew 50000000000000000 200000000000000000 50000000000000000 1 1000000000000000000
                     1000000000000000000000000000000000000 1000000000000000000000000000000000000))
      49000000000000000000.
Proof. exact low64_refuted. Qed.
Print Assumptions C16_create_low64_refuted.

Theorem C16_create_low64_refuted_one_rate :
  args_u256 w_cv_rate_only /\
  c_ok (native_create w_cv_state w_cv_rate_only) = false /\
  c_ok (precompile_create conv_low64 w_cv_state 1 1 1 w_cv_rate_only) = true.
Proof. exact low64_refuted_one_rate. Qed.
Print Assumptions C16_create_low64_refuted_one_rate.
