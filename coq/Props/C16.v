(** Property C16 — a precompile call has exactly the effect of the native message.
    Only statements; closed by lemmas of Evm/SupplyProofs.v. *)
From Coq Require Import ZArith List.
From stdpp Require Import gmap.
From HV Require Import Evm.ExecModel Evm.SupplyProofs Evm.Witnesses.
Local Open Scope Z_scope.

(** For every method and every argument value, in every state: when the account owner
    calls the precompile directly, the Cosmos-side effect of the precompile body
    (delegations, unbondings, rewards, withdraw address, grants, bank balances) and its
    success or failure are exactly those of the native message.  Partial: the statement
    is about the effect before the transaction's final StateDB commit. *)
Theorem C16_owner_call_cosmos_effect_eq_native_partial :
  forall W D o p, who_of p = o ->
    let '(W1, _, oc) := pre_body W D o o p in
    let '(W2, oc2) := native W p in
    W1 = W2 /\ oc = oc2.
Proof. exact owner_call_cosmos_effect_eq_native. Qed.
Print Assumptions C16_owner_call_cosmos_effect_eq_native_partial.

(** ... and the final commit is where the whole-transaction statement fails on the
    unchanged tree (known finding K6): delegate with pending rewards. *)
Theorem C16_delegate_with_pending_rewards_refuted_K6 :
  model_obs w_k6_eoa_delegate = impl_obs w_k6_eoa_delegate /\
  b_ok (model_obs w_k6_eoa_delegate) = true /\ b_supply (model_obs w_k6_eoa_delegate) = -1499.
Proof. exact k6_refuted. Qed.
Print Assumptions C16_delegate_with_pending_rewards_refuted_K6.

(** non-vacuity: an owner call without pending rewards, reproduced exactly *)
Theorem C16_owner_call_reproduced_example :
  model_obs w_ok_setwithdraw = impl_obs w_ok_setwithdraw /\ b_ok (model_obs w_ok_setwithdraw) = true.
Proof. vm_compute. auto. Qed.
Print Assumptions C16_owner_call_reproduced_example.

(** non-vacuity for the ICS-20 precompile: the owner's transfer escrows exactly the amount, reproduced exactly *)
Theorem C16_owner_ibc_transfer_reproduced_example :
  model_obs w_ok_owner_transfer = impl_obs w_ok_owner_transfer /\
  b_ok (model_obs w_ok_owner_transfer) = true /\ b_supply (model_obs w_ok_owner_transfer) = 0 /\
  nth 13 (b_bal (model_obs w_ok_owner_transfer)) 0 = 700.
Proof. exact ok_owner_transfer_conserves. Qed.
Print Assumptions C16_owner_ibc_transfer_reproduced_example.
