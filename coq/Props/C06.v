(** Property C06 — Ethereum messages and blocked types cannot bypass their route.
    This file only states the property theorems and closes each with a lemma of
    Ante/RouteProofs.v; [Print Assumptions] follows every theorem.

    Vocabulary (Ante/RouteModel.v, Ante/RouteProofs.v):
      [msg]             Eth | Plain url | Exec (list msg) | Grant url | GrantBad | Opaque
      [occurs m msgs]   m is a top-level message of the transaction or occurs below one, at any depth
      [inside_exec m msgs]  m is one of the packed messages of some MsgExec of the transaction, at any depth
      [direct_url m]    the type url of a message that is neither MsgExec nor MsgGrant
      [check_disabled dis msgs]  AuthzLimiterDecorator with the disabled list [dis] (level arithmetic of the code)
      [deep_list msgs 1]  the entry test nestedLvl >= 7 fires somewhere in the tree
      [ante i]          NewAnteHandler on the transaction [i] = (messages, extension options,
                        non-critical options, how it was signed); [real_dis] = the list of handler_options.go
    All statements quantify over every message tree (any depth and width, blocked
    items at any position), every option list and every signing state. *)
From Coq Require Import NArith Arith Bool List.
Import ListNotations.
From HV Require Import Ante.RouteModel Ante.RouteProofs.

(** When the limiter lets a transaction through — for every tree and every
    disabled list — no disabled message type sits inside any MsgExec at any depth,
    no MsgGrant anywhere authorises a disabled type, nothing is malformed and no
    level test fired. *)
Theorem C06_limiter_sound :
  forall (dis : url -> bool) (msgs : list msg),
    check_disabled dis msgs = Ok ->
    (forall m u, inside_exec m msgs -> direct_url m = Some u -> dis u = false) /\
    (forall u, occurs (Grant u) msgs -> dis u = false) /\
    ~ occurs GrantBad msgs /\ ~ occurs Opaque msgs /\
    deep_list msgs 1 = false.
Proof. exact limiter_sound. Qed.
Print Assumptions C06_limiter_sound.

(** Exactly those: a well-formed tree without blocked content that stays under the
    cap is accepted (completeness), so acceptance by the limiter is characterised. *)
Theorem C06_limiter_accepts_iff :
  forall (dis : url -> bool) (msgs : list msg),
    check_disabled dis msgs = Ok <-> tree_clean dis msgs /\ deep_list msgs 1 = false.
Proof. exact limiter_accepts_iff. Qed.
Print Assumptions C06_limiter_accepts_iff.

(** Beyond the cap everything is rejected, whatever the content. *)
Theorem C06_deep_tree_rejected :
  forall (dis : url -> bool) (msgs : list msg),
    deep_list msgs 1 = true -> check_disabled dis msgs <> Ok.
Proof. exact deep_tree_rejected. Qed.
Print Assumptions C06_deep_tree_rejected.

(** The cap in familiar measures: six MsgExec nested in one another are rejected ... *)
Theorem C06_nesting_depth_6_rejected :
  forall (dis : url -> bool) (msgs : list msg),
    6 <= depth_list msgs -> check_disabled dis msgs <> Ok.
Proof. exact nesting_depth_6_rejected. Qed.
Print Assumptions C06_nesting_depth_6_rejected.

(** ... so are six sibling MsgExec in one list, nested or not (the counter is
    bumped per sibling: width counts as depth) ... *)
Theorem C06_six_sibling_execs_rejected :
  forall (dis : url -> bool) (msgs : list msg),
    6 <= sibling_execs msgs -> check_disabled dis msgs <> Ok.
Proof. exact six_sibling_execs_rejected. Qed.
Print Assumptions C06_six_sibling_execs_rejected.

(** ... while a clean transaction with at most five MsgExec in total is always accepted. *)
Theorem C06_five_execs_within_cap :
  forall (dis : url -> bool) (msgs : list msg),
    execs_list msgs <= 5 -> tree_clean dis msgs -> check_disabled dis msgs = Ok.
Proof. exact five_execs_within_cap. Qed.
Print Assumptions C06_five_execs_within_cap.

(** The bounds are tight. *)
Theorem C06_cap_is_tight :
  check_disabled real_dis (nest 5 [Plain 2%N]) = Ok /\
  check_disabled real_dis (nest 6 [Plain 2%N]) = Err E_TOO_DEEP /\
  check_disabled real_dis (repeat (Exec [Plain 2%N]) 5) = Ok /\
  check_disabled real_dis (repeat (Exec [Plain 2%N]) 6) = Err E_TOO_DEEP /\
  check_disabled real_dis (nest 5 [Plain 2%N; Plain 2%N; Eth]) = Err E_DISABLED.
Proof. exact (conj chain_5_accepted (conj chain_6_rejected (conj wide_5_accepted (conj wide_6_rejected eq_refl)))). Qed.
Print Assumptions C06_cap_is_tight.

(** A transaction accepted on the Cosmos route or on the EIP-712 route contains no
    MsgEthereumTx, at top level or inside a MsgExec at any depth. *)
Theorem C06_eth_only_via_eth_route :
  forall i : input,
    (select (i_opts i) = RCosmos \/ select (i_opts i) = REip712) -> ante i = Ok ->
    ~ occurs Eth (i_msgs i).
Proof. exact eth_only_via_eth_route. Qed.
Print Assumptions C06_eth_only_via_eth_route.

(** On those routes, the types of the disabled list (MsgEthereumTx,
    MsgCreateVestingAccount) are neither nested in a MsgExec nor granted. *)
Theorem C06_blocked_types_neither_granted_nor_nested :
  forall i : input,
    (select (i_opts i) = RCosmos \/ select (i_opts i) = REip712) -> ante i = Ok ->
    (forall m u, inside_exec m (i_msgs i) -> direct_url m = Some u -> real_dis u = false) /\
    (forall u, occurs (Grant u) (i_msgs i) -> real_dis u = false).
Proof. exact blocked_types_neither_granted_nor_nested. Qed.
Print Assumptions C06_blocked_types_neither_granted_nor_nested.

(** On the Ethereum route every message is a MsgEthereumTx and there is exactly
    one extension option (no non-critical ones). *)
Theorem C06_eth_route_only_eth_msgs_one_option :
  forall i : input,
    select (i_opts i) = REth -> ante i = Ok ->
    Forall (fun m => m = Eth) (i_msgs i) /\
    (exists o, i_opts i = [o] /\ o_kind o = KEth) /\
    i_noncrit i = [].
Proof. exact eth_route_only_eth_msgs_one_option. Qed.
Print Assumptions C06_eth_route_only_eth_msgs_one_option.

(** An unknown extension option, in any position, on any route: rejected. *)
Theorem C06_unknown_option_rejected_every_route :
  forall i : input,
    (exists o, In o (i_opts i) /\ o_kind o = KUnk) -> ante i <> Ok.
Proof. exact unknown_option_rejected_every_route. Qed.
Print Assumptions C06_unknown_option_rejected_every_route.

(** The option lists that can be accepted at all: the Ethereum option alone, the
    decoded Web3 option alone, or any number of decoded dynamic-fee options. *)
Theorem C06_accepted_option_lists :
  forall i : input,
    ante i = Ok ->
    (exists o, i_opts i = [o] /\ o_kind o = KEth) \/
    i_opts i = [mkopt KWeb3 true] \/
    Forall (fun o => o = mkopt KDyn true) (i_opts i).
Proof. exact accepted_option_lists. Qed.
Print Assumptions C06_accepted_option_lists.

(** The statement of the property in one piece. *)
Theorem C06_accepted_transaction_is_clean :
  forall i : input,
    ante i = Ok ->
    (forall o, In o (i_opts i) -> o_kind o <> KUnk) /\
    (occurs Eth (i_msgs i) -> select (i_opts i) = REth /\ Forall (fun m => m = Eth) (i_msgs i)) /\
    (forall m u, inside_exec m (i_msgs i) -> direct_url m = Some u -> real_dis u = false) /\
    (forall u, occurs (Grant u) (i_msgs i) -> real_dis u = false).
Proof. exact accepted_transaction_is_clean. Qed.
Print Assumptions C06_accepted_transaction_is_clean.

(** Scope of "extension option": the non-critical ones are ignored on both Cosmos
    routes, known or not (that is their definition in tx.proto). *)
Theorem C06_non_critical_options_ignored_off_eth_route :
  forall d ms os nc s,
    select os <> REth -> ante (mkinput d ms os nc s) = ante (mkinput d ms os [] s).
Proof. exact non_critical_options_ignored_off_eth_route. Qed.
Print Assumptions C06_non_critical_options_ignored_off_eth_route.

(** Non-vacuity: each route accepts something, nested wrappers included. *)
Theorem C06_every_route_accepts_something :
  ante (mkinput [] [Exec [Plain 2%N; Exec [Grant 2%N; Plain 3%N]]; Plain url_vesting] [mkopt KDyn true] [] SCosmos) = Ok /\
  ante (mkinput [] [Exec [Plain 2%N]] [mkopt KWeb3 true] [] SEip712) = Ok /\
  ante (mkinput [] [Eth; Eth] [mkopt KEth true] [] SEth) = Ok.
Proof. exact (conj accept_nested (conj accept_eip712 accept_eth)). Qed.
Print Assumptions C06_every_route_accepts_something.

(** Observation (over-rejection, no safety impact): because the counter is bumped
    per sibling, acceptance depends on the order of the messages of a transaction. *)
Theorem C06_limiter_not_permutation_invariant :
  exists a b, (forall m, In m a <-> In m b) /\ length a = length b /\
              check_disabled real_dis a = Ok /\ check_disabled real_dis b <> Ok.
Proof. exact limiter_not_permutation_invariant. Qed.
Print Assumptions C06_limiter_not_permutation_invariant.
