(** Property C07 — every transaction pays the fee floor; EVM gas is charged exactly.
    This file only states the property theorems and closes each with a lemma of
    Fees/FeeProofs.v; [Print Assumptions] follows every theorem.

    Model: Fees/FeeModel.v (the ante chains of both routes in the order of
    app/ante/handler_options.go, VerifyFee / deduction, GasToRefund, the
    min-gas-used rule, RefundGas, ApplyTransaction's hard-error path, multi-message
    transactions).  The EVM interpreter is an argument: [evm_out] per message.

    Guards, all enforced by the code itself: [params_ok] = MinGasPrice >= 0,
    base fee >= 0, MinGasMultiplier in [0,1] (feemarket Params.Validate), refund
    quotient > 0; [evs_sane] = the EVM reports gas consumed <= gas limit and a
    non-negative refund counter; [msg_basic_ok] = MsgEthereumTx.ValidateBasic.
    Amounts of Dec type are raw integers (value x 10^18 = [dl_one]). *)
From Coq Require Import ZArith NArith List.
From HV Require Import Fees.DecLite Fees.FeeModel Fees.FeeProofs Fees.FeeSigners.
Import ListNotations.
Local Open Scope Z_scope.

(** ---- acceptance: fee floor and base fee ---- *)

(** Cosmos route (MinGasPriceDecorator): an accepted transaction declares, in the
    EVM denomination, fee >= gasLimit x minGasPrice; the gas limit is positive and
    no fee coin is negative.  For all parameters, balances, fee coins (any
    denominations), tips. *)
Theorem C07_accepted_cosmos_fee_ge_floor :
  forall p bal gas fee tip paid,
    0 <= p_mgp p ->
    cosmos_ante p bal gas fee tip = inr paid ->
    p_mgp p * gas <= amount_of fee 0%N * dl_one /\ 0 < gas /\
    (forall c, In c fee -> 0 <= snd c).
Proof. exact accepted_cosmos_fee_ge_floor. Qed.
Print Assumptions C07_accepted_cosmos_fee_ge_floor.

(** Eth route, DeliverTx or CheckTx, every message of an accepted (possibly
    multi-message) transaction, every transaction type: the fee charged up front
    (gasLimit x gasPrice for legacy / access-list, gasLimit x min(tip + base,
    feeCap) for dynamic-fee messages) is >= gasLimit x minGasPrice, and the fee
    the message offers (gasLimit x gasPrice resp. feeCap) is at least that. *)
Theorem C07_accepted_eth_fee_ge_floor :
  forall check p bal ms d m,
    0 <= p_mgp p -> 0 <= p_base p -> forallb msg_basic_ok ms = true ->
    eth_ante check p bal ms = inr d -> In m ms ->
    p_mgp p * m_gas m <= eff_fee (p_base p) m * dl_one /\
    eff_fee (p_base p) m <= declared_fee m.
Proof. exact accepted_eth_fee_ge_floor. Qed.
Print Assumptions C07_accepted_eth_fee_ge_floor.

(** ... where, per transaction type: *)
Theorem C07_effective_fee_by_type :
  forall base m,
    eff_fee base m =
    match m_ty m with
    | Legacy | AccessL => m_price m * m_gas m
    | Dynamic => Z.min (m_tip m + base) (m_price m) * m_gas m
    end.
Proof. exact eff_fee_by_type. Qed.
Print Assumptions C07_effective_fee_by_type.

(** No Ethereum message is accepted with a fee cap (gas price for legacy and
    access-list messages) below the current base fee. *)
Theorem C07_accepted_eth_cap_ge_base :
  forall check p bal ms d m,
    eth_ante check p bal ms = inr d -> In m ms -> p_base p <= fee_cap m.
Proof. exact accepted_eth_cap_ge_base. Qed.
Print Assumptions C07_accepted_eth_cap_ge_base.

(** The up-front deduction is the sum over the messages of gasLimit x effective price. *)
Theorem C07_eth_ante_deducts_upfront :
  forall check p bal ms d,
    eth_ante check p bal ms = inr d -> d = zsum (map (eff_fee (p_base p)) ms).
Proof. exact eth_ante_deducts_upfront. Qed.
Print Assumptions C07_eth_ante_deducts_upfront.

(** ---- gas used ---- *)

(** gasUsed = max(floor(minGasMultiplier x gasLimit), consumed after refunds): at
    least both, at most the gas limit, whenever the multiplier is in [0,1] and
    the consumption after refunds is within the limit. *)
Theorem C07_gas_used_bounds :
  forall p gas temp,
    0 <= p_mult p <= dl_one -> 0 <= temp <= gas ->
    let u := gas_used_of p gas temp in
    u = Z.max (p_mult p * gas / dl_one) temp /\
    temp <= u /\ p_mult p * gas / dl_one <= u /\ 0 <= u <= gas.
Proof. exact gas_used_bounds. Qed.
Print Assumptions C07_gas_used_bounds.

(** the guard is necessary: a multiplier of 2 (refused by Params.Validate) gives gasUsed 42000 > 21000 *)
Theorem C07_gas_used_exceeds_limit_when_mult_gt_1 :
  gas_used_of (mkparams 0 0 (2 * dl_one) 5) 21000 21000 = 42000.
Proof. exact gas_used_exceeds_limit_when_mult_gt_1. Qed.
Print Assumptions C07_gas_used_exceeds_limit_when_mult_gt_1.

(** the gas refunded for the refund counter is min(counter, consumed / quotient), between 0 and consumed *)
Theorem C07_gas_to_refund_bounds :
  forall rc consumed quot,
    0 < quot -> 0 <= rc -> 0 <= consumed ->
    0 <= gas_to_refund rc consumed quot <= consumed /\
    gas_to_refund rc consumed quot = Z.min rc (consumed / quot).
Proof. exact gas_to_refund_bounds. Qed.
Print Assumptions C07_gas_to_refund_bounds.

(** ---- money flow of an executed Ethereum transaction ---- *)

(** one message: the refund is (gasLimit - gasUsed) x effective price; up-front
    deduction minus refund = gasUsed x effective price; gasUsed within the limit *)
Theorem C07_refund_eq_leftover_times_price :
  forall p coll m ev u a,
    params_ok p -> msg_basic_ok m = true -> evm_sane m ev ->
    apply_msg p coll m ev = Some (u, a) ->
    a = (m_gas m - u) * eff_price (p_base p) m /\
    m_gas m * eff_price (p_base p) m - a = u * eff_price (p_base p) m /\
    0 <= u <= m_gas m.
Proof. exact refund_eq_leftover_times_price. Qed.
Print Assumptions C07_refund_eq_leftover_times_price.

(** whole (multi-message) transaction, every execution outcome (success, revert,
    out of gas): deduction = sum gasLimit x price; every message satisfies
    [msg_spec] (gasUsed = max(consumed - min(counter, consumed/quot),
    floor(mult x limit)) <= limit, refund = leftover x price); the sender's net
    payment = sum of gasUsed x effective price *)
Theorem C07_sender_net_eq_used_times_price :
  forall p bal coll ms evs d l,
    params_ok p -> evs_sane ms evs ->
    deliver_eth p bal coll ms evs = Executed d l ->
    d = upfront (p_base p) ms /\
    msgs_spec p ms evs l /\
    result_net (Executed d l) = charges (p_base p) ms l /\
    0 <= zsum (map snd l) /\ length l = length ms.
Proof. exact sender_net_eq_used_times_price. Qed.
Print Assumptions C07_sender_net_eq_used_times_price.

(** the fee collector's increase is the sender's decrease, for every result *)
Theorem C07_collector_delta_eq_sender_net :
  forall bal coll r,
    let '(b', c') := balances_after bal coll r in
    c' - coll = bal - b' /\ c' - coll = result_net r.
Proof. exact collector_delta_eq_sender_net. Qed.
Print Assumptions C07_collector_delta_eq_sender_net.

(** ApplyTransaction returns an error: the whole gas limit of every message stays
    charged, nothing is refunded, the response reports the sum of the limits *)
Theorem C07_hard_error_charges_limit :
  forall p bal coll ms evs d g,
    deliver_eth p bal coll ms evs = Failed d g ->
    d = upfront (p_base p) ms /\ g = zsum (map m_gas ms) /\ result_net (Failed d g) = d /\
    upfront (p_base p) ms = zsum (map (fun m => m_gas m * eff_price (p_base p) m) ms).
Proof. exact hard_error_charges_limit. Qed.
Print Assumptions C07_hard_error_charges_limit.

(** CheckTx vs DeliverTx: a gas limit below the intrinsic gas is refused by
    CheckTx but accepted by DeliverTx, which then charges the whole limit *)
Theorem C07_intrinsic_too_low_deliver_charges_all :
  forall p bal coll m ev d,
    msg_basic_ok m = true -> m_gas m < m_intr m ->
    eth_ante false p bal [m] = inr d ->
    deliver_eth p bal coll [m] [ev] = Failed (m_gas m * eff_price (p_base p) m) (m_gas m) /\
    check_eth p bal [m] <> OK.
Proof. exact intrinsic_too_low_deliver_charges_all. Qed.
Print Assumptions C07_intrinsic_too_low_deliver_charges_all.

(** ---- histories ---- *)

(** over every sequence of transactions (both routes, parameters changing between
    them, all outcomes) the fee collector gains exactly the sum of what the
    property prescribes per transaction ([spec_paid]) *)
Theorem C07_history_collector_total :
  forall h coll,
    Forall step_sane h ->
    run_history coll h = coll + zsum (history_spec coll h).
Proof. exact history_collector_total. Qed.
Print Assumptions C07_history_collector_total.

(** ---- what is finally paid against the floor ---- *)

(** Cosmos route: what is charged is min(base + tip, floor(fee / gas)) x gas, never more than declared *)
Theorem C07_cosmos_paid_spec :
  forall p bal gas fee tip paid,
    0 <= p_base p ->
    cosmos_ante p bal gas fee tip = inr paid ->
    paid = cosmos_eff_price p gas fee tip * gas /\ 0 <= paid <= amount_of fee 0%N /\
    p_base p <= cosmos_fee_cap gas fee.
Proof. exact cosmos_paid_spec. Qed.
Print Assumptions C07_cosmos_paid_spec.

(** Eth route: the amount finally paid covers (gas charged) x minGasPrice — no condition on the base fee *)
Theorem C07_eth_paid_ge_floor :
  forall p bal coll ms evs,
    params_ok p -> evs_sane ms evs ->
    let r := deliver_eth p bal coll ms evs in
    p_mgp p * gas_charged (EthTx ms evs) r <= result_net r * dl_one.
Proof. exact eth_paid_ge_floor. Qed.
Print Assumptions C07_eth_paid_ge_floor.

(** link to C17: when base fee >= minGasPrice, every accepted transaction of
    either route finally pays at least (gas charged) x minGasPrice *)
Theorem C07_paid_ge_floor_when_base_ge_min :
  forall p bal coll t,
    params_ok p -> p_mgp p <= p_base p * dl_one -> tx_sane t ->
    let r := deliver p bal coll t in
    p_mgp p * gas_charged t r <= result_net r * dl_one.
Proof. exact paid_ge_floor_when_base_ge_min. Qed.
Print Assumptions C07_paid_ge_floor_when_base_ge_min.

(** without that guard the Cosmos route charges less than the floor although the
    declared fee meets it (witness replayed on the real code, corpus/C07):
    minGasPrice 1.5, base fee 1, gas 1 000 000, fee 1 500 000: charged 1 000 000 *)
Theorem C07_cosmos_paid_ge_floor_refuted :
  let p := cosmos_below_floor_params in
  0 <= p_mgp p /\ 0 <= p_base p /\
  cosmos_ante p (10 ^ 23) 1000000 [(0%N, 1500000)] None = inr 1000000 /\
  p_mgp p * 1000000 <= amount_of [(0%N, 1500000)] 0%N * dl_one /\
  1000000 * dl_one < p_mgp p * 1000000.
Proof. exact cosmos_paid_ge_floor_refuted. Qed.
Print Assumptions C07_cosmos_paid_ge_floor_refuted.

(** with the base fee disabled (NoBaseFee: base 0) and the dynamic-fee extension
    option carrying a zero tip, a Cosmos transaction declaring the floor pays nothing *)
Theorem C07_cosmos_zero_tip_pays_nothing_refuted :
  let p := mkparams dl_one 0 0 5 in
  cosmos_ante p (10 ^ 23) 300000 [(0%N, 300000)] (Some 0) = inr 0.
Proof. exact cosmos_zero_tip_pays_nothing_refuted. Qed.
Print Assumptions C07_cosmos_zero_tip_pays_nothing_refuted.

(** ---- non-vacuity: concrete accepted / executed transactions meeting every hypothesis ---- *)
Theorem C07_nonvacuous_params : params_ok ex_params.
Proof. exact ex_params_ok. Qed.
Print Assumptions C07_nonvacuous_params.

Theorem C07_nonvacuous_multi_message_executed :
  evs_sane [ex_legacy; ex_dynamic; mkmsg AccessL 23000 2 0 0 21000]
           [Ran 30000 4800 false; Ran 47000 19200 false; Ran 23000 0 true] /\
  deliver_eth ex_params (10 ^ 20) 0
    [ex_legacy; ex_dynamic; mkmsg AccessL 23000 2 0 0 21000]
    [Ran 30000 4800 false; Ran 47000 19200 false; Ran 23000 0 true]
  = Executed 526000 [(50000, 150000); (37600, 67200); (23000, 0)].
Proof. exact (conj ex_multi_sane ex_multi_executed). Qed.
Print Assumptions C07_nonvacuous_multi_message_executed.

Theorem C07_nonvacuous_hard_error :
  deliver_eth ex_params (10 ^ 20) 0 [ex_legacy; ex_dynamic] [Ran 30000 4800 false; HardErr]
  = Failed 480000 160000.
Proof. exact ex_multi_failed. Qed.
Print Assumptions C07_nonvacuous_hard_error.

Theorem C07_nonvacuous_cosmos_executed :
  deliver_cosmos (mkparams 1500000000000000000 2 0 5) (10 ^ 20) 300000 [(0%N, 600000)] None 5
  = Executed 600000 [].
Proof. exact ex_cosmos_executed. Qed.
Print Assumptions C07_nonvacuous_cosmos_executed.

Theorem C07_nonvacuous_rejections :
  deliver_eth ex_params (10 ^ 20) 0 [mkmsg Legacy 100000 1 0 0 21000] [Ran 30000 0 false] = Rejected EFee /\
  deliver_eth (mkparams 0 7 0 5) (10 ^ 20) 0 [mkmsg Dynamic 100000 6 6 0 21000] [Ran 30000 0 false] = Rejected EFee /\
  deliver_cosmos (mkparams 1500000000000000000 1 0 5) (10 ^ 20) 300000 [(0%N, 449999)] None 5 = Rejected EFee.
Proof. exact (conj ex_below_floor_rejected (conj ex_cap_below_base_rejected ex_cosmos_below_floor_rejected)). Qed.
Print Assumptions C07_nonvacuous_rejections.

(** ---- several signers in one transaction ---- *)

(** Model: [deliver_eth_s] (Fees/FeeModel.v) - a Cosmos transaction wrapping
    Ethereum messages of different signers; balances are a function of the signer;
    EthGasConsumeDecorator deducts gasLimit x effective price of a message from the
    signer of that message, RefundGas returns the leftover to the same signer.

    For ALL lists of messages and ALL assignments of signers to them, every
    execution outcome: an executed transaction leaves every message with the gas
    used of the property ([msgs_spec]); EVERY signer's balance decreases by exactly
    the sum of gasUsed x effective price over the messages it signed
    ([charges_of]); the fee collector gains exactly the sum over all messages. *)
Theorem C07_signer_net_eq_own_charges :
  forall p b coll sms evs b2 c2 l,
    params_ok p -> evs_sane (map snd sms) evs ->
    deliver_eth_s p b coll sms evs = ExecutedS b2 c2 l ->
    msgs_spec p (map snd sms) evs l /\
    (forall s, b s - b2 s = charges_of s (p_base p) sms l) /\
    c2 - coll = charges (p_base p) (map snd sms) l /\
    length l = length sms.
Proof. exact signer_net_eq_own_charges. Qed.
Print Assumptions C07_signer_net_eq_own_charges.

(** ... where a signer's charge depends on nothing but its own (message, gas
    used) pairs: the other signers' messages do not enter, *)
Theorem C07_signer_charge_only_own_messages :
  forall s base sms l,
    charges_of s base sms l =
    zsum (map (fun x => fst (snd x) * eff_price base (fst x)) (own_part s (combine sms l))).
Proof. exact charges_of_own_part. Qed.
Print Assumptions C07_signer_charge_only_own_messages.

(** an account that signed none of the messages pays nothing, *)
Theorem C07_signer_without_message_pays_nothing :
  forall s base sms l,
    (forall sm, In sm sms -> fst sm <> s) -> charges_of s base sms l = 0.
Proof. exact charges_of_no_message. Qed.
Print Assumptions C07_signer_without_message_pays_nothing.

(** the order of the messages does not matter, *)
Theorem C07_signer_charge_order_independent :
  forall s base sms l sms' l',
    Permutation.Permutation (combine sms l) (combine sms' l') ->
    charges_of s base sms l = charges_of s base sms' l'.
Proof. exact charges_of_perm. Qed.
Print Assumptions C07_signer_charge_order_independent.

(** and the signers' charges add up to what the collector receives (over any
    duplicate-free list of accounts containing all signers). *)
Theorem C07_signer_charges_sum_to_collector :
  forall base ss, NoDup ss -> forall sms l,
    (forall sm, In sm sms -> In (fst sm) ss) ->
    zsum (map (fun s => charges_of s base sms l) ss) = charges base (map snd sms) l.
Proof. exact charges_of_total. Qed.
Print Assumptions C07_signer_charges_sum_to_collector.

(** ante passed, a message returned an error: every signer stays charged
    gasLimit x effective price of its own messages, the collector holds the total *)
Theorem C07_signer_hard_error_charges_own_limit :
  forall p b coll sms evs b1 c1 g,
    deliver_eth_s p b coll sms evs = FailedS b1 c1 g ->
    (forall s, b s - b1 s = upfront_of s (p_base p) sms) /\
    c1 - coll = upfront (p_base p) (map snd sms) /\
    g = zsum (map m_gas (map snd sms)).
Proof. exact signer_hard_error_charges_own_limit. Qed.
Print Assumptions C07_signer_hard_error_charges_own_limit.

(** one account signs every message ([all_signed_by s]): the signer model and the
    single-sender model of the theorems further up give the same verdict, the same
    per-message results, the same payment of that account and the same collector gain *)
Theorem C07_single_signer_models_agree :
  forall p s b coll sms evs,
    all_signed_by s sms ->
    match deliver_eth_s p b coll sms evs, deliver_eth p (b s) coll (map snd sms) evs with
    | RejectedS c, Rejected c' => c = c'
    | FailedS b1 c1 g, Failed d g' => g = g' /\ c1 - coll = d /\ b s - b1 s = d
    | ExecutedS b2 c2 l, Executed d l' =>
        l = l' /\ c2 - coll = d - zsum (map snd l) /\ b s - b2 s = d - zsum (map snd l)
    | _, _ => False
    end.
Proof. exact single_signer_agrees. Qed.
Print Assumptions C07_single_signer_models_agree.

(** non-vacuity: [ex_aba] = [A; B; A] (A: legacy and access-list message, B: the
    dynamic-fee one) executed, all hypotheses met; observed: nets of A, B, C (C pays
    nothing), collector gain, gas used per message *)
Theorem C07_nonvacuous_signers_executed :
  evs_sane (map snd ex_aba) ex_aba_evs /\
  observe_s ex_params 3 ex_bals 0 ex_aba ex_aba_evs
  = mkobs OK OK 0 183000 110600 [50000 * 3 + 23000 * 2; 37600 * 3; 0] (50000 * 3 + 37600 * 3 + 23000 * 2) [50000; 37600; 23000].
Proof. exact ex_signers_executed. Qed.
Print Assumptions C07_nonvacuous_signers_executed.

(** the variant that accumulates the verified fees of consecutive messages of one
    signer, deducts the running amount when the payer changes and once after the
    last message, and never clears it ([deliver_eth_acc]) violates the statement
    on [A; B]: B pays its own gas plus A's whole up-front fee (gasLimit 100000 x
    price 3) and the collector keeps that surplus, while [deliver_eth_s] (the
    code) charges B its own gas only *)
Theorem C07_accumulating_deduction_refuted :
  let sms := [(0%N, ex_legacy); (1%N, ex_dynamic)] in
  let evs := [Ran 30000 4800 false; Ran 47000 19200 false] in
  match deliver_eth_acc ex_params ex_bals 0 sms evs, deliver_eth_s ex_params ex_bals 0 sms evs with
  | ExecutedS b2 c2 l, ExecutedS b2' c2' l' =>
      l = l' /\ l = [(50000, 150000); (37600, 67200)] /\
      ex_bals 0%N - b2 0%N = charges_of 0%N 2 sms l /\
      ex_bals 1%N - b2 1%N = charges_of 1%N 2 sms l + 100000 * 3 /\
      ex_bals 1%N - b2 1%N <> charges_of 1%N 2 sms l /\
      c2 = charges 2 (map snd sms) l + 100000 * 3 /\
      ex_bals 1%N - b2' 1%N = charges_of 1%N 2 sms l /\
      c2' = charges 2 (map snd sms) l
  | _, _ => False
  end.
Proof. exact accumulating_deduction_refuted. Qed.
Print Assumptions C07_accumulating_deduction_refuted.

(** ... and is indistinguishable from the code when one account signs every message *)
Theorem C07_accumulating_deduction_single_signer_agrees :
  let sms := [(0%N, ex_legacy); (0%N, ex_dynamic); (0%N, ex_access)] in
  let evs := [Ran 30000 4800 false; Ran 47000 19200 false; Ran 23000 0 true] in
  match deliver_eth_acc ex_params ex_bals 0 sms evs, deliver_eth_s ex_params ex_bals 0 sms evs with
  | ExecutedS b2 c2 l, ExecutedS b2' c2' l' => l = l' /\ b2 0%N = b2' 0%N /\ c2 = c2'
  | _, _ => False
  end.
Proof. exact accumulating_deduction_single_signer_agrees. Qed.
Print Assumptions C07_accumulating_deduction_single_signer_agrees.
