From HV Require Import Fees.FeeModel.
