(** Property C18 — Ethereum transactions survive the Cosmos envelope unchanged.
    Only statements, each closed by a lemma of TxCodec/EthTxProofs.v (or
    Base/RlpProofs.v) and followed by [Print Assumptions].

    Reading guide.  [eth_tx] is a go-ethereum transaction (legacy incl. EIP-155
    and pre-155 V values, access-list, dynamic-fee); [to_txdata csum tx] is
    [MsgEthereumTx.FromEthereumTx] = [NewTxDataFromTx] (the chain's protobuf
    TxData); [of_txdata d] is [MsgEthereumTx.AsTransaction] on the decoded
    message.  [csum] is the EIP-55 case pattern of [Address.Hex] (a Keccak): the
    theorems hold for every such function.  What lies between the two
    (protobuf/Any/TxRaw bytes, [BuildTx], TxEncoder, TxDecoder) is not modelled:
    the correspondence run passes every generated transaction through it. *)
From Coq Require Import Ascii String.
From Coq Require Import NArith ZArith List.
From HV Require Import Base.Bytes Base.Rlp Base.RlpProofs TxCodec.EthTxModel TxCodec.EthTxProofs TxCodec.UnwrapProofs.
Import ListNotations.
Local Open Scope Z_scope.

(** Shared infrastructure: RLP, as go-ethereum writes it, is injective on items
    and prefix-free (items whose lengths fit RLP's 8 length bytes). *)
Theorem C18_rlp_encode_inj :
  forall a b : item, wf a -> wf b -> encode a = encode b -> a = b.
Proof. exact rlp_encode_inj. Qed.
Print Assumptions C18_rlp_encode_inj.

Theorem C18_rlp_prefix_free :
  forall (a b : item) (r1 r2 : list N), wf a -> wf b -> encode a ++ r1 = encode b ++ r2 -> a = b /\ r1 = r2.
Proof. exact rlp_prefix_free. Qed.
Print Assumptions C18_rlp_prefix_free.

(** Identical fields.  Whenever wrapping succeeds, unwrapping returns exactly
    the original transaction: same type, chain id, nonce, prices, gas, To (or
    creation), value, data, access list, V, R, S.  [shape_ok] only states facts
    of the Go types (addresses are 20 valid bytes, storage keys 32, V/R/S not
    negative); there is no other hypothesis. *)
Theorem C18_roundtrip_fields :
  forall (csum : list N -> nat -> bool) (tx : eth_tx) (d : tx_data),
    shape_ok tx -> to_txdata csum tx = Wrapped d -> of_txdata d = Some tx.
Proof. exact roundtrip_fields. Qed.
Print Assumptions C18_roundtrip_fields.

(** The guard the code enforces: wrapping succeeds exactly when value, gas
    price / fee cap / tip cap and (typed transactions) the chain id have at most
    256 bits ([SafeNewIntFromBigInt]; for the chain id
    [sdkmath.NewIntFromBigInt], which panics instead of returning an error). *)
Theorem C18_wrap_succeeds_iff_bounds :
  forall (csum : list N -> nat -> bool) (tx : eth_tx),
    bounds_ok tx <-> exists d, to_txdata csum tx = Wrapped d.
Proof. exact wrap_succeeds_iff_bounds. Qed.
Print Assumptions C18_wrap_succeeds_iff_bounds.

(** Same preimages: the bytes hashed for the transaction hash and the bytes
    hashed for signing (under every signer chain id) are those of the original. *)
Theorem C18_roundtrip_same_preimage :
  forall (csum : list N -> nat -> bool) (tx : eth_tx) (d : tx_data) (tx' : eth_tx),
    shape_ok tx -> to_txdata csum tx = Wrapped d -> of_txdata d = Some tx' ->
    hash_preimage tx' = hash_preimage tx /\ forall cid, sign_preimage cid tx' = sign_preimage cid tx.
Proof. exact roundtrip_same_preimage. Qed.
Print Assumptions C18_roundtrip_same_preimage.

(** Hence, for ANY hash function and ANY signature-recovery function, the same
    hash (the one [FromEthereumTx] records in the message's [Hash] field, and
    the one [ValidateBasic] recomputes from the decoded message) and the same
    recovered sender under every signer. *)
Theorem C18_roundtrip_same_hash_and_sender :
  forall (hash : list N -> list N) (recover : list N -> Z -> Z -> Z -> option (list N))
         (csum : list N -> nat -> bool) (tx : eth_tx) (d : tx_data) (tx' : eth_tx),
    shape_ok tx -> to_txdata csum tx = Wrapped d -> of_txdata d = Some tx' ->
    tx_hash hash tx' = tx_hash hash tx /\
    forall cid, sender hash recover cid tx' = sender hash recover cid tx.
Proof. exact roundtrip_same_hash_and_sender. Qed.
Print Assumptions C18_roundtrip_same_hash_and_sender.

(** Fee, cost, effective price, effective fee, effective cost computed from
    the message equal go-ethereum's figures for the original transaction, for
    a nil base fee and every non-negative base fee; the one exception is
    stated next. *)
Theorem C18_fee_cost_price_agree :
  forall (csum : list N -> nat -> bool) (tx : eth_tx) (d : tx_data),
    to_txdata csum tx = Wrapped d ->
    msg_fee d = Some (geth_fee tx) /\
    msg_cost d = Some (geth_cost tx) /\
    forall base_fee,
      (tx_type tx = 2%N -> base_fee <> None) ->
      (forall b, base_fee = Some b -> 0 <= b) ->
      msg_effective_price d base_fee = Some (geth_effective_price tx base_fee) /\
      msg_effective_fee d base_fee = Some (geth_effective_price tx base_fee * Z.of_N (tx_gas tx)) /\
      msg_effective_cost d base_fee = Some (geth_effective_price tx base_fee * Z.of_N (tx_gas tx) + tx_value tx).
Proof. exact fee_cost_price_agree. Qed.
Print Assumptions C18_fee_cost_price_agree.

(** A dynamic-fee message asked for its effective price with a nil base fee
    does not answer (the Go code adds a nil [*big.Int]: panic), where
    go-ethereum answers the fee cap.  Recorded as an observation: a nil base
    fee means London is not active, and then the ante handler refuses
    dynamic-fee transactions anyway. *)
Theorem C18_dynamic_nil_base_fee_refuted :
  forall (csum : list N -> nat -> bool) (tx : eth_tx) (d : tx_data),
    to_txdata csum tx = Wrapped d -> tx_type tx = 2%N ->
    msg_effective_price d None = None /\ geth_effective_price tx None = tx_fee_cap tx.
Proof. exact dynamic_nil_base_fee_panics. Qed.
Print Assumptions C18_dynamic_nil_base_fee_refuted.

(** Non-vacuity: a dynamic-fee contract creation with maximal caps and a
    two-entry access list (a repeated address, an empty key list), an EIP-155
    legacy transfer and an access-list call satisfy the hypotheses and round-trip. *)
Theorem C18_nonvacuous :
  (shape_ok ex_dynamic /\ shape_ok ex_legacy /\ shape_ok ex_access) /\
  (exists d, to_txdata no_csum ex_dynamic = Wrapped d /\ of_txdata d = Some ex_dynamic) /\
  (exists d, to_txdata no_csum ex_legacy = Wrapped d /\ of_txdata d = Some ex_legacy) /\
  (exists d, to_txdata no_csum ex_access = Wrapped d /\ of_txdata d = Some ex_access).
Proof. exact (conj ex_shapes ex_wrapped). Qed.
Print Assumptions C18_nonvacuous.

(** * Unwrapping by hash ([UnwrapEthereumMsg])

    Reading guide.  [emsg] is a decoded [MsgEthereumTx]: TxData, the recorded
    [Hash] text and the [From] text, the last two arbitrary (decoding validates
    neither).  [unwrap hash msgs h] is [UnwrapEthereumMsg] on an envelope of the
    messages [msgs] asked for the hash [h]; [as_tx m] is [m.AsTransaction()];
    [has_hash hash m h]: the Ethereum transaction inside [m] hashes to [h];
    [same_tx m m0]: same TxData and same [From].  [hash] (Keccak-256) is
    arbitrary: the theorems hold for every function. *)

(** A successful unwrap returns a message whose Ethereum hash is the REQUESTED
    one, whose recorded hash is that hash, and which is the first member of the
    envelope with that hash — for all envelopes and all requests. *)
Theorem C18_unwrap_sound :
  forall (hash : list N -> list N) (msgs : list emsg) (h : list N) (m : emsg),
    unwrap hash msgs h = Some m ->
    has_hash hash m h /\
    m_hash m = hash_hex h /\
    exists i m0, nth_error msgs i = Some m0 /\ same_tx m m0 /\
                 forall j mj, (j < i)%nat -> nth_error msgs j = Some mj -> ~ has_hash hash mj h.
Proof. exact unwrap_sound. Qed.
Print Assumptions C18_unwrap_sound.

(** It refuses exactly the hashes that no member of the envelope has: it never
    answers a request with a different transaction. *)
Theorem C18_unwrap_refuses_iff_absent :
  forall (hash : list N -> list N) (msgs : list emsg) (h : list N),
    unwrap hash msgs h = None <-> forall m, In m msgs -> ~ has_hash hash m h.
Proof. exact unwrap_none_iff. Qed.
Print Assumptions C18_unwrap_refuses_iff_absent.

(** The answer (transaction and recorded hash) does not depend on what was
    written into the recorded [Hash] and [From] fields of the envelope. *)
Theorem C18_unwrap_ignores_forged_fields :
  forall (hash : list N -> list N) (msgs msgs' : list emsg) (h : list N),
    map m_data msgs = map m_data msgs' ->
    option_map m_data (unwrap hash msgs h) = option_map m_data (unwrap hash msgs' h) /\
    option_map m_hash (unwrap hash msgs h) = option_map m_hash (unwrap hash msgs' h).
Proof. exact unwrap_forge_independent. Qed.
Print Assumptions C18_unwrap_ignores_forged_fields.

(** End to end: wrap a transaction A, put the message anywhere into any envelope
    (recorded hashes and From texts of all members arbitrary), ask for the hash
    of A: the answer has A's hash, a recorded hash equal to it, and — unless
    another member of the envelope collides with A under [hash] — unwraps to A
    itself: identical fields, hence the same sender under every recovery function. *)
Theorem C18_unwrap_wrapped_member :
  forall (hash : list N -> list N) (csum : list N -> nat -> bool) (tx : eth_tx) (d : tx_data)
         (msgs : list emsg) (m0 : emsg),
    shape_ok tx -> to_txdata csum tx = Wrapped d ->
    In m0 msgs -> m_data m0 = d ->
    exists m, unwrap hash msgs (tx_hash hash tx) = Some m /\
              has_hash hash m (tx_hash hash tx) /\
              m_hash m = hash_hex (tx_hash hash tx) /\
              ((forall m' tx', In m' msgs -> as_tx m' = Some tx' -> tx_hash hash tx' = tx_hash hash tx -> tx' = tx) ->
               as_tx m = Some tx).
Proof. exact unwrap_wrapped_member. Qed.
Print Assumptions C18_unwrap_wrapped_member.

(** The instrumented scan the correspondence run evaluates is [unwrap], and the
    position it reports is the position of the message returned. *)
Theorem C18_unwrap_scan_is_unwrap :
  forall (hash : list N -> list N) (msgs : list emsg) (i : nat) (h : list N),
    option_map snd (snd (unwrap_scan hash i msgs h)) = unwrap hash msgs h /\
    (forall k m, snd (unwrap_scan hash i msgs h) = Some (k, m) ->
                 (i <= k)%nat /\ exists m0, nth_error msgs (k - i) = Some m0 /\ same_tx m m0) /\
    map m_data (fst (unwrap_scan hash i msgs h)) = map m_data msgs /\
    map m_from (fst (unwrap_scan hash i msgs h)) = map m_from msgs.
Proof.
  exact (fun hash msgs i h =>
           conj (unwrap_scan_unwrap hash msgs i h)
                (conj (unwrap_scan_position hash msgs i h) (unwrap_scan_after hash msgs i h))).
Qed.
Print Assumptions C18_unwrap_scan_is_unwrap.

(** A fast path for one-message envelopes (return the message without hashing)
    is NOT equivalent: asked for a hash the envelope does not contain it hands out
    a transaction with another hash where the scan refuses, and with a forged
    recorded hash it hands the message out with a recorded hash that is not its
    Ethereum hash.  (On envelopes of any other length the two agree:
    [unwrap_fast_agrees_elsewhere].) *)
Theorem C18_unwrap_fast_path_refuted :
  (unwrap id_hash [ex_msg ex_legacy] (tx_hash id_hash ex_access) = None /\
   exists m, unwrap_fast id_hash [ex_msg ex_legacy] (tx_hash id_hash ex_access) = Some m /\
             as_tx m = Some ex_legacy /\ tx_hash id_hash ex_legacy <> tx_hash id_hash ex_access) /\
  (exists m, unwrap id_hash [ex_forged ex_legacy "0xdead"] (tx_hash id_hash ex_legacy) = Some m /\
             m_hash m = hash_hex (tx_hash id_hash ex_legacy)) /\
  (exists m, unwrap_fast id_hash [ex_forged ex_legacy "0xdead"] (tx_hash id_hash ex_legacy) = Some m /\
             as_tx m = Some ex_legacy /\ m_hash m <> hash_hex (tx_hash id_hash ex_legacy)).
Proof. exact unwrap_fast_refuted. Qed.
Print Assumptions C18_unwrap_fast_path_refuted.

(** Non-vacuity: a three-message envelope with two forged recorded hashes
    answers each member's hash with that member and refuses the empty hash; a
    two-message envelope refuses the hash of a transaction it does not contain. *)
Theorem C18_unwrap_nonvacuous :
  let env := [ex_forged ex_access "0xdead"; ex_forged ex_legacy (m_hash (ex_msg ex_access)); ex_msg ex_dynamic] in
  (exists m, unwrap id_hash env (tx_hash id_hash ex_legacy) = Some m /\ as_tx m = Some ex_legacy /\
             m_hash m = hash_hex (tx_hash id_hash ex_legacy)) /\
  (exists m, unwrap id_hash env (tx_hash id_hash ex_access) = Some m /\ as_tx m = Some ex_access) /\
  (exists m, unwrap id_hash env (tx_hash id_hash ex_dynamic) = Some m /\ as_tx m = Some ex_dynamic) /\
  unwrap id_hash env [] = None /\
  unwrap id_hash [ex_msg ex_access; ex_msg ex_dynamic] (tx_hash id_hash ex_legacy) = None /\
  snd (unwrap_scan id_hash 0 env (tx_hash id_hash ex_legacy)) = option_map (fun m => (1%nat, m)) (unwrap id_hash env (tx_hash id_hash ex_legacy)).
Proof. exact ex_unwrap_envelope. Qed.
Print Assumptions C18_unwrap_nonvacuous.

(** The correspondence run evaluates a memoised form of the model's check (the
    Ethereum hash of a pool member is computed once per case): it is the plain
    check, built on [unwrap_scan], on every input. *)
Theorem C18_unwrap_check_memo_is_check :
  forall c : unwrap_case, check_unwrap_case_memo c = check_unwrap_case c.
Proof. exact check_unwrap_case_memo_eq. Qed.
Print Assumptions C18_unwrap_check_memo_is_check.
