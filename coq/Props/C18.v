(** Property C18 — Ethereum transactions survive the Cosmos envelope unchanged.
    Only statements, each closed by a lemma of TxCodec/EthTxProofs.v (or
    Base/RlpProofs.v) and followed by [Print Assumptions].

    Reading guide.  [eth_tx] is a go-ethereum transaction (legacy incl. EIP-155
    and pre-155 V values, access-list, dynamic-fee); [to_txdata csum tx] is
    [MsgEthereumTx.FromEthereumTx] = [NewTxDataFromTx] (the chain's protobuf
    TxData); [of_txdata d] is [MsgEthereumTx.AsTransaction] on the decoded
    message.  [csum] is the EIP-55 case pattern of [Address.Hex] (a Keccak): the
    theorems hold for every such function.  What lies between the two
    (protobuf/Any/TxRaw bytes, [BuildTx], TxEncoder, TxDecoder) is not modelled:
    the correspondence run passes every generated transaction through it. *)
From Coq Require Import Ascii String.
From Coq Require Import NArith ZArith List.
From HV Require Import Base.Bytes Base.Rlp Base.RlpProofs TxCodec.EthTxModel TxCodec.EthTxProofs.
Local Open Scope Z_scope.

(** Shared infrastructure: RLP, as go-ethereum writes it, is injective on items
    and prefix-free (items whose lengths fit RLP's 8 length bytes). *)
Theorem C18_rlp_encode_inj :
  forall a b : item, wf a -> wf b -> encode a = encode b -> a = b.
Proof. exact rlp_encode_inj. Qed.
Print Assumptions C18_rlp_encode_inj.

Theorem C18_rlp_prefix_free :
  forall (a b : item) (r1 r2 : list N), wf a -> wf b -> encode a ++ r1 = encode b ++ r2 -> a = b /\ r1 = r2.
Proof. exact rlp_prefix_free. Qed.
Print Assumptions C18_rlp_prefix_free.

(** Identical fields.  Whenever wrapping succeeds, unwrapping returns exactly
    the original transaction: same type, chain id, nonce, prices, gas, To (or
    creation), value, data, access list, V, R, S.  [shape_ok] only states facts
    of the Go types (addresses are 20 valid bytes, storage keys 32, V/R/S not
    negative); there is no other hypothesis. *)
Theorem C18_roundtrip_fields :
  forall (csum : list N -> nat -> bool) (tx : eth_tx) (d : tx_data),
    shape_ok tx -> to_txdata csum tx = Wrapped d -> of_txdata d = Some tx.
Proof. exact roundtrip_fields. Qed.
Print Assumptions C18_roundtrip_fields.

(** The guard the code enforces: wrapping succeeds exactly when value, gas
    price / fee cap / tip cap and (typed transactions) the chain id have at most
    256 bits ([SafeNewIntFromBigInt]; for the chain id
    [sdkmath.NewIntFromBigInt], which panics instead of returning an error). *)
Theorem C18_wrap_succeeds_iff_bounds :
  forall (csum : list N -> nat -> bool) (tx : eth_tx),
    bounds_ok tx <-> exists d, to_txdata csum tx = Wrapped d.
Proof. exact wrap_succeeds_iff_bounds. Qed.
Print Assumptions C18_wrap_succeeds_iff_bounds.

(** Same preimages: the bytes hashed for the transaction hash and the bytes
    hashed for signing (under every signer chain id) are those of the original. *)
Theorem C18_roundtrip_same_preimage :
  forall (csum : list N -> nat -> bool) (tx : eth_tx) (d : tx_data) (tx' : eth_tx),
    shape_ok tx -> to_txdata csum tx = Wrapped d -> of_txdata d = Some tx' ->
    hash_preimage tx' = hash_preimage tx /\ forall cid, sign_preimage cid tx' = sign_preimage cid tx.
Proof. exact roundtrip_same_preimage. Qed.
Print Assumptions C18_roundtrip_same_preimage.

(** Hence, for ANY hash function and ANY signature-recovery function, the same
    hash (the one [FromEthereumTx] records in the message's [Hash] field, and
    the one [ValidateBasic] recomputes from the decoded message) and the same
    recovered sender under every signer. *)
Theorem C18_roundtrip_same_hash_and_sender :
  forall (hash : list N -> list N) (recover : list N -> Z -> Z -> Z -> option (list N))
         (csum : list N -> nat -> bool) (tx : eth_tx) (d : tx_data) (tx' : eth_tx),
    shape_ok tx -> to_txdata csum tx = Wrapped d -> of_txdata d = Some tx' ->
    tx_hash hash tx' = tx_hash hash tx /\
    forall cid, sender hash recover cid tx' = sender hash recover cid tx.
Proof. exact roundtrip_same_hash_and_sender. Qed.
Print Assumptions C18_roundtrip_same_hash_and_sender.

(** Fee, cost, effective price, effective fee, effective cost computed from
    the message equal go-ethereum's figures for the original transaction, for
    a nil base fee and every non-negative base fee; the one exception is
    stated next. *)
Theorem C18_fee_cost_price_agree :
  forall (csum : list N -> nat -> bool) (tx : eth_tx) (d : tx_data),
    to_txdata csum tx = Wrapped d ->
    msg_fee d = Some (geth_fee tx) /\
    msg_cost d = Some (geth_cost tx) /\
    forall base_fee,
      (tx_type tx = 2%N -> base_fee <> None) ->
      (forall b, base_fee = Some b -> 0 <= b) ->
      msg_effective_price d base_fee = Some (geth_effective_price tx base_fee) /\
      msg_effective_fee d base_fee = Some (geth_effective_price tx base_fee * Z.of_N (tx_gas tx)) /\
      msg_effective_cost d base_fee = Some (geth_effective_price tx base_fee * Z.of_N (tx_gas tx) + tx_value tx).
Proof. exact fee_cost_price_agree. Qed.
Print Assumptions C18_fee_cost_price_agree.

(** A dynamic-fee message asked for its effective price with a nil base fee
    does not answer (the Go code adds a nil [*big.Int]: panic), where
    go-ethereum answers the fee cap.  Recorded as an observation: a nil base
    fee means London is not active, and then the ante handler refuses
    dynamic-fee transactions anyway. *)
Theorem C18_dynamic_nil_base_fee_refuted :
  forall (csum : list N -> nat -> bool) (tx : eth_tx) (d : tx_data),
    to_txdata csum tx = Wrapped d -> tx_type tx = 2%N ->
    msg_effective_price d None = None /\ geth_effective_price tx None = tx_fee_cap tx.
Proof. exact dynamic_nil_base_fee_panics. Qed.
Print Assumptions C18_dynamic_nil_base_fee_refuted.

(** Non-vacuity: a dynamic-fee contract creation with maximal caps and a
    two-entry access list (a repeated address, an empty key list), an EIP-155
    legacy transfer and an access-list call satisfy the hypotheses and round-trip. *)
Theorem C18_nonvacuous :
  (shape_ok ex_dynamic /\ shape_ok ex_legacy /\ shape_ok ex_access) /\
  (exists d, to_txdata no_csum ex_dynamic = Wrapped d /\ of_txdata d = Some ex_dynamic) /\
  (exists d, to_txdata no_csum ex_legacy = Wrapped d /\ of_txdata d = Some ex_legacy) /\
  (exists d, to_txdata no_csum ex_access = Wrapped d /\ of_txdata d = Some ex_access).
Proof. exact (conj ex_shapes ex_wrapped). Qed.
Print Assumptions C18_nonvacuous.
