(** Property C09 — vesting schedule arithmetic is exact; clawback takes only
    the unvested amount.  This file only states the property theorems and closes
    each with a lemma of Vesting/*Proofs.v; [Print Assumptions] follows every
    theorem.

    Vocabulary (Vesting/ScheduleModel.v, KeeperModel.v are the executable
    transcription of x/vesting of /repo; [step blocked bond true] is the message
    server after the "fix:" commit 83e9993, [step blocked bond false] the pinned
    ApplyVestingSchedule):
      [ev s ps t]        reference: sum of the amounts of all periods of [ps]
                         (start [s]) whose cumulative end time is <= t
      [lens_ok], [amts_ok]  all lengths / all amounts non-negative
      [consistent s e ps total]  s + total length <= e and total = sum of amounts
                         (what Validate demands of EndTime / OriginalVesting)
      [coherent va]      both schedules of the account are consistent
      [wf_acc va]        lengths, amounts, original, delegated amounts non-negative
      [valid va]         Validate() returns nil
    All multi-denomination statements are pointwise in the denomination [d]. *)
From Coq Require Import ZArith List Lia.
From stdpp Require Import gmap.
From HV Require Import Base.Coins Vesting.ScheduleModel Vesting.ScheduleProofs Vesting.AccountProofs
  Vesting.KeeperModel Vesting.KeeperProofs.
Import ListNotations.
Local Open Scope Z_scope.

(** * 1. Reading a schedule *)

(** Strictly inside (start, end) ReadSchedule is the step function, whatever
    end/total were passed. *)
Theorem C09_read_is_step :
  forall start endt ps total t d, lens_ok ps -> start < t < endt ->
    amt (read_schedule start endt ps total t) d = amt (ev start ps t) d.
Proof. exact read_is_step_ev. Qed.
Print Assumptions C09_read_is_step.

(** Under exactly Validate's conditions on (end, total) the two shortcut
    branches agree with the step function as well: after the start the read
    yields the sum of all periods ended by t. *)
Theorem C09_read_is_event_sum :
  forall start endt ps total t d, lens_ok ps -> consistent start endt ps total -> start < t ->
    amt (read_schedule start endt ps total t) d = amt (ev start ps t) d.
Proof. exact read_is_ev_ev. Qed.
Print Assumptions C09_read_is_event_sum.

Theorem C09_read_zero_before :
  forall start endt ps total t, t <= start -> read_schedule start endt ps total t = ∅.
Proof. exact read_zero_before. Qed.
Print Assumptions C09_read_zero_before.

Theorem C09_read_total_after :
  forall start endt ps total t, start < t -> endt <= t -> read_schedule start endt ps total t = total.
Proof. exact read_total_after. Qed.
Print Assumptions C09_read_total_after.

Theorem C09_read_mono :
  forall start endt ps total t1 t2 d, lens_ok ps -> amts_ok ps -> consistent start endt ps total ->
    t1 <= t2 -> amt (read_schedule start endt ps total t1) d <= amt (read_schedule start endt ps total t2) d.
Proof. exact read_mono. Qed.
Print Assumptions C09_read_mono.

Theorem C09_read_nonneg :
  forall start endt ps total t d, lens_ok ps -> amts_ok ps -> consistent start endt ps total ->
    0 <= amt (read_schedule start endt ps total t) d.
Proof. exact read_nonneg. Qed.
Print Assumptions C09_read_nonneg.

Theorem C09_read_le_total :
  forall start endt ps total t d, lens_ok ps -> amts_ok ps -> consistent start endt ps total ->
    amt (read_schedule start endt ps total t) d <= amt total d.
Proof. exact read_le_total. Qed.
Print Assumptions C09_read_le_total.

(** ReadPastPeriodCount counts the periods ended by t, and the counted prefix
    sums to what ReadSchedule returns. *)
Theorem C09_past_count_spec :
  forall start endt ps t, lens_ok ps -> start + total_len ps <= endt ->
    read_past_count start endt ps t = if t <=? start then 0%nat else cnt start ps t.
Proof. exact past_count_spec. Qed.
Print Assumptions C09_past_count_spec.

Theorem C09_past_count_prefix :
  forall start endt ps total t d, lens_ok ps -> consistent start endt ps total ->
    amt (total_amount (firstn (read_past_count start endt ps t) ps)) d
      = amt (read_schedule start endt ps total t) d.
Proof. exact past_count_prefix. Qed.
Print Assumptions C09_past_count_prefix.

(** * 2. Union and minimum of schedules *)

(** DisjunctPeriods: at every instant the merged schedule has released exactly
    what the two inputs have released; no hypothesis on the period lists
    (zero-length periods, simultaneous events, any start times, any lengths). *)
Theorem C09_disjunct_union :
  forall sa sb pa pb t d,
    let '(s, _, ps) := disjunct sa sb pa pb in
    amt (ev s ps t) d = amt (ev sa pa t) d + amt (ev sb pb t) d.
Proof. exact disjunct_union. Qed.
Print Assumptions C09_disjunct_union.

Theorem C09_disjunct_start :
  forall sa sb pa pb, fst (fst (disjunct sa sb pa pb)) = Z.min sa sb.
Proof. exact disjunct_start. Qed.
Print Assumptions C09_disjunct_start.

Theorem C09_disjunct_end :
  forall sa sb pa pb, lens_ok pa -> lens_ok pb -> pa <> [] -> pb <> [] ->
    snd (fst (disjunct sa sb pa pb)) = Z.max (sa + total_len pa) (sb + total_len pb).
Proof. exact disjunct_end. Qed.
Print Assumptions C09_disjunct_end.

Theorem C09_disjunct_end_is_total_length :
  forall sa sb pa pb, let '(s, e, ps) := disjunct sa sb pa pb in e = s + total_len ps.
Proof. exact disjunct_end_len. Qed.
Print Assumptions C09_disjunct_end_is_total_length.

Theorem C09_disjunct_lengths_nonneg :
  forall sa sb pa pb, lens_ok pa -> lens_ok pb -> lens_ok (snd (disjunct sa sb pa pb)).
Proof. exact disjunct_lens. Qed.
Print Assumptions C09_disjunct_lengths_nonneg.

(** ... so through ReadSchedule, at every instant after both have started, the
    merged schedule releases the sum of the two. *)
Theorem C09_disjunct_read_sum :
  forall sa sb pa pb t d, lens_ok pa -> lens_ok pb -> Z.max sa sb < t ->
    let '(s, e, ps) := disjunct sa sb pa pb in
    amt (read_schedule s e ps (cadd (total_amount pa) (total_amount pb)) t) d
      = amt (read_schedule sa (sa + total_len pa) pa (total_amount pa) t) d
        + amt (read_schedule sb (sb + total_len pb) pb (total_amount pb) t) d.
Proof. exact disjunct_read_sum. Qed.
Print Assumptions C09_disjunct_read_sum.

(** ConjunctPeriods (capping): at every instant exactly the per-denomination
    minimum of what the two inputs have released. *)
Theorem C09_conjunct_min :
  forall sa sb pa pb, lens_ok pa -> lens_ok pb -> amts_ok pa -> amts_ok pb ->
    forall t d,
    let '(s, _, ps) := conjunct sa sb pa pb in
    amt (ev s ps t) d = Z.min (amt (ev sa pa t) d) (amt (ev sb pb t) d).
Proof. exact conjunct_min. Qed.
Print Assumptions C09_conjunct_min.

Theorem C09_conjunct_end_is_total_length :
  forall sa sb pa pb, let '(s, e, ps) := conjunct sa sb pa pb in e = s + total_len ps.
Proof. exact conjunct_end_len. Qed.
Print Assumptions C09_conjunct_end_is_total_length.

(** * 3. The account: vested + unvested = locked + unlocked = original *)

Theorem C09_vested_is_event_sum :
  forall va, coherent va -> wf_acc va -> forall t d, start_time va < t ->
    amt (get_vested va t) d = evd d (start_time va) (vesting va) t /\
    amt (get_unlocked va t) d = evd d (start_time va) (lockup va) t.
Proof. intros va Hc Hw t d Ht. exact (conj (vested_is_ev va Hc Hw t d Ht) (unlocked_is_ev va Hc Hw t d Ht)). Qed.
Print Assumptions C09_vested_is_event_sum.

Theorem C09_vested_plus_unvested :
  forall va, coherent va -> wf_acc va -> forall t,
    exists u, get_vesting va t = Some u /\
      forall d, amt (get_vested va t) d + amt u d = amt (original va) d /\
                0 <= amt (get_vested va t) d /\ 0 <= amt u d.
Proof. exact vested_plus_unvested. Qed.
Print Assumptions C09_vested_plus_unvested.

Theorem C09_locked_plus_unlocked :
  forall va, coherent va -> wf_acc va -> forall t,
    exists l, get_locked_up va t = Some l /\
      forall d, amt (get_unlocked va t) d + amt l d = amt (original va) d /\
                0 <= amt (get_unlocked va t) d /\ 0 <= amt l d.
Proof. exact locked_plus_unlocked. Qed.
Print Assumptions C09_locked_plus_unlocked.

Theorem C09_locked_coins_bounds :
  forall va, coherent va -> wf_acc va -> forall t,
    exists l, locked_coins va t = Some l /\ forall d, 0 <= amt l d <= amt (original va) d.
Proof. exact locked_coins_bounds. Qed.
Print Assumptions C09_locked_coins_bounds.

Theorem C09_valid_is_coherent :
  forall va, valid va -> wf_acc va -> coherent va.
Proof. exact valid_coherent. Qed.
Print Assumptions C09_valid_is_coherent.

(** * 4. ComputeClawback *)

(** exactly the unvested amount is taken; the account keeps exactly the vested
    amount; every kept coin stays under its lockup (unlocked' = min(unlocked,
    vested at the clawback time), at every time); no vesting event remains. *)
Theorem C09_clawback_exact :
  forall va, coherent va -> wf_acc va -> forall t,
    exists va' c, compute_clawback va t = Some (va', c) /\
      (forall d, amt c d = amt (original va) d - amt (get_vested va t) d) /\
      get_vesting va t = Some c /\
      original va' = get_vested va t /\ funder va' = funder va /\ start_time va' = start_time va /\
      dfree va' = dfree va /\ dvest va' = dvest va /\
      (forall t' d, amt (get_unlocked va' t') d = Z.min (amt (get_unlocked va t') d) (amt (get_vested va t) d)) /\
      (forall t' d, amt (get_vested va' t') d = Z.min (amt (get_vested va t') d) (amt (get_vested va t) d)).
Proof. exact clawback_exact. Qed.
Print Assumptions C09_clawback_exact.

(** the result always satisfies every check of Validate that relates the
    schedules to end time and original vesting ... *)
Theorem C09_clawback_coherent :
  forall va, coherent va -> wf_acc va -> forall t va' c,
    compute_clawback va t = Some (va', c) -> coherent va' /\ wf_acc va'.
Proof. exact clawback_coherent. Qed.
Print Assumptions C09_clawback_coherent.

(** ... so it is valid as soon as its end time is after its start time, *)
Theorem C09_clawback_valid_general :
  forall va, coherent va -> wf_acc va -> forall t va' c,
    compute_clawback va t = Some (va', c) ->
    is_all_lte (dvest va) (get_vested va t) = true ->
    start_time va < end_time va' -> valid va'.
Proof. exact clawback_valid_general. Qed.
Print Assumptions C09_clawback_valid_general.

(** ... in particular when something has vested and every vesting period has
    positive length (as ValidateBasic demands of message schedules).
    PARTIAL with respect to "leaves a valid account": the statement without the
    two extra hypotheses is false for the code as it is (next two theorems). *)
Theorem C09_clawback_valid_partial :
  forall va, coherent va -> wf_acc va -> forall t va' c,
    compute_clawback va t = Some (va', c) ->
    is_all_lte (dvest va) (get_vested va t) = true ->
    Forall (fun p => 0 < len p) (vesting va) ->
    (exists d, amt (get_vested va t) d <> 0) ->
    valid va'.
Proof. exact clawback_valid_partial. Qed.
Print Assumptions C09_clawback_valid_partial.

(** Known finding K1: clawback before the first vesting event leaves
    StartTime = EndTime and empty schedules; Validate rejects the account. *)
Theorem C09_clawback_valid_refuted :
  exists va t, valid va /\ wf_acc va /\ Forall (fun p => 0 < len p) (vesting va) /\
    match compute_clawback va t with
    | Some (va', c) =>
        validate va' = V_START_END /\ start_time va' = end_time va' /\
        lockup va' = [] /\ vesting va' = [] /\ canon c = [(0%N, 300)]
    | None => False
    end.
Proof. exact clawback_valid_refuted. Qed.
Print Assumptions C09_clawback_valid_refuted.

(** The same collapse with a non-zero vested amount, when the only vesting
    events so far coincide with the start time (zero-length first period, as
    produced by the keeper's instant-vesting default after a merge). *)
Theorem C09_clawback_valid_zero_len_refuted :
  exists va t, valid va /\ wf_acc va /\ (exists d, amt (get_vested va t) d <> 0) /\
    match compute_clawback va t with
    | Some (va', c) => validate va' = V_START_END /\ start_time va' = end_time va' /\ canon c = [(0%N, 100)]
    | None => False
    end.
Proof. exact clawback_valid_zero_len_refuted. Qed.
Print Assumptions C09_clawback_valid_zero_len_refuted.

(** * 5. Histories of create / merge / convert / clawback / update-funder /
    convert-back / send at arbitrary block times *)

(** A rejected message changes nothing. *)
Theorem C09_failed_message_no_effect :
  forall blocked bond fixed s o s' r, step blocked bond fixed s o = (s', r) -> r <> OK -> s' = s.
Proof. exact step_fail. Qed.
Print Assumptions C09_failed_message_no_effect.

(** After any history, a clawback is accepted only when its signer is the
    funder recorded by the last successful create / convert-into /
    update-funder message for that account ([grun] tracks that record from the
    message inputs alone). *)
Theorem C09_only_funder_claws :
  forall blocked bond fixed ops t f a dest s',
    step blocked bond fixed (fst (grun blocked bond fixed ops)) (Clawback t f a dest) = (s', OK) ->
    snd (grun blocked bond fixed ops) !! a = Some f.
Proof. exact only_funder_claws. Qed.
Print Assumptions C09_only_funder_claws.

Theorem C09_only_funder_updates :
  forall blocked bond fixed ops t f newf a s',
    step blocked bond fixed (fst (grun blocked bond fixed ops)) (UpdateFunder t f newf a) = (s', OK) ->
    snd (grun blocked bond fixed ops) !! a = Some f.
Proof. exact only_funder_updates. Qed.
Print Assumptions C09_only_funder_updates.

Theorem C09_grun_is_run :
  forall blocked bond fixed ops, fst (grun blocked bond fixed ops) = run blocked bond fixed ops kinit.
Proof. exact grun_state. Qed.
Print Assumptions C09_grun_is_run.

(** In any state, an accepted clawback moves exactly the unvested amount from
    the account to the destination and touches no other balance or vesting
    account. *)
Theorem C09_clawback_moves_exactly_unvested :
  forall blocked bond fixed s t f a dest0 s',
    step blocked bond fixed s (Clawback t f a dest0) = (s', OK) ->
    let dest := default f dest0 in
    exists va u, accts s !! a = Some (Claw va) /\ funder va = f /\ blocked dest = false /\
      get_vesting va t = Some u /\
      (forall d, amt u d = amt (original va) d - amt (get_vested va t) d) /\
      (forall b d, amt (bal s' b) d = amt (bal s b) d - (if decide (b = a) then amt u d else 0)
                                                     + (if decide (b = dest) then amt u d else 0)) /\
      (forall b vb, b <> a -> accts s' !! b = Some (Claw vb) <-> accts s !! b = Some (Claw vb)) /\
      ((forall d, amt u d = 0) -> s' = s) /\
      ((exists d, amt u d <> 0) ->
         exists va', compute_clawback va t = Some (va', u) /\ accts s' !! a = Some (Claw va')).
Proof. exact clawback_moves_exactly_unvested. Qed.
Print Assumptions C09_clawback_moves_exactly_unvested.

(** After every history of well-formed messages every stored vesting account is
    coherent (so sections 3 and 4 apply to it) and records no DelegatedVesting. *)
Theorem C09_reachable_accounts_coherent :
  forall blocked bond fixed ops, Forall op_ok ops ->
    forall a va, accts (run blocked bond fixed ops kinit) !! a = Some (Claw va) ->
      coherent va /\ wf_acc va /\ dvest va = ∅.
Proof. exact reachable_good. Qed.
Print Assumptions C09_reachable_accounts_coherent.

Theorem C09_reachable_splits :
  forall blocked bond fixed ops a va t,
    Forall op_ok ops -> accts (run blocked bond fixed ops kinit) !! a = Some (Claw va) ->
    (exists u, get_vesting va t = Some u /\
       forall d, amt (get_vested va t) d + amt u d = amt (original va) d /\
                 0 <= amt (get_vested va t) d /\ 0 <= amt u d) /\
    (exists l, get_locked_up va t = Some l /\
       forall d, amt (get_unlocked va t) d + amt l d = amt (original va) d /\
                 0 <= amt (get_unlocked va t) d /\ 0 <= amt l d).
Proof. exact reachable_splits. Qed.
Print Assumptions C09_reachable_splits.

(** An accepted clawback after any history: exact amounts, lockup kept,
    coherent result; valid when a vesting event after the start has happened
    (PARTIAL, see K1). *)
Theorem C09_clawback_on_reachable :
  forall blocked bond fixed ops t f a dest0 s',
    Forall op_ok ops ->
    let s := run blocked bond fixed ops kinit in
    step blocked bond fixed s (Clawback t f a dest0) = (s', OK) ->
    exists va, accts s !! a = Some (Claw va) /\ funder va = f /\
      exists va' u, compute_clawback va t = Some (va', u) /\
        (forall d, amt u d = amt (original va) d - amt (get_vested va t) d /\ 0 <= amt u d) /\
        original va' = get_vested va t /\
        (forall t' d, amt (get_unlocked va' t') d = Z.min (amt (get_unlocked va t') d) (amt (get_vested va t) d)) /\
        (forall t' d, amt (get_vested va' t') d = Z.min (amt (get_vested va t') d) (amt (get_vested va t) d)) /\
        good va' /\
        (start_time va < end_time va' -> valid va') /\
        (Forall (fun p => 0 < len p) (vesting va) -> (exists d, amt (get_vested va t) d <> 0) -> valid va').
Proof. exact clawback_on_reachable. Qed.
Print Assumptions C09_clawback_on_reachable.

(** Merging a grant through CreateClawbackVestingAccount: the stored account is
    the union of the old account's and the grant's release events. *)
Theorem C09_create_merge_union :
  forall blocked bond fixed s t from to start lp vp deleg s' va,
    step blocked bond fixed s (Create t from to start lp vp true deleg) = (s', OK) ->
    accts s !! to = Some (Claw va) ->
    let '(glp, gvp, _, gc) := with_defaults (of_pl lp) (of_pl vp) in
    exists va', accts s' !! to = Some (Claw va') /\ from = funder va /\
      funder va' = funder va /\
      start_time va' = Z.min (start_time va) start /\
      (forall t d, amt (ev (start_time va') (lockup va') t) d
                   = amt (ev (start_time va) (lockup va) t) d + amt (ev start glp t) d) /\
      (forall t d, amt (ev (start_time va') (vesting va') t) d
                   = amt (ev (start_time va) (vesting va) t) d + amt (ev start gvp t) d) /\
      (forall d, amt (original va') d = amt (original va) d + amt gc d) /\
      end_time va' = Z.max (start_time va' + total_len (lockup va')) (start_time va' + total_len (vesting va')).
Proof. exact create_merge_union. Qed.
Print Assumptions C09_create_merge_union.

(** The same through ConvertIntoVestingAccount -> ApplyVestingSchedule for the
    code as it is now (after the fix of finding F1). *)
Theorem C09_apply_merge_union :
  forall blocked bond s t from to start lp vp deleg s' va,
    step blocked bond true s (Convert t from to start lp vp true deleg) = (s', OK) ->
    accts s !! to = Some (Claw va) ->
    let '(glp, gvp, _, gc) := with_defaults (of_pl lp) (of_pl vp) in
    exists va', accts s' !! to = Some (Claw va') /\ from = funder va /\
      funder va' = funder va /\
      start_time va' = Z.min (start_time va) start /\
      (forall t d, amt (ev (start_time va') (lockup va') t) d
                   = amt (ev (start_time va) (lockup va) t) d + amt (ev start glp t) d) /\
      (forall t d, amt (ev (start_time va') (vesting va') t) d
                   = amt (ev (start_time va) (vesting va) t) d + amt (ev start gvp t) d) /\
      (forall d, amt (original va') d = amt (original va) d + amt gc d) /\
      end_time va' = Z.max (start_time va' + total_len (lockup va')) (start_time va' + total_len (vesting va')).
Proof. exact apply_merge_union. Qed.
Print Assumptions C09_apply_merge_union.

(** Finding F1 (repaired by commit 83e9993): the pinned ApplyVestingSchedule
    passed min(grant start, account start) as the grant's start.  Account start
    1000 / lockup 3000 s, grant start 2000 / lockup 2000 s: the merged account
    had released the grant's 50 at 3500 although neither the account nor the
    grant releases anything before 4000. *)
Theorem C09_apply_merge_union_refuted :
  Forall op_ok (f1_prefix ++ [f1_merge]) /\
  let s := run blocked_h bond_h false f1_prefix kinit in
  let '(s', r) := step blocked_h bond_h false s f1_merge in
  r = OK /\
  unlocked_of s 1%N 3500 = 0 /\
  amt (ev 2000 (of_pl [(2000, [(0%N, 50)])]) 3500) 0%N = 0 /\
  unlocked_of s' 1%N 3500 = 50.
Proof. exact apply_merge_union_refuted. Qed.
Print Assumptions C09_apply_merge_union_refuted.

(** At every instant after both have started, a merged reachable account has
    released the sum of what the old account and the grant have released
    (through the read functions of the account). *)
Theorem C09_create_merge_releases_sum :
  forall blocked bond fixed s t from to start lp vp deleg s' va,
    all_good s -> op_ok (Create t from to start lp vp true deleg) ->
    step blocked bond fixed s (Create t from to start lp vp true deleg) = (s', OK) ->
    accts s !! to = Some (Claw va) ->
    let '(glp, gvp, _, _) := with_defaults (of_pl lp) (of_pl vp) in
    exists va', accts s' !! to = Some (Claw va') /\
      forall t' d, Z.max (start_time va) start < t' ->
        amt (get_unlocked va' t') d = amt (get_unlocked va t') d + amt (ev start glp t') d /\
        amt (get_vested va' t') d = amt (get_vested va t') d + amt (ev start gvp t') d.
Proof. exact create_merge_releases_sum. Qed.
Print Assumptions C09_create_merge_releases_sum.

Theorem C09_apply_merge_releases_sum :
  forall blocked bond s t from to start lp vp deleg s' va,
    all_good s -> op_ok (Convert t from to start lp vp true deleg) ->
    step blocked bond true s (Convert t from to start lp vp true deleg) = (s', OK) ->
    accts s !! to = Some (Claw va) ->
    let '(glp, gvp, _, _) := with_defaults (of_pl lp) (of_pl vp) in
    exists va', accts s' !! to = Some (Claw va') /\
      forall t' d, Z.max (start_time va) start < t' ->
        amt (get_unlocked va' t') d = amt (get_unlocked va t') d + amt (ev start glp t') d /\
        amt (get_vested va' t') d = amt (get_vested va t') d + amt (ev start gvp t') d.
Proof. exact apply_merge_releases_sum. Qed.
Print Assumptions C09_apply_merge_releases_sum.

(** * 6. Non-vacuity: a two-denomination account in the middle of its schedule
    satisfies every hypothesis used above, and a history with merges through
    both paths, a funder update and a mid-schedule clawback by the new funder
    is accepted step by step. *)
Theorem C09_nonvacuity_account :
  valid ex_account /\ wf_acc ex_account /\ Forall (fun p => 0 < len p) (vesting ex_account) /\
  is_all_lte (dvest ex_account) (get_vested ex_account 1150) = true /\
  (exists d, amt (get_vested ex_account 1150) d <> 0) /\
  canon (get_vested ex_account 1150) = [(0%N, 100); (1%N, 30)] /\
  canon (get_unlocked ex_account 1150) = [] /\
  match compute_clawback ex_account 1150 with
  | Some (va', c) => valid va' /\ canon c = [(0%N, 200); (1%N, 60)] /\
                     canon (get_unlocked va' 1250) = [(0%N, 100); (1%N, 30)]
  | None => False
  end.
Proof. exact ex_account_hyps. Qed.
Print Assumptions C09_nonvacuity_account.

Theorem C09_nonvacuity_history :
  Forall op_ok ex_history /\
  let sg := grun blocked_h bond_h true ex_history in
  snd sg !! 1%N = Some 2%N /\
  let '(s', r) := step blocked_h bond_h true (fst sg) ex_clawback in
  r = OK /\
  snd (step blocked_h bond_h true (fst sg) (Clawback 1150 0%N 1%N (Some 3%N))) = E_UNAUTH /\
  canon (bal s' 3%N) = [(0%N, 260); (1%N, 60)] /\
  canon (bal s' 1%N) = [(0%N, 140); (1%N, 30)] /\
  match accts s' !! 1%N with
  | Some (Claw va') => validate va' = V_OK /\ canon (original va') = [(0%N, 140); (1%N, 30)]
  | _ => False
  end.
Proof. exact ex_history_ok. Qed.
Print Assumptions C09_nonvacuity_history.
