(** Proofs about the fee model (property C07). *)
From Coq Require Import ZArith NArith List Bool Lia.
From HV Require Import Fees.DecLite Fees.FeeModel.
Import ListNotations.
Local Open Scope Z_scope.
Ltac Zify.zify_post_hook ::= Z.div_mod_to_equations.

(** ------------------------------------------------------------------ *)
(** * Dec arithmetic *)

Lemma dl_one_val : dl_one = 1000000000000000000.
Proof. reflexivity. Qed.
Lemma dl_one_pos : 0 < dl_one.
Proof. reflexivity. Qed.
Lemma dl_one_nz : dl_one <> 0.
Proof. discriminate. Qed.

Lemma dl_chop_abs_exact n : dl_chop_abs (n * dl_one) = n.
Proof.
  unfold dl_chop_abs. rewrite Z.mod_mul, Z.div_mul by exact dl_one_nz. reflexivity.
Qed.

Lemma dl_chop_exact n : dl_chop (n * dl_one) = n.
Proof.
  unfold dl_chop. destruct (n * dl_one <? 0).
  - replace (- (n * dl_one)) with ((- n) * dl_one) by ring.
    rewrite dl_chop_abs_exact. lia.
  - apply dl_chop_abs_exact.
Qed.

(** multiplying by an integer Dec is exact (no rounding ever happens in the
    fee code: one factor is always a gas limit) *)
Lemma dl_mul_of_int_r a n : dl_mul a (dl_of_int n) = a * n.
Proof.
  unfold dl_mul, dl_of_int.
  replace (a * (n * dl_one)) with ((a * n) * dl_one) by ring. apply dl_chop_exact.
Qed.
Lemma dl_mul_of_int_l a n : dl_mul (dl_of_int n) a = n * a.
Proof.
  unfold dl_mul, dl_of_int.
  replace (n * dl_one * a) with ((n * a) * dl_one) by ring. apply dl_chop_exact.
Qed.

Lemma dl_round_int_of_int n : dl_round_int (dl_of_int n) = n.
Proof. apply dl_chop_exact. Qed.

Lemma dl_trunc_nonneg x : 0 <= x -> dl_trunc x = x / dl_one.
Proof. intros. unfold dl_trunc. apply Z.quot_div_nonneg; [lia | exact dl_one_pos]. Qed.

Lemma dl_trunc_of_int n : dl_trunc (dl_of_int n) = n.
Proof. unfold dl_trunc, dl_of_int. apply Z.quot_mul. exact dl_one_nz. Qed.

(** RoundInt (Ceil x) for x >= 0 is the least integer c with x <= c * 10^18 *)
Lemma dl_ceil_spec x :
  0 <= x ->
  let c := dl_round_int (dl_ceil x) in
  x <= c * dl_one /\ (c - 1) * dl_one < x \/ x = 0 /\ c = 0.
Proof.
  intros Hx. cbv zeta. unfold dl_ceil.
  rewrite Z.quot_div_nonneg, Z.rem_mod_nonneg by (try lia; exact dl_one_pos).
  pose proof dl_one_val as E.
  destruct (x mod dl_one =? 0) eqn:H0.
  - rewrite dl_round_int_of_int. apply Z.eqb_eq in H0. rewrite E in *. lia.
  - apply Z.eqb_neq in H0.
    destruct (x mod dl_one <? 0) eqn:H1.
    + apply Z.ltb_lt in H1. rewrite E in *. lia.
    + rewrite dl_round_int_of_int. rewrite E in *. lia.
Qed.

Lemma dl_ceil_ge x : 0 <= x -> x <= dl_round_int (dl_ceil x) * dl_one.
Proof. intros Hx. pose proof (dl_ceil_spec x Hx). cbv zeta in *. lia. Qed.

(** ------------------------------------------------------------------ *)
(** * The min-gas-used rule *)

Lemma min_gas_used_exact p gas : min_gas_used p gas = gas * p_mult p.
Proof. unfold min_gas_used. apply dl_mul_of_int_l. Qed.

Lemma gas_used_of_max p gas temp :
  0 <= p_mult p -> 0 <= gas -> 0 <= temp ->
  gas_used_of p gas temp = Z.max (p_mult p * gas / dl_one) temp.
Proof.
  intros Hm Hg Ht. unfold gas_used_of. rewrite min_gas_used_exact.
  assert (0 <= gas * p_mult p) by (apply Z.mul_nonneg_nonneg; lia).
  replace (p_mult p * gas) with (gas * p_mult p) by ring.
  unfold dl_max. destruct (gas * p_mult p <? dl_of_int temp) eqn:Hc.
  - rewrite dl_trunc_of_int. apply Z.ltb_lt in Hc. unfold dl_of_int in Hc.
    pose proof dl_one_val as E. rewrite E in *. lia.
  - rewrite dl_trunc_nonneg by lia. apply Z.ltb_ge in Hc. unfold dl_of_int in Hc.
    pose proof dl_one_val as E. rewrite E in *. lia.
Qed.

(** gasUsed = max(floor(mult x limit), consumed after refunds); it is at least
    both and, for a multiplier in [0,1] and consumption within the limit, at
    most the limit *)
Lemma gas_used_bounds p gas temp :
  0 <= p_mult p <= dl_one -> 0 <= temp <= gas ->
  let u := gas_used_of p gas temp in
  u = Z.max (p_mult p * gas / dl_one) temp /\
  temp <= u /\ p_mult p * gas / dl_one <= u /\ 0 <= u <= gas.
Proof.
  intros Hm Ht. cbv zeta. rewrite gas_used_of_max by lia.
  assert (p_mult p * gas <= dl_one * gas) by (apply Z.mul_le_mono_nonneg_r; lia).
  assert (0 <= p_mult p * gas) by (apply Z.mul_nonneg_nonneg; lia).
  pose proof dl_one_val as E. rewrite E in *. lia.
Qed.

(** with a multiplier above 1 (refused by Params.Validate) the bound fails *)
Lemma gas_used_exceeds_limit_when_mult_gt_1 :
  gas_used_of (mkparams 0 0 (2 * dl_one) 5) 21000 21000 = 42000.
Proof. vm_compute. reflexivity. Qed.

Lemma gas_to_refund_bounds rc consumed quot :
  0 < quot -> 0 <= rc -> 0 <= consumed ->
  0 <= gas_to_refund rc consumed quot <= consumed /\
  gas_to_refund rc consumed quot = Z.min rc (consumed / quot).
Proof.
  intros Hq Hr Hc. unfold gas_to_refund.
  assert (0 <= consumed / quot <= consumed).
  { split. apply Z.div_pos; lia. apply Z.div_le_upper_bound; nia. }
  destruct (consumed / quot >? rc) eqn:Hg.
  - apply Z.gtb_lt in Hg. lia.
  - rewrite Z.gtb_ltb in Hg. apply Z.ltb_ge in Hg. lia.
Qed.

(** ------------------------------------------------------------------ *)
(** * One message: ApplyTransaction *)

(** the EVM never reports more gas than it was given, nor a negative refund counter *)
Definition evm_sane (m : emsg) (ev : evm_out) : Prop :=
  match ev with
  | HardErr => True
  | Ran c rc _ => c <= m_gas m /\ 0 <= rc
  end.

(** what the property demands of one executed message *)
Definition msg_spec (p : params) (m : emsg) (ev : evm_out) (u a : Z) : Prop :=
  exists c rc f, ev = Ran c rc f /\
    let after := c - Z.min rc (c / p_quot p) in
    0 <= after <= c /\
    u = Z.max after (p_mult p * m_gas m / dl_one) /\
    after <= u /\ p_mult p * m_gas m / dl_one <= u /\ u <= m_gas m /\
    a = (m_gas m - u) * eff_price (p_base p) m /\
    eff_fee (p_base p) m - a = u * eff_price (p_base p) m.

Definition params_ok (p : params) : Prop :=
  0 <= p_mgp p /\ 0 <= p_base p /\ 0 <= p_mult p <= dl_one /\ 0 < p_quot p.

Lemma msg_basic_ok_facts m :
  msg_basic_ok m = true ->
  0 < m_gas m < 2 ^ 63 /\ 0 <= m_price m /\ 0 <= m_tip m /\ 0 <= m_value m /\
  (m_ty m = Dynamic -> m_tip m <= m_price m).
Proof.
  unfold msg_basic_ok. rewrite !andb_true_iff.
  intros (((((H1 & H2) & H3) & H4) & H5) & H6).
  apply Z.ltb_lt in H1, H2. apply Z.leb_le in H3, H4, H5.
  repeat split; try lia.
  intros Hd. rewrite Hd in H6. apply Z.leb_le in H6. exact H6.
Qed.

Lemma eff_price_bounds base m :
  0 <= base -> msg_basic_ok m = true -> 0 <= eff_price base m <= m_price m.
Proof.
  intros Hb Hm. destruct (msg_basic_ok_facts m Hm) as (_ & Hp & Ht & _ & _).
  unfold eff_price. destruct (m_ty m); lia.
Qed.

Lemma eff_fee_bounds base m :
  0 <= base -> msg_basic_ok m = true -> 0 <= eff_fee base m <= declared_fee m.
Proof.
  intros Hb Hm. pose proof (eff_price_bounds base m Hb Hm).
  destruct (msg_basic_ok_facts m Hm) as (Hg & _).
  unfold eff_fee, declared_fee. split.
  - apply Z.mul_nonneg_nonneg; lia.
  - apply Z.mul_le_mono_nonneg_r; lia.
Qed.

Lemma apply_msg_spec p coll m ev u a :
  params_ok p -> msg_basic_ok m = true -> evm_sane m ev ->
  apply_msg p coll m ev = Some (u, a) ->
  msg_spec p m ev u a /\ 0 <= a <= coll.
Proof.
  intros (Hmgp & Hbase & Hmult & Hq) Hb Hs H. unfold apply_msg in H.
  destruct (msg_basic_ok_facts m Hb) as (Hg & _).
  destruct ev as [|c rc f]; [discriminate|]. cbn in Hs. destruct Hs as [Hc Hrc].
  destruct (m_gas m <? m_intr m); [discriminate|].
  destruct (c <? 0) eqn:Hc0; [discriminate|]. apply Z.ltb_ge in Hc0.
  destruct (dl_is_uint64 _); cbn [negb] in H; [|discriminate].
  destruct (gas_to_refund_bounds rc c (p_quot p) Hq Hrc Hc0) as [Hgr Hgre].
  set (temp := c - gas_to_refund rc c (p_quot p)) in *.
  assert (Ht : 0 <= temp <= m_gas m) by (unfold temp; lia).
  destruct (gas_used_bounds p (m_gas m) temp Hmult Ht) as (Hu & Hu1 & Hu2 & Hu3).
  set (used := gas_used_of p (m_gas m) temp) in *.
  assert (Hmod : (m_gas m - used) mod 2 ^ 64 = m_gas m - used).
  { apply Z.mod_small. assert (2 ^ 63 < 2 ^ 64) by reflexivity. lia. }
  rewrite Hmod in H.
  destruct (_ <? 0) eqn:Ha0 in H; [discriminate|].
  destruct (coll <? _) eqn:Hcl in H; [discriminate|].
  injection H as <- <-. apply Z.ltb_ge in Ha0, Hcl.
  split; [|lia].
  exists c, rc, f. split; [reflexivity|]. cbv zeta.
  rewrite <- Hgre. fold temp.
  repeat split; try lia.
  unfold eff_fee. ring.
Qed.

(** the refund is the leftover gas at the effective price, and the up-front
    deduction minus the refund is gasUsed x effective price *)
Lemma refund_eq_leftover_times_price p coll m ev u a :
  params_ok p -> msg_basic_ok m = true -> evm_sane m ev ->
  apply_msg p coll m ev = Some (u, a) ->
  a = (m_gas m - u) * eff_price (p_base p) m /\
  m_gas m * eff_price (p_base p) m - a = u * eff_price (p_base p) m /\
  0 <= u <= m_gas m.
Proof.
  intros Hp Hb Hs H. destruct (apply_msg_spec p coll m ev u a Hp Hb Hs H) as [(c & rc & f & _ & Hsp) _].
  cbv zeta in Hsp. destruct Hsp as (Ha & Hu & H1 & H2 & H3 & H4 & H5).
  repeat split; try lia; try (rewrite H4; ring).
Qed.

(** ------------------------------------------------------------------ *)
(** * A transaction = a list of messages *)

Fixpoint evs_sane (ms : list emsg) (evs : list evm_out) : Prop :=
  match ms with
  | [] => True
  | m :: r => evm_sane m (hd HardErr evs) /\ evs_sane r (tl evs)
  end.

Fixpoint msgs_spec (p : params) (ms : list emsg) (evs : list evm_out) (l : list (Z * Z)) : Prop :=
  match ms, l with
  | [], [] => True
  | m :: r, (u, a) :: l' => msg_spec p m (hd HardErr evs) u a /\ msgs_spec p r (tl evs) l'
  | _, _ => False
  end.

(** sum over the messages of gasUsed x effective gas price *)
Definition charges (base : Z) (ms : list emsg) (l : list (Z * Z)) : Z :=
  zsum (map (fun x => fst (snd x) * eff_price base (fst x)) (combine ms l)).

Definition upfront (base : Z) (ms : list emsg) : Z := zsum (map (eff_fee base) ms).

Lemma run_msgs_spec p : params_ok p -> forall ms coll evs l,
  forallb msg_basic_ok ms = true -> evs_sane ms evs ->
  run_msgs p coll ms evs = Some l ->
  msgs_spec p ms evs l /\
  upfront (p_base p) ms - zsum (map snd l) = charges (p_base p) ms l /\
  0 <= zsum (map snd l).
Proof.
  intros Hp. induction ms as [|m r IH]; intros coll evs l Hb Hs H.
  - cbn in H. injection H as <-. cbn. unfold upfront, charges. cbn. lia.
  - cbn in Hb. apply andb_true_iff in Hb. destruct Hb as [Hbm Hbr].
    cbn in Hs. destruct Hs as [Hsm Hsr].
    cbn [run_msgs] in H.
    destruct (apply_msg p coll m (hd HardErr evs)) as [[u a]|] eqn:Ha; [|discriminate].
    destruct (run_msgs p (coll - a) r (tl evs)) as [l'|] eqn:Hr; [|discriminate].
    injection H as <-.
    destruct (apply_msg_spec p coll m _ u a Hp Hbm Hsm Ha) as [Hms Hab].
    destruct (IH _ _ _ Hbr Hsr Hr) as (Hsp & Hch & Hz).
    split; [cbn; split; assumption|].
    destruct Hms as (c & rc & f & _ & Hm). cbv zeta in Hm.
    destruct Hm as (_ & _ & _ & _ & _ & _ & Hnet).
    unfold upfront, charges in *. cbn [map combine zsum fold_right fst snd] in *.
    fold (zsum (map (eff_fee (p_base p)) r)) in *.
    fold (zsum (map snd l')) in *.
    fold (zsum (map (fun x : emsg * (Z * Z) => fst (snd x) * eff_price (p_base p) (fst x)) (combine r l'))) in *.
    lia.
Qed.

Lemma msgs_spec_length p ms : forall evs l, msgs_spec p ms evs l -> length l = length ms.
Proof.
  induction ms as [|m r IH]; intros evs [|[u a] l'] H; cbn in *; try tauto.
  destruct H as [_ H]. f_equal. eapply IH; eassumption.
Qed.

(** ------------------------------------------------------------------ *)
(** * The eth ante chain *)

Lemma gas_consume_inr check p : forall ms bal acc d,
  gas_consume check p bal ms acc = inr d ->
  d = acc + upfront (p_base p) ms /\
  (forall m, In m ms -> p_base p <= fee_cap m) /\
  (check = true -> forall m, In m ms -> m_intr m <= m_gas m).
Proof.
  induction ms as [|m r IH]; intros bal acc d H.
  - cbn in H. injection H as <-. unfold upfront. cbn. repeat split; try lia; intros ? [].
  - cbn [gas_consume] in H.
    destruct (check && (m_gas m <? m_intr m)) eqn:Hi; [discriminate|].
    destruct (fee_cap m <? p_base p) eqn:Hc; [discriminate|]. apply Z.ltb_ge in Hc.
    assert (Hrec : exists bal' acc', gas_consume check p bal' r acc' = inr d /\ acc' = acc + eff_fee (p_base p) m).
    { destruct (eff_fee (p_base p) m =? 0) eqn:Hz.
      - apply Z.eqb_eq in Hz. exists bal, acc. split; [exact H | lia].
      - destruct (bal <? eff_fee (p_base p) m); [discriminate|].
        eexists _, _. split; [exact H | reflexivity]. }
    destruct Hrec as (bal' & acc' & Hr & Hacc).
    destruct (IH _ _ _ Hr) as (Hd & Hcap & Hin).
    unfold upfront in *. cbn [map zsum fold_right]. fold (zsum (map (eff_fee (p_base p)) r)).
    repeat split.
    + lia.
    + intros m' [<-|Hm']; [exact Hc | apply Hcap; exact Hm'].
    + intros -> m' [<-|Hm'].
      * cbn in Hi. apply Z.ltb_ge in Hi. exact Hi.
      * apply Hin; [reflexivity | exact Hm'].
Qed.

Lemma eth_ante_inr check p bal ms d :
  eth_ante check p bal ms = inr d ->
  eth_min_price p ms = true /\ gas_consume check p bal ms 0 = inr d.
Proof.
  unfold eth_ante. destruct (eth_min_price p ms); cbn [negb]; [|discriminate].
  destruct (check && _); [discriminate|].
  destruct (negb _); [discriminate|]. auto.
Qed.

Lemma min_price_fee_amt base m :
  match m_ty m with Legacy => declared_fee m | _ => eff_fee base m end = eff_fee base m.
Proof. unfold declared_fee, eff_fee, eff_price. destruct (m_ty m); reflexivity. Qed.

(** every message of a transaction that passes the eth ante chain offers, and is
    charged up front, at least gasLimit x minGasPrice *)
Lemma accepted_eth_fee_ge_floor check p bal ms d m :
  0 <= p_mgp p -> 0 <= p_base p -> forallb msg_basic_ok ms = true ->
  eth_ante check p bal ms = inr d -> In m ms ->
  p_mgp p * m_gas m <= eff_fee (p_base p) m * dl_one /\
  eff_fee (p_base p) m <= declared_fee m.
Proof.
  intros Hmgp Hbase Hb H Hin.
  rewrite forallb_forall in Hb. pose proof (Hb m Hin) as Hbm.
  destruct (eff_fee_bounds (p_base p) m Hbase Hbm) as [Hf0 Hf1].
  split; [|exact Hf1].
  destruct (eth_ante_inr _ _ _ _ _ H) as [Hmin _].
  unfold eth_min_price in Hmin. destruct (p_mgp p =? 0) eqn:Hz.
  - apply Z.eqb_eq in Hz. rewrite Hz. pose proof dl_one_pos. nia.
  - rewrite forallb_forall in Hmin. specialize (Hmin m Hin).
    unfold eth_min_price_ok in Hmin. rewrite min_price_fee_amt in Hmin.
    apply negb_true_iff, Z.ltb_ge in Hmin.
    rewrite dl_mul_of_int_r in Hmin. unfold dl_of_int in Hmin. exact Hmin.
Qed.

Lemma accepted_eth_cap_ge_base check p bal ms d m :
  eth_ante check p bal ms = inr d -> In m ms -> p_base p <= fee_cap m.
Proof.
  intros H Hin. destruct (eth_ante_inr _ _ _ _ _ H) as [_ Hg].
  destruct (gas_consume_inr _ _ _ _ _ _ Hg) as (_ & Hc & _). apply Hc; exact Hin.
Qed.

Lemma eth_ante_deducts_upfront check p bal ms d :
  eth_ante check p bal ms = inr d -> d = upfront (p_base p) ms.
Proof.
  intros H. destruct (eth_ante_inr _ _ _ _ _ H) as [_ Hg].
  destruct (gas_consume_inr _ _ _ _ _ _ Hg) as (Hd & _). lia.
Qed.

(** CheckTx additionally demands the intrinsic gas *)
Lemma check_accepts_intrinsic p bal ms d m :
  eth_ante true p bal ms = inr d -> In m ms -> m_intr m <= m_gas m.
Proof.
  intros H Hin. destruct (eth_ante_inr _ _ _ _ _ H) as [_ Hg].
  destruct (gas_consume_inr _ _ _ _ _ _ Hg) as (_ & _ & Hi). apply Hi; [reflexivity | exact Hin].
Qed.

(** ------------------------------------------------------------------ *)
(** * DeliverTx of an eth transaction *)

Lemma deliver_eth_inv p bal coll ms evs :
  match deliver_eth p bal coll ms evs with
  | Rejected _ => True
  | Failed d g =>
      forallb msg_basic_ok ms = true /\ eth_ante false p bal ms = inr d /\
      run_msgs p (coll + d) ms evs = None /\ g = zsum (map m_gas ms)
  | Executed d l =>
      forallb msg_basic_ok ms = true /\ eth_ante false p bal ms = inr d /\
      run_msgs p (coll + d) ms evs = Some l
  end.
Proof.
  unfold deliver_eth. destruct ms as [|m r]; [exact I|].
  destruct (forallb msg_basic_ok (m :: r)) eqn:Hb; cbn [negb]; [|exact I].
  destruct (eth_ante false p bal (m :: r)) as [c|d] eqn:Ha; [exact I|].
  destruct (run_msgs p (coll + d) (m :: r) evs) as [l|] eqn:Hr; auto.
Qed.

(** executed transaction: the up-front deduction is the sum of gasLimit x
    effective price, every message satisfies [msg_spec], and the sender's net
    payment is the sum of gasUsed x effective price *)
Lemma sender_net_eq_used_times_price p bal coll ms evs d l :
  params_ok p -> evs_sane ms evs ->
  deliver_eth p bal coll ms evs = Executed d l ->
  d = upfront (p_base p) ms /\
  msgs_spec p ms evs l /\
  result_net (Executed d l) = charges (p_base p) ms l /\
  0 <= zsum (map snd l) /\ length l = length ms.
Proof.
  intros Hp Hs H. pose proof (deliver_eth_inv p bal coll ms evs) as Hi. rewrite H in Hi.
  destruct Hi as (Hb & Ha & Hr).
  pose proof (eth_ante_deducts_upfront _ _ _ _ _ Ha) as Hd.
  destruct (run_msgs_spec p Hp _ _ _ _ Hb Hs Hr) as (Hsp & Hch & Hz).
  repeat split; try assumption.
  - cbn. lia.
  - eapply msgs_spec_length; eassumption.
Qed.

(** hard error: every message's whole gas limit stays charged, nothing is refunded *)
Lemma hard_error_charges_limit p bal coll ms evs d g :
  deliver_eth p bal coll ms evs = Failed d g ->
  d = upfront (p_base p) ms /\ g = zsum (map m_gas ms) /\ result_net (Failed d g) = d /\
  upfront (p_base p) ms = zsum (map (fun m => m_gas m * eff_price (p_base p) m) ms).
Proof.
  intros H. pose proof (deliver_eth_inv p bal coll ms evs) as Hi. rewrite H in Hi.
  destruct Hi as (Hb & Ha & Hr & Hg).
  repeat split; try assumption.
  - eapply eth_ante_deducts_upfront; eassumption.
  - unfold upfront. f_equal. apply map_ext. intros m. unfold eff_fee. ring.
Qed.

(** bank view: what DeductFees / RefundGas do to the two balances *)
Definition balances_after (bal coll : Z) (r : result) : Z * Z :=
  match r with
  | Rejected _ => (bal, coll)
  | Failed d _ => (bal - d, coll + d)
  | Executed d l => (bal - d + zsum (map snd l), coll + d - zsum (map snd l))
  end.

Lemma collector_delta_eq_sender_net bal coll r :
  let '(b', c') := balances_after bal coll r in
  c' - coll = bal - b' /\ c' - coll = result_net r.
Proof. destruct r; cbn; lia. Qed.

(** a gas limit below the intrinsic gas is accepted by DeliverTx (VerifyFee
    checks it in CheckTx only), fails in ApplyMessageWithConfig, and the whole
    limit stays charged; CheckTx refuses the same transaction *)
Lemma intrinsic_too_low_deliver_charges_all p bal coll m ev d :
  msg_basic_ok m = true -> m_gas m < m_intr m ->
  eth_ante false p bal [m] = inr d ->
  deliver_eth p bal coll [m] [ev] = Failed (m_gas m * eff_price (p_base p) m) (m_gas m) /\
  check_eth p bal [m] <> OK.
Proof.
  intros Hb Hlt Ha. split.
  - unfold deliver_eth. cbn [forallb]. rewrite Hb. cbn [andb negb]. rewrite Ha.
    pose proof (eth_ante_deducts_upfront _ _ _ _ _ Ha) as Hd. unfold upfront in Hd. cbn in Hd.
    cbn [run_msgs hd]. unfold apply_msg.
    assert (Hi : (m_gas m <? m_intr m) = true) by (apply Z.ltb_lt; exact Hlt).
    destruct ev; rewrite ?Hi; cbn; f_equal; unfold eff_fee in Hd; lia.
  - unfold check_eth. cbn [forallb]. rewrite Hb. cbn [andb negb].
    destruct (eth_ante true p bal [m]) as [c|d'] eqn:Hc.
    + unfold eth_ante in Hc.
      destruct (negb (eth_min_price p [m])); [injection Hc as <-; discriminate|].
      destruct (true && _); [injection Hc as <-; discriminate|].
      destruct (negb _) eqn:Hn.
      * injection Hc as <-. apply negb_true_iff, N.eqb_neq in Hn. exact Hn.
      * cbn [gas_consume] in Hc. 
        assert (Hi : (m_gas m <? m_intr m) = true) by (apply Z.ltb_lt; exact Hlt).
        rewrite Hi in Hc. cbn in Hc. injection Hc as <-. discriminate.
    + pose proof (check_accepts_intrinsic p bal [m] d' m Hc (or_introl eq_refl)). lia.
Qed.

(** ------------------------------------------------------------------ *)
(** * Cosmos route *)

Lemma amount_of_nonneg f d : existsb (fun c : N * Z => snd c <? 0) f = false -> 0 <= amount_of f d.
Proof.
  induction f as [|[d' a] r IH]; cbn; intros H; [lia|].
  apply orb_false_iff in H. destruct H as [Ha Hr]. apply Z.ltb_ge in Ha.
  destruct (N.eqb d' d); [exact Ha | apply IH; exact Hr].
Qed.

Lemma cosmos_required_ge p gas :
  0 <= p_mgp p -> 0 <= gas -> p_mgp p * gas <= cosmos_required p gas * dl_one.
Proof.
  intros Hm Hg. unfold cosmos_required. rewrite dl_mul_of_int_r.
  apply dl_ceil_ge. apply Z.mul_nonneg_nonneg; lia.
Qed.

Lemma cosmos_min_price_ok p gas fee :
  0 <= p_mgp p -> 0 <= gas ->
  existsb (fun c : N * Z => snd c <? 0) fee = false ->
  cosmos_min_price p gas fee = OK ->
  p_mgp p * gas <= amount_of fee 0%N * dl_one.
Proof.
  intros Hm Hg Hneg H.
  destruct (p_mgp p =? 0) eqn:Hz.
  { apply Z.eqb_eq in Hz. rewrite Hz. pose proof (amount_of_nonneg fee 0%N Hneg). pose proof dl_one_pos. nia. }
  pose proof (cosmos_required_ge p gas Hm Hg) as Hreq.
  unfold cosmos_min_price in H. rewrite Hz in H.
  destruct fee as [|[d a] [|c2 r]].
  - cbn in H. discriminate.
  - destruct (N.eqb d 0 || N.eqb d 1); cbn [negb] in H; [|discriminate].
    destruct (0 <? cosmos_required p gas) eqn:Hpos.
    2:{ cbn in H. discriminate. }
    apply Z.ltb_lt in Hpos.
    destruct (is_any_gte _ _) eqn:Hany in H; [|discriminate].
    cbn in Hany. rewrite orb_false_r in Hany.
    cbn [amount_of].
    destruct d as [|d']; cbn in Hany |- *.
    + apply andb_true_iff in Hany. destruct Hany as [Hle _]. apply Z.leb_le in Hle.
      pose proof dl_one_pos. nia.
    + rewrite andb_false_r in Hany. discriminate.
  - cbn in H. discriminate.
Qed.

Lemma cosmos_ante_inr p bal gas fee tip paid :
  cosmos_ante p bal gas fee tip = inr paid ->
  existsb (fun c : N * Z => snd c <? 0) fee = false /\ 0 < gas /\
  cosmos_min_price p gas fee = OK /\ cosmos_deduct p bal gas fee tip = inr paid.
Proof.
  unfold cosmos_ante. destruct (existsb _ fee); [discriminate|].
  destruct (gas <=? 0) eqn:Hg; [discriminate|]. apply Z.leb_gt in Hg.
  destruct (N.eqb (cosmos_min_price p gas fee) OK) eqn:Hm; cbn [negb]; [|discriminate].
  apply N.eqb_eq in Hm. auto.
Qed.

Lemma cosmos_deduct_inr p bal gas fee tip paid :
  0 < gas -> cosmos_deduct p bal gas fee tip = inr paid ->
  0 <= odflt max_int64 tip /\ p_base p <= cosmos_fee_cap gas fee /\
  paid = cosmos_eff_price p gas fee tip * gas.
Proof.
  intros Hg. unfold cosmos_deduct.
  destruct (gas <=? 0) eqn:Hg0; [apply Z.leb_le in Hg0; lia|].
  destruct (odflt max_int64 tip <? 0) eqn:Ht; [discriminate|]. apply Z.ltb_ge in Ht.
  destruct (cosmos_fee_cap gas fee <? p_base p) eqn:Hc; [discriminate|]. apply Z.ltb_ge in Hc.
  destruct (_ =? 0) eqn:Hz.
  - apply Z.eqb_eq in Hz. intros H. injection H as <-. lia.
  - destruct (bal <? _); [discriminate|]. intros H. injection H as <-. lia.
Qed.

(** a Cosmos transaction that passes the ante chain declares, in the EVM
    denomination, at least gasLimit x minGasPrice *)
Lemma accepted_cosmos_fee_ge_floor p bal gas fee tip paid :
  0 <= p_mgp p ->
  cosmos_ante p bal gas fee tip = inr paid ->
  p_mgp p * gas <= amount_of fee 0%N * dl_one /\ 0 < gas /\
  (forall c, In c fee -> 0 <= snd c).
Proof.
  intros Hm H. destruct (cosmos_ante_inr _ _ _ _ _ _ H) as (Hneg & Hg & Hmin & _).
  repeat split; try lia.
  - apply cosmos_min_price_ok; try assumption; lia.
  - intros c Hin. destruct (snd c <? 0) eqn:Hc; [|apply Z.ltb_ge in Hc; exact Hc].
    assert (existsb (fun c : N * Z => snd c <? 0) fee = true) by (apply existsb_exists; eauto).
    congruence.
Qed.

(** what is charged is effective price x gas, never more than declared *)
Lemma cosmos_paid_spec p bal gas fee tip paid :
  0 <= p_base p ->
  cosmos_ante p bal gas fee tip = inr paid ->
  paid = cosmos_eff_price p gas fee tip * gas /\ 0 <= paid <= amount_of fee 0%N /\
  p_base p <= cosmos_fee_cap gas fee.
Proof.
  intros Hb H. destruct (cosmos_ante_inr _ _ _ _ _ _ H) as (Hneg & Hg & _ & Hd).
  destruct (cosmos_deduct_inr _ _ _ _ _ _ Hg Hd) as (Ht & Hc & ->).
  pose proof (amount_of_nonneg fee 0%N Hneg) as Hf.
  unfold cosmos_eff_price, cosmos_fee_cap in *.
  rewrite Z.quot_div_nonneg in * by lia.
  assert (amount_of fee 0%N / gas * gas <= amount_of fee 0%N) by (rewrite Z.mul_comm; apply Z.mul_div_le; lia).
  assert (Z.min (p_base p + odflt max_int64 tip) (amount_of fee 0%N / gas) <= amount_of fee 0%N / gas) by lia.
  assert (0 <= Z.min (p_base p + odflt max_int64 tip) (amount_of fee 0%N / gas)) by lia.
  repeat split; try lia; nia.
Qed.

(** with base fee >= min gas price, the fee actually charged reaches the floor *)
Lemma cosmos_paid_ge_floor_when_base_ge_min p bal gas fee tip paid :
  0 <= p_base p -> p_mgp p <= p_base p * dl_one ->
  cosmos_ante p bal gas fee tip = inr paid ->
  p_mgp p * gas <= paid * dl_one.
Proof.
  intros Hb Hbm H. destruct (cosmos_ante_inr _ _ _ _ _ _ H) as (Hneg & Hg & _ & Hd).
  destruct (cosmos_deduct_inr _ _ _ _ _ _ Hg Hd) as (Ht & Hc & ->).
  unfold cosmos_eff_price.
  set (e := Z.min (p_base p + odflt max_int64 tip) (cosmos_fee_cap gas fee)).
  assert (He : p_base p <= e) by (unfold e; lia).
  pose proof dl_one_pos as HE.
  assert (H1 : p_base p * dl_one <= e * dl_one) by (apply Z.mul_le_mono_nonneg_r; lia).
  assert (H2 : p_mgp p * gas <= e * dl_one * gas) by (apply Z.mul_le_mono_nonneg_r; lia).
  replace (e * gas * dl_one) with (e * dl_one * gas) by ring. exact H2.
Qed.

(** ... and without that guard it does not (reproduced on the real code:
    minGasPrice 1.5, base fee 1, gas 1 000 000, fee 1 500 000 aISLM, no
    extension option: accepted, charged 1 000 000) *)
Definition cosmos_below_floor_params : params := mkparams 1500000000000000000 1 500000000000000000 5.
Lemma cosmos_paid_ge_floor_refuted :
  let p := cosmos_below_floor_params in
  0 <= p_mgp p /\ 0 <= p_base p /\
  cosmos_ante p (10 ^ 23) 1000000 [(0%N, 1500000)] None = inr 1000000 /\
  p_mgp p * 1000000 <= amount_of [(0%N, 1500000)] 0%N * dl_one /\
  1000000 * dl_one < p_mgp p * 1000000.
Proof. vm_compute. repeat split; discriminate || reflexivity. Qed.

(** with NoBaseFee (base fee 0) and a zero tip the charge is nothing at all *)
Lemma cosmos_zero_tip_pays_nothing_refuted :
  let p := mkparams dl_one 0 0 5 in
  cosmos_ante p (10 ^ 23) 300000 [(0%N, 300000)] (Some 0) = inr 0.
Proof. vm_compute. reflexivity. Qed.

(** ------------------------------------------------------------------ *)
(** * What is finally paid against the floor; link to C17 *)

Definition tx_sane (t : txin) : Prop :=
  match t with EthTx ms evs => evs_sane ms evs | CosmosTx _ _ _ _ => True end.

(** gas the transaction is finally charged for *)
Definition gas_charged (t : txin) (r : result) : Z :=
  match r, t with
  | Rejected _, _ => 0
  | Failed _ g, EthTx _ _ => g
  | Executed _ l, EthTx _ _ => zsum (map fst l)
  | _, CosmosTx gas _ _ _ => gas
  end.

Lemma price_ge_mgp check p bal ms d m :
  0 <= p_mgp p -> 0 <= p_base p -> forallb msg_basic_ok ms = true ->
  eth_ante check p bal ms = inr d -> In m ms ->
  p_mgp p <= eff_price (p_base p) m * dl_one.
Proof.
  intros Hm Hb Hbs Ha Hin.
  destruct (accepted_eth_fee_ge_floor _ _ _ _ _ _ Hm Hb Hbs Ha Hin) as [Hf _].
  rewrite forallb_forall in Hbs. destruct (msg_basic_ok_facts m (Hbs m Hin)) as (Hg & _).
  unfold eff_fee in Hf.
  apply Z.mul_le_mono_pos_r with (p := m_gas m); [lia|].
  replace (eff_price (p_base p) m * dl_one * m_gas m) with (eff_price (p_base p) m * m_gas m * dl_one) by ring.
  exact Hf.
Qed.

Lemma charges_ge_floor p mgp : forall ms evs l,
  0 <= mgp ->
  (forall m, In m ms -> mgp <= eff_price (p_base p) m * dl_one) ->
  msgs_spec p ms evs l ->
  mgp * zsum (map fst l) <= charges (p_base p) ms l * dl_one.
Proof.
  induction ms as [|m r IH]; intros evs [|[u a] l'] Hm Hall Hs; cbn in Hs; try tauto.
  - unfold charges. cbn. lia.
  - destruct Hs as [Hms Hs]. specialize (IH (tl evs) l' Hm (fun m' H' => Hall m' (or_intror H')) Hs).
    pose proof (Hall m (or_introl eq_refl)) as Hp.
    destruct Hms as (c & rc & f & _ & Hsp). cbv zeta in Hsp.
    destruct Hsp as (Hafter & _ & Hu & _).
    unfold charges in *. cbn [map combine zsum fold_right fst snd] in *.
    fold (zsum (map fst l')) in *.
    fold (zsum (map (fun x : emsg * (Z * Z) => fst (snd x) * eff_price (p_base p) (fst x)) (combine r l'))) in *.
    assert (mgp * u <= u * eff_price (p_base p) m * dl_one).
    { replace (u * eff_price (p_base p) m * dl_one) with (eff_price (p_base p) m * dl_one * u) by ring.
      apply Z.mul_le_mono_nonneg_r; lia. }
    lia.
Qed.

Lemma upfront_ge_floor p mgp : forall ms,
  (forall m, In m ms -> mgp * m_gas m <= eff_fee (p_base p) m * dl_one) ->
  mgp * zsum (map m_gas ms) <= upfront (p_base p) ms * dl_one.
Proof.
  induction ms as [|m r IH]; intros Hall; unfold upfront in *; cbn [map zsum fold_right] in *; [lia|].
  fold (zsum (map m_gas r)) in *. fold (zsum (map (eff_fee (p_base p)) r)) in *.
  pose proof (Hall m (or_introl eq_refl)).
  specialize (IH (fun m' H' => Hall m' (or_intror H'))). lia.
Qed.

(** on the eth route what is finally paid always covers gas charged x minGasPrice
    (no condition on the base fee) *)
Lemma eth_paid_ge_floor p bal coll ms evs :
  params_ok p -> evs_sane ms evs ->
  let r := deliver_eth p bal coll ms evs in
  p_mgp p * gas_charged (EthTx ms evs) r <= result_net r * dl_one.
Proof.
  intros Hp Hs. cbv zeta.
  pose proof (deliver_eth_inv p bal coll ms evs) as Hi.
  pose proof Hp as Hp'.
  destruct Hp' as (Hm & Hb & Hmult & Hq).
  destruct (deliver_eth p bal coll ms evs) as [c|d g|d l] eqn:Hd.
  - cbn. lia.
  - destruct Hi as (Hbs & Ha & _ & ->). cbn.
    rewrite (eth_ante_deducts_upfront _ _ _ _ _ Ha).
    apply upfront_ge_floor. intros m Hin.
    apply (accepted_eth_fee_ge_floor _ _ _ _ _ _ Hm Hb Hbs Ha Hin).
  - destruct Hi as (Hbs & Ha & Hr).
    destruct (sender_net_eq_used_times_price p bal coll ms evs d l Hp Hs Hd) as (_ & Hsp & Hnet & _).
    rewrite Hnet. cbn [gas_charged].
    eapply charges_ge_floor; [exact Hm | | exact Hsp].
    intros m Hin. eapply price_ge_mgp; eassumption.
Qed.

Lemma deliver_cosmos_inv p bal gas fee tip send :
  match deliver_cosmos p bal gas fee tip send with
  | Rejected _ => True
  | Failed paid _ => cosmos_ante p bal gas fee tip = inr paid
  | Executed paid l => cosmos_ante p bal gas fee tip = inr paid /\ l = []
  end.
Proof.
  unfold deliver_cosmos. destruct (cosmos_ante p bal gas fee tip) as [c|paid]; [exact I|].
  destruct (bal - paid <? send); auto.
Qed.

(** link to C17 (base fee >= minGasPrice is an invariant of the fee market with
    fixed parameters): under it, every accepted transaction of either route is
    finally charged at least (gas charged) x minGasPrice *)
Lemma paid_ge_floor_when_base_ge_min p bal coll t :
  params_ok p -> p_mgp p <= p_base p * dl_one -> tx_sane t ->
  let r := deliver p bal coll t in
  p_mgp p * gas_charged t r <= result_net r * dl_one.
Proof.
  intros Hp Hbm Hs. destruct t as [ms evs|gas fee tip send]; cbv zeta; cbn [deliver].
  - apply eth_paid_ge_floor; assumption.
  - pose proof (deliver_cosmos_inv p bal gas fee tip send) as Hi.
    destruct Hp as (Hm & Hb & _).
    destruct (deliver_cosmos p bal gas fee tip send) as [c|paid g|paid l]; cbn.
    + lia.
    + eapply cosmos_paid_ge_floor_when_base_ge_min; eassumption.
    + destruct Hi as [Hi ->]. cbn. rewrite Z.sub_0_r.
      eapply cosmos_paid_ge_floor_when_base_ge_min; eassumption.
Qed.

(** ------------------------------------------------------------------ *)
(** * Histories *)

(** what the property says a transaction costs, from the gas figures alone *)
Definition spec_paid (p : params) (t : txin) (r : result) : Z :=
  match r, t with
  | Rejected _, _ => 0
  | Failed _ _, EthTx ms _ => zsum (map (fun m => m_gas m * eff_price (p_base p) m) ms)
  | Executed _ l, EthTx ms _ => charges (p_base p) ms l
  | _, CosmosTx gas fee tip _ => cosmos_eff_price p gas fee tip * gas
  end.

Lemma tx_net_eq_spec p bal coll t :
  params_ok p -> tx_sane t ->
  result_net (deliver p bal coll t) = spec_paid p t (deliver p bal coll t).
Proof.
  intros Hp Hs. destruct t as [ms evs|gas fee tip send]; cbn [deliver].
  - destruct (deliver_eth p bal coll ms evs) as [c|d g|d l] eqn:Hd.
    + reflexivity.
    + destruct (hard_error_charges_limit _ _ _ _ _ _ _ Hd) as (-> & _ & _ & Hu). cbn. exact Hu.
    + destruct (sender_net_eq_used_times_price _ _ _ _ _ _ _ Hp Hs Hd) as (_ & _ & Hn & _). exact Hn.
  - pose proof (deliver_cosmos_inv p bal gas fee tip send) as Hi.
    destruct (deliver_cosmos p bal gas fee tip send) as [c|paid g|paid l] eqn:Hd; cbn.
    + reflexivity.
    + destruct (cosmos_ante_inr _ _ _ _ _ _ Hi) as (_ & Hg & _ & Hde).
      destruct (cosmos_deduct_inr _ _ _ _ _ _ Hg Hde) as (_ & _ & ->). reflexivity.
    + destruct Hi as [Hi ->].
      destruct (cosmos_ante_inr _ _ _ _ _ _ Hi) as (_ & Hg & _ & Hde).
      destruct (cosmos_deduct_inr _ _ _ _ _ _ Hg Hde) as (_ & _ & ->). cbn. lia.
Qed.

Definition step_sane (s : hstep) : Prop :=
  let '(p, _, t) := s in params_ok p /\ tx_sane t.

Fixpoint history_spec (coll : Z) (h : list hstep) : list Z :=
  match h with
  | [] => []
  | (p, bal, t) :: r =>
      let res := deliver p bal coll t in
      spec_paid p t res :: history_spec (coll + result_net res) r
  end.

(** over any sequence of transactions (any routes, parameters changing between
    them, any outcomes) the fee collector gains exactly the sum of
    gasUsed x effective price of the executed Ethereum messages, the whole
    limit x price of the hard-failed ones, and the effective fee of the Cosmos ones *)
Lemma history_collector_total : forall h coll,
  Forall step_sane h ->
  run_history coll h = coll + zsum (history_spec coll h).
Proof.
  induction h as [|[[p bal] t] r IH]; intros coll Hs.
  - cbn. lia.
  - inversion Hs as [|? ? Hst Hr]; subst. cbn in Hst. destruct Hst as [Hp Ht].
    cbn [run_history history_spec zsum fold_right].
    fold (zsum (history_spec (coll + result_net (deliver p bal coll t)) r)).
    rewrite (IH _ Hr). rewrite (tx_net_eq_spec p bal coll t Hp Ht). lia.
Qed.

(** ------------------------------------------------------------------ *)
(** * Non-vacuity: concrete transactions satisfying every hypothesis *)

Definition ex_params : params := mkparams 1500000000000000000 2 500000000000000000 5.

Lemma ex_params_ok : params_ok ex_params.
Proof. unfold params_ok, ex_params. cbn. rewrite dl_one_val. lia. Qed.

(** legacy transfer-like call: consumed 30000, refund counter 4800 (capped at
    30000/5), min-gas rule binds: max(25200, 50000) *)
Definition ex_legacy : emsg := mkmsg Legacy 100000 3 0 0 21000.
Example ex_legacy_executed :
  deliver_eth ex_params (10 ^ 20) 0 [ex_legacy] [Ran 30000 4800 false]
  = Executed 300000 [(50000, 150000)].
Proof. vm_compute. reflexivity. Qed.

(** dynamic-fee message: effective price min(1 + 2, 5) = 3; clearing storage:
    refund counter 19200 capped at 47000/5 = 9400 *)
Definition ex_dynamic : emsg := mkmsg Dynamic 60000 5 1 7 21644.
Example ex_dynamic_executed :
  deliver_eth ex_params (10 ^ 20) 0 [ex_dynamic] [Ran 47000 19200 true]
  = Executed 180000 [(37600, 67200)].
Proof. vm_compute. reflexivity. Qed.

(** price one below the floor (ceil 1.5 = 2): refused; fee cap below base fee: refused *)
Example ex_below_floor_rejected :
  deliver_eth ex_params (10 ^ 20) 0 [mkmsg Legacy 100000 1 0 0 21000] [Ran 30000 0 false] = Rejected EFee.
Proof. vm_compute. reflexivity. Qed.
Example ex_cap_below_base_rejected :
  deliver_eth (mkparams 0 7 0 5) (10 ^ 20) 0 [mkmsg Dynamic 100000 6 6 0 21000] [Ran 30000 0 false] = Rejected EFee.
Proof. vm_compute. reflexivity. Qed.

(** multi-message transaction; the third message out of gas *)
Example ex_multi_executed :
  deliver_eth ex_params (10 ^ 20) 0
    [ex_legacy; ex_dynamic; mkmsg AccessL 23000 2 0 0 21000]
    [Ran 30000 4800 false; Ran 47000 19200 false; Ran 23000 0 true]
  = Executed 526000 [(50000, 150000); (37600, 67200); (23000, 0)].
Proof. vm_compute. reflexivity. Qed.

Example ex_multi_sane :
  evs_sane [ex_legacy; ex_dynamic; mkmsg AccessL 23000 2 0 0 21000]
           [Ran 30000 4800 false; Ran 47000 19200 false; Ran 23000 0 true].
Proof. cbn. lia. Qed.

(** hard error in the second message: both limits stay charged *)
Example ex_multi_failed :
  deliver_eth ex_params (10 ^ 20) 0 [ex_legacy; ex_dynamic] [Ran 30000 4800 false; HardErr]
  = Failed 480000 160000.
Proof. vm_compute. reflexivity. Qed.

(** Cosmos transaction at the floor with base fee >= min gas price *)
Example ex_cosmos_executed :
  deliver_cosmos (mkparams 1500000000000000000 2 0 5) (10 ^ 20) 300000 [(0%N, 600000)] None 5
  = Executed 600000 [].
Proof. vm_compute. reflexivity. Qed.
Example ex_cosmos_below_floor_rejected :
  deliver_cosmos (mkparams 1500000000000000000 1 0 5) (10 ^ 20) 300000 [(0%N, 449999)] None 5
  = Rejected EFee.
Proof. vm_compute. reflexivity. Qed.

(** a two-step history *)
Example ex_history :
  run_history 0 [(ex_params, 10 ^ 20, EthTx [ex_legacy] [Ran 30000 4800 false]);
                 (mkparams 1500000000000000000 2 0 5, 10 ^ 20, CosmosTx 300000 [(0%N, 600000)] None 5)]
  = 50000 * 3 + 2 * 300000.
Proof. vm_compute. reflexivity. Qed.

(** the fee compared with the floor and charged up front, per transaction type *)
Lemma eff_fee_by_type base m :
  eff_fee base m =
  match m_ty m with
  | Legacy | AccessL => m_price m * m_gas m
  | Dynamic => Z.min (m_tip m + base) (m_price m) * m_gas m
  end.
Proof. unfold eff_fee, eff_price. destruct (m_ty m); reflexivity. Qed.
