(** The few operations of cosmossdk.io/math LegacyDec that the fee code uses
    (property C07).  A Dec is its raw integer: the value times 10^18.
    Transcribed from cosmossdk.io/math/dec.go: Mul = multiply the raw values,
    then chopPrecisionAndRound (banker's rounding, sign handled through the
    absolute value); TruncateInt = big.Int.Quo (towards zero); Ceil = QuoRem
    (truncated), plus one when the remainder is positive.  All names carry the
    prefix [dl_]. *)
From Coq Require Import ZArith.
Local Open Scope Z_scope.

Definition dl_one : Z := 10 ^ 18.       (* precisionReuse *)
Definition dl_half : Z := 5 * 10 ^ 17.  (* fivePrecision *)

(** LegacyNewDecFromBigInt / LegacyNewDec *)
Definition dl_of_int (n : Z) : Z := n * dl_one.

(** chopPrecisionAndRound for a non-negative argument *)
Definition dl_chop_abs (x : Z) : Z :=
  let q := x / dl_one in
  let r := x mod dl_one in
  if r =? 0 then q
  else if r <? dl_half then q
  else if dl_half <? r then q + 1
  else if Z.even q then q else q + 1.

Definition dl_chop (x : Z) : Z :=
  if x <? 0 then - dl_chop_abs (- x) else dl_chop_abs x.

(** Dec.Mul *)
Definition dl_mul (a b : Z) : Z := dl_chop (a * b).

(** Dec.TruncateInt (the integer), Dec.RoundInt (the integer) *)
Definition dl_trunc (a : Z) : Z := Z.quot a dl_one.
Definition dl_round_int (a : Z) : Z := dl_chop a.

(** Dec.Ceil (a Dec again) *)
Definition dl_ceil (a : Z) : Z :=
  let q := Z.quot a dl_one in
  let r := Z.rem a dl_one in
  if r =? 0 then dl_of_int q
  else if r <? 0 then dl_of_int q
  else dl_of_int (q + 1).

(** LegacyMaxDec: "if d1.LT(d2) return d2; return d1" *)
Definition dl_max (a b : Z) : Z := if a <? b then b else a.

(** Int.IsUint64 *)
Definition dl_is_uint64 (n : Z) : bool := (0 <=? n) && (n <? 2 ^ 64).
