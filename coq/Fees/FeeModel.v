(** Fee floor and exact EVM gas charge (property C07): executable model of

    - app/ante/cosmos/min_price.go  MinGasPriceDecorator
    - app/ante/evm/fee_checker.go   NewDynamicFeeChecker (used by app/ante/cosmos/fees.go DeductFeeDecorator)
    - app/ante/evm/fees.go          EthMinGasPriceDecorator
    - app/ante/evm/eth.go           EthAccountVerificationDecorator (CheckTx only),
                                    CanTransferDecorator, EthGasConsumeDecorator
    - x/evm/keeper/fees.go          VerifyFee, DeductTxCostsFromUserBalance, CheckSenderBalance
    - x/evm/keeper/gas.go           GasToRefund, RefundGas
    - x/evm/keeper/state_transition.go  ApplyMessageWithConfig (refund, min-gas-used rule),
                                    ApplyTransaction (refund of the leftover; hard error = whole limit)
    - x/evm/types/{legacy,access_list,dynamic_fee}_tx.go, utils.go  Fee, EffectiveGasPrice, EffectiveFee

    in the order of app/ante/handler_options.go, as baseapp runs a transaction in
    DeliverTx (flag [check] = false) or CheckTx (flag = true) mode.

    Definitions only; proofs are in FeeProofs.v.

    London is active (all Haqq chain configs activate it at block 0), so the EVM
    keeper's GetBaseFee never returns nil: it is the feemarket base fee, or 0
    when NoBaseFee is set.  [p_base] is that value.  The EVM interpreter is not
    modelled: what it does with a message enters as the argument [evm_out]
    (gas consumed before refunds, refund counter, vm error | hard error). *)
From Coq Require Import ZArith NArith List Bool.
From stdpp Require Import numbers list.
From HV Require Import Fees.DecLite.
Import ListNotations.
Local Open Scope Z_scope.

(** ---- data ---- *)
Inductive txty := Legacy | AccessL | Dynamic.

Record emsg := mkmsg {
  m_ty    : txty;
  m_gas   : Z;     (* gas limit *)
  m_price : Z;     (* gas price (Legacy, AccessL) or gas fee cap (Dynamic) *)
  m_tip   : Z;     (* gas tip cap (Dynamic) *)
  m_value : Z;
  m_intr  : Z      (* intrinsic gas of the payload (go-ethereum core.IntrinsicGas) *)
}.

(** what the EVM did with one message: [HardErr] = ApplyMessageWithConfig
    returned an error for a reason outside this model (create/call disabled,
    inactive precompile, StateDB commit failure) *)
Inductive evm_out := HardErr | Ran (consumed refund_counter : Z) (failed : bool).

Record params := mkparams {
  p_mgp  : Z;      (* feemarket MinGasPrice, raw Dec *)
  p_base : Z;      (* base fee as returned by EvmKeeper.GetBaseFee *)
  p_mult : Z;      (* feemarket MinGasMultiplier, raw Dec *)
  p_quot : Z       (* refund quotient: 5 (EIP-3529, London) or 2 *)
}.

(** result classes, as the harness maps ABCI codes *)
Definition OK : N := 0.
Definition EFee : N := 1.      (* ErrInsufficientFee *)
Definition EFunds : N := 2.    (* ErrInsufficientFunds *)
Definition EOther : N := 3.
Definition EExec : N := 4.     (* ante passed, a message returned an error *)

(** ---- tx data accessors ---- *)
(** GetGasFeeCap: the gas price for Legacy / AccessL *)
Definition fee_cap (m : emsg) : Z := m_price m.
(** EffectiveGasPrice(baseFee) = msg.GasPrice() of core.Message built with that base fee *)
Definition eff_price (base : Z) (m : emsg) : Z :=
  match m_ty m with
  | Dynamic => Z.min (m_tip m + base) (m_price m)
  | _ => m_price m
  end.
(** Fee() = price (fee cap) x gas; EffectiveFee(baseFee) *)
Definition declared_fee (m : emsg) : Z := m_price m * m_gas m.
Definition eff_fee (base : Z) (m : emsg) : Z := eff_price base m * m_gas m.

(** MsgEthereumTx.ValidateBasic / TxData.Validate (run by baseapp before the ante chain) *)
Definition msg_basic_ok (m : emsg) : bool :=
  (0 <? m_gas m) && (m_gas m <? 2 ^ 63)
  && (0 <=? m_price m) && (0 <=? m_tip m) && (0 <=? m_value m)
  && match m_ty m with Dynamic => m_tip m <=? m_price m | _ => true end.

(** ---- eth route ---- *)
(** EthMinGasPriceDecorator, one message: fee (Legacy: GetFee; typed: GetEffectiveFee)
    as Dec must not be LT minGasPrice.Mul(gasLimit) *)
Definition eth_min_price_ok (p : params) (m : emsg) : bool :=
  let fee_amt := match m_ty m with Legacy => declared_fee m | _ => eff_fee (p_base p) m end in
  negb (dl_of_int fee_amt <? dl_mul (p_mgp p) (dl_of_int (m_gas m))).
Definition eth_min_price (p : params) (ms : list emsg) : bool :=
  if p_mgp p =? 0 then true else forallb (eth_min_price_ok p) ms.

(** CanTransferDecorator, one message *)
Definition can_transfer (p : params) (bal : Z) (m : emsg) : N :=
  if fee_cap m <? p_base p then EFee
  else if (0 <? m_value m) && (bal <? m_value m) then EFunds
  else OK.

Fixpoint first_error (f : emsg -> N) (ms : list emsg) : N :=
  match ms with
  | [] => OK
  | m :: r => if N.eqb (f m) OK then first_error f r else f m
  end.

(** EthGasConsumeDecorator: VerifyFee + deductFee per message, on the running
    balance; returns the total deducted *)
Fixpoint gas_consume (check : bool) (p : params) (bal : Z) (ms : list emsg) (acc : Z) : N + Z :=
  match ms with
  | [] => inr acc
  | m :: r =>
      if check && (m_gas m <? m_intr m) then inl EOther
      else if fee_cap m <? p_base p then inl EFee
      else
        let fee := eff_fee (p_base p) m in
        if fee =? 0 then gas_consume check p bal r acc
        else if bal <? fee then inl EFee    (* "insufficient staking rewards to cover transaction fees" *)
        else gas_consume check p (bal - fee) r (acc + fee)
  end.

Definition eth_ante (check : bool) (p : params) (bal : Z) (ms : list emsg) : N + Z :=
  if negb (eth_min_price p ms) then inl EFee
  else if check && existsb (fun m => bal <? declared_fee m + m_value m) ms then inl EFunds
  else if negb (N.eqb (first_error (can_transfer p bal) ms) OK) then inl (first_error (can_transfer p bal) ms)
  else gas_consume check p bal ms 0.

(** GasToRefund *)
Definition gas_to_refund (avail consumed quot : Z) : Z :=
  let r := consumed / quot in
  if r >? avail then avail else r.

(** the min-gas-used rule at the end of ApplyMessageWithConfig *)
Definition min_gas_used (p : params) (gas : Z) : Z := dl_mul (dl_of_int gas) (p_mult p).
Definition gas_used_of (p : params) (gas temp : Z) : Z :=
  dl_trunc (dl_max (min_gas_used p gas) (dl_of_int temp)).

(** ApplyTransaction for one message, given what the EVM did: [None] = error
    returned (the whole Cosmos transaction fails), [Some (gas_used, refunded)].
    [coll] is the fee collector's balance at that point (RefundGas pays from it). *)
Definition apply_msg (p : params) (coll : Z) (m : emsg) (ev : evm_out) : option (Z * Z) :=
  match ev with
  | HardErr => None
  | Ran consumed rc _ =>
      if m_gas m <? m_intr m then None            (* ErrIntrinsicGas *)
      else if consumed <? 0 then None             (* msg.Gas() < leftoverGas *)
      else
        let temp := consumed - gas_to_refund rc consumed (p_quot p) in
        if negb (dl_is_uint64 (dl_trunc (min_gas_used p (m_gas m)))) then None
        else
          let used := gas_used_of p (m_gas m) temp in
          let leftover := (m_gas m - used) mod 2 ^ 64 in     (* uint64 subtraction *)
          let amount := leftover * eff_price (p_base p) m in
          if amount <? 0 then None                 (* ErrInvalidRefund *)
          else if coll <? amount then None         (* fee collector cannot pay *)
          else Some (used, amount)
  end.

Fixpoint run_msgs (p : params) (coll : Z) (ms : list emsg) (evs : list evm_out) : option (list (Z * Z)) :=
  match ms with
  | [] => Some []
  | m :: r =>
      match apply_msg p coll m (hd HardErr evs) with
      | None => None
      | Some (u, a) =>
          match run_msgs p (coll - a) r (tl evs) with
          | None => None
          | Some l => Some ((u, a) :: l)
          end
      end
  end.

Definition zsum (l : list Z) : Z := fold_right Z.add 0 l.

Inductive result :=
| Rejected (code : N)                          (* no state change *)
| Failed (deducted : Z) (gas : Z)              (* ante effects kept, messages rolled back *)
| Executed (deducted : Z) (l : list (Z * Z)).  (* per message: gas used, amount refunded *)

Definition deliver_eth (p : params) (bal coll : Z) (ms : list emsg) (evs : list evm_out) : result :=
  match ms with
  | [] => Rejected EOther
  | _ =>
    if negb (forallb msg_basic_ok ms) then Rejected EOther else
    match eth_ante false p bal ms with
    | inl c => Rejected c
    | inr d =>
        match run_msgs p (coll + d) ms evs with
        | None => Failed d (zsum (map m_gas ms))
        | Some l => Executed d l
        end
    end
  end.

Definition check_eth (p : params) (bal : Z) (ms : list emsg) : N :=
  match ms with
  | [] => EOther
  | _ =>
    if negb (forallb msg_basic_ok ms) then EOther else
    match eth_ante true p bal ms with inl c => c | inr _ => OK end
  end.

(** ---- cosmos route ---- *)
Notation fcoins := (list (N * Z)).       (* denominations: 0 = EVM denom (aISLM), 1 = "stake", other *)

Fixpoint amount_of (f : fcoins) (d : N) : Z :=
  match f with
  | [] => 0
  | (d', a) :: r => if N.eqb d' d then a else amount_of r d
  end.

(** sdk.Coins.IsAnyGTE *)
Definition is_any_gte (a b : fcoins) : bool :=
  match b with
  | [] => false
  | _ => existsb (fun c => let amt := amount_of b (fst c) in (amt <=? snd c) && negb (amt =? 0)) a
  end.

(** MinGasPriceDecorator (simulate = false) *)
Definition cosmos_required (p : params) (gas : Z) : Z :=
  dl_round_int (dl_ceil (dl_mul (p_mgp p) (dl_of_int gas))).

Definition cosmos_min_price (p : params) (gas : Z) (fee : fcoins) : N :=
  let valid := match fee with
               | [] => true
               | [(d, _)] => N.eqb d 0 || N.eqb d 1
               | _ => false
               end in
  if negb valid then EOther
  else if p_mgp p =? 0 then OK
  else
    let req := cosmos_required p gas in
    let required := if 0 <? req then [(0%N, req)] else [] in
    match fee with
    | [] => EFee                                   (* "fee not provided" *)
    | _ => if is_any_gte fee required then OK else EFee
    end.

Definition max_int64 : Z := 2 ^ 63 - 1.
Definition odflt (d : Z) (o : option Z) : Z := match o with Some x => x | None => d end.

(** NewDynamicFeeChecker (block height > 0, London): the fee that is charged *)
Definition cosmos_fee_cap (gas : Z) (fee : fcoins) : Z := Z.quot (amount_of fee 0%N) gas.
Definition cosmos_eff_price (p : params) (gas : Z) (fee : fcoins) (tip : option Z) : Z :=
  Z.min (p_base p + odflt max_int64 tip) (cosmos_fee_cap gas fee).

Definition cosmos_deduct (p : params) (bal gas : Z) (fee : fcoins) (tip : option Z) : N + Z :=
  if gas <=? 0 then inl EOther
  else if odflt max_int64 tip <? 0 then inl EFee
  else if cosmos_fee_cap gas fee <? p_base p then inl EFee
  else
    let paid := cosmos_eff_price p gas fee tip * gas in
    if paid =? 0 then inr 0
    else if bal <? paid then inl EOther     (* error text without an ABCI code *)
    else inr paid.

(** the cosmos ante chain as far as fees are concerned (tx.ValidateBasic: no
    negative fee; SetUpContext: a zero gas limit runs out of gas at once) *)
Definition cosmos_ante (p : params) (bal gas : Z) (fee : fcoins) (tip : option Z) : N + Z :=
  if existsb (fun c => snd c <? 0) fee then inl EFee
  else if gas <=? 0 then inl EOther
  else if negb (N.eqb (cosmos_min_price p gas fee) OK) then inl (cosmos_min_price p gas fee)
  else cosmos_deduct p bal gas fee tip.

(** a bank send of [send] as the single message *)
Definition deliver_cosmos (p : params) (bal gas : Z) (fee : fcoins) (tip : option Z) (send : Z) : result :=
  match cosmos_ante p bal gas fee tip with
  | inl c => Rejected c
  | inr paid => if bal - paid <? send then Failed paid 0 else Executed paid []
  end.

(** tx priority set by the fee decorators (what CheckTx reports to the mempool):
    (effective price - base fee) / DefaultPriorityReduction, MaxInt64 when it does
    not fit; for an eth transaction the minimum over its messages *)
Definition prio_of (tip_price : Z) : Z :=
  let pr := Z.quot tip_price 1000000 in
  if (pr <=? max_int64) && (- max_int64 - 1 <=? pr) then pr else max_int64.
Definition cosmos_priority (p : params) (gas : Z) (fee : fcoins) (tip : option Z) : Z :=
  prio_of (cosmos_eff_price p gas fee tip - p_base p).

Definition eth_priority (p : params) (ms : list emsg) : Z :=
  fold_left (fun acc m => Z.min acc (prio_of (eff_price (p_base p) m - p_base p))) ms max_int64.

(** ---- several signers ---- *)
(** A Cosmos transaction may wrap Ethereum messages of different signers (each
    MsgEthereumTx carries its own signature).  [smsg] = (signer id, message); the
    aISLM balances of the signers are a function [N -> Z] (value transfers are not
    part of it: the harness removes the value each signer moved).

    EthGasConsumeDecorator: per message VerifyFee, then deductFee of exactly that
    message's fee from that message's signer, on the running balances.
    ApplyTransaction (RefundGas): the leftover of a message goes back to the signer
    of that message. *)
Definition smsg : Type := N * emsg.

Definition badd (b : N -> Z) (s : N) (d : Z) : N -> Z :=
  fun x => if N.eqb x s then b x + d else b x.

(** returns the balances after the deductions and the total deducted *)
Fixpoint gas_consume_s (check : bool) (p : params) (b : N -> Z) (sms : list smsg) (acc : Z)
  : N + ((N -> Z) * Z) :=
  match sms with
  | [] => inr (b, acc)
  | (s, m) :: r =>
      if check && (m_gas m <? m_intr m) then inl EOther
      else if fee_cap m <? p_base p then inl EFee
      else
        let fee := eff_fee (p_base p) m in
        if fee =? 0 then gas_consume_s check p b r acc
        else if b s <? fee then inl EFee
        else gas_consume_s check p (badd b s (- fee)) r (acc + fee)
  end.

Fixpoint first_error_s (f : smsg -> N) (sms : list smsg) : N :=
  match sms with
  | [] => OK
  | m :: r => if N.eqb (f m) OK then first_error_s f r else f m
  end.

Definition can_transfer_s (p : params) (b : N -> Z) (sm : smsg) : N := can_transfer p (b (fst sm)) (snd sm).

Definition eth_ante_s (check : bool) (p : params) (b : N -> Z) (sms : list smsg) : N + ((N -> Z) * Z) :=
  if negb (eth_min_price p (map snd sms)) then inl EFee
  else if check && existsb (fun sm : smsg => b (fst sm) <? declared_fee (snd sm) + m_value (snd sm)) sms then inl EFunds
  else if negb (N.eqb (first_error_s (can_transfer_s p b) sms) OK) then inl (first_error_s (can_transfer_s p b) sms)
  else gas_consume_s check p b sms 0.

(** ApplyTransaction per message; the refund goes to the message's own signer *)
Fixpoint run_msgs_s (p : params) (b : N -> Z) (coll : Z) (sms : list smsg) (evs : list evm_out)
  : option ((N -> Z) * Z * list (Z * Z)) :=
  match sms with
  | [] => Some (b, coll, [])
  | (s, m) :: r =>
      match apply_msg p coll m (hd HardErr evs) with
      | None => None
      | Some (u, a) =>
          match run_msgs_s p (badd b s a) (coll - a) r (tl evs) with
          | None => None
          | Some (b', c', l) => Some (b', c', (u, a) :: l)
          end
      end
  end.

Inductive result_s :=
| RejectedS (code : N)                                       (* no state change *)
| FailedS (b : N -> Z) (coll : Z) (gas : Z)                  (* ante effects kept, messages rolled back *)
| ExecutedS (b : N -> Z) (coll : Z) (l : list (Z * Z)).      (* balances afterwards; per message gas used, amount refunded *)

Definition deliver_eth_s (p : params) (b : N -> Z) (coll : Z) (sms : list smsg) (evs : list evm_out) : result_s :=
  match sms with
  | [] => RejectedS EOther
  | _ =>
    if negb (forallb msg_basic_ok (map snd sms)) then RejectedS EOther else
    match eth_ante_s false p b sms with
    | inl c => RejectedS c
    | inr (b1, d) =>
        match run_msgs_s p b1 (coll + d) sms evs with
        | None => FailedS b1 (coll + d) (zsum (map m_gas (map snd sms)))
        | Some (b2, c2, l) => ExecutedS b2 c2 l
        end
    end
  end.

Definition check_eth_s (p : params) (b : N -> Z) (sms : list smsg) : N :=
  match sms with
  | [] => EOther
  | _ =>
    if negb (forallb msg_basic_ok (map snd sms)) then EOther else
    match eth_ante_s true p b sms with inl c => c | inr _ => OK end
  end.

(** what signer [s] pays net of refunds, and what the collector keeps *)
Definition net_s (b : N -> Z) (r : result_s) (s : N) : Z :=
  match r with
  | RejectedS _ => 0
  | FailedS b1 _ _ => b s - b1 s
  | ExecutedS b2 _ _ => b s - b2 s
  end.
Definition coll_s (coll : Z) (r : result_s) : Z :=
  match r with
  | RejectedS _ => 0
  | FailedS _ c _ => c - coll
  | ExecutedS _ c _ => c - coll
  end.

(** the variant that is NOT what the code does (kept for the refutation in
    FeeProofs.v): the fees of consecutive messages of one signer are accumulated
    and deducted in one go when the payer changes and once after the last
    message - and the accumulator is never cleared after a deduction. *)
Definition deduct_s (b : N -> Z) (payer : option N) (amt : Z) (acc : Z) : N + ((N -> Z) * Z) :=
  match payer with
  | None => inr (b, acc)
  | Some q => if amt =? 0 then inr (b, acc)
              else if b q <? amt then inl EFee
              else inr (badd b q (- amt), acc + amt)
  end.

Fixpoint gas_consume_acc (p : params) (b : N -> Z) (payer : option N) (pending : Z)
    (sms : list smsg) (acc : Z) : N + ((N -> Z) * Z) :=
  match sms with
  | [] => deduct_s b payer pending acc
  | (s, m) :: r =>
      if fee_cap m <? p_base p then inl EFee
      else
        let fee := eff_fee (p_base p) m in
        let flush := match payer with
                     | Some q => if N.eqb q s then inr (b, acc) else deduct_s b payer pending acc
                     | None => inr (b, acc)
                     end in
        match flush with
        | inl c => inl c
        | inr (b1, acc1) => gas_consume_acc p b1 (Some s) (pending + fee) r acc1
        end
  end.

Definition deliver_eth_acc (p : params) (b : N -> Z) (coll : Z) (sms : list smsg) (evs : list evm_out) : result_s :=
  match gas_consume_acc p b None 0 sms 0 with
  | inl c => RejectedS c
  | inr (b1, d) =>
      match run_msgs_s p b1 (coll + d) sms evs with
      | None => FailedS b1 (coll + d) (zsum (map m_gas (map snd sms)))
      | Some (b2, c2, l) => ExecutedS b2 c2 l
      end
  end.

(** ---- transactions, observations, correspondence ---- *)
Inductive txin :=
| EthTx (ms : list emsg) (evs : list evm_out)
| CosmosTx (gas : Z) (fee : fcoins) (tip : option Z) (send : Z).

Record obs := mkobs {
  o_code : N;           (* 0 executed, 1 refused by the ante chain (no effect), 4 ante passed but execution failed *)
  o_check : N;          (* the ante chain in CheckTx mode: 0 passes, 1 refuses *)
  o_prio : Z;           (* priority the ante chain sets in CheckTx mode (0 when it refuses) *)
  o_wanted : Z;         (* response GasWanted (eth route, ante passed) *)
  o_used : Z;           (* response GasUsed (eth route, ante passed) *)
  o_nets : list Z;      (* per signer id 0, 1, ...: balance decrease, value moved excluded *)
  o_coll : Z;           (* fee collector's increase *)
  o_msg_used : list Z   (* per message GasUsed of the MsgEthereumTxResponse *)
}.
Global Instance obs_eq_dec : EqDecision obs.
Proof. solve_decision. Defined.

Definition deliver (p : params) (bal coll : Z) (t : txin) : result :=
  match t with
  | EthTx ms evs => deliver_eth p bal coll ms evs
  | CosmosTx gas fee tip send => deliver_cosmos p bal gas fee tip send
  end.

Definition check_code (p : params) (bal : Z) (t : txin) : N :=
  match t with
  | EthTx ms _ => check_eth p bal ms
  | CosmosTx gas fee tip _ => match cosmos_ante p bal gas fee tip with inl c => c | inr _ => OK end
  end.

(** what the sender pays net of refunds = what the collector keeps *)
Definition result_net (r : result) : Z :=
  match r with
  | Rejected _ => 0
  | Failed d _ => d
  | Executed d l => d - zsum (map snd l)
  end.

Definition is_eth (t : txin) : bool := match t with EthTx _ _ => true | _ => false end.

Definition check_prio (p : params) (bal : Z) (t : txin) : Z :=
  if negb (N.eqb (check_code p bal t) OK) then 0 else
  match t with
  | EthTx ms _ => eth_priority p ms
  | CosmosTx gas fee tip _ => cosmos_priority p gas fee tip
  end.

(** the harness records only accepted / refused for the ante verdicts: which of
    several applicable errors is reported is not an observable of the property *)
Definition coarse (c : N) : N := if N.eqb c OK then OK else 1%N.

(** [n] signers are watched; [x] at position [s], 0 elsewhere *)
Definition ids (n : nat) : list N := map N.of_nat (seq 0 n).
Definition spread (n : nat) (s : N) (x : Z) : list Z := map (fun i => if N.eqb i s then x else 0) (ids n).

(** single-signer model: every message of the transaction is signed by [s] *)
Definition observe (p : params) (n : nat) (s : N) (bal coll : Z) (t : txin) : obs :=
  let r := deliver p bal coll t in
  let chk := coarse (check_code p bal t) in
  let pr := check_prio p bal t in
  match r with
  | Rejected c => mkobs (coarse c) chk pr 0 0 (spread n s 0) 0 []
  | Failed d g => mkobs EExec chk pr g g (spread n s d) d []
  | Executed d l =>
      match t with
      | EthTx ms _ => mkobs OK chk pr (zsum (map m_gas ms)) (zsum (map fst l)) (spread n s (result_net r)) (result_net r) (map fst l)
      | CosmosTx _ _ _ _ => mkobs OK chk pr 0 0 (spread n s (result_net r)) (result_net r) []
      end
  end.

(** signer model of an Ethereum transaction *)
Definition observe_s (p : params) (n : nat) (b : N -> Z) (coll : Z) (sms : list smsg) (evs : list evm_out) : obs :=
  let r := deliver_eth_s p b coll sms evs in
  let cc := check_eth_s p b sms in
  let chk := coarse cc in
  let pr := if N.eqb cc OK then eth_priority p (map snd sms) else 0 in
  let nets := map (net_s b r) (ids n) in
  match r with
  | RejectedS c => mkobs (coarse c) chk pr 0 0 nets 0 []
  | FailedS _ _ g => mkobs EExec chk pr g g nets (coll_s coll r) []
  | ExecutedS _ _ l =>
      mkobs OK chk pr (zsum (map m_gas (map snd sms))) (zsum (map fst l)) nets (coll_s coll r) (map fst l)
  end.

(** one recorded transaction: the aISLM balances of the signers 0, 1, ... and of
    the fee collector before it, the signer of every message (Cosmos
    transactions are signed by signer 0), the transaction, what the
    implementation did *)
Definition txcase : Type := list Z * Z * list N * txin * obs.
Definition fcase : Type := params * list txcase.

Definition bal_of (bl : list Z) (s : N) : Z := nth (N.to_nat s) bl 0.

(** Ethereum transactions are evaluated with the signer model and, when all
    messages have the same signer, also with the single-signer model *)
Definition check_txcase (p : params) (c : txcase) : bool :=
  let '(bl, coll, sg, t, ob) := c in
  let n := length bl in
  match t with
  | EthTx ms evs =>
      Nat.eqb (length sg) (length ms)
      && bool_decide (observe_s p n (bal_of bl) coll (combine sg ms) evs = ob)
      && match sg with
         | s :: r => if forallb (N.eqb s) r then bool_decide (observe p n s (bal_of bl s) coll t = ob) else true
         | [] => true
         end
  | CosmosTx _ _ _ _ => bool_decide (observe p n 0%N (bal_of bl 0%N) coll t = ob)
  end.

Definition check_case (c : fcase) : bool := forallb (check_txcase (fst c)) (snd c).

Fixpoint mismatches_from (i : nat) (cs : list fcase) : list nat :=
  match cs with
  | [] => []
  | c :: r => if check_case c then mismatches_from (S i) r else i :: mismatches_from (S i) r
  end.
Definition mismatches (cs : list fcase) : list nat := mismatches_from 0 cs.

(** ---- histories: the fee collector over a sequence of transactions ---- *)
(** each step carries its own parameters (they may change between blocks) and
    the sender's balance at that point *)
Definition hstep : Type := params * Z * txin.

Fixpoint run_history (coll : Z) (h : list hstep) : Z :=
  match h with
  | [] => coll
  | (p, bal, t) :: r => run_history (coll + result_net (deliver p bal coll t)) r
  end.

Fixpoint history_paid (coll : Z) (h : list hstep) : list Z :=
  match h with
  | [] => []
  | (p, bal, t) :: r =>
      let x := result_net (deliver p bal coll t) in x :: history_paid (coll + x) r
  end.
