(** Proofs about Ethereum transactions whose messages have different signers
    (property C07): every signer pays exactly for its own messages. *)
From Coq Require Import ZArith NArith List Bool Lia Permutation.
From HV Require Import Fees.DecLite Fees.FeeModel Fees.FeeProofs.
Import ListNotations.
Local Open Scope Z_scope.

Lemma badd_same b s d : badd b s d s = b s + d.
Proof. unfold badd. rewrite N.eqb_refl. reflexivity. Qed.

Lemma badd_other b s d x : x <> s -> badd b s d x = b x.
Proof. unfold badd. intros H. apply N.eqb_neq in H. rewrite H. reflexivity. Qed.

(** [own s sm x]: [x] when message [sm] is signed by [s], nothing otherwise *)
Definition own (s : N) (sm : smsg) (x : Z) : Z := if N.eqb s (fst sm) then x else 0.

Lemma badd_own b s m d x : badd b s d x = b x + own x (s, m) d.
Proof. unfold badd, own. cbn [fst]. destruct (N.eqb x s); lia. Qed.

(** what signer [s] is charged up front / gets back / finally owes, for its own messages *)
Definition upfront_of (s : N) (base : Z) (sms : list smsg) : Z :=
  zsum (map (fun sm => own s sm (eff_fee base (snd sm))) sms).
Definition refunds_of (s : N) (sms : list smsg) (l : list (Z * Z)) : Z :=
  zsum (map (fun x => own s (fst x) (snd (snd x))) (combine sms l)).
Definition charges_of (s : N) (base : Z) (sms : list smsg) (l : list (Z * Z)) : Z :=
  zsum (map (fun x => own s (fst x) (fst (snd x) * eff_price base (snd (fst x)))) (combine sms l)).

Lemma zsum_cons x l : zsum (x :: l) = x + zsum l.
Proof. reflexivity. Qed.
Lemma upfront_cons base m r : upfront base (m :: r) = eff_fee base m + upfront base r.
Proof. reflexivity. Qed.
Lemma charges_cons base m r ua l :
  charges base (m :: r) (ua :: l) = fst ua * eff_price base m + charges base r l.
Proof. reflexivity. Qed.
Lemma upfront_of_cons s base sm r :
  upfront_of s base (sm :: r) = own s sm (eff_fee base (snd sm)) + upfront_of s base r.
Proof. reflexivity. Qed.
Lemma refunds_of_cons s sm r ua l :
  refunds_of s (sm :: r) (ua :: l) = own s sm (snd ua) + refunds_of s r l.
Proof. reflexivity. Qed.
Lemma charges_of_cons s base sm r ua l :
  charges_of s base (sm :: r) (ua :: l) = own s sm (fst ua * eff_price base (snd sm)) + charges_of s base r l.
Proof. reflexivity. Qed.

(** ------------------------------------------------------------------ *)
(** * The ante chain *)

Lemma gas_consume_s_inr check p : forall sms b acc b1 d,
  gas_consume_s check p b sms acc = inr (b1, d) ->
  d = acc + upfront (p_base p) (map snd sms) /\
  (forall s, b1 s = b s - upfront_of s (p_base p) sms) /\
  (forall sm, In sm sms -> p_base p <= fee_cap (snd sm)).
Proof.
  induction sms as [|[s m] r IH]; intros b acc b1 d H.
  - cbn in H. injection H as <- <-. unfold upfront, upfront_of. cbn.
    repeat split; try lia; intros ? [].
  - cbn [gas_consume_s] in H.
    destruct (check && (m_gas m <? m_intr m)); [discriminate|].
    destruct (fee_cap m <? p_base p) eqn:Hc; [discriminate|]. apply Z.ltb_ge in Hc.
    cbn [map snd]. rewrite upfront_cons.
    destruct (eff_fee (p_base p) m =? 0) eqn:Hz.
    + apply Z.eqb_eq in Hz. destruct (IH _ _ _ _ H) as (Hd & Hb & Hcap).
      repeat split.
      * lia.
      * intros s'. rewrite Hb, upfront_of_cons. unfold own. cbn [fst snd]. rewrite Hz.
        destruct (N.eqb s' s); lia.
      * intros sm [<-|Hin]; [exact Hc | apply Hcap; exact Hin].
    + destruct (b s <? eff_fee (p_base p) m); [discriminate|].
      destruct (IH _ _ _ _ H) as (Hd & Hb & Hcap).
      repeat split.
      * lia.
      * intros s'. rewrite Hb, upfront_of_cons, (badd_own b s m).
        unfold own. cbn [fst snd]. destruct (N.eqb s' s); lia.
      * intros sm [<-|Hin]; [exact Hc | apply Hcap; exact Hin].
Qed.

Lemma eth_ante_s_inr check p b sms b1 d :
  eth_ante_s check p b sms = inr (b1, d) ->
  eth_min_price p (map snd sms) = true /\ gas_consume_s check p b sms 0 = inr (b1, d).
Proof.
  unfold eth_ante_s. destruct (eth_min_price p (map snd sms)); cbn [negb]; [|discriminate].
  destruct (check && _); [discriminate|].
  destruct (negb _); [discriminate|]. auto.
Qed.

(** ------------------------------------------------------------------ *)
(** * Execution: refunds go to the signer of the message *)

Lemma run_msgs_s_inv p : forall sms b coll evs b' c' l,
  run_msgs_s p b coll sms evs = Some (b', c', l) ->
  run_msgs p coll (map snd sms) evs = Some l /\
  (forall s, b' s = b s + refunds_of s sms l) /\
  c' = coll - zsum (map snd l).
Proof.
  induction sms as [|[s m] r IH]; intros b coll evs b' c' l H.
  - cbn in H. injection H as <- <- <-. unfold refunds_of. cbn. repeat split; try lia; intros; lia.
  - cbn [run_msgs_s] in H. cbn [map snd run_msgs].
    destruct (apply_msg p coll m (hd HardErr evs)) as [[u a]|]; [|discriminate].
    destruct (run_msgs_s p (badd b s a) (coll - a) r (tl evs)) as [[[b2 c2] l2]|] eqn:Hr; [|discriminate].
    injection H as <- <- <-.
    destruct (IH _ _ _ _ _ _ Hr) as (Hrm & Hb & Hc). rewrite Hrm.
    repeat split.
    + intros s'. rewrite Hb, refunds_of_cons, (badd_own b s m). cbn [snd]. lia.
    + cbn [map snd]. rewrite zsum_cons. lia.
Qed.

(** per signer: deduction minus refund = sum of gasUsed x effective price over its own messages *)
Lemma own_net p : forall sms evs l s,
  msgs_spec p (map snd sms) evs l ->
  upfront_of s (p_base p) sms - refunds_of s sms l = charges_of s (p_base p) sms l.
Proof.
  induction sms as [|[s0 m] r IH]; intros evs [|[u a] l'] s H; cbn [map snd msgs_spec] in H; try tauto.
  destruct H as [Hm Hr]. specialize (IH _ _ s Hr).
  destruct Hm as (c & rc & f & _ & Hm). cbv zeta in Hm.
  destruct Hm as (_ & _ & _ & _ & _ & _ & Hnet).
  rewrite upfront_of_cons, refunds_of_cons, charges_of_cons.
  unfold own. cbn [fst snd]. destruct (N.eqb s s0); lia.
Qed.

Lemma deliver_eth_s_inv p b coll sms evs :
  match deliver_eth_s p b coll sms evs with
  | RejectedS _ => True
  | FailedS b1 c1 g =>
      exists d, eth_ante_s false p b sms = inr (b1, d) /\ c1 = coll + d /\
                run_msgs_s p b1 (coll + d) sms evs = None /\ g = zsum (map m_gas (map snd sms))
  | ExecutedS b2 c2 l =>
      forallb msg_basic_ok (map snd sms) = true /\
      exists b1 d, eth_ante_s false p b sms = inr (b1, d) /\
                   run_msgs_s p b1 (coll + d) sms evs = Some (b2, c2, l)
  end.
Proof.
  unfold deliver_eth_s. destruct sms as [|sm r]; [exact I|]. set (sms := sm :: r).
  destruct (forallb msg_basic_ok (map snd sms)) eqn:Hb; cbn [negb]; [|exact I].
  destruct (eth_ante_s false p b sms) as [c|[b1 d]] eqn:Ha; [exact I|].
  destruct (run_msgs_s p b1 (coll + d) sms evs) as [[[b2 c2] l]|] eqn:Hr.
  - split; [reflexivity|]. exists b1, d. auto.
  - exists d. auto.
Qed.

(** executed transaction, any list of messages, any assignment of signers:
    every message meets [msg_spec]; every signer's balance decreases by exactly
    the sum of gasUsed x effective price over the messages it signed; the fee
    collector gains the sum over all messages *)
Lemma signer_net_eq_own_charges p b coll sms evs b2 c2 l :
  params_ok p -> evs_sane (map snd sms) evs ->
  deliver_eth_s p b coll sms evs = ExecutedS b2 c2 l ->
  msgs_spec p (map snd sms) evs l /\
  (forall s, b s - b2 s = charges_of s (p_base p) sms l) /\
  c2 - coll = charges (p_base p) (map snd sms) l /\
  length l = length sms.
Proof.
  intros Hp Hs H. pose proof (deliver_eth_s_inv p b coll sms evs) as Hi. rewrite H in Hi.
  destruct Hi as (Hb & b1 & d & Ha & Hr).
  apply eth_ante_s_inr in Ha. destruct Ha as [_ Hg].
  destruct (gas_consume_s_inr _ _ _ _ _ _ _ Hg) as (Hd & Hb1 & _).
  destruct (run_msgs_s_inv _ _ _ _ _ _ _ _ Hr) as (Hrm & Hb2 & Hc2).
  destruct (run_msgs_spec p Hp _ _ _ _ Hb Hs Hrm) as (Hsp & Hch & Hz).
  repeat split.
  - exact Hsp.
  - intros s. rewrite Hb2, Hb1. rewrite <- (own_net p sms evs l s Hsp). lia.
  - lia.
  - rewrite (msgs_spec_length _ _ _ _ Hsp). apply map_length.
Qed.

(** ante passed, a message returned an error: every signer stays charged the
    whole limit of its own messages, the collector holds the total *)
Lemma signer_hard_error_charges_own_limit p b coll sms evs b1 c1 g :
  deliver_eth_s p b coll sms evs = FailedS b1 c1 g ->
  (forall s, b s - b1 s = upfront_of s (p_base p) sms) /\
  c1 - coll = upfront (p_base p) (map snd sms) /\
  g = zsum (map m_gas (map snd sms)).
Proof.
  intros H. pose proof (deliver_eth_s_inv p b coll sms evs) as Hi. rewrite H in Hi.
  destruct Hi as (d & Ha & Hc & _ & Hg).
  apply eth_ante_s_inr in Ha. destruct Ha as [_ Hgc].
  destruct (gas_consume_s_inr _ _ _ _ _ _ _ Hgc) as (Hd & Hb1 & _).
  repeat split; [|lia|exact Hg]. intros s. rewrite Hb1. lia.
Qed.

(** ------------------------------------------------------------------ *)
(** * Independence of the other signers' messages and of the order *)

(** the (message, (gas used, refund)) pairs of signer [s], in order *)
Fixpoint own_part (s : N) (xs : list (smsg * (Z * Z))) : list (emsg * (Z * Z)) :=
  match xs with
  | [] => []
  | (sm, ua) :: r => if N.eqb s (fst sm) then (snd sm, ua) :: own_part s r else own_part s r
  end.

Lemma charges_of_own_part s base : forall sms l,
  charges_of s base sms l =
  zsum (map (fun x => fst (snd x) * eff_price base (fst x)) (own_part s (combine sms l))).
Proof.
  unfold charges_of. intros sms l. induction (combine sms l) as [|[sm ua] r IH]; [reflexivity|].
  cbn [map own_part]. rewrite zsum_cons, IH. unfold own. cbn [fst snd].
  destruct (N.eqb s (fst sm)); [cbn [map]; rewrite zsum_cons; cbn [fst snd]|]; lia.
Qed.

Lemma charges_of_no_message s base : forall sms l,
  (forall sm, In sm sms -> fst sm <> s) -> charges_of s base sms l = 0.
Proof.
  induction sms as [|sm r IH]; intros l Hn; [reflexivity|].
  destruct l as [|ua l']; [reflexivity|]. rewrite charges_of_cons.
  rewrite IH by (intros sm' Hin; apply Hn; right; exact Hin).
  unfold own. destruct (N.eqb s (fst sm)) eqn:He; [|lia].
  apply N.eqb_eq in He. exfalso. apply (Hn sm); [left; reflexivity | congruence].
Qed.

Lemma zsum_perm (A : Type) (f : A -> Z) xs ys : Permutation xs ys -> zsum (map f xs) = zsum (map f ys).
Proof.
  induction 1; cbn [map]; rewrite ?zsum_cons; lia.
Qed.

Lemma charges_of_perm s base sms l sms' l' :
  Permutation (combine sms l) (combine sms' l') ->
  charges_of s base sms l = charges_of s base sms' l'.
Proof. intros H. unfold charges_of. apply zsum_perm. exact H. Qed.

(** the signers' payments add up to the collector's gain: over any duplicate-free
    list of signers that contains every signer of the transaction *)
Lemma zsum_own_absent sm x : forall ss, ~ In (fst sm) ss -> zsum (map (fun s => own s sm x) ss) = 0.
Proof.
  induction ss as [|s r IH]; intros Hn; [reflexivity|].
  cbn [map]. rewrite zsum_cons, IH by (intros Hc; apply Hn; right; exact Hc).
  unfold own. destruct (N.eqb s (fst sm)) eqn:He; [|lia].
  apply N.eqb_eq in He. exfalso. apply Hn. left. exact He.
Qed.

Lemma zsum_own_over_signers sm x : forall ss,
  NoDup ss -> In (fst sm) ss -> zsum (map (fun s => own s sm x) ss) = x.
Proof.
  induction ss as [|s r IH]; intros Hnd Hin; [destruct Hin|].
  inversion Hnd as [|? ? Hnotin Hnd']; subst.
  cbn [map]. rewrite zsum_cons.
  destruct Hin as [He|Hin].
  - subst s. rewrite (zsum_own_absent sm x r Hnotin). unfold own. rewrite N.eqb_refl. lia.
  - rewrite (IH Hnd' Hin). unfold own. destruct (N.eqb s (fst sm)) eqn:He; [|lia].
    apply N.eqb_eq in He. exfalso. apply Hnotin. rewrite He. exact Hin.
Qed.

Lemma zsum_zero (A : Type) (l : list A) : zsum (map (fun _ => 0) l) = 0.
Proof. induction l as [|x r IH]; [reflexivity|]. cbn [map]. rewrite zsum_cons, IH. reflexivity. Qed.

Lemma zsum_add (A : Type) (f g : A -> Z) (l : list A) :
  zsum (map (fun x => f x + g x) l) = zsum (map f l) + zsum (map g l).
Proof. induction l as [|x r IH]; [reflexivity|]. cbn [map]. rewrite !zsum_cons, IH. lia. Qed.

Lemma charges_of_total base ss : NoDup ss -> forall sms l,
  (forall sm, In sm sms -> In (fst sm) ss) ->
  zsum (map (fun s => charges_of s base sms l) ss) = charges base (map snd sms) l.
Proof.
  intros Hnd. induction sms as [|sm r IH]; intros l Hall.
  - unfold charges_of, charges. cbn. apply zsum_zero.
  - destruct l as [|ua l'].
    + unfold charges_of, charges. cbn. apply zsum_zero.
    + specialize (IH l' (fun sm' Hin => Hall sm' (or_intror Hin))).
      cbn [map]. rewrite charges_cons, <- IH.
      rewrite <- (zsum_own_over_signers sm (fst ua * eff_price base (snd sm)) ss Hnd (Hall sm (or_introl eq_refl))).
      rewrite <- zsum_add. f_equal.
Qed.

(** ------------------------------------------------------------------ *)
(** * One signer: the signer model is the single-sender model *)

Lemma gas_consume_s_single check p s : forall sms b acc,
  (forall sm, In sm sms -> fst sm = s) ->
  match gas_consume_s check p b sms acc, gas_consume check p (b s) (map snd sms) acc with
  | inl c, inl c' => c = c'
  | inr (_, d), inr d' => d = d'
  | _, _ => False
  end.
Proof.
  induction sms as [|[s0 m] r IH]; intros b acc Hall.
  - cbn. reflexivity.
  - assert (s0 = s) as -> by (apply (Hall (s0, m)); left; reflexivity).
    assert (Hr : forall sm, In sm r -> fst sm = s) by (intros sm Hin; apply Hall; right; exact Hin).
    cbn [gas_consume_s gas_consume map snd].
    destruct (check && (m_gas m <? m_intr m)); [reflexivity|].
    destruct (fee_cap m <? p_base p); [reflexivity|].
    destruct (eff_fee (p_base p) m =? 0); [apply IH; exact Hr|].
    destruct (b s <? eff_fee (p_base p) m); [reflexivity|].
    specialize (IH (badd b s (- eff_fee (p_base p) m)) (acc + eff_fee (p_base p) m) Hr).
    rewrite badd_same in IH. replace (b s + - eff_fee (p_base p) m) with (b s - eff_fee (p_base p) m) in IH by lia.
    exact IH.
Qed.

Definition all_signed_by (s : N) (sms : list smsg) : Prop := forall sm, In sm sms -> fst sm = s.

Lemma all_signed_by_cons s sm r : all_signed_by s (sm :: r) -> fst sm = s /\ all_signed_by s r.
Proof. intros H. split; [apply H; left; reflexivity | intros x Hx; apply H; right; exact Hx]. Qed.

Lemma upfront_of_single s base : forall sms, all_signed_by s sms ->
  upfront_of s base sms = upfront base (map snd sms).
Proof.
  induction sms as [|sm r IH]; intros Ha; [reflexivity|].
  apply all_signed_by_cons in Ha. destruct Ha as [Hs Hr].
  cbn [map]. rewrite upfront_of_cons, upfront_cons, (IH Hr). unfold own. rewrite Hs, N.eqb_refl. reflexivity.
Qed.

Lemma refunds_of_single s : forall sms l, all_signed_by s sms -> length l = length sms ->
  refunds_of s sms l = zsum (map snd l).
Proof.
  induction sms as [|sm r IH]; intros [|ua l'] Ha Hl; try discriminate; [reflexivity|].
  apply all_signed_by_cons in Ha. destruct Ha as [Hs Hr]. injection Hl as Hl.
  cbn [map]. rewrite refunds_of_cons, zsum_cons, (IH _ Hr Hl). unfold own. rewrite Hs, N.eqb_refl. reflexivity.
Qed.

Lemma run_msgs_length p : forall ms coll evs l, run_msgs p coll ms evs = Some l -> length l = length ms.
Proof.
  induction ms as [|m r IH]; intros coll evs l H.
  - cbn in H. injection H as <-. reflexivity.
  - cbn [run_msgs] in H. destruct (apply_msg p coll m (hd HardErr evs)) as [[u a]|]; [|discriminate].
    destruct (run_msgs p (coll - a) r (tl evs)) as [l'|] eqn:Hr; [|discriminate].
    injection H as <-. cbn. f_equal. eapply IH; eassumption.
Qed.

Lemma run_msgs_s_list p : forall sms b coll evs,
  option_map snd (run_msgs_s p b coll sms evs) = run_msgs p coll (map snd sms) evs.
Proof.
  induction sms as [|[s m] r IH]; intros b coll evs; [reflexivity|].
  cbn [run_msgs_s run_msgs map snd].
  destruct (apply_msg p coll m (hd HardErr evs)) as [[u a]|]; [|reflexivity].
  rewrite <- (IH (badd b s a) (coll - a) (tl evs)).
  destruct (run_msgs_s p (badd b s a) (coll - a) r (tl evs)) as [[[b2 c2] l2]|]; reflexivity.
Qed.

Lemma first_error_s_single p b s : forall sms, all_signed_by s sms ->
  first_error_s (can_transfer_s p b) sms = first_error (can_transfer p (b s)) (map snd sms).
Proof.
  induction sms as [|sm r IH]; intros Ha; [reflexivity|].
  apply all_signed_by_cons in Ha. destruct Ha as [Hs Hr].
  cbn [first_error_s first_error map].
  assert (Hc : can_transfer_s p b sm = can_transfer p (b s) (snd sm)) by (unfold can_transfer_s; rewrite Hs; reflexivity).
  rewrite Hc, (IH Hr). reflexivity.
Qed.

Lemma existsb_single (b : N -> Z) s : forall sms, all_signed_by s sms ->
  existsb (fun sm : smsg => b (fst sm) <? declared_fee (snd sm) + m_value (snd sm)) sms =
  existsb (fun m => b s <? declared_fee m + m_value m) (map snd sms).
Proof.
  induction sms as [|sm r IH]; intros Ha; [reflexivity|].
  apply all_signed_by_cons in Ha. destruct Ha as [Hs Hr].
  cbn [existsb map]. rewrite Hs, (IH Hr). reflexivity.
Qed.

Lemma eth_ante_s_single check p s b sms : all_signed_by s sms ->
  match eth_ante_s check p b sms, eth_ante check p (b s) (map snd sms) with
  | inl c, inl c' => c = c'
  | inr (_, d), inr d' => d = d'
  | _, _ => False
  end.
Proof.
  intros Ha. unfold eth_ante_s, eth_ante.
  destruct (eth_min_price p (map snd sms)); cbn [negb]; [|reflexivity].
  rewrite (existsb_single b s sms Ha).
  destruct (check && _); [reflexivity|].
  rewrite (first_error_s_single p b s sms Ha).
  destruct (negb _); [reflexivity|].
  apply gas_consume_s_single. exact Ha.
Qed.

(** one account signs every message: the signer model and the single-sender
    model give the same verdict, the same per-message results, the same payment
    of that account and the same gain of the collector *)
Lemma single_signer_agrees p s b coll sms evs :
  all_signed_by s sms ->
  match deliver_eth_s p b coll sms evs, deliver_eth p (b s) coll (map snd sms) evs with
  | RejectedS c, Rejected c' => c = c'
  | FailedS b1 c1 g, Failed d g' => g = g' /\ c1 - coll = d /\ b s - b1 s = d
  | ExecutedS b2 c2 l, Executed d l' =>
      l = l' /\ c2 - coll = d - zsum (map snd l) /\ b s - b2 s = d - zsum (map snd l)
  | _, _ => False
  end.
Proof.
  intros Ha. unfold deliver_eth_s, deliver_eth.
  destruct sms as [|sm r]; [reflexivity|]. cbn [map].
  change (snd sm :: map snd r) with (map snd (sm :: r)). set (sms := sm :: r) in *.
  destruct (forallb msg_basic_ok (map snd sms)); cbn [negb]; [|reflexivity].
  pose proof (eth_ante_s_single false p s b sms Ha) as He.
  destruct (eth_ante_s false p b sms) as [c|[b1 d]] eqn:Hs;
    destruct (eth_ante false p (b s) (map snd sms)) as [c'|d'] eqn:Hd; try contradiction; [exact He|].
  subst d'.
  apply eth_ante_s_inr in Hs. destruct Hs as [_ Hg].
  destruct (gas_consume_s_inr _ _ _ _ _ _ _ Hg) as (Hdd & Hb1 & _).
  specialize (Hb1 s). rewrite (upfront_of_single s _ sms Ha) in Hb1.
  pose proof (run_msgs_s_list p sms b1 (coll + d) evs) as Hl.
  destruct (run_msgs_s p b1 (coll + d) sms evs) as [[[b2 c2] l]|] eqn:Hr; cbn [option_map snd] in Hl; rewrite <- Hl.
  - destruct (run_msgs_s_inv _ _ _ _ _ _ _ _ Hr) as (Hrm & Hb2 & Hc2).
    specialize (Hb2 s). rewrite (refunds_of_single s sms l Ha) in Hb2
      by (rewrite (run_msgs_length _ _ _ _ _ Hrm); apply map_length).
    repeat split; [lia|]. rewrite Hb2, Hb1. lia.
  - repeat split; [lia|]. rewrite Hb1. lia.
Qed.

(** ------------------------------------------------------------------ *)
(** * Non-vacuity and the refutation of the accumulating deduction *)

(** signers A = 0, B = 1, C = 2; balances 10^20 each *)
Definition ex_bals : N -> Z := fun _ => 10 ^ 20.
Definition ex_access : emsg := mkmsg AccessL 23000 2 0 0 21000.

(** [A; B; A]: A signs the legacy and the access-list message, B the dynamic-fee one *)
Definition ex_aba : list smsg := [(0%N, ex_legacy); (1%N, ex_dynamic); (0%N, ex_access)].
Definition ex_aba_evs : list evm_out := [Ran 30000 4800 false; Ran 47000 19200 false; Ran 23000 0 true].

Example ex_signers_executed :
  evs_sane (map snd ex_aba) ex_aba_evs /\
  observe_s ex_params 3 ex_bals 0 ex_aba ex_aba_evs
  = mkobs OK OK 0 183000 110600 [50000 * 3 + 23000 * 2; 37600 * 3; 0] (50000 * 3 + 37600 * 3 + 23000 * 2) [50000; 37600; 23000].
Proof. split; [cbn; lia | vm_compute; reflexivity]. Qed.

(** the accumulating deduction (pending amount never cleared) on [A; B]: A pays
    for its message, B pays for its own message AND A's whole up-front fee; the
    collector keeps the surplus.  The code's per-message deduction on the same
    transaction charges B exactly its own gas. *)
Example accumulating_deduction_refuted :
  let sms := [(0%N, ex_legacy); (1%N, ex_dynamic)] in
  let evs := [Ran 30000 4800 false; Ran 47000 19200 false] in
  match deliver_eth_acc ex_params ex_bals 0 sms evs, deliver_eth_s ex_params ex_bals 0 sms evs with
  | ExecutedS b2 c2 l, ExecutedS b2' c2' l' =>
      l = l' /\ l = [(50000, 150000); (37600, 67200)] /\
      ex_bals 0%N - b2 0%N = charges_of 0%N 2 sms l /\
      ex_bals 1%N - b2 1%N = charges_of 1%N 2 sms l + 100000 * 3 /\
      ex_bals 1%N - b2 1%N <> charges_of 1%N 2 sms l /\
      c2 = charges 2 (map snd sms) l + 100000 * 3 /\
      ex_bals 1%N - b2' 1%N = charges_of 1%N 2 sms l /\
      c2' = charges 2 (map snd sms) l
  | _, _ => False
  end.
Proof. vm_compute. repeat split; try reflexivity. discriminate. Qed.

(** with one signer the accumulating variant and the code agree (why the variant
    passes every single-signer test) *)
Example accumulating_deduction_single_signer_agrees :
  let sms := [(0%N, ex_legacy); (0%N, ex_dynamic); (0%N, ex_access)] in
  let evs := [Ran 30000 4800 false; Ran 47000 19200 false; Ran 23000 0 true] in
  match deliver_eth_acc ex_params ex_bals 0 sms evs, deliver_eth_s ex_params ex_bals 0 sms evs with
  | ExecutedS b2 c2 l, ExecutedS b2' c2' l' => l = l' /\ b2 0%N = b2' 0%N /\ c2 = c2'
  | _, _ => False
  end.
Proof. vm_compute. repeat split; reflexivity. Qed.
