(** UC DAO ledger (property C12): executable model of
    x/ucdao/keeper/{keeper,account_balances,total_balance}.go and the message
    server.  Definitions only; proofs are in LedgerProofs.v. *)
From stdpp Require Import gmap.
From Coq Require Import ZArith List.
Import ListNotations.
Local Open Scope Z_scope.

Notation addr := N (only parsing).
Notation denom := N (only parsing).
Notation coins := (gmap N Z).          (* denom -> amount, zero never stored *)
Notation clist := (list (N * Z)).      (* sdk.Coins as given in a message *)

Definition zget (m : coins) (d : N) : Z := default 0 (m !! d).
Definition zset (m : coins) (d : N) (v : Z) : coins :=
  if v =? 0 then delete d m else <[d := v]> m.

(** sdk.Coins.IsValid: strictly ascending denominations, positive amounts. *)
Fixpoint clist_valid_from (last : option N) (l : clist) : bool :=
  match l with
  | [] => true
  | (d, x) :: r =>
      (0 <? x) && match last with None => true | Some p => N.ltb p d end
      && clist_valid_from (Some d) r
  end.
Definition clist_valid (l : clist) : bool := clist_valid_from None l.

Definition cadd_list (m : coins) (l : clist) : coins :=
  fold_left (fun m '(d, x) => zset m d (zget m d + x)) l m.

(** debit with the bank's "insufficient funds" failure *)
Fixpoint csub_list (m : coins) (l : clist) : option coins :=
  match l with
  | [] => Some m
  | (d, x) :: r => if zget m d <? x then None else csub_list (zset m d (zget m d - x)) r
  end.

Definition coins_of (m : gmap N coins) (a : N) : coins := default ∅ (m !! a).
Definition set_coins (m : gmap N coins) (a : N) (c : coins) : gmap N coins := <[a := c]> m.

Definition is_zero (c : coins) : bool := forallb (fun kv => snd kv =? 0) (map_to_list c).

Record st := mkst {
  bal     : gmap N coins;   (* DAO share ledger: account -> coins *)
  total   : coins;          (* recorded DAO total per denomination *)
  holders : gset N;         (* holder index *)
  modbal  : coins;          (* bank balance of the DAO module account *)
  bank    : gmap N coins;   (* bank balances of the user accounts *)
  enabled : bool
}.

Definition init : st := mkst ∅ ∅ ∅ ∅ ∅ true.

Inductive op :=
| Mint (a : N) (cs : clist)               (* harness funding: bank credit *)
| Enable (b : bool)
| Fund (a : N) (cs : clist)
| TAll (o n : N)
| TRatio (o n : N) (r : Z)                (* ratio in 10^-18 units *)
| TAmt (o n : N) (cs : clist).

(* result codes, as the harness maps the Go errors *)
Definition OK : N := 0.
Definition EDisabled : N := 1.
Definition EInvalidDenom : N := 2.
Definition EInsufficient : N := 3.
Definition ENotEligible : N := 4.
Definition EInvalidCoins : N := 5.
Definition EInvalidRatio : N := 6.

Definition set_holder (s : st) (a : N) : st :=
  let h := if is_zero (coins_of (bal s) a) then holders s ∖ {[a]} else holders s ∪ {[a]} in
  mkst (bal s) (total s) h (modbal s) (bank s) (enabled s).

Section Model.
  Variable allowed : N -> bool.   (* BaseDenom or aLIQUID<n> *)

  Definition fund (s : st) (a : N) (cs : clist) : st * N :=
    if negb (clist_valid cs) then (s, EInvalidCoins) else
    if negb (enabled s) then (s, EDisabled) else
    match csub_list (coins_of (bank s) a) cs with
    | None => (s, EInsufficient)
    | Some ba =>
        if negb (forallb (fun c => allowed (fst c)) cs) then (s, EInvalidDenom) else
        let s1 := mkst (set_coins (bal s) a (cadd_list (coins_of (bal s) a) cs))
                       (cadd_list (total s) cs)
                       (holders s)
                       (cadd_list (modbal s) cs)
                       (set_coins (bank s) a ba)
                       (enabled s) in
        (set_holder s1 a, OK)
    end.

  (** leftovers, computed from the balances read before anything is written;
      zero coins are skipped ("should not happen") *)
  Fixpoint leftovers (b : coins) (amt : clist) : option clist :=
    match amt with
    | [] => Some []
    | (d, x) :: r =>
        if x =? 0 then leftovers b r else
        match b !! d with
        | None => None
        | Some v => if v <? x then None else
                      match leftovers b r with None => None | Some l => Some ((d, v - x) :: l) end
        end
    end.

  Definition write_leftovers (c : coins) (l : clist) : coins :=
    fold_left (fun m '(d, v) => zset m d v) l c.

  (** keeper TransferOwnership.  [fixed = true]: debit the owner, then credit
      the new owner (the code after the "fix:" commit); [fixed = false]: the
      order of the pinned tree (credit first, then overwrite the owner with the
      precomputed leftovers). *)
  Definition transfer (fixed : bool) (s : st) (o n : N) (amt : clist) : st * N :=
    if negb (enabled s) then (s, EDisabled) else
    let b := coins_of (bal s) o in
    if is_zero b then (s, ENotEligible) else
    match leftovers b amt with
    | None => (s, EInsufficient)
    | Some lo =>
        (* addCoinsToAccount validates the amount: a zero coin is invalid *)
        if negb (clist_valid amt) then (s, EInvalidCoins) else
        let bal' :=
          if fixed then
            let m1 := set_coins (bal s) o (write_leftovers b lo) in
            set_coins m1 n (cadd_list (coins_of m1 n) amt)
          else
            let m1 := set_coins (bal s) n (cadd_list (coins_of (bal s) n) amt) in
            set_coins m1 o (write_leftovers (coins_of m1 o) lo) in
        let s1 := mkst bal' (total s) (holders s) (modbal s) (bank s) (enabled s) in
        (set_holder (set_holder s1 n) o, OK)
    end.

  (** amount.ToLegacyDec().Mul(ratio).TruncateInt(): a*10^18*r is chopped with
      banker's rounding to 18 digits (exact here) and then truncated. *)
  Definition e18 : Z := 10 ^ 18.
  Definition chop_round (x : Z) : Z :=     (* chopPrecisionAndRound, x >= 0 *)
    let q := x / e18 in let rm := x mod e18 in
    if rm <? e18 / 2 then q else if e18 / 2 <? rm then q + 1
    else if Z.even q then q else q + 1.
  Definition ratio_amount (a r : Z) : Z := chop_round ((a * e18) * r) / e18.

  Fixpoint cinsert (x : N * Z) (l : clist) : clist :=
    match l with
    | [] => [x]
    | y :: r => if N.leb (fst x) (fst y) then x :: y :: r else y :: cinsert x r
    end.
  (** GetAccountBalances: the stored entries as sorted sdk.Coins *)
  Definition sorted_coins (c : coins) : clist := fold_right cinsert [] (map_to_list c).

  Definition step (fixed : bool) (s : st) (o : op) : st * N :=
    match o with
    | Mint a cs =>
        (mkst (bal s) (total s) (holders s) (modbal s)
              (set_coins (bank s) a (cadd_list (coins_of (bank s) a) cs)) (enabled s), OK)
    | Enable b => (mkst (bal s) (total s) (holders s) (modbal s) (bank s) b, OK)
    | Fund a cs => fund s a cs
    | TAll o n =>
        let b := coins_of (bal s) o in
        if is_zero b then (s, ENotEligible) else transfer fixed s o n (sorted_coins b)
    | TRatio o n r =>
        if (r <=? 0) || (e18 <? r) then (s, EInvalidRatio) else
        let b := coins_of (bal s) o in
        if is_zero b then (s, ENotEligible) else
        transfer fixed s o n (map (fun '(d, v) => (d, ratio_amount v r)) (sorted_coins b))
    | TAmt o n cs =>
        if negb (clist_valid cs) then (s, EInvalidCoins) else
        let b := coins_of (bal s) o in
        if is_zero b then (s, ENotEligible) else transfer fixed s o n cs
    end.

  Definition run (fixed : bool) (ops : list op) (s : st) : st :=
    fold_left (fun s o => fst (step fixed s o)) ops s.
End Model.

(** The DAO accepts the base denomination and aLIQUID<n>; the harness interns
    denominations as 0 = aISLM, 1 = aLIQUID1, 2 = aLIQUID7, 3 = uatom. *)
Definition allowed_h (d : N) : bool := negb (N.eqb d 3).

(** ---- observation, as the harness prints it ---- *)
Record obs := mkobs {
  o_res : N;
  o_bal : list (N * N * Z);
  o_total : list (N * Z);
  o_holders : list N;
  o_mod : list (N * Z);
  o_bank : list (N * N * Z)
}.
Global Instance obs_eq_dec : EqDecision obs.
Proof. solve_decision. Defined.

Definition nseq (n : nat) : list N := map N.of_nat (seq 0 n).
Definition dump2 (m : gmap N coins) (na nd : nat) : list (N * N * Z) :=
  flat_map (fun a => flat_map (fun d =>
     let v := zget (coins_of m a) d in if v =? 0 then [] else [(a, d, v)]) (nseq nd)) (nseq na).
Definition dump1 (m : coins) (nd : nat) : list (N * Z) :=
  flat_map (fun d => let v := zget m d in if v =? 0 then [] else [(d, v)]) (nseq nd).

Definition observe (na nd : nat) (s : st) (res : N) : obs :=
  mkobs res (dump2 (bal s) na nd) (dump1 (total s) nd)
        (filter (fun a => bool_decide (a ∈ holders s)) (nseq na))
        (dump1 (modbal s) nd) (dump2 (bank s) na nd).

(** first step at which model and implementation differ *)
Fixpoint check_from (fixed : bool) (i : nat) (s : st) (h : list (op * obs)) : option nat :=
  match h with
  | [] => None
  | (o, ob) :: r =>
      let '(s', res) := step allowed_h fixed s o in
      if bool_decide (observe 4 4 s' res = ob) then check_from fixed (S i) s' r else Some i
  end.
Definition check_case (fixed : bool) (h : list (op * obs)) : option nat := check_from fixed 0 init h.

Fixpoint mismatches_from (fixed : bool) (i : nat) (cs : list (list (op * obs))) : list nat :=
  match cs with
  | [] => []
  | c :: r => match check_case fixed c with
              | None => mismatches_from fixed (S i) r
              | Some _ => i :: mismatches_from fixed (S i) r
              end
  end.
Definition mismatches (fixed : bool) cs := mismatches_from fixed 0 cs.
