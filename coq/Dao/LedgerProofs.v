(** Proofs about the UC DAO ledger model (property C12). *)
From Coq Require Import ZArith List Lia.
From stdpp Require Import gmap.
From HV Require Import Dao.LedgerModel.
Local Open Scope Z_scope.

(** * coins *)
Lemma zget_empty d : zget ∅ d = 0.
Proof. unfold zget. by rewrite lookup_empty. Qed.

Lemma zget_zset m d v d' : zget (zset m d v) d' = if decide (d = d') then v else zget m d'.
Proof.
  unfold zget, zset. destruct (Z.eqb_spec v 0) as [->|Hv]; destruct (decide (d = d')) as [->|Hd].
  - by rewrite lookup_delete.
  - by rewrite lookup_delete_ne.
  - by rewrite lookup_insert.
  - by rewrite lookup_insert_ne.
Qed.

Fixpoint lsum (l : clist) (d : N) : Z :=
  match l with [] => 0 | (d', x) :: r => (if decide (d' = d) then x else 0) + lsum r d end.
Definition mem (d : N) (l : clist) : bool := existsb (fun c => bool_decide (fst c = d)) l.

Lemma zget_cadd_list l : forall m d, zget (cadd_list m l) d = zget m d + lsum l d.
Proof.
  induction l as [|[d0 x] r IH]; intros m d; cbn [cadd_list fold_left lsum]; [lia|].
  fold (cadd_list (zset m d0 (zget m d0 + x)) r). rewrite IH, zget_zset.
  destruct (decide (d0 = d)) as [->|]; lia.
Qed.

Lemma csub_list_spec l : forall m m', csub_list m l = Some m' ->
  forall d, zget m' d = zget m d - lsum l d.
Proof.
  induction l as [|[d0 x] r IH]; intros m m' H d; cbn [csub_list lsum] in *.
  - inversion H; lia.
  - destruct (zget m d0 <? x); [discriminate|]. rewrite (IH _ _ H), zget_zset.
    destruct (decide (d0 = d)) as [->|]; lia.
Qed.

Lemma valid_from_gt l : forall p d, clist_valid_from (Some p) l = true -> mem d l = true -> (p < d)%N.
Proof.
  induction l as [|[d0 x] r IH]; intros p d Hv Hm; cbn in *; [discriminate|].
  apply andb_prop in Hv as [Hv Hr]. apply andb_prop in Hv as [_ Hlt]. apply N.ltb_lt in Hlt.
  apply orb_prop in Hm as [Hm|Hm].
  - apply bool_decide_eq_true in Hm. cbn in Hm. subst. exact Hlt.
  - specialize (IH _ _ Hr Hm). lia.
Qed.

Lemma lsum_not_mem l d : mem d l = false -> lsum l d = 0.
Proof.
  induction l as [|[d0 x] r IH]; cbn; [done|]. intros H. apply orb_false_elim in H as [H1 H2].
  apply bool_decide_eq_false in H1. cbn in H1. destruct (decide (d0 = d)); [done|]. rewrite IH; [lia|done].
Qed.

Lemma valid_from_weaken l p : clist_valid_from p l = true -> clist_valid_from None l = true.
Proof.
  destruct l as [|[d x] r]; cbn; [done|]. intros H. apply andb_prop in H as [H Hr]. apply andb_prop in H as [Hx _].
  rewrite Hx, Hr. done.
Qed.

Lemma lsum_nonneg l : forall p d, clist_valid_from p l = true -> 0 <= lsum l d.
Proof.
  induction l as [|[d0 x] r IH]; intros p d H; cbn in *; [lia|].
  apply andb_prop in H as [H Hr]. apply andb_prop in H as [Hx _]. apply Z.ltb_lt in Hx.
  specialize (IH _ d Hr). destruct (decide (d0 = d)); lia.
Qed.

(** leftovers are computed from [b]; writing them over [c] sets exactly the
    denominations of the amount *)
Lemma leftovers_spec b : forall amt p lo c, clist_valid_from p amt = true -> leftovers b amt = Some lo ->
  forall d, zget (write_leftovers c lo) d = (if mem d amt then zget b d - lsum amt d else zget c d)
            /\ (mem d amt = true -> 0 <= zget b d - lsum amt d).
Proof.
  induction amt as [|[d0 x] r IH]; intros p lo c Hv Hl d; cbn [leftovers] in Hl.
  - inversion Hl. cbn. done.
  - cbn [clist_valid_from] in Hv. apply andb_prop in Hv as [Hv Hr]. apply andb_prop in Hv as [Hx _].
    apply Z.ltb_lt in Hx. destruct (Z.eqb_spec x 0); [lia|].
    destruct (b !! d0) as [v|] eqn:Hb; [|discriminate].
    destruct (Z.ltb_spec v x); [discriminate|].
    destruct (leftovers b r) as [lo'|] eqn:Hlo; [|discriminate]. inversion Hl; subst lo; clear Hl.
    cbn [write_leftovers fold_left]. fold (write_leftovers (zset c d0 (v - x)) lo').
    destruct (IH _ _ (zset c d0 (v - x)) Hr eq_refl d) as [IH1 IH2].
    assert (Hzb : zget b d0 = v) by (unfold zget; by rewrite Hb).
    cbn [mem existsb lsum fst]. fold (mem d r). rewrite IH1.
    destruct (decide (d0 = d)) as [->|Hne].
    + rewrite bool_decide_eq_true_2 by done. cbn.
      destruct (mem d r) eqn:Hm.
      * pose proof (valid_from_gt _ _ _ Hr Hm). lia.
      * rewrite zget_zset, decide_True by done. rewrite (lsum_not_mem _ _ Hm). split; intros; lia.
    + rewrite bool_decide_eq_false_2 by done. cbn.
      destruct (mem d r) eqn:Hm.
      * split; [lia|]. intros _. specialize (IH2 eq_refl). lia.
      * rewrite zget_zset, decide_False by done. split; [done|discriminate].
Qed.

Lemma leftovers_write b amt lo : clist_valid amt = true -> leftovers b amt = Some lo ->
  forall d, zget (write_leftovers b lo) d = zget b d - lsum amt d
            /\ 0 <= lsum amt d /\ (0 <= zget b d -> 0 <= zget b d - lsum amt d).
Proof.
  intros Hv Hl d. destruct (leftovers_spec b amt None lo b Hv Hl d) as [H1 H2].
  pose proof (lsum_nonneg _ _ d Hv) as Hnn.
  destruct (mem d amt) eqn:Hm.
  - split; [done|]. split; [done|]. intros _. by apply H2.
  - rewrite (lsum_not_mem _ _ Hm) in *. rewrite H1. split; [lia|]. split; lia.
Qed.

(** * the ledger as a map of accounts *)
Definition dsum (m : gmap N coins) (d : N) : Z := map_fold (fun _ c acc => zget c d + acc) 0 m.

Lemma coins_of_set m a c a' : coins_of (set_coins m a c) a' = if decide (a = a') then c else coins_of m a'.
Proof.
  unfold coins_of, set_coins. destruct (decide (a = a')) as [->|].
  - by rewrite lookup_insert.
  - by rewrite lookup_insert_ne.
Qed.

Lemma dsum_insert_fresh m a c d : m !! a = None -> dsum (<[a := c]> m) d = zget c d + dsum m d.
Proof.
  intros H. unfold dsum. rewrite map_fold_insert_L; [done| |done]. intros. lia.
Qed.

Lemma dsum_set m a c d : dsum (set_coins m a c) d = dsum m d - zget (coins_of m a) d + zget c d.
Proof.
  unfold set_coins, coins_of. destruct (m !! a) as [c0|] eqn:E; cbn.
  - rewrite <- (insert_delete_insert m a c).
    rewrite dsum_insert_fresh by apply lookup_delete.
    rewrite <- (insert_delete m a c0) at 2 by done.
    rewrite dsum_insert_fresh by apply lookup_delete. lia.
  - rewrite dsum_insert_fresh by done. rewrite zget_empty. lia.
Qed.

Lemma is_zero_spec c : is_zero c = true <-> forall d, zget c d = 0.
Proof.
  unfold is_zero. rewrite forallb_forall. split.
  - intros H d. unfold zget. destruct (c !! d) as [v|] eqn:E; cbn; [|done].
    apply elem_of_map_to_list in E. apply elem_of_list_In in E. apply H in E. cbn in E. lia.
  - intros H [d v] Hin. apply elem_of_list_In, elem_of_map_to_list in Hin. cbn.
    specialize (H d). unfold zget in H. rewrite Hin in H. cbn in H. lia.
Qed.

Lemma set_holder_fields s a :
  bal (set_holder s a) = bal s /\ total (set_holder s a) = total s /\ modbal (set_holder s a) = modbal s
  /\ bank (set_holder s a) = bank s /\ enabled (set_holder s a) = enabled s.
Proof. done. Qed.

Lemma set_holder_elem s a a' :
  a' ∈ holders (set_holder s a) <->
  if decide (a' = a) then is_zero (coins_of (bal s) a) = false else a' ∈ holders s.
Proof.
  unfold set_holder; cbn. destruct (is_zero (coins_of (bal s) a)) eqn:E; destruct (decide (a' = a)) as [->|]; set_solver.
Qed.

(** * the invariant of property C12 *)
Record Inv (s : st) : Prop := {
  inv_sum    : forall d, dsum (bal s) d = zget (total s) d;                      (* shares add up to the total *)
  inv_mod    : forall d, zget (total s) d = zget (modbal s) d;                   (* ... and to the pooled funds *)
  inv_hold   : forall a, a ∈ holders s <-> exists d, zget (coins_of (bal s) a) d <> 0;  (* holder index exact *)
  inv_nonneg : forall a d, 0 <= zget (coins_of (bal s) a) d
}.

Lemma forallb_false_ex {A} (f : A -> bool) (l : list A) :
  forallb f l = false -> exists x, In x l /\ f x = false.
Proof.
  induction l as [|x l IH]; cbn; [discriminate|]. destruct (f x) eqn:E; cbn.
  - intros H. destruct (IH H) as (y & ? & ?). exists y. auto.
  - intros _. exists x. auto.
Qed.

Lemma not_zero_iff c : is_zero c = false <-> exists d, zget c d <> 0.
Proof.
  split.
  - intros H. destruct (is_zero c) eqn:E; [discriminate|]. clear H.
    unfold is_zero in E. apply forallb_false_ex in E as ([d v] & Hin & Hv).
    apply elem_of_list_In, elem_of_map_to_list in Hin. exists d. unfold zget. rewrite Hin. cbn in *. lia.
  - intros [d Hd]. destruct (is_zero c) eqn:E; [|done]. apply is_zero_spec with (d := d) in E. done.
Qed.

Lemma inv_init : Inv init.
Proof.
  split; cbn.
  - intros d. unfold dsum. rewrite map_fold_empty. by rewrite zget_empty.
  - done.
  - intros a. split; [set_solver|]. intros [d H]. unfold coins_of in H. rewrite lookup_empty in H. cbn in H.
    by rewrite zget_empty in H.
  - intros a d. unfold coins_of. rewrite lookup_empty. cbn. by rewrite zget_empty.
Qed.

Lemma fold_set_holder touched : forall s1,
  let s2 := fold_left set_holder touched s1 in
  bal s2 = bal s1 /\ total s2 = total s1 /\ modbal s2 = modbal s1 /\ bank s2 = bank s1 /\ enabled s2 = enabled s1
  /\ forall a, a ∈ holders s2 <->
       if decide (a ∈ touched) then is_zero (coins_of (bal s1) a) = false else a ∈ holders s1.
Proof.
  induction touched as [|t r IH]; intros s1; cbn [fold_left].
  - cbn. do 5 (split; [done|]). intros x. rewrite decide_False; [done|]. apply not_elem_of_nil.
  - destruct (IH (set_holder s1 t)) as (Hb & Ht & Hm & Hk & He & Hh). cbn zeta.
    rewrite Hb, Ht, Hm, Hk, He. do 5 (split; [done|]).
    intros a. rewrite Hh. cbn [set_holder bal].
    destruct (decide (a ∈ r)) as [Hr|Hr]; destruct (decide (a ∈ t :: r)) as [Htr|Htr]; try done.
    + exfalso. apply Htr. by right.
    + rewrite set_holder_elem. apply elem_of_cons in Htr as [->|]; [|done]. by rewrite decide_True.
    + rewrite set_holder_elem. destruct (decide (a = t)) as [->|]; [|done]. exfalso. apply Htr. by left.
Qed.

(** Inv is re-established by any update that keeps the three sums in step,
    keeps balances non-negative and refreshes the holder index of every account
    whose coins it touched. *)
Lemma inv_after s bal' tot' mod' bank' en' touched :
  Inv s ->
  (forall d, dsum bal' d = zget tot' d) -> (forall d, zget tot' d = zget mod' d) ->
  (forall a d, 0 <= zget (coins_of bal' a) d) ->
  (forall a, a ∉ touched -> coins_of bal' a = coins_of (bal s) a) ->
  Inv (fold_left set_holder touched (mkst bal' tot' (holders s) mod' bank' en')).
Proof.
  intros HI Hs Hm Hn Hu.
  destruct (fold_set_holder touched (mkst bal' tot' (holders s) mod' bank' en')) as (Hb & Ht & Hmo & Hk & He & Hh).
  cbn in *. split.
  - intros d. rewrite Hb, Ht. apply Hs.
  - intros d. rewrite Ht, Hmo. apply Hm.
  - intros a. rewrite Hh, Hb. destruct (decide (a ∈ touched)) as [Hin|Hin].
    + apply not_zero_iff.
    + rewrite (Hu _ Hin). apply (inv_hold _ HI).
  - intros a d. rewrite Hb. apply Hn.
Qed.

Section Steps.
  Variable allowed : N -> bool.

  (** ** fund *)
  Lemma fund_fail s a cs s' r : fund allowed s a cs = (s', r) -> r <> OK -> s' = s.
  Proof.
    unfold fund. intros H Hr.
    destruct (negb (clist_valid cs)); [by inversion H|].
    destruct (negb (enabled s)); [by inversion H|].
    destruct (csub_list _ _); [|by inversion H].
    destruct (negb (forallb _ cs)); [by inversion H|]. inversion H; subst. done.
  Qed.

  Lemma fund_ok s a cs s' : fund allowed s a cs = (s', OK) ->
    clist_valid cs = true /\ enabled s = true /\ forallb (fun c => allowed (fst c)) cs = true /\
    (forall a' d, zget (coins_of (bal s') a') d
                  = zget (coins_of (bal s) a') d + (if decide (a = a') then lsum cs d else 0)) /\
    (forall a' d, zget (coins_of (bank s') a') d
                  = zget (coins_of (bank s) a') d - (if decide (a = a') then lsum cs d else 0)) /\
    (forall d, zget (total s') d = zget (total s) d + lsum cs d) /\
    (forall d, zget (modbal s') d = zget (modbal s) d + lsum cs d) /\
    (forall d, 0 <= zget (coins_of (bank s') a) d -> lsum cs d <= zget (coins_of (bank s) a) d) /\
    enabled s' = enabled s.
  Proof.
    unfold fund. intros H.
    destruct (clist_valid cs) eqn:Hv; cbn in H; [|by inversion H].
    destruct (enabled s) eqn:He; cbn in H; [|by inversion H].
    destruct (csub_list _ _) as [ba|] eqn:Hsub; [|by inversion H].
    destruct (forallb _ cs) eqn:Hal; cbn in H; [|by inversion H].
    inversion H; subst s'; clear H. cbn.
    pose proof (csub_list_spec _ _ _ Hsub) as Hba.
    repeat split; try done.
    - intros a' d. rewrite coins_of_set. destruct (decide (a = a')) as [->|]; [|lia]. apply zget_cadd_list.
    - intros a' d. rewrite coins_of_set. destruct (decide (a = a')) as [->|]; [|lia]. apply Hba.
    - intros d. apply zget_cadd_list.
    - intros d. apply zget_cadd_list.
    - intros d. rewrite coins_of_set, decide_True by done. rewrite Hba. lia.
  Qed.

  Lemma fund_inv s a cs : Inv s -> Inv (fst (fund allowed s a cs)).
  Proof.
    intros HI. destruct (fund allowed s a cs) as [s' r] eqn:E. cbn.
    destruct (N.eq_dec r OK) as [->|Hr]; [|by rewrite (fund_fail _ _ _ _ _ E Hr)].
    revert E. unfold fund.
    destruct (clist_valid cs) eqn:Hv; cbn; [|by inversion 1].
    destruct (enabled s) eqn:He; cbn; [|by inversion 1].
    destruct (csub_list _ _) as [ba|] eqn:Hsub; [|by inversion 1].
    destruct (forallb _ cs) eqn:Hal; cbn; [|by inversion 1].
    intros E; inversion E; subst s'; clear E.
    apply (inv_after s _ _ _ _ _ [a]); try done.
    - intros d. rewrite dsum_set, !zget_cadd_list, (inv_sum _ HI). lia.
    - intros d. rewrite !zget_cadd_list, (inv_mod _ HI). done.
    - intros a' d. rewrite coins_of_set. pose proof (inv_nonneg _ HI a' d).
      destruct (decide (a = a')) as [->|]; [|done]. rewrite zget_cadd_list.
      pose proof (lsum_nonneg _ _ d Hv). lia.
    - intros a' Hn. rewrite coins_of_set, decide_False; [done|]. intros ->. apply Hn. by left.
  Qed.

  (** ** transfer (order of the repaired code) *)
  Lemma transfer_fail fixed s o n amt s' r : transfer fixed s o n amt = (s', r) -> r <> OK -> s' = s.
  Proof.
    unfold transfer. intros H Hr.
    destruct (negb (enabled s)); [by inversion H|].
    destruct (is_zero _); [by inversion H|].
    destruct (leftovers _ _); [|by inversion H].
    destruct (negb (clist_valid amt)); [by inversion H|]. inversion H; subst; done.
  Qed.

  Lemma transfer_ok s o n amt s' : transfer true s o n amt = (s', OK) ->
    clist_valid amt = true /\ enabled s = true /\
    (forall a d, zget (coins_of (bal s') a) d
                 = zget (coins_of (bal s) a) d - (if decide (o = a) then lsum amt d else 0)
                                               + (if decide (n = a) then lsum amt d else 0)) /\
    (forall d, 0 <= lsum amt d) /\
    (forall d, 0 <= zget (coins_of (bal s) o) d -> lsum amt d <= zget (coins_of (bal s) o) d) /\
    total s' = total s /\ modbal s' = modbal s /\ bank s' = bank s /\ enabled s' = enabled s.
  Proof.
    unfold transfer. intros H.
    destruct (enabled s) eqn:He; cbn in H; [|by inversion H].
    destruct (is_zero _) eqn:Hz; [by inversion H|].
    destruct (leftovers _ _) as [lo|] eqn:Hlo; [|by inversion H].
    destruct (clist_valid amt) eqn:Hv; cbn in H; [|by inversion H].
    inversion H; subst s'; clear H. cbn.
    pose proof (leftovers_write _ _ _ Hv Hlo) as Hw.
    repeat split; try done.
    - intros a d. rewrite !coins_of_set. destruct (Hw d) as (Hw1 & _ & _).
      destruct (decide (n = a)) as [->|Hna]; destruct (decide (o = a)) as [->|Hoa].
      + rewrite zget_cadd_list, Hw1. lia.
      + rewrite zget_cadd_list. lia.
      + rewrite Hw1. lia.
      + lia.
    - intros d. by destruct (Hw d) as (_ & ? & _).
    - intros d Hnn. destruct (Hw d) as (_ & _ & Hb). specialize (Hb Hnn). lia.
  Qed.

  Lemma transfer_inv s o n amt : Inv s -> Inv (fst (transfer true s o n amt)).
  Proof.
    intros HI. destruct (transfer true s o n amt) as [s' r] eqn:E. cbn.
    destruct (N.eq_dec r OK) as [->|Hr]; [|by rewrite (transfer_fail _ _ _ _ _ _ _ E Hr)].
    revert E. unfold transfer.
    destruct (enabled s) eqn:He; cbn; [|by inversion 1].
    destruct (is_zero _) eqn:Hz; [by inversion 1|].
    destruct (leftovers _ _) as [lo|] eqn:Hlo; [|by inversion 1].
    destruct (clist_valid amt) eqn:Hv; cbn; [|by inversion 1].
    intros E; inversion E; subst s'; clear E.
    pose proof (leftovers_write _ _ _ Hv Hlo) as Hw.
    apply (inv_after s _ _ _ _ _ [n; o]); try done.
    - intros d. rewrite !dsum_set, zget_cadd_list. destruct (Hw d) as (Hw1 & _ & _).
      rewrite Hw1, <- (inv_sum _ HI). lia.
    - apply (inv_mod _ HI).
    - intros a d. rewrite !coins_of_set. destruct (Hw d) as (Hw1 & Hw2 & Hw3).
      pose proof (inv_nonneg _ HI a d) as Ha. pose proof (inv_nonneg _ HI o d) as Ho.
      destruct (decide (n = a)) as [->|Hna].
      + rewrite zget_cadd_list. destruct (decide (o = a)) as [->|]; [rewrite Hw1|]; lia.
      + destruct (decide (o = a)) as [->|]; [rewrite Hw1|]; lia.
    - intros a Hn. rewrite !coins_of_set.
      rewrite decide_False; [rewrite decide_False; [done|]|]; intros ->; apply Hn; set_solver.
  Qed.

  (** ** every message preserves the invariant; every failed message changes nothing *)
  Lemma step_inv s o : Inv s -> Inv (fst (step allowed true s o)).
  Proof.
    intros HI. destruct o as [a cs|b|a cs|o n|o n r|o n cs]; cbn [step].
    - cbn. destruct HI as [H1 H2 H3 H4]. split; cbn; done.
    - cbn. destruct HI as [H1 H2 H3 H4]. split; cbn; done.
    - by apply fund_inv.
    - destruct (is_zero _); [done|]. by apply transfer_inv.
    - destruct (_ || _); [done|]. destruct (is_zero _); [done|]. by apply transfer_inv.
    - destruct (negb _); [done|]. destruct (is_zero _); [done|]. by apply transfer_inv.
  Qed.

  Lemma step_fail s o s' r : step allowed true s o = (s', r) -> r <> OK -> s' = s.
  Proof.
    destruct o as [a cs|b|a cs|o n|o n r0|o n cs]; cbn [step]; intros H Hr.
    - inversion H; subst. done.
    - inversion H; subst. done.
    - eapply fund_fail; eauto.
    - destruct (is_zero _); [by inversion H|]. eapply transfer_fail; eauto.
    - destruct (_ || _); [by inversion H|]. destruct (is_zero _); [by inversion H|]. eapply transfer_fail; eauto.
    - destruct (negb _); [by inversion H|]. destruct (is_zero _); [by inversion H|]. eapply transfer_fail; eauto.
  Qed.

  Theorem run_inv ops : forall s, Inv s -> Inv (run allowed true ops s).
  Proof.
    induction ops as [|o ops IH]; intros s HI; cbn [run fold_left]; [done|].
    apply IH. by apply step_inv.
  Qed.
End Steps.

(** * the stated amount of each kind of transfer *)
Lemma lsum_notin l d : d ∉ l.*1 -> lsum l d = 0.
Proof.
  induction l as [|[d0 x] r IH]; cbn; [done|]. intros H. apply not_elem_of_cons in H. destruct H as [H1 H2].
  rewrite decide_False by (intros ->; by apply H1). rewrite IH; [lia|done].
Qed.

Lemma lsum_in l d v : NoDup (l.*1) -> (d, v) ∈ l -> lsum l d = v.
Proof.
  induction l as [|[d0 x] r IH]; cbn; intros Hnd Hin; [by apply elem_of_nil in Hin|].
  apply NoDup_cons in Hnd as [Hd0 Hnd]. apply elem_of_cons in Hin as [Heq|Hin].
  - inversion Heq; subst. rewrite decide_True by done. rewrite lsum_notin; [lia|done].
  - rewrite decide_False.
    + rewrite (IH Hnd Hin). lia.
    + intros ->. apply Hd0. apply elem_of_list_fmap. exists (d, v). done.
Qed.

Lemma cinsert_perm x l : cinsert x l ≡ₚ x :: l.
Proof.
  induction l as [|y r IH]; cbn; [done|]. destruct (N.leb _ _); [done|]. rewrite IH. apply Permutation_swap.
Qed.

Lemma sorted_coins_perm c : sorted_coins c ≡ₚ map_to_list c.
Proof.
  unfold sorted_coins. induction (map_to_list c) as [|x l IH]; cbn; [done|].
  rewrite cinsert_perm. by rewrite IH.
Qed.

Lemma sorted_coins_in c d v : (d, v) ∈ sorted_coins c <-> c !! d = Some v.
Proof. rewrite sorted_coins_perm. apply elem_of_map_to_list. Qed.

Lemma sorted_coins_nodup c : NoDup ((sorted_coins c).*1).
Proof. rewrite sorted_coins_perm. apply NoDup_fst_map_to_list. Qed.

Lemma lsum_sorted_coins c d : lsum (sorted_coins c) d = zget c d.
Proof.
  unfold zget. destruct (c !! d) as [v|] eqn:E; cbn.
  - apply lsum_in; [apply sorted_coins_nodup|]. by apply sorted_coins_in.
  - apply lsum_notin. intros H. apply elem_of_list_fmap in H as ([d' v] & -> & Hin).
    apply sorted_coins_in in Hin. cbn in *. congruence.
Qed.

Lemma lsum_map_sorted_coins (g : Z -> Z) c d : g 0 = 0 ->
  lsum (map (fun '(d, v) => (d, g v)) (sorted_coins c)) d = g (zget c d).
Proof.
  intros Hg. set (l := sorted_coins c).
  assert (Hfst : (map (fun '(d, v) => (d, g v)) l).*1 = l.*1).
  { induction l as [|[d0 x] r IH]; cbn; [done|]. by rewrite IH. }
  unfold zget. destruct (c !! d) as [v|] eqn:E; cbn.
  - apply lsum_in; [rewrite Hfst; apply sorted_coins_nodup|].
    apply elem_of_list_fmap. exists (d, v). split; [done|]. by apply sorted_coins_in.
  - rewrite Hg. apply lsum_notin. rewrite Hfst. intros H. apply elem_of_list_fmap in H as ([d' v] & -> & Hin).
    apply sorted_coins_in in Hin. cbn in *. congruence.
Qed.

Lemma ratio_amount_exact a r : ratio_amount a r = a * r / 10 ^ 18.
Proof.
  unfold ratio_amount, chop_round, e18.
  replace (a * 10 ^ 18 * r) with ((a * r) * 10 ^ 18) by lia.
  rewrite Z.div_mul by lia. rewrite Z.mod_mul by lia.
  change (0 <? 10 ^ 18 / 2) with true. cbn iota. done.
Qed.

Section Exact.
  Variable allowed : N -> bool.
  Notation "s '@' a '/' d" := (zget (coins_of (bal s) a) d) (at level 20, a at next level, d at next level).

  (** what a successful transfer of [x] (per denomination) from [o] to [n] does *)
  Definition moves (s s' : st) (o n : N) (x : N -> Z) : Prop :=
    (forall a d, s' @ a / d = s @ a / d - (if decide (o = a) then x d else 0) + (if decide (n = a) then x d else 0)) /\
    (forall d, 0 <= x d <= s @ o / d) /\
    total s' = total s /\ modbal s' = modbal s /\ bank s' = bank s /\ enabled s' = enabled s.

  Lemma transfer_moves s o n amt s' : Inv s -> transfer true s o n amt = (s', OK) ->
    moves s s' o n (lsum amt).
  Proof.
    intros HI H. destruct (transfer_ok _ _ _ _ _ H) as (Hv & He & Hb & Hnn & Hle & Ht & Hm & Hk & Hen).
    split; [exact Hb|]. split; [|done]. intros d. split; [apply Hnn|]. apply Hle. apply (inv_nonneg _ HI).
  Qed.

  Lemma moves_ext s s' o n x y : (forall d, x d = y d) -> moves s s' o n x -> moves s s' o n y.
  Proof.
    intros E (H1 & H2 & H3). split; [|split; [|done]].
    - intros a d. rewrite <- E. apply H1.
    - intros d. rewrite <- E. apply H2.
  Qed.

  Theorem transfer_all_exact s o n s' : Inv s -> step allowed true s (TAll o n) = (s', OK) ->
    moves s s' o n (fun d => s @ o / d).
  Proof.
    intros HI H. cbn [step] in H. destruct (is_zero _); [inversion H|].
    eapply moves_ext; [|eapply transfer_moves; eauto]. intros d. cbn. apply lsum_sorted_coins.
  Qed.

  Theorem transfer_ratio_exact s o n r s' : Inv s -> step allowed true s (TRatio o n r) = (s', OK) ->
    0 < r <= 10 ^ 18 /\ moves s s' o n (fun d => s @ o / d * r / 10 ^ 18).
  Proof.
    intros HI H. cbn [step] in H. destruct (_ || _) eqn:Hr; [inversion H|].
    apply orb_false_elim in Hr as [Hr1 Hr2]. apply Z.leb_gt in Hr1. apply Z.ltb_ge in Hr2. unfold e18 in Hr2.
    split; [lia|]. destruct (is_zero _); [inversion H|].
    eapply moves_ext; [|eapply transfer_moves; eauto]. intros d. cbn.
    rewrite (lsum_map_sorted_coins (fun v => ratio_amount v r)).
    - by rewrite ratio_amount_exact.
    - by rewrite ratio_amount_exact.
  Qed.

  Theorem transfer_amount_exact s o n cs s' : Inv s -> step allowed true s (TAmt o n cs) = (s', OK) ->
    moves s s' o n (lsum cs).
  Proof.
    intros HI H. cbn [step] in H. destruct (negb _); [inversion H|]. destruct (is_zero _); [inversion H|].
    eapply transfer_moves; eauto.
  Qed.

  Theorem fund_exact s a cs s' : step allowed true s (Fund a cs) = (s', OK) ->
    (forall a' d, s' @ a' / d = s @ a' / d + (if decide (a = a') then lsum cs d else 0)) /\
    (forall a' d, zget (coins_of (bank s') a') d
                  = zget (coins_of (bank s) a') d - (if decide (a = a') then lsum cs d else 0)) /\
    (forall d, zget (total s') d = zget (total s) d + lsum cs d) /\
    (forall d, zget (modbal s') d = zget (modbal s) d + lsum cs d) /\
    (forall d, 0 <= lsum cs d) /\
    (forall d, lsum cs d <> 0 -> allowed d = true).
  Proof.
    intros H. cbn [step] in H. destruct (fund_ok _ _ _ _ _ H) as (Hv & He & Hal & Hb & Hk & Ht & Hm & _ & _).
    do 4 (split; [done|]). split.
    - intros d. eapply lsum_nonneg; eauto.
    - intros d Hd. rewrite forallb_forall in Hal.
      assert (Hin : d ∈ cs.*1).
      { destruct (decide (d ∈ cs.*1)) as [|Hn]; [done|]. by rewrite lsum_notin in Hd. }
      apply elem_of_list_fmap in Hin as ([d' v] & -> & Hin). apply elem_of_list_In in Hin. apply (Hal _ Hin).
  Qed.
End Exact.

(** * the order of the pinned tree (credit first, then overwrite): refuted *)
Definition self_transfer_witness : list op :=
  [Mint 0 [(0%N, 1000)]; Fund 0 [(0%N, 1000)]; TAmt 0 0 [(0%N, 400)]].

Lemma transfer_self_refuted :
  let s := run allowed_h false self_transfer_witness init in
  dsum (bal s) 0%N = 600 /\ zget (total s) 0%N = 1000.
Proof. vm_compute. done. Qed.

Lemma transfer_self_fixed :
  let s := run allowed_h true self_transfer_witness init in
  dsum (bal s) 0%N = 1000 /\ zget (total s) 0%N = 1000.
Proof. vm_compute. done. Qed.

(** outside sender = recipient the two orders coincide *)
Lemma transfer_order_irrelevant_when_distinct s o n amt :
  o <> n -> transfer false s o n amt = transfer true s o n amt.
Proof.
  intros Hne. unfold transfer.
  destruct (negb (enabled s)); [done|]. destruct (is_zero _); [done|].
  destruct (leftovers _ _) as [lo|]; [|done]. destruct (negb (clist_valid amt)); [done|].
  f_equal. f_equal. f_equal.
  rewrite !coins_of_set. rewrite (decide_False (P := n = o)) by done. rewrite (decide_False (P := o = n)) by done.
  unfold set_coins. f_equal. apply insert_commute. done.
Qed.

(** non-vacuity: a reachable two-holder state satisfies every hypothesis used above *)
Example inv_nonvacuous :
  let s := run allowed_h true [Mint 0 [(0%N, 1000); (1%N, 50)]; Fund 0 [(0%N, 700); (1%N, 50)];
                               TRatio 0 1 (10 ^ 18 / 2); TAll 1 1] init in
  zget (coins_of (bal s) 0%N) 0%N = 350 /\ zget (coins_of (bal s) 1%N) 1%N = 25 /\ o_holders (observe 4 4 s 0%N) = [0%N; 1%N].
Proof. vm_compute. done. Qed.
