(** Proofs about the schedule functions (property C09): ReadSchedule and
    ReadPastPeriodCount against the reference event sum [ev], DisjunctPeriods
    = union of events, ConjunctPeriods = pointwise minimum. *)
From Coq Require Import ZArith List Lia.
From stdpp Require Import gmap.
From HV Require Import Base.Coins Vesting.ScheduleModel.
Import ListNotations.
Local Open Scope Z_scope.

(** * The reference: a schedule is a list of release events; read at [t] it
    yields the sum of the amounts of all periods that have ended by [t]. *)
Fixpoint ev (s : Z) (ps : periods) (t : Z) : coins :=
  match ps with
  | [] => ∅
  | p :: r => let e := s + len p in cadd (if e <=? t then amount p else ∅) (ev e r t)
  end.

(** the same per denomination *)
Fixpoint evd (d : N) (s : Z) (ps : periods) (t : Z) : Z :=
  match ps with
  | [] => 0
  | p :: r => let e := s + len p in (if e <=? t then amt (amount p) d else 0) + evd d e r t
  end.

(** number of periods that have ended by [t] *)
Fixpoint cnt (s : Z) (ps : periods) (t : Z) : nat :=
  match ps with
  | [] => 0%nat
  | p :: r => let e := s + len p in ((if Z.leb e t then 1 else 0) + cnt e r t)%nat
  end.

Lemma amt_ev d ps : forall s t, amt (ev s ps t) d = evd d s ps t.
Proof.
  induction ps as [|p r IH]; intros s t; cbn [ev evd]; [apply amt_empty|].
  rewrite amt_cadd, IH. destruct (s + len p <=? t); [done|by rewrite amt_empty].
Qed.

Definition lens_ok (ps : periods) : Prop := Forall (fun p => 0 <= len p) ps.
Definition amts_ok (ps : periods) : Prop := Forall (fun p => nonneg (amount p)) ps.

(** * sums *)
Lemma fold_len_acc ps : forall a, fold_left (fun a p => a + len p) ps a = a + total_len ps.
Proof.
  unfold total_len. induction ps as [|p r IH]; intros a; cbn [fold_left]; [lia|].
  rewrite (IH (a + len p)), (IH (0 + len p)). lia.
Qed.
Lemma total_len_cons p r : total_len (p :: r) = len p + total_len r.
Proof. unfold total_len at 1. cbn [fold_left]. rewrite fold_len_acc. lia. Qed.
Lemma total_len_nil : total_len [] = 0.
Proof. done. Qed.

Lemma fold_amt_acc d ps : forall a,
  amt (fold_left (fun a p => cadd a (amount p)) ps a) d = amt a d + amt (total_amount ps) d.
Proof.
  unfold total_amount. induction ps as [|p r IH]; intros a; cbn [fold_left]; [rewrite amt_empty; lia|].
  rewrite (IH (cadd a (amount p))), (IH (cadd ∅ (amount p))), !amt_cadd, amt_empty. lia.
Qed.
Lemma total_amount_cons d p r :
  amt (total_amount (p :: r)) d = amt (amount p) d + amt (total_amount r) d.
Proof. unfold total_amount at 1. cbn [fold_left]. rewrite fold_amt_acc, amt_cadd, amt_empty. lia. Qed.
Lemma total_amount_nil d : amt (total_amount []) d = 0.
Proof. apply amt_empty. Qed.

Lemma total_len_nonneg ps : lens_ok ps -> 0 <= total_len ps.
Proof.
  induction 1 as [|p r Hp _ IH]; [by rewrite total_len_nil|]. rewrite total_len_cons. lia.
Qed.
Lemma total_amount_nonneg ps : amts_ok ps -> nonneg (total_amount ps).
Proof.
  induction 1 as [|p r Hp _ IH]; intros d; [rewrite total_amount_nil; lia|].
  rewrite total_amount_cons. specialize (Hp d). specialize (IH d). lia.
Qed.
Lemma total_len_app a b : total_len (a ++ b) = total_len a + total_len b.
Proof. induction a as [|p r IH]; cbn [app]; rewrite ?total_len_cons, ?total_len_nil; lia. Qed.

(** * the reference event sum *)
Lemma evd_before d ps : forall s t, lens_ok ps -> t < s -> evd d s ps t = 0.
Proof.
  induction ps as [|p r IH]; intros s t Hl Ht; cbn [evd]; [done|].
  inversion Hl as [|? ? Hp Hr]; subst. destruct (Z.leb_spec (s + len p) t); [lia|].
  rewrite IH; [lia|done|lia].
Qed.

Lemma evd_nonneg d ps : forall s t, amts_ok ps -> 0 <= evd d s ps t.
Proof.
  induction ps as [|p r IH]; intros s t Ha; cbn [evd]; [lia|].
  inversion Ha as [|? ? Hp Hr]; subst. specialize (IH (s + len p) t Hr). specialize (Hp d).
  destruct (s + len p <=? t); lia.
Qed.

Lemma evd_mono d ps : forall s t1 t2, amts_ok ps -> t1 <= t2 -> evd d s ps t1 <= evd d s ps t2.
Proof.
  induction ps as [|p r IH]; intros s t1 t2 Ha Ht; cbn [evd]; [lia|].
  inversion Ha as [|? ? Hp Hr]; subst. specialize (IH (s + len p) t1 t2 Hr Ht). specialize (Hp d).
  destruct (Z.leb_spec (s + len p) t1), (Z.leb_spec (s + len p) t2); lia.
Qed.

Lemma evd_le_total d ps : forall s t, amts_ok ps -> evd d s ps t <= amt (total_amount ps) d.
Proof.
  induction ps as [|p r IH]; intros s t Ha; cbn [evd]; [rewrite total_amount_nil; lia|].
  inversion Ha as [|? ? Hp Hr]; subst. rewrite total_amount_cons.
  specialize (IH (s + len p) t Hr). specialize (Hp d). destruct (s + len p <=? t); lia.
Qed.

Lemma evd_all d ps : forall s t, lens_ok ps -> s + total_len ps <= t -> evd d s ps t = amt (total_amount ps) d.
Proof.
  induction ps as [|p r IH]; intros s t Hl Ht; cbn [evd]; [by rewrite total_amount_nil|].
  inversion Hl as [|? ? Hp Hr]; subst. rewrite total_len_cons in Ht. rewrite total_amount_cons.
  pose proof (total_len_nonneg r Hr). destruct (Z.leb_spec (s + len p) t); [|lia].
  rewrite IH; [done|done|lia].
Qed.

(** without any hypothesis on the lengths: late enough, everything has been released *)
Lemma evd_eventually ps : forall s, exists T, forall t, T <= t -> forall d, evd d s ps t = amt (total_amount ps) d.
Proof.
  induction ps as [|p r IH]; intros s.
  - exists 0. intros t _ d. cbn. by rewrite total_amount_nil.
  - destruct (IH (s + len p)) as [T HT]. exists (Z.max T (s + len p)). intros t Ht d. cbn [evd].
    rewrite total_amount_cons, HT by lia. destruct (Z.leb_spec (s + len p) t); lia.
Qed.

(** * ReadSchedule *)
Lemma read_loop_spec d ps : forall t el acc, lens_ok ps ->
  amt (read_loop ps t el acc) d = amt acc d + evd d el ps t.
Proof.
  induction ps as [|p r IH]; intros t el acc Hl; cbn [read_loop evd]; [lia|].
  inversion Hl as [|? ? Hp Hr]; subst. destruct (Z.ltb_spec t (el + len p)).
  - destruct (Z.leb_spec (el + len p) t); [lia|]. rewrite evd_before; [lia|done|lia].
  - destruct (Z.leb_spec (el + len p) t); [|lia]. rewrite IH, amt_cadd by done. lia.
Qed.

(** inside (start, end): the loop computes the step function *)
Lemma read_is_step start endt ps total t d : lens_ok ps -> start < t < endt ->
  amt (read_schedule start endt ps total t) d = evd d start ps t.
Proof.
  intros Hl [H1 H2]. unfold read_schedule. destruct (Z.leb_spec t start); [lia|].
  destruct (Z.leb_spec endt t); [lia|]. rewrite read_loop_spec, amt_empty by done. lia.
Qed.

Lemma read_zero_before start endt ps total t : t <= start -> read_schedule start endt ps total t = ∅.
Proof. intros H. unfold read_schedule. destruct (Z.leb_spec t start); [done|lia]. Qed.

Lemma read_total_after start endt ps total t : start < t -> endt <= t ->
  read_schedule start endt ps total t = total.
Proof.
  intros H1 H2. unfold read_schedule. destruct (Z.leb_spec t start); [lia|].
  destruct (Z.leb_spec endt t); [done|lia].
Qed.

(** [consistent]: what Validate demands of (EndTime, OriginalVesting) with
    respect to one schedule *)
Definition consistent (start endt : Z) (ps : periods) (total : coins) : Prop :=
  start + total_len ps <= endt /\ forall d, amt total d = amt (total_amount ps) d.

(** after the start, under Validate's conditions, all three branches agree with
    the reference *)
Lemma read_is_ev start endt ps total t d : lens_ok ps -> consistent start endt ps total ->
  start < t -> amt (read_schedule start endt ps total t) d = evd d start ps t.
Proof.
  intros Hl [Hc1 Hc2] Ht. destruct (Z.lt_ge_cases t endt).
  - by apply read_is_step.
  - rewrite read_total_after by lia. rewrite Hc2. symmetry. apply evd_all; [done|lia].
Qed.

Lemma read_nonneg start endt ps total t d : lens_ok ps -> amts_ok ps -> consistent start endt ps total ->
  0 <= amt (read_schedule start endt ps total t) d.
Proof.
  intros Hl Ha Hc. destruct (Z.le_gt_cases t start).
  - rewrite read_zero_before, amt_empty by done. lia.
  - rewrite read_is_ev by (done || lia). by apply evd_nonneg.
Qed.

Lemma read_mono start endt ps total t1 t2 d : lens_ok ps -> amts_ok ps -> consistent start endt ps total ->
  t1 <= t2 -> amt (read_schedule start endt ps total t1) d <= amt (read_schedule start endt ps total t2) d.
Proof.
  intros Hl Ha Hc Ht. destruct (Z.le_gt_cases t1 start).
  - rewrite (read_zero_before _ _ _ _ t1), amt_empty by done. by apply read_nonneg.
  - rewrite !read_is_ev by (done || lia). by apply evd_mono.
Qed.

Lemma read_le_total start endt ps total t d : lens_ok ps -> amts_ok ps -> consistent start endt ps total ->
  amt (read_schedule start endt ps total t) d <= amt total d.
Proof.
  intros Hl Ha Hc. destruct (Z.le_gt_cases t start).
  - rewrite read_zero_before, amt_empty by done. destruct Hc as [_ ->]. by apply total_amount_nonneg.
  - rewrite read_is_ev by (done || lia). destruct Hc as [_ ->]. by apply evd_le_total.
Qed.

(** * ReadPastPeriodCount *)
Lemma cnt_before ps : forall s t, lens_ok ps -> t < s -> cnt s ps t = 0%nat.
Proof.
  induction ps as [|p r IH]; intros s t Hl Ht; cbn [cnt]; [done|].
  inversion Hl as [|? ? Hp Hr]; subst. destruct (Z.leb_spec (s + len p) t); [lia|].
  rewrite IH; [done|done|lia].
Qed.

Lemma count_loop_spec ps : forall t el n, lens_ok ps -> count_loop ps t el n = (n + cnt el ps t)%nat.
Proof.
  induction ps as [|p r IH]; intros t el n Hl; cbn [count_loop cnt]; [lia|].
  inversion Hl as [|? ? Hp Hr]; subst. destruct (Z.ltb_spec t (el + len p)).
  - destruct (Z.leb_spec (el + len p) t); [lia|]. rewrite cnt_before by (done || lia). lia.
  - destruct (Z.leb_spec (el + len p) t); [|lia]. rewrite IH by done. lia.
Qed.

Lemma cnt_le_length ps : forall s t, (cnt s ps t <= length ps)%nat.
Proof.
  induction ps as [|p r IH]; intros s t; cbn [cnt length]; [lia|].
  specialize (IH (s + len p) t). destruct (s + len p <=? t); lia.
Qed.

Lemma cnt_all ps : forall s t, lens_ok ps -> s + total_len ps <= t -> cnt s ps t = length ps.
Proof.
  induction ps as [|p r IH]; intros s t Hl Ht; cbn [cnt length]; [done|].
  inversion Hl as [|? ? Hp Hr]; subst. rewrite total_len_cons in Ht.
  pose proof (total_len_nonneg r Hr). destruct (Z.leb_spec (s + len p) t); [|lia].
  rewrite IH; [done|done|lia].
Qed.

Lemma past_count_spec start endt ps t : lens_ok ps -> start + total_len ps <= endt ->
  read_past_count start endt ps t = if t <=? start then 0%nat else cnt start ps t.
Proof.
  intros Hl Hc. unfold read_past_count. destruct (Z.leb_spec t start); [done|].
  destruct (Z.leb_spec endt t).
  - symmetry. apply cnt_all; [done|lia].
  - by rewrite count_loop_spec.
Qed.

(** the periods counted as passed are exactly those whose amounts were summed *)
Lemma evd_prefix d ps : forall s t, lens_ok ps ->
  amt (total_amount (firstn (cnt s ps t) ps)) d = evd d s ps t.
Proof.
  induction ps as [|p r IH]; intros s t Hl; cbn [cnt evd]; [by rewrite total_amount_nil|].
  inversion Hl as [|? ? Hp Hr]; subst. destruct (Z.leb_spec (s + len p) t).
  - cbn [Nat.add firstn]. rewrite total_amount_cons, IH by done. done.
  - cbn [Nat.add]. rewrite evd_before by (done || lia).
    rewrite cnt_before by (done || lia).
    cbn [firstn]. by rewrite total_amount_nil.
Qed.

(** cutting the schedule after the periods passed at [t]: read at any [t'] it
    yields the minimum of the original schedule at [t'] and at [t] *)
Lemma evd_cut d ps : forall s t t', lens_ok ps -> amts_ok ps ->
  evd d s (firstn (cnt s ps t) ps) t' = Z.min (evd d s ps t') (evd d s ps t).
Proof.
  induction ps as [|p r IH]; intros s t t' Hl Ha; cbn [cnt evd]; [cbn; lia|].
  inversion Hl as [|? ? Hp Hr]; inversion Ha as [|? ? Hp' Hr']; subst.
  pose proof (evd_nonneg d r (s + len p) t Hr'). pose proof (evd_nonneg d r (s + len p) t' Hr').
  specialize (Hp' d). destruct (Z.leb_spec (s + len p) t).
  - cbn [Nat.add firstn evd]. rewrite IH by done. destruct (Z.leb_spec (s + len p) t'); [lia|].
    rewrite (evd_before d r (s + len p) t') in * by (done || lia). lia.
  - rewrite cnt_before by (done || lia). cbn [Nat.add firstn evd].
    rewrite (evd_before d r (s + len p) t) by (done || lia).
    destruct (Z.leb_spec (s + len p) t'); lia.
Qed.

Lemma firstn_lens_ok n ps : lens_ok ps -> lens_ok (firstn n ps).
Proof. apply Forall_take. Qed.
Lemma firstn_amts_ok n ps : amts_ok ps -> amts_ok (firstn n ps).
Proof. apply Forall_take. Qed.

Lemma total_len_firstn_le n ps : lens_ok ps -> total_len (firstn n ps) <= total_len ps.
Proof.
  intros H. rewrite <- (firstn_skipn n ps) at 2. rewrite total_len_app.
  pose proof (total_len_nonneg _ (Forall_drop _ n _ H)). lia.
Qed.

(** * DisjunctPeriods = union of the release events *)
Lemma fst_pcons p r : fst (pcons p r) = p :: fst r.
Proof. done. Qed.
Lemma snd_pcons p r : snd (pcons p r) = snd r.
Proof. done. Qed.

Lemma evd_emit d next e a r t :
  evd d e (emit next e a :: r) t = (if next <=? t then amt a d else 0) + evd d next r t.
Proof. cbn [evd emit len amount]. replace (e + (next - e)) with next by lia. done. Qed.

Lemma dj_rest_ev d t ps : forall tp e, evd d e (fst (dj_rest ps tp e)) t = evd d tp ps t.
Proof.
  induction ps as [|p r IH]; intros tp e; cbn [dj_rest]; [done|].
  rewrite fst_pcons, evd_emit, IH. done.
Qed.

Lemma dj_nil_l pb tb ta e : dj [] ta pb tb e = dj_rest pb tb e.
Proof. destruct pb; done. Qed.
Lemma dj_nil_r pa ta tb e : dj pa ta [] tb e = dj_rest pa ta e.
Proof. destruct pa; done. Qed.
Lemma dj_cons a ra ta b rb tb e :
  dj (a :: ra) ta (b :: rb) tb e =
    let na := ta + len a in
    let nb := tb + len b in
    if na <? nb then pcons (emit na e (amount a)) (dj ra na (b :: rb) tb na)
    else if nb <? na then pcons (emit nb e (amount b)) (dj (a :: ra) ta rb nb nb)
    else pcons (emit na e (cadd (amount a) (amount b))) (dj ra na rb na na).
Proof. done. Qed.

(** read at any instant, the merged schedule has released exactly what the two
    inputs have released together; no hypothesis on the lengths is needed *)
Lemma dj_ev d t pa : forall ta pb tb e,
  evd d e (fst (dj pa ta pb tb e)) t = evd d ta pa t + evd d tb pb t.
Proof.
  induction pa as [|a ra IHa]; intros ta pb tb e.
  - rewrite dj_nil_l, dj_rest_ev. cbn [evd]. lia.
  - revert tb e. induction pb as [|b rb IHb]; intros tb e.
    + rewrite dj_nil_r, dj_rest_ev. cbn [evd]. lia.
    + rewrite dj_cons. cbv zeta.
      destruct (Z.ltb_spec (ta + len a) (tb + len b)); [|destruct (Z.ltb_spec (tb + len b) (ta + len a))].
      * rewrite fst_pcons, evd_emit, IHa. cbn [evd]. lia.
      * rewrite fst_pcons, evd_emit, IHb. cbn [evd]. lia.
      * rewrite fst_pcons, evd_emit, IHa, amt_cadd. cbn [evd].
        replace (tb + len b) with (ta + len a) by lia.
        destruct (ta + len a <=? t); lia.
Qed.

Theorem disjunct_union sa sb pa pb : forall t d,
  let '(s, _, ps) := disjunct sa sb pa pb in
  amt (ev s ps t) d = amt (ev sa pa t) d + amt (ev sb pb t) d.
Proof. intros t d. unfold disjunct. rewrite !amt_ev. apply dj_ev. Qed.

Lemma disjunct_start sa sb pa pb : fst (fst (disjunct sa sb pa pb)) = Z.min sa sb.
Proof. done. Qed.

(** the returned end time is start + total length of the emitted periods *)
Lemma dj_rest_end ps : forall tp e, snd (dj_rest ps tp e) = e + total_len (fst (dj_rest ps tp e)).
Proof.
  induction ps as [|p r IH]; intros tp e; cbn [dj_rest]; [cbn; lia|].
  rewrite snd_pcons, fst_pcons, total_len_cons, IH. cbn [emit len]. lia.
Qed.

Lemma dj_end_len pa : forall ta pb tb e, snd (dj pa ta pb tb e) = e + total_len (fst (dj pa ta pb tb e)).
Proof.
  induction pa as [|a ra IHa]; intros ta pb tb e.
  - rewrite dj_nil_l. apply dj_rest_end.
  - revert tb e. induction pb as [|b rb IHb]; intros tb e.
    + rewrite dj_nil_r. apply dj_rest_end.
    + rewrite dj_cons. cbv zeta.
      destruct (Z.ltb_spec (ta + len a) (tb + len b)); [|destruct (Z.ltb_spec (tb + len b) (ta + len a))];
        rewrite snd_pcons, fst_pcons, total_len_cons; [rewrite IHa|rewrite IHb|rewrite IHa]; cbn [emit len]; lia.
Qed.

(** the time of the last event of a non-empty schedule *)
Lemma dj_rest_last p r tp e : snd (dj_rest (p :: r) tp e) = tp + total_len (p :: r).
Proof.
  revert p tp e. induction r as [|q r IH]; intros p tp e.
  - rewrite total_len_cons, total_len_nil. cbn. lia.
  - rewrite (total_len_cons p). cbn [dj_rest]. rewrite snd_pcons. cbn [dj_rest] in IH. rewrite IH. lia.
Qed.

Lemma dj_end pa : forall ta pb tb e, lens_ok pa -> lens_ok pb ->
  snd (dj pa ta pb tb e) =
    match pa, pb with
    | [], [] => e
    | [], _ => tb + total_len pb
    | _, [] => ta + total_len pa
    | _, _ => Z.max (ta + total_len pa) (tb + total_len pb)
    end.
Proof.
  induction pa as [|a ra IHa]; intros ta pb tb e Hla Hlb.
  - rewrite dj_nil_l. destruct pb; [done|apply dj_rest_last].
  - revert tb e. induction pb as [|b rb IHb]; intros tb e.
    + rewrite dj_nil_r. apply dj_rest_last.
    + inversion Hla as [|? ? Ha Hra]; inversion Hlb as [|? ? Hb Hrb]; subst.
      pose proof (total_len_nonneg _ Hra). pose proof (total_len_nonneg _ Hrb).
      rewrite dj_cons. cbv zeta. rewrite !total_len_cons.
      destruct (Z.ltb_spec (ta + len a) (tb + len b)); [|destruct (Z.ltb_spec (tb + len b) (ta + len a))];
        rewrite snd_pcons.
      * rewrite IHa by done. destruct ra; rewrite ?total_len_cons, ?total_len_nil in *; lia.
      * rewrite IHb by done. destruct rb; rewrite ?total_len_cons, ?total_len_nil in *; lia.
      * rewrite IHa by done. destruct ra, rb; rewrite ?total_len_cons, ?total_len_nil in *; lia.
Qed.

Theorem disjunct_end sa sb pa pb : lens_ok pa -> lens_ok pb -> pa <> [] -> pb <> [] ->
  snd (fst (disjunct sa sb pa pb)) = Z.max (sa + total_len pa) (sb + total_len pb).
Proof.
  intros Ha Hb Hna Hnb. unfold disjunct. cbn [fst snd]. rewrite dj_end by done.
  destruct pa, pb; done.
Qed.

Theorem disjunct_end_len sa sb pa pb :
  let '(s, e, ps) := disjunct sa sb pa pb in e = s + total_len ps.
Proof. unfold disjunct. apply dj_end_len. Qed.

(** the emitted lengths are non-negative as long as the last emitted event is
    not after the next event of either schedule *)
Definition hd_ok (e tp : Z) (ps : periods) : Prop :=
  match ps with [] => True | p :: _ => e <= tp + len p end.

Lemma dj_rest_lens ps : forall tp e, lens_ok ps -> hd_ok e tp ps -> lens_ok (fst (dj_rest ps tp e)).
Proof.
  induction ps as [|p r IH]; intros tp e Hl Hh; cbn [dj_rest]; [constructor|].
  inversion Hl as [|? ? Hp Hr]; subst. rewrite fst_pcons. constructor; [cbn in *; lia|].
  apply IH; [done|]. destruct r; cbn; [done|]. inversion Hr; subst. lia.
Qed.

Lemma hd_ok_tail e p r : lens_ok (p :: r) -> hd_ok (e + len p) (e + len p) r.
Proof. intros H. inversion H as [|? ? _ Hr]; subst. destruct r; cbn; [done|]. inversion Hr; subst. lia. Qed.

Lemma dj_lens pa : forall ta pb tb e, lens_ok pa -> lens_ok pb -> hd_ok e ta pa -> hd_ok e tb pb ->
  lens_ok (fst (dj pa ta pb tb e)).
Proof.
  induction pa as [|a ra IHa]; intros ta pb tb e Hla Hlb Hha Hhb.
  - rewrite dj_nil_l. by apply dj_rest_lens.
  - revert tb e Hha Hhb. induction pb as [|b rb IHb]; intros tb e Hha Hhb.
    + rewrite dj_nil_r. by apply dj_rest_lens.
    + pose proof (hd_ok_tail ta a ra Hla). pose proof (hd_ok_tail tb b rb Hlb).
      inversion Hla as [|? ? Ha Hra]; inversion Hlb as [|? ? Hb Hrb]; subst. cbn in Hha, Hhb.
      rewrite dj_cons. cbv zeta.
      destruct (Z.ltb_spec (ta + len a) (tb + len b)); [|destruct (Z.ltb_spec (tb + len b) (ta + len a))];
        rewrite fst_pcons; (constructor; [cbn; lia|]).
      * apply IHa; try done; cbn; lia.
      * apply IHb; try done; cbn; lia.
      * apply IHa; try done. by replace (ta + len a) with (tb + len b) by lia.
Qed.

Theorem disjunct_lens sa sb pa pb : lens_ok pa -> lens_ok pb ->
  lens_ok (snd (disjunct sa sb pa pb)).
Proof.
  intros Ha Hb. unfold disjunct. cbn [snd]. apply dj_lens; try done.
  - destruct pa; cbn; [done|]. inversion Ha; subst. lia.
  - destruct pb; cbn; [done|]. inversion Hb; subst. lia.
Qed.

(** the amounts of the merged schedule *)
Lemma dj_rest_amts ps : forall tp e, amts_ok ps -> amts_ok (fst (dj_rest ps tp e)).
Proof.
  induction ps as [|p r IH]; intros tp e Ha; cbn [dj_rest]; [constructor|].
  inversion Ha; subst. rewrite fst_pcons. constructor; [done|]. by apply IH.
Qed.
Lemma dj_amts pa : forall ta pb tb e, amts_ok pa -> amts_ok pb -> amts_ok (fst (dj pa ta pb tb e)).
Proof.
  induction pa as [|a ra IHa]; intros ta pb tb e Haa Hab.
  - rewrite dj_nil_l. by apply dj_rest_amts.
  - revert tb e. induction pb as [|b rb IHb]; intros tb e.
    + rewrite dj_nil_r. by apply dj_rest_amts.
    + inversion Haa; inversion Hab; subst. rewrite dj_cons. cbv zeta.
      destruct (_ <? _); [|destruct (_ <? _)]; rewrite fst_pcons; constructor; cbn [emit amount]; auto.
      all: try (by apply nonneg_cadd); try (by apply IHa); try (by apply IHb).
Qed.

(** * ConjunctPeriods = pointwise minimum *)
Section Conj.
  Variable d0 : N.
  Variable t : Z.

  (** one consume step: if the guard passes (it always does when the running
      result is below the new minimum) the continuation runs with the result
      equal to the new minimum *)
  Lemma cj_go_ev next e res xa xb k F :
    (forall d, amt res d <= amt (cmin xa xb) d) ->
    (forall e' res', (forall d, amt res' d = amt (cmin xa xb) d) -> evd d0 e' (fst (k e' res')) t = F) ->
    evd d0 e (fst (cj_go next e res xa xb k)) t
      = (if next <=? t then amt (cmin xa xb) d0 - amt res d0 else 0) + F.
  Proof.
    intros Hle Hk. unfold cj_go, cj_emit.
    replace (is_all_lte res (cmin xa xb)) with true
      by (symmetry; apply is_all_lte_spec; intros d _; apply Hle).
    destruct (is_zero (csub (cmin xa xb) res)) eqn:Ez.
    - assert (Heq : forall d, amt res d = amt (cmin xa xb) d).
      { intros d. pose proof (proj1 (is_zero_spec _) Ez d) as Hz. rewrite amt_csub in Hz. lia. }
      rewrite (Hk e res Heq), Heq. destruct (next <=? t); lia.
    - rewrite fst_pcons, evd_emit, amt_csub. rewrite (Hk next); [done|].
      intros d. rewrite amt_cadd, amt_csub. lia.
  Qed.

  Lemma cj_rest_a_ev ps : forall tp e res xa xb, lens_ok ps -> amts_ok ps -> nonneg xb ->
    (forall d, amt res d = amt (cmin xa xb) d) ->
    evd d0 e (fst (cj_rest_a ps tp e res xa xb)) t
      = Z.min (amt xa d0 + evd d0 tp ps t) (amt xb d0) - Z.min (amt xa d0) (amt xb d0).
  Proof.
    induction ps as [|p r IH]; intros tp e res xa xb Hl Ha Hxb Hres; cbn [cj_rest_a evd]; [cbn; lia|].
    inversion Hl as [|? ? Hp Hr]; inversion Ha as [|? ? Hp' Hr']; subst.
    erewrite cj_go_ev.
    2:{ intros d. rewrite Hres, !amt_cmin, amt_cadd. specialize (Hp' d). lia. }
    2:{ intros e' res' Hres'. apply IH; done. }
    rewrite Hres, !amt_cmin, !amt_cadd. pose proof (evd_nonneg d0 r (tp + len p) t Hr').
    destruct (Z.leb_spec (tp + len p) t); [lia|].
    rewrite (evd_before d0 r (tp + len p) t) by (done || lia). lia.
  Qed.

  Lemma cj_rest_b_ev ps : forall tp e res xa xb, lens_ok ps -> amts_ok ps -> nonneg xa ->
    (forall d, amt res d = amt (cmin xa xb) d) ->
    evd d0 e (fst (cj_rest_b ps tp e res xa xb)) t
      = Z.min (amt xa d0) (amt xb d0 + evd d0 tp ps t) - Z.min (amt xa d0) (amt xb d0).
  Proof.
    induction ps as [|p r IH]; intros tp e res xa xb Hl Ha Hxa Hres; cbn [cj_rest_b evd]; [cbn; lia|].
    inversion Hl as [|? ? Hp Hr]; inversion Ha as [|? ? Hp' Hr']; subst.
    erewrite cj_go_ev.
    2:{ intros d. rewrite Hres, !amt_cmin, amt_cadd. specialize (Hp' d). lia. }
    2:{ intros e' res' Hres'. apply IH; done. }
    rewrite Hres, !amt_cmin, !amt_cadd. pose proof (evd_nonneg d0 r (tp + len p) t Hr').
    destruct (Z.leb_spec (tp + len p) t); [lia|].
    rewrite (evd_before d0 r (tp + len p) t) by (done || lia). lia.
  Qed.

  Lemma cj_nil_l pb ta tb e res xa xb : cj [] ta pb tb e res xa xb = cj_rest_b pb tb e res xa xb.
  Proof. destruct pb; done. Qed.
  Lemma cj_nil_r pa ta tb e res xa xb : cj pa ta [] tb e res xa xb = cj_rest_a pa ta e res xa xb.
  Proof. destruct pa; done. Qed.
  Lemma cj_cons a ra ta b rb tb e res xa xb :
    cj (a :: ra) ta (b :: rb) tb e res xa xb =
      let na := ta + len a in
      let nb := tb + len b in
      if na <? nb then
        let xa' := cadd xa (amount a) in
        cj_go na e res xa' xb (fun e' res' => cj ra na (b :: rb) tb e' res' xa' xb)
      else if nb <? na then
        let xb' := cadd xb (amount b) in
        cj_go nb e res xa xb' (fun e' res' => cj (a :: ra) ta rb nb e' res' xa xb')
      else
        let xa' := cadd xa (amount a) in
        let xb' := cadd xb (amount b) in
        cj_go na e res xa' xb' (fun e' res' => cj ra na rb na e' res' xa' xb').
  Proof. done. Qed.

  Lemma cj_ev pa : forall ta pb tb e res xa xb,
    lens_ok pa -> lens_ok pb -> amts_ok pa -> amts_ok pb -> nonneg xa -> nonneg xb ->
    (forall d, amt res d = amt (cmin xa xb) d) ->
    evd d0 e (fst (cj pa ta pb tb e res xa xb)) t
      = Z.min (amt xa d0 + evd d0 ta pa t) (amt xb d0 + evd d0 tb pb t) - Z.min (amt xa d0) (amt xb d0).
  Proof.
    induction pa as [|a ra IHa]; intros ta pb tb e res xa xb Hla Hlb Haa Hab Hxa Hxb Hres.
    - rewrite cj_nil_l, cj_rest_b_ev by done. cbn [evd]. lia.
    - revert tb e res xa xb Hxa Hxb Hres. induction pb as [|b rb IHb]; intros tb e res xa xb Hxa Hxb Hres.
      + rewrite cj_nil_r, cj_rest_a_ev by done. cbn [evd]. lia.
      + inversion Hla as [|? ? Hpa Hra]; inversion Hlb as [|? ? Hpb Hrb];
          inversion Haa as [|? ? Hpa' Hra']; inversion Hab as [|? ? Hpb' Hrb']; subst.
        pose proof (evd_nonneg d0 ra (ta + len a) t Hra'). pose proof (evd_nonneg d0 rb (tb + len b) t Hrb').
        pose proof (Hpa' d0). pose proof (Hpb' d0). pose proof (Hxa d0). pose proof (Hxb d0).
        rewrite cj_cons. cbv zeta.
        destruct (Z.ltb_spec (ta + len a) (tb + len b)); [|destruct (Z.ltb_spec (tb + len b) (ta + len a))].
        * erewrite cj_go_ev.
          2:{ intros d. rewrite Hres, !amt_cmin, amt_cadd. specialize (Hpa' d). lia. }
          2:{ intros e' res' Hres'. apply IHa; try done. by apply nonneg_cadd. }
          rewrite Hres, !amt_cmin, !amt_cadd. cbn [evd].
          destruct (Z.leb_spec (ta + len a) t); [lia|].
          rewrite (evd_before d0 ra (ta + len a) t) by (done || lia).
          destruct (Z.leb_spec (tb + len b) t); [lia|].
          rewrite (evd_before d0 rb (tb + len b) t) by (done || lia). lia.
        * erewrite cj_go_ev.
          2:{ intros d. rewrite Hres, !amt_cmin, amt_cadd. specialize (Hpb' d). lia. }
          2:{ intros e' res' Hres'. apply IHb; try done. by apply nonneg_cadd. }
          rewrite Hres, !amt_cmin, !amt_cadd. cbn [evd].
          destruct (Z.leb_spec (tb + len b) t); [lia|].
          rewrite (evd_before d0 rb (tb + len b) t) by (done || lia).
          destruct (Z.leb_spec (ta + len a) t); [lia|].
          rewrite (evd_before d0 ra (ta + len a) t) by (done || lia). lia.
        * erewrite cj_go_ev.
          2:{ intros d. rewrite Hres, !amt_cmin, !amt_cadd. specialize (Hpa' d). specialize (Hpb' d). lia. }
          2:{ intros e' res' Hres'. apply IHa; try done; by apply nonneg_cadd. }
          rewrite Hres, !amt_cmin, !amt_cadd. cbn [evd].
          replace (tb + len b) with (ta + len a) by lia.
          destruct (Z.leb_spec (ta + len a) t); [lia|].
          rewrite (evd_before d0 ra (ta + len a) t), (evd_before d0 rb (ta + len a) t) by (done || lia). lia.
  Qed.
End Conj.

Theorem conjunct_min sa sb pa pb : lens_ok pa -> lens_ok pb -> amts_ok pa -> amts_ok pb ->
  forall t d,
  let '(s, _, ps) := conjunct sa sb pa pb in
  amt (ev s ps t) d = Z.min (amt (ev sa pa t) d) (amt (ev sb pb t) d).
Proof.
  intros Hla Hlb Haa Hab t d. unfold conjunct. rewrite !amt_ev.
  rewrite cj_ev; try done; try apply nonneg_empty. rewrite !amt_empty. lia.
Qed.

(** ** further facts about the conjunction: end time, lengths, total *)
Lemma cj_emit_Some next e res xa xb p res' : cj_emit next e res xa xb = Some (p, res') ->
  p = emit next e (csub (cmin xa xb) res) /\ res' = cadd res (csub (cmin xa xb) res).
Proof.
  unfold cj_emit. destruct (is_all_lte _ _); [|discriminate]. destruct (is_zero _); [discriminate|].
  by intros [= <- <-].
Qed.

Lemma cj_go_end next e res xa xb k :
  (forall e' res', snd (k e' res') = e' + total_len (fst (k e' res'))) ->
  snd (cj_go next e res xa xb k) = e + total_len (fst (cj_go next e res xa xb k)).
Proof.
  intros Hk. unfold cj_go. destruct (cj_emit next e res xa xb) as [[p res']|] eqn:E; [|apply Hk].
  apply cj_emit_Some in E as [-> _]. rewrite snd_pcons, fst_pcons, total_len_cons, Hk. cbn [emit len]. lia.
Qed.

Lemma cj_rest_a_end ps : forall tp e res xa xb,
  snd (cj_rest_a ps tp e res xa xb) = e + total_len (fst (cj_rest_a ps tp e res xa xb)).
Proof.
  induction ps as [|p r IH]; intros; cbn [cj_rest_a]; [cbn; lia|]. apply cj_go_end. intros. apply IH.
Qed.
Lemma cj_rest_b_end ps : forall tp e res xa xb,
  snd (cj_rest_b ps tp e res xa xb) = e + total_len (fst (cj_rest_b ps tp e res xa xb)).
Proof.
  induction ps as [|p r IH]; intros; cbn [cj_rest_b]; [cbn; lia|]. apply cj_go_end. intros. apply IH.
Qed.

Lemma cj_end_len pa : forall ta pb tb e res xa xb,
  snd (cj pa ta pb tb e res xa xb) = e + total_len (fst (cj pa ta pb tb e res xa xb)).
Proof.
  induction pa as [|a ra IHa]; intros ta pb tb e res xa xb.
  - rewrite cj_nil_l. apply cj_rest_b_end.
  - revert tb e res xa xb. induction pb as [|b rb IHb]; intros tb e res xa xb.
    + rewrite cj_nil_r. apply cj_rest_a_end.
    + rewrite cj_cons. cbv zeta.
      destruct (_ <? _); [|destruct (_ <? _)]; apply cj_go_end; intros; [apply IHa|apply IHb|apply IHa].
Qed.

Theorem conjunct_end_len sa sb pa pb :
  let '(s, e, ps) := conjunct sa sb pa pb in e = s + total_len ps.
Proof. unfold conjunct. apply cj_end_len. Qed.

Lemma cj_go_lens next e res xa xb k : e <= next ->
  (forall e' res', e' = e \/ e' = next -> lens_ok (fst (k e' res'))) ->
  lens_ok (fst (cj_go next e res xa xb k)).
Proof.
  intros He Hk. unfold cj_go. destruct (cj_emit next e res xa xb) as [[p res']|] eqn:E; [|apply Hk; auto].
  apply cj_emit_Some in E as [-> _]. rewrite fst_pcons. constructor; [cbn; lia|]. apply Hk; auto.
Qed.

Lemma hd_ok_tail' e e' p r : lens_ok (p :: r) -> e' <= e + len p -> hd_ok e' (e + len p) r.
Proof. intros H He. inversion H as [|? ? _ Hr]; subst. destruct r; cbn; [done|]. inversion Hr; subst. lia. Qed.

Lemma cj_rest_a_lens ps : forall tp e res xa xb, lens_ok ps -> hd_ok e tp ps ->
  lens_ok (fst (cj_rest_a ps tp e res xa xb)).
Proof.
  induction ps as [|p r IH]; intros tp e res xa xb Hl Hh; cbn [cj_rest_a]; [constructor|].
  cbn in Hh. apply cj_go_lens; [done|]. intros e' res' He'. inversion Hl; subst. apply IH; [done|].
  apply hd_ok_tail'; [done|]. destruct He'; lia.
Qed.
Lemma cj_rest_b_lens ps : forall tp e res xa xb, lens_ok ps -> hd_ok e tp ps ->
  lens_ok (fst (cj_rest_b ps tp e res xa xb)).
Proof.
  induction ps as [|p r IH]; intros tp e res xa xb Hl Hh; cbn [cj_rest_b]; [constructor|].
  cbn in Hh. apply cj_go_lens; [done|]. intros e' res' He'. inversion Hl; subst. apply IH; [done|].
  apply hd_ok_tail'; [done|]. destruct He'; lia.
Qed.

Lemma cj_lens pa : forall ta pb tb e res xa xb, lens_ok pa -> lens_ok pb -> hd_ok e ta pa -> hd_ok e tb pb ->
  lens_ok (fst (cj pa ta pb tb e res xa xb)).
Proof.
  induction pa as [|a ra IHa]; intros ta pb tb e res xa xb Hla Hlb Hha Hhb.
  - rewrite cj_nil_l. by apply cj_rest_b_lens.
  - revert tb e res xa xb Hha Hhb. induction pb as [|b rb IHb]; intros tb e res xa xb Hha Hhb.
    + rewrite cj_nil_r. by apply cj_rest_a_lens.
    + cbn in Hha, Hhb. rewrite cj_cons. cbv zeta.
      destruct (Z.ltb_spec (ta + len a) (tb + len b)); [|destruct (Z.ltb_spec (tb + len b) (ta + len a))];
        (apply cj_go_lens; [done|]); intros e' res' He'.
      * inversion Hla; subst. apply IHa; [done|done| |cbn; destruct He'; lia].
        apply hd_ok_tail'; [done|destruct He'; lia].
      * inversion Hlb; subst. apply IHb; [done|cbn; destruct He'; lia|].
        apply hd_ok_tail'; [done|destruct He'; lia].
      * inversion Hla; inversion Hlb; subst. apply IHa; [done|done| |].
        -- apply hd_ok_tail'; [done|destruct He'; lia].
        -- replace (ta + len a) with (tb + len b) by lia. apply hd_ok_tail'; [done|destruct He'; lia].
Qed.

Lemma cj_total d pa ta pb tb e res xa xb :
  lens_ok pa -> lens_ok pb -> amts_ok pa -> amts_ok pb -> nonneg xa -> nonneg xb ->
  (forall d, amt res d = amt (cmin xa xb) d) ->
  amt (total_amount (fst (cj pa ta pb tb e res xa xb))) d
    = Z.min (amt xa d + amt (total_amount pa) d) (amt xb d + amt (total_amount pb) d)
      - Z.min (amt xa d) (amt xb d).
Proof.
  intros Hla Hlb Haa Hab Hxa Hxb Hres.
  destruct (evd_eventually (fst (cj pa ta pb tb e res xa xb)) e) as [T1 H1].
  destruct (evd_eventually pa ta) as [T2 H2]. destruct (evd_eventually pb tb) as [T3 H3].
  set (t := Z.max T1 (Z.max T2 T3)).
  rewrite <- (H1 t), <- (H2 t), <- (H3 t) by lia. by apply cj_ev.
Qed.

(** the emitted amounts are non-negative *)
Lemma cj_go_amts next e res xa xb k :
  (forall d, amt res d <= amt (cmin xa xb) d) ->
  (forall e' res', (forall d, amt res' d = amt (cmin xa xb) d) -> amts_ok (fst (k e' res'))) ->
  amts_ok (fst (cj_go next e res xa xb k)).
Proof.
  intros Hle Hk. unfold cj_go, cj_emit.
  replace (is_all_lte res (cmin xa xb)) with true
    by (symmetry; apply is_all_lte_spec; intros d _; apply Hle).
  destruct (is_zero (csub (cmin xa xb) res)) eqn:Ez.
  - apply Hk. intros d. pose proof (proj1 (is_zero_spec _) Ez d) as Hz. rewrite amt_csub in Hz. lia.
  - rewrite fst_pcons. constructor.
    + intros d. cbn [emit amount]. rewrite amt_csub. specialize (Hle d). lia.
    + apply Hk. intros d. rewrite amt_cadd, amt_csub. lia.
Qed.

Lemma cj_rest_a_amts ps : forall tp e res xa xb, amts_ok ps -> nonneg xb ->
  (forall d, amt res d = amt (cmin xa xb) d) -> amts_ok (fst (cj_rest_a ps tp e res xa xb)).
Proof.
  induction ps as [|p r IH]; intros tp e res xa xb Ha Hxb Hres; cbn [cj_rest_a]; [constructor|].
  inversion Ha as [|? ? Hp' Hr']; subst. apply cj_go_amts.
  - intros d. rewrite Hres, !amt_cmin, amt_cadd. specialize (Hp' d). lia.
  - intros e' res' Hres'. by apply IH.
Qed.
Lemma cj_rest_b_amts ps : forall tp e res xa xb, amts_ok ps -> nonneg xa ->
  (forall d, amt res d = amt (cmin xa xb) d) -> amts_ok (fst (cj_rest_b ps tp e res xa xb)).
Proof.
  induction ps as [|p r IH]; intros tp e res xa xb Ha Hxa Hres; cbn [cj_rest_b]; [constructor|].
  inversion Ha as [|? ? Hp' Hr']; subst. apply cj_go_amts.
  - intros d. rewrite Hres, !amt_cmin, amt_cadd. specialize (Hp' d). lia.
  - intros e' res' Hres'. by apply IH.
Qed.

Lemma cj_amts pa : forall ta pb tb e res xa xb, amts_ok pa -> amts_ok pb -> nonneg xa -> nonneg xb ->
  (forall d, amt res d = amt (cmin xa xb) d) -> amts_ok (fst (cj pa ta pb tb e res xa xb)).
Proof.
  induction pa as [|a ra IHa]; intros ta pb tb e res xa xb Haa Hab Hxa Hxb Hres.
  - rewrite cj_nil_l. by apply cj_rest_b_amts.
  - revert tb e res xa xb Hxa Hxb Hres. induction pb as [|b rb IHb]; intros tb e res xa xb Hxa Hxb Hres.
    + rewrite cj_nil_r. by apply cj_rest_a_amts.
    + inversion Haa as [|? ? Hpa' Hra']; inversion Hab as [|? ? Hpb' Hrb']; subst.
      rewrite cj_cons. cbv zeta.
      destruct (_ <? _); [|destruct (_ <? _)]; apply cj_go_amts.
      * intros d. rewrite Hres, !amt_cmin, amt_cadd. specialize (Hpa' d). lia.
      * intros e' res' Hres'. apply IHa; try done. by apply nonneg_cadd.
      * intros d. rewrite Hres, !amt_cmin, amt_cadd. specialize (Hpb' d). lia.
      * intros e' res' Hres'. apply IHb; try done. by apply nonneg_cadd.
      * intros d. rewrite Hres, !amt_cmin, !amt_cadd. specialize (Hpa' d). specialize (Hpb' d). lia.
      * intros e' res' Hres'. apply IHa; try done; by apply nonneg_cadd.
Qed.

(** the merged schedule carries the sum of both totals *)
Lemma dj_total d pa ta pb tb e :
  amt (total_amount (fst (dj pa ta pb tb e))) d = amt (total_amount pa) d + amt (total_amount pb) d.
Proof.
  destruct (evd_eventually (fst (dj pa ta pb tb e)) e) as [T1 H1].
  destruct (evd_eventually pa ta) as [T2 H2]. destruct (evd_eventually pb tb) as [T3 H3].
  set (t := Z.max T1 (Z.max T2 T3)).
  rewrite <- (H1 t), <- (H2 t), <- (H3 t) by lia. apply dj_ev.
Qed.

(** * statements through [ev] (as used by Props/C09.v) *)
Theorem read_is_step_ev start endt ps total t d : lens_ok ps -> start < t < endt ->
  amt (read_schedule start endt ps total t) d = amt (ev start ps t) d.
Proof. intros. rewrite amt_ev. by apply read_is_step. Qed.

Theorem read_is_ev_ev start endt ps total t d : lens_ok ps -> consistent start endt ps total ->
  start < t -> amt (read_schedule start endt ps total t) d = amt (ev start ps t) d.
Proof. intros. rewrite amt_ev. by apply read_is_ev. Qed.

Theorem past_count_prefix start endt ps total t d : lens_ok ps -> consistent start endt ps total ->
  amt (total_amount (firstn (read_past_count start endt ps t) ps)) d
    = amt (read_schedule start endt ps total t) d.
Proof.
  intros Hl [Hc1 Hc2]. unfold read_past_count, read_schedule.
  destruct (Z.leb_spec t start); [by rewrite take_0, total_amount_nil, amt_empty|].
  destruct (Z.leb_spec endt t).
  - by rewrite firstn_all, Hc2.
  - rewrite count_loop_spec, read_loop_spec, amt_empty by done. cbn [Nat.add]. rewrite evd_prefix by done. lia.
Qed.

(** the corollary of [disjunct_union] for the read function: after both
    schedules have started, the merged schedule has released the sum *)
Theorem disjunct_read_sum sa sb pa pb t d : lens_ok pa -> lens_ok pb -> Z.max sa sb < t ->
  let '(s, e, ps) := disjunct sa sb pa pb in
  amt (read_schedule s e ps (cadd (total_amount pa) (total_amount pb)) t) d
    = amt (read_schedule sa (sa + total_len pa) pa (total_amount pa) t) d
      + amt (read_schedule sb (sb + total_len pb) pb (total_amount pb) t) d.
Proof.
  intros Ha Hb Ht. pose proof (disjunct_lens sa sb pa pb Ha Hb) as Hl. unfold disjunct in *. cbn [snd] in Hl.
  rewrite !read_is_ev; try done; try lia; try (split; [lia|done]).
  - apply dj_ev.
  - split; [rewrite dj_end_len; lia|]. intros d'. by rewrite amt_cadd, dj_total.
Qed.
