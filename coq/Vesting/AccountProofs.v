(** Proofs about the clawback vesting account (property C09): vested/unvested
    and locked/unlocked split the original grant, ComputeClawback takes exactly
    the unvested amount and keeps every vested coin under its lockup, and when
    the resulting account passes Validate. *)
From Coq Require Import ZArith List Lia.
From stdpp Require Import gmap.
From HV Require Import Base.Coins Vesting.ScheduleModel Vesting.ScheduleProofs.
Import ListNotations.
Local Open Scope Z_scope.

Definition valid (va : account) : Prop := validate va = V_OK.

(** what sdk.Coins validity and the messages' ValidateBasic (plus the keeper's
    zero-length default period) guarantee of a stored account *)
Record wf_acc (va : account) : Prop := mkwf {
  wf_ll : lens_ok (lockup va);
  wf_la : amts_ok (lockup va);
  wf_vl : lens_ok (vesting va);
  wf_va : amts_ok (vesting va);
  wf_orig : nonneg (original va);
  wf_df : nonneg (dfree va);
  wf_dv : nonneg (dvest va)
}.

Lemma valid_inv va : valid va -> wf_acc va ->
  start_time va < end_time va /\
  consistent (start_time va) (end_time va) (lockup va) (original va) /\
  consistent (start_time va) (end_time va) (vesting va) (original va) /\
  is_all_lte (dvest va) (original va) = true.
Proof.
  intros Hv [Hll Hla Hvl Hva Ho _ _]. unfold valid, validate in Hv.
  destruct (Z.leb_spec (end_time va) (start_time va)); [discriminate|].
  destruct (Z.ltb_spec (end_time va) (start_time va + total_len (lockup va))); [discriminate|].
  destruct (coin_eq (total_amount (lockup va)) (original va)) eqn:E1; [|discriminate].
  destruct (Z.ltb_spec (end_time va) (start_time va + total_len (vesting va))); [discriminate|].
  destruct (coin_eq (total_amount (vesting va)) (original va)) eqn:E2; [|discriminate].
  destruct (is_all_lte (dvest va) (original va)) eqn:E3; [|discriminate].
  pose proof (proj1 (coin_eq_spec _ _ (total_amount_nonneg _ Hla) Ho) E1) as E1'.
  pose proof (proj1 (coin_eq_spec _ _ (total_amount_nonneg _ Hva) Ho) E2) as E2'.
  repeat split; auto; lia.
Qed.

(** the part of Validate that relates the two schedules to (EndTime,
    OriginalVesting); it is all the reading functions need, and (unlike
    [start < end]) it is preserved by every keeper operation *)
Definition coherent (va : account) : Prop :=
  consistent (start_time va) (end_time va) (lockup va) (original va) /\
  consistent (start_time va) (end_time va) (vesting va) (original va).

Lemma valid_coherent va : valid va -> wf_acc va -> coherent va.
Proof. intros Hv Hwf. destruct (valid_inv va Hv Hwf) as (_ & H1 & H2 & _). by split. Qed.

Lemma coherent_valid va : wf_acc va -> coherent va -> start_time va < end_time va ->
  is_all_lte (dvest va) (original va) = true -> valid va.
Proof.
  intros [Hll Hla Hvl Hva Ho _ _] [[Hl1 Hl2] [Hv1 Hv2]] Hse Hd. unfold valid, validate.
  destruct (Z.leb_spec (end_time va) (start_time va)); [lia|].
  destruct (Z.ltb_spec (end_time va) (start_time va + total_len (lockup va))); [lia|].
  assert (coin_eq (total_amount (lockup va)) (original va) = true) as ->.
  { apply coin_eq_spec; [by apply total_amount_nonneg|done|]. intros d. by rewrite Hl2. }
  destruct (Z.ltb_spec (end_time va) (start_time va + total_len (vesting va))); [lia|].
  assert (coin_eq (total_amount (vesting va)) (original va) = true) as ->.
  { apply coin_eq_spec; [by apply total_amount_nonneg|done|]. intros d. by rewrite Hv2. }
  by rewrite Hd.
Qed.

Section Account.
  Variable va : account.
  Hypothesis Hc : coherent va.
  Hypothesis Hwf : wf_acc va.

  Let s := start_time va.
  Let e := end_time va.

  Lemma vested_zero_before t : t <= s -> get_vested va t = ∅.
  Proof. apply read_zero_before. Qed.
  Lemma unlocked_zero_before t : t <= s -> get_unlocked va t = ∅.
  Proof. apply read_zero_before. Qed.

  Lemma vested_total_after t : s < t -> e <= t -> get_vested va t = original va.
  Proof. apply read_total_after. Qed.
  Lemma unlocked_total_after t : s < t -> e <= t -> get_unlocked va t = original va.
  Proof. apply read_total_after. Qed.

  (** after the start, the vested (unlocked) amount is the sum of all vesting
      (lockup) periods that have ended *)
  Lemma vested_is_ev t d : s < t -> amt (get_vested va t) d = evd d s (vesting va) t.
  Proof.
    intros H. destruct Hc as [_ Hcv]. destruct Hwf.
    by apply read_is_ev.
  Qed.
  Lemma unlocked_is_ev t d : s < t -> amt (get_unlocked va t) d = evd d s (lockup va) t.
  Proof.
    intros H. destruct Hc as [Hcl _]. destruct Hwf.
    by apply read_is_ev.
  Qed.

  Lemma vested_mono t1 t2 d : t1 <= t2 -> amt (get_vested va t1) d <= amt (get_vested va t2) d.
  Proof.
    intros H. destruct Hc as [_ Hcv]. destruct Hwf. by apply read_mono.
  Qed.
  Lemma unlocked_mono t1 t2 d : t1 <= t2 -> amt (get_unlocked va t1) d <= amt (get_unlocked va t2) d.
  Proof.
    intros H. destruct Hc as [Hcl _]. destruct Hwf. by apply read_mono.
  Qed.

  Lemma vested_bounds t d : 0 <= amt (get_vested va t) d <= amt (original va) d.
  Proof.
    destruct Hc as [_ Hcv]. destruct Hwf.
    split; [by apply read_nonneg|by apply read_le_total].
  Qed.
  Lemma unlocked_bounds t d : 0 <= amt (get_unlocked va t) d <= amt (original va) d.
  Proof.
    destruct Hc as [Hcl _]. destruct Hwf.
    split; [by apply read_nonneg|by apply read_le_total].
  Qed.

  (** vested + unvested = original grant, neither negative, no panic *)
  Theorem vested_plus_unvested t :
    exists u, get_vesting va t = Some u /\
      forall d, amt (get_vested va t) d + amt u d = amt (original va) d /\
                0 <= amt (get_vested va t) d /\ 0 <= amt u d.
  Proof.
    exists (csub (original va) (get_vested va t)). split.
    - apply csub_chk_nonneg. intros d. apply vested_bounds.
    - intros d. rewrite amt_csub. pose proof (vested_bounds t d). lia.
  Qed.

  Theorem locked_plus_unlocked t :
    exists l, get_locked_up va t = Some l /\
      forall d, amt (get_unlocked va t) d + amt l d = amt (original va) d /\
                0 <= amt (get_unlocked va t) d /\ 0 <= amt l d.
  Proof.
    exists (csub (original va) (get_unlocked va t)). split.
    - apply csub_chk_nonneg. intros d. apply unlocked_bounds.
    - intros d. rewrite amt_csub. pose proof (unlocked_bounds t d). lia.
  Qed.

  (** LockedCoins never panics and stays within [0, original] *)
  Theorem locked_coins_bounds t :
    exists l, locked_coins va t = Some l /\ forall d, 0 <= amt l d <= amt (original va) d.
  Proof.
    unfold locked_coins, get_locked_up_vested.
    rewrite csub_chk_nonneg.
    2:{ intros d. unfold get_unlocked_vested. rewrite amt_cmin. lia. }
    eexists. split; [reflexivity|]. intros d.
    destruct (any_neg _) eqn:E.
    - rewrite amt_empty. pose proof (vested_bounds t d). lia.
    - apply any_neg_false in E. specialize (E d). split; [done|].
      rewrite amt_csub, amt_cadd, amt_cmin, amt_cadd, amt_csub in *. unfold get_unlocked_vested in *.
      rewrite amt_cmin in *. pose proof (vested_bounds t d). pose proof (unlocked_bounds t d).
      pose proof (wf_df _ Hwf d). pose proof (wf_dv _ Hwf d). lia.
  Qed.
End Account.

(** * ComputeClawback *)
Section Clawback.
  Variable va : account.
  Hypothesis Hc : coherent va.
  Hypothesis Hwf : wf_acc va.
  Variable t : Z.

  Let s := start_time va.
  Let V := get_vested va t.
  Let k := past_count va t.
  Let vp' := firstn k (vesting va).
  Let cjr := cj (lockup va) s [mkp 0 V] s s ∅ ∅ ∅.

  Lemma V_nonneg : nonneg V.
  Proof. intros d. apply (vested_bounds va Hc Hwf). Qed.

  Lemma cap_ok : lens_ok [mkp 0 V] /\ amts_ok [mkp 0 V].
  Proof. split; constructor; try constructor; cbn; [lia|apply V_nonneg]. Qed.

  (** the vested amount is the sum of the periods that are kept *)
  Lemma V_prefix d : amt V d = amt (total_amount vp') d.
  Proof.
    destruct Hc as [_ [Hc1 Hc2]]. pose proof (wf_vl _ Hwf) as Hl.
    unfold V, vp', k, past_count, get_vested, read_past_count, read_schedule. fold s.
    destruct (Z.leb_spec t s); [by rewrite amt_empty, take_0, total_amount_nil|].
    destruct (Z.leb_spec (end_time va) t).
    - rewrite firstn_all. apply Hc2.
    - rewrite read_loop_spec, count_loop_spec, amt_empty by done. cbn [Nat.add].
      rewrite evd_prefix by done. lia.
  Qed.

  (** read at any time, the kept periods yield min(vested then, vested at [t]) *)
  Lemma vp'_cut d t' : evd d s vp' t' = Z.min (evd d s (vesting va) t') (amt V d).
  Proof.
    destruct Hc as [_ [Hc1 Hc2]].
    pose proof (wf_vl _ Hwf) as Hl. pose proof (wf_va _ Hwf) as Ha.
    pose proof (evd_nonneg d (vesting va) s t' Ha). pose proof (evd_le_total d (vesting va) s t' Ha).
    unfold V, vp', k, past_count, get_vested, read_past_count, read_schedule. fold s.
    destruct (Z.leb_spec t s); [rewrite amt_empty, take_0; cbn [evd]; lia|].
    destruct (Z.leb_spec (end_time va) t).
    - rewrite firstn_all, Hc2. lia.
    - rewrite read_loop_spec, count_loop_spec, amt_empty by done. cbn [Nat.add].
      rewrite evd_cut by done. lia.
  Qed.

  Lemma cjr_ev d t' : evd d s (fst cjr) t' = Z.min (evd d s (lockup va) t') (if s <=? t' then amt V d else 0).
  Proof.
    destruct cap_ok. unfold cjr. rewrite cj_ev; try done; try apply nonneg_empty; try apply Hwf.
    rewrite !amt_empty. cbn [evd len amount]. replace (s + 0) with s by lia. destruct (s <=? t'); lia.
  Qed.

  Lemma cjr_total d : amt (total_amount (fst cjr)) d = amt V d.
  Proof.
    destruct cap_ok. destruct Hc as [[_ Hcl] _].
    unfold cjr. rewrite cj_total; try done; try apply nonneg_empty; try apply Hwf.
    rewrite !amt_empty, total_amount_cons, total_amount_nil, <- Hcl. cbn [amount].
    pose proof (vested_bounds va Hc Hwf t d). fold V in H1. lia.
  Qed.

  Lemma cjr_lens : lens_ok (fst cjr).
  Proof.
    destruct cap_ok. unfold cjr. apply cj_lens; try done; try apply Hwf.
    - pose proof (wf_ll _ Hwf) as Hl. destruct (lockup va); cbn; [done|]. inversion Hl; subst. lia.
    - cbn. lia.
  Qed.

  Lemma cjr_amts : amts_ok (fst cjr).
  Proof.
    destruct cap_ok. unfold cjr. apply cj_amts; try done; try apply nonneg_empty; apply Hwf.
  Qed.

  Lemma cjr_end : snd cjr = s + total_len (fst cjr).
  Proof. apply cj_end_len. Qed.

  Lemma compute_clawback_eq :
    compute_clawback va t =
      Some (mkacc (funder va) s (Z.max (s + total_len vp') (snd cjr)) V (fst cjr) vp' (dfree va) (dvest va),
            csub (original va) V).
  Proof.
    unfold compute_clawback, get_vesting. fold V.
    rewrite csub_chk_nonneg by (intros d; apply (vested_bounds va Hc Hwf)).
    unfold conjunct. fold s. rewrite Z.min_id. fold cjr. fold k. fold vp'. done.
  Qed.

  (** ** exactness *)
  Theorem clawback_exact :
    exists va' c, compute_clawback va t = Some (va', c) /\
      (* the clawed-back amount is exactly the unvested amount *)
      (forall d, amt c d = amt (original va) d - amt (get_vested va t) d) /\
      get_vesting va t = Some c /\
      (* the account keeps exactly the vested amount, its funder and start *)
      original va' = get_vested va t /\ funder va' = funder va /\ start_time va' = start_time va /\
      dfree va' = dfree va /\ dvest va' = dvest va /\
      (* every vested coin stays subject to its lockup: at every time the
         unlocked amount is the old unlocked amount capped by the vested total *)
      (forall t' d, amt (get_unlocked va' t') d = Z.min (amt (get_unlocked va t') d) (amt (get_vested va t) d)) /\
      (* and no future vesting event remains *)
      (forall t' d, amt (get_vested va' t') d = Z.min (amt (get_vested va t') d) (amt (get_vested va t) d)).
  Proof.
    eexists _, _. split; [apply compute_clawback_eq|]. cbn [original funder start_time dfree dvest].
    split; [intros d; by rewrite amt_csub|]. split.
    { unfold get_vesting. fold V. apply csub_chk_nonneg. intros d. apply (vested_bounds va Hc Hwf). }
    do 5 (split; [done|]).
    pose proof V_nonneg as HV. fold V.
    split; intros t' d.
    - unfold get_unlocked at 1. cbn [start_time end_time lockup vesting original].
      destruct (Z.le_gt_cases t' s).
      + rewrite read_zero_before, (unlocked_zero_before va t'), amt_empty by done. specialize (HV d). lia.
      + rewrite read_is_ev; [|apply cjr_lens| |done].
        2:{ split; [rewrite cjr_end; lia|]. intros d'. by rewrite cjr_total. }
        rewrite cjr_ev, (unlocked_is_ev va Hc Hwf) by done. fold s.
        destruct (Z.leb_spec s t'); [done|lia].
    - unfold get_vested at 1. cbn [start_time end_time lockup vesting original].
      destruct (Z.le_gt_cases t' s).
      + rewrite read_zero_before, (vested_zero_before va t'), amt_empty by done. specialize (HV d). lia.
      + rewrite read_is_ev; [|apply firstn_lens_ok, Hwf| |done].
        2:{ split; [lia|]. apply V_prefix. }
        rewrite vp'_cut, (vested_is_ev va Hc Hwf) by done. done.
  Qed.

  (** ** the resulting account *)
  (** every check of Validate that relates schedules, end time and original
      vesting holds for the result, always *)
  Theorem clawback_coherent va' c : compute_clawback va t = Some (va', c) -> coherent va' /\ wf_acc va'.
  Proof.
    rewrite compute_clawback_eq. intros [= <- <-]. split; [split; split|];
      cbn [start_time end_time lockup vesting original dfree dvest].
    - rewrite cjr_end. fold s. lia.
    - intros d. by rewrite cjr_total.
    - fold s. lia.
    - apply V_prefix.
    - constructor; cbn [lockup vesting original dfree dvest]; try apply Hwf.
      + apply cjr_lens.
      + (* amounts of the capped lockup schedule are the emitted differences *)
        apply cjr_amts.
      + by apply firstn_lens_ok, Hwf.
      + by apply firstn_amts_ok, Hwf.
      + apply V_nonneg.
  Qed.

  (** The account passes Validate as soon as its new end time is after its
      start time (and the recorded DelegatedVesting does not exceed what is
      kept). *)
  Theorem clawback_valid_general va' c : compute_clawback va t = Some (va', c) ->
    is_all_lte (dvest va) (get_vested va t) = true ->
    start_time va < end_time va' -> valid va'.
  Proof.
    intros Hcc Hd He. destruct (clawback_coherent va' c Hcc) as [Hco Hw].
    rewrite compute_clawback_eq in Hcc. injection Hcc as <- _.
    apply coherent_valid; try done.
  Qed.

  (** in particular: when every vesting period has positive length (as the
      messages' ValidateBasic demands) and something has vested *)
  Theorem clawback_valid_partial va' c : compute_clawback va t = Some (va', c) ->
    is_all_lte (dvest va) (get_vested va t) = true ->
    Forall (fun p => 0 < len p) (vesting va) ->
    (exists d, amt (get_vested va t) d <> 0) ->
    valid va'.
  Proof.
    intros Hcc Hd Hpos [d Hd0]. apply (clawback_valid_general va' c Hcc Hd).
    rewrite compute_clawback_eq in Hcc. injection Hcc as <- _. cbn [end_time]. fold s.
    fold V in Hd0. rewrite V_prefix in Hd0.
    assert (s < s + total_len vp'); [|lia].
    pose proof (firstn_lens_ok k _ (wf_vl _ Hwf)) as Hl. fold vp' in Hl.
    assert (Hpos' : Forall (fun p => 0 < len p) vp') by (by apply Forall_take).
    destruct vp' as [|p r]; [by rewrite total_amount_nil in Hd0|].
    inversion Hpos'; inversion Hl; subst. rewrite total_len_cons.
    pose proof (total_len_nonneg r H6). lia.
  Qed.
End Clawback.

(** * Witnesses *)
Lemma nonneg_by_compute c : any_neg c = false -> nonneg c.
Proof. apply any_neg_false. Qed.

Ltac wf_by_compute :=
  constructor; cbn [lockup vesting original dfree dvest];
  try (repeat constructor; cbn; lia);
  try (repeat (constructor; [apply nonneg_by_compute; vm_compute; reflexivity|]); constructor);
  try (apply nonneg_by_compute; vm_compute; reflexivity).

Definition c1 (x : Z) : coins := of_list [(0%N, x)].
Definition c2 (x y : Z) : coins := of_list [(0%N, x); (1%N, y)].

(** K1: a grant of 300 vesting in two steps (1100, 1200), locked until 1300,
    clawed back at 1050, before the first vesting event: the account keeps
    nothing, both schedules become empty and EndTime = StartTime = 1000, which
    Validate rejects ("vesting start-time must be before end-time"). *)
Definition k1_account : account :=
  new_account 7 (c1 300) 1000 [mkp 300 (c1 300)] [mkp 100 (c1 150); mkp 100 (c1 150)].

Theorem clawback_valid_refuted :
  exists va t, valid va /\ wf_acc va /\ Forall (fun p => 0 < len p) (vesting va) /\
    match compute_clawback va t with
    | Some (va', c) =>
        validate va' = V_START_END /\ start_time va' = end_time va' /\
        lockup va' = [] /\ vesting va' = [] /\ canon c = [(0%N, 300)]
    | None => False
    end.
Proof.
  exists k1_account, 1050. split; [vm_compute; reflexivity|]. split; [wf_by_compute|].
  split; [repeat constructor|]. vm_compute. repeat split; reflexivity.
Qed.

(** The same collapse happens with a non-zero vested amount when the only
    vesting events so far coincide with the start time (a zero-length first
    period, as the keeper's instant default produces): vesting 50 at 1000 and
    100 at 1010, lockup 100 at 1000 and 50 at 1005, clawed back at 1005. *)
Definition k1_zero_len_account : account :=
  mkacc 7 1000 1010 (c1 150) [mkp 0 (c1 100); mkp 5 (c1 50)] [mkp 0 (c1 50); mkp 10 (c1 100)] ∅ ∅.

Theorem clawback_valid_zero_len_refuted :
  exists va t, valid va /\ wf_acc va /\ (exists d, amt (get_vested va t) d <> 0) /\
    match compute_clawback va t with
    | Some (va', c) => validate va' = V_START_END /\ start_time va' = end_time va' /\ canon c = [(0%N, 100)]
    | None => False
    end.
Proof.
  exists k1_zero_len_account, 1005. split; [vm_compute; reflexivity|]. split; [wf_by_compute|].
  split; [exists 0%N; vm_compute; discriminate|]. vm_compute. repeat split; reflexivity.
Qed.

(** Non-vacuity: a two-denomination account in the middle of its schedule
    satisfies every hypothesis of the theorems above, and its clawback result
    is valid. *)
Definition ex_account : account :=
  new_account 7 (c2 300 90) 1000 [mkp 200 (c2 300 90)]
    [mkp 100 (c2 100 30); mkp 100 (c2 100 30); mkp 100 (c2 100 30)].

Example ex_account_hyps :
  valid ex_account /\ wf_acc ex_account /\ Forall (fun p => 0 < len p) (vesting ex_account) /\
  is_all_lte (dvest ex_account) (get_vested ex_account 1150) = true /\
  (exists d, amt (get_vested ex_account 1150) d <> 0) /\
  canon (get_vested ex_account 1150) = [(0%N, 100); (1%N, 30)] /\
  canon (get_unlocked ex_account 1150) = [] /\
  match compute_clawback ex_account 1150 with
  | Some (va', c) => valid va' /\ canon c = [(0%N, 200); (1%N, 60)] /\
                     canon (get_unlocked va' 1250) = [(0%N, 100); (1%N, 30)]
  | None => False
  end.
Proof.
  split; [vm_compute; reflexivity|]. split; [wf_by_compute|]. split; [repeat constructor|].
  split; [vm_compute; reflexivity|]. split; [exists 0%N; vm_compute; discriminate|].
  vm_compute. repeat split; reflexivity.
Qed.
