(** Vesting keeper (property C09): executable transcription of the message
    server of x/vesting (msg_server.go, schedule.go, msg.go ValidateBasic) over
    an abstract store of accounts and bank balances.  Definitions only.

    Boundary (modelled, not verified): bank SendCoins incl. its locked-coins
    check and account auto-creation, baseapp all-or-nothing message execution;
    the staking amounts read by addGrant / ApplyVestingSchedule (bonded +
    unbonding of the target) are an input of the operation, observed from the
    implementation. *)
From stdpp Require Import gmap.
From Coq Require Import ZArith List.
From HV Require Import Base.Coins Vesting.ScheduleModel.
Import ListNotations.
Local Open Scope Z_scope.

(** an address either has no account, a plain (Eth) account or a clawback
    vesting account *)
Inductive acct := Plain | Claw (va : account).

Record kstate := mkks {
  accts : gmap N acct;
  bank : gmap N coins
}.
Definition kinit : kstate := mkks ∅ ∅.

Definition bal (s : kstate) (a : N) : coins := default ∅ (bank s !! a).

(** result codes, as the harness maps the Go errors *)
Definition OK : N := 0.
Definition E_UNAUTH : N := 1.         (* ErrUnauthorized *)
Definition E_INVALID : N := 2.        (* ErrInvalidRequest (incl. ValidateBasic, wrapped ErrApplyShedule) *)
Definition E_NOT_SUPPORTED : N := 3.  (* ErrNotSupported *)
Definition E_INSUFFICIENT : N := 4.   (* ErrInsufficientFunds *)
Definition E_UNKNOWN_ADDR : N := 5.   (* ErrUnknownAddress *)
Definition E_NOT_CLAWBACK : N := 6.   (* ErrNotSubjectToClawback *)
Definition E_PANIC : N := 7.          (* a Coins.Sub panicked *)

Inductive op :=
| Fund (a : N) (c : clist)                                   (* harness: mint to an account *)
| Send (t : Z) (from to : N) (c : clist)                     (* bank MsgSend *)
| Create (t : Z) (from to : N) (start : Z) (lp vp : pl) (merge : bool) (deleg : Z)
| Convert (t : Z) (from to : N) (start : Z) (lp vp : pl) (merge : bool) (deleg : Z)
| Clawback (t : Z) (f a : N) (dest : option N)
| UpdateFunder (t : Z) (f newf a : N)
| ConvertBack (t : Z) (a : N).

Section Keeper.
  Variable blocked : N -> bool.     (* bank BlockedAddr *)
  Variable bond : N.                (* staking BondDenom *)
  (** [fixed = true]: ApplyVestingSchedule passes the grant's own start time to
      addGrant (the code of /repo after the "fix:" commit 83e9993);
      [fixed = false]: Min64(grant start, account start), the pinned behaviour
      (finding F1). *)
  Variable fixed : bool.

  Definition touch (m : gmap N acct) (a : N) : gmap N acct :=
    match m !! a with None => <[a := Plain]> m | Some _ => m end.

  (** bank SendCoins at block time [t]: subUnlockedCoins (balance - locked must
      cover every coin), addCoins, account creation for the recipient *)
  Definition send (s : kstate) (t : Z) (from to : N) (c : coins) : kstate * N :=
    let locked := match accts s !! from with
                  | Some (Claw va) => locked_coins va t
                  | _ => Some ∅
                  end in
    match locked with
    | None => (s, E_PANIC)
    | Some lk =>
        if negb (is_all_lte c (csub (bal s from) lk)) then (s, E_INSUFFICIENT) else
        let b1 := <[from := csub (bal s from) c]> (bank s) in
        let b2 := <[to := cadd (default ∅ (b1 !! to)) c]> b1 in
        (mkks (touch (accts s) to) b2, OK)
    end.

  (** the defaults of CreateClawbackVestingAccount / ConvertIntoVestingAccount:
      absent lockup = instant unlock, absent vesting = instant vesting *)
  Definition with_defaults (lp vp : periods) : periods * periods * coins * coins :=
    let vc := total_amount vp in
    let lc := total_amount lp in
    let '(lp1, lc1) := if negb (is_zero vc) && (length lp =? 0)%nat then ([mkp 0 vc], vc) else (lp, lc) in
    let '(vp1, vc1) := if negb (is_zero lc1) && (length vp =? 0)%nat then ([mkp 0 lc1], lc1) else (vp, vc) in
    (lp1, vp1, lc1, vc1).

  (** msg.ValidateBasic of the two create messages *)
  Definition basic_ok (lp vp : periods) : bool :=
    forallb (fun p => 1 <=? len p) lp && forallb (fun p => 1 <=? len p) vp
    && negb (is_zero (total_amount lp) && is_zero (total_amount vp))
    && ((length lp =? 0)%nat || (length vp =? 0)%nat || coin_eq (total_amount lp) (total_amount vp)).

  (** keeper addGrant *)
  Definition add_grant (va : account) (gstart : Z) (glp gvp : periods) (gcoins : coins) (deleg : Z)
      : option account :=
    let '(ls, le, lp') := disjunct (start_time va) gstart (lockup va) glp in
    let '(vs, ve, vp') := disjunct (start_time va) gstart (vesting va) gvp in
    if negb (ls =? vs) then None else
    Some (mkacc (funder va) ls (Z.max le ve) (cadd (original va) gcoins) lp' vp'
                (cset ∅ bond deleg) ∅).

  Definition set_acct (s : kstate) (a : N) (x : acct) : kstate := mkks (<[a := x]> (accts s)) (bank s).

  Definition create (s : kstate) (t : Z) (from to : N) (start : Z) (lp0 vp0 : periods)
      (merge : bool) (deleg : Z) : kstate * N :=
    if negb (basic_ok lp0 vp0) then (s, E_INVALID) else
    if blocked to then (s, E_UNAUTH) else
    let '(lp, vp, lc, vc) := with_defaults lp0 vp0 in
    if negb (is_all_lte vc lc && is_all_lte lc vc) then (s, E_INVALID) else
    match accts s !! to with
    | Some Plain => (s, if merge then E_NOT_SUPPORTED else E_INVALID)
    | Some (Claw va) =>
        if negb merge then (s, E_INVALID) else
        if negb (N.eqb from (funder va)) then (s, E_INVALID) else
        match add_grant va start lp vp vc deleg with
        | None => (s, E_INVALID)
        | Some va' =>
            let '(s', r) := send (set_acct s to (Claw va')) t from to vc in
            if N.eqb r OK then (s', OK) else (s, r)
        end
    | None =>
        let va := new_account from vc start lp vp in
        let '(s', r) := send (set_acct s to (Claw va)) t from to vc in
        if N.eqb r OK then (s', OK) else (s, r)
    end.

  (** ConvertIntoVestingAccount -> ApplyVestingSchedule *)
  Definition convert (s : kstate) (t : Z) (from to : N) (start : Z) (lp0 vp0 : periods)
      (merge : bool) (deleg : Z) : kstate * N :=
    if negb (basic_ok lp0 vp0) then (s, E_INVALID) else
    if blocked to then (s, E_UNAUTH) else
    let '(lp, vp, lc, vc) := with_defaults lp0 vp0 in
    if negb (is_all_lte vc lc && is_all_lte lc vc) then (s, E_INVALID) else
    let applied : option account :=
      match accts s !! to with
      | None => Some (new_account from vc start lp vp)
      | Some Plain =>
          let va := new_account from vc start lp vp in
          Some (mkacc (funder va) (start_time va) (end_time va) (original va) (lockup va) (vesting va)
                      (cset ∅ bond deleg) (dvest va))
      | Some (Claw va) =>
          if negb merge then None else
          if negb (N.eqb from (funder va)) then None else
          add_grant va (if fixed then start else Z.min start (start_time va)) lp vp vc deleg
      end in
    match applied with
    | None => (s, E_INVALID)
    | Some va' =>
        let '(s', r) := send (set_acct s to (Claw va')) t from to vc in
        if N.eqb r OK then (s', OK) else (s, r)
    end.

  Definition clawback (s : kstate) (t : Z) (f a : N) (dest0 : option N) : kstate * N :=
    let dest := default f dest0 in
    if blocked dest then (s, E_UNAUTH) else
    match accts s !! a with
    | None => (s, E_UNKNOWN_ADDR)
    | Some Plain => (s, E_NOT_CLAWBACK)
    | Some (Claw va) =>
        if ((length (vesting va) =? 0) && (length (lockup va) =? 0))%nat then (s, E_INVALID) else
        if negb (N.eqb (funder va) f) then (s, E_UNAUTH) else
        match compute_clawback va t with
        | None => (s, E_PANIC)
        | Some (va', claw) =>
            if is_zero claw then (s, OK) else
            let '(s', r) := send (set_acct s a (Claw va')) t a dest claw in
            if N.eqb r OK then (s', OK) else (s, r)
        end
    end.

  Definition update_funder (s : kstate) (f newf a : N) : kstate * N :=
    if N.eqb f newf then (s, E_INVALID) else
    if blocked newf then (s, E_UNAUTH) else
    match accts s !! a with
    | None => (s, E_UNKNOWN_ADDR)
    | Some Plain => (s, E_NOT_CLAWBACK)
    | Some (Claw va) =>
        if negb (N.eqb (funder va) f) then (s, E_UNAUTH) else
        (set_acct s a (Claw (mkacc newf (start_time va) (end_time va) (original va) (lockup va)
                                   (vesting va) (dfree va) (dvest va))), OK)
    end.

  (** ConvertVestingAccount (back to a plain account) *)
  Definition convert_back (s : kstate) (t : Z) (a : N) : kstate * N :=
    match accts s !! a with
    | None => (s, E_UNKNOWN_ADDR)
    | Some Plain => (s, E_NOT_CLAWBACK)
    | Some (Claw va) =>
        match get_vesting va t with
        | None => (s, E_PANIC)
        | Some u =>
            if negb (is_zero u) then (s, E_INVALID) else
            match get_locked_up va t with
            | None => (s, E_PANIC)
            | Some l => if negb (is_zero l) then (s, E_INVALID) else (set_acct s a Plain, OK)
            end
        end
    end.

  Definition step (s : kstate) (o : op) : kstate * N :=
    match o with
    | Fund a c =>
        (mkks (touch (accts s) a) (<[a := cadd (bal s a) (of_list c)]> (bank s)), OK)
    | Send t from to c =>
        if blocked to then (s, E_UNAUTH) else send s t from to (of_list c)
    | Create t from to start lp vp merge deleg => create s t from to start (of_pl lp) (of_pl vp) merge deleg
    | Convert t from to start lp vp merge deleg => convert s t from to start (of_pl lp) (of_pl vp) merge deleg
    | Clawback t f a dest => clawback s t f a dest
    | UpdateFunder t f newf a => update_funder s f newf a
    | ConvertBack t a => convert_back s t a
    end.

  Definition run (ops : list op) (s : kstate) : kstate := fold_left (fun s o => fst (step s o)) ops s.
End Keeper.

(** harness conventions: accounts 0..4 are users, 5 is a module account
    (blocked); denomination 0 is the bond denomination *)
Definition blocked_h (a : N) : bool := N.eqb a 5.
Definition bond_h : N := 0.

(** ---- observation, as the harness prints it after every operation ---- *)
Record kview := mkkv {
  kv_kind : N;            (* 0 absent, 1 plain, 2 clawback vesting *)
  kv_funder : N;
  kv_acc : acc_view;
  kv_dfree : clist;
  kv_dvest : clist;
  kv_bal : clist
}.
Record kobs := mkkobs { ko_res : N; ko_accts : list kview }.
Global Instance kview_eq_dec : EqDecision kview.
Proof. solve_decision. Defined.
Global Instance kobs_eq_dec : EqDecision kobs.
Proof. solve_decision. Defined.

Definition kview_of (s : kstate) (a : N) : kview :=
  match accts s !! a with
  | None => mkkv 0 0 (mkav 0 0 [] [] []) [] [] (canon (bal s a))
  | Some Plain => mkkv 1 0 (mkav 0 0 [] [] []) [] [] (canon (bal s a))
  | Some (Claw va) => mkkv 2 (funder va) (view va) (canon (dfree va)) (canon (dvest va)) (canon (bal s a))
  end.

Definition kobserve (na : nat) (s : kstate) (r : N) : kobs :=
  mkkobs r (map (fun i => kview_of s (N.of_nat i)) (seq 0 na)).

Fixpoint kcheck_from (fixed : bool) (i : nat) (s : kstate) (h : list (op * kobs)) : option nat :=
  match h with
  | [] => None
  | (o, ob) :: r =>
      let '(s', res) := step blocked_h bond_h fixed s o in
      if bool_decide (kobserve 5 s' res = ob) then kcheck_from fixed (S i) s' r else Some i
  end.
Definition kcheck (fixed : bool) (h : list (op * kobs)) : bool :=
  match kcheck_from fixed 0 kinit h with None => true | Some _ => false end.
Definition kmismatches (fixed : bool) (cs : list (list (op * kobs))) : list nat := mism_from (kcheck fixed) 0 cs.
