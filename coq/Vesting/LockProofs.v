(** Proofs about the locked-coins model (property C08). *)
From Coq Require Import ZArith List Bool Lia.
From HV Require Import Vesting.LockModel.
Import ListNotations.
Local Open Scope Z_scope.

(** * reading a schedule *)
Lemma lk_periods_ok_cons p ps :
  lk_periods_ok (p :: ps) = true <-> 0 <= fst p /\ 0 <= snd p /\ lk_periods_ok ps = true.
Proof.
  unfold lk_periods_ok. cbn [forallb]. rewrite !andb_true_iff, !Z.leb_le. tauto.
Qed.

Lemma lk_sum_cons p ps : lk_sum (p :: ps) = snd p + lk_sum ps.
Proof. reflexivity. Qed.

Lemma lk_sum_nonneg ps : lk_periods_ok ps = true -> 0 <= lk_sum ps.
Proof.
  induction ps as [|p r IH]; intros H; [cbn; lia|].
  apply lk_periods_ok_cons in H as (_ & Ha & Hr). rewrite lk_sum_cons. specialize (IH Hr). lia.
Qed.

Lemma lk_read_loop_bounds ps : lk_periods_ok ps = true ->
  forall e t acc, acc <= lk_read_loop ps e t acc <= acc + lk_sum ps.
Proof.
  induction ps as [|[len a] r IH]; intros H e t acc; cbn [lk_read_loop].
  - cbn. lia.
  - apply lk_periods_ok_cons in H as (_ & Ha & Hr). cbn [snd] in Ha. rewrite lk_sum_cons. cbn [snd].
    pose proof (lk_sum_nonneg _ Hr).
    destruct (t <? e + len); [lia|]. specialize (IH Hr (e + len) t (acc + a)). lia.
Qed.

Lemma lk_read_loop_mono ps : lk_periods_ok ps = true ->
  forall e t1 t2 acc, t1 <= t2 -> lk_read_loop ps e t1 acc <= lk_read_loop ps e t2 acc.
Proof.
  induction ps as [|[len a] r IH]; intros H e t1 t2 acc Ht; cbn [lk_read_loop]; [lia|].
  pose proof H as H'. apply lk_periods_ok_cons in H as (_ & Ha & Hr). cbn [snd] in Ha.
  destruct (Z.ltb_spec t1 (e + len)), (Z.ltb_spec t2 (e + len)); try lia.
  - pose proof (lk_read_loop_bounds _ Hr (e + len) t2 (acc + a)). lia.
  - apply IH; assumption.
Qed.

Definition lk_sched_ok (ps : list lk_period) (total : Z) : Prop :=
  lk_periods_ok ps = true /\ lk_sum ps = total.

Lemma lk_read_bounds st en ps total t : lk_sched_ok ps total -> 0 <= lk_read_schedule st en ps total t <= total.
Proof.
  intros [Hp Hs]. unfold lk_read_schedule. pose proof (lk_sum_nonneg _ Hp).
  destruct (t <=? st); [lia|]. destruct (en <=? t); [lia|].
  pose proof (lk_read_loop_bounds _ Hp st t 0). lia.
Qed.

Lemma lk_read_mono st en ps total t1 t2 : lk_sched_ok ps total -> t1 <= t2 ->
  lk_read_schedule st en ps total t1 <= lk_read_schedule st en ps total t2.
Proof.
  intros Hok Ht. pose proof (lk_read_bounds st en ps total t1 Hok). pose proof (lk_read_bounds st en ps total t2 Hok).
  destruct Hok as [Hp Hs]. unfold lk_read_schedule in *.
  destruct (Z.leb_spec t1 st), (Z.leb_spec t2 st); try lia.
  destruct (Z.leb_spec en t1), (Z.leb_spec en t2); try lia.
  apply lk_read_loop_mono; assumption.
Qed.

(** the number of passed periods and the coins read agree *)
Lemma lk_past_loop_firstn ps : forall e t n acc,
  lk_read_loop ps e t acc = acc + lk_sum (firstn (lk_past_loop ps e t n - n) ps) /\ (n <= lk_past_loop ps e t n)%nat.
Proof.
  induction ps as [|[len a] r IH]; intros e t n acc; cbn [lk_read_loop lk_past_loop].
  - rewrite Nat.sub_diag. cbn. split; lia.
  - destruct (t <? e + len).
    + rewrite Nat.sub_diag. cbn. split; lia.
    + destruct (IH (e + len) t (S n) (acc + a)) as [H1 H2]. split; [|lia].
      replace (lk_past_loop r (e + len) t (S n) - n)%nat with (S (lk_past_loop r (e + len) t (S n) - S n)) by lia.
      cbn [firstn]. rewrite lk_sum_cons. cbn [snd]. lia.
Qed.

Lemma lk_firstn_all {A} (l : list A) : firstn (length l) l = l.
Proof. apply firstn_all. Qed.

Lemma lk_past_count_sum st en ps total t : lk_sum ps = total ->
  lk_sum (firstn (lk_past_count st en ps t) ps) = lk_read_schedule st en ps total t.
Proof.
  intros Hs. unfold lk_past_count, lk_read_schedule.
  destruct (t <=? st); [reflexivity|]. destruct (en <=? t); [rewrite firstn_all; exact Hs|].
  destruct (lk_past_loop_firstn ps st t 0%nat 0) as [H _]. rewrite Nat.sub_0_r in H. lia.
Qed.

Lemma lk_periods_ok_firstn n ps : lk_periods_ok ps = true -> lk_periods_ok (firstn n ps) = true.
Proof.
  revert n. induction ps as [|p r IH]; intros [|n] H; try reflexivity.
  cbn [firstn]. apply lk_periods_ok_cons in H as (H1 & H2 & H3). apply lk_periods_ok_cons. auto.
Qed.

(** * well-formed accounts *)
Lemma lk_wf_b_spec a : lk_wf_b a = true <->
  0 <= lk_orig a /\ lk_sched_ok (lk_lockup a) (lk_orig a) /\ lk_sched_ok (lk_vesting a) (lk_orig a).
Proof.
  unfold lk_wf_b, lk_sched_ok. rewrite !andb_true_iff, !Z.eqb_eq, Z.leb_le. tauto.
Qed.

Lemma lk_vested_bounds a t : lk_wf_b a = true -> 0 <= lk_vested a t <= lk_orig a.
Proof. intros H. apply lk_wf_b_spec in H as (_ & _ & Hv). apply lk_read_bounds, Hv. Qed.
Lemma lk_unlocked_bounds a t : lk_wf_b a = true -> 0 <= lk_unlocked a t <= lk_orig a.
Proof. intros H. apply lk_wf_b_spec in H as (_ & Hl & _). apply lk_read_bounds, Hl. Qed.
Lemma lk_vested_mono a t1 t2 : lk_wf_b a = true -> t1 <= t2 -> lk_vested a t1 <= lk_vested a t2.
Proof. intros H. apply lk_wf_b_spec in H as (_ & _ & Hv). apply lk_read_mono, Hv. Qed.
Lemma lk_unlocked_mono a t1 t2 : lk_wf_b a = true -> t1 <= t2 -> lk_unlocked a t1 <= lk_unlocked a t2.
Proof. intros H. apply lk_wf_b_spec in H as (_ & Hl & _). apply lk_read_mono, Hl. Qed.

(** * the locked amount *)
(** the code's formula, as a closed expression *)
Lemma lk_locked_raw_eq a t :
  lk_locked_raw a t = lk_orig a - Z.min (lk_unlocked_vested a t + (lk_df a + lk_dv a)) (lk_vested a t).
Proof. unfold lk_locked_raw, lk_locked_up_vested. lia. Qed.

Lemma lk_raw_nonneg a t : lk_vested a t <= lk_orig a -> 0 <= lk_locked_raw a t.
Proof. intros H. rewrite lk_locked_raw_eq. lia. Qed.

(** LockedCoins = max(original - unlockedVested - trackedDelegated, unvested)
    whenever vested <= original (always, for a well-formed account); in general
    it is that maximum clamped at 0 *)
Lemma lk_locked_eq_max a t : lk_vested a t <= lk_orig a ->
  lk_locked_coins a t = Z.max (lk_orig a - lk_unlocked_vested a t - (lk_df a + lk_dv a)) (lk_unvested a t).
Proof.
  intros H. unfold lk_locked_coins. pose proof (lk_raw_nonneg a t H). rewrite lk_locked_raw_eq in *.
  unfold lk_unvested. destruct (Z.ltb_spec (lk_orig a - Z.min (lk_unlocked_vested a t + (lk_df a + lk_dv a)) (lk_vested a t)) 0); lia.
Qed.

Lemma lk_locked_eq_max_clamped a t :
  lk_locked_coins a t = Z.max 0 (Z.max (lk_orig a - lk_unlocked_vested a t - (lk_df a + lk_dv a)) (lk_unvested a t)).
Proof.
  unfold lk_locked_coins. rewrite lk_locked_raw_eq. unfold lk_unvested.
  destruct (Z.ltb_spec (lk_orig a - Z.min (lk_unlocked_vested a t + (lk_df a + lk_dv a)) (lk_vested a t)) 0); lia.
Qed.

Lemma lk_locked_eq_max_wf a t : lk_wf_b a = true ->
  lk_locked_coins a t = Z.max (lk_orig a - lk_unlocked_vested a t - (lk_df a + lk_dv a)) (lk_unvested a t).
Proof. intros H. apply lk_locked_eq_max. apply (lk_vested_bounds a t H). Qed.

Lemma lk_locked_ge_unvested a t : lk_wf_b a = true -> lk_unvested a t <= lk_locked_coins a t.
Proof. intros H. rewrite (lk_locked_eq_max_wf a t H). lia. Qed.

Lemma lk_locked_le_orig a t : lk_wf_b a = true -> 0 <= lk_df a + lk_dv a -> 0 <= lk_locked_coins a t <= lk_orig a.
Proof.
  intros H Hd. rewrite (lk_locked_eq_max_wf a t H). pose proof (lk_vested_bounds a t H). pose proof (lk_unlocked_bounds a t H).
  unfold lk_unvested, lk_unlocked_vested. lia.
Qed.

Lemma lk_locked_antitone_in_time a t1 t2 : lk_wf_b a = true -> t1 <= t2 ->
  lk_locked_coins a t2 <= lk_locked_coins a t1.
Proof.
  intros H Ht. rewrite !(lk_locked_eq_max_wf a _ H).
  pose proof (lk_vested_mono a t1 t2 H Ht). pose proof (lk_unlocked_mono a t1 t2 H Ht).
  unfold lk_unvested, lk_unlocked_vested. lia.
Qed.

Lemma lk_unvested_antitone a t1 t2 : lk_wf_b a = true -> t1 <= t2 -> lk_unvested a t2 <= lk_unvested a t1.
Proof. intros H Ht. pose proof (lk_vested_mono a t1 t2 H Ht). unfold lk_unvested. lia. Qed.

(** * state predicates *)
Definition lk_wfs (s : lk_state) : Prop :=
  lk_wf_b (lk_a s) = true /\ 0 <= lk_df (lk_a s) /\ 0 <= lk_dv (lk_a s) /\ 0 <= lk_deleg s /\ 0 <= lk_unb s.
(** unvested coins are all in the bank balance: none of them is delegated *)
Definition lk_safe (s : lk_state) : Prop := lk_unvested (lk_a s) (lk_now s) <= lk_bal s.
(** the balance covers the locked amount *)
Definition lk_inv (s : lk_state) : Prop := lk_locked_coins (lk_a s) (lk_now s) <= lk_bal s.
(** what the account tracks as delegated does not exceed what the staking module holds for it *)
Definition lk_tracked_le_actual (s : lk_state) : Prop :=
  lk_df (lk_a s) + lk_dv (lk_a s) <= (if lk_bond s then lk_deleg s + lk_unb s else 0).

Definition lk_lockf (O U V D : Z) : Z :=
  let r := O - (Z.min U V + Z.min D (V - Z.min U V)) in if r <? 0 then 0 else r.
Lemma lk_locked_coins_f a t :
  lk_locked_coins a t = lk_lockf (lk_orig a) (lk_unlocked a t) (lk_vested a t) (lk_df a + lk_dv a).
Proof. reflexivity. Qed.
Lemma lk_lockf_max O U V D : V <= O -> lk_lockf O U V D = Z.max (O - Z.min U V - D) (O - V).
Proof. intros H. unfold lk_lockf. cbv zeta. destruct (Z.ltb_spec (O - (Z.min U V + Z.min D (V - Z.min U V))) 0); lia. Qed.

Lemma lk_inv_safe s : lk_wfs s -> lk_inv s -> lk_safe s.
Proof. intros (Hw & _) Hi. unfold lk_safe, lk_inv in *. pose proof (lk_locked_ge_unvested _ (lk_now s) Hw). lia. Qed.

Ltac lk_proj := cbn [lk_a lk_bal lk_deleg lk_unb lk_now lk_bond lk_orig lk_lockup lk_vesting lk_start lk_end lk_dv lk_df
                     lk_vested lk_unlocked lk_unvested lk_set_bal fst snd] in *.

(** ** send: the debit rule *)
Lemma lk_send_ok s x s' : lk_send s x = (s', LK_OK) ->
  0 < x /\ lk_locked_coins (lk_a s) (lk_now s) <= lk_bal s /\ x <= lk_bal s - lk_locked_coins (lk_a s) (lk_now s) /\
  s' = lk_set_bal s (lk_bal s - x).
Proof.
  unfold lk_send. destruct (Z.leb_spec x 0); [discriminate|].
  destruct (Z.ltb_spec (lk_bal s) (lk_locked_coins (lk_a s) (lk_now s))); [discriminate|].
  destruct (Z.ltb_spec (lk_bal s - lk_locked_coins (lk_a s) (lk_now s)) x); [discriminate|].
  intros Heq; inversion Heq; subst. repeat split; lia.
Qed.

Lemma lk_send_fails_above_spendable s x :
  lk_bal s - lk_locked_coins (lk_a s) (lk_now s) < x -> lk_send s x = (s, LK_INSUFFICIENT) \/ lk_send s x = (s, LK_INVALID).
Proof.
  intros H. unfold lk_send. destruct (Z.leb_spec x 0); [now right|left].
  destruct (Z.ltb_spec (lk_bal s) (lk_locked_coins (lk_a s) (lk_now s))); [reflexivity|].
  destruct (Z.ltb_spec (lk_bal s - lk_locked_coins (lk_a s) (lk_now s)) x); [reflexivity|lia].
Qed.

Lemma lk_send_succeeds_within_spendable s x :
  0 < x -> lk_locked_coins (lk_a s) (lk_now s) <= lk_bal s -> x <= lk_bal s - lk_locked_coins (lk_a s) (lk_now s) ->
  lk_send s x = (lk_set_bal s (lk_bal s - x), LK_OK).
Proof.
  intros H1 H2 H3. unfold lk_send. destruct (Z.leb_spec x 0); [lia|].
  destruct (Z.ltb_spec (lk_bal s) (lk_locked_coins (lk_a s) (lk_now s))); [lia|].
  destruct (Z.ltb_spec (lk_bal s - lk_locked_coins (lk_a s) (lk_now s)) x); [lia|reflexivity].
Qed.

(** after ANY successful debit the balance covers the locked amount, whatever the state before *)
Lemma lk_send_establishes_inv s x s' : lk_send s x = (s', LK_OK) -> lk_inv s'.
Proof.
  intros H. apply lk_send_ok in H as (_ & _ & H3 & ->). unfold lk_inv. destruct s; lk_proj. lia.
Qed.

(** ** failing operations change nothing *)
Lemma lk_step_fail s o s' r : lk_step s o = (s', r) -> r <> LK_OK -> s' = s.
Proof.
  destruct o; cbn [lk_step].
  - destruct (x <? 0); inversion 1; subst; congruence.
  - unfold lk_send. destruct (x <=? 0); [inversion 1; congruence|].
    destruct (_ <? _); [inversion 1; congruence|]. destruct (_ <? _); inversion 1; subst; congruence.
  - unfold lk_delegate. destruct (negb _); [inversion 1; congruence|]. destruct (x <=? 0); [inversion 1; congruence|].
    destruct (_ <? _); [inversion 1; congruence|]. destruct (_ <? _); inversion 1; subst; congruence.
  - unfold lk_undelegate. destruct (x <=? 0); inversion 1; subst; congruence.
  - unfold lk_complete. destruct (_ || _); inversion 1; subst; congruence.
  - unfold lk_slash. destruct (_ || _); inversion 1; subst; congruence.
  - destruct (dt <? 0); inversion 1; subst; congruence.
  - unfold lk_clawback. destruct (lk_no_periods _); [inversion 1; congruence|].
    destruct (_ <? 0); [inversion 1; congruence|]; destruct (_ =? 0); [inversion 1; congruence|];
      destruct (negb _); [inversion 1; congruence|]; destruct (_ <? _); [inversion 1; congruence|];
      destruct (_ <? _); inversion 1; subst; congruence.
  - unfold lk_add_grant. destruct (g <? 0); [inversion 1; congruence|]. destruct (negb _); inversion 1; subst; congruence.
Qed.

(** ** successful operations, spelled out *)
Lemma lk_delegate_ok s x s' : lk_delegate s x = (s', LK_OK) ->
  lk_bond s = true /\ 0 < x /\ x <= lk_bal s - lk_unvested (lk_a s) (lk_now s) /\ x <= lk_bal s /\
  s' = mklk (mklka (lk_orig (lk_a s)) (lk_lockup (lk_a s)) (lk_vesting (lk_a s)) (lk_start (lk_a s)) (lk_end (lk_a s))
                   (lk_dv (lk_a s)) (lk_df (lk_a s) + x))
            (lk_bal s - x) (lk_deleg s + x) (lk_unb s) (lk_now s) (lk_bond s).
Proof.
  unfold lk_delegate. destruct (lk_bond s); cbn [negb]; [|discriminate].
  destruct (Z.leb_spec x 0); [discriminate|].
  destruct (Z.ltb_spec (Z.max (lk_bal s - lk_unvested (lk_a s) (lk_now s)) 0) x); [discriminate|].
  destruct (Z.ltb_spec (lk_bal s) x); [discriminate|].
  intros Heq; inversion Heq; subst. repeat split; lia.
Qed.

Lemma lk_undelegate_ok s x s' : lk_undelegate s x = (s', LK_OK) ->
  0 < x /\ s' = mklk (lk_a s) (lk_bal s) (Z.max 0 (lk_deleg s - x)) (lk_unb s + x) (lk_now s) (lk_bond s).
Proof.
  unfold lk_undelegate. destruct (Z.leb_spec x 0); [discriminate|].
  intros Heq; inversion Heq; subst. split; [lia|reflexivity].
Qed.

Lemma lk_complete_ok s y s' : lk_complete s y = (s', LK_OK) ->
  0 < y <= lk_unb s /\
  s' = mklk (mklka (lk_orig (lk_a s)) (lk_lockup (lk_a s)) (lk_vesting (lk_a s)) (lk_start (lk_a s)) (lk_end (lk_a s))
                   (lk_dv (lk_a s) - Z.min (lk_dv (lk_a s)) (y - Z.min (lk_df (lk_a s)) y))
                   (lk_df (lk_a s) - Z.min (lk_df (lk_a s)) y))
            (lk_bal s + y) (lk_deleg s) (lk_unb s - y) (lk_now s) (lk_bond s).
Proof.
  unfold lk_complete. destruct (Z.leb_spec y 0); cbn [orb]; [discriminate|].
  destruct (Z.ltb_spec (lk_unb s) y); [discriminate|]. intros Heq; inversion Heq; subst. split; [lia|reflexivity].
Qed.

Lemma lk_slash_ok s d u s' : lk_slash s d u = (s', LK_OK) ->
  lk_bond s = true /\ 0 <= d /\ 0 <= u /\ s' = mklk (lk_a s) (lk_bal s) d u (lk_now s) (lk_bond s).
Proof.
  unfold lk_slash. destruct (lk_bond s); cbn [negb orb]; [|discriminate].
  destruct (Z.ltb_spec d 0); cbn [orb]; [discriminate|]. destruct (Z.ltb_spec u 0); [discriminate|].
  intros Heq; inversion Heq; subst. repeat split; lia.
Qed.

Definition lk_clawed_acct (s : lk_state) (lockup' : list lk_period) (end' : Z) : lk_acct :=
  let a := lk_a s in
  mklka (lk_vested a (lk_now s)) lockup'
        (firstn (lk_past_count (lk_start a) (lk_end a) (lk_vesting a) (lk_now s)) (lk_vesting a))
        (lk_start a) end' (lk_dv a) (lk_df a).

Lemma lk_clawback_ok s l e s' : lk_clawback s l e = (s', LK_OK) ->
  s' = s /\ lk_unvested (lk_a s) (lk_now s) = 0 \/
  (let a' := lk_clawed_acct s l e in
   let u := lk_unvested (lk_a s) (lk_now s) in
   0 < u /\ lk_wf_b a' = true /\ lk_locked_coins a' (lk_now s) <= lk_bal s /\ u <= lk_bal s - lk_locked_coins a' (lk_now s) /\
   s' = mklk a' (lk_bal s - u) (lk_deleg s) (lk_unb s) (lk_now s) (lk_bond s)).
Proof.
  unfold lk_clawback, lk_clawed_acct, lk_unvested. cbv zeta.
  destruct (lk_no_periods (lk_a s)); [discriminate|].
  destruct (Z.ltb_spec (lk_orig (lk_a s) - lk_vested (lk_a s) (lk_now s)) 0); [discriminate|].
  destruct (Z.eqb_spec (lk_orig (lk_a s) - lk_vested (lk_a s) (lk_now s)) 0) as [Hz|Hz].
  { intros Heq; inversion Heq; subst. left. split; [reflexivity|lia]. }
  destruct (lk_wf_b _) eqn:Hwf; cbn [negb]; [|discriminate].
  match goal with |- context [lk_bal s <? ?L] => destruct (Z.ltb_spec (lk_bal s) L); [discriminate|];
    destruct (Z.ltb_spec (lk_bal s - L) (lk_orig (lk_a s) - lk_vested (lk_a s) (lk_now s))); [discriminate|] end.
  intros Heq; inversion Heq; subst. right. repeat split; try assumption; lia.
Qed.

Definition lk_granted_acct (s : lk_state) (g start' end' : Z) (lockup' vesting' : list lk_period) : lk_acct :=
  mklka (lk_orig (lk_a s) + g) lockup' vesting' start' end' 0 (if lk_bond s then lk_deleg s + lk_unb s else 0).

Lemma lk_add_grant_ok s g st e l v s' : lk_add_grant s g st e l v = (s', LK_OK) ->
  let a' := lk_granted_acct s g st e l v in
  0 <= g /\ lk_wf_b a' = true /\
  lk_vested (lk_a s) (lk_now s) <= lk_vested a' (lk_now s) /\
  lk_unlocked (lk_a s) (lk_now s) <= lk_unlocked a' (lk_now s) /\
  s' = mklk a' (lk_bal s + g) (lk_deleg s) (lk_unb s) (lk_now s) (lk_bond s).
Proof.
  unfold lk_add_grant, lk_granted_acct. cbv zeta. destruct (Z.ltb_spec g 0); [discriminate|].
  destruct (lk_wf_b _ && _ && _) eqn:Hc; cbn [negb]; [|discriminate].
  apply andb_true_iff in Hc as [Hc H3]. apply andb_true_iff in Hc as [H1 H2].
  apply Z.leb_le in H2, H3. intros Heq; inversion Heq; subst. repeat split; try assumption.
Qed.

(** * every operation preserves the invariants *)
Ltac lk_open s := destruct s as [[aO aL aV aSt aE aDv aDf] sBal sDg sUb sNow sBd].
Ltac lk_simp :=
  unfold lk_wfs, lk_safe, lk_inv, lk_tracked_le_actual, lk_clawed_acct, lk_granted_acct in *;
  rewrite ?lk_locked_coins_f in *; unfold lk_unvested, lk_vested, lk_unlocked in *; lk_proj.

Lemma lk_wf_b_indep o l v st e dv df dv' df' :
  lk_wf_b (mklka o l v st e dv' df') = lk_wf_b (mklka o l v st e dv df).
Proof. reflexivity. Qed.

Lemma lk_step_wfs s o : lk_wfs s -> lk_wfs (fst (lk_step s o)).
Proof.
  intros Hw. destruct (lk_step s o) as [s' r] eqn:E. cbn [fst].
  destruct (N.eq_dec r LK_OK) as [->|Hr]; [|rewrite (lk_step_fail _ _ _ _ E Hr); exact Hw].
  destruct o; cbn [lk_step] in E.
  - destruct (x <? 0); inversion E; subst. lk_open s. exact Hw.
  - apply lk_send_ok in E as (_ & _ & _ & ->). lk_open s. exact Hw.
  - apply lk_delegate_ok in E as (_ & Hx & _ & _ & ->). lk_open s. lk_simp.
    destruct Hw as (Hwf & ? & ? & ? & ?). rewrite (lk_wf_b_indep _ _ _ _ _ aDv aDf). repeat split; try assumption; lia.
  - apply lk_undelegate_ok in E as (Hx & ->). lk_open s. lk_simp. destruct Hw as (Hwf & ? & ? & ? & ?). repeat split; try assumption; lia.
  - apply lk_complete_ok in E as (Hy & ->). lk_open s. lk_simp. destruct Hw as (Hwf & ? & ? & ? & ?).
    rewrite (lk_wf_b_indep _ _ _ _ _ aDv aDf). repeat split; try assumption; lia.
  - apply lk_slash_ok in E as (_ & ? & ? & ->). lk_open s. lk_simp. destruct Hw as (Hwf & ? & ? & ? & ?). repeat split; assumption.
  - destruct (dt <? 0); inversion E; subst. lk_open s. exact Hw.
  - apply lk_clawback_ok in E as [[-> _]|(_ & Hwf' & _ & _ & ->)]; [exact Hw|].
    destruct Hw as (Hwf & ? & ? & ? & ?). unfold lk_wfs, lk_clawed_acct in *. lk_open s. lk_proj. repeat split; assumption.
  - apply lk_add_grant_ok in E as (_ & Hwf' & _ & _ & ->).
    destruct Hw as (Hwf & ? & ? & ? & ?). unfold lk_wfs, lk_granted_acct in *. lk_open s. lk_proj.
    repeat split; try assumption; try lia. destruct sBd; lia.
Qed.

(** "unvested coins are never delegated": preserved by EVERY operation *)
Lemma lk_step_safe s o : lk_wfs s -> lk_safe s -> lk_safe (fst (lk_step s o)).
Proof.
  intros Hw Hs. destruct (lk_step s o) as [s' r] eqn:E. cbn [fst].
  destruct (N.eq_dec r LK_OK) as [->|Hr]; [|rewrite (lk_step_fail _ _ _ _ E Hr); exact Hs].
  destruct Hw as (Hwf & Hdf & Hdv & Hdg & Hub).
  destruct o; cbn [lk_step] in E.
  - destruct (Z.ltb_spec x 0); inversion E; subst. lk_open s. lk_simp. lia.
  - pose proof (lk_locked_ge_unvested _ (lk_now s) Hwf) as Hl.
    apply lk_send_ok in E as (_ & _ & Hx & ->). lk_open s. unfold lk_safe in *. lk_proj. lia.
  - apply lk_delegate_ok in E as (_ & _ & Hx & _ & ->). lk_open s. lk_simp. lia.
  - apply lk_undelegate_ok in E as (_ & ->). lk_open s. exact Hs.
  - apply lk_complete_ok in E as (Hy & ->). lk_open s. lk_simp. lia.
  - apply lk_slash_ok in E as (_ & _ & _ & ->). lk_open s. exact Hs.
  - destruct (Z.ltb_spec dt 0); inversion E; subst.
    pose proof (lk_unvested_antitone _ (lk_now s) (lk_now s + dt) Hwf ltac:(lia)). lk_open s. unfold lk_safe in *. lk_proj. lia.
  - apply lk_clawback_ok in E as [[-> _]|(_ & Hwf' & Hl & Hu & ->)]; [exact Hs|].
    pose proof (lk_locked_ge_unvested _ (lk_now s) Hwf'). unfold lk_safe. lk_proj. lia.
  - apply lk_add_grant_ok in E as (_ & _ & Hv & _ & ->). lk_open s. lk_simp. lia.
Qed.

(** "the balance covers the locked amount": preserved by every operation except
    a new grant, which preserves it when the tracked delegation does not exceed
    the actual one *)
Definition lk_is_grant (o : lk_op) : bool := match o with LkAddGrant _ _ _ _ _ => true | _ => false end.
Definition lk_is_slash (o : lk_op) : bool := match o with LkSlash _ _ => true | _ => false end.

Lemma lk_step_inv s o : lk_wfs s -> lk_inv s -> (lk_is_grant o = true -> lk_tracked_le_actual s) ->
  lk_inv (fst (lk_step s o)).
Proof.
  intros Hw Hi Ht. destruct (lk_step s o) as [s' r] eqn:E. cbn [fst].
  destruct (N.eq_dec r LK_OK) as [->|Hr]; [|rewrite (lk_step_fail _ _ _ _ E Hr); exact Hi].
  destruct Hw as (Hwf & Hdf & Hdv & Hdg & Hub).
  pose proof (lk_vested_bounds _ (lk_now s) Hwf) as HV. pose proof (lk_unlocked_bounds _ (lk_now s) Hwf) as HU.
  destruct o; cbn [lk_step] in E.
  - destruct (Z.ltb_spec x 0); inversion E; subst. lk_open s. lk_simp. lia.
  - exact (lk_send_establishes_inv _ _ _ E).
  - apply lk_delegate_ok in E as (_ & Hx0 & Hx & _ & ->). lk_open s. lk_simp.
    rewrite lk_lockf_max in * by lia. lia.
  - apply lk_undelegate_ok in E as (_ & ->). lk_open s. exact Hi.
  - apply lk_complete_ok in E as (Hy & ->). lk_open s. lk_simp. rewrite lk_lockf_max in * by lia. lia.
  - apply lk_slash_ok in E as (_ & _ & _ & ->). lk_open s. exact Hi.
  - destruct (Z.ltb_spec dt 0); inversion E; subst.
    pose proof (lk_locked_antitone_in_time _ (lk_now s) (lk_now s + dt) Hwf ltac:(lia)). lk_open s. unfold lk_inv in *. lk_proj. lia.
  - apply lk_clawback_ok in E as [[-> _]|(_ & _ & Hl & Hu & ->)]; [exact Hi|]. unfold lk_inv. lk_proj. lia.
  - specialize (Ht eq_refl).
    apply lk_add_grant_ok in E as (Hg & Hwf' & Hv & Hu & ->).
    pose proof (lk_vested_bounds _ (lk_now s) Hwf') as HV'. pose proof (lk_unlocked_bounds _ (lk_now s) Hwf') as HU'.
    lk_open s. lk_simp. rewrite lk_lockf_max in * by lia. destruct sBd; lia.
Qed.

Lemma lk_step_tracked s o : lk_wfs s -> lk_tracked_le_actual s -> lk_is_slash o = false ->
  lk_tracked_le_actual (fst (lk_step s o)).
Proof.
  intros Hw Ht Ho. destruct (lk_step s o) as [s' r] eqn:E. cbn [fst].
  destruct (N.eq_dec r LK_OK) as [->|Hr]; [|rewrite (lk_step_fail _ _ _ _ E Hr); exact Ht].
  destruct Hw as (Hwf & Hdf & Hdv & Hdg & Hub).
  destruct o; cbn [lk_step] in E; try discriminate Ho.
  - destruct (x <? 0); inversion E; subst. lk_open s. exact Ht.
  - apply lk_send_ok in E as (_ & _ & _ & ->). lk_open s. exact Ht.
  - apply lk_delegate_ok in E as (Hb & _ & _ & _ & ->). lk_open s. lk_simp. subst sBd. lia.
  - apply lk_undelegate_ok in E as (_ & ->). lk_open s. lk_simp. destruct sBd; lia.
  - apply lk_complete_ok in E as (Hy & ->). lk_open s. lk_simp. destruct sBd; lia.
  - destruct (dt <? 0); inversion E; subst. lk_open s. exact Ht.
  - apply lk_clawback_ok in E as [[-> _]|(_ & _ & _ & _ & ->)]; [exact Ht|]. lk_open s. lk_simp. exact Ht.
  - apply lk_add_grant_ok in E as (_ & _ & _ & _ & ->). lk_open s. lk_simp. destruct sBd; lia.
Qed.

(** a new grant re-establishes "tracked = actual" *)
Lemma lk_grant_resets_tracking s g st e l v s' : lk_wfs s -> lk_add_grant s g st e l v = (s', LK_OK) -> lk_tracked_le_actual s'.
Proof.
  intros (_ & _ & _ & ? & ?) E. apply lk_add_grant_ok in E as (_ & _ & _ & _ & ->). lk_open s. lk_simp. destruct sBd; lia.
Qed.

(** * histories *)
Lemma lk_run_cons o ops s : lk_run (o :: ops) s = lk_run ops (fst (lk_step s o)).
Proof. reflexivity. Qed.

Lemma lk_run_wfs ops : forall s, lk_wfs s -> lk_wfs (lk_run ops s).
Proof. induction ops as [|o r IH]; intros s H; [exact H|]. rewrite lk_run_cons. apply IH, lk_step_wfs, H. Qed.

Lemma lk_run_safe ops : forall s, lk_wfs s -> lk_safe s -> lk_safe (lk_run ops s).
Proof.
  induction ops as [|o r IH]; intros s Hw Hs; [exact Hs|]. rewrite lk_run_cons.
  apply IH; [apply lk_step_wfs, Hw|apply lk_step_safe; assumption].
Qed.

(** [dirty]: the staking figures were changed behind the account's back (slash,
    share rounding) since the last grant.  The only histories excluded are those
    that merge a new grant in that situation. *)
Fixpoint lk_no_grant_after_slash (dirty : bool) (ops : list lk_op) : bool :=
  match ops with
  | [] => true
  | o :: r => if lk_is_grant o then negb dirty && lk_no_grant_after_slash false r
              else lk_no_grant_after_slash (dirty || lk_is_slash o) r
  end.

Lemma lk_run_inv_gen ops : forall dirty s, lk_wfs s -> lk_inv s -> (dirty = false -> lk_tracked_le_actual s) ->
  lk_no_grant_after_slash dirty ops = true -> lk_inv (lk_run ops s).
Proof.
  induction ops as [|o r IH]; intros dirty s Hw Hi Ht Hn; [exact Hi|]. rewrite lk_run_cons.
  cbn [lk_no_grant_after_slash] in Hn. destruct (lk_is_grant o) eqn:Hg.
  - apply andb_true_iff in Hn as [Hd Hn]. apply negb_true_iff in Hd. specialize (Ht Hd).
    apply (IH false); [apply lk_step_wfs, Hw|apply lk_step_inv; auto| |exact Hn].
    intros _. destruct o; try discriminate Hg. cbn [lk_step].
    destruct (lk_add_grant s g start' end' lockup' vesting') as [s' rr] eqn:E. cbn [fst].
    destruct (N.eq_dec rr LK_OK) as [->|Hr].
    + exact (lk_grant_resets_tracking _ _ _ _ _ _ _ Hw E).
    + assert (E' : lk_step s (LkAddGrant g start' end' lockup' vesting') = (s', rr)) by exact E.
      rewrite (lk_step_fail _ _ _ _ E' Hr). exact Ht.
  - apply (IH (dirty || lk_is_slash o)); [apply lk_step_wfs, Hw| |  |exact Hn].
    + apply lk_step_inv; auto. rewrite Hg. discriminate.
    + intros Hd. apply orb_false_iff in Hd as [Hd Hs]. apply lk_step_tracked; auto.
Qed.

Lemma lk_run_inv_partial ops s : lk_wfs s -> lk_inv s -> lk_tracked_le_actual s ->
  lk_no_grant_after_slash false ops = true -> lk_inv (lk_run ops s).
Proof. intros Hw Hi Ht Hn. apply (lk_run_inv_gen ops false s); auto. Qed.

(** a freshly funded account satisfies everything *)
Lemma lk_inv_of_funded s : lk_wfs s -> lk_orig (lk_a s) <= lk_bal s -> lk_inv s.
Proof.
  intros (Hwf & ? & ? & _) Hb. unfold lk_inv. pose proof (lk_locked_le_orig _ (lk_now s) Hwf ltac:(lia)). lia.
Qed.

Definition lk_fresh (orig : Z) (lockup vesting : list lk_period) (start endt extra now : Z) (bond : bool) : lk_state :=
  mklk (mklka orig lockup vesting start endt 0 0) (orig + extra) 0 0 now bond.

Lemma lk_fresh_ok orig lockup vesting start endt extra now bond :
  lk_wf_b (mklka orig lockup vesting start endt 0 0) = true -> 0 <= extra ->
  let s := lk_fresh orig lockup vesting start endt extra now bond in
  lk_wfs s /\ lk_inv s /\ lk_safe s /\ lk_tracked_le_actual s.
Proof.
  intros Hwf He s. assert (Hw : lk_wfs s) by (unfold lk_wfs, s, lk_fresh; lk_proj; repeat split; try assumption; lia).
  assert (Hi : lk_inv s) by (apply lk_inv_of_funded; [exact Hw|unfold s, lk_fresh; lk_proj; lia]).
  split; [exact Hw|]. split; [exact Hi|]. split.
  - apply lk_inv_safe; assumption.
  - unfold lk_tracked_le_actual, s, lk_fresh. lk_proj. destruct bond; lia.
Qed.

(** the eth ante pre-check accepts only values the debit rule accepts *)
Lemma lk_eth_precheck_sound s v : lk_eth_value_precheck s v = true -> 0 < v ->
  lk_send s v = (lk_set_bal s (lk_bal s - v), LK_OK).
Proof.
  unfold lk_eth_value_precheck. destruct (Z.eqb_spec (lk_bal s) 0); [discriminate|]. cbv zeta.
  destruct (Z.ltb_spec (lk_bal s) (lk_locked_coins (lk_a s) (lk_now s))); intros Hle Hv; apply Z.leb_le in Hle.
  - lia.
  - apply lk_send_succeeds_within_spendable; lia.
Qed.

(** * the gap: a grant merged after a slash leaves the balance below the locked amount *)
Definition lk_ex_lockup : list lk_period := [(1000, 100)].
Definition lk_ex_vesting : list lk_period := [(10, 100)].
Definition lk_ex_start : lk_state := lk_fresh 100 lk_ex_lockup lk_ex_vesting 0 1000 0 50 true.
Definition lk_underwater_witness : list lk_op :=
  [LkDelegate 100; LkSlash 50 0; LkAddGrant 10 0 1000 [(1000, 110)] [(10, 100); (90, 10)]].

Lemma lk_inv_refuted :
  let s := lk_run lk_underwater_witness lk_ex_start in
  lk_wfs lk_ex_start /\ lk_inv lk_ex_start /\ lk_tracked_le_actual lk_ex_start /\
  snd (lk_step (lk_run [LkDelegate 100; LkSlash 50 0] lk_ex_start) (LkAddGrant 10 0 1000 [(1000, 110)] [(10, 100); (90, 10)])) = LK_OK /\
  lk_bal s = 10 /\ lk_locked_coins (lk_a s) (lk_now s) = 60 /\ lk_unvested (lk_a s) (lk_now s) = 10 /\ ~ lk_inv s.
Proof.
  cbv zeta. destruct (lk_fresh_ok 100 lk_ex_lockup lk_ex_vesting 0 1000 0 50 true eq_refl ltac:(lia)) as (H1 & H2 & _ & H4).
  split; [exact H1|]. split; [exact H2|]. split; [exact H4|].
  repeat split; try (vm_compute; reflexivity). unfold lk_inv. vm_compute. intros H. apply H. reflexivity.
Qed.

(** ... in that state every debit fails, the funder's clawback included, although the unvested coins are in the balance *)
Lemma lk_underwater_blocks_clawback :
  let s := lk_run lk_underwater_witness lk_ex_start in
  snd (lk_clawback s [(1000, 100)] 1000) = LK_INSUFFICIENT /\ lk_unvested (lk_a s) (lk_now s) <= lk_bal s /\
  (forall x, 0 < x -> snd (lk_send s x) = LK_INSUFFICIENT).
Proof.
  cbv zeta. split; [vm_compute; reflexivity|]. split; [vm_compute; discriminate|].
  intros x Hx. unfold lk_send. destruct (Z.leb_spec x 0); [lia|].
  replace (lk_bal (lk_run lk_underwater_witness lk_ex_start)) with 10 by (vm_compute; reflexivity).
  replace (lk_locked_coins _ _) with 60 by (vm_compute; reflexivity). reflexivity.
Qed.

(** * non-vacuity: a two-schedule account mid-way, every operation succeeding once *)
Definition lk_ex2_state : lk_state :=
  lk_fresh 1000 [(100, 400); (100, 600)] [(50, 250); (50, 250); (50, 250); (50, 250)] 0 200 30 120 true.
Definition lk_ex2_history : list lk_op :=
  [LkSend 100; LkSend 400; LkDelegate 200; LkAdvance 40; LkUndelegate 50; LkComplete 50; LkReceive 5;
   LkClawback [(100, 400); (100, 350)] 200; LkSend 300; LkSlash 100 0; LkAdvance 100; LkSend 200].

Example lk_ex2_runs :
  lk_wfs lk_ex2_state /\ lk_inv lk_ex2_state /\ lk_tracked_le_actual lk_ex2_state /\
  lk_vested (lk_a lk_ex2_state) 120 = 500 /\ lk_unlocked (lk_a lk_ex2_state) 120 = 400 /\
  lk_locked_coins (lk_a lk_ex2_state) 120 = 600 /\
  snd (lk_step lk_ex2_state (LkSend 431)) = LK_INSUFFICIENT /\
  snd (lk_step lk_ex2_state (LkDelegate 531)) = LK_UNVESTED /\
  map (fun k => snd (lk_step (lk_run (firstn k lk_ex2_history) lk_ex2_state) (nth k lk_ex2_history (LkReceive 0))))
      (seq 0 12) = [LK_OK; LK_INSUFFICIENT; LK_OK; LK_OK; LK_OK; LK_OK; LK_OK; LK_OK; LK_OK; LK_OK; LK_OK; LK_OK] /\
  lk_no_grant_after_slash false lk_ex2_history = true /\
  lk_inv (lk_run lk_ex2_history lk_ex2_state) /\ lk_bal (lk_run lk_ex2_history lk_ex2_state) = 35.
Proof.
  destruct (lk_fresh_ok 1000 [(100, 400); (100, 600)] [(50, 250); (50, 250); (50, 250); (50, 250)] 0 200 30 120 true eq_refl ltac:(lia))
    as (H1 & H2 & _ & H4).
  split; [exact H1|]. split; [exact H2|]. split; [exact H4|].
  repeat split; try (vm_compute; reflexivity).
  apply lk_run_inv_partial; try assumption. reflexivity.
Qed.

(** * the account kind: conversion to a plain account and back *)
Lemma lk_sched_locked_eq_max a t : lk_sched_locked a t = Z.max (lk_locked_up a t) (lk_unvested a t).
Proof. unfold lk_sched_locked, lk_locked_up, lk_unvested, lk_unlocked_vested. lia. Qed.

Lemma lk_sched_locked_nonneg a t : lk_wf_b a = true -> 0 <= lk_sched_locked a t.
Proof.
  intros H. pose proof (lk_vested_bounds a t H). pose proof (lk_unlocked_bounds a t H).
  unfold lk_sched_locked, lk_unlocked_vested. lia.
Qed.

Lemma lk_sched_locked_antitone a t1 t2 : lk_wf_b a = true -> t1 <= t2 -> lk_sched_locked a t2 <= lk_sched_locked a t1.
Proof.
  intros H Ht. pose proof (lk_vested_mono a t1 t2 H Ht). pose proof (lk_unlocked_mono a t1 t2 H Ht).
  unfold lk_sched_locked, lk_unlocked_vested. lia.
Qed.

(** the bank-facing locked amount never exceeds what the schedule locks *)
Lemma lk_locked_le_sched a t : lk_wf_b a = true -> 0 <= lk_df a + lk_dv a -> 0 <= lk_locked_coins a t <= lk_sched_locked a t.
Proof.
  intros H Hd. rewrite (lk_locked_eq_max_wf a t H). pose proof (lk_vested_bounds a t H). pose proof (lk_unlocked_bounds a t H).
  unfold lk_sched_locked, lk_unvested, lk_unlocked_vested. lia.
Qed.

Lemma lk_convert_guard_schedule a t :
  lk_convert_guard LkGuardSchedule a t = true <-> lk_unvested a t = 0 /\ lk_locked_up a t = 0.
Proof. unfold lk_convert_guard. rewrite andb_true_iff, !Z.eqb_eq. tauto. Qed.

Lemma lk_guard_sched_locked a t : lk_unvested a t = 0 -> lk_locked_up a t = 0 -> lk_sched_locked a t = 0.
Proof. rewrite lk_sched_locked_eq_max. lia. Qed.

(** once the schedule locks nothing it never locks anything again, whatever is delegated *)
Lemma lk_sched_zero_forever a t t' : lk_wf_b a = true -> lk_sched_locked a t = 0 -> t <= t' ->
  lk_sched_locked a t' = 0 /\ lk_unvested a t' = 0 /\ lk_locked_up a t' = 0 /\
  (0 <= lk_df a + lk_dv a -> lk_locked_coins a t' = 0).
Proof.
  intros H H0 Ht. pose proof (lk_sched_locked_antitone a t t' H Ht). pose proof (lk_sched_locked_nonneg a t' H).
  assert (Hz : lk_sched_locked a t' = 0) by lia. split; [exact Hz|].
  pose proof (lk_vested_bounds a t' H). pose proof (lk_unlocked_bounds a t' H).
  rewrite lk_sched_locked_eq_max in Hz. unfold lk_locked_up, lk_unvested in *.
  split; [lia|]. split; [lia|]. intros Hd. pose proof (lk_locked_le_sched a t' H Hd) as Hl.
  rewrite lk_sched_locked_eq_max in Hl. unfold lk_locked_up, lk_unvested in Hl. lia.
Qed.

Definition lkx_wfs (s : lkx_state) : Prop := lk_wfs (lx_s s).
(** a plain account: nothing of the discarded schedule is locked any more *)
Definition lkx_plain_ok (c : lk_state) : Prop := 0 <= lk_bal c /\ lk_sched_locked (lk_a c) (lk_now c) = 0.
Definition lkx_inv (s : lkx_state) : Prop := if lx_vesting s then lk_inv (lx_s s) else lkx_plain_ok (lx_s s).
Definition lkx_safe (s : lkx_state) : Prop := if lx_vesting s then lk_safe (lx_s s) else 0 <= lk_bal (lx_s s).
Definition lkx_tracked (s : lkx_state) : Prop := if lx_vesting s then lk_tracked_le_actual (lx_s s) else True.

Lemma lk_plain_step_fail s o s' r : lk_plain_step s o = (s', r) -> r <> LK_OK -> s' = s.
Proof.
  destruct o; cbn [lk_plain_step].
  - destruct (x <? 0); inversion 1; subst; congruence.
  - destruct (x <=? 0); [inversion 1; congruence|]. destruct (_ <? _); inversion 1; subst; congruence.
  - destruct (negb _); [inversion 1; congruence|]. destruct (x <=? 0); [inversion 1; congruence|].
    destruct (_ <? _); inversion 1; subst; congruence.
  - unfold lk_undelegate. destruct (x <=? 0); inversion 1; subst; congruence.
  - destruct (_ || _); inversion 1; subst; congruence.
  - unfold lk_slash. destruct (_ || _); inversion 1; subst; congruence.
  - destruct (dt <? 0); inversion 1; subst; congruence.
  - inversion 1; congruence.
  - inversion 1; congruence.
Qed.

Lemma lk_into_vesting_ok s g st e l v s' : lk_into_vesting s g st e l v = (s', LK_OK) ->
  let a' := mklka g l v st e 0 (if lk_bond s then lk_deleg s + lk_unb s else 0) in
  0 <= g /\ lk_wf_b a' = true /\ s' = mklk a' (lk_bal s + g) (lk_deleg s) (lk_unb s) (lk_now s) (lk_bond s).
Proof.
  unfold lk_into_vesting. cbv zeta. destruct (Z.ltb_spec g 0); [discriminate|].
  destruct (lk_wf_b _) eqn:Hwf; cbn [negb]; [|discriminate]. intros Heq; inversion Heq; subst. repeat split; assumption.
Qed.

Lemma lk_into_vesting_fail s g st e l v s' r : lk_into_vesting s g st e l v = (s', r) -> r <> LK_OK -> s' = s.
Proof.
  unfold lk_into_vesting. cbv zeta. destruct (g <? 0); [inversion 1; congruence|].
  destruct (negb _); inversion 1; subst; congruence.
Qed.

(** ** MsgConvertIntoVestingAccount{Stake}: the schedule part followed by the direct stakingKeeper.Delegate *)
Lemma lk_stake_ok s x s' : lk_stake s x = (s', LK_OK) ->
  lk_bond s = true /\ 0 < x /\ x <= lk_bal s /\
  s' = mklk (mklka (lk_orig (lk_a s)) (lk_lockup (lk_a s)) (lk_vesting (lk_a s)) (lk_start (lk_a s)) (lk_end (lk_a s))
                   (lk_dv (lk_a s)) (lk_df (lk_a s) + x))
            (lk_bal s - x) (lk_deleg s + x) (lk_unb s) (lk_now s) (lk_bond s).
Proof.
  unfold lk_stake. destruct (lk_bond s); cbn [negb]; [|discriminate].
  destruct (Z.leb_spec x 0); [discriminate|]. destruct (Z.ltb_spec (lk_bal s) x); [discriminate|].
  intros Heq; inversion Heq; subst. repeat split; lia.
Qed.

Lemma lk_stake_fail s x s' r : lk_stake s x = (s', r) -> r <> LK_OK -> s' = s.
Proof.
  unfold lk_stake. destruct (negb _); [inversion 1; congruence|]. destruct (x <=? 0); [inversion 1; congruence|].
  destruct (_ <? _); inversion 1; subst; congruence.
Qed.

(** an amount that Haqq's delegation guard accepts is staked exactly as MsgDelegate would delegate it *)
Lemma lk_stake_as_delegate s x : x <= lk_bal s - lk_unvested (lk_a s) (lk_now s) -> lk_stake s x = lk_delegate s x.
Proof.
  intros H. unfold lk_stake, lk_delegate. destruct (negb (lk_bond s)); [reflexivity|].
  destruct (Z.leb_spec x 0); [reflexivity|].
  destruct (Z.ltb_spec (Z.max (lk_bal s - lk_unvested (lk_a s) (lk_now s)) 0) x); [lia|reflexivity].
Qed.

Lemma lk_stake_wfs s x s' : lk_wfs s -> lk_stake s x = (s', LK_OK) -> lk_wfs s'.
Proof.
  intros Hw E. apply lk_stake_ok in E as (_ & Hx & _ & ->). lk_open s. lk_simp.
  destruct Hw as (Hwf & ? & ? & ? & ?). rewrite (lk_wf_b_indep _ _ _ _ _ aDv aDf). repeat split; try assumption; lia.
Qed.

Lemma lk_stake_tracked s x s' : lk_tracked_le_actual s -> lk_stake s x = (s', LK_OK) -> lk_tracked_le_actual s'.
Proof.
  intros Ht E. apply lk_stake_ok in E as (Hb & _ & _ & ->). lk_open s. lk_simp. subst sBd. lia.
Qed.

Definition lkx_oldv (s : lkx_state) : Z := if lx_vesting s then lk_vested (lk_a (lx_s s)) (lk_now (lx_s s)) else 0.

(** a successful stake message, spelled out: the schedule part is exactly what [LxConvertInto] does *)
Lemma lkx_into_stake_ok m s sg mg g st e l v gst gv s' :
  lkx_into_stake m s sg mg g st e l v gst gv = (s', LK_OK) ->
  exists c1 c2 f',
    lkx_step s (LxConvertInto sg mg g st e l v) = (mklkx c1 true f', LK_OK) /\
    (lx_vesting s = true /\ lk_add_grant (lx_s s) g st e l v = (c1, LK_OK) \/
     lx_vesting s = false /\ lk_into_vesting (lx_s s) g st e l v = (c1, LK_OK)) /\
    lk_now c1 = lk_now (lx_s s) /\
    let x := lk_stake_amount m (lk_a c1) gst gv (lk_now (lx_s s)) in
    lk_stake_admissible m (lkx_oldv s) x (lk_vested (lk_a c1) (lk_now (lx_s s))) = true /\
    lk_stake c1 x = (c2, LK_OK) /\ s' = mklkx c2 true f'.
Proof.
  destruct s as [c vk f]. unfold lkx_into_stake, lkx_step, lkx_oldv. cbn [lkx_step_g lx_s lx_vesting lx_funder]. cbv zeta.
  destruct vk.
  - destruct mg; cbn [negb snd fst]; [|cbn; discriminate].
    destruct (N.eqb_spec sg f) as [->|Hne]; cbn [negb snd fst]; [|cbn; discriminate].
    destruct (lk_add_grant c g st e l v) as [c1 r1] eqn:E1. cbn [fst snd].
    destruct (N.eqb_spec r1 LK_OK) as [->|Hr1]; cbn [negb]; [|inversion 1; congruence].
    destruct (lk_stake_admissible _ _ _ _) eqn:Ha; cbn [negb]; [|discriminate].
    destruct (lk_stake c1 _) as [c2 r2] eqn:E2. cbn [fst snd].
    destruct (N.eqb_spec r2 LK_OK) as [->|Hr2]; [|inversion 1; congruence].
    intros Heq; inversion Heq; subst. exists c1, c2, f.
    pose proof (lk_add_grant_ok _ _ _ _ _ _ _ E1) as (_ & _ & _ & _ & Hc1).
    split; [reflexivity|]. split; [left; split; reflexivity|]. split; [subst c1; reflexivity|].
    split; [exact Ha|]. split; [exact E2|reflexivity].
  - destruct (lk_into_vesting c g st e l v) as [c1 r1] eqn:E1. cbn [fst snd].
    destruct (N.eqb_spec r1 LK_OK) as [->|Hr1]; cbn [negb]; [|inversion 1; congruence].
    destruct (lk_stake_admissible _ _ _ _) eqn:Ha; cbn [negb]; [|discriminate].
    destruct (lk_stake c1 _) as [c2 r2] eqn:E2. cbn [fst snd].
    destruct (N.eqb_spec r2 LK_OK) as [->|Hr2]; [|inversion 1; congruence].
    intros Heq; inversion Heq; subst. exists c1, c2, sg.
    pose proof (lk_into_vesting_ok _ _ _ _ _ _ _ E1) as (_ & _ & Hc1).
    split; [reflexivity|]. split; [right; split; reflexivity|]. split; [subst c1; reflexivity|].
    split; [exact Ha|]. split; [exact E2|reflexivity].
Qed.

Lemma lkx_into_stake_fail m s sg mg g st e l v gst gv s' r :
  lkx_into_stake m s sg mg g st e l v gst gv = (s', r) -> r <> LK_OK -> s' = s.
Proof.
  unfold lkx_into_stake. cbv zeta.
  destruct (negb (snd _ =? LK_OK)%N); [inversion 1; congruence|].
  destruct (negb (lk_stake_admissible _ _ _ _)); [inversion 1; congruence|].
  destruct (lk_stake _ _) as [c2 r2]. cbn [fst snd].
  destruct (N.eqb_spec r2 LK_OK); inversion 1; subst; congruence.
Qed.

(** the heart of it: when no unvested coin was delegated before, the amount the code stakes (the vested part of
    the grant in the message) passes Haqq's delegation guard in the state after the schedule and the deposit were
    applied — although the guard is not on this path *)
Lemma lkx_into_stake_guard s c1 g st e l v x :
  lkx_wfs s -> lkx_safe s ->
  (lx_vesting s = true /\ lk_add_grant (lx_s s) g st e l v = (c1, LK_OK) \/
   lx_vesting s = false /\ lk_into_vesting (lx_s s) g st e l v = (c1, LK_OK)) ->
  lkx_oldv s + x <= lk_vested (lk_a c1) (lk_now (lx_s s)) ->
  x <= lk_bal c1 - lk_unvested (lk_a c1) (lk_now c1).
Proof.
  destruct s as [c vk f]. unfold lkx_wfs, lkx_safe, lkx_oldv. cbn [lx_s lx_vesting].
  intros Hw Hs [[-> E]|[-> E]] Hx.
  - apply lk_add_grant_ok in E as (_ & _ & _ & _ & ->). unfold lk_granted_acct in *. lk_open c.
    unfold lk_safe, lk_unvested in *. lk_proj. lia.
  - apply lk_into_vesting_ok in E as (_ & _ & ->). lk_open c. unfold lk_unvested in *. lk_proj. lia.
Qed.

(** the state after the schedule part of a stake message (a merge, or the conversion of a plain account) *)
Definition lkx_into_part (s : lkx_state) (c1 : lk_state) (g st e : Z) (l v : list lk_period) : Prop :=
  lx_vesting s = true /\ lk_add_grant (lx_s s) g st e l v = (c1, LK_OK) \/
  lx_vesting s = false /\ lk_into_vesting (lx_s s) g st e l v = (c1, LK_OK).

Lemma lkx_into_part_wfs s c1 g st e l v : lkx_wfs s -> lkx_into_part s c1 g st e l v -> lk_wfs c1.
Proof.
  destruct s as [c vk f]. unfold lkx_wfs, lkx_into_part. cbn [lx_s lx_vesting]. intros Hw [[_ E]|[_ E]].
  - exact (eq_ind _ (fun p => lk_wfs (fst p)) (lk_step_wfs c (LkAddGrant g st e l v) Hw) _ E).
  - apply lk_into_vesting_ok in E as (Hg & Hwf & ->). destruct Hw as (_ & _ & _ & Hd & Hu).
    unfold lk_wfs. lk_proj. repeat split; try assumption; try lia. destruct (lk_bond c); lia.
Qed.

Lemma lkx_into_part_safe s c1 g st e l v : lkx_wfs s -> lkx_safe s -> lkx_into_part s c1 g st e l v -> lk_safe c1.
Proof.
  destruct s as [c vk f]. unfold lkx_wfs, lkx_safe, lkx_into_part. cbn [lx_s lx_vesting]. intros Hw Hs [[-> E]|[-> E]].
  - exact (eq_ind _ (fun p => lk_safe (fst p)) (lk_step_safe c (LkAddGrant g st e l v) Hw Hs) _ E).
  - apply lk_into_vesting_ok in E as (Hg & Hwf & ->). pose proof (lk_vested_bounds _ (lk_now c) Hwf) as Hv.
    unfold lk_safe, lk_unvested in *. lk_proj. lia.
Qed.

Lemma lkx_into_part_inv s c1 g st e l v : lkx_wfs s -> lkx_inv s -> lkx_tracked s -> lkx_into_part s c1 g st e l v -> lk_inv c1.
Proof.
  destruct s as [c vk f]. unfold lkx_wfs, lkx_inv, lkx_tracked, lkx_into_part. cbn [lx_s lx_vesting]. intros Hw Hi Ht [[-> E]|[-> E]].
  - exact (eq_ind _ (fun p => lk_inv (fst p)) (lk_step_inv c (LkAddGrant g st e l v) Hw Hi (fun _ => Ht)) _ E).
  - apply lk_into_vesting_ok in E as (Hg & Hwf & ->). destruct Hw as (_ & _ & _ & Hd & Hu). destruct Hi as [Hb _].
    unfold lk_inv. lk_proj.
    match goal with |- lk_locked_coins ?A ?T <= _ => pose proof (lk_locked_le_orig A T Hwf) as Hl end. lk_proj.
    assert (0 <= 0 + (if lk_bond c then lk_deleg c + lk_unb c else 0)) by (destruct (lk_bond c); lia).
    specialize (Hl ltac:(lia)). lia.
Qed.

Lemma lkx_into_part_tracked s c1 g st e l v : lkx_wfs s -> lkx_into_part s c1 g st e l v -> lk_tracked_le_actual c1.
Proof.
  destruct s as [c vk f]. unfold lkx_wfs, lkx_into_part. cbn [lx_s lx_vesting]. intros Hw [[_ E]|[_ E]].
  - exact (lk_grant_resets_tracking _ _ _ _ _ _ _ Hw E).
  - apply lk_into_vesting_ok in E as (_ & _ & ->). unfold lk_tracked_le_actual. lk_proj. destruct (lk_bond c); lia.
Qed.

Lemma lkx_inv_safe s : lkx_wfs s -> lkx_inv s -> lkx_safe s.
Proof.
  unfold lkx_wfs, lkx_inv, lkx_safe. destruct (lx_vesting s); [apply lk_inv_safe|intros _ [H _]; exact H].
Qed.

(** the whole stake message on the single-denomination state: after the schedule part [c1], an ordinary guarded
    delegation of the vested part of this grant *)
Lemma lkx_into_stake_grant_ok s sg mg g st e l v gst gv s' :
  lkx_wfs s -> lkx_safe s ->
  lkx_into_stake LkStakeGrant s sg mg g st e l v gst gv = (s', LK_OK) ->
  exists c1 f', lkx_into_part s c1 g st e l v /\
    s' = mklkx (fst (lk_step c1 (LkDelegate (lk_grant_vested gst gv (lk_now (lx_s s)))))) true f' /\
    snd (lk_step c1 (LkDelegate (lk_grant_vested gst gv (lk_now (lx_s s))))) = LK_OK.
Proof.
  intros Hw Hs E. apply lkx_into_stake_ok in E as (c1 & c2 & f' & _ & Hc & _ & Ha & E2 & ->). cbv zeta in *.
  cbn [lk_stake_amount lk_stake_admissible] in *. apply Z.leb_le in Ha.
  pose proof (lkx_into_stake_guard s c1 g st e l v _ Hw Hs Hc Ha) as Hg.
  exists c1, f'. split; [exact Hc|]. cbn [lk_step]. rewrite <- (lk_stake_as_delegate c1 _ Hg), E2. split; reflexivity.
Qed.

(** ... so the stake message is the composition of two steps of the model: the schedule message without the
    stake option, then an ordinary guarded delegation of the vested part of this grant *)
Lemma lkx_into_stake_decompose s sg mg g st e l v gst gv s' :
  lkx_wfs s -> lkx_safe s ->
  lkx_step s (LxConvertIntoStake sg mg g st e l v gst gv) = (s', LK_OK) ->
  exists s1, lkx_step s (LxConvertInto sg mg g st e l v) = (s1, LK_OK) /\ lx_vesting s1 = true /\
    let x := lk_grant_vested gst gv (lk_now (lx_s s)) in
    0 < x <= lk_bal (lx_s s1) - lk_unvested (lk_a (lx_s s1)) (lk_now (lx_s s1)) /\
    lkx_oldv s + x <= lk_vested (lk_a (lx_s s1)) (lk_now (lx_s s1)) /\
    lkx_step s1 (LxBase (LkDelegate x) 0%N) = (s', LK_OK).
Proof.
  intros Hw Hs E. unfold lkx_step in E. cbn [lkx_step_g] in E.
  apply lkx_into_stake_ok in E as (c1 & c2 & f' & E0 & Hc & Hnow & Ha & E2 & ->). cbv zeta in *.
  cbn [lk_stake_amount lk_stake_admissible] in *. apply Z.leb_le in Ha.
  pose proof (lkx_into_stake_guard s c1 g st e l v _ Hw Hs Hc Ha) as Hg.
  exists (mklkx c1 true f'). split; [exact E0|]. split; [reflexivity|]. cbn [lx_s].
  pose proof (lk_stake_ok _ _ _ E2) as (_ & Hx0 & _ & _).
  split; [lia|]. split; [rewrite Hnow; exact Ha|].
  unfold lkx_step. cbn [lkx_step_g lx_s lx_vesting lx_funder lk_needs_funder andb lk_step].
  rewrite <- (lk_stake_as_delegate c1 _ Hg), E2. reflexivity.
Qed.

Lemma lkx_eta s : mklkx (lx_s s) (lx_vesting s) (lx_funder s) = s.
Proof. destruct s; reflexivity. Qed.

Lemma lkx_step_g_fail gd s o s' r : lkx_step_g gd s o = (s', r) -> r <> LK_OK -> s' = s.
Proof.
  destruct s as [c vk f]. destruct o as [o sg| |sg m g st e l v|sg nw|sg m g st e l v gst gv]; cbn [lkx_step_g lx_s lx_vesting lx_funder].
  - destruct vk.
    + destruct (lk_needs_funder o && negb (sg =? f)%N); [inversion 1; congruence|].
      destruct (lk_step c o) as [c' r'] eqn:E. cbn [fst snd]. inversion 1; subst. intros Hr.
      rewrite (lk_step_fail _ _ _ _ E Hr). reflexivity.
    + destruct (lk_plain_step c o) as [c' r'] eqn:E. cbn [fst snd]. inversion 1; subst. intros Hr.
      rewrite (lk_plain_step_fail _ _ _ _ E Hr). reflexivity.
  - destruct vk; cbn [negb]; [|inversion 1; congruence]. destruct (lk_convert_guard _ _ _); inversion 1; subst; congruence.
  - destruct vk.
    + destruct m; cbn [negb]; [|inversion 1; congruence]. destruct (negb (sg =? f)%N); [inversion 1; congruence|].
      destruct (lk_add_grant c g st e l v) as [c' r'] eqn:E. cbn [fst snd]. inversion 1; subst. intros Hr.
      assert (E' : lk_step c (LkAddGrant g st e l v) = (c', r)) by exact E.
      rewrite (lk_step_fail _ _ _ _ E' Hr). reflexivity.
    + destruct (lk_into_vesting c g st e l v) as [c' r'] eqn:E. cbn [fst snd].
      destruct (N.eqb_spec r' LK_OK); inversion 1; subst; congruence.
  - destruct vk; cbn [negb]; [|inversion 1; congruence]. destruct (negb (sg =? f)%N); [inversion 1; congruence|]. destruct (sg =? nw)%N; inversion 1; subst; congruence.
  - intros E Hr. exact (lkx_into_stake_fail _ _ _ _ _ _ _ _ _ _ _ _ _ E Hr).
Qed.

(** a successful MsgConvertVestingAccount: the account was a vesting account whose SCHEDULE has nothing
    unvested and nothing locked up at that block time; only the kind changes *)
Lemma lkx_convert_ok s s' : lkx_step s LxConvert = (s', LK_OK) ->
  lx_vesting s = true /\ lk_unvested (lk_a (lx_s s)) (lk_now (lx_s s)) = 0 /\ lk_locked_up (lk_a (lx_s s)) (lk_now (lx_s s)) = 0 /\
  lk_sched_locked (lk_a (lx_s s)) (lk_now (lx_s s)) = 0 /\ s' = mklkx (lx_s s) false (lx_funder s).
Proof.
  unfold lkx_step. cbn [lkx_step_g]. destruct (lx_vesting s); cbn [negb]; [|discriminate].
  destruct (lk_convert_guard _ _ _) eqn:G; [|discriminate]. apply lk_convert_guard_schedule in G as [G1 G2].
  intros Heq; inversion Heq; subst. repeat split; try assumption. apply lk_guard_sched_locked; assumption.
Qed.

Lemma lk_plain_step_wfs s o : lk_wfs s -> lk_wfs (fst (lk_plain_step s o)).
Proof.
  intros Hw. destruct (lk_plain_step s o) as [s' r] eqn:E. cbn [fst].
  destruct (N.eq_dec r LK_OK) as [->|Hr]; [|rewrite (lk_plain_step_fail _ _ _ _ E Hr); exact Hw].
  destruct o; cbn [lk_plain_step] in E; try discriminate E.
  - exact (eq_ind _ (fun p => lk_wfs (fst p)) (lk_step_wfs s (LkReceive x) Hw) _ E).
  - destruct (x <=? 0); [discriminate|]. destruct (_ <? _); inversion E; subst. lk_open s. exact Hw.
  - destruct (negb _); [discriminate|]. destruct (Z.leb_spec x 0); [discriminate|]. destruct (_ <? _); inversion E; subst.
    lk_open s. lk_simp. destruct Hw as (? & ? & ? & ? & ?). repeat split; try assumption; lia.
  - exact (eq_ind _ (fun p => lk_wfs (fst p)) (lk_step_wfs s (LkUndelegate x) Hw) _ E).
  - destruct (Z.leb_spec y 0); cbn [orb] in E; [discriminate|]. destruct (Z.ltb_spec (lk_unb s) y); inversion E; subst.
    lk_open s. lk_simp. destruct Hw as (? & ? & ? & ? & ?). repeat split; try assumption; lia.
  - exact (eq_ind _ (fun p => lk_wfs (fst p)) (lk_step_wfs s (LkSlash d' u') Hw) _ E).
  - exact (eq_ind _ (fun p => lk_wfs (fst p)) (lk_step_wfs s (LkAdvance dt) Hw) _ E).
Qed.

Lemma lkx_step_wfs s o : lkx_wfs s -> lkx_wfs (fst (lkx_step s o)).
Proof.
  intros Hw. destruct (lkx_step s o) as [s' r] eqn:E. cbn [fst].
  destruct (N.eq_dec r LK_OK) as [->|Hr]; [|rewrite (lkx_step_g_fail _ _ _ _ _ E Hr); exact Hw].
  unfold lkx_wfs in *. destruct s as [c vk f]. cbn [lx_s] in Hw. unfold lkx_step in E.
  destruct o as [o sg| |sg m g st e l v|sg nw|sg m g st e l v gst gv]; cbn [lkx_step_g lx_s lx_vesting lx_funder] in E.
  - destruct vk.
    + destruct (lk_needs_funder o && negb (sg =? f)%N); [discriminate|]. inversion E; subst. cbn [lx_s]. apply lk_step_wfs, Hw.
    + inversion E; subst. cbn [lx_s]. apply lk_plain_step_wfs, Hw.
  - destruct vk; cbn [negb] in E; [|discriminate]. destruct (lk_convert_guard _ _ _); inversion E; subst. exact Hw.
  - destruct vk.
    + destruct m; cbn [negb] in E; [|discriminate]. destruct (negb (sg =? f)%N); [discriminate|]. inversion E; subst. cbn [lx_s].
      exact (lk_step_wfs c (LkAddGrant g st e l v) Hw).
    + destruct (lk_into_vesting c g st e l v) as [c' r'] eqn:E'. cbn [fst snd] in E.
      destruct (N.eqb_spec r' LK_OK); [|inversion E; congruence]. subst r'. inversion E; subst. cbn [lx_s].
      apply lk_into_vesting_ok in E' as (Hg & Hwf & ->). destruct Hw as (_ & _ & _ & Hd & Hu).
      unfold lk_wfs. lk_proj. repeat split; try assumption; try lia. destruct (lk_bond c); lia.
  - destruct vk; cbn [negb] in E; [|discriminate]. destruct (negb (sg =? f)%N); [discriminate|]. destruct (sg =? nw)%N; inversion E; subst. exact Hw.
  - apply lkx_into_stake_ok in E as (c1 & c2 & f' & _ & Hc & _ & _ & E2 & ->). cbn [lx_s].
    exact (lk_stake_wfs c1 _ c2 (lkx_into_part_wfs (mklkx c vk f) c1 g st e l v Hw Hc) E2).
Qed.

Lemma lk_plain_step_ok_inv s o : lk_wfs s -> lkx_plain_ok s -> lkx_plain_ok (fst (lk_plain_step s o)).
Proof.
  intros Hw [Hb Hz]. destruct (lk_plain_step s o) as [s' r] eqn:E. cbn [fst].
  destruct (N.eq_dec r LK_OK) as [->|Hr]; [|rewrite (lk_plain_step_fail _ _ _ _ E Hr); split; assumption].
  unfold lkx_plain_ok. destruct o; cbn [lk_plain_step] in E; try discriminate E.
  - destruct (Z.ltb_spec x 0); inversion E; subst. lk_open s. lk_proj. split; [lia|exact Hz].
  - destruct (x <=? 0); [discriminate|]. destruct (Z.ltb_spec (lk_bal s) x); inversion E; subst. lk_open s. lk_proj. split; [lia|exact Hz].
  - destruct (negb _); [discriminate|]. destruct (x <=? 0); [discriminate|]. destruct (Z.ltb_spec (lk_bal s) x); inversion E; subst.
    lk_open s. lk_proj. split; [lia|exact Hz].
  - apply lk_undelegate_ok in E as (_ & ->). lk_open s. lk_proj. split; assumption.
  - destruct (Z.leb_spec y 0); cbn [orb] in E; [discriminate|]. destruct (_ <? _); inversion E; subst. lk_open s. lk_proj. split; [lia|exact Hz].
  - apply lk_slash_ok in E as (_ & _ & _ & ->). lk_open s. lk_proj. split; assumption.
  - destruct (Z.ltb_spec dt 0); inversion E; subst. destruct Hw as (Hwf & _).
    destruct (lk_sched_zero_forever _ _ (lk_now s + dt) Hwf Hz ltac:(lia)) as (Hz' & _). lk_open s. lk_proj. split; assumption.
Qed.

(** "balance >= locked" across the account-type operations: a vesting account keeps [lk_inv], a
    converted account keeps "the discarded schedule locks nothing" *)
Definition lkx_is_grant (o : lkx_op) : bool :=
  match o with LxBase o _ => lk_is_grant o | LxConvertInto _ _ _ _ _ _ _ => true | LxConvertIntoStake _ _ _ _ _ _ _ _ _ => true
  | _ => false end.
Definition lkx_is_slash (o : lkx_op) : bool := match o with LxBase o _ => lk_is_slash o | _ => false end.

Lemma lkx_step_inv s o : lkx_wfs s -> lkx_inv s -> (lkx_is_grant o = true -> lkx_tracked s) -> lkx_inv (fst (lkx_step s o)).
Proof.
  intros Hw Hi Ht. destruct (lkx_step s o) as [s' r] eqn:E. cbn [fst].
  destruct (N.eq_dec r LK_OK) as [->|Hr]; [|rewrite (lkx_step_g_fail _ _ _ _ _ E Hr); exact Hi].
  destruct o as [o sg| |sg m g st e l v|sg nw|sg m g st e l v gst gv].
  - destruct s as [c vk f]. unfold lkx_wfs, lkx_inv, lkx_tracked, lkx_step in *. cbn [lkx_step_g lx_s lx_vesting lx_funder lkx_is_grant] in *.
    destruct vk.
    + destruct (lk_needs_funder o && negb (sg =? f)%N); [discriminate|]. inversion E; subst. cbn [lx_s lx_vesting].
      apply lk_step_inv; assumption.
    + inversion E; subst. cbn [lx_s lx_vesting]. apply lk_plain_step_ok_inv; assumption.
  - apply lkx_convert_ok in E as (Hv & Hu & Hl & Hz & ->). unfold lkx_wfs, lkx_inv in *. rewrite Hv in Hi. cbn [lx_s lx_vesting].
    destruct Hw as (Hwf & Hdf & Hdv & _). pose proof (lk_locked_le_sched _ (lk_now (lx_s s)) Hwf ltac:(lia)). unfold lk_inv in Hi.
    split; [lia|exact Hz].
  - destruct s as [c vk f]. unfold lkx_wfs, lkx_inv, lkx_tracked, lkx_step in *. cbn [lkx_step_g lx_s lx_vesting lx_funder lkx_is_grant] in *.
    destruct vk.
    + destruct m; cbn [negb] in E; [|discriminate]. destruct (negb (sg =? f)%N); [discriminate|]. inversion E; subst. cbn [lx_s lx_vesting].
      exact (lk_step_inv c (LkAddGrant g st e l v) Hw Hi Ht).
    + destruct (lk_into_vesting c g st e l v) as [c' r'] eqn:E'. cbn [fst snd] in E.
      destruct (N.eqb_spec r' LK_OK); [|inversion E; congruence]. subst r'. inversion E; subst. cbn [lx_s lx_vesting].
      apply lk_into_vesting_ok in E' as (Hg & Hwf & ->). destruct Hw as (_ & _ & _ & Hd & Hu). destruct Hi as [Hb _].
      unfold lk_inv. lk_proj.
      match goal with |- lk_locked_coins ?A ?T <= _ => pose proof (lk_locked_le_orig A T Hwf) as Hl end. lk_proj.
      assert (0 <= 0 + (if lk_bond c then lk_deleg c + lk_unb c else 0)) by (destruct (lk_bond c); lia).
      specialize (Hl ltac:(lia)). lia.
  - destruct s as [c vk f]. unfold lkx_inv, lkx_step in *. cbn [lkx_step_g lx_s lx_vesting lx_funder] in *.
    destruct vk; cbn [negb] in E; [|discriminate]. destruct (negb (sg =? f)%N); [discriminate|]. destruct (sg =? nw)%N; inversion E; subst. exact Hi.
  - specialize (Ht eq_refl). unfold lkx_step in E. cbn [lkx_step_g] in E.
    destruct (lkx_into_stake_grant_ok _ _ _ _ _ _ _ _ _ _ _ Hw (lkx_inv_safe s Hw Hi) E) as (c1 & f' & Hc & -> & _).
    unfold lkx_inv. cbn [lx_s lx_vesting].
    apply lk_step_inv; [exact (lkx_into_part_wfs s c1 g st e l v Hw Hc)|exact (lkx_into_part_inv s c1 g st e l v Hw Hi Ht Hc)|discriminate].
Qed.

(** "unvested coins are never delegated" across the account-type operations *)
Lemma lkx_step_safe s o : lkx_wfs s -> lkx_safe s -> lkx_safe (fst (lkx_step s o)).
Proof.
  intros Hw Hs. destruct (lkx_step s o) as [s' r] eqn:E. cbn [fst].
  destruct (N.eq_dec r LK_OK) as [->|Hr]; [|rewrite (lkx_step_g_fail _ _ _ _ _ E Hr); exact Hs].
  destruct s as [c vk f]. unfold lkx_wfs, lkx_safe, lkx_step in *.
  destruct o as [o sg| |sg m g st e l v|sg nw|sg m g st e l v gst gv]; cbn [lkx_step_g lx_s lx_vesting lx_funder] in *.
  - destruct vk.
    + destruct (lk_needs_funder o && negb (sg =? f)%N); [discriminate|]. inversion E; subst. cbn [lx_s lx_vesting].
      apply lk_step_safe; assumption.
    + inversion E; subst. cbn [lx_s lx_vesting].
      destruct (lk_plain_step c o) as [c' r'] eqn:E'. cbn [fst snd] in *. subst r'.
      destruct o; cbn [lk_plain_step] in E'; try discriminate E'.
      * destruct (Z.ltb_spec x 0); inversion E'; subst. lk_open c. lk_proj. lia.
      * destruct (x <=? 0); [discriminate|]. destruct (Z.ltb_spec (lk_bal c) x); inversion E'; subst. lk_open c. lk_proj. lia.
      * destruct (negb _); [discriminate|]. destruct (x <=? 0); [discriminate|]. destruct (Z.ltb_spec (lk_bal c) x); inversion E'; subst.
        lk_open c. lk_proj. lia.
      * apply lk_undelegate_ok in E' as (_ & ->). lk_open c. lk_proj. exact Hs.
      * destruct (Z.leb_spec y 0); cbn [orb] in E'; [discriminate|]. destruct (_ <? _); inversion E'; subst. lk_open c. lk_proj. lia.
      * apply lk_slash_ok in E' as (_ & _ & _ & ->). lk_open c. lk_proj. exact Hs.
      * destruct (dt <? 0); inversion E'; subst. lk_open c. lk_proj. exact Hs.
  - destruct vk; cbn [negb] in E; [|discriminate]. destruct (lk_convert_guard _ _ _); inversion E; subst. cbn [lx_s lx_vesting].
    destruct Hw as (Hwf & _). pose proof (lk_vested_bounds _ (lk_now c) Hwf). unfold lk_safe, lk_unvested in Hs. lia.
  - destruct vk.
    + destruct m; cbn [negb] in E; [|discriminate]. destruct (negb (sg =? f)%N); [discriminate|]. inversion E; subst. cbn [lx_s lx_vesting].
      exact (lk_step_safe c (LkAddGrant g st e l v) Hw Hs).
    + destruct (lk_into_vesting c g st e l v) as [c' r'] eqn:E'. cbn [fst snd] in E.
      destruct (N.eqb_spec r' LK_OK); [|inversion E; congruence]. subst r'. inversion E; subst. cbn [lx_s lx_vesting].
      apply lk_into_vesting_ok in E' as (Hg & Hwf & ->). pose proof (lk_vested_bounds _ (lk_now c) Hwf) as Hv.
      unfold lk_safe, lk_unvested in *. lk_proj. lia.
  - destruct vk; cbn [negb] in E; [|discriminate]. destruct (negb (sg =? f)%N); [discriminate|]. destruct (sg =? nw)%N; inversion E; subst. exact Hs.
  - destruct (lkx_into_stake_grant_ok (mklkx c vk f) _ _ _ _ _ _ _ _ _ _ Hw Hs E) as (c1 & f' & Hc & -> & _).
    cbn [lx_s lx_vesting].
    apply lk_step_safe; [exact (lkx_into_part_wfs (mklkx c vk f) c1 g st e l v Hw Hc)|exact (lkx_into_part_safe (mklkx c vk f) c1 g st e l v Hw Hs Hc)].
Qed.

Lemma lkx_step_tracked s o : lkx_wfs s -> lkx_tracked s -> lkx_is_slash o = false -> lkx_tracked (fst (lkx_step s o)).
Proof.
  intros Hw Ht Ho. destruct (lkx_step s o) as [s' r] eqn:E. cbn [fst].
  destruct (N.eq_dec r LK_OK) as [->|Hr]; [|rewrite (lkx_step_g_fail _ _ _ _ _ E Hr); exact Ht].
  destruct s as [c vk f]. unfold lkx_wfs, lkx_tracked, lkx_step in *.
  destruct o as [o sg| |sg m g st e l v|sg nw|sg m g st e l v gst gv]; cbn [lkx_step_g lx_s lx_vesting lx_funder lkx_is_slash] in *.
  - destruct vk.
    + destruct (lk_needs_funder o && negb (sg =? f)%N); [discriminate|]. inversion E; subst. cbn [lx_s lx_vesting].
      apply lk_step_tracked; assumption.
    + inversion E; subst. exact I.
  - destruct vk; cbn [negb] in E; [|discriminate]. destruct (lk_convert_guard _ _ _); inversion E; subst. exact I.
  - destruct vk.
    + destruct m; cbn [negb] in E; [|discriminate]. destruct (negb (sg =? f)%N); [discriminate|]. inversion E; subst. cbn [lx_s lx_vesting].
      exact (lk_step_tracked c (LkAddGrant g st e l v) Hw Ht eq_refl).
    + destruct (lk_into_vesting c g st e l v) as [c' r'] eqn:E'. cbn [fst snd] in E.
      destruct (N.eqb_spec r' LK_OK); [|inversion E; congruence]. subst r'. inversion E; subst. cbn [lx_s lx_vesting].
      apply lk_into_vesting_ok in E' as (_ & _ & ->). unfold lk_tracked_le_actual. lk_proj. destruct (lk_bond c); lia.
  - destruct vk; cbn [negb] in E; [|discriminate]. destruct (negb (sg =? f)%N); [discriminate|]. destruct (sg =? nw)%N; inversion E; subst. exact Ht.
  - apply lkx_into_stake_ok in E as (c1 & c2 & f' & _ & Hc & _ & _ & E2 & ->). cbn [lx_s lx_vesting].
    exact (lk_stake_tracked c1 _ c2 (lkx_into_part_tracked (mklkx c vk f) c1 g st e l v Hw Hc) E2).
Qed.

(** a merge / a conversion into a vesting account re-establishes "tracked = actual" *)
Lemma lkx_grant_resets_tracking s o : lkx_wfs s -> lkx_is_grant o = true -> snd (lkx_step s o) = LK_OK -> lkx_tracked (fst (lkx_step s o)).
Proof.
  intros Hw Hg. destruct (lkx_step s o) as [s' r] eqn:E. cbn [fst snd]. intros ->.
  destruct s as [c vk f]. unfold lkx_wfs, lkx_tracked, lkx_step in *.
  destruct o as [o sg| |sg m g st e l v|sg nw|sg m g st e l v gst gv]; cbn [lkx_step_g lx_s lx_vesting lx_funder lkx_is_grant] in *; try discriminate Hg.
  - destruct vk.
    + destruct (lk_needs_funder o && negb (sg =? f)%N); [discriminate|]. inversion E; subst. cbn [lx_s lx_vesting].
      destruct o; try discriminate Hg. cbn [lk_step] in *.
      destruct (lk_add_grant c g start' end' lockup' vesting') as [c' r'] eqn:E'. cbn [fst snd] in *. subst r'.
      exact (lk_grant_resets_tracking _ _ _ _ _ _ _ Hw E').
    + inversion E; subst. exact I.
  - destruct vk.
    + destruct m; cbn [negb] in E; [|discriminate]. destruct (negb (sg =? f)%N); [discriminate|]. inversion E; subst. cbn [lx_s lx_vesting].
      destruct (lk_add_grant c g st e l v) as [c' r'] eqn:E'. cbn [fst snd] in *. subst r'.
      exact (lk_grant_resets_tracking _ _ _ _ _ _ _ Hw E').
    + destruct (lk_into_vesting c g st e l v) as [c' r'] eqn:E'. cbn [fst snd] in E.
      destruct (N.eqb_spec r' LK_OK); [|inversion E; congruence]. subst r'. inversion E; subst. cbn [lx_s lx_vesting].
      apply lk_into_vesting_ok in E' as (_ & _ & ->). unfold lk_tracked_le_actual. lk_proj. destruct (lk_bond c); lia.
  - apply lkx_into_stake_ok in E as (c1 & c2 & f' & _ & Hc & _ & _ & E2 & ->). cbn [lx_s lx_vesting].
    exact (lk_stake_tracked c1 _ c2 (lkx_into_part_tracked (mklkx c vk f) c1 g st e l v Hw Hc) E2).
Qed.

Lemma lkx_run_cons o ops s : lkx_run (o :: ops) s = lkx_run ops (fst (lkx_step s o)).
Proof. reflexivity. Qed.

Lemma lkx_run_wfs ops : forall s, lkx_wfs s -> lkx_wfs (lkx_run ops s).
Proof. induction ops as [|o r IH]; intros s H; [exact H|]. rewrite lkx_run_cons. apply IH, lkx_step_wfs, H. Qed.

Lemma lkx_run_safe ops : forall s, lkx_wfs s -> lkx_safe s -> lkx_safe (lkx_run ops s).
Proof.
  induction ops as [|o r IH]; intros s Hw Hs; [exact Hs|]. rewrite lkx_run_cons.
  apply IH; [apply lkx_step_wfs, Hw|apply lkx_step_safe; assumption].
Qed.

Fixpoint lkx_no_grant_after_slash (dirty : bool) (ops : list lkx_op) : bool :=
  match ops with
  | [] => true
  | o :: r => if lkx_is_grant o then negb dirty && lkx_no_grant_after_slash false r
              else lkx_no_grant_after_slash (dirty || lkx_is_slash o) r
  end.

Lemma lkx_run_inv_gen ops : forall dirty s, lkx_wfs s -> lkx_inv s -> (dirty = false -> lkx_tracked s) ->
  lkx_no_grant_after_slash dirty ops = true -> lkx_inv (lkx_run ops s).
Proof.
  induction ops as [|o r IH]; intros dirty s Hw Hi Ht Hn; [exact Hi|]. rewrite lkx_run_cons.
  cbn [lkx_no_grant_after_slash] in Hn. destruct (lkx_is_grant o) eqn:Hg.
  - apply andb_true_iff in Hn as [Hd Hn]. apply negb_true_iff in Hd. specialize (Ht Hd).
    apply (IH false); [apply lkx_step_wfs, Hw|apply lkx_step_inv; auto| |exact Hn].
    intros _. destruct (N.eq_dec (snd (lkx_step s o)) LK_OK) as [Hok|Hr].
    + apply lkx_grant_resets_tracking; assumption.
    + destruct (lkx_step s o) as [s' rr] eqn:E. cbn [fst snd] in *. rewrite (lkx_step_g_fail _ _ _ _ _ E Hr). exact Ht.
  - apply (IH (dirty || lkx_is_slash o)); [apply lkx_step_wfs, Hw| |  |exact Hn].
    + apply lkx_step_inv; auto. rewrite Hg. discriminate.
    + intros Hd. apply orb_false_iff in Hd as [Hd Hs]. apply lkx_step_tracked; auto.
Qed.

Lemma lkx_run_inv_partial ops s : lkx_wfs s -> lkx_inv s -> lkx_tracked s ->
  lkx_no_grant_after_slash false ops = true -> lkx_inv (lkx_run ops s).
Proof. intros Hw Hi Ht Hn. apply (lkx_run_inv_gen ops false s); auto. Qed.

(** what [lkx_inv] says about a converted account, spelled out: at the current and at every later block
    time the schedule the conversion discarded locks nothing, has nothing unvested and nothing locked up, the
    bank-facing locked amount of that record is 0 whatever delegation it tracks, and the balance is not negative:
    "balance >= locked" holds for the converted account as if it had not been converted *)
Lemma lkx_inv_plain_forever s t : lkx_wfs s -> lkx_inv s -> lx_vesting s = false -> lk_now (lx_s s) <= t ->
  let a := lk_a (lx_s s) in
  lk_sched_locked a t = 0 /\ lk_unvested a t = 0 /\ lk_locked_up a t = 0 /\ lk_locked_coins a t = 0 /\
  lk_locked_coins a t <= lk_bal (lx_s s).
Proof.
  intros Hw Hi Hv Ht. unfold lkx_inv in Hi. rewrite Hv in Hi. destruct Hi as [Hb Hz]. destruct Hw as (Hwf & Hdf & Hdv & _).
  destruct (lk_sched_zero_forever _ _ t Hwf Hz Ht) as (H1 & H2 & H3 & H4). specialize (H4 ltac:(lia)).
  cbv zeta. repeat split; try assumption. lia.
Qed.

(** every successful conversion inside ANY history happens at a state whose schedule locks nothing *)
Lemma lkx_convert_in_history pre s s' : lkx_wfs s -> lkx_step (lkx_run pre s) LxConvert = (s', LK_OK) ->
  let c := lx_s (lkx_run pre s) in
  lk_unvested (lk_a c) (lk_now c) = 0 /\ lk_locked_up (lk_a c) (lk_now c) = 0 /\
  (forall t, lk_now c <= t -> lk_sched_locked (lk_a c) t = 0 /\ lk_locked_coins (lk_a c) t = 0).
Proof.
  intros Hw E. pose proof (lkx_run_wfs pre s Hw) as (Hwf & Hdf & Hdv & _).
  apply lkx_convert_ok in E as (_ & Hu & Hl & Hz & _). cbv zeta. split; [exact Hu|]. split; [exact Hl|].
  intros t Ht. destruct (lk_sched_zero_forever _ _ t Hwf Hz Ht) as (H1 & _ & _ & H4). split; [exact H1|]. apply H4. lia.
Qed.

Definition lkx_fresh (orig : Z) (lockup vesting : list lk_period) (start endt extra now : Z) (bond : bool) : lkx_state :=
  mklkx (lk_fresh orig lockup vesting start endt extra now bond) true 0%N.

Lemma lkx_fresh_ok orig lockup vesting start endt extra now bond :
  lk_wf_b (mklka orig lockup vesting start endt 0 0) = true -> 0 <= extra ->
  let s := lkx_fresh orig lockup vesting start endt extra now bond in
  lkx_wfs s /\ lkx_inv s /\ lkx_safe s /\ lkx_tracked s.
Proof. intros Hwf He. exact (lk_fresh_ok orig lockup vesting start endt extra now bond Hwf He). Qed.

(** * the refutation: the conversion guard computed from the bank-facing locked amount.
    1000 coins, vested after 1000 s, locked up for 100 days; at t = 2000 the whole grant is delegated
    (allowed: vested), LockedCoins = 1000 - min(1000, 1000) = 0, the conversion goes through, and after
    undelegation + unbonding the coins leave a plain account 8 638 000 s before the lock-up ends. *)
Definition lkx_ex_start : lkx_state := lkx_fresh 1000 [(8640000, 1000)] [(1000, 1000)] 0 8640000 0 2000 true.
Definition lkx_escape_witness : list lkx_op :=
  [LxBase (LkDelegate 1000) 0%N; LxConvert; LxBase (LkUndelegate 1000) 0%N; LxBase (LkAdvance 400) 0%N;
   LxBase (LkComplete 1000) 0%N; LxBase (LkSend 1000) 0%N].

Definition lkx_results (gd : lk_guard) (ops : list lkx_op) (s : lkx_state) : list N :=
  map (fun k => snd (lkx_step_g gd (lkx_run_g gd (firstn k ops) s) (nth k ops LxConvert))) (seq 0 (length ops)).

Example lkx_bank_guard_refuted :
  let s := lkx_run_g LkGuardBank lkx_escape_witness lkx_ex_start in
  lkx_wfs lkx_ex_start /\ lkx_inv lkx_ex_start /\ lkx_tracked lkx_ex_start /\
  lkx_no_grant_after_slash false lkx_escape_witness = true /\
  lkx_results LkGuardBank lkx_escape_witness lkx_ex_start = [LK_OK; LK_OK; LK_OK; LK_OK; LK_OK; LK_OK] /\
  lx_vesting s = false /\ lk_bal (lx_s s) = 0 /\ lk_now (lx_s s) = 2400 /\
  lk_locked_up (lk_a (lx_s s)) 2400 = 1000 /\ lk_sched_locked (lk_a (lx_s s)) 2400 = 1000 /\ ~ lkx_inv s /\
  (* the code's guard refuses the conversion and the last debit *)
  lkx_results LkGuardSchedule lkx_escape_witness lkx_ex_start = [LK_OK; LK_LOCKED; LK_OK; LK_OK; LK_OK; LK_INSUFFICIENT] /\
  lk_bal (lx_s (lkx_run lkx_escape_witness lkx_ex_start)) = 1000 /\ lkx_inv (lkx_run lkx_escape_witness lkx_ex_start).
Proof.
  cbv zeta. destruct (lkx_fresh_ok 1000 [(8640000, 1000)] [(1000, 1000)] 0 8640000 0 2000 true eq_refl ltac:(lia)) as (H1 & H2 & _ & H4).
  split; [exact H1|]. split; [exact H2|]. split; [exact H4|].
  repeat split; try (vm_compute; reflexivity).
  - unfold lkx_inv, lkx_plain_ok. vm_compute. intros [_ H]. discriminate H.
  - apply lkx_run_inv_partial; try assumption. reflexivity.
Qed.

(** non-vacuity: the same account; a conversion attempt inside the lock-up fails, after the lock-up end it
    succeeds with the stake still bonded, the plain account spends everything it has, is converted into a
    vesting account again (DelegatedFree := the 1000 still staked), the funder is changed, the old funder's
    clawback is refused, the new funder's goes through *)
Definition lkx_ex2_history : list lkx_op :=
  [LxBase (LkDelegate 600) 0%N; LxConvert; LxBase (LkAdvance 8638000) 0%N; LxConvert; LxBase (LkSend 400) 0%N;
   LxBase (LkClawback [] 0) 0%N;
   LxConvertInto 1%N false 500 8640000 8640200 [(200, 500)] [(100, 250); (100, 250)];
   LxBase (LkSend 1) 1%N; LxConvert; LxBase (LkAdvance 150) 0%N; LxUpdateFunder 1%N 2%N;
   LxBase (LkClawback [(200, 250)] 8640200) 1%N; LxBase (LkClawback [(200, 250)] 8640200) 2%N;
   LxBase (LkAdvance 100) 0%N; LxConvert].

Example lkx_ex2_runs :
  lkx_results LkGuardSchedule lkx_ex2_history lkx_ex_start =
    [LK_OK; LK_LOCKED; LK_OK; LK_OK; LK_OK; LK_NOTVESTING; LK_OK; LK_INSUFFICIENT; LK_LOCKED; LK_OK; LK_OK;
     LK_UNAUTHORIZED; LK_OK; LK_OK; LK_OK] /\
  lkx_no_grant_after_slash false lkx_ex2_history = true /\
  lkx_inv (lkx_run lkx_ex2_history lkx_ex_start) /\ lkx_safe (lkx_run lkx_ex2_history lkx_ex_start) /\
  lx_vesting (lkx_run lkx_ex2_history lkx_ex_start) = false /\ lk_bal (lx_s (lkx_run lkx_ex2_history lkx_ex_start)) = 250.
Proof.
  destruct (lkx_fresh_ok 1000 [(8640000, 1000)] [(1000, 1000)] 0 8640000 0 2000 true eq_refl ltac:(lia)) as (H1 & H2 & H3 & H4).
  split; [vm_compute; reflexivity|]. split; [reflexivity|].
  split; [apply lkx_run_inv_partial; try assumption; reflexivity|].
  split; [apply lkx_run_safe; assumption|]. split; vm_compute; reflexivity.
Qed.

(** * MsgConvertIntoVestingAccount{Merge, Stake}: which amount is staked
    Grant #1: 500 coins, vested in four steps of 125 until t = 8000, unlocked at t = 5000.  At t = 20000 the account
    sends all 500 away (they are spendable).  The funder merges grant #2 of 1000 coins that started at t = 19990
    (250 vested after 5 s, the rest later; all of it locked up until t = 24990) with the stake option.
    The code stakes the vested part of grant #2 = 250: balance 750 = unvested 750.
    Staking the account-wide vested amount of the merged schedule (500 + 250 = 750) instead takes 500 of the 750
    freshly deposited UNVESTED coins: balance 250 < unvested 750, and the funder's clawback of the unvested coins
    fails for lack of funds. *)
Definition lkx_stake_start : lkx_state :=
  lkx_fresh 500 [(5000, 500)] [(2000, 125); (2000, 125); (2000, 125); (2000, 125)] 0 8000 0 20000 true.
Definition lkx_stake_lockup' : list lk_period := [(5000, 500); (19990, 1000)].
Definition lkx_stake_vesting' : list lk_period :=
  [(2000, 125); (2000, 125); (2000, 125); (2000, 125); (11995, 250); (2000, 250); (2000, 250); (2000, 250)].
Definition lkx_stake_gv : list lk_period := [(5, 250); (2000, 250); (2000, 250); (2000, 250)].
Definition lkx_stake_msg (m : lk_stake_mode) (s : lkx_state) : lkx_state * N :=
  lkx_into_stake m s 0%N true 1000 0 25995 lkx_stake_lockup' lkx_stake_vesting' 19990 lkx_stake_gv.
Definition lkx_stake_spent : lkx_state := fst (lkx_step lkx_stake_start (LxBase (LkSend 500) 0%N)).

Example lkx_stake_account_wide_refuted :
  lkx_wfs lkx_stake_start /\ lkx_inv lkx_stake_start /\ lkx_safe lkx_stake_start /\ lkx_tracked lkx_stake_start /\
  snd (lkx_step lkx_stake_start (LxBase (LkSend 500) 0%N)) = LK_OK /\ lk_bal (lx_s lkx_stake_spent) = 0 /\
  lk_grant_vested 19990 lkx_stake_gv 20000 = 250 /\
  (* the code *)
  lkx_step lkx_stake_spent (LxConvertIntoStake 0%N true 1000 0 25995 lkx_stake_lockup' lkx_stake_vesting' 19990 lkx_stake_gv)
    = lkx_stake_msg LkStakeGrant lkx_stake_spent /\
  (let r := lkx_stake_msg LkStakeGrant lkx_stake_spent in
   snd r = LK_OK /\ lk_deleg (lx_s (fst r)) = 250 /\ lk_bal (lx_s (fst r)) = 750 /\
   lk_unvested (lk_a (lx_s (fst r))) 20000 = 750 /\ lkx_safe (fst r) /\ lkx_inv (fst r)) /\
  (* the account-wide amount *)
  (let r := lkx_stake_msg LkStakeAccount lkx_stake_spent in
   snd r = LK_OK /\ lk_deleg (lx_s (fst r)) = 750 /\ lk_bal (lx_s (fst r)) = 250 /\
   lk_unvested (lk_a (lx_s (fst r))) 20000 = 750 /\ ~ lkx_safe (fst r) /\ ~ lkx_inv (fst r) /\
   snd (lk_clawback (lx_s (fst r)) [(5000, 500); (19990, 250)] 25995) = LK_INSUFFICIENT).
Proof.
  destruct (lkx_fresh_ok 500 [(5000, 500)] [(2000, 125); (2000, 125); (2000, 125); (2000, 125)] 0 8000 0 20000 true eq_refl ltac:(lia))
    as (H1 & H2 & H3 & H4).
  split; [exact H1|]. split; [exact H2|]. split; [exact H3|]. split; [exact H4|].
  split; [vm_compute; reflexivity|]. split; [vm_compute; reflexivity|]. split; [vm_compute; reflexivity|].
  split; [reflexivity|].
  assert (Hw : lkx_wfs lkx_stake_spent) by (apply lkx_step_wfs; exact H1).
  assert (Hs : lkx_safe lkx_stake_spent) by (apply lkx_step_safe; assumption).
  assert (Hi : lkx_inv lkx_stake_spent) by (apply lkx_step_inv; [assumption|assumption|discriminate]).
  assert (Ht : lkx_tracked lkx_stake_spent) by (apply lkx_step_tracked; [assumption|assumption|reflexivity]).
  split.
  - cbv zeta. split; [vm_compute; reflexivity|]. split; [vm_compute; reflexivity|]. split; [vm_compute; reflexivity|].
    split; [vm_compute; reflexivity|].
    change (lkx_stake_msg LkStakeGrant lkx_stake_spent) with
      (lkx_step lkx_stake_spent (LxConvertIntoStake 0%N true 1000 0 25995 lkx_stake_lockup' lkx_stake_vesting' 19990 lkx_stake_gv)).
    split; [apply lkx_step_safe; assumption|apply lkx_step_inv; [assumption|assumption|intros _; exact Ht]].
  - cbv zeta. split; [vm_compute; reflexivity|]. split; [vm_compute; reflexivity|]. split; [vm_compute; reflexivity|].
    split; [vm_compute; reflexivity|].
    split; [unfold lkx_safe, lk_safe; vm_compute; intros H; apply H; reflexivity|].
    split; [unfold lkx_inv, lk_inv; vm_compute; intros H; apply H; reflexivity|].
    vm_compute; reflexivity.
Qed.

Lemma lk_locked_le_sched_full a t : lk_wf_b a = true -> 0 <= lk_df a + lk_dv a ->
  0 <= lk_locked_coins a t <= lk_sched_locked a t /\ lk_sched_locked a t = Z.max (lk_locked_up a t) (lk_unvested a t).
Proof. intros H Hd. exact (conj (lk_locked_le_sched a t H Hd) (lk_sched_locked_eq_max a t)). Qed.

Lemma lkx_run_inv_wfs_partial ops s : lkx_wfs s -> lkx_inv s -> lkx_tracked s ->
  lkx_no_grant_after_slash false ops = true -> lkx_inv (lkx_run ops s) /\ lkx_wfs (lkx_run ops s).
Proof. intros Hw Hi Ht Hn. exact (conj (lkx_run_inv_partial ops s Hw Hi Ht Hn) (lkx_run_wfs ops s Hw)). Qed.

Lemma lkx_run_safe_wfs ops s : lkx_wfs s -> lkx_safe s -> lkx_safe (lkx_run ops s) /\ lkx_wfs (lkx_run ops s).
Proof. intros Hw Hs. exact (conj (lkx_run_safe ops s Hw Hs) (lkx_run_wfs ops s Hw)). Qed.

(** * statements as used in Props/C08.v *)
Lemma lk_locked_eq_max_wf_full a t : lk_wf_b a = true ->
  lk_locked_coins a t = Z.max (lk_orig a - lk_unlocked_vested a t - (lk_df a + lk_dv a)) (lk_unvested a t)
  /\ 0 <= lk_vested a t <= lk_orig a /\ 0 <= lk_unlocked a t <= lk_orig a.
Proof. intros H. exact (conj (lk_locked_eq_max_wf a t H) (conj (lk_vested_bounds a t H) (lk_unlocked_bounds a t H))). Qed.

Lemma lk_successful_debit s x s' : lk_send s x = (s', LK_OK) ->
  lk_locked_coins (lk_a s') (lk_now s') <= lk_bal s' /\ 0 < x <= lk_bal s - lk_locked_coins (lk_a s) (lk_now s).
Proof.
  intros H. split; [exact (lk_send_establishes_inv s x s' H)|].
  destruct (lk_send_ok s x s' H) as (H1 & _ & H3 & _). exact (conj H1 H3).
Qed.

Lemma lk_delegation_within_vested s x s' : lk_delegate s x = (s', LK_OK) ->
  0 < x <= lk_bal s - lk_unvested (lk_a s) (lk_now s) /\ lk_bal s' = lk_bal s - x.
Proof. intros H. destruct (lk_delegate_ok s x s' H) as (_ & H1 & H2 & _ & ->). split; [lia|reflexivity]. Qed.

Lemma lk_run_safe_wfs ops s : lk_wfs s -> lk_safe s -> lk_safe (lk_run ops s) /\ lk_wfs (lk_run ops s).
Proof. intros Hw Hs. exact (conj (lk_run_safe ops s Hw Hs) (lk_run_wfs ops s Hw)). Qed.

(** * validator creation: MsgCreateValidator over the three routes *)

(** on every route the code's step IS the ordinary guarded delegation of the self-bond *)
Lemma lky_create_validator_is_delegate s r x :
  lky_step s (LyCreateValidator r x) = lkx_step s (LxBase (LkDelegate x) 0%N).
Proof. destruct s as [c [|] f]; reflexivity. Qed.

Lemma lky_step_lower s o : lky_step s o = lkx_step s (lky_lower o).
Proof. destruct o as [o|r x]; [reflexivity|apply lky_create_validator_is_delegate]. Qed.

Lemma lky_run_lower ops : forall s, lky_run ops s = lkx_run (map lky_lower ops) s.
Proof.
  induction ops as [|o r IH]; intros s; [reflexivity|].
  change (lky_run (o :: r) s) with (lky_run r (fst (lky_step s o))).
  change (lkx_run (map lky_lower (o :: r)) s) with (lkx_run (map lky_lower r) (fst (lkx_step s (lky_lower o)))).
  rewrite lky_step_lower. apply IH.
Qed.

(** a successful validator creation by a vesting account: the self-bond is positive and covered by
    balance - unvested, it leaves the balance and is tracked as delegated; kind and funder are unchanged *)
Lemma lky_create_validator_ok s r x s' : lx_vesting s = true ->
  lky_step s (LyCreateValidator r x) = (s', LK_OK) ->
  0 < x <= lk_bal (lx_s s) - lk_unvested (lk_a (lx_s s)) (lk_now (lx_s s)) /\
  lk_bal (lx_s s') = lk_bal (lx_s s) - x /\ lk_deleg (lx_s s') = lk_deleg (lx_s s) + x /\
  lk_df (lk_a (lx_s s')) = lk_df (lk_a (lx_s s)) + x /\ lk_dv (lk_a (lx_s s')) = lk_dv (lk_a (lx_s s)) /\
  lk_unvested (lk_a (lx_s s')) (lk_now (lx_s s')) = lk_unvested (lk_a (lx_s s)) (lk_now (lx_s s)) /\
  lx_vesting s' = true /\ lx_funder s' = lx_funder s.
Proof.
  destruct s as [c vk f]. cbn [lx_vesting lx_s lx_funder]. intros ->.
  unfold lky_step, lky_step_g, lkx_create_validator, lk_cv_code. cbn [lx_vesting lx_s lx_funder].
  destruct (lk_delegate c x) as [c' r'] eqn:E. cbn [fst snd]. intros Heq; inversion Heq; subst. cbn [lx_s lx_vesting lx_funder].
  destruct (lk_delegate_ok c x c' E) as (_ & H1 & H2 & _ & ->). lk_open c. unfold lk_unvested, lk_vested in *. lk_proj.
  repeat split; try reflexivity; lia.
Qed.

Lemma lky_create_validator_fail s r x s' e : lky_step s (LyCreateValidator r x) = (s', e) -> e <> LK_OK -> s' = s.
Proof. rewrite lky_create_validator_is_delegate. apply lkx_step_g_fail. Qed.

(** above balance - unvested every route refuses *)
Lemma lky_create_validator_refused_above_vested s r x : lx_vesting s = true ->
  lk_bal (lx_s s) - lk_unvested (lk_a (lx_s s)) (lk_now (lx_s s)) < x ->
  snd (lky_step s (LyCreateValidator r x)) <> LK_OK.
Proof.
  intros Hv Hx. destruct (lky_step s (LyCreateValidator r x)) as [s' e] eqn:E. cbn [snd]. intros ->.
  pose proof (lky_create_validator_ok s r x s' Hv E) as (H & _). lia.
Qed.

(** one step, every route: "no unvested coin is delegated" and "balance >= locked" are preserved *)
Lemma lky_step_safe s o : lkx_wfs s -> lkx_safe s -> lkx_safe (fst (lky_step s o)) /\ lkx_wfs (fst (lky_step s o)).
Proof. intros Hw Hs. rewrite lky_step_lower. split; [apply lkx_step_safe; assumption|apply lkx_step_wfs; assumption]. Qed.

Lemma lky_create_validator_safe s r x : lkx_wfs s -> lkx_safe s ->
  lkx_safe (fst (lky_step s (LyCreateValidator r x))) /\ lkx_wfs (fst (lky_step s (LyCreateValidator r x))).
Proof. apply lky_step_safe. Qed.

Lemma lky_create_validator_inv s r x : lkx_wfs s -> lkx_inv s -> lkx_inv (fst (lky_step s (LyCreateValidator r x))).
Proof. intros Hw Hi. rewrite lky_create_validator_is_delegate. apply lkx_step_inv; [assumption|assumption|discriminate]. Qed.

(** all histories *)
Lemma lky_run_safe_wfs ops s : lkx_wfs s -> lkx_safe s -> lkx_safe (lky_run ops s) /\ lkx_wfs (lky_run ops s).
Proof. rewrite lky_run_lower. apply lkx_run_safe_wfs. Qed.

Lemma lky_run_inv_wfs_partial ops s : lkx_wfs s -> lkx_inv s -> lkx_tracked s ->
  lkx_no_grant_after_slash false (map lky_lower ops) = true -> lkx_inv (lky_run ops s) /\ lkx_wfs (lky_run ops s).
Proof. rewrite lky_run_lower. apply lkx_run_inv_wfs_partial. Qed.

Definition lky_results (srv : lk_route -> lk_cv_server) (ops : list lky_op) (s : lkx_state) : list N :=
  map (fun k => snd (lky_step_g srv (lky_run_g srv (firstn k ops) s) (nth k ops (LyOp LxConvert)))) (seq 0 (length ops)).

(** the refutation: the staking precompile handing MsgCreateValidator to the Cosmos SDK's message server.
    1000 coins, 250 vested at t = 1000, the rest later, everything locked up for 100 days; at t = 2000 the
    account may delegate 250.  With Haqq's wrapper on every route a self-bond of 251 is refused on every route and
    250 goes through.  With the SDK's server behind the precompile the whole grant of 1000 is bonded by the
    account's own Ethereum transaction: balance 0 < unvested 750, and the funder's clawback fails. *)
Definition lky_ex_start : lkx_state :=
  lkx_fresh 1000 [(8640000, 1000)] [(1000, 250); (4000, 750)] 0 8640000 0 2000 true.
Definition lk_cv_precompile_sdk (r : lk_route) : lk_cv_server :=
  match r with LkRoutePrecompile => LkCvSdk | _ => LkCvHaqq end.

Example lky_sdk_server_refuted :
  lkx_wfs lky_ex_start /\ lkx_inv lky_ex_start /\ lkx_safe lky_ex_start /\ lkx_tracked lky_ex_start /\
  lk_unvested (lk_a (lx_s lky_ex_start)) 2000 = 750 /\
  (* the code *)
  lky_results lk_cv_code [LyCreateValidator LkRouteMsg 251; LyCreateValidator LkRouteAuthz 251; LyCreateValidator LkRoutePrecompile 251;
                          LyCreateValidator LkRoutePrecompile 1000; LyCreateValidator LkRoutePrecompile 250] lky_ex_start
    = [LK_UNVESTED; LK_UNVESTED; LK_UNVESTED; LK_UNVESTED; LK_OK] /\
  (* the SDK's message server behind the precompile *)
  (let r := lky_step_g lk_cv_precompile_sdk lky_ex_start (LyCreateValidator LkRoutePrecompile 1000) in
   snd r = LK_OK /\ lk_bal (lx_s (fst r)) = 0 /\ lk_deleg (lx_s (fst r)) = 1000 /\ lk_df (lk_a (lx_s (fst r))) = 1000 /\
   lk_unvested (lk_a (lx_s (fst r))) 2000 = 750 /\ ~ lkx_safe (fst r) /\ ~ lkx_inv (fst r) /\
   snd (lk_clawback (lx_s (fst r)) [(8640000, 250)] 8640000) = LK_INSUFFICIENT) /\
  (* the other two routes of that variant still refuse *)
  lky_results lk_cv_precompile_sdk [LyCreateValidator LkRouteMsg 251; LyCreateValidator LkRouteAuthz 251] lky_ex_start
    = [LK_UNVESTED; LK_UNVESTED].
Proof.
  destruct (lkx_fresh_ok 1000 [(8640000, 1000)] [(1000, 250); (4000, 750)] 0 8640000 0 2000 true eq_refl ltac:(lia)) as (H1 & H2 & H3 & H4).
  split; [exact H1|]. split; [exact H2|]. split; [exact H3|]. split; [exact H4|].
  split; [vm_compute; reflexivity|]. split; [vm_compute; reflexivity|].
  split; [|vm_compute; reflexivity].
  cbv zeta. split; [vm_compute; reflexivity|]. split; [vm_compute; reflexivity|]. split; [vm_compute; reflexivity|].
  split; [vm_compute; reflexivity|]. split; [vm_compute; reflexivity|].
  split; [unfold lkx_safe, lk_safe; vm_compute; intros H; apply H; reflexivity|].
  split; [unfold lkx_inv, lk_inv; vm_compute; intros H; apply H; reflexivity|].
  vm_compute; reflexivity.
Qed.

(** non-vacuity: the same account delegates 100, spends nothing, is refused a self-bond of 151 on each route
    (150 = balance 900 - unvested 750), creates its validator with 150 through the precompile, is refused
    any further delegation, and after the second vesting event bonds more; the funder's clawback before that
    takes nothing that is bonded *)
Definition lky_ex_history : list lky_op :=
  [LyOp (LxBase (LkDelegate 100) 0%N);
   LyCreateValidator LkRouteMsg 151; LyCreateValidator LkRouteAuthz 151; LyCreateValidator LkRoutePrecompile 151;
   LyCreateValidator LkRoutePrecompile 150;
   LyOp (LxBase (LkDelegate 1) 0%N);
   LyOp (LxBase (LkAdvance 3000) 0%N);
   LyCreateValidator LkRouteAuthz 751; LyCreateValidator LkRouteMsg 750].

Example lky_ex_runs :
  lky_results lk_cv_code lky_ex_history lky_ex_start
    = [LK_OK; LK_UNVESTED; LK_UNVESTED; LK_UNVESTED; LK_OK; LK_UNVESTED; LK_OK; LK_UNVESTED; LK_OK] /\
  lkx_no_grant_after_slash false (map lky_lower lky_ex_history) = true /\
  lkx_safe (lky_run lky_ex_history lky_ex_start) /\ lkx_inv (lky_run lky_ex_history lky_ex_start) /\
  lk_bal (lx_s (lky_run lky_ex_history lky_ex_start)) = 0 /\ lk_deleg (lx_s (lky_run lky_ex_history lky_ex_start)) = 1000 /\
  lk_unvested (lk_a (lx_s (lky_run lky_ex_history lky_ex_start))) 5000 = 0.
Proof.
  destruct (lkx_fresh_ok 1000 [(8640000, 1000)] [(1000, 250); (4000, 750)] 0 8640000 0 2000 true eq_refl ltac:(lia)) as (H1 & H2 & H3 & H4).
  split; [vm_compute; reflexivity|]. split; [reflexivity|].
  split; [exact (proj1 (lky_run_safe_wfs lky_ex_history lky_ex_start H1 H3))|].
  split; [exact (proj1 (lky_run_inv_wfs_partial lky_ex_history lky_ex_start H1 H2 H4 eq_refl))|].
  split; [vm_compute; reflexivity|]. split; vm_compute; reflexivity.
Qed.
