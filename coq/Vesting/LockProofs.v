(** Proofs about the locked-coins model (property C08). *)
From Coq Require Import ZArith List Bool Lia.
From HV Require Import Vesting.LockModel.
Import ListNotations.
Local Open Scope Z_scope.

(** * reading a schedule *)
Lemma lk_periods_ok_cons p ps :
  lk_periods_ok (p :: ps) = true <-> 0 <= fst p /\ 0 <= snd p /\ lk_periods_ok ps = true.
Proof.
  unfold lk_periods_ok. cbn [forallb]. rewrite !andb_true_iff, !Z.leb_le. tauto.
Qed.

Lemma lk_sum_cons p ps : lk_sum (p :: ps) = snd p + lk_sum ps.
Proof. reflexivity. Qed.

Lemma lk_sum_nonneg ps : lk_periods_ok ps = true -> 0 <= lk_sum ps.
Proof.
  induction ps as [|p r IH]; intros H; [cbn; lia|].
  apply lk_periods_ok_cons in H as (_ & Ha & Hr). rewrite lk_sum_cons. specialize (IH Hr). lia.
Qed.

Lemma lk_read_loop_bounds ps : lk_periods_ok ps = true ->
  forall e t acc, acc <= lk_read_loop ps e t acc <= acc + lk_sum ps.
Proof.
  induction ps as [|[len a] r IH]; intros H e t acc; cbn [lk_read_loop].
  - cbn. lia.
  - apply lk_periods_ok_cons in H as (_ & Ha & Hr). cbn [snd] in Ha. rewrite lk_sum_cons. cbn [snd].
    pose proof (lk_sum_nonneg _ Hr).
    destruct (t <? e + len); [lia|]. specialize (IH Hr (e + len) t (acc + a)). lia.
Qed.

Lemma lk_read_loop_mono ps : lk_periods_ok ps = true ->
  forall e t1 t2 acc, t1 <= t2 -> lk_read_loop ps e t1 acc <= lk_read_loop ps e t2 acc.
Proof.
  induction ps as [|[len a] r IH]; intros H e t1 t2 acc Ht; cbn [lk_read_loop]; [lia|].
  pose proof H as H'. apply lk_periods_ok_cons in H as (_ & Ha & Hr). cbn [snd] in Ha.
  destruct (Z.ltb_spec t1 (e + len)), (Z.ltb_spec t2 (e + len)); try lia.
  - pose proof (lk_read_loop_bounds _ Hr (e + len) t2 (acc + a)). lia.
  - apply IH; assumption.
Qed.

Definition lk_sched_ok (ps : list lk_period) (total : Z) : Prop :=
  lk_periods_ok ps = true /\ lk_sum ps = total.

Lemma lk_read_bounds st en ps total t : lk_sched_ok ps total -> 0 <= lk_read_schedule st en ps total t <= total.
Proof.
  intros [Hp Hs]. unfold lk_read_schedule. pose proof (lk_sum_nonneg _ Hp).
  destruct (t <=? st); [lia|]. destruct (en <=? t); [lia|].
  pose proof (lk_read_loop_bounds _ Hp st t 0). lia.
Qed.

Lemma lk_read_mono st en ps total t1 t2 : lk_sched_ok ps total -> t1 <= t2 ->
  lk_read_schedule st en ps total t1 <= lk_read_schedule st en ps total t2.
Proof.
  intros Hok Ht. pose proof (lk_read_bounds st en ps total t1 Hok). pose proof (lk_read_bounds st en ps total t2 Hok).
  destruct Hok as [Hp Hs]. unfold lk_read_schedule in *.
  destruct (Z.leb_spec t1 st), (Z.leb_spec t2 st); try lia.
  destruct (Z.leb_spec en t1), (Z.leb_spec en t2); try lia.
  apply lk_read_loop_mono; assumption.
Qed.

(** the number of passed periods and the coins read agree *)
Lemma lk_past_loop_firstn ps : forall e t n acc,
  lk_read_loop ps e t acc = acc + lk_sum (firstn (lk_past_loop ps e t n - n) ps) /\ (n <= lk_past_loop ps e t n)%nat.
Proof.
  induction ps as [|[len a] r IH]; intros e t n acc; cbn [lk_read_loop lk_past_loop].
  - rewrite Nat.sub_diag. cbn. split; lia.
  - destruct (t <? e + len).
    + rewrite Nat.sub_diag. cbn. split; lia.
    + destruct (IH (e + len) t (S n) (acc + a)) as [H1 H2]. split; [|lia].
      replace (lk_past_loop r (e + len) t (S n) - n)%nat with (S (lk_past_loop r (e + len) t (S n) - S n)) by lia.
      cbn [firstn]. rewrite lk_sum_cons. cbn [snd]. lia.
Qed.

Lemma lk_firstn_all {A} (l : list A) : firstn (length l) l = l.
Proof. apply firstn_all. Qed.

Lemma lk_past_count_sum st en ps total t : lk_sum ps = total ->
  lk_sum (firstn (lk_past_count st en ps t) ps) = lk_read_schedule st en ps total t.
Proof.
  intros Hs. unfold lk_past_count, lk_read_schedule.
  destruct (t <=? st); [reflexivity|]. destruct (en <=? t); [rewrite firstn_all; exact Hs|].
  destruct (lk_past_loop_firstn ps st t 0%nat 0) as [H _]. rewrite Nat.sub_0_r in H. lia.
Qed.

Lemma lk_periods_ok_firstn n ps : lk_periods_ok ps = true -> lk_periods_ok (firstn n ps) = true.
Proof.
  revert n. induction ps as [|p r IH]; intros [|n] H; try reflexivity.
  cbn [firstn]. apply lk_periods_ok_cons in H as (H1 & H2 & H3). apply lk_periods_ok_cons. auto.
Qed.

(** * well-formed accounts *)
Lemma lk_wf_b_spec a : lk_wf_b a = true <->
  0 <= lk_orig a /\ lk_sched_ok (lk_lockup a) (lk_orig a) /\ lk_sched_ok (lk_vesting a) (lk_orig a).
Proof.
  unfold lk_wf_b, lk_sched_ok. rewrite !andb_true_iff, !Z.eqb_eq, Z.leb_le. tauto.
Qed.

Lemma lk_vested_bounds a t : lk_wf_b a = true -> 0 <= lk_vested a t <= lk_orig a.
Proof. intros H. apply lk_wf_b_spec in H as (_ & _ & Hv). apply lk_read_bounds, Hv. Qed.
Lemma lk_unlocked_bounds a t : lk_wf_b a = true -> 0 <= lk_unlocked a t <= lk_orig a.
Proof. intros H. apply lk_wf_b_spec in H as (_ & Hl & _). apply lk_read_bounds, Hl. Qed.
Lemma lk_vested_mono a t1 t2 : lk_wf_b a = true -> t1 <= t2 -> lk_vested a t1 <= lk_vested a t2.
Proof. intros H. apply lk_wf_b_spec in H as (_ & _ & Hv). apply lk_read_mono, Hv. Qed.
Lemma lk_unlocked_mono a t1 t2 : lk_wf_b a = true -> t1 <= t2 -> lk_unlocked a t1 <= lk_unlocked a t2.
Proof. intros H. apply lk_wf_b_spec in H as (_ & Hl & _). apply lk_read_mono, Hl. Qed.

(** * the locked amount *)
(** the code's formula, as a closed expression *)
Lemma lk_locked_raw_eq a t :
  lk_locked_raw a t = lk_orig a - Z.min (lk_unlocked_vested a t + (lk_df a + lk_dv a)) (lk_vested a t).
Proof. unfold lk_locked_raw, lk_locked_up_vested. lia. Qed.

Lemma lk_raw_nonneg a t : lk_vested a t <= lk_orig a -> 0 <= lk_locked_raw a t.
Proof. intros H. rewrite lk_locked_raw_eq. lia. Qed.

(** LockedCoins = max(original - unlockedVested - trackedDelegated, unvested)
    whenever vested <= original (always, for a well-formed account); in general
    it is that maximum clamped at 0 *)
Lemma lk_locked_eq_max a t : lk_vested a t <= lk_orig a ->
  lk_locked_coins a t = Z.max (lk_orig a - lk_unlocked_vested a t - (lk_df a + lk_dv a)) (lk_unvested a t).
Proof.
  intros H. unfold lk_locked_coins. pose proof (lk_raw_nonneg a t H). rewrite lk_locked_raw_eq in *.
  unfold lk_unvested. destruct (Z.ltb_spec (lk_orig a - Z.min (lk_unlocked_vested a t + (lk_df a + lk_dv a)) (lk_vested a t)) 0); lia.
Qed.

Lemma lk_locked_eq_max_clamped a t :
  lk_locked_coins a t = Z.max 0 (Z.max (lk_orig a - lk_unlocked_vested a t - (lk_df a + lk_dv a)) (lk_unvested a t)).
Proof.
  unfold lk_locked_coins. rewrite lk_locked_raw_eq. unfold lk_unvested.
  destruct (Z.ltb_spec (lk_orig a - Z.min (lk_unlocked_vested a t + (lk_df a + lk_dv a)) (lk_vested a t)) 0); lia.
Qed.

Lemma lk_locked_eq_max_wf a t : lk_wf_b a = true ->
  lk_locked_coins a t = Z.max (lk_orig a - lk_unlocked_vested a t - (lk_df a + lk_dv a)) (lk_unvested a t).
Proof. intros H. apply lk_locked_eq_max. apply (lk_vested_bounds a t H). Qed.

Lemma lk_locked_ge_unvested a t : lk_wf_b a = true -> lk_unvested a t <= lk_locked_coins a t.
Proof. intros H. rewrite (lk_locked_eq_max_wf a t H). lia. Qed.

Lemma lk_locked_le_orig a t : lk_wf_b a = true -> 0 <= lk_df a + lk_dv a -> 0 <= lk_locked_coins a t <= lk_orig a.
Proof.
  intros H Hd. rewrite (lk_locked_eq_max_wf a t H). pose proof (lk_vested_bounds a t H). pose proof (lk_unlocked_bounds a t H).
  unfold lk_unvested, lk_unlocked_vested. lia.
Qed.

Lemma lk_locked_antitone_in_time a t1 t2 : lk_wf_b a = true -> t1 <= t2 ->
  lk_locked_coins a t2 <= lk_locked_coins a t1.
Proof.
  intros H Ht. rewrite !(lk_locked_eq_max_wf a _ H).
  pose proof (lk_vested_mono a t1 t2 H Ht). pose proof (lk_unlocked_mono a t1 t2 H Ht).
  unfold lk_unvested, lk_unlocked_vested. lia.
Qed.

Lemma lk_unvested_antitone a t1 t2 : lk_wf_b a = true -> t1 <= t2 -> lk_unvested a t2 <= lk_unvested a t1.
Proof. intros H Ht. pose proof (lk_vested_mono a t1 t2 H Ht). unfold lk_unvested. lia. Qed.

(** * state predicates *)
Definition lk_wfs (s : lk_state) : Prop :=
  lk_wf_b (lk_a s) = true /\ 0 <= lk_df (lk_a s) /\ 0 <= lk_dv (lk_a s) /\ 0 <= lk_deleg s /\ 0 <= lk_unb s.
(** unvested coins are all in the bank balance: none of them is delegated *)
Definition lk_safe (s : lk_state) : Prop := lk_unvested (lk_a s) (lk_now s) <= lk_bal s.
(** the balance covers the locked amount *)
Definition lk_inv (s : lk_state) : Prop := lk_locked_coins (lk_a s) (lk_now s) <= lk_bal s.
(** what the account tracks as delegated does not exceed what the staking module holds for it *)
Definition lk_tracked_le_actual (s : lk_state) : Prop :=
  lk_df (lk_a s) + lk_dv (lk_a s) <= (if lk_bond s then lk_deleg s + lk_unb s else 0).

Definition lk_lockf (O U V D : Z) : Z :=
  let r := O - (Z.min U V + Z.min D (V - Z.min U V)) in if r <? 0 then 0 else r.
Lemma lk_locked_coins_f a t :
  lk_locked_coins a t = lk_lockf (lk_orig a) (lk_unlocked a t) (lk_vested a t) (lk_df a + lk_dv a).
Proof. reflexivity. Qed.
Lemma lk_lockf_max O U V D : V <= O -> lk_lockf O U V D = Z.max (O - Z.min U V - D) (O - V).
Proof. intros H. unfold lk_lockf. cbv zeta. destruct (Z.ltb_spec (O - (Z.min U V + Z.min D (V - Z.min U V))) 0); lia. Qed.

Lemma lk_inv_safe s : lk_wfs s -> lk_inv s -> lk_safe s.
Proof. intros (Hw & _) Hi. unfold lk_safe, lk_inv in *. pose proof (lk_locked_ge_unvested _ (lk_now s) Hw). lia. Qed.

Ltac lk_proj := cbn [lk_a lk_bal lk_deleg lk_unb lk_now lk_bond lk_orig lk_lockup lk_vesting lk_start lk_end lk_dv lk_df
                     lk_vested lk_unlocked lk_unvested lk_set_bal fst snd] in *.

(** ** send: the debit rule *)
Lemma lk_send_ok s x s' : lk_send s x = (s', LK_OK) ->
  0 < x /\ lk_locked_coins (lk_a s) (lk_now s) <= lk_bal s /\ x <= lk_bal s - lk_locked_coins (lk_a s) (lk_now s) /\
  s' = lk_set_bal s (lk_bal s - x).
Proof.
  unfold lk_send. destruct (Z.leb_spec x 0); [discriminate|].
  destruct (Z.ltb_spec (lk_bal s) (lk_locked_coins (lk_a s) (lk_now s))); [discriminate|].
  destruct (Z.ltb_spec (lk_bal s - lk_locked_coins (lk_a s) (lk_now s)) x); [discriminate|].
  intros Heq; inversion Heq; subst. repeat split; lia.
Qed.

Lemma lk_send_fails_above_spendable s x :
  lk_bal s - lk_locked_coins (lk_a s) (lk_now s) < x -> lk_send s x = (s, LK_INSUFFICIENT) \/ lk_send s x = (s, LK_INVALID).
Proof.
  intros H. unfold lk_send. destruct (Z.leb_spec x 0); [now right|left].
  destruct (Z.ltb_spec (lk_bal s) (lk_locked_coins (lk_a s) (lk_now s))); [reflexivity|].
  destruct (Z.ltb_spec (lk_bal s - lk_locked_coins (lk_a s) (lk_now s)) x); [reflexivity|lia].
Qed.

Lemma lk_send_succeeds_within_spendable s x :
  0 < x -> lk_locked_coins (lk_a s) (lk_now s) <= lk_bal s -> x <= lk_bal s - lk_locked_coins (lk_a s) (lk_now s) ->
  lk_send s x = (lk_set_bal s (lk_bal s - x), LK_OK).
Proof.
  intros H1 H2 H3. unfold lk_send. destruct (Z.leb_spec x 0); [lia|].
  destruct (Z.ltb_spec (lk_bal s) (lk_locked_coins (lk_a s) (lk_now s))); [lia|].
  destruct (Z.ltb_spec (lk_bal s - lk_locked_coins (lk_a s) (lk_now s)) x); [lia|reflexivity].
Qed.

(** after ANY successful debit the balance covers the locked amount, whatever the state before *)
Lemma lk_send_establishes_inv s x s' : lk_send s x = (s', LK_OK) -> lk_inv s'.
Proof.
  intros H. apply lk_send_ok in H as (_ & _ & H3 & ->). unfold lk_inv. destruct s; lk_proj. lia.
Qed.

(** ** failing operations change nothing *)
Lemma lk_step_fail s o s' r : lk_step s o = (s', r) -> r <> LK_OK -> s' = s.
Proof.
  destruct o; cbn [lk_step].
  - destruct (x <? 0); inversion 1; subst; congruence.
  - unfold lk_send. destruct (x <=? 0); [inversion 1; congruence|].
    destruct (_ <? _); [inversion 1; congruence|]. destruct (_ <? _); inversion 1; subst; congruence.
  - unfold lk_delegate. destruct (negb _); [inversion 1; congruence|]. destruct (x <=? 0); [inversion 1; congruence|].
    destruct (_ <? _); [inversion 1; congruence|]. destruct (_ <? _); inversion 1; subst; congruence.
  - unfold lk_undelegate. destruct (x <=? 0); inversion 1; subst; congruence.
  - unfold lk_complete. destruct (_ || _); inversion 1; subst; congruence.
  - unfold lk_slash. destruct (_ || _); inversion 1; subst; congruence.
  - destruct (dt <? 0); inversion 1; subst; congruence.
  - unfold lk_clawback. destruct (lk_no_periods _); [inversion 1; congruence|].
    destruct (_ <? 0); [inversion 1; congruence|]; destruct (_ =? 0); [inversion 1; congruence|];
      destruct (negb _); [inversion 1; congruence|]; destruct (_ <? _); [inversion 1; congruence|];
      destruct (_ <? _); inversion 1; subst; congruence.
  - unfold lk_add_grant. destruct (g <? 0); [inversion 1; congruence|]. destruct (negb _); inversion 1; subst; congruence.
Qed.

(** ** successful operations, spelled out *)
Lemma lk_delegate_ok s x s' : lk_delegate s x = (s', LK_OK) ->
  lk_bond s = true /\ 0 < x /\ x <= lk_bal s - lk_unvested (lk_a s) (lk_now s) /\ x <= lk_bal s /\
  s' = mklk (mklka (lk_orig (lk_a s)) (lk_lockup (lk_a s)) (lk_vesting (lk_a s)) (lk_start (lk_a s)) (lk_end (lk_a s))
                   (lk_dv (lk_a s)) (lk_df (lk_a s) + x))
            (lk_bal s - x) (lk_deleg s + x) (lk_unb s) (lk_now s) (lk_bond s).
Proof.
  unfold lk_delegate. destruct (lk_bond s); cbn [negb]; [|discriminate].
  destruct (Z.leb_spec x 0); [discriminate|].
  destruct (Z.ltb_spec (Z.max (lk_bal s - lk_unvested (lk_a s) (lk_now s)) 0) x); [discriminate|].
  destruct (Z.ltb_spec (lk_bal s) x); [discriminate|].
  intros Heq; inversion Heq; subst. repeat split; lia.
Qed.

Lemma lk_undelegate_ok s x s' : lk_undelegate s x = (s', LK_OK) ->
  0 < x /\ s' = mklk (lk_a s) (lk_bal s) (Z.max 0 (lk_deleg s - x)) (lk_unb s + x) (lk_now s) (lk_bond s).
Proof.
  unfold lk_undelegate. destruct (Z.leb_spec x 0); [discriminate|].
  intros Heq; inversion Heq; subst. split; [lia|reflexivity].
Qed.

Lemma lk_complete_ok s y s' : lk_complete s y = (s', LK_OK) ->
  0 < y <= lk_unb s /\
  s' = mklk (mklka (lk_orig (lk_a s)) (lk_lockup (lk_a s)) (lk_vesting (lk_a s)) (lk_start (lk_a s)) (lk_end (lk_a s))
                   (lk_dv (lk_a s) - Z.min (lk_dv (lk_a s)) (y - Z.min (lk_df (lk_a s)) y))
                   (lk_df (lk_a s) - Z.min (lk_df (lk_a s)) y))
            (lk_bal s + y) (lk_deleg s) (lk_unb s - y) (lk_now s) (lk_bond s).
Proof.
  unfold lk_complete. destruct (Z.leb_spec y 0); cbn [orb]; [discriminate|].
  destruct (Z.ltb_spec (lk_unb s) y); [discriminate|]. intros Heq; inversion Heq; subst. split; [lia|reflexivity].
Qed.

Lemma lk_slash_ok s d u s' : lk_slash s d u = (s', LK_OK) ->
  lk_bond s = true /\ 0 <= d /\ 0 <= u /\ s' = mklk (lk_a s) (lk_bal s) d u (lk_now s) (lk_bond s).
Proof.
  unfold lk_slash. destruct (lk_bond s); cbn [negb orb]; [|discriminate].
  destruct (Z.ltb_spec d 0); cbn [orb]; [discriminate|]. destruct (Z.ltb_spec u 0); [discriminate|].
  intros Heq; inversion Heq; subst. repeat split; lia.
Qed.

Definition lk_clawed_acct (s : lk_state) (lockup' : list lk_period) (end' : Z) : lk_acct :=
  let a := lk_a s in
  mklka (lk_vested a (lk_now s)) lockup'
        (firstn (lk_past_count (lk_start a) (lk_end a) (lk_vesting a) (lk_now s)) (lk_vesting a))
        (lk_start a) end' (lk_dv a) (lk_df a).

Lemma lk_clawback_ok s l e s' : lk_clawback s l e = (s', LK_OK) ->
  s' = s /\ lk_unvested (lk_a s) (lk_now s) = 0 \/
  (let a' := lk_clawed_acct s l e in
   let u := lk_unvested (lk_a s) (lk_now s) in
   0 < u /\ lk_wf_b a' = true /\ lk_locked_coins a' (lk_now s) <= lk_bal s /\ u <= lk_bal s - lk_locked_coins a' (lk_now s) /\
   s' = mklk a' (lk_bal s - u) (lk_deleg s) (lk_unb s) (lk_now s) (lk_bond s)).
Proof.
  unfold lk_clawback, lk_clawed_acct, lk_unvested. cbv zeta.
  destruct (lk_no_periods (lk_a s)); [discriminate|].
  destruct (Z.ltb_spec (lk_orig (lk_a s) - lk_vested (lk_a s) (lk_now s)) 0); [discriminate|].
  destruct (Z.eqb_spec (lk_orig (lk_a s) - lk_vested (lk_a s) (lk_now s)) 0) as [Hz|Hz].
  { intros Heq; inversion Heq; subst. left. split; [reflexivity|lia]. }
  destruct (lk_wf_b _) eqn:Hwf; cbn [negb]; [|discriminate].
  match goal with |- context [lk_bal s <? ?L] => destruct (Z.ltb_spec (lk_bal s) L); [discriminate|];
    destruct (Z.ltb_spec (lk_bal s - L) (lk_orig (lk_a s) - lk_vested (lk_a s) (lk_now s))); [discriminate|] end.
  intros Heq; inversion Heq; subst. right. repeat split; try assumption; lia.
Qed.

Definition lk_granted_acct (s : lk_state) (g start' end' : Z) (lockup' vesting' : list lk_period) : lk_acct :=
  mklka (lk_orig (lk_a s) + g) lockup' vesting' start' end' 0 (if lk_bond s then lk_deleg s + lk_unb s else 0).

Lemma lk_add_grant_ok s g st e l v s' : lk_add_grant s g st e l v = (s', LK_OK) ->
  let a' := lk_granted_acct s g st e l v in
  0 <= g /\ lk_wf_b a' = true /\
  lk_vested (lk_a s) (lk_now s) <= lk_vested a' (lk_now s) /\
  lk_unlocked (lk_a s) (lk_now s) <= lk_unlocked a' (lk_now s) /\
  s' = mklk a' (lk_bal s + g) (lk_deleg s) (lk_unb s) (lk_now s) (lk_bond s).
Proof.
  unfold lk_add_grant, lk_granted_acct. cbv zeta. destruct (Z.ltb_spec g 0); [discriminate|].
  destruct (lk_wf_b _ && _ && _) eqn:Hc; cbn [negb]; [|discriminate].
  apply andb_true_iff in Hc as [Hc H3]. apply andb_true_iff in Hc as [H1 H2].
  apply Z.leb_le in H2, H3. intros Heq; inversion Heq; subst. repeat split; try assumption.
Qed.

(** * every operation preserves the invariants *)
Ltac lk_open s := destruct s as [[aO aL aV aSt aE aDv aDf] sBal sDg sUb sNow sBd].
Ltac lk_simp :=
  unfold lk_wfs, lk_safe, lk_inv, lk_tracked_le_actual, lk_clawed_acct, lk_granted_acct in *;
  rewrite ?lk_locked_coins_f in *; unfold lk_unvested, lk_vested, lk_unlocked in *; lk_proj.

Lemma lk_wf_b_indep o l v st e dv df dv' df' :
  lk_wf_b (mklka o l v st e dv' df') = lk_wf_b (mklka o l v st e dv df).
Proof. reflexivity. Qed.

Lemma lk_step_wfs s o : lk_wfs s -> lk_wfs (fst (lk_step s o)).
Proof.
  intros Hw. destruct (lk_step s o) as [s' r] eqn:E. cbn [fst].
  destruct (N.eq_dec r LK_OK) as [->|Hr]; [|rewrite (lk_step_fail _ _ _ _ E Hr); exact Hw].
  destruct o; cbn [lk_step] in E.
  - destruct (x <? 0); inversion E; subst. lk_open s. exact Hw.
  - apply lk_send_ok in E as (_ & _ & _ & ->). lk_open s. exact Hw.
  - apply lk_delegate_ok in E as (_ & Hx & _ & _ & ->). lk_open s. lk_simp.
    destruct Hw as (Hwf & ? & ? & ? & ?). rewrite (lk_wf_b_indep _ _ _ _ _ aDv aDf). repeat split; try assumption; lia.
  - apply lk_undelegate_ok in E as (Hx & ->). lk_open s. lk_simp. destruct Hw as (Hwf & ? & ? & ? & ?). repeat split; try assumption; lia.
  - apply lk_complete_ok in E as (Hy & ->). lk_open s. lk_simp. destruct Hw as (Hwf & ? & ? & ? & ?).
    rewrite (lk_wf_b_indep _ _ _ _ _ aDv aDf). repeat split; try assumption; lia.
  - apply lk_slash_ok in E as (_ & ? & ? & ->). lk_open s. lk_simp. destruct Hw as (Hwf & ? & ? & ? & ?). repeat split; assumption.
  - destruct (dt <? 0); inversion E; subst. lk_open s. exact Hw.
  - apply lk_clawback_ok in E as [[-> _]|(_ & Hwf' & _ & _ & ->)]; [exact Hw|].
    destruct Hw as (Hwf & ? & ? & ? & ?). unfold lk_wfs, lk_clawed_acct in *. lk_open s. lk_proj. repeat split; assumption.
  - apply lk_add_grant_ok in E as (_ & Hwf' & _ & _ & ->).
    destruct Hw as (Hwf & ? & ? & ? & ?). unfold lk_wfs, lk_granted_acct in *. lk_open s. lk_proj.
    repeat split; try assumption; try lia. destruct sBd; lia.
Qed.

(** "unvested coins are never delegated": preserved by EVERY operation *)
Lemma lk_step_safe s o : lk_wfs s -> lk_safe s -> lk_safe (fst (lk_step s o)).
Proof.
  intros Hw Hs. destruct (lk_step s o) as [s' r] eqn:E. cbn [fst].
  destruct (N.eq_dec r LK_OK) as [->|Hr]; [|rewrite (lk_step_fail _ _ _ _ E Hr); exact Hs].
  destruct Hw as (Hwf & Hdf & Hdv & Hdg & Hub).
  destruct o; cbn [lk_step] in E.
  - destruct (Z.ltb_spec x 0); inversion E; subst. lk_open s. lk_simp. lia.
  - pose proof (lk_locked_ge_unvested _ (lk_now s) Hwf) as Hl.
    apply lk_send_ok in E as (_ & _ & Hx & ->). lk_open s. unfold lk_safe in *. lk_proj. lia.
  - apply lk_delegate_ok in E as (_ & _ & Hx & _ & ->). lk_open s. lk_simp. lia.
  - apply lk_undelegate_ok in E as (_ & ->). lk_open s. exact Hs.
  - apply lk_complete_ok in E as (Hy & ->). lk_open s. lk_simp. lia.
  - apply lk_slash_ok in E as (_ & _ & _ & ->). lk_open s. exact Hs.
  - destruct (Z.ltb_spec dt 0); inversion E; subst.
    pose proof (lk_unvested_antitone _ (lk_now s) (lk_now s + dt) Hwf ltac:(lia)). lk_open s. unfold lk_safe in *. lk_proj. lia.
  - apply lk_clawback_ok in E as [[-> _]|(_ & Hwf' & Hl & Hu & ->)]; [exact Hs|].
    pose proof (lk_locked_ge_unvested _ (lk_now s) Hwf'). unfold lk_safe. lk_proj. lia.
  - apply lk_add_grant_ok in E as (_ & _ & Hv & _ & ->). lk_open s. lk_simp. lia.
Qed.

(** "the balance covers the locked amount": preserved by every operation except
    a new grant, which preserves it when the tracked delegation does not exceed
    the actual one *)
Definition lk_is_grant (o : lk_op) : bool := match o with LkAddGrant _ _ _ _ _ => true | _ => false end.
Definition lk_is_slash (o : lk_op) : bool := match o with LkSlash _ _ => true | _ => false end.

Lemma lk_step_inv s o : lk_wfs s -> lk_inv s -> (lk_is_grant o = true -> lk_tracked_le_actual s) ->
  lk_inv (fst (lk_step s o)).
Proof.
  intros Hw Hi Ht. destruct (lk_step s o) as [s' r] eqn:E. cbn [fst].
  destruct (N.eq_dec r LK_OK) as [->|Hr]; [|rewrite (lk_step_fail _ _ _ _ E Hr); exact Hi].
  destruct Hw as (Hwf & Hdf & Hdv & Hdg & Hub).
  pose proof (lk_vested_bounds _ (lk_now s) Hwf) as HV. pose proof (lk_unlocked_bounds _ (lk_now s) Hwf) as HU.
  destruct o; cbn [lk_step] in E.
  - destruct (Z.ltb_spec x 0); inversion E; subst. lk_open s. lk_simp. lia.
  - exact (lk_send_establishes_inv _ _ _ E).
  - apply lk_delegate_ok in E as (_ & Hx0 & Hx & _ & ->). lk_open s. lk_simp.
    rewrite lk_lockf_max in * by lia. lia.
  - apply lk_undelegate_ok in E as (_ & ->). lk_open s. exact Hi.
  - apply lk_complete_ok in E as (Hy & ->). lk_open s. lk_simp. rewrite lk_lockf_max in * by lia. lia.
  - apply lk_slash_ok in E as (_ & _ & _ & ->). lk_open s. exact Hi.
  - destruct (Z.ltb_spec dt 0); inversion E; subst.
    pose proof (lk_locked_antitone_in_time _ (lk_now s) (lk_now s + dt) Hwf ltac:(lia)). lk_open s. unfold lk_inv in *. lk_proj. lia.
  - apply lk_clawback_ok in E as [[-> _]|(_ & _ & Hl & Hu & ->)]; [exact Hi|]. unfold lk_inv. lk_proj. lia.
  - specialize (Ht eq_refl).
    apply lk_add_grant_ok in E as (Hg & Hwf' & Hv & Hu & ->).
    pose proof (lk_vested_bounds _ (lk_now s) Hwf') as HV'. pose proof (lk_unlocked_bounds _ (lk_now s) Hwf') as HU'.
    lk_open s. lk_simp. rewrite lk_lockf_max in * by lia. destruct sBd; lia.
Qed.

Lemma lk_step_tracked s o : lk_wfs s -> lk_tracked_le_actual s -> lk_is_slash o = false ->
  lk_tracked_le_actual (fst (lk_step s o)).
Proof.
  intros Hw Ht Ho. destruct (lk_step s o) as [s' r] eqn:E. cbn [fst].
  destruct (N.eq_dec r LK_OK) as [->|Hr]; [|rewrite (lk_step_fail _ _ _ _ E Hr); exact Ht].
  destruct Hw as (Hwf & Hdf & Hdv & Hdg & Hub).
  destruct o; cbn [lk_step] in E; try discriminate Ho.
  - destruct (x <? 0); inversion E; subst. lk_open s. exact Ht.
  - apply lk_send_ok in E as (_ & _ & _ & ->). lk_open s. exact Ht.
  - apply lk_delegate_ok in E as (Hb & _ & _ & _ & ->). lk_open s. lk_simp. subst sBd. lia.
  - apply lk_undelegate_ok in E as (_ & ->). lk_open s. lk_simp. destruct sBd; lia.
  - apply lk_complete_ok in E as (Hy & ->). lk_open s. lk_simp. destruct sBd; lia.
  - destruct (dt <? 0); inversion E; subst. lk_open s. exact Ht.
  - apply lk_clawback_ok in E as [[-> _]|(_ & _ & _ & _ & ->)]; [exact Ht|]. lk_open s. lk_simp. exact Ht.
  - apply lk_add_grant_ok in E as (_ & _ & _ & _ & ->). lk_open s. lk_simp. destruct sBd; lia.
Qed.

(** a new grant re-establishes "tracked = actual" *)
Lemma lk_grant_resets_tracking s g st e l v s' : lk_wfs s -> lk_add_grant s g st e l v = (s', LK_OK) -> lk_tracked_le_actual s'.
Proof.
  intros (_ & _ & _ & ? & ?) E. apply lk_add_grant_ok in E as (_ & _ & _ & _ & ->). lk_open s. lk_simp. destruct sBd; lia.
Qed.

(** * histories *)
Lemma lk_run_cons o ops s : lk_run (o :: ops) s = lk_run ops (fst (lk_step s o)).
Proof. reflexivity. Qed.

Lemma lk_run_wfs ops : forall s, lk_wfs s -> lk_wfs (lk_run ops s).
Proof. induction ops as [|o r IH]; intros s H; [exact H|]. rewrite lk_run_cons. apply IH, lk_step_wfs, H. Qed.

Lemma lk_run_safe ops : forall s, lk_wfs s -> lk_safe s -> lk_safe (lk_run ops s).
Proof.
  induction ops as [|o r IH]; intros s Hw Hs; [exact Hs|]. rewrite lk_run_cons.
  apply IH; [apply lk_step_wfs, Hw|apply lk_step_safe; assumption].
Qed.

(** [dirty]: the staking figures were changed behind the account's back (slash,
    share rounding) since the last grant.  The only histories excluded are those
    that merge a new grant in that situation. *)
Fixpoint lk_no_grant_after_slash (dirty : bool) (ops : list lk_op) : bool :=
  match ops with
  | [] => true
  | o :: r => if lk_is_grant o then negb dirty && lk_no_grant_after_slash false r
              else lk_no_grant_after_slash (dirty || lk_is_slash o) r
  end.

Lemma lk_run_inv_gen ops : forall dirty s, lk_wfs s -> lk_inv s -> (dirty = false -> lk_tracked_le_actual s) ->
  lk_no_grant_after_slash dirty ops = true -> lk_inv (lk_run ops s).
Proof.
  induction ops as [|o r IH]; intros dirty s Hw Hi Ht Hn; [exact Hi|]. rewrite lk_run_cons.
  cbn [lk_no_grant_after_slash] in Hn. destruct (lk_is_grant o) eqn:Hg.
  - apply andb_true_iff in Hn as [Hd Hn]. apply negb_true_iff in Hd. specialize (Ht Hd).
    apply (IH false); [apply lk_step_wfs, Hw|apply lk_step_inv; auto| |exact Hn].
    intros _. destruct o; try discriminate Hg. cbn [lk_step].
    destruct (lk_add_grant s g start' end' lockup' vesting') as [s' rr] eqn:E. cbn [fst].
    destruct (N.eq_dec rr LK_OK) as [->|Hr].
    + exact (lk_grant_resets_tracking _ _ _ _ _ _ _ Hw E).
    + assert (E' : lk_step s (LkAddGrant g start' end' lockup' vesting') = (s', rr)) by exact E.
      rewrite (lk_step_fail _ _ _ _ E' Hr). exact Ht.
  - apply (IH (dirty || lk_is_slash o)); [apply lk_step_wfs, Hw| |  |exact Hn].
    + apply lk_step_inv; auto. rewrite Hg. discriminate.
    + intros Hd. apply orb_false_iff in Hd as [Hd Hs]. apply lk_step_tracked; auto.
Qed.

Lemma lk_run_inv_partial ops s : lk_wfs s -> lk_inv s -> lk_tracked_le_actual s ->
  lk_no_grant_after_slash false ops = true -> lk_inv (lk_run ops s).
Proof. intros Hw Hi Ht Hn. apply (lk_run_inv_gen ops false s); auto. Qed.

(** a freshly funded account satisfies everything *)
Lemma lk_inv_of_funded s : lk_wfs s -> lk_orig (lk_a s) <= lk_bal s -> lk_inv s.
Proof.
  intros (Hwf & ? & ? & _) Hb. unfold lk_inv. pose proof (lk_locked_le_orig _ (lk_now s) Hwf ltac:(lia)). lia.
Qed.

Definition lk_fresh (orig : Z) (lockup vesting : list lk_period) (start endt extra now : Z) (bond : bool) : lk_state :=
  mklk (mklka orig lockup vesting start endt 0 0) (orig + extra) 0 0 now bond.

Lemma lk_fresh_ok orig lockup vesting start endt extra now bond :
  lk_wf_b (mklka orig lockup vesting start endt 0 0) = true -> 0 <= extra ->
  let s := lk_fresh orig lockup vesting start endt extra now bond in
  lk_wfs s /\ lk_inv s /\ lk_safe s /\ lk_tracked_le_actual s.
Proof.
  intros Hwf He s. assert (Hw : lk_wfs s) by (unfold lk_wfs, s, lk_fresh; lk_proj; repeat split; try assumption; lia).
  assert (Hi : lk_inv s) by (apply lk_inv_of_funded; [exact Hw|unfold s, lk_fresh; lk_proj; lia]).
  split; [exact Hw|]. split; [exact Hi|]. split.
  - apply lk_inv_safe; assumption.
  - unfold lk_tracked_le_actual, s, lk_fresh. lk_proj. destruct bond; lia.
Qed.

(** the eth ante pre-check accepts only values the debit rule accepts *)
Lemma lk_eth_precheck_sound s v : lk_eth_value_precheck s v = true -> 0 < v ->
  lk_send s v = (lk_set_bal s (lk_bal s - v), LK_OK).
Proof.
  unfold lk_eth_value_precheck. destruct (Z.eqb_spec (lk_bal s) 0); [discriminate|]. cbv zeta.
  destruct (Z.ltb_spec (lk_bal s) (lk_locked_coins (lk_a s) (lk_now s))); intros Hle Hv; apply Z.leb_le in Hle.
  - lia.
  - apply lk_send_succeeds_within_spendable; lia.
Qed.

(** * the gap: a grant merged after a slash leaves the balance below the locked amount *)
Definition lk_ex_lockup : list lk_period := [(1000, 100)].
Definition lk_ex_vesting : list lk_period := [(10, 100)].
Definition lk_ex_start : lk_state := lk_fresh 100 lk_ex_lockup lk_ex_vesting 0 1000 0 50 true.
Definition lk_underwater_witness : list lk_op :=
  [LkDelegate 100; LkSlash 50 0; LkAddGrant 10 0 1000 [(1000, 110)] [(10, 100); (90, 10)]].

Lemma lk_inv_refuted :
  let s := lk_run lk_underwater_witness lk_ex_start in
  lk_wfs lk_ex_start /\ lk_inv lk_ex_start /\ lk_tracked_le_actual lk_ex_start /\
  snd (lk_step (lk_run [LkDelegate 100; LkSlash 50 0] lk_ex_start) (LkAddGrant 10 0 1000 [(1000, 110)] [(10, 100); (90, 10)])) = LK_OK /\
  lk_bal s = 10 /\ lk_locked_coins (lk_a s) (lk_now s) = 60 /\ lk_unvested (lk_a s) (lk_now s) = 10 /\ ~ lk_inv s.
Proof.
  cbv zeta. destruct (lk_fresh_ok 100 lk_ex_lockup lk_ex_vesting 0 1000 0 50 true eq_refl ltac:(lia)) as (H1 & H2 & _ & H4).
  split; [exact H1|]. split; [exact H2|]. split; [exact H4|].
  repeat split; try (vm_compute; reflexivity). unfold lk_inv. vm_compute. intros H. apply H. reflexivity.
Qed.

(** ... in that state every debit fails, the funder's clawback included, although the unvested coins are in the balance *)
Lemma lk_underwater_blocks_clawback :
  let s := lk_run lk_underwater_witness lk_ex_start in
  snd (lk_clawback s [(1000, 100)] 1000) = LK_INSUFFICIENT /\ lk_unvested (lk_a s) (lk_now s) <= lk_bal s /\
  (forall x, 0 < x -> snd (lk_send s x) = LK_INSUFFICIENT).
Proof.
  cbv zeta. split; [vm_compute; reflexivity|]. split; [vm_compute; discriminate|].
  intros x Hx. unfold lk_send. destruct (Z.leb_spec x 0); [lia|].
  replace (lk_bal (lk_run lk_underwater_witness lk_ex_start)) with 10 by (vm_compute; reflexivity).
  replace (lk_locked_coins _ _) with 60 by (vm_compute; reflexivity). reflexivity.
Qed.

(** * non-vacuity: a two-schedule account mid-way, every operation succeeding once *)
Definition lk_ex2_state : lk_state :=
  lk_fresh 1000 [(100, 400); (100, 600)] [(50, 250); (50, 250); (50, 250); (50, 250)] 0 200 30 120 true.
Definition lk_ex2_history : list lk_op :=
  [LkSend 100; LkSend 400; LkDelegate 200; LkAdvance 40; LkUndelegate 50; LkComplete 50; LkReceive 5;
   LkClawback [(100, 400); (100, 350)] 200; LkSend 300; LkSlash 100 0; LkAdvance 100; LkSend 200].

Example lk_ex2_runs :
  lk_wfs lk_ex2_state /\ lk_inv lk_ex2_state /\ lk_tracked_le_actual lk_ex2_state /\
  lk_vested (lk_a lk_ex2_state) 120 = 500 /\ lk_unlocked (lk_a lk_ex2_state) 120 = 400 /\
  lk_locked_coins (lk_a lk_ex2_state) 120 = 600 /\
  snd (lk_step lk_ex2_state (LkSend 431)) = LK_INSUFFICIENT /\
  snd (lk_step lk_ex2_state (LkDelegate 531)) = LK_UNVESTED /\
  map (fun k => snd (lk_step (lk_run (firstn k lk_ex2_history) lk_ex2_state) (nth k lk_ex2_history (LkReceive 0))))
      (seq 0 12) = [LK_OK; LK_INSUFFICIENT; LK_OK; LK_OK; LK_OK; LK_OK; LK_OK; LK_OK; LK_OK; LK_OK; LK_OK; LK_OK] /\
  lk_no_grant_after_slash false lk_ex2_history = true /\
  lk_inv (lk_run lk_ex2_history lk_ex2_state) /\ lk_bal (lk_run lk_ex2_history lk_ex2_state) = 35.
Proof.
  destruct (lk_fresh_ok 1000 [(100, 400); (100, 600)] [(50, 250); (50, 250); (50, 250); (50, 250)] 0 200 30 120 true eq_refl ltac:(lia))
    as (H1 & H2 & _ & H4).
  split; [exact H1|]. split; [exact H2|]. split; [exact H4|].
  repeat split; try (vm_compute; reflexivity).
  apply lk_run_inv_partial; try assumption. reflexivity.
Qed.

(** * statements as used in Props/C08.v *)
Lemma lk_locked_eq_max_wf_full a t : lk_wf_b a = true ->
  lk_locked_coins a t = Z.max (lk_orig a - lk_unlocked_vested a t - (lk_df a + lk_dv a)) (lk_unvested a t)
  /\ 0 <= lk_vested a t <= lk_orig a /\ 0 <= lk_unlocked a t <= lk_orig a.
Proof. intros H. exact (conj (lk_locked_eq_max_wf a t H) (conj (lk_vested_bounds a t H) (lk_unlocked_bounds a t H))). Qed.

Lemma lk_successful_debit s x s' : lk_send s x = (s', LK_OK) ->
  lk_locked_coins (lk_a s') (lk_now s') <= lk_bal s' /\ 0 < x <= lk_bal s - lk_locked_coins (lk_a s) (lk_now s).
Proof.
  intros H. split; [exact (lk_send_establishes_inv s x s' H)|].
  destruct (lk_send_ok s x s' H) as (H1 & _ & H3 & _). exact (conj H1 H3).
Qed.

Lemma lk_delegation_within_vested s x s' : lk_delegate s x = (s', LK_OK) ->
  0 < x <= lk_bal s - lk_unvested (lk_a s) (lk_now s) /\ lk_bal s' = lk_bal s - x.
Proof. intros H. destruct (lk_delegate_ok s x s' H) as (_ & H1 & H2 & _ & ->). split; [lia|reflexivity]. Qed.

Lemma lk_run_safe_wfs ops s : lk_wfs s -> lk_safe s -> lk_safe (lk_run ops s) /\ lk_wfs (lk_run ops s).
Proof. intros Hw Hs. exact (conj (lk_run_safe ops s Hw Hs) (lk_run_wfs ops s Hw)). Qed.
