(** Proofs about the vesting keeper model (property C09), over all operation
    histories: only the recorded funder can claw back, a clawback moves exactly
    the unvested amount, merging a grant is the union of the release events (for
    CreateClawbackVestingAccount with merge and for ApplyVestingSchedule after
    the fix; refuted for the pinned ApplyVestingSchedule), a failed message
    changes nothing. *)
From Coq Require Import ZArith List Lia.
From stdpp Require Import gmap.
From HV Require Import Base.Coins Vesting.ScheduleModel Vesting.ScheduleProofs Vesting.AccountProofs
  Vesting.KeeperModel.
Import ListNotations.
Local Open Scope Z_scope.

Section KeeperProofs.
  Variable blocked : N -> bool.
  Variable bond : N.

  (** * bank send *)
  Lemma send_shape s t from to c s' r : send s t from to c = (s', r) ->
    (r <> OK /\ s' = s) \/
    (r = OK /\ accts s' = touch (accts s) to /\
     bank s' = <[to := cadd (default ∅ (<[from := csub (bal s from) c]> (bank s) !! to)) c]>
                 (<[from := csub (bal s from) c]> (bank s))).
  Proof.
    unfold send. destruct (match accts s !! from with Some (Claw va) => locked_coins va t | _ => Some ∅ end).
    - destruct (negb _); intros [= <- <-]; [left|right]; done.
    - intros [= <- <-]. by left.
  Qed.

  Lemma touch_claw m a b va : touch m a !! b = Some (Claw va) <-> m !! b = Some (Claw va).
  Proof.
    unfold touch. destruct (m !! a) eqn:E; [done|].
    destruct (decide (a = b)) as [->|]; [rewrite lookup_insert, E; split; congruence|by rewrite lookup_insert_ne].
  Qed.
  Lemma touch_same m a x : m !! a = Some x -> touch m a = m.
  Proof. unfold touch. by intros ->. Qed.

  Lemma send_bank s t a dest c s' : send s t a dest c = (s', OK) ->
    forall b d, amt (bal s' b) d = amt (bal s b) d - (if decide (b = a) then amt c d else 0)
                                                 + (if decide (b = dest) then amt c d else 0).
  Proof.
    intros H b d. apply send_shape in H as [[H _]|(_ & _ & Hb)]; [done|].
    unfold bal at 1. rewrite Hb.
    destruct (decide (b = dest)) as [->|Hbd].
    - rewrite lookup_insert. cbn [from_option id]. rewrite amt_cadd.
      destruct (decide (dest = a)) as [->|Hda].
      + rewrite lookup_insert. cbn [from_option id]. rewrite amt_csub. lia.
      + rewrite lookup_insert_ne by done. fold (bal s dest). lia.
    - rewrite lookup_insert_ne by done.
      destruct (decide (b = a)) as [->|Hba].
      + rewrite lookup_insert. cbn [from_option id]. rewrite amt_csub. lia.
      + rewrite lookup_insert_ne by done. fold (bal s b). lia.
  Qed.

  Lemma wrap_send (s X : kstate) t from to c s2 r2 :
    (let '(s', r) := send X t from to c in if N.eqb r OK then (s', OK) else (s, r)) = (s2, r2) ->
    (r2 = OK /\ send X t from to c = (s2, OK)) \/ (r2 <> OK /\ s2 = s).
  Proof.
    destruct (send X t from to c) as [s' r]. destruct (N.eqb_spec r OK); intros [= <- <-]; subst; auto.
  Qed.

  (** * shapes of the message handlers *)
  Section Fixed.
  Variable fixed : bool.

  Lemma create_shape s t from to start lp0 vp0 merge deleg s' r :
    create blocked bond s t from to start lp0 vp0 merge deleg = (s', r) ->
    (r <> OK /\ s' = s) \/
    (r = OK /\ blocked to = false /\ basic_ok lp0 vp0 = true /\
     let '(lp, vp, lc, vc) := with_defaults lp0 vp0 in
     coin_eq vc lc = true /\
     exists va', send (set_acct s to (Claw va')) t from to vc = (s', OK) /\
       ((accts s !! to = None /\ va' = new_account from vc start lp vp) \/
        (exists va, accts s !! to = Some (Claw va) /\ merge = true /\ from = funder va /\
                    add_grant bond va start lp vp vc deleg = Some va'))).
  Proof.
    unfold create. destruct (basic_ok lp0 vp0); cbn [negb]; [|intros [= <- <-]; by left].
    destruct (blocked to); [intros [= <- <-]; by left|].
    destruct (with_defaults lp0 vp0) as [[[lp vp] lc] vc]. fold (coin_eq vc lc).
    destruct (coin_eq vc lc); cbn [negb]; [|intros [= <- <-]; by left].
    destruct (accts s !! to) as [[|va]|] eqn:E.
    - intros [= <- <-]. left. by destruct merge.
    - destruct merge; cbn [negb]; [|intros [= <- <-]; by left].
      destruct (N.eqb_spec from (funder va)); cbn [negb]; [|intros [= <- <-]; by left].
      destruct (add_grant bond va start lp vp vc deleg) as [va'|] eqn:Eg; [|intros [= <- <-]; by left].
      intros H. apply wrap_send in H as [[-> H]|[H ->]]; [right|by left].
      repeat split; try done. exists va'. split; [done|]. right. exists va. done.
    - intros H. apply wrap_send in H as [[-> H]|[H ->]]; [right|by left].
      repeat split; try done. eexists. split; [done|]. by left.
  Qed.

  Definition gstart (va : account) (start : Z) : Z := if fixed then start else Z.min start (start_time va).

  Lemma convert_shape s t from to start lp0 vp0 merge deleg s' r :
    convert blocked bond fixed s t from to start lp0 vp0 merge deleg = (s', r) ->
    (r <> OK /\ s' = s) \/
    (r = OK /\ blocked to = false /\ basic_ok lp0 vp0 = true /\
     let '(lp, vp, lc, vc) := with_defaults lp0 vp0 in
     coin_eq vc lc = true /\
     exists va', send (set_acct s to (Claw va')) t from to vc = (s', OK) /\
       ((accts s !! to = None /\ va' = new_account from vc start lp vp) \/
        (accts s !! to = Some Plain /\ funder va' = from /\ start_time va' = start /\
           lockup va' = lockup (new_account from vc start lp vp) /\
           vesting va' = vesting (new_account from vc start lp vp) /\
           original va' = vc /\ end_time va' = end_time (new_account from vc start lp vp) /\
           dvest va' = ∅ /\ dfree va' = cset ∅ bond deleg) \/
        (exists va, accts s !! to = Some (Claw va) /\ merge = true /\ from = funder va /\
                    add_grant bond va (gstart va start) lp vp vc deleg = Some va'))).
  Proof.
    unfold convert. destruct (basic_ok lp0 vp0); cbn [negb]; [|intros [= <- <-]; by left].
    destruct (blocked to); [intros [= <- <-]; by left|].
    destruct (with_defaults lp0 vp0) as [[[lp vp] lc] vc]. fold (coin_eq vc lc).
    destruct (coin_eq vc lc); cbn [negb]; [|intros [= <- <-]; by left].
    destruct (accts s !! to) as [[|va]|] eqn:E.
    - intros H. apply wrap_send in H as [[-> H]|[H ->]]; [right|by left].
      repeat split; try done. eexists. split; [done|]. right. left.
      unfold new_account, align. cbn. repeat split; done.
    - destruct merge; cbn [negb]; [|intros [= <- <-]; by left].
      destruct (N.eqb_spec from (funder va)); cbn [negb]; [|intros [= <- <-]; by left].
      fold (gstart va start).
      destruct (add_grant bond va (gstart va start) lp vp vc deleg) as [va'|] eqn:Eg; [|intros [= <- <-]; by left].
      intros H. apply wrap_send in H as [[-> H]|[H ->]]; [right|by left].
      repeat split; try done. exists va'. split; [done|]. right. right. exists va. done.
    - intros H. apply wrap_send in H as [[-> H]|[H ->]]; [right|by left].
      repeat split; try done. eexists. split; [done|]. by left.
  Qed.

  Lemma compute_clawback_vesting va t va' c : compute_clawback va t = Some (va', c) ->
    get_vesting va t = Some c /\ funder va' = funder va /\ start_time va' = start_time va /\
    original va' = get_vested va t.
  Proof.
    unfold compute_clawback. destruct (get_vesting va t) as [u|]; [|discriminate].
    destruct (conjunct _ _ _ _) as [[? ?] ?]. by intros [= <- <-].
  Qed.

  Lemma clawback_shape s t f a dest0 s' r :
    clawback blocked s t f a dest0 = (s', r) ->
    (r <> OK /\ s' = s) \/
    (r = OK /\ blocked (default f dest0) = false /\
     exists va va' c, accts s !! a = Some (Claw va) /\ funder va = f /\
       compute_clawback va t = Some (va', c) /\
       ((is_zero c = true /\ s' = s) \/
        (is_zero c = false /\ send (set_acct s a (Claw va')) t a (default f dest0) c = (s', OK)))).
  Proof.
    unfold clawback. destruct (blocked (default f dest0)); [intros [= <- <-]; by left|].
    destruct (accts s !! a) as [[|va]|] eqn:E; [intros [= <- <-]; by left| |intros [= <- <-]; by left].
    destruct (_ && _)%nat; [intros [= <- <-]; by left|].
    destruct (N.eqb_spec (funder va) f); cbn [negb]; [|intros [= <- <-]; by left].
    destruct (compute_clawback va t) as [[va' c]|] eqn:Ec; [|intros [= <- <-]; by left].
    destruct (is_zero c) eqn:Ez.
    - intros [= <- <-]. right. repeat split; try done. exists va, va', c. repeat split; auto.
    - intros H. apply wrap_send in H as [[-> H]|[H ->]]; [right|by left].
      repeat split; try done. exists va, va', c. repeat split; auto.
  Qed.

  Lemma update_funder_shape s f newf a s' r :
    update_funder blocked s f newf a = (s', r) ->
    (r <> OK /\ s' = s) \/
    (r = OK /\ f <> newf /\ blocked newf = false /\
     exists va, accts s !! a = Some (Claw va) /\ funder va = f /\
       s' = set_acct s a (Claw (mkacc newf (start_time va) (end_time va) (original va) (lockup va)
                                      (vesting va) (dfree va) (dvest va)))).
  Proof.
    unfold update_funder. destruct (N.eqb_spec f newf); [intros [= <- <-]; by left|].
    destruct (blocked newf); [intros [= <- <-]; by left|].
    destruct (accts s !! a) as [[|va]|] eqn:E; [intros [= <- <-]; by left| |intros [= <- <-]; by left].
    destruct (N.eqb_spec (funder va) f); cbn [negb]; [|intros [= <- <-]; by left].
    intros [= <- <-]. right. repeat split; try done. by exists va.
  Qed.

  Lemma convert_back_shape s t a s' r :
    convert_back s t a = (s', r) ->
    (r <> OK /\ s' = s) \/ (r = OK /\ exists va, accts s !! a = Some (Claw va) /\ s' = set_acct s a Plain).
  Proof.
    unfold convert_back. destruct (accts s !! a) as [[|va]|]; [intros [= <- <-]; by left| |intros [= <- <-]; by left].
    destruct (get_vesting va t); [|intros [= <- <-]; by left].
    destruct (negb _); [intros [= <- <-]; by left|].
    destruct (get_locked_up va t); [|intros [= <- <-]; by left].
    destruct (negb _); intros [= <- <-]; [by left|]. right. split; [done|]. by exists va.
  Qed.

  Notation step := (step blocked bond fixed).

  (** * a rejected message changes nothing *)
  Theorem step_fail s o s' r : step s o = (s', r) -> r <> OK -> s' = s.
  Proof.
    destruct o; cbn [KeeperModel.step]; intros H Hr.
    - by injection H as <- <-.
    - destruct (blocked to); [by injection H as <- <-|]. apply send_shape in H as [[_ ->]|[-> _]]; done.
    - apply create_shape in H as [[_ ->]|[-> _]]; done.
    - apply convert_shape in H as [[_ ->]|[-> _]]; done.
    - apply clawback_shape in H as [[_ ->]|[-> _]]; done.
    - apply update_funder_shape in H as [[_ ->]|[-> _]]; done.
    - apply convert_back_shape in H as [[_ ->]|[-> _]]; done.
  Qed.

  (** * only the recorded funder can claw back *)
  (** the funder recorded by the message history: [from] of the last successful
      create / convert-into message for the account, or the new funder of the
      last successful update-funder message *)
  Definition record (g : gmap N N) (o : op) : gmap N N :=
    match o with
    | Create _ from to _ _ _ _ _ | Convert _ from to _ _ _ _ _ => <[to := from]> g
    | UpdateFunder _ _ newf a => <[a := newf]> g
    | _ => g
    end.
  Definition gstep (sg : kstate * gmap N N) (o : op) : kstate * gmap N N :=
    let '(s', r) := step (fst sg) o in (s', if N.eqb r OK then record (snd sg) o else snd sg).
  Definition grun (ops : list op) : kstate * gmap N N := fold_left gstep ops (kinit, ∅).

  Definition ginv (sg : kstate * gmap N N) : Prop :=
    forall a va, accts (fst sg) !! a = Some (Claw va) -> snd sg !! a = Some (funder va).

  Lemma send_claw X t from to c s' b vb : send X t from to c = (s', OK) ->
    accts s' !! b = Some (Claw vb) <-> accts X !! b = Some (Claw vb).
  Proof. intros H. apply send_shape in H as [[H _]|(_ & -> & _)]; [done|]. apply touch_claw. Qed.

  Lemma add_grant_funder va gs lp vp vc deleg va' :
    add_grant bond va gs lp vp vc deleg = Some va' -> funder va' = funder va.
  Proof.
    unfold add_grant. destruct (disjunct _ _ (lockup va) _) as [[? ?] ?].
    destruct (disjunct _ _ (vesting va) _) as [[? ?] ?]. destruct (negb _); [discriminate|]. by intros [= <-].
  Qed.

  Lemma gstep_inv sg o : ginv sg -> ginv (gstep sg o).
  Proof.
    destruct sg as [s g]. unfold ginv, gstep. cbn [fst snd]. intros Hi.
    destruct (step s o) as [s' r] eqn:Hs. cbn [fst snd].
    destruct (N.eqb_spec r OK) as [->|Hr]; [|by rewrite (step_fail _ _ _ _ Hs Hr)].
    destruct o; cbn [KeeperModel.step record] in *.
    - injection Hs as <-. cbn [accts]. intros b vb Hb. apply touch_claw in Hb. auto.
    - destruct (blocked to); [discriminate|]. intros b vb Hb. rewrite (send_claw _ _ _ _ _ _ _ _ Hs) in Hb. auto.
    - apply create_shape in Hs as [[? _]|(_ & _ & _ & Hs)]; [done|].
      destruct (with_defaults _ _) as [[[lp' vp'] lc] vc]. destruct Hs as (_ & va' & Hsend & Hk).
      intros b vb Hb. rewrite (send_claw _ _ _ _ _ _ _ _ Hsend) in Hb. cbn [set_acct accts] in Hb.
      destruct (decide (to = b)) as [->|Hne]; [|rewrite lookup_insert_ne in Hb by done; rewrite lookup_insert_ne by done; auto].
      rewrite lookup_insert in Hb; rewrite lookup_insert. injection Hb as <-.
      destruct Hk as [[_ ->]|(va & _ & _ & -> & Hg)]; [done|]. by rewrite (add_grant_funder _ _ _ _ _ _ _ Hg).
    - apply convert_shape in Hs as [[? _]|(_ & _ & _ & Hs)]; [done|].
      destruct (with_defaults _ _) as [[[lp' vp'] lc] vc]. destruct Hs as (_ & va' & Hsend & Hk).
      intros b vb Hb. rewrite (send_claw _ _ _ _ _ _ _ _ Hsend) in Hb. cbn [set_acct accts] in Hb.
      destruct (decide (to = b)) as [->|Hne]; [|rewrite lookup_insert_ne in Hb by done; rewrite lookup_insert_ne by done; auto].
      rewrite lookup_insert in Hb; rewrite lookup_insert. injection Hb as <-.
      destruct Hk as [[_ ->]|[(_ & -> & _)|(va & _ & _ & -> & Hg)]]; [done|done|].
      by rewrite (add_grant_funder _ _ _ _ _ _ _ Hg).
    - apply clawback_shape in Hs as [[? _]|(_ & _ & va & va' & c & Ha & Hf & Hc & Hk)]; [done|].
      destruct Hk as [[_ ->]|[_ Hsend]]; [auto|].
      intros b vb Hb. rewrite (send_claw _ _ _ _ _ _ _ _ Hsend) in Hb. cbn [set_acct accts] in Hb.
      destruct (decide (a = b)) as [->|Hne]; [|rewrite lookup_insert_ne in Hb by done; auto].
      rewrite lookup_insert in Hb. injection Hb as <-.
      apply compute_clawback_vesting in Hc as (_ & -> & _). auto.
    - apply update_funder_shape in Hs as [[? _]|(_ & _ & _ & va & Ha & Hf & ->)]; [done|].
      intros b vb Hb. cbn [set_acct accts] in Hb.
      destruct (decide (a = b)) as [->|Hne]; [|rewrite lookup_insert_ne in Hb by done; rewrite lookup_insert_ne by done; auto].
      rewrite lookup_insert in Hb; rewrite lookup_insert. by injection Hb as <-.
    - apply convert_back_shape in Hs as [[? _]|(_ & va & Ha & ->)]; [done|].
      intros b vb Hb. cbn [set_acct accts] in Hb.
      destruct (decide (a = b)) as [->|Hne]; [by rewrite lookup_insert in Hb|rewrite lookup_insert_ne in Hb by done; auto].
  Qed.

  Lemma grun_inv ops : ginv (grun ops).
  Proof.
    unfold grun. assert (H0 : ginv (kinit, ∅)) by (intros a va H; cbn in H; by rewrite lookup_empty in H).
    revert H0. generalize (kinit, ∅ : gmap N N). induction ops as [|o r IH]; intros sg H; cbn [fold_left]; [done|].
    apply IH. by apply gstep_inv.
  Qed.

  Lemma grun_state ops : fst (grun ops) = run blocked bond fixed ops kinit.
  Proof.
    unfold grun, run. generalize (∅ : gmap N N). generalize kinit.
    induction ops as [|o r IH]; intros s g; cbn [fold_left]; [done|].
    unfold gstep at 2. cbn [fst snd]. destruct (KeeperModel.step blocked bond fixed s o) as [s' res]. cbn [fst]. apply IH.
  Qed.

  (** After any history, a clawback message is accepted only when its signer is
      the funder recorded by the last successful create / convert-into /
      update-funder message for that account. *)
  Theorem only_funder_claws ops t f a dest s' :
    step (fst (grun ops)) (Clawback t f a dest) = (s', OK) -> snd (grun ops) !! a = Some f.
  Proof.
    intros H. cbn [KeeperModel.step] in H.
    apply clawback_shape in H as [[? _]|(_ & _ & va & _ & _ & Ha & <- & _)]; [done|].
    by apply (grun_inv ops).
  Qed.

  (** the same for the update of the funder *)
  Theorem only_funder_updates ops t f newf a s' :
    step (fst (grun ops)) (UpdateFunder t f newf a) = (s', OK) -> snd (grun ops) !! a = Some f.
  Proof.
    intros H. cbn [KeeperModel.step] in H.
    apply update_funder_shape in H as [[? _]|(_ & _ & _ & va & Ha & <- & _)]; [done|].
    by apply (grun_inv ops).
  Qed.

  (** * a clawback moves exactly the unvested amount *)
  Theorem clawback_moves_exactly_unvested s t f a dest0 s' :
    step s (Clawback t f a dest0) = (s', OK) ->
    let dest := default f dest0 in
    exists va u, accts s !! a = Some (Claw va) /\ funder va = f /\ blocked dest = false /\
      get_vesting va t = Some u /\
      (forall d, amt u d = amt (original va) d - amt (get_vested va t) d) /\
      (* bank: the account loses u, the destination gains u, nobody else moves *)
      (forall b d, amt (bal s' b) d = amt (bal s b) d - (if decide (b = a) then amt u d else 0)
                                                     + (if decide (b = dest) then amt u d else 0)) /\
      (* accounts: only [a] changes (and the destination account is created if absent) *)
      (forall b vb, b <> a -> accts s' !! b = Some (Claw vb) <-> accts s !! b = Some (Claw vb)) /\
      ((forall d, amt u d = 0) -> s' = s) /\
      ((exists d, amt u d <> 0) ->
         exists va', compute_clawback va t = Some (va', u) /\ accts s' !! a = Some (Claw va')).
  Proof.
    intros H dest. cbn [KeeperModel.step] in H.
    apply clawback_shape in H as [[? _]|(_ & Hb & va & va' & c & Ha & Hf & Hc & Hk)]; [done|].
    exists va, c. pose proof (compute_clawback_vesting _ _ _ _ Hc) as (Hu & _ & _ & _).
    repeat split; try done.
    { intros d. unfold get_vesting in Hu. apply csub_chk_Some in Hu as [-> _]. by rewrite amt_csub. }
    - intros b d. destruct Hk as [[Hz ->]|[_ Hsend]].
      + rewrite (proj1 (is_zero_spec c) Hz d). destruct (decide _), (decide _); lia.
      + rewrite (send_bank _ _ _ _ _ _ Hsend b d). done.
    - destruct Hk as [[Hz ->]|[_ Hsend]]; [done|].
      rewrite (send_claw _ _ _ _ _ _ _ _ Hsend). cbn [set_acct accts]. by rewrite lookup_insert_ne.
    - destruct Hk as [[Hz ->]|[_ Hsend]]; [done|].
      rewrite (send_claw _ _ _ _ _ _ _ _ Hsend). cbn [set_acct accts]. by rewrite lookup_insert_ne.
    - intros Hz. destruct Hk as [[_ ->]|[Hnz _]]; [done|]. apply is_zero_false in Hnz as [d Hd]. by specialize (Hz d).
    - intros [d Hd]. destruct Hk as [[Hz _]|[_ Hsend]]; [by rewrite (proj1 (is_zero_spec c) Hz d) in Hd|].
      exists va'. split; [done|]. rewrite (send_claw _ _ _ _ _ _ _ _ Hsend). cbn [set_acct accts]. by rewrite lookup_insert.
  Qed.

  (** * merging a grant = union of the release events *)
  (** what "the merged account is the union of the old account and the grant
      (start [gs], lockup [glp], vesting [gvp], coins [gc])" means *)
  Definition is_union (va : account) (gs : Z) (glp gvp : periods) (gc : coins) (va' : account) : Prop :=
    funder va' = funder va /\
    start_time va' = Z.min (start_time va) gs /\
    (forall t d, amt (ev (start_time va') (lockup va') t) d
                 = amt (ev (start_time va) (lockup va) t) d + amt (ev gs glp t) d) /\
    (forall t d, amt (ev (start_time va') (vesting va') t) d
                 = amt (ev (start_time va) (vesting va) t) d + amt (ev gs gvp t) d) /\
    (forall d, amt (original va') d = amt (original va) d + amt gc d) /\
    end_time va' = Z.max (start_time va' + total_len (lockup va')) (start_time va' + total_len (vesting va')).

  Lemma add_grant_union va gs glp gvp gc deleg va' :
    add_grant bond va gs glp gvp gc deleg = Some va' -> is_union va gs glp gvp gc va'.
  Proof.
    unfold add_grant.
    pose proof (disjunct_union (start_time va) gs (lockup va) glp) as Hl.
    pose proof (disjunct_union (start_time va) gs (vesting va) gvp) as Hvv.
    pose proof (disjunct_end_len (start_time va) gs (lockup va) glp) as Hel.
    pose proof (disjunct_end_len (start_time va) gs (vesting va) gvp) as Hev.
    pose proof (disjunct_start (start_time va) gs (lockup va) glp) as Hsl.
    pose proof (disjunct_start (start_time va) gs (vesting va) gvp) as Hsv.
    destruct (disjunct _ _ (lockup va) _) as [[ls le] lp'].
    destruct (disjunct _ _ (vesting va) _) as [[vs ve] vp']. cbn [fst] in Hsl, Hsv. subst ls vs.
    rewrite Z.eqb_refl. cbn [negb]. intros [= <-]. unfold is_union.
    cbn [funder start_time end_time lockup vesting original].
    repeat split; try done.
    - intros d. apply amt_cadd.
    - by rewrite Hel, Hev.
  Qed.

  (** CreateClawbackVestingAccount with merge *)
  Theorem create_merge_union s t from to start lp vp deleg s' va :
    step s (Create t from to start lp vp true deleg) = (s', OK) ->
    accts s !! to = Some (Claw va) ->
    let '(glp, gvp, _, gc) := with_defaults (of_pl lp) (of_pl vp) in
    exists va', accts s' !! to = Some (Claw va') /\ from = funder va /\ is_union va start glp gvp gc va'.
  Proof.
    intros H Ha. cbn [KeeperModel.step] in H. apply create_shape in H as [[? _]|(_ & _ & _ & H)]; [done|].
    destruct (with_defaults _ _) as [[[glp gvp] lc] gc]. destruct H as (_ & va' & Hsend & Hk).
    destruct Hk as [[Hn _]|(va0 & Ha0 & _ & Hf & Hg)]; [congruence|].
    assert (va0 = va) as -> by congruence.
    exists va'. split; [|split; [done|by eapply add_grant_union]].
    rewrite (send_claw _ _ _ _ _ _ _ _ Hsend). cbn [set_acct accts]. by rewrite lookup_insert.
  Qed.
  End Fixed.

  (** ConvertIntoVestingAccount with merge -> ApplyVestingSchedule, after the fix *)
  Theorem apply_merge_union s t from to start lp vp deleg s' va :
    KeeperModel.step blocked bond true s (Convert t from to start lp vp true deleg) = (s', OK) ->
    accts s !! to = Some (Claw va) ->
    let '(glp, gvp, _, gc) := with_defaults (of_pl lp) (of_pl vp) in
    exists va', accts s' !! to = Some (Claw va') /\ from = funder va /\ is_union va start glp gvp gc va'.
  Proof.
    intros H Ha. cbn [KeeperModel.step] in H. apply convert_shape in H as [[? _]|(_ & _ & _ & H)]; [done|].
    destruct (with_defaults _ _) as [[[glp gvp] lc] gc]. destruct H as (_ & va' & Hsend & Hk).
    destruct Hk as [[Hn _]|[[Hn _]|(va0 & Ha0 & _ & Hf & Hg)]]; [congruence|congruence|].
    assert (va0 = va) as -> by congruence. cbn [gstart] in Hg.
    exists va'. split; [|split; [done|by eapply add_grant_union]].
    rewrite (send_claw _ _ _ _ _ _ _ _ Hsend). cbn [set_acct accts]. by rewrite lookup_insert.
  Qed.
End KeeperProofs.

(** * Reachable accounts are coherent; merged accounts release the sum *)
Lemma bump_zero ps : lens_ok ps ->
  lens_ok (bump ps 0) /\ total_len (bump ps 0) = total_len ps /\
  (forall d, amt (total_amount (bump ps 0)) d = amt (total_amount ps) d) /\
  (amts_ok ps -> amts_ok (bump ps 0)) /\
  (forall d s t, evd d s (bump ps 0) t = evd d s ps t) /\
  (Forall (fun p => 0 < len p) ps -> Forall (fun p => 0 < len p) (bump ps 0)).
Proof.
  intros Hl. destruct ps as [|p r]; cbn [bump]; [repeat split; auto|].
  inversion Hl; subst. split; [|split; [|split; [|split; [|split]]]].
  - constructor; cbn; [lia|done].
  - rewrite !total_len_cons. cbn. lia.
  - intros d. by rewrite !total_amount_cons.
  - intros Ha. inversion Ha; subst. by constructor.
  - intros d s t. cbn [evd len amount]. by replace (s + (len p + 0)) with (s + len p) by lia.
  - intros Hp. inversion Hp; subst. constructor; cbn; [lia|done].
Qed.

Definition good (va : account) : Prop := coherent va /\ wf_acc va /\ dvest va = ∅.

Lemma new_account_good f vc start lp vp :
  lens_ok lp -> lens_ok vp -> amts_ok lp -> amts_ok vp -> nonneg vc ->
  (forall d, amt vc d = amt (total_amount lp) d) -> (forall d, amt vc d = amt (total_amount vp) d) ->
  good (new_account f vc start lp vp).
Proof.
  intros Hll Hvl Hla Hva Hvc Hl Hvv. unfold new_account, align. rewrite Z.min_id, Z.sub_diag.
  destruct (bump_zero lp Hll) as (L1 & L2 & L3 & L4 & _). destruct (bump_zero vp Hvl) as (V1 & V2 & V3 & V4 & _).
  split; [|split; [|done]].
  - split; split; cbn [start_time end_time lockup vesting original]; try lia.
    + intros d. by rewrite L3.
    + intros d. by rewrite V3.
  - constructor; cbn [lockup vesting original dfree dvest]; auto; apply nonneg_empty.
Qed.

Section Reach.
  Variable blocked : N -> bool.
  Variable bond : N.

  Lemma cset_nonneg d v : 0 <= v -> nonneg (cset ∅ d v).
  Proof. intros Hv d'. rewrite amt_cset, amt_empty. destruct (decide _); lia. Qed.

  Lemma with_defaults_ok lp0 vp0 lp vp lc vc :
    basic_ok lp0 vp0 = true -> amts_ok lp0 -> amts_ok vp0 ->
    with_defaults lp0 vp0 = (lp, vp, lc, vc) ->
    lens_ok lp /\ lens_ok vp /\ amts_ok lp /\ amts_ok vp /\ nonneg lc /\ nonneg vc /\
    (forall d, amt lc d = amt (total_amount lp) d) /\ (forall d, amt vc d = amt (total_amount vp) d).
  Proof.
    intros Hb Hla Hva. unfold basic_ok in Hb. apply andb_prop in Hb as [Hb _]. apply andb_prop in Hb as [Hb _].
    apply andb_prop in Hb as [Hbl Hbv].
    assert (Hll : lens_ok lp0).
    { apply Forall_forall. intros p Hp. rewrite forallb_forall in Hbl. apply elem_of_list_In, Hbl in Hp. lia. }
    assert (Hvl : lens_ok vp0).
    { apply Forall_forall. intros p Hp. rewrite forallb_forall in Hbv. apply elem_of_list_In, Hbv in Hp. lia. }
    pose proof (total_amount_nonneg _ Hla) as Hnl. pose proof (total_amount_nonneg _ Hva) as Hnv.
    unfold with_defaults.
    assert (Hone : forall c, nonneg c -> lens_ok [mkp 0 c] /\ amts_ok [mkp 0 c] /\
                              forall d, amt c d = amt (total_amount [mkp 0 c]) d).
    { intros c Hc. split; [repeat constructor; cbn; lia|]. split; [by repeat constructor|].
      intros d. rewrite total_amount_cons, total_amount_nil. cbn. lia. }
    destruct (negb (is_zero (total_amount vp0)) && (length lp0 =? 0)%nat).
    - destruct (Hone _ Hnv) as (A1 & A2 & A3).
      destruct (negb (is_zero (total_amount vp0)) && (length vp0 =? 0)%nat); intros [= <- <- <- <-]; repeat split; auto.
    - destruct (Hone _ Hnl) as (A1 & A2 & A3).
      destruct (negb (is_zero (total_amount lp0)) && (length vp0 =? 0)%nat); intros [= <- <- <- <-]; repeat split; auto.
  Qed.

  (** keeper addGrant: coherent accounts stay coherent, and after both
      schedules have started the merged account releases the sum *)
  Lemma add_grant_good va gs glp gvp gc deleg va' :
    add_grant bond va gs glp gvp gc deleg = Some va' ->
    coherent va -> wf_acc va ->
    lens_ok glp -> lens_ok gvp -> amts_ok glp -> amts_ok gvp -> nonneg gc -> 0 <= deleg ->
    (forall d, amt gc d = amt (total_amount glp) d) -> (forall d, amt gc d = amt (total_amount gvp) d) ->
    good va'.
  Proof.
    intros Hg [[Hl1 Hl2] [Hv1 Hv2]] Hwf Hgl Hgv Hal Hav Hgc Hdel Hcl Hcv.
    pose proof (add_grant_union _ _ _ _ _ _ _ _ Hg) as (_ & _ & _ & _ & Ho & He).
    revert Hg Ho He. unfold add_grant, disjunct.
    rewrite Z.eqb_refl. cbn [negb]. intros [= <-]. cbn [start_time end_time lockup vesting original].
    intros Ho He. split; [|split; [|done]].
    - split; split; cbn [start_time end_time lockup vesting original]; try lia.
      + intros d. rewrite amt_cadd, dj_total, Hl2, Hcl. done.
      + intros d. rewrite amt_cadd, dj_total, Hv2, Hcv. done.
    - destruct Hwf. constructor; cbn [lockup vesting original dfree dvest].
      + apply (disjunct_lens (start_time va) gs); done.
      + by apply dj_amts.
      + apply (disjunct_lens (start_time va) gs); done.
      + by apply dj_amts.
      + by apply nonneg_cadd.
      + by apply cset_nonneg.
      + apply nonneg_empty.
  Qed.

  Theorem add_grant_releases_sum va gs glp gvp gc deleg va' :
    add_grant bond va gs glp gvp gc deleg = Some va' ->
    coherent va -> wf_acc va ->
    lens_ok glp -> lens_ok gvp -> amts_ok glp -> amts_ok gvp -> nonneg gc -> 0 <= deleg ->
    (forall d, amt gc d = amt (total_amount glp) d) -> (forall d, amt gc d = amt (total_amount gvp) d) ->
    forall t d, Z.max (start_time va) gs < t ->
      amt (get_unlocked va' t) d = amt (get_unlocked va t) d + amt (ev gs glp t) d /\
      amt (get_vested va' t) d = amt (get_vested va t) d + amt (ev gs gvp t) d.
  Proof.
    intros Hg Hc Hwf Hgl Hgv Hal Hav Hgc Hdel Hcl Hcv t d Ht.
    pose proof (add_grant_good _ _ _ _ _ _ _ Hg Hc Hwf Hgl Hgv Hal Hav Hgc Hdel Hcl Hcv) as (Hc' & Hwf' & _).
    pose proof (add_grant_union _ _ _ _ _ _ _ _ Hg) as (_ & Hs & Hul & Huv & _ & _).
    rewrite (unlocked_is_ev va' Hc' Hwf'), (vested_is_ev va' Hc' Hwf') by lia.
    rewrite (unlocked_is_ev va Hc Hwf), (vested_is_ev va Hc Hwf) by lia.
    specialize (Hul t d). specialize (Huv t d). rewrite !amt_ev in *. lia.
  Qed.

  Section Fixed.
  Variable fixed : bool.
  Notation step := (step blocked bond fixed).

  (** what the environment guarantees of a message: sdk.Coins amounts are
      non-negative, the observed staking amount is non-negative *)
  Definition op_ok (o : op) : Prop :=
    match o with
    | Create _ _ _ _ lp vp _ deleg | Convert _ _ _ _ lp vp _ deleg =>
        amts_ok (of_pl lp) /\ amts_ok (of_pl vp) /\ 0 <= deleg
    | _ => True
    end.

  Definition all_good (s : kstate) : Prop := forall a va, accts s !! a = Some (Claw va) -> good va.

  Lemma grant_good s from to start lp0 vp0 deleg lp vp lc vc va' :
    all_good s -> basic_ok lp0 vp0 = true -> amts_ok lp0 -> amts_ok vp0 -> 0 <= deleg ->
    with_defaults lp0 vp0 = (lp, vp, lc, vc) -> coin_eq vc lc = true ->
    forall gs,
    ((accts s !! to = None /\ va' = new_account from vc start lp vp) \/
     (accts s !! to = Some Plain /\ funder va' = from /\ start_time va' = start /\
           lockup va' = lockup (new_account from vc start lp vp) /\
           vesting va' = vesting (new_account from vc start lp vp) /\
           original va' = vc /\ end_time va' = end_time (new_account from vc start lp vp) /\
           dvest va' = ∅ /\ dfree va' = cset ∅ bond deleg) \/
     (exists va, accts s !! to = Some (Claw va) /\ add_grant bond va gs lp vp vc deleg = Some va')) ->
    good va'.
  Proof.
    intros Hall Hb Hla Hva Hdel Hwd Heq gs Hk.
    destruct (with_defaults_ok _ _ _ _ _ _ Hb Hla Hva Hwd) as (L1 & L2 & L3 & L4 & L5 & L6 & L7 & L8).
    pose proof (proj1 (coin_eq_spec _ _ L6 L5) Heq) as Hvl.
    assert (Hvc : forall d, amt vc d = amt (total_amount lp) d) by (intros d; by rewrite Hvl).
    pose proof (new_account_good from vc start lp vp L1 L2 L3 L4 L6 Hvc L8) as Hnew.
    destruct Hk as [[_ ->]|[(_ & Hf & Hs & Hlk & Hvs & Ho & He & Hdv & Hdf)|(va & Ha & Hg)]]; [done| |].
    - destruct Hnew as ([[N1 N2] [N3 N4]] & Hw & _). split; [|split; [|done]].
      + split; split; rewrite ?Hs, ?Hlk, ?Hvs, ?Ho, ?He; cbn [start_time original] in *; auto.
      + destruct Hw. constructor; rewrite ?Hlk, ?Hvs, ?Ho, ?Hdv, ?Hdf; auto;
          try (by apply cset_nonneg); try apply nonneg_empty.
    - destruct (Hall _ _ Ha) as (Hc & Hw & _). by eapply add_grant_good.
  Qed.

  Lemma step_good s o s' r : op_ok o -> all_good s -> step s o = (s', r) -> all_good s'.
  Proof.
    intros Hok Hall Hs. destruct (N.eq_dec r OK) as [->|Hr]; [|by rewrite (step_fail _ _ _ _ _ _ _ Hs Hr)].
    destruct o; cbn [KeeperModel.step] in Hs; cbn [op_ok] in Hok.
    - injection Hs as <-. intros b vb Hb. cbn [accts] in Hb. apply touch_claw in Hb. eauto.
    - destruct (blocked to); [discriminate|]. intros b vb Hb. rewrite (send_claw _ _ _ _ _ _ _ _ Hs) in Hb. eauto.
    - destruct Hok as (Hla & Hva & Hdel).
      apply create_shape in Hs as [[? _]|(_ & _ & Hb & Hs)]; [done|].
      destruct (with_defaults _ _) as [[[lp' vp'] lc] vc] eqn:Hwd. destruct Hs as (Heq & va' & Hsend & Hk).
      intros b vb Hb'. rewrite (send_claw _ _ _ _ _ _ _ _ Hsend) in Hb'. cbn [set_acct accts] in Hb'.
      destruct (decide (to = b)) as [->|Hne]; [|rewrite lookup_insert_ne in Hb' by done; eauto].
      rewrite lookup_insert in Hb'. injection Hb' as <-.
      eapply (grant_good s from b start _ _ deleg lp' vp' lc vc va' Hall Hb Hla Hva Hdel Hwd Heq start).
      destruct Hk as [?|(va & ? & _ & _ & ?)]; [by left|right; right; eauto].
    - destruct Hok as (Hla & Hva & Hdel).
      apply convert_shape in Hs as [[? _]|(_ & _ & Hb & Hs)]; [done|].
      destruct (with_defaults _ _) as [[[lp' vp'] lc] vc] eqn:Hwd. destruct Hs as (Heq & va' & Hsend & Hk).
      intros b vb Hb'. rewrite (send_claw _ _ _ _ _ _ _ _ Hsend) in Hb'. cbn [set_acct accts] in Hb'.
      destruct (decide (to = b)) as [->|Hne]; [|rewrite lookup_insert_ne in Hb' by done; eauto].
      rewrite lookup_insert in Hb'. injection Hb' as <-.
      destruct Hk as [?|[?|(va & ? & _ & _ & ?)]].
      + eapply (grant_good s from b start _ _ deleg lp' vp' lc vc va' Hall Hb Hla Hva Hdel Hwd Heq start). by left.
      + eapply (grant_good s from b start _ _ deleg lp' vp' lc vc va' Hall Hb Hla Hva Hdel Hwd Heq start).
        right; left. done.
      + eapply (grant_good s from b start _ _ deleg lp' vp' lc vc va' Hall Hb Hla Hva Hdel Hwd Heq).
        right; right; eauto.
    - apply clawback_shape in Hs as [[? _]|(_ & _ & va & va' & c & Ha & Hf & Hc & Hk)]; [done|].
      destruct Hk as [[_ ->]|[_ Hsend]]; [done|].
      intros b vb Hb. rewrite (send_claw _ _ _ _ _ _ _ _ Hsend) in Hb. cbn [set_acct accts] in Hb.
      destruct (decide (a = b)) as [->|Hne]; [|rewrite lookup_insert_ne in Hb by done; eauto].
      rewrite lookup_insert in Hb. injection Hb as <-.
      destruct (Hall _ _ Ha) as (Hco & Hw & Hdv).
      destruct (clawback_coherent va Hco Hw t va' c Hc) as [Hco' Hw']. split; [done|split; [done|]].
      rewrite (compute_clawback_eq va Hco Hw t) in Hc. by injection Hc as <- _.
    - apply update_funder_shape in Hs as [[? _]|(_ & _ & _ & va & Ha & Hf & ->)]; [done|].
      intros b vb Hb. cbn [set_acct accts] in Hb.
      destruct (decide (a = b)) as [->|Hne]; [|rewrite lookup_insert_ne in Hb by done; eauto].
      rewrite lookup_insert in Hb. injection Hb as <-. destruct (Hall _ _ Ha) as ([[? ?] [? ?]] & [] & ?).
      split; [by repeat split|]. split; [by constructor|done].
    - apply convert_back_shape in Hs as [[? _]|(_ & va & Ha & ->)]; [done|].
      intros b vb Hb. cbn [set_acct accts] in Hb.
      destruct (decide (a = b)) as [->|Hne]; [by rewrite lookup_insert in Hb|rewrite lookup_insert_ne in Hb by done; eauto].
  Qed.

  (** After every history of well-formed messages, every stored vesting
      account is coherent: its schedules add up to its original vesting and end
      by its end time, all lengths and amounts are non-negative, and no
      DelegatedVesting is recorded.  Hence all reading theorems of
      AccountProofs apply to it. *)
  Theorem reachable_good ops : Forall op_ok ops -> all_good (run blocked bond fixed ops kinit).
  Proof.
    unfold run. assert (H0 : all_good kinit) by (intros a va H; cbn in H; by rewrite lookup_empty in H).
    revert H0. generalize kinit. induction ops as [|o r IH]; intros s Hs Hok; cbn [fold_left]; [done|].
    inversion Hok; subst. apply IH; [|done].
    destruct (step s o) as [s' res] eqn:E. cbn [fst]. by eapply step_good.
  Qed.
  End Fixed.
End Reach.

(** * Step- and history-level corollaries *)
Section Histories.
  Variable blocked : N -> bool.
  Variable bond : N.

  (** merging through CreateClawbackVestingAccount: after both schedules have
      started, the merged account has released what the old account and the
      grant have released *)
  Theorem create_merge_releases_sum fixed s t from to start lp vp deleg s' va :
    all_good s -> op_ok (Create t from to start lp vp true deleg) ->
    step blocked bond fixed s (Create t from to start lp vp true deleg) = (s', OK) ->
    accts s !! to = Some (Claw va) ->
    let '(glp, gvp, _, _) := with_defaults (of_pl lp) (of_pl vp) in
    exists va', accts s' !! to = Some (Claw va') /\
      forall t' d, Z.max (start_time va) start < t' ->
        amt (get_unlocked va' t') d = amt (get_unlocked va t') d + amt (ev start glp t') d /\
        amt (get_vested va' t') d = amt (get_vested va t') d + amt (ev start gvp t') d.
  Proof.
    intros Hall (Hla & Hva & Hdel) H Ha. cbn [step] in H.
    apply create_shape in H as [[? _]|(_ & _ & Hb & H)]; [done|].
    destruct (with_defaults _ _) as [[[glp gvp] lc] gc] eqn:Hwd. destruct H as (Heq & va' & Hsend & Hk).
    destruct Hk as [[Hn _]|(va0 & Ha0 & _ & Hf & Hg)]; [congruence|].
    assert (va0 = va) as -> by congruence.
    exists va'. split.
    { rewrite (send_claw _ _ _ _ _ _ _ _ Hsend). cbn [set_acct accts]. by rewrite lookup_insert. }
    destruct (with_defaults_ok _ _ _ _ _ _ Hb Hla Hva Hwd) as (L1 & L2 & L3 & L4 & L5 & L6 & L7 & L8).
    pose proof (proj1 (coin_eq_spec _ _ L6 L5) Heq) as Hvl.
    destruct (Hall _ _ Ha) as (Hc & Hw & _).
    eapply add_grant_releases_sum; try done. intros d. by rewrite Hvl.
  Qed.

  (** the same through ConvertIntoVestingAccount -> ApplyVestingSchedule, for
      the code after the fix *)
  Theorem apply_merge_releases_sum s t from to start lp vp deleg s' va :
    all_good s -> op_ok (Convert t from to start lp vp true deleg) ->
    step blocked bond true s (Convert t from to start lp vp true deleg) = (s', OK) ->
    accts s !! to = Some (Claw va) ->
    let '(glp, gvp, _, _) := with_defaults (of_pl lp) (of_pl vp) in
    exists va', accts s' !! to = Some (Claw va') /\
      forall t' d, Z.max (start_time va) start < t' ->
        amt (get_unlocked va' t') d = amt (get_unlocked va t') d + amt (ev start glp t') d /\
        amt (get_vested va' t') d = amt (get_vested va t') d + amt (ev start gvp t') d.
  Proof.
    intros Hall (Hla & Hva & Hdel) H Ha. cbn [step] in H.
    apply convert_shape in H as [[? _]|(_ & _ & Hb & H)]; [done|].
    destruct (with_defaults _ _) as [[[glp gvp] lc] gc] eqn:Hwd. destruct H as (Heq & va' & Hsend & Hk).
    destruct Hk as [[Hn _]|[[Hn _]|(va0 & Ha0 & _ & Hf & Hg)]]; [congruence|congruence|].
    assert (va0 = va) as -> by congruence. cbn [gstart] in Hg.
    exists va'. split.
    { rewrite (send_claw _ _ _ _ _ _ _ _ Hsend). cbn [set_acct accts]. by rewrite lookup_insert. }
    destruct (with_defaults_ok _ _ _ _ _ _ Hb Hla Hva Hwd) as (L1 & L2 & L3 & L4 & L5 & L6 & L7 & L8).
    pose proof (proj1 (coin_eq_spec _ _ L6 L5) Heq) as Hvl.
    destruct (Hall _ _ Ha) as (Hc & Hw & _).
    eapply add_grant_releases_sum; try done. intros d. by rewrite Hvl.
  Qed.

  (** a successful clawback on a reachable account: exact amounts, the vested
      coins keep their lockup, and the account stays coherent; it passes
      Validate when a vesting event strictly after the start has happened *)
  Theorem clawback_on_reachable fixed ops t f a dest0 s' :
    Forall op_ok ops ->
    let s := run blocked bond fixed ops kinit in
    step blocked bond fixed s (Clawback t f a dest0) = (s', OK) ->
    exists va, accts s !! a = Some (Claw va) /\ funder va = f /\
      exists va' u, compute_clawback va t = Some (va', u) /\
        (forall d, amt u d = amt (original va) d - amt (get_vested va t) d /\ 0 <= amt u d) /\
        original va' = get_vested va t /\
        (forall t' d, amt (get_unlocked va' t') d = Z.min (amt (get_unlocked va t') d) (amt (get_vested va t) d)) /\
        (forall t' d, amt (get_vested va' t') d = Z.min (amt (get_vested va t') d) (amt (get_vested va t) d)) /\
        good va' /\
        (start_time va < end_time va' -> valid va') /\
        (Forall (fun p => 0 < len p) (vesting va) -> (exists d, amt (get_vested va t) d <> 0) -> valid va').
  Proof.
    intros Hok s H. pose proof (reachable_good blocked bond fixed ops Hok) as Hall. fold s in Hall.
    cbn [step] in H. apply clawback_shape in H as [[? _]|(_ & _ & va & va' & c & Ha & Hf & Hc & _)]; [done|].
    exists va. split; [done|]. split; [done|]. exists va', c. split; [done|].
    destruct (Hall _ _ Ha) as (Hco & Hw & Hdv).
    destruct (clawback_exact va Hco Hw t) as (va2 & c2 & Hc2 & E1 & _ & E3 & _ & _ & _ & _ & E4 & E5).
    rewrite Hc in Hc2. injection Hc2 as <- <-.
    destruct (clawback_coherent va Hco Hw t va' c Hc) as [Hco' Hw'].
    assert (Hd : is_all_lte (dvest va) (get_vested va t) = true).
    { rewrite Hdv. apply is_all_lte_spec. intros d [x Hx]. by rewrite lookup_empty in Hx. }
    split. { intros d. split; [apply E1|]. rewrite E1. pose proof (vested_bounds va Hco Hw t d). lia. }
    split; [done|]. split; [done|]. split; [done|].
    split. { split; [done|]. split; [done|]. rewrite (compute_clawback_eq va Hco Hw t) in Hc. by injection Hc as <- _. }
    split. { intros He. by apply (clawback_valid_general va Hco Hw t va' c). }
    intros Hp Hne. by apply (clawback_valid_partial va Hco Hw t va' c).
  Qed.

  (** every reachable account splits its grant exactly *)
  Theorem reachable_splits fixed ops a va t :
    Forall op_ok ops -> accts (run blocked bond fixed ops kinit) !! a = Some (Claw va) ->
    (exists u, get_vesting va t = Some u /\
       forall d, amt (get_vested va t) d + amt u d = amt (original va) d /\
                 0 <= amt (get_vested va t) d /\ 0 <= amt u d) /\
    (exists l, get_locked_up va t = Some l /\
       forall d, amt (get_unlocked va t) d + amt l d = amt (original va) d /\
                 0 <= amt (get_unlocked va t) d /\ 0 <= amt l d).
  Proof.
    intros Hok Ha. destruct (reachable_good blocked bond fixed ops Hok _ _ Ha) as (Hco & Hw & _).
    split; [by apply vested_plus_unvested|by apply locked_plus_unlocked].
  Qed.
End Histories.

(** * Finding F1 and non-vacuity *)
Definition f1_prefix : list op :=
  [Fund 0%N [(0%N, 1000)];
   Create 900 0%N 1%N 1000 [(3000, [(0%N, 100)])] [(3000, [(0%N, 100)])] false 0].
Definition f1_merge : op :=
  Convert 950 0%N 1%N 2000 [(2000, [(0%N, 50)])] [(2000, [(0%N, 50)])] true 0.

Ltac op_ok_tac :=
  repeat first [ exact I
               | match goal with |- (_ <= _)%Z => lia end
               | match goal with |- nonneg _ => apply nonneg_by_compute; vm_compute; reflexivity end
               | constructor ].

Definition unlocked_of (s : kstate) (a : N) (t : Z) : Z :=
  match accts s !! a with Some (Claw va) => amt (get_unlocked va t) 0%N | _ => -1 end.

(** Account start 1000 with a 3000 s lockup, grant start 2000 with a 2000 s
    lockup: both unlock at 4000.  The pinned ApplyVestingSchedule (merge start =
    min(grant start, account start)) released the grant's 50 at 3000. *)
Theorem apply_merge_union_refuted :
  Forall op_ok (f1_prefix ++ [f1_merge]) /\
  let s := run blocked_h bond_h false f1_prefix kinit in
  let '(s', r) := step blocked_h bond_h false s f1_merge in
  r = OK /\
  unlocked_of s 1%N 3500 = 0 /\                      (* the old account has released nothing at 3500 *)
  amt (ev 2000 (of_pl [(2000, [(0%N, 50)])]) 3500) 0%N = 0 /\   (* neither has the grant *)
  unlocked_of s' 1%N 3500 = 50.                      (* but the merged account has released 50 *)
Proof.
  split; [unfold f1_prefix, f1_merge; cbn [app]; op_ok_tac|]. vm_compute. done.
Qed.

(** the fixed code on the same input *)
Example apply_merge_union_witness_fixed :
  let s := run blocked_h bond_h true f1_prefix kinit in
  let '(s', r) := step blocked_h bond_h true s f1_merge in
  r = OK /\ unlocked_of s' 1%N 3500 = 0 /\ unlocked_of s' 1%N 3999 = 0 /\ unlocked_of s' 1%N 4000 = 150.
Proof. vm_compute. done. Qed.

(** Non-vacuity of the history theorems: a history with a two-denomination
    grant, a merge through each path, an update of the funder and a clawback
    in the middle of the schedule by the new funder; every hypothesis holds. *)
Definition ex_history : list op :=
  [Fund 0%N [(0%N, 10000); (1%N, 900)];
   Create 900 0%N 1%N 1000 [(200, [(0%N, 300); (1%N, 90)])]
          [(100, [(0%N, 100); (1%N, 30)]); (100, [(0%N, 100); (1%N, 30)]); (100, [(0%N, 100); (1%N, 30)])] false 0;
   Create 950 0%N 1%N 1050 [(100, [(0%N, 40)])] [(50, [(0%N, 40)])] true 0;
   Convert 960 0%N 1%N 1100 [] [(150, [(0%N, 60)])] true 0;
   UpdateFunder 970 0%N 2%N 1%N].
Definition ex_clawback : op := Clawback 1150 2%N 1%N (Some 3%N).

Example ex_history_ok :
  Forall op_ok ex_history /\
  let sg := grun blocked_h bond_h true ex_history in
  snd sg !! 1%N = Some 2%N /\
  let '(s', r) := step blocked_h bond_h true (fst sg) ex_clawback in
  r = OK /\
  snd (step blocked_h bond_h true (fst sg) (Clawback 1150 0%N 1%N (Some 3%N))) = E_UNAUTH /\
  canon (bal s' 3%N) = [(0%N, 260); (1%N, 60)] /\
  canon (bal s' 1%N) = [(0%N, 140); (1%N, 30)] /\
  match accts s' !! 1%N with
  | Some (Claw va') => validate va' = V_OK /\ canon (original va') = [(0%N, 140); (1%N, 30)]
  | _ => False
  end.
Proof.
  split.
  - unfold ex_history. op_ok_tac.
  - vm_compute. repeat split; reflexivity.
Qed.
