(** Vesting schedules and the clawback vesting account (property C09):
    executable transcription of x/vesting/types/schedule.go and
    x/vesting/types/clawback_vesting_account.go as they are in /repo.
    Definitions only; proofs are in ScheduleProofs.v / AccountProofs.v.

    Times and lengths are [Z] (the Go code uses int64; overflow of int64 is not
    modelled).  A period's [amount] is a [coins] map. *)
From stdpp Require Import gmap.
From Coq Require Import ZArith List.
From HV Require Import Base.Coins.
Import ListNotations.
Local Open Scope Z_scope.

Record period := mkp { len : Z; amount : coins }.
Notation periods := (list period).

(** Periods.TotalLength / Periods.TotalAmount *)
Definition total_len (ps : periods) : Z := fold_left (fun a p => a + len p) ps 0.
Definition total_amount (ps : periods) : coins := fold_left (fun a p => cadd a (amount p)) ps ∅.

(** ** ReadSchedule *)
(** the loop: [elapsed] and [acc] are the Go variables elapsedTime and coins *)
Fixpoint read_loop (ps : periods) (t elapsed : Z) (acc : coins) : coins :=
  match ps with
  | [] => acc
  | p :: r => if t <? elapsed + len p then acc
              else read_loop r t (elapsed + len p) (cadd acc (amount p))
  end.

Definition read_schedule (start endt : Z) (ps : periods) (total : coins) (t : Z) : coins :=
  if t <=? start then ∅
  else if endt <=? t then total
  else read_loop ps t start ∅.

(** ** ReadPastPeriodCount *)
Fixpoint count_loop (ps : periods) (t elapsed : Z) (n : nat) : nat :=
  match ps with
  | [] => n
  | p :: r => if t <? elapsed + len p then n else count_loop r t (elapsed + len p) (S n)
  end.

Definition read_past_count (start endt : Z) (ps : periods) (t : Z) : nat :=
  if t <=? start then 0%nat
  else if endt <=? t then length ps
  else count_loop ps t start 0%nat.

(** ** DisjunctPeriods
    [emit]: the closure of the same name; [e] is the Go variable endTime (the
    time of the last emitted event).  The result is the list of emitted periods
    paired with the final endTime. *)
Definition emit (next e : Z) (a : coins) : period := mkp (next - e) a.
Definition pcons (p : period) (r : periods * Z) : periods * Z := (p :: fst r, snd r).

(** the two trailing loops ("consume remaining events") *)
Fixpoint dj_rest (ps : periods) (tp e : Z) : periods * Z :=
  match ps with
  | [] => ([], e)
  | p :: r => let n := tp + len p in pcons (emit n e (amount p)) (dj_rest r n n)
  end.

(** the main loop; [ta], [tb] are timePeriodA / timePeriodsB *)
Fixpoint dj (pa : periods) (ta : Z) {struct pa} : periods -> Z -> Z -> periods * Z :=
  fix inner (pb : periods) (tb e : Z) {struct pb} : periods * Z :=
    match pa, pb with
    | [], _ => dj_rest pb tb e
    | _, [] => dj_rest pa ta e
    | a :: ra, b :: rb =>
        let na := ta + len a in
        let nb := tb + len b in
        if na <? nb then pcons (emit na e (amount a)) (dj ra na pb tb na)            (* consumeA *)
        else if nb <? na then pcons (emit nb e (amount b)) (inner rb nb nb)          (* consumeB *)
        else pcons (emit na e (cadd (amount a) (amount b))) (dj ra na rb na na)      (* consumeBoth *)
    end.

(** (startTime, endTime, periods) *)
Definition disjunct (sa sb : Z) (pa pb : periods) : Z * Z * periods :=
  let s := Z.min sa sb in
  let r := dj pa sa pb sb s in
  (s, snd r, fst r).

(** ** ConjunctPeriods
    accumulators: [e] = endTimeOfLastProcessedPeriod, [res] = resultingAmount,
    [xa], [xb] = totalAmountPeriodsA / B (already including the consumed
    period(s)). *)
Definition cj_emit (next e : Z) (res xa xb : coins) : option (period * coins) :=
  let mn := cmin xa xb in
  if is_all_lte res mn then
    let diff := csub mn res in
    if is_zero diff then None else Some (emit next e diff, cadd res diff)
  else None.

Definition cj_go (next e : Z) (res xa xb : coins)
    (k : Z -> coins -> periods * Z) : periods * Z :=
  match cj_emit next e res xa xb with
  | Some (p, res') => pcons p (k next res')
  | None => k e res
  end.

Fixpoint cj_rest_a (ps : periods) (tp e : Z) (res xa xb : coins) : periods * Z :=
  match ps with
  | [] => ([], e)
  | p :: r => let n := tp + len p in let xa' := cadd xa (amount p) in
              cj_go n e res xa' xb (fun e' res' => cj_rest_a r n e' res' xa' xb)
  end.
Fixpoint cj_rest_b (ps : periods) (tp e : Z) (res xa xb : coins) : periods * Z :=
  match ps with
  | [] => ([], e)
  | p :: r => let n := tp + len p in let xb' := cadd xb (amount p) in
              cj_go n e res xa xb' (fun e' res' => cj_rest_b r n e' res' xa xb')
  end.

Fixpoint cj (pa : periods) (ta : Z) {struct pa}
    : periods -> Z -> Z -> coins -> coins -> coins -> periods * Z :=
  fix inner (pb : periods) (tb e : Z) (res xa xb : coins) {struct pb} : periods * Z :=
    match pa, pb with
    | [], _ => cj_rest_b pb tb e res xa xb
    | _, [] => cj_rest_a pa ta e res xa xb
    | a :: ra, b :: rb =>
        let na := ta + len a in
        let nb := tb + len b in
        if na <? nb then
          let xa' := cadd xa (amount a) in
          cj_go na e res xa' xb (fun e' res' => cj ra na pb tb e' res' xa' xb)
        else if nb <? na then
          let xb' := cadd xb (amount b) in
          cj_go nb e res xa xb' (fun e' res' => inner rb nb e' res' xa xb')
        else
          let xa' := cadd xa (amount a) in
          let xb' := cadd xb (amount b) in
          cj_go na e res xa' xb' (fun e' res' => cj ra na rb na e' res' xa' xb')
    end.

Definition conjunct (sa sb : Z) (pa pb : periods) : Z * Z * periods :=
  let s := Z.min sa sb in
  let r := cj pa sa pb sb s ∅ ∅ ∅ in
  (s, snd r, fst r).

(** ** AlignSchedules: (startTime, endTime) and the two slices as mutated *)
Definition bump (ps : periods) (dl : Z) : periods :=
  match ps with [] => [] | p :: r => mkp (len p + dl) (amount p) :: r end.

Definition align (sa sb : Z) (pa pb : periods) : Z * Z * periods * periods :=
  let s := Z.min sa sb in
  let pa' := bump pa (sa - s) in
  let pb' := bump pb (sb - s) in
  (s, Z.max (s + total_len pa') (s + total_len pb'), pa', pb').

(** ** ClawbackVestingAccount *)
Record account := mkacc {
  funder : N;
  start_time : Z;
  end_time : Z;             (* BaseVestingAccount.EndTime *)
  original : coins;         (* BaseVestingAccount.OriginalVesting *)
  lockup : periods;
  vesting : periods;
  dfree : coins;            (* DelegatedFree *)
  dvest : coins             (* DelegatedVesting *)
}.

(** NewClawbackVestingAccount *)
Definition new_account (f : N) (orig : coins) (start : Z) (lp vp : periods) : account :=
  let '(_, e, lp', vp') := align start start lp vp in
  mkacc f start e orig lp' vp' ∅ ∅.

Definition get_unlocked (va : account) (t : Z) : coins :=
  read_schedule (start_time va) (end_time va) (lockup va) (original va) t.
Definition get_vested (va : account) (t : Z) : coins :=
  read_schedule (start_time va) (end_time va) (vesting va) (original va) t.
(** GetVestingCoins / GetLockedUpCoins use Coins.Sub, which panics (None) on a
    negative result *)
Definition get_vesting (va : account) (t : Z) : option coins := csub_chk (original va) (get_vested va t).
Definition get_locked_up (va : account) (t : Z) : option coins := csub_chk (original va) (get_unlocked va t).
Definition get_unlocked_vested (va : account) (t : Z) : coins := cmin (get_unlocked va t) (get_vested va t).
Definition get_locked_up_vested (va : account) (t : Z) : option coins :=
  csub_chk (get_vested va t) (get_unlocked_vested va t).
Definition past_count (va : account) (t : Z) : nat :=
  read_past_count (start_time va) (end_time va) (vesting va) t.

(** LockedCoins *)
Definition locked_coins (va : account) (t : Z) : option coins :=
  match get_locked_up_vested va t with
  | None => None
  | Some luv =>
      let d := cmin (cadd (dfree va) (dvest va)) luv in
      let res := csub (original va) (cadd (get_unlocked_vested va t) d) in
      Some (if any_neg res then ∅ else res)
  end.

(** ComputeClawback: (updated account, clawed-back amount) *)
Definition compute_clawback (va : account) (t : Z) : option (account * coins) :=
  let vested := get_vested va t in
  match get_vesting va t with
  | None => None
  | Some unvested =>
      let k := past_count va t in
      let vp' := firstn k (vesting va) in
      let vend := start_time va + total_len vp' in
      let '(_, lend, lp') := conjunct (start_time va) (start_time va) (lockup va) [mkp 0 vested] in
      Some (mkacc (funder va) (start_time va) (Z.max vend lend) vested lp' vp' (dfree va) (dvest va),
            unvested)
  end.

(** Validate: 0 = nil, otherwise the number of the failing check *)
Definition V_OK : N := 0.
Definition V_START_END : N := 1.     (* vesting start-time must be before end-time *)
Definition V_LOCKUP_END : N := 2.    (* lockup schedule extends beyond account end time *)
Definition V_LOCKUP_COINS : N := 3.  (* original vesting != sum of lockup periods *)
Definition V_VESTING_END : N := 4.
Definition V_VESTING_COINS : N := 5.
Definition V_DELEGATED : N := 6.     (* BaseVestingAccount.Validate *)

Definition validate (va : account) : N :=
  if end_time va <=? start_time va then V_START_END
  else if end_time va <? start_time va + total_len (lockup va) then V_LOCKUP_END
  else if negb (coin_eq (total_amount (lockup va)) (original va)) then V_LOCKUP_COINS
  else if end_time va <? start_time va + total_len (vesting va) then V_VESTING_END
  else if negb (coin_eq (total_amount (vesting va)) (original va)) then V_VESTING_COINS
  else if negb (is_all_lte (dvest va) (original va)) then V_DELEGATED
  else V_OK.

(** * Observations printed by the harness (driver "vesting") *)

(** periods with canonical amount lists *)
Definition pl := list (Z * clist).
Definition of_pl (l : pl) : periods := map (fun '(n, c) => mkp n (of_list c)) l.
Definition to_pl (ps : periods) : pl := map (fun p => (len p, canon (amount p))) ps.

(** (a) pure calls: input (sa, sb, A, B, endA, totalA-flag, read times) *)
Record pure_in := mkpin {
  pi_sa : Z; pi_sb : Z; pi_a : pl; pi_b : pl;
  pi_end : Z;            (* endTime handed to ReadSchedule / ReadPastPeriodCount for A *)
  pi_total : clist;      (* totalCoins handed to ReadSchedule for A *)
  pi_times : list Z
}.
Record pure_obs := mkpobs {
  po_read : list clist;            (* ReadSchedule(sa, end, A, total, t) per read time *)
  po_count : list nat;             (* ReadPastPeriodCount per read time *)
  po_disj : Z * Z * pl;
  po_conj : Z * Z * pl;
  po_align : Z * Z * pl * pl
}.
Global Instance pure_obs_eq_dec : EqDecision pure_obs.
Proof. solve_decision. Defined.

Definition pure_model (i : pure_in) : pure_obs :=
  let a := of_pl (pi_a i) in
  let b := of_pl (pi_b i) in
  let tot := of_list (pi_total i) in
  let '(ds, de, dp) := disjunct (pi_sa i) (pi_sb i) a b in
  let '(cs, ce, cp) := conjunct (pi_sa i) (pi_sb i) a b in
  let '(als, ale, ala, alb) := align (pi_sa i) (pi_sb i) a b in
  mkpobs (map (fun t => canon (read_schedule (pi_sa i) (pi_end i) a tot t)) (pi_times i))
         (map (fun t => read_past_count (pi_sa i) (pi_end i) a t) (pi_times i))
         (ds, de, to_pl dp) (cs, ce, to_pl cp) (als, ale, to_pl ala, to_pl alb).

Fixpoint mism_from {A : Type} (chk : A -> bool) (i : nat) (cs : list A) : list nat :=
  match cs with
  | [] => []
  | c :: r => if chk c then mism_from chk (S i) r else i :: mism_from chk (S i) r
  end.

Definition pure_check (c : pure_in * pure_obs) : bool := bool_decide (pure_model (fst c) = snd c).
Definition pure_mismatches (cs : list (pure_in * pure_obs)) : list nat := mism_from pure_check 0 cs.

(** (b) account level.  The account is built with NewClawbackVestingAccount
    from (orig, start, lockup, vesting) and then DelegatedFree/DelegatedVesting
    and (optionally) EndTime are overwritten by the harness. *)
Record acc_in := mkain {
  ai_orig : clist; ai_start : Z; ai_lockup : pl; ai_vesting : pl;
  ai_dfree : clist; ai_dvest : clist;
  ai_end : option Z;     (* Some e: EndTime overwritten after construction *)
  ai_times : list Z
}.
Definition oclist := option clist.   (* None = the call panicked *)
Record acc_view := mkav {
  av_start : Z; av_end : Z; av_orig : clist; av_lockup : pl; av_vesting : pl
}.
Record acc_obs := mkaobs {
  ao_acc : acc_view;                       (* the constructed account *)
  ao_validate : N;
  ao_unlocked : list clist;
  ao_vested : list clist;
  ao_vesting : list oclist;                (* GetVestingCoins *)
  ao_locked_up : list oclist;              (* GetLockedUpCoins *)
  ao_unlocked_vested : list clist;
  ao_locked_up_vested : list oclist;
  ao_locked : list oclist;                 (* LockedCoins *)
  ao_count : list nat;
  ao_claw : list (option (acc_view * clist * N))   (* ComputeClawback + Validate of the result *)
}.
Global Instance acc_view_eq_dec : EqDecision acc_view.
Proof. solve_decision. Defined.
Global Instance acc_obs_eq_dec : EqDecision acc_obs.
Proof. solve_decision. Defined.

Definition view (va : account) : acc_view :=
  mkav (start_time va) (end_time va) (canon (original va)) (to_pl (lockup va)) (to_pl (vesting va)).

Definition acc_of_in (i : acc_in) : account :=
  let va := new_account 0%N (of_list (ai_orig i)) (ai_start i) (of_pl (ai_lockup i)) (of_pl (ai_vesting i)) in
  mkacc (funder va) (start_time va) (default (end_time va) (ai_end i)) (original va)
        (lockup va) (vesting va) (of_list (ai_dfree i)) (of_list (ai_dvest i)).

Definition acc_model (i : acc_in) : acc_obs :=
  let va := acc_of_in i in
  let ts := ai_times i in
  mkaobs (view va) (validate va)
    (map (fun t => canon (get_unlocked va t)) ts)
    (map (fun t => canon (get_vested va t)) ts)
    (map (fun t => option_map canon (get_vesting va t)) ts)
    (map (fun t => option_map canon (get_locked_up va t)) ts)
    (map (fun t => canon (get_unlocked_vested va t)) ts)
    (map (fun t => option_map canon (get_locked_up_vested va t)) ts)
    (map (fun t => option_map canon (locked_coins va t)) ts)
    (map (fun t => past_count va t) ts)
    (map (fun t => option_map (fun '(va', c) => (view va', canon c, validate va')) (compute_clawback va t)) ts).

Definition acc_check (c : acc_in * acc_obs) : bool := bool_decide (acc_model (fst c) = snd c).
Definition acc_mismatches (cs : list (acc_in * acc_obs)) : list nat := mism_from acc_check 0 cs.
