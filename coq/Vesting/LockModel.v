(** Locked and unvested coins of a clawback vesting account (property C08):
    executable model of

      x/vesting/types/clawback_vesting_account.go   LockedCoins, GetVestedCoins, GetUnlockedCoins,
                                                     GetUnlockedVestedCoins, GetLockedUpVestedCoins,
                                                     GetVestingCoins, TrackDelegation, ComputeClawback (the part
                                                     that does not build the capped lockup schedule)
      x/vesting/types/schedule.go                    ReadSchedule, ReadPastPeriodCount
      x/staking/keeper/msg_server.go                 validateDelegationAmountNotUnvested (Delegate, CreateValidator)
      precompiles/staking/tx.go                      CreateValidator (which message server the precompile hands
                                                     MsgCreateValidator to: Haqq's wrapper, as the router and authz do)
      x/vesting/keeper/msg_server.go                 transferClawback, addGrant (tracking reset; the merged schedule
                                                     itself is an input, see below), ConvertIntoVestingAccount incl.
                                                     delegateVestedCoins (the Stake option: stakingKeeper.Delegate
                                                     called directly with the vested part of the message's grant)
      cosmos-sdk x/bank/keeper                       subUnlockedCoins (every account debit: SendCoins,
                                                     SendCoinsFromAccountToModule, InputOutputCoins, BurnCoins after
                                                     the EVM's SetBalance, fee deduction, module deposits),
                                                     DelegateCoins + trackDelegation, UndelegateCoins + trackUndelegation
      cosmos-sdk x/auth/vesting/types                BaseVestingAccount.TrackUndelegation

    for ONE denomination of the account (sdk.Coins operations are per
    denomination; the only coupling in the code, LockedCoins returning the empty
    set when the subtraction is negative in some denomination, cannot fire for
    well-formed accounts: [lk_raw_nonneg] in LockProofs.v).  [lk_bond] says
    whether this is the bond denomination (only it can be delegated).

    The merged schedule of a new grant (DisjunctPeriods) and the capped lockup
    schedule of a clawback (ConjunctPeriods) are modelled in Vesting/ScheduleModel.v
    (property C09); here they are INPUTS of the operations, and the step checks
    the facts C08 needs from them ([lk_wf_b]: amounts and lengths non-negative,
    both schedules sum to the new original; for a grant additionally: at the
    current time nothing already vested / unlocked is taken back).

    All names carry the prefix [lk_]/[Lk]/[LK_].  Definitions only. *)
From Coq Require Import ZArith List Bool.
Import ListNotations.
Local Open Scope Z_scope.

Definition lk_period : Type := (Z * Z)%type.     (* (length in seconds, amount) *)

(** ReadSchedule: the loop ... *)
Fixpoint lk_read_loop (ps : list lk_period) (elapsed read acc : Z) : Z :=
  match ps with
  | [] => acc
  | (len, a) :: r => if read <? elapsed + len then acc else lk_read_loop r (elapsed + len) read (acc + a)
  end.
(** ... and the two shortcuts *)
Definition lk_read_schedule (start endt : Z) (ps : list lk_period) (total read : Z) : Z :=
  if read <=? start then 0 else if endt <=? read then total else lk_read_loop ps start read 0.

(** ReadPastPeriodCount *)
Fixpoint lk_past_loop (ps : list lk_period) (elapsed read : Z) (n : nat) : nat :=
  match ps with
  | [] => n
  | (len, _) :: r => if read <? elapsed + len then n else lk_past_loop r (elapsed + len) read (S n)
  end.
Definition lk_past_count (start endt : Z) (ps : list lk_period) (read : Z) : nat :=
  if read <=? start then 0%nat else if endt <=? read then length ps else lk_past_loop ps start read 0%nat.

Record lk_acct := mklka {
  lk_orig : Z;                      (* OriginalVesting *)
  lk_lockup : list lk_period;       (* LockupPeriods *)
  lk_vesting : list lk_period;      (* VestingPeriods *)
  lk_start : Z;                     (* StartTime (unix) *)
  lk_end : Z;                       (* EndTime *)
  lk_dv : Z;                        (* DelegatedVesting *)
  lk_df : Z                         (* DelegatedFree *)
}.

Definition lk_vested (a : lk_acct) (t : Z) : Z :=           (* GetVestedCoins *)
  lk_read_schedule (lk_start a) (lk_end a) (lk_vesting a) (lk_orig a) t.
Definition lk_unlocked (a : lk_acct) (t : Z) : Z :=         (* GetUnlockedCoins *)
  lk_read_schedule (lk_start a) (lk_end a) (lk_lockup a) (lk_orig a) t.
Definition lk_unlocked_vested (a : lk_acct) (t : Z) : Z :=  (* GetUnlockedVestedCoins *)
  Z.min (lk_unlocked a t) (lk_vested a t).
Definition lk_locked_up_vested (a : lk_acct) (t : Z) : Z := (* GetLockedUpVestedCoins *)
  lk_vested a t - lk_unlocked_vested a t.
Definition lk_unvested (a : lk_acct) (t : Z) : Z :=         (* GetVestingCoins *)
  lk_orig a - lk_vested a t.

(** LockedCoins: OriginalVesting.SafeSub(unlockedVested + min(DF + DV, lockedUpVested)); empty when negative *)
Definition lk_locked_raw (a : lk_acct) (t : Z) : Z :=
  lk_orig a - (lk_unlocked_vested a t + Z.min (lk_df a + lk_dv a) (lk_locked_up_vested a t)).
Definition lk_locked_coins (a : lk_acct) (t : Z) : Z :=
  let r := lk_locked_raw a t in if r <? 0 then 0 else r.

Definition lk_sum (ps : list lk_period) : Z := fold_right (fun p acc => snd p + acc) 0 ps.
Definition lk_periods_ok (ps : list lk_period) : bool :=
  forallb (fun p => (0 <=? fst p) && (0 <=? snd p)) ps.
(** what Validate() and the message servers maintain, as far as C08 needs it *)
Definition lk_wf_b (a : lk_acct) : bool :=
  (0 <=? lk_orig a) && lk_periods_ok (lk_lockup a) && lk_periods_ok (lk_vesting a)
  && (lk_sum (lk_lockup a) =? lk_orig a) && (lk_sum (lk_vesting a) =? lk_orig a).

Record lk_state := mklk {
  lk_a : lk_acct;
  lk_bal : Z;        (* bank balance of the account *)
  lk_deleg : Z;      (* coins actually bonded (what the staking module reports) *)
  lk_unb : Z;        (* coins in unbonding entries *)
  lk_now : Z;        (* block time *)
  lk_bond : bool     (* is this the bond denomination *)
}.

Definition LK_OK : N := 0.
Definition LK_INSUFFICIENT : N := 1.   (* bank: spendable balance too small / locked exceeds balance *)
Definition LK_UNVESTED : N := 2.       (* Haqq's delegation guard: ErrInsufficientVestedCoins *)
Definition LK_INVALID : N := 3.        (* non-positive amount, nothing to undelegate, ... *)
Definition LK_SCHEDULE : N := 4.       (* the supplied schedule fails the checks (model input not admissible) *)

Inductive lk_op :=
| LkReceive (x : Z)                   (* any credit *)
| LkSend (x : Z)                      (* any debit path: subUnlockedCoins *)
| LkDelegate (x : Z)                  (* MsgDelegate / authz exec / staking precompile / MsgCreateValidator *)
| LkUndelegate (x : Z)                (* delegation -> unbonding entry; no bank movement *)
| LkComplete (y : Z)                  (* matured unbonding paid out: UndelegateCoins *)
| LkSlash (d' u' : Z)                 (* the bonded / unbonding amounts the staking module reports after a slash / share rounding *)
| LkAdvance (dt : Z)
| LkClawback (lockup' : list lk_period) (end' : Z)
| LkAddGrant (g start' end' : Z) (lockup' vesting' : list lk_period).

Definition lk_set_bal (s : lk_state) (b : Z) : lk_state :=
  mklk (lk_a s) b (lk_deleg s) (lk_unb s) (lk_now s) (lk_bond s).

(** subUnlockedCoins for one coin *)
Definition lk_send (s : lk_state) (x : Z) : lk_state * N :=
  if x <=? 0 then (s, LK_INVALID) else
  let l := lk_locked_coins (lk_a s) (lk_now s) in
  if lk_bal s <? l then (s, LK_INSUFFICIENT) else
  if lk_bal s - l <? x then (s, LK_INSUFFICIENT) else
  (lk_set_bal s (lk_bal s - x), LK_OK).

(** validateDelegationAmountNotUnvested, then DelegateCoins + TrackDelegation (all to DelegatedFree) *)
Definition lk_delegate (s : lk_state) (x : Z) : lk_state * N :=
  if negb (lk_bond s) then (s, LK_INVALID) else
  if x <=? 0 then (s, LK_INVALID) else
  let delegatable := Z.max (lk_bal s - lk_unvested (lk_a s) (lk_now s)) 0 in
  if delegatable <? x then (s, LK_UNVESTED) else
  if lk_bal s <? x then (s, LK_INSUFFICIENT) else
  let a := lk_a s in
  (mklk (mklka (lk_orig a) (lk_lockup a) (lk_vesting a) (lk_start a) (lk_end a) (lk_dv a) (lk_df a + x))
        (lk_bal s - x) (lk_deleg s + x) (lk_unb s) (lk_now s) (lk_bond s), LK_OK).

(** MsgUndelegate: no bank movement.  Whether the staking module accepts the
    amount (shares/tokens rounding) is not modelled: the harness issues this
    step only for accepted undelegations, and the staking figures are re-read
    afterwards ([LkSlash]). *)
Definition lk_undelegate (s : lk_state) (x : Z) : lk_state * N :=
  if x <=? 0 then (s, LK_INVALID) else
  (mklk (lk_a s) (lk_bal s) (Z.max 0 (lk_deleg s - x)) (lk_unb s + x) (lk_now s) (lk_bond s), LK_OK).

(** UndelegateCoins: TrackUndelegation (X = min(DF, y), Y = min(DV, y - X)), then the credit *)
Definition lk_complete (s : lk_state) (y : Z) : lk_state * N :=
  if (y <=? 0) || (lk_unb s <? y) then (s, LK_INVALID) else
  let a := lk_a s in
  let x := Z.min (lk_df a) y in
  let z := Z.min (lk_dv a) (y - x) in
  (mklk (mklka (lk_orig a) (lk_lockup a) (lk_vesting a) (lk_start a) (lk_end a) (lk_dv a - z) (lk_df a - x))
        (lk_bal s + y) (lk_deleg s) (lk_unb s - y) (lk_now s) (lk_bond s), LK_OK).

(** the staking module's figures change without any bank movement: a slash
    (downwards), or the token/share rounding of a validator whose exchange rate
    is not 1 (a unit up or down) *)
Definition lk_slash (s : lk_state) (d' u' : Z) : lk_state * N :=
  if negb (lk_bond s) || (d' <? 0) || (u' <? 0) then (s, LK_INVALID) else
  (mklk (lk_a s) (lk_bal s) d' u' (lk_now s) (lk_bond s), LK_OK).

(** Clawback + transferClawback: the account is rewritten first (original :=
    vested, future vesting periods dropped, lockup capped), then the unvested
    coins are sent with the ordinary debit rule of the rewritten account *)
Definition lk_no_periods (a : lk_acct) : bool :=
  match lk_vesting a, lk_lockup a with [], [] => true | _, _ => false end.

Definition lk_clawback (s : lk_state) (lockup' : list lk_period) (end' : Z) : lk_state * N :=
  let a := lk_a s in
  if lk_no_periods a then (s, LK_INVALID) else
  let v := lk_vested a (lk_now s) in
  let u := lk_orig a - v in
  if u <? 0 then (s, LK_INVALID) else        (* Coins.Sub panics *)
  if u =? 0 then (s, LK_OK) else             (* nothing to claw back: no-op *)
  let k := lk_past_count (lk_start a) (lk_end a) (lk_vesting a) (lk_now s) in
  let a' := mklka v lockup' (firstn k (lk_vesting a)) (lk_start a) end' (lk_dv a) (lk_df a) in
  if negb (lk_wf_b a') then (s, LK_SCHEDULE) else
  let l := lk_locked_coins a' (lk_now s) in
  if lk_bal s <? l then (s, LK_INSUFFICIENT) else
  if lk_bal s - l <? u then (s, LK_INSUFFICIENT) else
  (mklk a' (lk_bal s - u) (lk_deleg s) (lk_unb s) (lk_now s) (lk_bond s), LK_OK).

(** addGrant + SendCoins(funder -> account): schedules replaced by the merged
    ones, original += grant, DelegatedVesting := 0, DelegatedFree := what the
    staking module reports as bonded + unbonding (bond denomination only) *)
Definition lk_add_grant (s : lk_state) (g start' end' : Z) (lockup' vesting' : list lk_period) : lk_state * N :=
  if g <? 0 then (s, LK_INVALID) else
  let a := lk_a s in
  let a' := mklka (lk_orig a + g) lockup' vesting' start' end' 0
                  (if lk_bond s then lk_deleg s + lk_unb s else 0) in
  if negb (lk_wf_b a' && (lk_vested a (lk_now s) <=? lk_vested a' (lk_now s))
                      && (lk_unlocked a (lk_now s) <=? lk_unlocked a' (lk_now s)))
  then (s, LK_SCHEDULE) else
  (mklk a' (lk_bal s + g) (lk_deleg s) (lk_unb s) (lk_now s) (lk_bond s), LK_OK).

Definition lk_step (s : lk_state) (o : lk_op) : lk_state * N :=
  match o with
  | LkReceive x => if x <? 0 then (s, LK_INVALID) else (lk_set_bal s (lk_bal s + x), LK_OK)
  | LkSend x => lk_send s x
  | LkDelegate x => lk_delegate s x
  | LkUndelegate x => lk_undelegate s x
  | LkComplete y => lk_complete s y
  | LkSlash d' u' => lk_slash s d' u'
  | LkAdvance dt => if dt <? 0 then (s, LK_INVALID)
                    else (mklk (lk_a s) (lk_bal s) (lk_deleg s) (lk_unb s) (lk_now s + dt) (lk_bond s), LK_OK)
  | LkClawback l e => lk_clawback s l e
  | LkAddGrant g st e l v => lk_add_grant s g st e l v
  end.

Definition lk_run (ops : list lk_op) (s : lk_state) : lk_state := fold_left (fun s o => fst (lk_step s o)) ops s.

(** the eth ante pre-check (app/ante/evm/vesting.go): value against balance - locked *)
Definition lk_eth_value_precheck (s : lk_state) (value : Z) : bool :=
  if lk_bal s =? 0 then false else
  let l := lk_locked_coins (lk_a s) (lk_now s) in
  let spendable := if lk_bal s <? l then 0 else lk_bal s - l in
  value <=? spendable.

(** ---- the account-type operations ----
    x/vesting/keeper/msg_server.go  ConvertVestingAccount (vesting -> EthAccount), ConvertIntoVestingAccount +
    x/vesting/keeper/schedule.go ApplyVestingSchedule (EthAccount -> vesting, or a merge), UpdateVestingFunder,
    and the funder checks of Clawback / CreateClawbackVestingAccount{Merge}.

    The state gets a KIND.  For a plain account the stored account has no
    schedule and no delegation tracking: the bank debits against the whole
    balance, the staking guard does not apply, TrackDelegation/TrackUndelegation
    are not called, Clawback / merge / funder update are refused.  [lk_a] of a
    plain state is a ghost: the vesting record that the conversion discarded
    (untouched by every plain operation), kept so that theorems can speak about
    the obligation "as if the account had not been converted". *)
Definition lk_locked_up (a : lk_acct) (t : Z) : Z :=            (* GetLockedUpCoins *)
  lk_orig a - lk_unlocked a t.
(** what the SCHEDULE locks at t, regardless of any delegation: max(locked-up, unvested) *)
Definition lk_sched_locked (a : lk_acct) (t : Z) : Z :=
  lk_orig a - lk_unlocked_vested a t.

Definition LK_NOTVESTING : N := 5.     (* GetClawbackVestingAccount fails / "must be a clawback vesting account" *)
Definition LK_UNAUTHORIZED : N := 6.   (* signer is not the account's funder *)
Definition LK_LOCKED : N := 7.         (* ConvertVestingAccount: vesting or locked up coins still left in account *)

(** which amount MsgConvertVestingAccount's second check (HasLockedCoins) looks at:
    the lock-up schedule (the code: !GetLockedUpCoins(t).IsZero()), or the
    bank-facing LockedCoins(t) (not the code; kept for the refutation) *)
Inductive lk_guard := LkGuardSchedule | LkGuardBank.

Definition lk_convert_guard (g : lk_guard) (a : lk_acct) (t : Z) : bool :=
  (lk_unvested a t =? 0)                                  (* GetVestingCoins(t).IsZero() *)
  && match g with
     | LkGuardSchedule => lk_locked_up a t =? 0
     | LkGuardBank => lk_locked_coins a t =? 0
     end.

Record lkx_state := mklkx {
  lx_s : lk_state;
  lx_vesting : bool;      (* the stored account is a ClawbackVestingAccount *)
  lx_funder : N           (* FunderAddress (meaningful for a vesting account) *)
}.

Inductive lkx_op :=
| LxBase (o : lk_op) (signer : N)      (* signer: of MsgClawback / MsgCreateClawbackVestingAccount{Merge}; ignored otherwise *)
| LxConvert                            (* MsgConvertVestingAccount *)
| LxConvertInto (signer : N) (merge : bool) (g start' end' : Z) (lockup' vesting' : list lk_period)
| LxUpdateFunder (signer new : N)
| LxConvertIntoStake (signer : N) (merge : bool) (g start' end' : Z) (lockup' vesting' : list lk_period)
                     (gstart : Z) (gv : list lk_period).   (* MsgConvertIntoVestingAccount{Stake}: gstart, gv = the message's own start time and vesting periods *)

Definition lk_needs_funder (o : lk_op) : bool :=
  match o with LkClawback _ _ => true | LkAddGrant _ _ _ _ _ => true | _ => false end.

(** the operations of [lk_op] on a plain account *)
Definition lk_plain_step (s : lk_state) (o : lk_op) : lk_state * N :=
  match o with
  | LkReceive x => if x <? 0 then (s, LK_INVALID) else (lk_set_bal s (lk_bal s + x), LK_OK)
  | LkSend x =>
      if x <=? 0 then (s, LK_INVALID) else
      if lk_bal s <? x then (s, LK_INSUFFICIENT) else (lk_set_bal s (lk_bal s - x), LK_OK)
  | LkDelegate x =>
      if negb (lk_bond s) then (s, LK_INVALID) else
      if x <=? 0 then (s, LK_INVALID) else
      if lk_bal s <? x then (s, LK_INSUFFICIENT) else
      (mklk (lk_a s) (lk_bal s - x) (lk_deleg s + x) (lk_unb s) (lk_now s) (lk_bond s), LK_OK)
  | LkUndelegate x => lk_undelegate s x
  | LkComplete y =>
      if (y <=? 0) || (lk_unb s <? y) then (s, LK_INVALID) else
      (mklk (lk_a s) (lk_bal s + y) (lk_deleg s) (lk_unb s - y) (lk_now s) (lk_bond s), LK_OK)
  | LkSlash d' u' => lk_slash s d' u'
  | LkAdvance dt => if dt <? 0 then (s, LK_INVALID)
                    else (mklk (lk_a s) (lk_bal s) (lk_deleg s) (lk_unb s) (lk_now s + dt) (lk_bond s), LK_OK)
  | LkClawback _ _ => (s, LK_NOTVESTING)
  | LkAddGrant _ _ _ _ _ => (s, LK_NOTVESTING)
  end.

(** ApplyVestingSchedule on an EthAccount: a new vesting record around the same base account;
    DelegatedFree := bonded + unbonding (bond denomination); then SendCoins(funder -> account) *)
Definition lk_into_vesting (s : lk_state) (g start' end' : Z) (lockup' vesting' : list lk_period) : lk_state * N :=
  if g <? 0 then (s, LK_INVALID) else
  let a' := mklka g lockup' vesting' start' end' 0 (if lk_bond s then lk_deleg s + lk_unb s else 0) in
  if negb (lk_wf_b a') then (s, LK_SCHEDULE) else
  (mklk a' (lk_bal s + g) (lk_deleg s) (lk_unb s) (lk_now s) (lk_bond s), LK_OK).

(** ---- MsgConvertIntoVestingAccount{Stake:true} ----
    x/vesting/keeper/msg_server.go  ConvertIntoVestingAccount: ApplyVestingSchedule, SendCoins(funder -> account), then
    delegateVestedCoins: the amount to stake is the vested part of the grant CARRIED BY THE MESSAGE at the block time,

        DisjunctPeriods(start, start, periods, periods)  =  (start, start + sum of the lengths, _)
        ReadSchedule(start, start + sum of the lengths, periods, TotalAmount(periods), blockTime)

    (bond denomination), and it is handed to stakingKeeper.Delegate DIRECTLY: the staking message server's guard
    validateDelegationAmountNotUnvested is not on this path.  What remains is the SDK's DelegateCoins (balance >= amount)
    followed by TrackDelegation.  A failure anywhere fails the whole message. *)
Definition lk_len (ps : list lk_period) : Z := fold_right (fun p acc => fst p + acc) 0 ps.

Definition lk_grant_vested (gstart : Z) (gv : list lk_period) (now : Z) : Z :=
  lk_read_schedule gstart (gstart + lk_len gv) gv (lk_sum gv) now.

(** stakingKeeper.Delegate(subtractAccount = true) for a vesting account: no Haqq guard *)
Definition lk_stake (s : lk_state) (x : Z) : lk_state * N :=
  if negb (lk_bond s) then (s, LK_INVALID) else
  if x <=? 0 then (s, LK_INVALID) else           (* "no vested coins to delegate immediately" *)
  if lk_bal s <? x then (s, LK_INSUFFICIENT) else
  let a := lk_a s in
  (mklk (mklka (lk_orig a) (lk_lockup a) (lk_vesting a) (lk_start a) (lk_end a) (lk_dv a) (lk_df a + x))
        (lk_bal s - x) (lk_deleg s + x) (lk_unb s) (lk_now s) (lk_bond s), LK_OK).

(** which amount is staked: the vested part of the grant in the message (the code), or the vested amount of the
    whole account after the schedule was applied (not the code; kept for the refutation) *)
Inductive lk_stake_mode := LkStakeGrant | LkStakeAccount.

Definition lk_stake_amount (m : lk_stake_mode) (a' : lk_acct) (gstart : Z) (gv : list lk_period) (now : Z) : Z :=
  match m with LkStakeGrant => lk_grant_vested gstart gv now | LkStakeAccount => lk_vested a' now end.

(** the merged vesting schedule [vesting'] is an input (its construction is property C09: the union of the events of
    both schedules).  What the stake step needs from it, checked here: at the block time the merged schedule has
    vested at least what the old schedule had vested plus what the grant in the message has vested. *)
Definition lk_stake_admissible (m : lk_stake_mode) (oldv x newv : Z) : bool :=
  match m with LkStakeGrant => oldv + x <=? newv | LkStakeAccount => true end.

Definition lkx_into_stake (m : lk_stake_mode) (s : lkx_state) (signer : N) (merge : bool) (g start' end' : Z)
    (lockup' vesting' : list lk_period) (gstart : Z) (gv : list lk_period) : lkx_state * N :=
  let c := lx_s s in
  let oldv := if lx_vesting s then lk_vested (lk_a c) (lk_now c) else 0 in
  let r := if lx_vesting s then
             if negb merge then (c, LK_INVALID) else
             if negb (signer =? lx_funder s)%N then (c, LK_UNAUTHORIZED) else
             lk_add_grant c g start' end' lockup' vesting'
           else lk_into_vesting c g start' end' lockup' vesting' in
  if negb (snd r =? LK_OK)%N then (s, snd r) else
  let c1 := fst r in
  let x := lk_stake_amount m (lk_a c1) gstart gv (lk_now c) in
  if negb (lk_stake_admissible m oldv x (lk_vested (lk_a c1) (lk_now c))) then (s, LK_SCHEDULE) else
  let r2 := lk_stake c1 x in
  if (snd r2 =? LK_OK)%N then (mklkx (fst r2) true (if lx_vesting s then lx_funder s else signer), LK_OK)
  else (s, snd r2).

Definition lkx_step_g (gd : lk_guard) (s : lkx_state) (o : lkx_op) : lkx_state * N :=
  let c := lx_s s in
  match o with
  | LxBase o signer =>
      if lx_vesting s then
        if lk_needs_funder o && negb (signer =? lx_funder s)%N then (s, LK_UNAUTHORIZED)
        else let r := lk_step c o in (mklkx (fst r) true (lx_funder s), snd r)
      else let r := lk_plain_step c o in (mklkx (fst r) false (lx_funder s), snd r)
  | LxConvert =>
      if negb (lx_vesting s) then (s, LK_NOTVESTING) else
      if lk_convert_guard gd (lk_a c) (lk_now c) then (mklkx c false (lx_funder s), LK_OK) else (s, LK_LOCKED)
  | LxConvertInto signer merge g st e l v =>
      if lx_vesting s then
        if negb merge then (s, LK_INVALID) else
        if negb (signer =? lx_funder s)%N then (s, LK_UNAUTHORIZED) else
        let r := lk_add_grant c g st e l v in (mklkx (fst r) true (lx_funder s), snd r)
      else
        let r := lk_into_vesting c g st e l v in
        if (snd r =? LK_OK)%N then (mklkx (fst r) true signer, LK_OK) else (s, snd r)
  | LxUpdateFunder signer new =>
      if negb (lx_vesting s) then (s, LK_NOTVESTING) else
      if negb (signer =? lx_funder s)%N then (s, LK_UNAUTHORIZED) else
      if (signer =? new)%N then (s, LK_INVALID) else     (* ValidateBasic: new funder = current funder *)
      (mklkx c true new, LK_OK)
  | LxConvertIntoStake signer merge g st e l v gst gv => lkx_into_stake LkStakeGrant s signer merge g st e l v gst gv
  end.

(** the code *)
Definition lkx_step : lkx_state -> lkx_op -> lkx_state * N := lkx_step_g LkGuardSchedule.

Definition lkx_run_g (gd : lk_guard) (ops : list lkx_op) (s : lkx_state) : lkx_state :=
  fold_left (fun s o => fst (lkx_step_g gd s o)) ops s.
Definition lkx_run : list lkx_op -> lkx_state -> lkx_state := lkx_run_g LkGuardSchedule.

(** ---- validator creation: the self-bond is a delegation ----
    MsgCreateValidator{Value = x} reaches the staking module over three routes:

      LkRouteMsg         the message in a Cosmos transaction: the application's message router
      LkRouteAuthz       the message inside authz MsgExec (a generic grant on its type URL): the same router
      LkRoutePrecompile  precompiles/staking/tx.go CreateValidator in an Ethereum transaction signed by the
                         account (caller = signer): the precompile builds its own message server

    and on every route the code executes it on Haqq's wrapper x/staking/keeper.msgServer.CreateValidator
    ([LkCvHaqq]): validateDelegationAmountNotUnvested(delegator, Value) first, then the Cosmos SDK's CreateValidator,
    whose bank part is Keeper.Delegate(subtractAccount = true) = DelegateCoins + TrackDelegation — exactly
    [lk_delegate].  The SDK's own message server ([LkCvSdk]) has no notion of clawback vesting: the same without the
    guard = [lk_stake]; no route of the code uses it, it is kept for the refutation.  [srv] says which server a route
    uses.  A plain account has no guard on either server.

    Not modelled: the staking module's own refusals (a validator of this operator / with this consensus key exists
    already, commission and description checks, Value below MinSelfDelegation); the harness issues the step only
    for an account that is not a validator yet, with parameters the staking module accepts. *)
Inductive lk_route := LkRouteMsg | LkRouteAuthz | LkRoutePrecompile.
Inductive lk_cv_server := LkCvHaqq | LkCvSdk.

(** the code: Haqq's wrapper on every route *)
Definition lk_cv_code : lk_route -> lk_cv_server := fun _ => LkCvHaqq.

Definition lkx_create_validator (srv : lk_route -> lk_cv_server) (s : lkx_state) (r : lk_route) (x : Z) : lkx_state * N :=
  let c := lx_s s in
  let res := if lx_vesting s
             then match srv r with LkCvHaqq => lk_delegate c x | LkCvSdk => lk_stake c x end
             else lk_plain_step c (LkDelegate x) in
  (mklkx (fst res) (lx_vesting s) (lx_funder s), snd res).

(** histories with validator creation: every operation of [lkx_op], and MsgCreateValidator over a route *)
Inductive lky_op :=
| LyOp (o : lkx_op)
| LyCreateValidator (r : lk_route) (x : Z).

Definition lky_step_g (srv : lk_route -> lk_cv_server) (s : lkx_state) (o : lky_op) : lkx_state * N :=
  match o with
  | LyOp o => lkx_step s o
  | LyCreateValidator r x => lkx_create_validator srv s r x
  end.
Definition lky_step : lkx_state -> lky_op -> lkx_state * N := lky_step_g lk_cv_code.
Definition lky_run_g (srv : lk_route -> lk_cv_server) (ops : list lky_op) (s : lkx_state) : lkx_state :=
  fold_left (fun s o => fst (lky_step_g srv s o)) ops s.
Definition lky_run : list lky_op -> lkx_state -> lkx_state := lky_run_g lk_cv_code.

(** the same history with every validator creation written as the ordinary delegation of its self-bond *)
Definition lky_lower (o : lky_op) : lkx_op :=
  match o with LyOp o => o | LyCreateValidator _ x => LxBase (LkDelegate x) 0%N end.

(** ---- correspondence with the harness: two denominations (0 = bond) ---- *)
Inductive lk_op2 :=
| L2Receive (x0 x1 : Z)
| L2Send (x0 x1 : Z)                    (* one atomic debit of (x0, x1); 0 = denomination absent *)
| L2EthPre (value : Z) (accepted : bool)   (* eth ante decorator verdict for a tx value (no state change) *)
| L2Delegate (x : Z)
| L2Undelegate (x : Z)
| L2Complete (y : Z)
| L2Slash (d' u' : Z)
| L2Advance (dt : Z)
| L2Clawback (signer : N) (l0 l1 : list lk_period) (end' : Z)
| L2AddGrant (signer : N) (g0 g1 start' end' : Z) (l0 l1 v0 v1 : list lk_period)
| L2Convert
| L2ConvertInto (signer : N) (merge : bool) (g0 g1 start' end' : Z) (l0 l1 v0 v1 : list lk_period)
| L2UpdateFunder (signer new : N)
| L2ConvertIntoStake (signer : N) (merge : bool) (g0 g1 start' end' : Z) (l0 l1 v0 v1 : list lk_period)
                     (gstart : Z) (gv0 : list lk_period)    (* only the bond denomination is staked *)
| L2CreateValidator (r : lk_route) (x : Z).                  (* MsgCreateValidator{Value = x aISLM} over route r *)

Definition lk_pair : Type := (lkx_state * lkx_state)%type.

Definition lk_both (s : lk_pair) (r0 r1 : lkx_state * N) : lk_pair * bool :=
  if (snd r0 =? LK_OK)%N && (snd r1 =? LK_OK)%N then ((fst r0, fst r1), true) else (s, false).

Definition lk_skip0 (f : lkx_state -> Z -> lkx_state * N) (s : lkx_state) (x : Z) : lkx_state * N :=
  if x =? 0 then (s, LK_OK) else f s x.

Definition lkx_base (o : lk_op) (s : lkx_state) : lkx_state * N := lkx_step s (LxBase o 0%N).
Definition lkx_send (s : lkx_state) (x : Z) : lkx_state * N := lkx_base (LkSend x) s.

(** the eth ante vesting decorator only looks at clawback vesting accounts ("continue" otherwise) *)
Definition lkx_eth_value_precheck (s : lkx_state) (value : Z) : bool :=
  if lx_vesting s then lk_eth_value_precheck (lx_s s) value else true.

Definition lk_step2 (s : lk_pair) (o : lk_op2) : lk_pair * bool :=
  let '(s0, s1) := s in
  match o with
  | L2Receive x0 x1 => lk_both s (lkx_base (LkReceive x0) s0) (lkx_base (LkReceive x1) s1)
  | L2Send x0 x1 =>
      if (x0 =? 0) && (x1 =? 0) then (s, false)
      else lk_both s (lk_skip0 lkx_send s0 x0) (lk_skip0 lkx_send s1 x1)
  | L2EthPre v acc => (s, Bool.eqb (lkx_eth_value_precheck s0 v) acc)
  | L2Delegate x => lk_both s (lkx_base (LkDelegate x) s0) (s1, LK_OK)
  | L2Undelegate x => lk_both s (lkx_base (LkUndelegate x) s0) (s1, LK_OK)
  | L2Complete y => lk_both s (lkx_base (LkComplete y) s0) (s1, LK_OK)
  | L2Slash d u => lk_both s (lkx_base (LkSlash d u) s0) (s1, LK_OK)
  | L2Advance dt => lk_both s (lkx_base (LkAdvance dt) s0) (lkx_base (LkAdvance dt) s1)
  | L2Clawback sg l0 l1 e => lk_both s (lkx_step s0 (LxBase (LkClawback l0 e) sg)) (lkx_step s1 (LxBase (LkClawback l1 e) sg))
  | L2AddGrant sg g0 g1 st e l0 l1 v0 v1 =>
      lk_both s (lkx_step s0 (LxBase (LkAddGrant g0 st e l0 v0) sg)) (lkx_step s1 (LxBase (LkAddGrant g1 st e l1 v1) sg))
  | L2Convert => lk_both s (lkx_step s0 LxConvert) (lkx_step s1 LxConvert)
  | L2ConvertInto sg m g0 g1 st e l0 l1 v0 v1 =>
      lk_both s (lkx_step s0 (LxConvertInto sg m g0 st e l0 v0)) (lkx_step s1 (LxConvertInto sg m g1 st e l1 v1))
  | L2UpdateFunder sg nw => lk_both s (lkx_step s0 (LxUpdateFunder sg nw)) (lkx_step s1 (LxUpdateFunder sg nw))
  | L2ConvertIntoStake sg m g0 g1 st e l0 l1 v0 v1 gst gv0 =>
      lk_both s (lkx_step s0 (LxConvertIntoStake sg m g0 st e l0 v0 gst gv0)) (lkx_step s1 (LxConvertInto sg m g1 st e l1 v1))
  | L2CreateValidator r x => lk_both s (lkx_create_validator lk_cv_code s0 r x) (s1, LK_OK)
  end.

Record lk_obs := mklkobs {
  lo_ok : bool;
  lo_vesting : bool;                  (* the stored account is a clawback vesting account *)
  lo_bal0 : Z; lo_bal1 : Z;
  lo_locked0 : Z; lo_locked1 : Z;     (* LockedCoins(now) of the stored account (0 for a plain account) *)
  lo_df : Z; lo_dv : Z;               (* bond denomination (0 for a plain account) *)
  lo_deleg : Z; lo_unb : Z
}.

Definition lkx_locked_now (s : lkx_state) : Z :=
  if lx_vesting s then lk_locked_coins (lk_a (lx_s s)) (lk_now (lx_s s)) else 0.
Definition lkx_df_now (s : lkx_state) : Z := if lx_vesting s then lk_df (lk_a (lx_s s)) else 0.
Definition lkx_dv_now (s : lkx_state) : Z := if lx_vesting s then lk_dv (lk_a (lx_s s)) else 0.

Definition lk_check_obs (s : lk_pair) (ok : bool) (ob : lk_obs) : bool :=
  let '(s0, s1) := s in
  Bool.eqb ok (lo_ok ob)
  && Bool.eqb (lx_vesting s0) (lo_vesting ob) && Bool.eqb (lx_vesting s1) (lo_vesting ob)
  && (lk_bal (lx_s s0) =? lo_bal0 ob) && (lk_bal (lx_s s1) =? lo_bal1 ob)
  && (lkx_locked_now s0 =? lo_locked0 ob)
  && (lkx_locked_now s1 =? lo_locked1 ob)
  && (lkx_df_now s0 =? lo_df ob) && (lkx_dv_now s0 =? lo_dv ob)
  && (lk_deleg (lx_s s0) =? lo_deleg ob) && (lk_unb (lx_s s0) =? lo_unb ob).

(** a step without observation is an intermediate step of one implementation
    event (the eth ante verdict, the time advance of an end-block, the payout of
    matured unbonding entries): it must succeed in the model *)
Fixpoint lk_check_from (i : nat) (s : lk_pair) (h : list (lk_op2 * option lk_obs)) : option nat :=
  match h with
  | [] => None
  | (o, ob) :: r =>
      let '(s', ok) := lk_step2 s o in
      if match ob with Some ob => lk_check_obs s' ok ob | None => ok end
      then lk_check_from (S i) s' r else Some i
  end.

Definition lk_case : Type := (lk_pair * list (lk_op2 * option lk_obs))%type.
Definition lk_check_case (c : lk_case) : option nat := lk_check_from 0 (fst c) (snd c).

Fixpoint lk_mismatches_from (i : nat) (cs : list lk_case) : list nat :=
  match cs with
  | [] => []
  | c :: r => match lk_check_case c with
              | None => lk_mismatches_from (S i) r
              | Some _ => i :: lk_mismatches_from (S i) r
              end
  end.
Definition lk_mismatches (cs : list lk_case) : list nat := lk_mismatches_from 0 cs.
