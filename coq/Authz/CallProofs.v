(** Property C04: frame conditions of a precompile call (CallModel): accounts other
    than the signer and the immediate caller can only receive; what a successful
    spend by a caller that is not the signer requires; finding K10. *)
From Coq Require Import ZArith List Lia Bool.
From stdpp Require Import gmap.
From HV Require Import Authz.IdentityModel Authz.AllowanceModel Authz.AllowanceProofs Authz.CallModel.
Import ListNotations.
Local Open Scope Z_scope.

(** * "account [a] can only have received" between two worlds *)
Record acct_ok (a : N) (W W' : world) : Prop := mk_acct_ok {
  ok_bal : forall d, bal W a d <= bal W' a d;
  ok_stake : forall v, stake W' !! (a, v) = stake W !! (a, v);
  ok_unbond0 : forall v, unbond0 W' !! (a, v) = unbond0 W !! (a, v);
  ok_unbond1 : forall v, unbond1 W' !! (a, v) = unbond1 W !! (a, v);
  ok_pending : forall v, pending W' !! (a, v) = pending W !! (a, v);
  ok_broken : forall v, (a, v) ∈ broken W' <-> (a, v) ∈ broken W;
  ok_wd : wd W' !! a = wd W !! a;
  ok_grants : forall ge t, grants W' !! (a, ge, t) = grants W !! (a, ge, t)
}.

Definition others_ok (o c : N) (W W' : world) : Prop :=
  now W' = now W /\ forall a, a <> o -> a <> c -> acct_ok a W W'.

Lemma acct_refl a W : acct_ok a W W.
Proof. constructor; intros; try reflexivity; try lia. Qed.

Lemma acct_trans a W1 W2 W3 : acct_ok a W1 W2 -> acct_ok a W2 W3 -> acct_ok a W1 W3.
Proof.
  intros [A1 A2 A3 A4 A5 A6 A7 A8] [B1 B2 B3 B4 B5 B6 B7 B8]. constructor; intros.
  - specialize (A1 d); specialize (B1 d); lia.
  - rewrite B2; apply A2.
  - rewrite B3; apply A3.
  - rewrite B4; apply A4.
  - rewrite B5; apply A5.
  - rewrite B6; apply A6.
  - rewrite B7; apply A7.
  - rewrite B8; apply A8.
Qed.

Lemma others_refl o c W : others_ok o c W W.
Proof. split; [reflexivity|]. intros; apply acct_refl. Qed.

Lemma others_trans o c W1 W2 W3 : others_ok o c W1 W2 -> others_ok o c W2 W3 -> others_ok o c W1 W3.
Proof.
  intros [N1 H1] [N2 H2]. split; [congruence|]. intros a Ho Hc. eapply acct_trans; [apply H1|apply H2]; assumption.
Qed.

(** * the primitive updates *)
Lemma bal_credit W a d x a' d' :
  bal (credit W a d x) a' d' = if decide ((a', d') = (a, d)) then bal W a d + x else bal W a' d'.
Proof.
  unfold bal, credit, zg; simpl. destruct (decide ((a', d') = (a, d))) as [E|E].
  - inversion E; subst. rewrite lookup_insert. reflexivity.
  - rewrite lookup_insert_ne by congruence. reflexivity.
Qed.

(** anybody may be credited a non-negative amount *)
Lemma credit_receive o c W a d x : 0 <= x -> others_ok o c W (credit W a d x).
Proof.
  intros Hx. split; [reflexivity|]. intros a' Ho Hc. constructor; intros; try reflexivity.
  rewrite bal_credit. destruct (decide ((a', d0) = (a, d))) as [E|E]; [inversion E; subst; lia|lia].
Qed.

Definition mine (o c a : N) : Prop := a = o \/ a = c.

Lemma credit_mine o c W a d x : mine o c a -> others_ok o c W (credit W a d x).
Proof.
  intros Hm. split; [reflexivity|]. intros a' Ho Hc. constructor; intros; try reflexivity.
  rewrite bal_credit. destruct (decide ((a', d0) = (a, d))) as [E|E]; [|lia].
  inversion E; subst. destruct Hm; congruence.
Qed.

Lemma set_stake_mine o c W a v x : mine o c a -> others_ok o c W (set_stake W a v x).
Proof.
  intros Hm. split; [reflexivity|]. intros a' Ho Hc. constructor; intros; try reflexivity; try (unfold bal; simpl; lia).
  simpl. apply lookup_insert_ne. intros E; inversion E; subst. destruct Hm; congruence.
Qed.

Lemma restart_mine o c W a v : mine o c a -> others_ok o c W (restart W a v).
Proof.
  intros Hm. split; [reflexivity|]. intros a' Ho Hc. constructor; intros; try reflexivity; try (unfold bal; simpl; lia).
  simpl. rewrite elem_of_difference, elem_of_singleton. split; [tauto|]. intros H. split; [exact H|].
  intros E; inversion E; subst. destruct Hm; congruence.
Qed.

Lemma unbond0_mine o c W a v x m : mine o c a -> m = unbond0 W -> others_ok o c W (with_unbond0 W (<[(a, v) := x]> m)).
Proof.
  intros Hm ->. split; [reflexivity|]. intros a' Ho Hc. constructor; intros; try reflexivity; try (unfold bal; simpl; lia).
  simpl. apply lookup_insert_ne. intros E; inversion E; subst. destruct Hm; congruence.
Qed.

Lemma unbond1_mine o c W a v x m : mine o c a -> m = unbond1 W -> others_ok o c W (with_unbond1 W (<[(a, v) := x]> m)).
Proof.
  intros Hm ->. split; [reflexivity|]. intros a' Ho Hc. constructor; intros; try reflexivity; try (unfold bal; simpl; lia).
  simpl. apply lookup_insert_ne. intros E; inversion E; subst. destruct Hm; congruence.
Qed.

Lemma redels_any o c W x : others_ok o c W (with_redels W x).
Proof. split; [reflexivity|]. intros; constructor; intros; try reflexivity; try (unfold bal; simpl; lia). Qed.

Lemma wd_mine o c W a t m : mine o c a -> m = wd W -> others_ok o c W (with_wd W (<[a := t]> m)).
Proof.
  intros Hm ->. split; [reflexivity|]. intros a' Ho Hc. constructor; intros; try reflexivity; try (unfold bal; simpl; lia).
  simpl. apply lookup_insert_ne. intros E; subst. destruct Hm; congruence.
Qed.

(** a grant store that differs only at keys whose granter is the signer *)
Definition agree_off (k : gkey) (G G1 : gstore) : Prop := forall k', k' <> k -> G1 !! k' = G !! k'.
Definition agree_off_granter (gr : N) (G G1 : gstore) : Prop := forall a ge t, a <> gr -> G1 !! (a, ge, t) = G !! (a, ge, t).

Lemma agree_off_refl k G : agree_off k G G.
Proof. intros k' _. reflexivity. Qed.

Lemma agree_off_to_granter gr ge t G G1 : agree_off (gr, ge, t) G G1 -> agree_off_granter gr G G1.
Proof. intros H a ge' t' Ha. apply H. intros E; inversion E; subst. congruence. Qed.

Lemma agree_granter_refl gr G : agree_off_granter gr G G.
Proof. intros a ge t _. reflexivity. Qed.

Lemma agree_granter_trans gr G1 G2 G3 :
  agree_off_granter gr G1 G2 -> agree_off_granter gr G2 G3 -> agree_off_granter gr G1 G3.
Proof. intros H1 H2 a ge t Ha. rewrite H2 by assumption. apply H1; assumption. Qed.

Lemma grants_signer o c W G1 : agree_off_granter o (grants W) G1 -> others_ok o c W (with_grants W G1).
Proof.
  intros H. split; [reflexivity|]. intros a Ho Hc. constructor; intros; try reflexivity; try (unfold bal; simpl; lia).
  simpl. apply H. exact Ho.
Qed.

Lemma save_grant_agree now G k a exp G1 : save_grant now G k a exp = Some G1 -> agree_off k G G1.
Proof.
  unfold save_grant. destruct exp as [e|]; [destruct (e <=? now); [discriminate|]|]; intros H; inversion H; subst;
    intros k' Hk; apply lookup_insert_ne; congruence.
Qed.

Lemma delete_grant_agree G k G1 : delete_grant G k = Some G1 -> agree_off k G G1.
Proof.
  unfold delete_grant. destruct (G !! k); [|discriminate]. intros H; inversion H; subst.
  intros k' Hk. apply lookup_delete_ne. congruence.
Qed.

Lemma update_grant_agree now G k r exp G1 : update_grant now G k r exp = Some G1 -> agree_off k G G1.
Proof. destruct r; simpl; [apply delete_grant_agree|apply save_grant_agree]. Qed.

Lemma stake_spend_update_agree now G k val amt G1 :
  stake_spend_update now G k val amt = Some (Some G1) -> agree_off k G G1.
Proof.
  unfold stake_spend_update. destruct (check_allowance now G k amt) as [[[[lim al] dl] exp]|]; [|discriminate].
  destruct (stake_accept lim al dl val amt) as [r|]; [|discriminate]. intros H. inversion H as [H1].
  eapply update_grant_agree. exact H1.
Qed.

Lemma transfer_spend_update_agree now G k ch d amt recv G1 :
  transfer_spend_update now G k ch d amt recv = Some (Some G1) -> agree_off k G G1.
Proof.
  unfold transfer_spend_update. destruct (get_auth now G k) as [[a exp]|]; [|discriminate].
  destruct a as [| allocs |]; try discriminate.
  destruct (transfer_accept allocs ch d amt recv) as [[|al|]|]; try discriminate; intros H; inversion H as [H1].
  - eapply delete_grant_agree; exact H1.
  - eapply save_grant_agree; exact H1.
  - apply agree_off_refl.
Qed.

Lemma stake_approve1_agree now vals G k amt G1 st : stake_approve1 now vals G k amt = (G1, st) -> agree_off k G G1.
Proof.
  unfold stake_approve1. destruct (is_nil vals); [intros H; inversion H; apply agree_off_refl|].
  destruct amt as [a|]; [destruct (a <=? 0)|].
  - destruct (delete_grant G k) eqn:E; intros H; inversion H; subst; [eapply delete_grant_agree; eauto|apply agree_off_refl].
  - destruct (save_grant now G k _ _) eqn:E; intros H; inversion H; subst; [eapply save_grant_agree; eauto|apply agree_off_refl].
  - destruct (save_grant now G k _ _) eqn:E; intros H; inversion H; subst; [eapply save_grant_agree; eauto|apply agree_off_refl].
Qed.

Lemma stake_increase1_agree now G k amt G1 st : stake_increase1 now G k amt = (G1, st) -> agree_off k G G1.
Proof.
  unfold stake_increase1. destruct (get_auth now G k) as [g|]; [|intros H; inversion H; apply agree_off_refl].
  destruct (g_auth g) as [[l|] al dl| |]; try (intros H; inversion H; apply agree_off_refl).
  destruct amt as [a|]; [|intros H; inversion H; apply agree_off_refl].
  destruct (MAXU <? l + a); [intros H; inversion H; apply agree_off_refl|].
  destruct (save_grant now G k _ _) eqn:E; intros H; inversion H; subst; [eapply save_grant_agree; eauto|apply agree_off_refl].
Qed.

Lemma stake_decrease1_agree now G k amt G1 st : stake_decrease1 now G k amt = (G1, st) -> agree_off k G G1.
Proof.
  unfold stake_decrease1. destruct (get_auth now G k) as [g|]; [|intros H; inversion H; apply agree_off_refl].
  destruct (g_auth g) as [[l|] al dl| |]; try (intros H; inversion H; apply agree_off_refl).
  destruct amt as [a|]; [|intros H; inversion H; apply agree_off_refl].
  destruct (l <? a); [intros H; inversion H; apply agree_off_refl|].
  destruct (save_grant now G k _ _) eqn:E; intros H; inversion H; subst; [eapply save_grant_agree; eauto|apply agree_off_refl].
Qed.

Lemma stake_revoke1_agree G k G1 st : stake_revoke1 G k = (G1, st) -> agree_off k G G1.
Proof.
  unfold stake_revoke1. destruct (delete_grant G k) eqn:E; intros H; inversion H; subst; [eapply delete_grant_agree; eauto|apply agree_off_refl].
Qed.

Lemma over_types_agree gr ge f ok :
  (forall G t G1 st, f G t = (G1, st) -> agree_off (gr, ge, t) G G1) ->
  forall tys G G1 st, over_types f ok G tys = (G1, st) -> agree_off_granter gr G G1.
Proof.
  intros Hf. induction tys as [|[t|] r IH]; intros G G1 st; simpl.
  - intros H; inversion H; apply agree_granter_refl.
  - destruct (ok t); [|intros H; inversion H; apply agree_granter_refl].
    destruct (f G t) as [G2 st2] eqn:E. apply Hf in E. apply agree_off_to_granter in E.
    destruct st2; [intros H; apply IH in H; eapply agree_granter_trans; eauto| |]; intros H; inversion H; subst; exact E.
  - intros H; inversion H; apply agree_granter_refl.
Qed.

Lemma ics_approve_agree now ce G k allocs G1 st : ics_approve now ce G k allocs = (G1, st) -> agree_off k G G1.
Proof.
  unfold ics_approve. destruct (valid_allocs ce (strip_allow allocs)); [|intros H; inversion H; apply agree_off_refl].
  destruct (save_grant now G k _ _) eqn:E; intros H; inversion H; subst; [eapply save_grant_agree; eauto|apply agree_off_refl].
Qed.

Lemma ics_revoke_agree now G k G1 st : ics_revoke now G k = (G1, st) -> agree_off k G G1.
Proof.
  unfold ics_revoke. destruct (get_auth now G k) as [[a e]|]; [|intros H; inversion H; apply agree_off_refl].
  destruct a; try (intros H; inversion H; apply agree_off_refl).
  destruct (delete_grant G k) eqn:E; intros H; inversion H; subst; [eapply delete_grant_agree; eauto|apply agree_off_refl].
Qed.

Lemma ics_change_agree inc now G k ch d amt G1 st : ics_change inc now G k ch d amt = (G1, st) -> agree_off k G G1.
Proof.
  unfold ics_change. destruct (get_auth now G k) as [[a e]|]; [|intros H; inversion H; apply agree_off_refl].
  destruct a as [|allocs|]; try (intros H; inversion H; apply agree_off_refl).
  destruct (find_alloc allocs ch) as [al|]; [|intros H; inversion H; apply agree_off_refl].
  destruct (negb (has_denom d (a_limits al))); [intros H; inversion H; apply agree_off_refl|].
  destruct inc.
  - destruct (MAXU <? _); [intros H; inversion H; apply agree_off_refl|].
    destruct (save_grant now G k _ _) eqn:E; intros H; inversion H; subst; [eapply save_grant_agree; eauto|apply agree_off_refl].
  - destruct (_ <? amt); [intros H; inversion H; apply agree_off_refl|].
    destruct (save_grant now G k _ _) eqn:E; intros H; inversion H; subst; [eapply save_grant_agree; eauto|apply agree_off_refl].
Qed.

(** * the Cosmos messages, run for an account that is the signer or the caller *)
Lemma payout_mine o c W a v W1 st r : mine o c a -> payout W a v = (W1, st, r) -> others_ok o c W W1.
Proof.
  intros Hm. unfold payout. destruct (bool_decide ((a, v) ∈ broken W)); [intros H; inversion H; apply others_refl|].
  intros H; inversion H; subst; clear H.
  set (W0 := if 0 <? zg (pending W) (a, v) then credit W (wd_of W a) 0 (zg (pending W) (a, v)) else W).
  assert (H0 : others_ok o c W W0).
  { unfold W0. destruct (0 <? zg (pending W) (a, v)) eqn:E; [|apply others_refl].
    apply credit_receive. apply Z.ltb_lt in E. lia. }
  eapply others_trans; [exact H0|].
  split; [reflexivity|]. intros a' Ho Hc. constructor; intros; try reflexivity; try (unfold bal; simpl; lia).
  - simpl. apply lookup_insert_ne. intros E; inversion E; subst. destruct Hm; congruence.
  - simpl. rewrite elem_of_union, elem_of_singleton. split; [|tauto]. intros [H|H]; [exact H|].
    inversion H; subst. destruct Hm; congruence.
Qed.

Lemma before_modified_mine o c W a v W1 st : mine o c a -> before_modified W a v = (W1, st) -> others_ok o c W W1.
Proof.
  intros Hm. unfold before_modified. destruct (0 <? stk W a v); [|intros H; inversion H; apply others_refl].
  destruct (payout W a v) as [[W2 st2] r] eqn:E. intros H; inversion H; subst. eapply payout_mine; eauto.
Qed.

Local Ltac done_refl := intros H; inversion H; subst; apply others_refl.
Local Ltac chain := cbv zeta; repeat (first [apply others_refl | eapply others_trans; [|
   first [apply restart_mine | apply set_stake_mine | apply credit_mine | apply unbond0_mine | apply unbond1_mine
         | apply redels_any | apply wd_mine]; first [assumption | reflexivity]]]).

Lemma native_delegate_mine o c cf W a v amt W1 st :
  mine o c a -> native_delegate cf W a v amt = (W1, st) -> others_ok o c W W1.
Proof.
  intros Hm. unfold native_delegate.
  destruct (amt <=? 0); [done_refl|]. destruct (negb (mem v (c_vals cf))); [done_refl|].
  destruct (before_modified W a v) as [W2 st2] eqn:E. apply (before_modified_mine o c) in E; [|assumption].
  destruct st2; try (intros H; inversion H; subst; exact E).
  destruct (bal W2 a 0 <? amt); intros H; inversion H; subst; [exact E|].
  eapply others_trans; [exact E|]. chain.
Qed.

Lemma native_undelegate_mine o c cf W a v amt W1 st :
  mine o c a -> native_undelegate cf W a v amt = (W1, st) -> others_ok o c W W1.
Proof.
  intros Hm. unfold native_undelegate.
  destruct (amt <=? 0); [done_refl|]. destruct (negb (mem v (c_vals cf))); [done_refl|].
  destruct ((stk W a v <? amt) || (stk W a v =? 0)); [done_refl|].
  destruct (payout W a v) as [[W2 st2] r] eqn:E. apply (payout_mine o c) in E; [|assumption].
  destruct st2; intros H; inversion H; subst; try exact E.
  eapply others_trans; [exact E|]. chain.
Qed.

Lemma native_redelegate_mine o c cf W a s d amt W1 st :
  mine o c a -> native_redelegate cf W a s d amt = (W1, st) -> others_ok o c W W1.
Proof.
  intros Hm. unfold native_redelegate.
  destruct (amt <=? 0); [done_refl|]. destruct (negb (mem s (c_vals cf)) || negb (mem d (c_vals cf))); [done_refl|].
  destruct ((stk W a s <? amt) || (stk W a s =? 0)); [done_refl|].
  destruct (N.eqb s d); [done_refl|]. destruct (has_receiving W a s); [done_refl|].
  destruct (Nat.leb 7 (count_redels W a s d)); [done_refl|].
  destruct (payout W a s) as [[W2 st2] r] eqn:E. apply (payout_mine o c) in E; [|assumption].
  destruct st2; try (intros H; inversion H; subst; exact E).
  set (W3 := restart (set_stake W2 a s (stk W2 a s - amt)) a s).
  assert (H3 : others_ok o c W W3) by (eapply others_trans; [exact E|]; unfold W3; chain).
  destruct (before_modified W3 a d) as [W4 st4] eqn:E4. apply (before_modified_mine o c) in E4; [|assumption].
  assert (H4 : others_ok o c W W4) by (eapply others_trans; eauto).
  destruct st4; intros H; inversion H; subst; try exact H4.
  eapply others_trans; [exact H4|]. chain.
Qed.

Lemma native_cancel_mine o c cf W a v amt W1 st :
  mine o c a -> native_cancel cf W a v amt = (W1, st) -> others_ok o c W W1.
Proof.
  intros Hm. unfold native_cancel.
  destruct (amt <=? 0); [done_refl|]. destruct (negb (mem v (c_vals cf))); [done_refl|].
  destruct ((zg (unbond0 W) (a, v) =? 0) || (zg (unbond0 W) (a, v) <? amt)); [done_refl|].
  destruct (c_ubt cf <? now W); [done_refl|].
  destruct (before_modified W a v) as [W2 st2] eqn:E. apply (before_modified_mine o c) in E; [|assumption].
  destruct st2; intros H; inversion H; subst; try exact E.
  eapply others_trans; [exact E|]. chain.
Qed.

Lemma native_withdraw_mine o c cf W a v W1 st r :
  mine o c a -> native_withdraw cf W a v = (W1, st, r) -> others_ok o c W W1.
Proof.
  intros Hm. unfold native_withdraw.
  destruct (negb (mem v (c_vals cf))); [done_refl|]. destruct (stk W a v =? 0); [done_refl|].
  destruct (payout W a v) as [[W2 st2] r2] eqn:E. apply (payout_mine o c) in E; [|assumption].
  destruct st2; intros H; inversion H; subst; try exact E.
  eapply others_trans; [exact E|]. chain.
Qed.

Lemma native_claim_mine o c cf a vs : mine o c a -> forall W W1 st,
  native_claim cf W a vs = (W1, st) -> others_ok o c W W1.
Proof.
  intros Hm. induction vs as [|v r IH]; intros W W1 st; simpl; [done_refl|].
  destruct (stk W a v =? 0); [apply IH|].
  destruct (native_withdraw cf W a v) as [[W2 st2] r2] eqn:E. apply (native_withdraw_mine o c) in E; [|assumption].
  destruct st2; try (intros H; inversion H; subst; exact E).
  intros H. apply IH in H. eapply others_trans; eauto.
Qed.

Lemma native_setwithdraw_mine o c W a t W1 st :
  mine o c a -> native_setwithdraw W a t = (W1, st) -> others_ok o c W W1.
Proof.
  intros Hm. unfold native_setwithdraw. destruct (blocked_addr t); intros H; inversion H; subst; [apply others_refl|].
  apply wd_mine; [assumption|reflexivity].
Qed.

Lemma native_transfer_mine o c W a ch d amt W1 st :
  mine o c a -> native_transfer W a ch d amt = (W1, st) -> others_ok o c W W1.
Proof.
  intros Hm. unfold native_transfer.
  destruct (amt <=? 0) eqn:Ea; [done_refl|]. destruct (negb (chan_exists ch)); [done_refl|].
  destruct (bal W a d <? amt); intros H; inversion H; subst; [apply others_refl|].
  apply Z.leb_gt in Ea. eapply others_trans; [|apply credit_receive; lia]. apply credit_mine; assumption.
Qed.

(** * one precompile call *)
Lemma spend_stake_others impl W o c ty val amt run W1 st :
  (forall W W2 st2, run W = (W2, st2) -> others_ok o c W W2) ->
  spend_stake impl W o c ty val amt run = (W1, st) -> others_ok o c W W1.
Proof.
  intros Hr. unfold spend_stake. destruct (N.eqb c o); [apply Hr|].
  destruct (stake_spend_update (now W) (grants W) (o, c, ty) val amt) as [[G1|]|] eqn:Eu; [| |done_refl].
  - apply stake_spend_update_agree, agree_off_to_granter in Eu.
    assert (Hg : forall W2, others_ok o c W W2 -> others_ok o c W (with_grants W2 G1)).
    { intros W2 [N2 H2]. split; [exact N2|]. intros a Ho Hc. destruct (H2 a Ho Hc) as [B1 B2 B3 B4 B5 B6 B7 B8].
      constructor; intros; [apply B1|apply B2|apply B3|apply B4|apply B5|apply B6|exact B7|].
      simpl. apply Eu. exact Ho. }
    destruct impl; destruct (run W) as [W2 st2] eqn:Er; apply Hr in Er;
      destruct st2; intros H; inversion H; subst; auto.
  - destruct impl; [|done_refl].
    destruct (run W) as [W2 st2] eqn:Er; apply Hr in Er. destruct st2; intros H; inversion H; subst; exact Er.
Qed.

Lemma spend_transfer_others impl W o c ch d amt recv run W1 st :
  (forall W W2 st2, run W = (W2, st2) -> others_ok o c W W2) ->
  spend_transfer impl W o c ch d amt recv run = (W1, st) -> others_ok o c W W1.
Proof.
  intros Hr. unfold spend_transfer. destruct (N.eqb c o); [apply Hr|].
  destruct (transfer_spend_update (now W) (grants W) (o, c, MTransfer) ch d amt recv) as [[G1|]|] eqn:Eu; [| |done_refl].
  - apply transfer_spend_update_agree, agree_off_to_granter in Eu.
    assert (Hg : forall W2, others_ok o c W W2 -> others_ok o c W (with_grants W2 G1)).
    { intros W2 [N2 H2]. split; [exact N2|]. intros a Ho Hc. destruct (H2 a Ho Hc) as [B1 B2 B3 B4 B5 B6 B7 B8].
      constructor; intros; [apply B1|apply B2|apply B3|apply B4|apply B5|apply B6|exact B7|].
      simpl. apply Eu. exact Ho. }
    destruct impl; destruct (run W) as [W2 st2] eqn:Er; apply Hr in Er;
      destruct st2; intros H; inversion H; subst; auto.
  - destruct impl; [|done_refl].
    destruct (run W) as [W2 st2] eqn:Er; apply Hr in Er. destruct st2; intros H; inversion H; subst; exact Er.
Qed.

Lemma on_grants_others o c W r W1 st m :
  agree_off_granter o (grants W) (fst r) -> on_grants W r = (W1, st, m) -> others_ok o c W W1.
Proof.
  destruct r as [G1 st1]; simpl. intros Ha H; inversion H; subst. apply grants_signer. exact Ha.
Qed.

Lemma accepted_named_mine o c cl :
  accepts_identity (method_of cl) o c (named_of cl) = true ->
  match cl with
  | CDelegate w _ _ | CUndelegate w _ _ | CRedelegate w _ _ _ | CCancel w _ _
  | CSetWithdraw w _ | CWithdraw w _ | CClaim w | CIcsTransfer w _ _ _ _ => mine o c w
  | _ => True
  end.
Proof.
  destruct cl; simpl; auto; intros H; apply orb_true_iff in H as [H|H]; apply N.eqb_eq in H; subst; unfold mine; auto.
Qed.

(** every call, accepted or not, successful or failed half-way, in the code's
    order or the corrected one: accounts other than the signer and the immediate
    caller can only have received *)
Theorem step_others cf impl W o c cl W1 st m :
  step cf impl W o c cl = (W1, st, m) -> others_ok o c W W1.
Proof.
  unfold step. destruct (accepts_identity (method_of cl) o c (named_of cl)) eqn:Eid; simpl; [|done_refl].
  pose proof (accepted_named_mine o c cl Eid) as Hm.
  destruct cl; simpl in *.
  - destruct (spend_stake _ _ _ _ _ _ _ _) as [W2 st2] eqn:E. intros H; inversion H; subst.
    eapply spend_stake_others; [|exact E]. intros ? ? ? Hx; cbv beta in Hx; eapply native_delegate_mine; eauto.
  - destruct (spend_stake _ _ _ _ _ _ _ _) as [W2 st2] eqn:E. intros H; inversion H; subst.
    eapply spend_stake_others; [|exact E]. intros ? ? ? Hx; cbv beta in Hx; eapply native_undelegate_mine; eauto.
  - destruct (spend_stake _ _ _ _ _ _ _ _) as [W2 st2] eqn:E. intros H; inversion H; subst.
    eapply spend_stake_others; [|exact E]. intros ? ? ? Hx; cbv beta in Hx; eapply native_redelegate_mine; eauto.
  - destruct (spend_stake _ _ _ _ _ _ _ _) as [W2 st2] eqn:E. intros H; inversion H; subst.
    eapply spend_stake_others; [|exact E]. intros ? ? ? Hx; cbv beta in Hx; eapply native_cancel_mine; eauto.
  - apply on_grants_others. unfold stake_approve. destruct (is_nil tys); [apply agree_granter_refl|].
    destruct (over_types _ _ _ _) as [G1 st1] eqn:E. simpl.
    eapply (over_types_agree o grantee); [|exact E]. intros ? ? ? ? Hx; cbv beta in Hx; eapply stake_approve1_agree; eauto.
  - apply on_grants_others. unfold stake_increase. destruct (is_nil tys); [apply agree_granter_refl|].
    destruct (over_types _ _ _ _) as [G1 st1] eqn:E. simpl.
    eapply (over_types_agree o grantee); [|exact E]. intros ? ? ? ? Hx; cbv beta in Hx; eapply stake_increase1_agree; eauto.
  - apply on_grants_others. unfold stake_decrease. destruct (is_nil tys); [apply agree_granter_refl|].
    destruct (over_types _ _ _ _) as [G1 st1] eqn:E. simpl.
    eapply (over_types_agree o grantee); [|exact E]. intros ? ? ? ? Hx; cbv beta in Hx; eapply stake_decrease1_agree; eauto.
  - apply on_grants_others. unfold stake_revoke. destruct (is_nil tys); [apply agree_granter_refl|].
    destruct (over_types _ _ _ _) as [G1 st1] eqn:E. simpl.
    eapply (over_types_agree o grantee); [|exact E]. intros ? ? ? ? Hx; cbv beta in Hx; eapply stake_revoke1_agree; eauto.
  - destruct (native_setwithdraw W who to) as [W2 st2] eqn:E. intros H; inversion H; subst.
    eapply native_setwithdraw_mine; eauto.
  - destruct (native_withdraw cf W who val) as [[W2 st2] r] eqn:E. intros H; inversion H; subst.
    eapply native_withdraw_mine; eauto.
  - destruct (native_claim cf W who (c_vals cf)) as [W2 st2] eqn:E. intros H; inversion H; subst.
    eapply native_claim_mine; eauto.
  - destruct (negb (chan_exists ch) || (amt <=? 0)); [done_refl|].
    destruct (spend_transfer _ _ _ _ _ _ _ _ _) as [W2 st2] eqn:E. intros H; inversion H; subst.
    eapply spend_transfer_others; [|exact E]. intros ? ? ? Hx; cbv beta in Hx; eapply native_transfer_mine; eauto.
  - apply on_grants_others. destruct (ics_approve _ _ _ _ _) as [G1 st1] eqn:E. simpl.
    eapply agree_off_to_granter, ics_approve_agree; eauto.
  - apply on_grants_others. destruct (ics_revoke _ _ _) as [G1 st1] eqn:E. simpl.
    eapply agree_off_to_granter, ics_revoke_agree; eauto.
  - apply on_grants_others. destruct (ics_change _ _ _ _ _ _ _) as [G1 st1] eqn:E. simpl.
    eapply agree_off_to_granter, ics_change_agree; eauto.
  - apply on_grants_others. destruct (ics_change _ _ _ _ _ _ _) as [G1 st1] eqn:E. simpl.
    eapply agree_off_to_granter, ics_change_agree; eauto.
Qed.

(** * a transaction: the calls and the StateDB write-back of the caller's balance *)
Lemma flush_others o c s s1 : flush s c = Some s1 -> others_ok o c (tw s) (tw s1).
Proof.
  unfold flush. destruct (tdirty s); [|intros H; inversion H; apply others_refl].
  destruct (tcc s <? 0); [discriminate|]. intros H; inversion H; subst; simpl.
  split; [reflexivity|]. intros a Ho Hc. constructor; intros; try reflexivity.
  unfold bal, zg; simpl. rewrite lookup_insert_ne; [lia|]. intros E; inversion E; congruence.
Qed.

Lemma run_calls_others cf impl o c calls : forall s s' st l,
  run_calls cf impl o c calls s = (s', st, l) -> others_ok o c (tw s) (tw s').
Proof.
  induction calls as [|[cl catch] r IH]; intros s s' st l; simpl.
  - intros H; inversion H; apply others_refl.
  - destruct (flush s c) as [s1|] eqn:Ef.
    + apply (flush_others o c) in Ef.
      destruct (step cf impl (tw s1) o c cl) as [[W1 st1] m] eqn:Es. apply step_others in Es.
      assert (H1 : others_ok o c (tw s) W1) by (eapply others_trans; eauto).
      destruct st1.
      * destruct (run_calls cf impl o c r _) as [[s2 st2] l2] eqn:Er. apply IH in Er. simpl in Er.
        intros H; inversion H; subst. eapply others_trans; eauto.
      * destruct catch.
        -- destruct (run_calls cf impl o c r _) as [[s2 st2] l2] eqn:Er. apply IH in Er. simpl in Er.
           intros H; inversion H; subst. eapply others_trans; eauto.
        -- intros H; inversion H; subst. exact H1.
      * intros H; inversion H; subst. exact Ef.
    + destruct catch.
      * destruct (run_calls cf impl o c r s) as [[s2 st2] l2] eqn:Er. apply IH in Er.
        intros H; inversion H; subst. exact Er.
      * intros H; inversion H; subst. apply others_refl.
Qed.

(** a whole transaction (successful or not): third accounts can only have received *)
Theorem run_tx_others cf impl W0 o c calls W1 ok l :
  run_tx cf impl W0 o c calls = (W1, ok, l) -> others_ok o c W0 W1.
Proof.
  unfold run_tx.
  destruct (run_calls cf impl o c _ _) as [[s st] l0] eqn:Er. apply run_calls_others in Er. simpl in Er.
  destruct st; try (intros H; inversion H; apply others_refl).
  destruct (flush s c) as [s1|] eqn:Ef; intros H; inversion H; subst; [|apply others_refl].
  eapply others_trans; [exact Er|]. eapply flush_others; eauto.
Qed.

(** * histories: an account that is neither the signer nor ever the calling
    contract only receives, whatever is signed and called *)
Fixpoint final_world (cf : cfg) (impl : bool) (W : world) (txs : list (Z * N * list (call * bool))) : world :=
  match txs with
  | [] => W
  | (dt, c, calls) :: r =>
      let '(W2, _, _) := run_tx cf impl (with_now W (now W + dt)) 0%N c calls in final_world cf impl W2 r
  end.

Lemma with_now_acct a W x : acct_ok a W (with_now W x).
Proof. constructor; intros; try reflexivity; try (unfold bal; simpl; lia). Qed.

Theorem history_others cf impl a txs : forall W,
  a <> 0%N -> Forall (fun tx => snd (fst tx) <> a) txs -> acct_ok a W (final_world cf impl W txs).
Proof.
  induction txs as [|[[dt c] calls] r IH]; intros W Ha Hc; simpl; [apply acct_refl|].
  inversion Hc as [|? ? Hc1 Hc2]; subst. simpl in Hc1.
  destruct (run_tx cf impl (with_now W (now W + dt)) 0%N c calls) as [[W2 ok] l] eqn:E.
  apply run_tx_others in E as [_ E]. eapply acct_trans; [apply with_now_acct|].
  eapply acct_trans; [apply E; congruence|]. apply IH; assumption.
Qed.

(** the observations the harness compares are those of the worlds of [final_world] *)
Lemma run_history_length cf impl txs : forall W, length (run_history cf impl W txs) = length txs.
Proof.
  induction txs as [|[[dt c] calls] r IH]; intros W; simpl; [reflexivity|].
  destruct (run_tx cf impl (with_now W (now W + dt)) 0%N c calls) as [[W2 ok] l]. simpl. rewrite IH. reflexivity.
Qed.

Lemma run_history_last cf impl txs : forall W d,
  txs <> [] -> exists ok cs, List.last (run_history cf impl W txs) d = observe cf (final_world cf impl W txs) ok cs.
Proof.
  induction txs as [|[[dt c] calls] r IH]; intros W d Hne; [congruence|]. simpl.
  destruct (run_tx cf impl (with_now W (now W + dt)) 0%N c calls) as [[W2 ok] l] eqn:E.
  destruct r as [|tx r'].
  - simpl. eauto.
  - destruct (IH W2 d) as (ok' & cs' & H); [discriminate|]. exists ok', cs'. rewrite <- H.
    pose proof (run_history_length cf impl (tx :: r') W2) as HL.
    destruct (run_history cf impl W2 (tx :: r')) as [|y L]; [discriminate HL|]. reflexivity.
Qed.

(** * the same, read the other way: whose assets can get worse *)
Definition worse (a : N) (W W' : world) : Prop :=
  (exists d, bal W' a d < bal W a d) \/
  (exists v, stk W' a v <> stk W a v) \/
  (exists v, zg (unbond0 W') (a, v) <> zg (unbond0 W) (a, v)) \/
  (exists v, zg (unbond1 W') (a, v) <> zg (unbond1 W) (a, v)) \/
  (exists v, zg (pending W') (a, v) <> zg (pending W) (a, v)) \/
  wd_of W' a <> wd_of W a \/
  (exists ge t, grants W' !! (a, ge, t) <> grants W !! (a, ge, t)).

Lemma acct_ok_not_worse a W W' : acct_ok a W W' -> ~ worse a W W'.
Proof.
  intros [B1 B2 B3 B4 B5 B6 B7 B8] Hw.
  destruct Hw as [[d H]|[[v H]|[[v H]|[[v H]|[[v H]|[H|[ge [t H]]]]]]]].
  - specialize (B1 d). lia.
  - apply H. unfold stk, zg. rewrite B2. reflexivity.
  - apply H. unfold zg. rewrite B3. reflexivity.
  - apply H. unfold zg. rewrite B4. reflexivity.
  - apply H. unfold zg. rewrite B5. reflexivity.
  - apply H. unfold wd_of. rewrite B7. reflexivity.
  - apply H. apply B8.
Qed.

Theorem owner_signer_or_caller_step cf impl W o c cl W1 st m a :
  step cf impl W o c cl = (W1, st, m) -> worse a W W1 -> a = o \/ a = c.
Proof.
  intros Hs Hw. destruct (N.eq_dec a o) as [|Ho]; [auto|]. destruct (N.eq_dec a c) as [|Hc]; [auto|].
  exfalso. apply step_others in Hs as [_ Hs]. exact (acct_ok_not_worse _ _ _ (Hs a Ho Hc) Hw).
Qed.

Theorem owner_signer_or_caller_tx cf impl W o c calls W1 ok l a :
  run_tx cf impl W o c calls = (W1, ok, l) -> worse a W W1 -> a = o \/ a = c.
Proof.
  intros Hs Hw. destruct (N.eq_dec a o) as [|Ho]; [auto|]. destruct (N.eq_dec a c) as [|Hc]; [auto|].
  exfalso. apply run_tx_others in Hs as [_ Hs]. exact (acct_ok_not_worse _ _ _ (Hs a Ho Hc) Hw).
Qed.

(** * the grant a spend by a caller that is not the signer needs *)
(** message type, validator looked up in the grant, amount *)
Definition spend_of (cl : call) : option (mtype * N * Z) :=
  match cl with
  | CDelegate _ v amt => Some (MDelegate, v, amt)
  | CUndelegate _ v amt => Some (MUndelegate, v, amt)
  | CRedelegate _ _ dst amt => Some (MRedelegate, dst, amt)
  | CCancel _ v amt => Some (MCancel, v, amt)
  | _ => None
  end.

Local Ltac natives_keep :=
  repeat match goal with
         | |- context [if ?b then _ else _] => destruct b
         | |- context [let '(_, _) := ?x in _] => destruct x as [? ?] eqn:?
         | |- context [match ?x with SOk => _ | SErr => _ | SPanic => _ end] => destruct x
         end.

Lemma payout_grants W a v W1 st r : payout W a v = (W1, st, r) -> grants W1 = grants W /\ now W1 = now W.
Proof.
  unfold payout. destruct (bool_decide _); intros H; inversion H; subst; [auto|]. simpl.
  destruct (0 <? zg (pending W) (a, v)); auto.
Qed.

Lemma before_modified_grants W a v W1 st : before_modified W a v = (W1, st) -> grants W1 = grants W /\ now W1 = now W.
Proof.
  unfold before_modified. destruct (0 <? stk W a v); [|intros H; inversion H; auto].
  destruct (payout W a v) as [[W2 st2] r] eqn:E. apply payout_grants in E. intros H; inversion H; subst. exact E.
Qed.

Lemma native_delegate_grants cf W a v amt W1 st : native_delegate cf W a v amt = (W1, st) -> grants W1 = grants W.
Proof.
  unfold native_delegate. destruct (amt <=? 0); [intros H; inversion H; auto|].
  destruct (negb _); [intros H; inversion H; auto|].
  destruct (before_modified W a v) as [W2 st2] eqn:E. apply before_modified_grants in E as [E _].
  destruct st2; try (intros H; inversion H; subst; exact E).
  destruct (bal W2 a 0 <? amt); intros H; inversion H; subst; exact E.
Qed.

Lemma native_undelegate_grants cf W a v amt W1 st : native_undelegate cf W a v amt = (W1, st) -> grants W1 = grants W.
Proof.
  unfold native_undelegate. destruct (amt <=? 0); [intros H; inversion H; auto|].
  destruct (negb _); [intros H; inversion H; auto|]. destruct (_ || _); [intros H; inversion H; auto|].
  destruct (payout W a v) as [[W2 st2] r] eqn:E. apply payout_grants in E as [E _].
  destruct st2; intros H; inversion H; subst; exact E.
Qed.

Lemma native_redelegate_grants cf W a s d amt W1 st : native_redelegate cf W a s d amt = (W1, st) -> grants W1 = grants W.
Proof.
  unfold native_redelegate. destruct (amt <=? 0); [intros H; inversion H; auto|].
  destruct (_ || _); [intros H; inversion H; auto|]. destruct (_ || _); [intros H; inversion H; auto|].
  destruct (N.eqb s d); [intros H; inversion H; auto|]. destruct (has_receiving W a s); [intros H; inversion H; auto|].
  destruct (Nat.leb _ _); [intros H; inversion H; auto|].
  destruct (payout W a s) as [[W2 st2] r] eqn:E. apply payout_grants in E as [E _].
  destruct st2; try (intros H; inversion H; subst; exact E).
  destruct (before_modified _ a d) as [W4 st4] eqn:E4. apply before_modified_grants in E4 as [E4 _]. simpl in E4.
  destruct st4; intros H; inversion H; subst; simpl; congruence.
Qed.

Lemma native_cancel_grants cf W a v amt W1 st : native_cancel cf W a v amt = (W1, st) -> grants W1 = grants W.
Proof.
  unfold native_cancel. destruct (amt <=? 0); [intros H; inversion H; auto|].
  destruct (negb _); [intros H; inversion H; auto|]. destruct (_ || _); [intros H; inversion H; auto|].
  destruct (c_ubt cf <? now W); [intros H; inversion H; auto|].
  destruct (before_modified W a v) as [W2 st2] eqn:E. apply before_modified_grants in E as [E _].
  destruct st2; intros H; inversion H; subst; exact E.
Qed.

(** the four staking spends share one shape *)
Lemma step_spend_shape cf impl W o c cl ty val amt :
  spend_of cl = Some (ty, val, amt) ->
  exists run mir, (forall W0 W2 st2, run W0 = (W2, st2) -> grants W2 = grants W0) /\ mir SErr = 0 /\
    step cf impl W o c cl =
      if negb (accepts_identity (method_of cl) o c (named_of cl)) then (W, SErr, 0)
      else let '(W1, st) := spend_stake impl W o c ty val amt run in (W1, st, mir st).
Proof.
  destruct cl; simpl; intros H; inversion H; subst; clear H.
  - exists (fun W => native_delegate cf W who val amt), (fun st => match st with SOk => if N.eqb who c then - amt else 0 | _ => 0 end).
    split; [intros; eapply native_delegate_grants; eauto|]. split; [reflexivity|]. unfold step; simpl. reflexivity.
  - exists (fun W => native_undelegate cf W who val amt), (fun _ => 0).
    split; [intros; eapply native_undelegate_grants; eauto|]. split; [reflexivity|]. unfold step; simpl. reflexivity.
  - exists (fun W => native_redelegate cf W who src val amt), (fun _ => 0).
    split; [intros; eapply native_redelegate_grants; eauto|]. split; [reflexivity|]. unfold step; simpl. reflexivity.
  - exists (fun W => native_cancel cf W who val amt), (fun _ => 0).
    split; [intros; eapply native_cancel_grants; eauto|]. split; [reflexivity|]. unfold step; simpl. reflexivity.
Qed.

(** a spend by a caller that is not the signer succeeds only with a live
    StakeAuthorization signer -> caller for that message type which admits the
    validator and covers the amount; the grant is then updated exactly *)
Theorem spend_needs_grant cf impl W o c cl ty val amt W1 m :
  spend_of cl = Some (ty, val, amt) -> c <> o -> step cf impl W o c cl = (W1, SOk, m) ->
  exists lim al dl exp,
    grants W !! (o, c, ty) = Some (mkgrant (AStake lim al dl) exp) /\
    expired (now W) (mkgrant (AStake lim al dl) exp) = false /\
    val_admissible al dl val /\
    match lim with
    | None => grants W1 = grants W
    | Some l => amt <= l /\ (amt = l -> grants W1 = delete (o, c, ty) (grants W)) /\
                (amt < l -> grants W1 = <[(o, c, ty) := mkgrant (AStake (Some (l - amt)) al dl) exp]> (grants W))
    end.
Proof.
  intros Hs Hc. destruct (step_spend_shape cf impl W o c cl ty val amt Hs) as (run & mir & Hrun & Hmir & ->).
  destruct (negb _); [discriminate|].
  unfold spend_stake. assert (N.eqb c o = false) as -> by (apply N.eqb_neq; exact Hc).
  destruct (stake_spend_update (now W) (grants W) (o, c, ty) val amt) as [[G1|]|] eqn:Eu; [| |discriminate].
  - assert (Hsp : stake_spend false (now W) (grants W) (o, c, ty) val amt true = (G1, true, SOk))
      by (unfold stake_spend; rewrite Eu; reflexivity).
    apply stake_spend_ok in Hsp as (lim & al & dl & exp & E1 & E2 & Ad & _ & _ & E3).
    intros H. assert (grants W1 = G1).
    { destruct impl; destruct (run W) as [W2 st2]; destruct st2; inversion H; subst; reflexivity. }
    subst G1. exists lim, al, dl, exp. auto.
  - destruct impl; [|discriminate]. destruct (run W) as [W2 st2]; destruct st2; discriminate.
Qed.

(** the signer itself needs no grant, and none is touched *)
Theorem signer_needs_no_grant cf impl W o cl ty val amt W1 st m :
  spend_of cl = Some (ty, val, amt) -> step cf impl W o o cl = (W1, st, m) -> grants W1 = grants W.
Proof.
  intros Hs. destruct (step_spend_shape cf impl W o o cl ty val amt Hs) as (run & mir & Hrun & Hmir & ->).
  destruct (negb _); [intros H; inversion H; reflexivity|].
  unfold spend_stake. rewrite N.eqb_refl. destruct (run W) as [W2 st2] eqn:E. apply Hrun in E.
  intros H; inversion H; subst. exact E.
Qed.

(** corrected order: without a grant that accepts and can be updated, nothing at all happens *)
Theorem spec_spend_without_cover_no_effect cf W o c cl ty val amt :
  spend_of cl = Some (ty, val, amt) -> c <> o ->
  (forall G1, stake_spend_update (now W) (grants W) (o, c, ty) val amt <> Some (Some G1)) ->
  step cf false W o c cl = (W, SErr, 0).
Proof.
  intros Hs Hc Hn. destruct (step_spend_shape cf false W o c cl ty val amt Hs) as (run & mir & Hrun & Hmir & ->).
  destruct (negb _); [reflexivity|].
  unfold spend_stake. assert (N.eqb c o = false) as -> by (apply N.eqb_neq; exact Hc).
  destruct (stake_spend_update (now W) (grants W) (o, c, ty) val amt) as [[G1|]|] eqn:Eu.
  - exfalso. apply (Hn G1). reflexivity.
  - rewrite Hmir. reflexivity.
  - rewrite Hmir. reflexivity.
Qed.

(** the two orders coincide unless the grant lets the amount through but then
    cannot accept / be updated (finding K10) *)
Theorem step_impl_eq_spec_outside_k10 cf W o c cl ty val amt :
  spend_of cl = Some (ty, val, amt) ->
  (c <> o -> stake_spend_update (now W) (grants W) (o, c, ty) val amt <> Some None) ->
  step cf true W o c cl = step cf false W o c cl.
Proof.
  intros Hs Hn.
  destruct cl; simpl in Hs; inversion Hs; subst; unfold step; simpl;
    (destruct (negb _); [reflexivity|]); unfold spend_stake;
    (destruct (N.eqb c o) eqn:Eco; [reflexivity|]);
    (assert (Hc : c <> o) by (apply N.eqb_neq; exact Eco)); specialize (Hn Hc);
    (destruct (stake_spend_update _ _ _ _ _) as [[G1|]|]; [reflexivity|congruence|reflexivity]).
Qed.

(** * finding K10 in the call model: 1000 granted for validator 0; the contract
    delegates 300 of the signer's coins to validator 1; the call fails, the
    delegation stays, the limit is untouched *)
Definition k10_world : world :=
  mkw (list_to_map [((0%N, 0%N), 5000); ((2%N, 0%N), 5000)])
      (list_to_map [((0%N, 1%N), 1000)]) ∅ ∅ ∅ ∅ [] ∅
      {[ (0%N, 2%N, MDelegate) := mkgrant (AStake (Some 1000) [0%N] []) (Some 5000) ]} 0.
Definition k10_cfg : cfg := mkcfg [0%N; 1%N] 1814400.
Definition k10_call : call := CDelegate 0 1 300.

Theorem k10_spend_effect_without_cover_refuted :
  (forall G1, stake_spend_update (now k10_world) (grants k10_world) (0%N, 2%N, MDelegate) 1%N 300 <> Some (Some G1)) /\
  exists W1, step k10_cfg true k10_world 0 2 k10_call = (W1, SErr, 0) /\
             stk W1 0 1 = stk k10_world 0 1 + 300 /\ bal W1 0 0 = bal k10_world 0 0 - 300 /\
             grants W1 = grants k10_world.
Proof.
  split.
  - intros G1. vm_compute. discriminate.
  - eexists. split; [vm_compute; reflexivity|]. vm_compute. repeat split.
Qed.

Theorem k10_absent_in_corrected_order :
  step k10_cfg false k10_world 0 2 k10_call = (k10_world, SErr, 0).
Proof. vm_compute. reflexivity. Qed.

(** non-vacuity of [spend_needs_grant]: the same call for validator 0 succeeds and leaves 700 *)
Example spend_ok_ex :
  exists W1, step k10_cfg true k10_world 0 2 (CDelegate 0 0 300) = (W1, SOk, 0) /\
             grants W1 !! (0%N, 2%N, MDelegate) = Some (mkgrant (AStake (Some 700) [0%N] []) (Some 5000)) /\
             stk W1 0 0 = 300.
Proof. eexists. split; [vm_compute; reflexivity|]. vm_compute. split; reflexivity. Qed.

(** non-vacuity of the frame theorem: a call that does pay a third account *)
Example third_account_receives_ex :
  let W := mkw (list_to_map [((0%N, 0%N), 100)]) (list_to_map [((0%N, 0%N), 50)]) ∅ ∅ (list_to_map [((0%N, 0%N), 7)]) ∅ []
               (list_to_map [(0%N, 1%N)]) ∅ 0 in
  exists W1, step k10_cfg true W 0 2 (CWithdraw 0 0) = (W1, SOk, 0) /\ bal W1 1 0 = bal W 1 0 + 7.
Proof. eexists. split; vm_compute; reflexivity. Qed.

(** * ICS-20 transfer by a caller that is not the signer *)
Lemma native_transfer_grants W a ch d amt W1 st : native_transfer W a ch d amt = (W1, st) -> grants W1 = grants W.
Proof.
  unfold native_transfer. destruct (amt <=? 0); [intros H; inversion H; auto|].
  destruct (negb _); [intros H; inversion H; auto|]. destruct (_ <? amt); intros H; inversion H; subst; reflexivity.
Qed.

Theorem transfer_needs_grant cf impl W o c who ch d amt recv W1 m :
  c <> o -> step cf impl W o c (CIcsTransfer who ch d amt recv) = (W1, SOk, m) ->
  0 < amt /\
  exists allocs exp r,
    grants W !! (o, c, MTransfer) = Some (mkgrant (ATransfer allocs) exp) /\
    expired (now W) (mkgrant (ATransfer allocs) exp) = false /\
    transfer_accept allocs ch d amt recv = Some r /\
    match r with
    | TKeep => grants W1 = grants W
    | TDelete => grants W1 = delete (o, c, MTransfer) (grants W)
    | TUpdate al => grants W1 = <[(o, c, MTransfer) := mkgrant (ATransfer al) exp]> (grants W)
    end.
Proof.
  intros Hc. unfold step. simpl. destruct (negb _); [discriminate|].
  destruct (negb (chan_exists ch) || (amt <=? 0)) eqn:Eg; [discriminate|].
  apply orb_false_iff in Eg as [_ Eamt]. apply Z.leb_gt in Eamt.
  destruct (spend_transfer impl W o c ch d amt recv _) as [W2 st2] eqn:Es. intros H; inversion H; subst. clear H.
  split; [exact Eamt|]. revert Es.
  unfold spend_transfer. assert (N.eqb c o = false) as -> by (apply N.eqb_neq; exact Hc).
  destruct (transfer_spend_update (now W) (grants W) (o, c, MTransfer) ch d amt recv) as [[G1|]|] eqn:Eu; [| |discriminate].
  - assert (Hsp : transfer_spend false (now W) (grants W) (o, c, MTransfer) ch d amt recv true = (G1, true, SOk))
      by (unfold transfer_spend; rewrite Eu; reflexivity).
    apply transfer_spend_ok in Hsp as (allocs & exp & r & E1 & E2 & Ea & _ & _ & E3).
    intros H. assert (grants W1 = G1).
    { destruct impl; destruct (native_transfer W who ch d amt) as [W3 st3]; destruct st3; inversion H; subst; reflexivity. }
    subst G1. exists allocs, exp, r. auto.
  - destruct impl; [|discriminate]. destruct (native_transfer W who ch d amt) as [W3 st3]; destruct st3; discriminate.
Qed.

Theorem signer_transfer_needs_no_grant cf impl W o who ch d amt recv W1 st m :
  step cf impl W o o (CIcsTransfer who ch d amt recv) = (W1, st, m) -> grants W1 = grants W.
Proof.
  unfold step. simpl. destruct (negb _); [intros H; inversion H; reflexivity|].
  destruct (_ || _); [intros H; inversion H; reflexivity|].
  unfold spend_transfer. rewrite N.eqb_refl.
  destruct (native_transfer W who ch d amt) as [W2 st2] eqn:E. apply native_transfer_grants in E.
  intros H; inversion H; subst. exact E.
Qed.

Lemma native_withdraw_grants cf W a v W1 st r : native_withdraw cf W a v = (W1, st, r) -> grants W1 = grants W.
Proof.
  unfold native_withdraw. destruct (negb _); [intros E; inversion E; reflexivity|]. destruct (_ =? 0); [intros E; inversion E; reflexivity|].
  destruct (payout W a v) as [[W3 st3] r3] eqn:Ep. apply payout_grants in Ep as [Ep _].
  destruct st3; intros E; inversion E; subst; exact Ep.
Qed.

Lemma native_claim_grants cf a vs : forall W W1 st, native_claim cf W a vs = (W1, st) -> grants W1 = grants W.
Proof.
  induction vs as [|v r IH]; intros W W1 st; simpl; [intros E; inversion E; reflexivity|].
  destruct (stk W a v =? 0); [apply IH|].
  destruct (native_withdraw cf W a v) as [[W3 st3] r3] eqn:Ew. apply native_withdraw_grants in Ew.
  destruct st3; try (intros E; inversion E; subst; exact Ew).
  intros E. apply IH in E. congruence.
Qed.

(** distribution methods never read or write a grant: a contract acts on the
    signer's rewards and withdraw address without any authorization *)
Theorem distribution_ignores_grants cf impl W o c cl W1 st m :
  is_distribution (method_of cl) = true -> step cf impl W o c cl = (W1, st, m) -> grants W1 = grants W.
Proof.
  intros Hd. unfold step. destruct (negb _); [intros H; inversion H; reflexivity|].
  destruct cl; simpl in Hd; try discriminate.
  - unfold native_setwithdraw. destruct (blocked_addr to); intros H; inversion H; reflexivity.
  - destruct (native_withdraw cf W who val) as [[W2 st2] r] eqn:E. apply native_withdraw_grants in E.
    intros H; inversion H; subst. exact E.
  - destruct (native_claim cf W who (c_vals cf)) as [W2 st2] eqn:E. apply native_claim_grants in E.
    intros H; inversion H; subst. exact E.
Qed.

(** and it can do so for the signer: non-vacuity (the contract C1 = 2 redirects the signer's rewards to itself) *)
Example contract_sets_signers_withdraw_address_ex :
  exists W1, step k10_cfg true k10_world 0 2 (CSetWithdraw 0 2) = (W1, SOk, 0) /\ wd_of W1 0 = 2%N.
Proof. eexists. split; vm_compute; reflexivity. Qed.
