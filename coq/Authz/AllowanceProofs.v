(** Property C04: the allowance state machine (AllowanceModel): what a spend
    requires, what it does to the grant, and the running allowance over all
    sequences of approve / increase / decrease / revoke / native grant / spend /
    passage of time. *)
From Coq Require Import ZArith List Lia Bool.
From stdpp Require Import gmap.
From HV Require Import Authz.AllowanceModel.
Import ListNotations.
Local Open Scope Z_scope.

(** the validator passes the lists of a StakeAuthorization *)
Definition val_admissible (al dl : list N) (val : N) : Prop :=
  mem val dl = false /\ (al = [] \/ mem val al = true).

Lemma get_auth_some now G k g :
  get_auth now G k = Some g <-> G !! k = Some g /\ expired now g = false.
Proof.
  unfold get_auth. destruct (G !! k) as [g'|]; [|split; [discriminate|intros [? _]; discriminate]].
  destruct (expired now g') eqn:E; split; intros H; try discriminate.
  - destruct H as [H1 H2]. inversion H1; subst. congruence.
  - inversion H; subst; auto.
  - destruct H as [H _]. exact H.
Qed.

Lemma check_allowance_some now G k amt lim al dl exp :
  check_allowance now G k amt = Some (lim, al, dl, exp) <->
  G !! k = Some (mkgrant (AStake lim al dl) exp) /\ expired now (mkgrant (AStake lim al dl) exp) = false /\
  match lim with Some l => amt <= l | None => True end.
Proof.
  unfold check_allowance.
  destruct (get_auth now G k) as [g|] eqn:Eg.
  - apply get_auth_some in Eg as [E1 E2]. destruct g as [a e]. destruct a as [lim' al' dl'| |].
    + destruct lim' as [l|].
      * destruct (l <? amt) eqn:El; split; intros H; try discriminate.
        -- destruct H as (H1 & _ & H3). rewrite E1 in H1. inversion H1; subst. apply Z.ltb_lt in El. lia.
        -- inversion H; subst. repeat split; auto. apply Z.ltb_ge in El. exact El.
        -- destruct H as (H1 & _ & _). rewrite E1 in H1. inversion H1; subst. reflexivity.
      * split; intros H.
        -- inversion H; subst. auto.
        -- destruct H as (H1 & _ & _). rewrite E1 in H1. inversion H1; subst. reflexivity.
    + split; intros H; [discriminate|]. destruct H as (H1 & _ & _). rewrite E1 in H1. discriminate.
    + split; intros H; [discriminate|]. destruct H as (H1 & _ & _). rewrite E1 in H1. discriminate.
  - split; intros H; [discriminate|]. destruct H as (H1 & H2 & _).
    assert (get_auth now G k = Some (mkgrant (AStake lim al dl) exp)) by (apply get_auth_some; auto). congruence.
Qed.

Lemma check_allowance_none now G k amt :
  check_allowance now G k amt = None <->
  (forall lim al dl exp, G !! k = Some (mkgrant (AStake lim al dl) exp) ->
     expired now (mkgrant (AStake lim al dl) exp) = true \/ exists l, lim = Some l /\ l < amt).
Proof.
  split.
  - intros H lim al dl exp HG.
    destruct (expired now (mkgrant (AStake lim al dl) exp)) eqn:E; [left; reflexivity|right].
    destruct lim as [l|].
    + exists l. split; [reflexivity|]. destruct (Z_lt_dec l amt); [assumption|].
      assert (check_allowance now G k amt = Some (Some l, al, dl, exp)) by (apply check_allowance_some; repeat split; auto; lia).
      congruence.
    + assert (check_allowance now G k amt = Some (None, al, dl, exp)) by (apply check_allowance_some; auto). congruence.
  - intros H. destruct (check_allowance now G k amt) as [[[[lim al] dl] exp]|] eqn:E; [|reflexivity].
    apply check_allowance_some in E as (E1 & E2 & E3). destruct (H _ _ _ _ E1) as [X|(l & -> & X)]; [congruence|lia].
Qed.

Lemma stake_accept_some lim al dl val amt r :
  stake_accept lim al dl val amt = Some r <->
  val_admissible al dl val /\
  match lim with
  | None => r = RUpdate (AStake None al dl)
  | Some l => amt <= l /\ (amt = l -> r = RDelete) /\ (amt < l -> r = RUpdate (AStake (Some (l - amt)) al dl))
  end.
Proof.
  unfold stake_accept, val_admissible.
  destruct (mem val dl) eqn:Ed; [split; [discriminate|intros [[? _] _]; discriminate]|].
  assert (Hok : negb (is_nil al) && negb (mem val al) = false <-> (al = [] \/ mem val al = true)).
  { destruct al as [|a0 al0]; [simpl; tauto|]. change (negb (is_nil (a0 :: al0))) with true.
    destruct (mem val (a0 :: al0)); simpl; split; auto; intros [H|H]; discriminate. }
  destruct (negb (is_nil al) && negb (mem val al)).
  - split; [discriminate|]. intros [[_ H] _]. apply Hok in H. discriminate.
  - assert (Hal : al = [] \/ mem val al = true) by (apply Hok; reflexivity).
    destruct lim as [l|].
    + destruct (l - amt <? 0) eqn:E1; [split; [discriminate|intros (_ & ? & _); apply Z.ltb_lt in E1; lia]|].
      apply Z.ltb_ge in E1.
      destruct (l - amt =? 0) eqn:E2.
      * apply Z.eqb_eq in E2. split; intros H.
        -- inversion H; subst. repeat split; auto; try lia; try (intros; lia).
        -- destruct H as (_ & _ & H & _). rewrite H by lia. reflexivity.
      * apply Z.eqb_neq in E2. split; intros H.
        -- inversion H; subst. repeat split; auto; try lia; try (intros; lia).
        -- destruct H as (_ & _ & _ & H). rewrite H by lia. reflexivity.
    + split; intros H; [inversion H; auto|destruct H as [_ ->]; reflexivity].
Qed.

Lemma stake_accept_none_iff lim al dl val amt :
  match lim with Some l => amt <= l | None => True end ->
  (stake_accept lim al dl val amt = None <-> ~ val_admissible al dl val).
Proof.
  intros Hl. split.
  - intros H [A1 A2].
    destruct lim as [l|].
    + destruct (Z.eq_dec amt l).
      * assert (stake_accept (Some l) al dl val amt = Some RDelete) by (apply stake_accept_some; repeat split; auto; lia). congruence.
      * assert (stake_accept (Some l) al dl val amt = Some (RUpdate (AStake (Some (l - amt)) al dl)))
          by (apply stake_accept_some; repeat split; auto; lia). congruence.
    + assert (stake_accept None al dl val amt = Some (RUpdate (AStake None al dl))) by (apply stake_accept_some; split; auto; split; auto).
      congruence.
  - intros H. destruct (stake_accept lim al dl val amt) eqn:E; [|reflexivity].
    apply stake_accept_some in E as [A _]. contradiction.
Qed.

(** * what a successful spend requires and does (code order and corrected order alike) *)
Theorem stake_spend_ok impl now G k val amt ok G' eff :
  stake_spend impl now G k val amt ok = (G', eff, SOk) ->
  exists lim al dl exp,
    G !! k = Some (mkgrant (AStake lim al dl) exp) /\
    expired now (mkgrant (AStake lim al dl) exp) = false /\
    val_admissible al dl val /\ ok = true /\ eff = true /\
    match lim with
    | None => G' = G
    | Some l => amt <= l /\ (amt = l -> G' = delete k G) /\
                (amt < l -> G' = <[k := mkgrant (AStake (Some (l - amt)) al dl) exp]> G)
    end.
Proof.
  unfold stake_spend, stake_spend_update.
  destruct (check_allowance now G k amt) as [[[[lim al] dl] exp]|] eqn:Ec; [|discriminate].
  apply check_allowance_some in Ec as (E1 & E2 & E3).
  destruct (stake_accept lim al dl val amt) as [r|] eqn:Ea.
  - apply stake_accept_some in Ea as [Ad Er].
    intros H. exists lim, al, dl, exp.
    assert (Hupd : update_grant now G k r exp = Some G' /\ ok = true /\ eff = true).
    { destruct impl, ok; destruct (update_grant now G k r exp); inversion H; subst; auto. }
    destruct Hupd as (Hu & -> & ->).
    split; [exact E1|]. split; [exact E2|]. split; [exact Ad|]. split; [reflexivity|]. split; [reflexivity|].
    destruct lim as [l|].
    + destruct Er as (Er1 & Er2 & Er3). split; [exact Er1|]. split; intros Hx.
      * rewrite (Er2 Hx) in Hu. simpl in Hu. unfold delete_grant in Hu. rewrite E1 in Hu. inversion Hu; reflexivity.
      * rewrite (Er3 Hx) in Hu. simpl in Hu. unfold save_grant in Hu.
        destruct exp as [e|]; [destruct (e <=? now); inversion Hu; reflexivity|inversion Hu; reflexivity].
    + subst r. simpl in Hu. unfold save_grant in Hu.
      destruct exp as [e|]; [destruct (e <=? now)|]; inversion Hu; subst; apply insert_id; exact E1.
  - destruct impl, ok; discriminate.
Qed.

Corollary limited_grant_decrements_exactly impl now G k val amt ok G' eff l al dl exp :
  G !! k = Some (mkgrant (AStake (Some l) al dl) exp) ->
  stake_spend impl now G k val amt ok = (G', eff, SOk) -> amt < l ->
  G' = <[k := mkgrant (AStake (Some (l - amt)) al dl) exp]> G.
Proof.
  intros HG H Hl. apply stake_spend_ok in H as (lim & al' & dl' & exp' & E1 & _ & _ & _ & _ & E).
  rewrite HG in E1. inversion E1; subst. destruct E as (_ & _ & E). auto.
Qed.

Corollary exhausted_grant_deleted impl now G k val amt ok G' eff al dl exp :
  G !! k = Some (mkgrant (AStake (Some amt) al dl) exp) ->
  stake_spend impl now G k val amt ok = (G', eff, SOk) -> G' = delete k G /\ G' !! k = None.
Proof.
  intros HG H. apply stake_spend_ok in H as (lim & al' & dl' & exp' & E1 & _ & _ & _ & _ & E).
  rewrite HG in E1. inversion E1; subst. destruct E as (_ & E & _). rewrite E by reflexivity.
  split; [reflexivity|apply lookup_delete].
Qed.

Corollary unlimited_grant_never_decrements impl now G k val amt ok G' eff al dl exp :
  G !! k = Some (mkgrant (AStake None al dl) exp) ->
  stake_spend impl now G k val amt ok = (G', eff, SOk) -> G' = G.
Proof.
  intros HG H. apply stake_spend_ok in H as (lim & al' & dl' & exp' & E1 & _ & _ & _ & _ & E).
  rewrite HG in E1. inversion E1; subst. exact E.
Qed.

(** * refusals that leave everything as it was, whatever the order *)
Lemma stake_spend_refused impl now G k val amt ok :
  check_allowance now G k amt = None -> stake_spend impl now G k val amt ok = (G, false, SErr).
Proof. intros H. unfold stake_spend, stake_spend_update. rewrite H. reflexivity. Qed.

Theorem expired_grant_unusable impl now G k val amt ok g :
  G !! k = Some g -> expired now g = true -> stake_spend impl now G k val amt ok = (G, false, SErr).
Proof.
  intros HG He. apply stake_spend_refused. apply check_allowance_none.
  intros lim al dl exp HG'. rewrite HG in HG'. inversion HG'; subst. left; exact He.
Qed.

Theorem absent_grant_unusable impl now G k val amt ok :
  G !! k = None -> stake_spend impl now G k val amt ok = (G, false, SErr).
Proof. intros HG. apply stake_spend_refused. apply check_allowance_none. intros ? ? ? ? H. congruence. Qed.

(** a grant stored under the message type that is not a StakeAuthorization *)
Theorem wrong_type_rejected impl now G k val amt ok g :
  G !! k = Some g -> (forall lim al dl, g_auth g <> AStake lim al dl) ->
  stake_spend impl now G k val amt ok = (G, false, SErr).
Proof.
  intros HG Hn. apply stake_spend_refused. apply check_allowance_none.
  intros lim al dl exp HG'. rewrite HG in HG'. inversion HG'; subst. exfalso. apply (Hn lim al dl). reflexivity.
Qed.

Theorem overspend_rejected impl now G k val amt ok l al dl exp :
  G !! k = Some (mkgrant (AStake (Some l) al dl) exp) -> l < amt ->
  stake_spend impl now G k val amt ok = (G, false, SErr).
Proof.
  intros HG Hl. apply stake_spend_refused. apply check_allowance_none.
  intros lim al' dl' exp' HG'. rewrite HG in HG'. inversion HG'; subst. right. eauto.
Qed.

(** * where the two orders differ: the update comes out as "cannot" *)
Lemma spend_update_cannot now G k val amt :
  stake_spend_update now G k val amt = Some None <->
  exists lim al dl exp,
    G !! k = Some (mkgrant (AStake lim al dl) exp) /\ expired now (mkgrant (AStake lim al dl) exp) = false /\
    match lim with Some l => amt <= l | None => True end /\
    (~ val_admissible al dl val \/ (exp = Some now /\ lim <> Some amt)).
Proof.
  unfold stake_spend_update. split.
  - destruct (check_allowance now G k amt) as [[[[lim al] dl] exp]|] eqn:Ec; [|discriminate].
    apply check_allowance_some in Ec as (E1 & E2 & E3). intros H.
    exists lim, al, dl, exp. repeat split; auto.
    destruct (stake_accept lim al dl val amt) as [r|] eqn:Ea.
    + right. apply stake_accept_some in Ea as [Ad Er].
      destruct r as [|a]; simpl in H.
      * unfold delete_grant in H. rewrite E1 in H. discriminate.
      * unfold save_grant in H. destruct exp as [e|]; [|discriminate].
        destruct (e <=? now) eqn:Ee; [|discriminate].
        apply Z.leb_le in Ee. unfold expired in E2. simpl in E2. apply Z.ltb_ge in E2.
        split; [f_equal; lia|]. intros ->. destruct Er as (_ & Er & _). discriminate (Er eq_refl).
    + left. apply stake_accept_none_iff in Ea; auto.
  - intros (lim & al & dl & exp & E1 & E2 & E3 & E4).
    assert (Ec : check_allowance now G k amt = Some (lim, al, dl, exp)) by (apply check_allowance_some; auto).
    rewrite Ec. f_equal.
    destruct E4 as [Na|[-> Hne]].
    + apply (proj2 (stake_accept_none_iff lim al dl val amt E3)) in Na. rewrite Na. reflexivity.
    + destruct (stake_accept lim al dl val amt) as [r|] eqn:Ea; [|reflexivity].
      apply stake_accept_some in Ea as [Ad Er].
      destruct lim as [l|].
      * destruct Er as (Er1 & Er2 & Er3). destruct (Z.eq_dec amt l); [subst; congruence|].
        rewrite Er3 by lia. simpl. unfold save_grant. rewrite Z.leb_refl. reflexivity.
      * subst r. simpl. unfold save_grant. rewrite Z.leb_refl. reflexivity.
Qed.

Theorem impl_eq_spec_outside_k10 now G k val amt ok :
  stake_spend_update now G k val amt <> Some None ->
  stake_spend true now G k val amt ok = stake_spend false now G k val amt ok.
Proof.
  unfold stake_spend. intros H.
  destruct (stake_spend_update now G k val amt) as [[G1|]|]; try reflexivity; try congruence; destruct ok; reflexivity.
Qed.

(** corrected order: nothing happens unless the grant admits the validator and can be updated *)
Theorem spec_effect_implies_ok now G k val amt ok G' st :
  stake_spend false now G k val amt ok = (G', true, st) -> st = SOk.
Proof.
  unfold stake_spend. destruct (stake_spend_update now G k val amt) as [[G1|]|]; [destruct ok| |]; intros H; inversion H; reflexivity.
Qed.

Theorem spec_validator_not_admitted_rejected now G k val amt ok lim al dl exp :
  G !! k = Some (mkgrant (AStake lim al dl) exp) -> ~ val_admissible al dl val ->
  stake_spend false now G k val amt ok = (G, false, SErr).
Proof.
  intros HG Na. unfold stake_spend, stake_spend_update.
  destruct (check_allowance now G k amt) as [[[[lim' al'] dl'] exp']|] eqn:Ec; [|reflexivity].
  apply check_allowance_some in Ec as (E1 & E2 & E3). rewrite HG in E1. inversion E1; subst.
  apply (proj2 (stake_accept_none_iff _ _ _ val amt E3)) in Na. rewrite Na. reflexivity.
Qed.

(** the code's order: the message has taken effect, the call fails, the limit is untouched (finding K10) *)
Theorem validator_not_admitted_refuted :
  exists now G k val amt,
    (exists l exp, G !! k = Some (mkgrant (AStake (Some l) [0%N] []) exp) /\ amt <= l) /\
    stake_spend true now G k val amt true = (G, true, SErr).
Proof.
  exists 0, {[ (0%N, 2%N, MDelegate) := mkgrant (AStake (Some 1000) [0%N] []) (Some 5000) ]}, (0%N, 2%N, MDelegate), 1%N, 300.
  split; [exists 1000, (Some 5000); split; [reflexivity|lia]|]. vm_compute. reflexivity.
Qed.

Theorem grant_expiring_now_refuted :
  exists now G k val amt,
    (exists l, G !! k = Some (mkgrant (AStake (Some l) [0%N; 1%N] []) (Some now)) /\ amt < l) /\
    stake_spend true now G k val amt true = (G, true, SErr).
Proof.
  exists 1000, {[ (0%N, 2%N, MDelegate) := mkgrant (AStake (Some 1000) [0%N; 1%N] []) (Some 1000) ]}, (0%N, 2%N, MDelegate), 1%N, 300.
  split; [exists 1000; split; [reflexivity|lia]|]. vm_compute. reflexivity.
Qed.

(** * the running allowance over all histories of one grant *)
Definition wf_grant (g : grant) : Prop :=
  match g_auth g with AStake (Some l) _ _ => 0 <= l | _ => True end.
Definition wf_op (o : aop) : Prop :=
  match o with
  | OIncrease (Some a) | ODecrease (Some a) => 0 <= a          (* uint256 arguments *)
  | OSpend _ amt ok => ok = true -> 0 < amt                     (* the staking messages refuse non-positive amounts *)
  | OSet g => wf_grant g                                        (* MsgGrant.ValidateBasic *)
  | _ => True
  end.

(** remaining limit = granted - spent, exactly; nothing is spent without or beyond a grant *)
Definition ainv (k : gkey) (s : astate) : Prop :=
  0 <= s_spent s /\
  match s_G s !! k with
  | Some g =>
      match g_auth g with
      | AStake (Some l) _ _ => 0 <= l /\ s_granted s = Some (l + s_spent s)
      | _ => s_granted s = None
      end
  | None => match s_granted s with Some g => s_spent s = g | None => True end
  end.

Lemma ainv_init k : ainv k ainit.
Proof. unfold ainv, ainit; simpl. rewrite lookup_empty. split; [lia|exact I]. Qed.

Local Ltac inv_pair :=
  repeat match goal with
         | H : (_, _) = (_, _) |- _ => inversion H; subst; clear H
         end.

Lemma stake_approve1_cases now vals G k amt G1 st :
  stake_approve1 now vals G k amt = (G1, st) ->
  (st = SErr /\ G1 = G) \/
  (st = SOk /\ exists a, amt = Some a /\ a <= 0 /\ G1 = delete k G) \/
  (st = SOk /\ exists a, amt = Some a /\ 0 < a /\ G1 = <[k := mkgrant (AStake (Some a) vals []) (Some (now + YEAR))]> G) \/
  (st = SOk /\ amt = None /\ G1 = <[k := mkgrant (AStake None vals []) (Some (now + YEAR))]> G).
Proof.
  unfold stake_approve1. destruct (is_nil vals); [intros H; inversion H; auto|].
  destruct amt as [a|].
  - destruct (a <=? 0) eqn:Ea.
    + apply Z.leb_le in Ea. unfold delete_grant. destruct (G !! k); intros H; inversion H; subst; auto.
      right; left. split; [reflexivity|]. exists a. auto.
    + apply Z.leb_gt in Ea. unfold save_grant. assert (now + YEAR <=? now = false) as -> by (apply Z.leb_gt; unfold YEAR; lia).
      intros H; inversion H; subst. right; right; left. split; [reflexivity|]. exists a. auto.
  - unfold save_grant. assert (now + YEAR <=? now = false) as -> by (apply Z.leb_gt; unfold YEAR; lia).
    intros H; inversion H; subst. right; right; right. auto.
Qed.

Lemma stake_change1_cases (inc : bool) now G k amt G1 st :
  (if inc then stake_increase1 now G k amt else stake_decrease1 now G k amt) = (G1, st) ->
  (st <> SOk /\ G1 = G) \/
  (st = SOk /\ G1 = G /\ exists al dl e, G !! k = Some (mkgrant (AStake None al dl) e)) \/
  (st = SOk /\ exists l a al dl e, amt = Some a /\ G !! k = Some (mkgrant (AStake (Some l) al dl) e) /\
                (inc = false -> a <= l) /\
                G1 = <[k := mkgrant (AStake (Some (if inc then l + a else l - a)) al dl) e]> G).
Proof.
  assert (Hsave : forall x al dl e G2, save_grant now G k (AStake (Some x) al dl) e = Some G2 ->
                                       G2 = <[k := mkgrant (AStake (Some x) al dl) e]> G).
  { intros x al dl e G2. unfold save_grant. destruct e as [e|]; [destruct (e <=? now); [discriminate|]|]; intros H; inversion H; reflexivity. }
  destruct inc; unfold stake_increase1, stake_decrease1;
    (destruct (get_auth now G k) as [g|] eqn:Eg; [|intros H; inversion H; left; split; [discriminate|reflexivity]]);
    apply get_auth_some in Eg as [E1 E2];
    destruct g as [a e]; destruct a as [[l|] al dl| |]; simpl;
    try (intros H; inversion H; left; split; [discriminate|reflexivity]).
  - destruct amt as [x|]; [|intros H; inversion H; left; split; [discriminate|reflexivity]].
    destruct (MAXU <? l + x); [intros H; inversion H; left; split; [discriminate|reflexivity]|].
    destruct (save_grant now G k (AStake (Some (l + x)) al dl) e) as [G2|] eqn:Es;
      [|intros H; inversion H; left; split; [discriminate|reflexivity]].
    intros H; inversion H; subst. right; right. split; [reflexivity|].
    exists l, x, al, dl, e. repeat split; auto; try discriminate; try (apply Hsave; exact Es).
  - intros H; inversion H; subst. right; left. split; [reflexivity|]. split; [reflexivity|]. exists al, dl, e. exact E1.
  - destruct amt as [x|]; [|intros H; inversion H; left; split; [discriminate|reflexivity]].
    destruct (l <? x) eqn:Elx; [intros H; inversion H; left; split; [discriminate|reflexivity]|]. apply Z.ltb_ge in Elx.
    destruct (save_grant now G k (AStake (Some (l - x)) al dl) e) as [G2|] eqn:Es;
      [|intros H; inversion H; left; split; [discriminate|reflexivity]].
    intros H; inversion H; subst. right; right. split; [reflexivity|].
    exists l, x, al, dl, e. repeat split; auto; try (apply Hsave; exact Es).
  - intros H; inversion H; subst. right; left. split; [reflexivity|]. split; [reflexivity|]. exists al, dl, e. exact E1.
Qed.

Lemma astep_inv vals k s o : wf_op o -> ainv k s -> ainv k (astep false vals k s o).
Proof.
  intros Hw [Hs Hi]. destruct o as [amt|amt|amt| |val amt ok|g|dt]; simpl.
  - (* approve *)
    destruct (stake_approve1 (s_now s) vals (s_G s) k amt) as [G1 st] eqn:E.
    apply stake_approve1_cases in E as [[-> ->]|[[-> (a & -> & Ha & ->)]|[[-> (a & -> & Ha & ->)]|(-> & -> & ->)]]].
    + split; assumption.
    + assert (a <=? 0 = true) as -> by (apply Z.leb_le; lia). split; simpl; [lia|]. rewrite lookup_delete. exact I.
    + assert (a <=? 0 = false) as -> by (apply Z.leb_gt; lia). split; simpl; [lia|]. rewrite lookup_insert. simpl.
      split; [lia|f_equal; lia].
    + split; simpl; [lia|]. rewrite lookup_insert. reflexivity.
  - (* increase *)
    destruct (stake_increase1 (s_now s) (s_G s) k amt) as [G1 st] eqn:E.
    apply (stake_change1_cases true) in E as [[Hn ->]|[(-> & -> & al & dl & e & E1)|(-> & l & a & al & dl & e & -> & E1 & _ & ->)]].
    + destruct st; try congruence; split; assumption.
    + rewrite E1 in Hi. simpl in Hi. rewrite Hi. destruct amt; split; simpl; try assumption; rewrite E1; simpl; assumption.
    + rewrite E1 in Hi. simpl in Hi. destruct Hi as [Hl Hg]. rewrite Hg. simpl in Hw.
      split; simpl; [assumption|]. rewrite lookup_insert. simpl. split; [lia|f_equal; lia].
  - (* decrease *)
    destruct (stake_decrease1 (s_now s) (s_G s) k amt) as [G1 st] eqn:E.
    apply (stake_change1_cases false) in E as [[Hn ->]|[(-> & -> & al & dl & e & E1)|(-> & l & a & al & dl & e & -> & E1 & Hle & ->)]].
    + destruct st; try congruence; split; assumption.
    + rewrite E1 in Hi. simpl in Hi. rewrite Hi. destruct amt; split; simpl; try assumption; rewrite E1; simpl; assumption.
    + rewrite E1 in Hi. simpl in Hi. destruct Hi as [Hl Hg]. rewrite Hg. simpl in Hw. specialize (Hle eq_refl).
      split; simpl; [assumption|]. rewrite lookup_insert. simpl. split; [lia|f_equal; lia].
  - (* revoke *)
    unfold stake_revoke1, delete_grant. destruct (s_G s !! k) eqn:E; [|split; [assumption|rewrite E; assumption]].
    split; simpl; [lia|]. rewrite lookup_delete. exact I.
  - (* spend, corrected order *)
    destruct (stake_spend false (s_now s) (s_G s) k val amt ok) as [[G1 eff] st] eqn:E.
    destruct eff.
    + pose proof (spec_effect_implies_ok _ _ _ _ _ _ _ _ E) as ->.
      apply stake_spend_ok in E as (lim & al & dl & exp & E1 & E2 & Ad & -> & _ & E3).
      simpl in Hw. specialize (Hw eq_refl). rewrite E1 in Hi. simpl in Hi.
      destruct lim as [l|].
      * destruct Hi as [Hl Hg]. destruct E3 as (E3a & E3b & E3c). split; simpl; [lia|].
        destruct (Z.eq_dec amt l) as [->|Hne].
        -- rewrite E3b by reflexivity. rewrite lookup_delete. rewrite Hg. lia.
        -- rewrite E3c by lia. rewrite lookup_insert. simpl. rewrite Hg. split; [lia|f_equal; lia].
      * subst G1. split; simpl; [lia|]. rewrite E1. simpl. exact Hi.
    + assert (G1 = s_G s) as ->.
      { unfold stake_spend in E. destruct (stake_spend_update (s_now s) (s_G s) k val amt) as [[G2|]|]; [destruct ok| |]; inversion E; reflexivity. }
      split; simpl; assumption.
  - (* native grant *)
    split; simpl; [lia|]. rewrite lookup_insert. simpl in Hw. unfold wf_grant in Hw. unfold limit_of.
    destruct (g_auth g) as [[l|] ? ?| |]; auto. split; [exact Hw|f_equal; lia].
  - split; simpl; assumption.
Qed.

Lemma arun_inv vals k ops : forall s, Forall wf_op ops -> ainv k s -> ainv k (arun false vals k ops s).
Proof.
  unfold arun. induction ops as [|o r IH]; intros s Hw Hi; simpl; [assumption|].
  inversion Hw; subst. apply IH; [assumption|]. apply astep_inv; assumption.
Qed.

(** over every history: what was spent since the grant was last (re)defined never
    exceeds what was granted, and a limited grant holds exactly the difference *)
Theorem spent_le_allowance_spec vals k ops :
  Forall wf_op ops ->
  let s := arun false vals k ops ainit in
  (forall g, s_granted s = Some g -> s_spent s <= g) /\
  (forall l al dl exp, s_G s !! k = Some (mkgrant (AStake (Some l) al dl) exp) -> s_granted s = Some (l + s_spent s) /\ 0 <= l).
Proof.
  intros Hw s. pose proof (arun_inv vals k ops ainit Hw (ainv_init k)) as [Hs Hi]. fold s in Hs, Hi.
  split.
  - intros g Hg. destruct (s_G s !! k) as [gr|] eqn:E.
    + destruct gr as [a e]; destruct a as [[l|] al dl| |]; simpl in Hi; try congruence.
      destruct Hi as [Hl Hg']. rewrite Hg' in Hg. inversion Hg. lia.
    + rewrite Hg in Hi. lia.
  - intros l al dl exp E. rewrite E in Hi. simpl in Hi. destruct Hi; auto.
Qed.

(** the code's order breaks it: 1000 granted for validator 0, 300 + 900 taken for validator 1 *)
Definition k10_ops : list aop :=
  [OSet (mkgrant (AStake (Some 1000) [0%N] []) (Some 5000)); OSpend 1%N 300 true; OSpend 1%N 900 true].
Theorem spent_le_allowance_refuted :
  Forall wf_op k10_ops /\
  let s := arun true [0%N; 1%N] (0%N, 2%N, MDelegate) k10_ops ainit in
  s_granted s = Some 1000 /\ s_spent s = 1200 /\
  s_G s !! (0%N, 2%N, MDelegate) = Some (mkgrant (AStake (Some 1000) [0%N] []) (Some 5000)).
Proof.
  split.
  - repeat constructor; simpl; try lia. unfold wf_grant; simpl; lia.
  - vm_compute. repeat split.
Qed.

(** ... and only there: a history in which no spend meets a grant that cannot be
    updated runs identically in both orders *)
Fixpoint k10_free (vals : list N) (k : gkey) (ops : list aop) (s : astate) : bool :=
  match ops with
  | [] => true
  | o :: r =>
      (match o with
       | OSpend val amt ok =>
           negb (bool_decide (stake_spend_update (s_now s) (s_G s) k val amt = Some None))
       | _ => true
       end) && k10_free vals k r (astep false vals k s o)
  end.

Lemma astep_impl_eq_spec vals k s o :
  (match o with OSpend val amt ok => stake_spend_update (s_now s) (s_G s) k val amt <> Some None | _ => True end) ->
  astep true vals k s o = astep false vals k s o.
Proof.
  destruct o; simpl; try reflexivity. intros H. rewrite (impl_eq_spec_outside_k10 _ _ _ _ _ _ H). reflexivity.
Qed.

Theorem impl_history_eq_spec_outside_k10 vals k ops : forall s,
  k10_free vals k ops s = true -> arun true vals k ops s = arun false vals k ops s.
Proof.
  unfold arun. induction ops as [|o r IH]; intros s H; simpl; [reflexivity|].
  simpl in H. apply andb_true_iff in H as [H1 H2].
  rewrite astep_impl_eq_spec.
  - apply IH. exact H2.
  - destruct o; auto. apply negb_true_iff, bool_decide_eq_false in H1. exact H1.
Qed.

Corollary spent_le_allowance_impl_outside_k10 vals k ops :
  Forall wf_op ops -> k10_free vals k ops ainit = true ->
  let s := arun true vals k ops ainit in forall g, s_granted s = Some g -> s_spent s <= g.
Proof.
  intros Hw Hk. rewrite (impl_history_eq_spec_outside_k10 _ _ _ _ Hk).
  apply (spent_le_allowance_spec vals k ops Hw).
Qed.

(** non-vacuity: approve 500, spend 200, increase 100, spend 400 (exhausts), spend 1 (refused) *)
Example allowance_history_ex :
  let ops := [OApprove (Some 500); OSpend 0%N 200 true; OIncrease (Some 100); OSpend 1%N 400 true; OSpend 1%N 1 true] in
  Forall wf_op ops /\ k10_free [0%N; 1%N] (0%N, 2%N, MDelegate) ops ainit = true /\
  let s := arun true [0%N; 1%N] (0%N, 2%N, MDelegate) ops ainit in
  s_granted s = Some 600 /\ s_spent s = 600 /\ s_G s !! (0%N, 2%N, MDelegate) = None.
Proof.
  split; [repeat constructor; simpl; intros; lia|]. split; vm_compute; auto.
Qed.

(** * ICS-20: TransferAuthorization.Accept *)
Lemma amount_of_has d cs : amount_of d cs <> 0 -> has_denom d cs = true.
Proof.
  induction cs as [|[d' x] r IH]; simpl; [congruence|]. destruct (N.eqb d d'); simpl; auto.
Qed.

Lemma amount_of_coins_set_same d x cs : has_denom d cs = true -> 0 < x -> amount_of d (coins_set d x cs) = x.
Proof.
  intros Hh Hx. induction cs as [|[d' y] r IH]; simpl in *; [discriminate|].
  destruct (N.eqb d d') eqn:E.
  - assert (x <=? 0 = false) as -> by (apply Z.leb_gt; lia). simpl. rewrite E. reflexivity.
  - simpl. rewrite E. apply IH. exact Hh.
Qed.

Lemma amount_of_coins_set_other d d' x cs : d' <> d -> amount_of d' (coins_set d x cs) = amount_of d' cs.
Proof.
  intros Hne. induction cs as [|[d0 y] r IH]; simpl; [reflexivity|].
  destruct (N.eqb d d0) eqn:E.
  - apply N.eqb_eq in E; subst d0. assert (N.eqb d' d = false) as Hf by (apply N.eqb_neq; exact Hne).
    destruct (x <=? 0); simpl; rewrite ?Hf; reflexivity.
  - simpl. destruct (N.eqb d' d0); [reflexivity|apply IH].
Qed.

Definition recv_ok (a : alloc) (recv : N) : Prop := a_allow a = [] \/ mem recv (a_allow a) = true.

Lemma transfer_accept_from_spec ch d amt recv : forall allocs pre r,
  transfer_accept_from pre allocs ch d amt recv = Some r ->
  exists a rest1 rest2,
    allocs = rest1 ++ a :: rest2 /\ Forall (fun x => N.eqb (a_chan x) ch = false) rest1 /\ a_chan a = ch /\
    recv_ok a recv /\
    let L := amount_of d (a_limits a) in
    (L = MAXU /\ r = TKeep) \/
    (L <> MAXU /\ amt <= L /\
     let left := coins_set d (L - amt) (a_limits a) in
     (left = [] -> r = if is_nil (pre ++ rest1 ++ rest2) then TDelete else TUpdate (pre ++ rest1 ++ rest2)) /\
     (left <> [] -> r = TUpdate (pre ++ rest1 ++ mkalloc ch left (a_allow a) :: rest2))).
Proof.
  induction allocs as [|a0 rest IH]; intros pre r; simpl; [discriminate|].
  destruct (N.eqb (a_chan a0) ch) eqn:Ech.
  - destruct (negb (is_nil (a_allow a0)) && negb (mem recv (a_allow a0))) eqn:Eal; [discriminate|].
    assert (Hrecv : recv_ok a0 recv).
    { unfold recv_ok. destruct (a_allow a0) as [|x xs]; [left; reflexivity|]. right.
      change (negb (is_nil (x :: xs))) with true in Eal. destruct (mem recv (x :: xs)); [reflexivity|discriminate Eal]. }
    apply N.eqb_eq in Ech.
    intros H. exists a0, [], rest. simpl. repeat split; auto.
    destruct (amount_of d (a_limits a0) =? MAXU) eqn:Em.
    + apply Z.eqb_eq in Em. left. inversion H. auto.
    + apply Z.eqb_neq in Em. right. split; [exact Em|].
      destruct (amount_of d (a_limits a0) <? amt) eqn:El; [discriminate|]. apply Z.ltb_ge in El. split; [exact El|].
      destruct (coins_set d (amount_of d (a_limits a0) - amt) (a_limits a0)) as [|c0 cs] eqn:Ec; simpl in H.
      * split; [intros _|congruence]. destruct (is_nil (pre ++ rest)); inversion H; reflexivity.
      * split; [discriminate|]. intros _. inversion H. subst ch. reflexivity.
  - intros H. apply IH in H as (a & rest1 & rest2 & -> & Hf & Hch & Hr & Hcase).
    exists a, (a0 :: rest1), rest2. split; [reflexivity|]. split; [constructor; assumption|]. split; [exact Hch|]. split; [exact Hr|].
    simpl in *. rewrite <- !app_assoc in Hcase. simpl in Hcase. exact Hcase.
Qed.

Lemma find_alloc_split ch a rest1 rest2 :
  Forall (fun x => N.eqb (a_chan x) ch = false) rest1 -> a_chan a = ch -> find_alloc (rest1 ++ a :: rest2) ch = Some a.
Proof.
  intros Hf Hch. induction rest1 as [|x r IH]; simpl.
  - subst ch. rewrite N.eqb_refl. reflexivity.
  - inversion Hf; subst. rewrite H1. apply IH. assumption.
Qed.

Lemma find_alloc_none_split ch rest1 rest2 :
  Forall (fun x => N.eqb (a_chan x) ch = false) rest1 -> Forall (fun x => N.eqb (a_chan x) ch = false) rest2 ->
  find_alloc (rest1 ++ rest2) ch = None.
Proof.
  intros H1 H2. induction rest1 as [|x r IH]; simpl.
  - induction rest2 as [|y r2 IH2]; simpl; [reflexivity|]. inversion H2; subst. rewrite H3. apply IH2. assumption.
  - inversion H1; subst. rewrite H3. apply IH. assumption.
Qed.

(** [remaining_transfer allocs ch d] (AllowanceModel): the limit the first allocation of channel [ch] leaves for [d] *)
(** no second allocation for the same channel (TransferAuthorization.ValidateBasic) *)
Lemma nodup_chans_after seen a rest1 rest2 :
  nodup_chans seen (rest1 ++ a :: rest2) = true -> Forall (fun x => N.eqb (a_chan x) (a_chan a) = false) rest2.
Proof.
  revert seen. induction rest1 as [|x r IH]; intros seen; simpl.
  - intros H. apply andb_true_iff in H as [_ H].
    assert (G : forall l seen', mem (a_chan a) seen' = true -> nodup_chans seen' l = true ->
                                Forall (fun x => N.eqb (a_chan x) (a_chan a) = false) l).
    { induction l as [|y l IHl]; intros seen' Hm Hn; [constructor|]. simpl in Hn. apply andb_true_iff in Hn as [Hy Hn].
      constructor.
      - destruct (N.eqb (a_chan y) (a_chan a)) eqn:E; [|reflexivity]. apply N.eqb_eq in E. rewrite E in Hy.
        rewrite Hm in Hy. discriminate.
      - apply (IHl (a_chan y :: seen')); [|exact Hn]. simpl. rewrite Hm. apply orb_true_r. }
    apply (G rest2 (a_chan a :: seen)); [|exact H]. simpl. rewrite N.eqb_refl. reflexivity.
  - intros H. apply andb_true_iff in H as [_ H]. eapply IH. exact H.
Qed.

Lemma sorted_amount_zero cs : forall p d, sorted_pos (Some p) cs = true -> (d <= p)%N -> amount_of d cs = 0.
Proof.
  induction cs as [|[d0 x] r IH]; intros p d Hs Hd; simpl; [reflexivity|].
  simpl in Hs. apply andb_true_iff in Hs as [Hs1 Hs2]. apply andb_true_iff in Hs1 as [_ Hlt]. apply N.ltb_lt in Hlt.
  destruct (N.eqb d d0) eqn:E; [apply N.eqb_eq in E; lia|]. apply (IH d0); [exact Hs2|lia].
Qed.

Lemma coins_set_drop d cs : forall prev, sorted_pos prev cs = true -> amount_of d (coins_set d 0 cs) = 0.
Proof.
  induction cs as [|[d0 y] r IH]; intros prev Hs; simpl; [reflexivity|].
  simpl in Hs. apply andb_true_iff in Hs as [_ Hs2].
  destruct (N.eqb d d0) eqn:E.
  - apply N.eqb_eq in E; subst d0. simpl. apply (sorted_amount_zero r d d); [exact Hs2|lia].
  - simpl. rewrite E. apply (IH (Some d0)). exact Hs2.
Qed.

(** an accepted transfer: the channel has an allocation that admits the receiver;
    an unbounded limit is left alone, a bounded one covers the amount and goes
    down by exactly the amount (other denominations untouched; an allocation
    whose coins are all used up is removed) *)
Theorem transfer_accept_exact allocs ch d amt recv r :
  nodup_chans [] allocs = true -> Forall (fun a => sorted_pos None (a_limits a) = true) allocs -> 0 < amt ->
  transfer_accept allocs ch d amt recv = Some r ->
  exists a, find_alloc allocs ch = Some a /\ recv_ok a recv /\
    let L := amount_of d (a_limits a) in
    (L = MAXU /\ r = TKeep) \/
    (L <> MAXU /\ amt <= L /\
     exists al', (r = TUpdate al' \/ (r = TDelete /\ al' = [])) /\
       remaining_transfer al' ch d = L - amt /\
       (forall d', d' <> d -> remaining_transfer al' ch d' =
                              if decide (coins_set d (L - amt) (a_limits a) = []) then 0 else amount_of d' (a_limits a))).
Proof.
  intros Hnd Hsorted Hamt H. unfold transfer_accept in H.
  apply transfer_accept_from_spec in H as (a & rest1 & rest2 & -> & Hf & Hch & Hr & Hcase).
  assert (Hsa : sorted_pos None (a_limits a) = true).
  { apply Forall_app in Hsorted as [_ Hs2]. inversion Hs2; assumption. }
  exists a. split; [apply find_alloc_split; assumption|]. split; [exact Hr|].
  simpl in *. destruct Hcase as [[HL ->]|(HL & Hle & Hempty & Hnon)]; [left; auto|right].
  split; [exact HL|]. split; [exact Hle|].
  pose proof (nodup_chans_after [] a rest1 rest2 Hnd) as Hf2. rewrite Hch in Hf2.
  destruct (coins_set d (amount_of d (a_limits a) - amt) (a_limits a)) as [|c0 cs] eqn:Ec.
  - specialize (Hempty eq_refl). exists (rest1 ++ rest2). split.
    + destruct (is_nil (rest1 ++ rest2)) eqn:En; [right|left; exact Hempty].
      split; [exact Hempty|]. destruct (rest1 ++ rest2); [reflexivity|discriminate].
    + unfold remaining_transfer. rewrite (find_alloc_none_split ch rest1 rest2 Hf Hf2).
      split.
      * destruct (Z.eq_dec (amount_of d (a_limits a) - amt) 0) as [E|E]; [lia|].
        exfalso. assert (Hpos : 0 < amount_of d (a_limits a) - amt) by lia.
        assert (Hh : has_denom d (a_limits a) = true) by (apply amount_of_has; lia).
        pose proof (amount_of_coins_set_same d _ (a_limits a) Hh Hpos) as Hx. rewrite Ec in Hx. simpl in Hx. lia.
      * intros d' Hd'. destruct (decide _); [reflexivity|congruence].
  - assert (Hne : c0 :: cs <> []) by discriminate. specialize (Hnon Hne).
    exists (rest1 ++ mkalloc ch (c0 :: cs) (a_allow a) :: rest2). split; [left; exact Hnon|].
    unfold remaining_transfer. rewrite (find_alloc_split ch (mkalloc ch (c0 :: cs) (a_allow a)) rest1 rest2 Hf eq_refl). simpl a_limits.
    split.
    + destruct (Z.eq_dec (amount_of d (a_limits a) - amt) 0) as [E|E].
      * rewrite <- Ec. rewrite E. apply (coins_set_drop d (a_limits a) None). exact Hsa.
      * assert (Hpos : 0 < amount_of d (a_limits a) - amt) by lia.
        assert (Hh : has_denom d (a_limits a) = true) by (apply amount_of_has; lia).
        rewrite <- Ec. apply amount_of_coins_set_same; assumption.
    + intros d' Hd'. destruct (decide _) as [E|_]; [discriminate E|]. rewrite <- Ec. apply amount_of_coins_set_other. exact Hd'.
Qed.

(** refusals *)
Theorem transfer_no_allocation_rejected allocs ch d amt recv :
  find_alloc allocs ch = None -> transfer_accept allocs ch d amt recv = None.
Proof.
  intros H. destruct (transfer_accept allocs ch d amt recv) as [r|] eqn:E; [|reflexivity].
  unfold transfer_accept in E. apply transfer_accept_from_spec in E as (a & rest1 & rest2 & -> & Hf & Hch & _).
  rewrite (find_alloc_split ch a rest1 rest2 Hf Hch) in H. discriminate.
Qed.

Theorem transfer_receiver_or_amount_rejected allocs ch d amt recv a :
  find_alloc allocs ch = Some a ->
  (~ recv_ok a recv \/ (amount_of d (a_limits a) <> MAXU /\ amount_of d (a_limits a) < amt)) ->
  transfer_accept allocs ch d amt recv = None.
Proof.
  intros Hfa Hbad. destruct (transfer_accept allocs ch d amt recv) as [r|] eqn:E; [|reflexivity].
  unfold transfer_accept in E. apply transfer_accept_from_spec in E as (a' & rest1 & rest2 & -> & Hf & Hch & Hr & Hcase).
  rewrite (find_alloc_split ch a' rest1 rest2 Hf Hch) in Hfa. inversion Hfa; subst a'.
  destruct Hbad as [Hb|[Hb1 Hb2]]; [contradiction|].
  simpl in Hcase. destruct Hcase as [[HL _]|(HL & Hle & _)]; [contradiction|lia].
Qed.

(** the grant store after an accepted ICS-20 spend *)
Theorem transfer_spend_ok impl now G k ch d amt recv ok G' eff :
  transfer_spend impl now G k ch d amt recv ok = (G', eff, SOk) ->
  exists allocs exp r,
    G !! k = Some (mkgrant (ATransfer allocs) exp) /\ expired now (mkgrant (ATransfer allocs) exp) = false /\
    transfer_accept allocs ch d amt recv = Some r /\ ok = true /\ eff = true /\
    match r with
    | TKeep => G' = G
    | TDelete => G' = delete k G
    | TUpdate al => G' = <[k := mkgrant (ATransfer al) exp]> G
    end.
Proof.
  unfold transfer_spend, transfer_spend_update.
  destruct (get_auth now G k) as [[a exp]|] eqn:Eg; [|discriminate].
  apply get_auth_some in Eg as [E1 E2]. destruct a as [|allocs|]; try discriminate.
  destruct (transfer_accept allocs ch d amt recv) as [r|] eqn:Ea; [|discriminate].
  intros H. exists allocs, exp, r.
  assert (Hx : (match r with TKeep => Some G | TDelete => delete_grant G k | TUpdate al => save_grant now G k (ATransfer al) exp end) = Some G'
               /\ ok = true /\ eff = true).
  { destruct r; destruct impl, ok;
      try (destruct (delete_grant G k)); try (destruct (save_grant now G k _ exp)); inversion H; subst; auto. }
  destruct Hx as (Hu & -> & ->). repeat split; auto.
  destruct r.
  - unfold delete_grant in Hu. rewrite E1 in Hu. inversion Hu; reflexivity.
  - unfold save_grant in Hu. destruct exp as [e|]; [destruct (e <=? now); [discriminate|]|]; inversion Hu; reflexivity.
  - inversion Hu; reflexivity.
Qed.

Theorem transfer_expired_or_absent_unusable impl now G k ch d amt recv ok :
  (G !! k = None \/ exists g, G !! k = Some g /\ (expired now g = true \/ forall al, g_auth g <> ATransfer al)) ->
  transfer_spend impl now G k ch d amt recv ok = (G, false, SErr).
Proof.
  intros H. unfold transfer_spend, transfer_spend_update.
  destruct (get_auth now G k) as [[a exp]|] eqn:Eg.
  - apply get_auth_some in Eg as [E1 E2]. destruct H as [H|(g & Hg & [He|Ht])]; [congruence| |].
    + rewrite E1 in Hg. inversion Hg; subst. congruence.
    + rewrite E1 in Hg. inversion Hg; subst. destruct a; try reflexivity. exfalso. apply (Ht allocs). reflexivity.
  - reflexivity.
Qed.

(** the ICS-20 flow accepts before it transfers; what is left of K10 there is the
    grant that expires in this very block and cannot be re-saved *)
Theorem transfer_grant_expiring_now_refuted :
  exists now G k, transfer_spend true now G k 0%N 0%N 300 0%N true = (G, true, SErr) /\
                  transfer_spend false now G k 0%N 0%N 300 0%N true = (G, false, SErr).
Proof.
  exists 1000, {[ (0%N, 2%N, MTransfer) := mkgrant (ATransfer [mkalloc 0%N [(0%N, 1000)] []]) (Some 1000) ]}, (0%N, 2%N, MTransfer).
  split; vm_compute; reflexivity.
Qed.

Example transfer_accept_ex :
  transfer_accept [mkalloc 0%N [(0%N, 1000); (1%N, 50)] [0%N; 1%N]] 0%N 0%N 300 1%N
  = Some (TUpdate [mkalloc 0%N [(0%N, 700); (1%N, 50)] [0%N; 1%N]]) /\
  transfer_accept [mkalloc 0%N [(0%N, 300)] []] 0%N 0%N 300 1%N = Some TDelete /\
  transfer_accept [mkalloc 0%N [(0%N, MAXU)] []] 0%N 0%N 300 1%N = Some TKeep /\
  transfer_accept [mkalloc 0%N [(0%N, 1000)] [2%N]] 0%N 0%N 300 1%N = None.
Proof. vm_compute. repeat split. Qed.
