(** Property C04: the allowance state machine (AllowanceModel): what a spend
    requires, what it does to the grant, and the running allowance over all
    sequences of approve / increase / decrease / revoke / native grant / spend /
    passage of time. *)
From Coq Require Import ZArith List Lia Bool.
From stdpp Require Import gmap.
From HV Require Import Authz.AllowanceModel.
Import ListNotations.
Local Open Scope Z_scope.

(** the validator passes the lists of a StakeAuthorization *)
Definition admitted (al dl : list N) (val : N) : Prop :=
  mem val dl = false /\ (al = [] \/ mem val al = true).

Lemma get_auth_some now G k g :
  get_auth now G k = Some g <-> G !! k = Some g /\ expired now g = false.
Proof.
  unfold get_auth. destruct (G !! k) as [g'|]; [|split; [discriminate|intros [? _]; discriminate]].
  destruct (expired now g') eqn:E; split; intros H; try discriminate.
  - destruct H as [H1 H2]. inversion H1; subst. congruence.
  - inversion H; subst; auto.
  - destruct H as [H _]. exact H.
Qed.

Lemma check_allowance_some now G k amt lim al dl exp :
  check_allowance now G k amt = Some (lim, al, dl, exp) <->
  G !! k = Some (mkgrant (AStake lim al dl) exp) /\ expired now (mkgrant (AStake lim al dl) exp) = false /\
  match lim with Some l => amt <= l | None => True end.
Proof.
  unfold check_allowance.
  destruct (get_auth now G k) as [g|] eqn:Eg.
  - apply get_auth_some in Eg as [E1 E2]. destruct g as [a e]. destruct a as [lim' al' dl'| |].
    + destruct lim' as [l|].
      * destruct (l <? amt) eqn:El; split; intros H; try discriminate.
        -- destruct H as (H1 & _ & H3). rewrite E1 in H1. inversion H1; subst. apply Z.ltb_lt in El. lia.
        -- inversion H; subst. repeat split; auto. apply Z.ltb_ge in El. exact El.
        -- destruct H as (H1 & _ & _). rewrite E1 in H1. inversion H1; subst. reflexivity.
      * split; intros H.
        -- inversion H; subst. auto.
        -- destruct H as (H1 & _ & _). rewrite E1 in H1. inversion H1; subst. reflexivity.
    + split; intros H; [discriminate|]. destruct H as (H1 & _ & _). rewrite E1 in H1. discriminate.
    + split; intros H; [discriminate|]. destruct H as (H1 & _ & _). rewrite E1 in H1. discriminate.
  - split; intros H; [discriminate|]. destruct H as (H1 & H2 & _).
    assert (get_auth now G k = Some (mkgrant (AStake lim al dl) exp)) by (apply get_auth_some; auto). congruence.
Qed.

Lemma check_allowance_none now G k amt :
  check_allowance now G k amt = None <->
  (forall lim al dl exp, G !! k = Some (mkgrant (AStake lim al dl) exp) ->
     expired now (mkgrant (AStake lim al dl) exp) = true \/ exists l, lim = Some l /\ l < amt).
Proof.
  split.
  - intros H lim al dl exp HG.
    destruct (expired now (mkgrant (AStake lim al dl) exp)) eqn:E; [left; reflexivity|right].
    destruct lim as [l|].
    + exists l. split; [reflexivity|]. destruct (Z_lt_dec l amt); [assumption|].
      assert (check_allowance now G k amt = Some (Some l, al, dl, exp)) by (apply check_allowance_some; repeat split; auto; lia).
      congruence.
    + assert (check_allowance now G k amt = Some (None, al, dl, exp)) by (apply check_allowance_some; auto). congruence.
  - intros H. destruct (check_allowance now G k amt) as [[[[lim al] dl] exp]|] eqn:E; [|reflexivity].
    apply check_allowance_some in E as (E1 & E2 & E3). destruct (H _ _ _ _ E1) as [X|(l & -> & X)]; [congruence|lia].
Qed.

Lemma stake_accept_some lim al dl val amt r :
  stake_accept lim al dl val amt = Some r <->
  admitted al dl val /\
  match lim with
  | None => r = RUpdate (AStake None al dl)
  | Some l => amt <= l /\ (amt = l -> r = RDelete) /\ (amt < l -> r = RUpdate (AStake (Some (l - amt)) al dl))
  end.
Proof.
  unfold stake_accept, admitted.
  destruct (mem val dl) eqn:Ed; [split; [discriminate|intros [[? _] _]; discriminate]|].
  assert (Hok : negb (is_nil al) && negb (mem val al) = false <-> (al = [] \/ mem val al = true)).
  { destruct al as [|a0 al0]; [simpl; tauto|]. change (negb (is_nil (a0 :: al0))) with true.
    destruct (mem val (a0 :: al0)); simpl; split; auto; intros [H|H]; discriminate. }
  destruct (negb (is_nil al) && negb (mem val al)).
  - split; [discriminate|]. intros [[_ H] _]. apply Hok in H. discriminate.
  - assert (Hal : al = [] \/ mem val al = true) by (apply Hok; reflexivity).
    destruct lim as [l|].
    + destruct (l - amt <? 0) eqn:E1; [split; [discriminate|intros (_ & ? & _); apply Z.ltb_lt in E1; lia]|].
      apply Z.ltb_ge in E1.
      destruct (l - amt =? 0) eqn:E2.
      * apply Z.eqb_eq in E2. split; intros H.
        -- inversion H; subst. repeat split; auto; try lia; try (intros; lia).
        -- destruct H as (_ & _ & H & _). rewrite H by lia. reflexivity.
      * apply Z.eqb_neq in E2. split; intros H.
        -- inversion H; subst. repeat split; auto; try lia; try (intros; lia).
        -- destruct H as (_ & _ & _ & H). rewrite H by lia. reflexivity.
    + split; intros H; [inversion H; auto|destruct H as [_ ->]; reflexivity].
Qed.

Lemma stake_accept_none_iff lim al dl val amt :
  match lim with Some l => amt <= l | None => True end ->
  (stake_accept lim al dl val amt = None <-> ~ admitted al dl val).
Proof.
  intros Hl. split.
  - intros H [A1 A2].
    destruct lim as [l|].
    + destruct (Z.eq_dec amt l).
      * assert (stake_accept (Some l) al dl val amt = Some RDelete) by (apply stake_accept_some; repeat split; auto; lia). congruence.
      * assert (stake_accept (Some l) al dl val amt = Some (RUpdate (AStake (Some (l - amt)) al dl)))
          by (apply stake_accept_some; repeat split; auto; lia). congruence.
    + assert (stake_accept None al dl val amt = Some (RUpdate (AStake None al dl))) by (apply stake_accept_some; split; auto; split; auto).
      congruence.
  - intros H. destruct (stake_accept lim al dl val amt) eqn:E; [|reflexivity].
    apply stake_accept_some in E as [A _]. contradiction.
Qed.

(** * what a successful spend requires and does (code order and corrected order alike) *)
Theorem stake_spend_ok impl now G k val amt ok G' eff :
  stake_spend impl now G k val amt ok = (G', eff, SOk) ->
  exists lim al dl exp,
    G !! k = Some (mkgrant (AStake lim al dl) exp) /\
    expired now (mkgrant (AStake lim al dl) exp) = false /\
    admitted al dl val /\ ok = true /\ eff = true /\
    match lim with
    | None => G' = G
    | Some l => amt <= l /\ (amt = l -> G' = delete k G) /\
                (amt < l -> G' = <[k := mkgrant (AStake (Some (l - amt)) al dl) exp]> G)
    end.
Proof.
  unfold stake_spend, stake_spend_update.
  destruct (check_allowance now G k amt) as [[[[lim al] dl] exp]|] eqn:Ec; [|discriminate].
  apply check_allowance_some in Ec as (E1 & E2 & E3).
  destruct (stake_accept lim al dl val amt) as [r|] eqn:Ea.
  - apply stake_accept_some in Ea as [Ad Er].
    intros H. exists lim, al, dl, exp.
    assert (Hupd : update_grant now G k r exp = Some G' /\ ok = true /\ eff = true).
    { destruct impl, ok; destruct (update_grant now G k r exp); inversion H; subst; auto. }
    destruct Hupd as (Hu & -> & ->).
    split; [exact E1|]. split; [exact E2|]. split; [exact Ad|]. split; [reflexivity|]. split; [reflexivity|].
    destruct lim as [l|].
    + destruct Er as (Er1 & Er2 & Er3). split; [exact Er1|]. split; intros Hx.
      * rewrite (Er2 Hx) in Hu. simpl in Hu. unfold delete_grant in Hu. rewrite E1 in Hu. inversion Hu; reflexivity.
      * rewrite (Er3 Hx) in Hu. simpl in Hu. unfold save_grant in Hu.
        destruct exp as [e|]; [destruct (e <=? now); inversion Hu; reflexivity|inversion Hu; reflexivity].
    + subst r. simpl in Hu. unfold save_grant in Hu.
      destruct exp as [e|]; [destruct (e <=? now)|]; inversion Hu; subst; apply insert_id; exact E1.
  - destruct impl, ok; discriminate.
Qed.

Corollary limited_grant_decrements_exactly impl now G k val amt ok G' eff l al dl exp :
  G !! k = Some (mkgrant (AStake (Some l) al dl) exp) ->
  stake_spend impl now G k val amt ok = (G', eff, SOk) -> amt < l ->
  G' = <[k := mkgrant (AStake (Some (l - amt)) al dl) exp]> G.
Proof.
  intros HG H Hl. apply stake_spend_ok in H as (lim & al' & dl' & exp' & E1 & _ & _ & _ & _ & E).
  rewrite HG in E1. inversion E1; subst. destruct E as (_ & _ & E). auto.
Qed.

Corollary exhausted_grant_deleted impl now G k val amt ok G' eff al dl exp :
  G !! k = Some (mkgrant (AStake (Some amt) al dl) exp) ->
  stake_spend impl now G k val amt ok = (G', eff, SOk) -> G' = delete k G /\ G' !! k = None.
Proof.
  intros HG H. apply stake_spend_ok in H as (lim & al' & dl' & exp' & E1 & _ & _ & _ & _ & E).
  rewrite HG in E1. inversion E1; subst. destruct E as (_ & E & _). rewrite E by reflexivity.
  split; [reflexivity|apply lookup_delete].
Qed.

Corollary unlimited_grant_never_decrements impl now G k val amt ok G' eff al dl exp :
  G !! k = Some (mkgrant (AStake None al dl) exp) ->
  stake_spend impl now G k val amt ok = (G', eff, SOk) -> G' = G.
Proof.
  intros HG H. apply stake_spend_ok in H as (lim & al' & dl' & exp' & E1 & _ & _ & _ & _ & E).
  rewrite HG in E1. inversion E1; subst. exact E.
Qed.

(** * refusals that leave everything as it was, whatever the order *)
Lemma stake_spend_refused impl now G k val amt ok :
  check_allowance now G k amt = None -> stake_spend impl now G k val amt ok = (G, false, SErr).
Proof. intros H. unfold stake_spend, stake_spend_update. rewrite H. reflexivity. Qed.

Theorem expired_grant_unusable impl now G k val amt ok g :
  G !! k = Some g -> expired now g = true -> stake_spend impl now G k val amt ok = (G, false, SErr).
Proof.
  intros HG He. apply stake_spend_refused. apply check_allowance_none.
  intros lim al dl exp HG'. rewrite HG in HG'. inversion HG'; subst. left; exact He.
Qed.

Theorem absent_grant_unusable impl now G k val amt ok :
  G !! k = None -> stake_spend impl now G k val amt ok = (G, false, SErr).
Proof. intros HG. apply stake_spend_refused. apply check_allowance_none. intros ? ? ? ? H. congruence. Qed.

(** a grant stored under the message type that is not a StakeAuthorization *)
Theorem wrong_type_rejected impl now G k val amt ok g :
  G !! k = Some g -> (forall lim al dl, g_auth g <> AStake lim al dl) ->
  stake_spend impl now G k val amt ok = (G, false, SErr).
Proof.
  intros HG Hn. apply stake_spend_refused. apply check_allowance_none.
  intros lim al dl exp HG'. rewrite HG in HG'. inversion HG'; subst. exfalso. apply (Hn lim al dl). reflexivity.
Qed.

Theorem overspend_rejected impl now G k val amt ok l al dl exp :
  G !! k = Some (mkgrant (AStake (Some l) al dl) exp) -> l < amt ->
  stake_spend impl now G k val amt ok = (G, false, SErr).
Proof.
  intros HG Hl. apply stake_spend_refused. apply check_allowance_none.
  intros lim al' dl' exp' HG'. rewrite HG in HG'. inversion HG'; subst. right. eauto.
Qed.

(** * where the two orders differ: the update comes out as "cannot" *)
Lemma spend_update_cannot now G k val amt :
  stake_spend_update now G k val amt = Some None <->
  exists lim al dl exp,
    G !! k = Some (mkgrant (AStake lim al dl) exp) /\ expired now (mkgrant (AStake lim al dl) exp) = false /\
    match lim with Some l => amt <= l | None => True end /\
    (~ admitted al dl val \/ (exp = Some now /\ lim <> Some amt)).
Proof.
  unfold stake_spend_update. split.
  - destruct (check_allowance now G k amt) as [[[[lim al] dl] exp]|] eqn:Ec; [|discriminate].
    apply check_allowance_some in Ec as (E1 & E2 & E3). intros H.
    exists lim, al, dl, exp. repeat split; auto.
    destruct (stake_accept lim al dl val amt) as [r|] eqn:Ea.
    + right. apply stake_accept_some in Ea as [Ad Er].
      destruct r as [|a]; simpl in H.
      * unfold delete_grant in H. rewrite E1 in H. discriminate.
      * unfold save_grant in H. destruct exp as [e|]; [|discriminate].
        destruct (e <=? now) eqn:Ee; [|discriminate].
        apply Z.leb_le in Ee. unfold expired in E2. simpl in E2. apply Z.ltb_ge in E2.
        split; [f_equal; lia|]. intros ->. destruct Er as (_ & Er & _). discriminate (Er eq_refl).
    + left. apply stake_accept_none_iff in Ea; auto.
  - intros (lim & al & dl & exp & E1 & E2 & E3 & E4).
    assert (Ec : check_allowance now G k amt = Some (lim, al, dl, exp)) by (apply check_allowance_some; auto).
    rewrite Ec. f_equal.
    destruct E4 as [Na|[-> Hne]].
    + apply (proj2 (stake_accept_none_iff lim al dl val amt E3)) in Na. rewrite Na. reflexivity.
    + destruct (stake_accept lim al dl val amt) as [r|] eqn:Ea; [|reflexivity].
      apply stake_accept_some in Ea as [Ad Er].
      destruct lim as [l|].
      * destruct Er as (Er1 & Er2 & Er3). destruct (Z.eq_dec amt l); [subst; congruence|].
        rewrite Er3 by lia. simpl. unfold save_grant. rewrite Z.leb_refl. reflexivity.
      * subst r. simpl. unfold save_grant. rewrite Z.leb_refl. reflexivity.
Qed.

Theorem impl_eq_spec_outside_k10 now G k val amt ok :
  stake_spend_update now G k val amt <> Some None ->
  stake_spend true now G k val amt ok = stake_spend false now G k val amt ok.
Proof.
  unfold stake_spend. intros H.
  destruct (stake_spend_update now G k val amt) as [[G1|]|]; try reflexivity; try congruence; destruct ok; reflexivity.
Qed.

(** corrected order: nothing happens unless the grant admits the validator and can be updated *)
Theorem spec_effect_implies_ok now G k val amt ok G' st :
  stake_spend false now G k val amt ok = (G', true, st) -> st = SOk.
Proof.
  unfold stake_spend. destruct (stake_spend_update now G k val amt) as [[G1|]|]; [destruct ok| |]; intros H; inversion H; reflexivity.
Qed.

Theorem spec_validator_not_admitted_rejected now G k val amt ok lim al dl exp :
  G !! k = Some (mkgrant (AStake lim al dl) exp) -> ~ admitted al dl val ->
  stake_spend false now G k val amt ok = (G, false, SErr).
Proof.
  intros HG Na. unfold stake_spend, stake_spend_update.
  destruct (check_allowance now G k amt) as [[[[lim' al'] dl'] exp']|] eqn:Ec; [|reflexivity].
  apply check_allowance_some in Ec as (E1 & E2 & E3). rewrite HG in E1. inversion E1; subst.
  apply (proj2 (stake_accept_none_iff _ _ _ val amt E3)) in Na. rewrite Na. reflexivity.
Qed.

(** the code's order: the message has taken effect, the call fails, the limit is untouched (finding K10) *)
Theorem validator_not_admitted_refuted :
  exists now G k val amt,
    (exists l exp, G !! k = Some (mkgrant (AStake (Some l) [0%N] []) exp) /\ amt <= l) /\
    stake_spend true now G k val amt true = (G, true, SErr).
Proof.
  exists 0, {[ (0%N, 2%N, MDelegate) := mkgrant (AStake (Some 1000) [0%N] []) (Some 5000) ]}, (0%N, 2%N, MDelegate), 1%N, 300.
  split; [exists 1000, (Some 5000); split; [reflexivity|lia]|]. vm_compute. reflexivity.
Qed.

Theorem grant_expiring_now_refuted :
  exists now G k val amt,
    (exists l, G !! k = Some (mkgrant (AStake (Some l) [0%N; 1%N] []) (Some now)) /\ amt < l) /\
    stake_spend true now G k val amt true = (G, true, SErr).
Proof.
  exists 1000, {[ (0%N, 2%N, MDelegate) := mkgrant (AStake (Some 1000) [0%N; 1%N] []) (Some 1000) ]}, (0%N, 2%N, MDelegate), 1%N, 300.
  split; [exists 1000; split; [reflexivity|lia]|]. vm_compute. reflexivity.
Qed.

(** * the running allowance over all histories of one grant *)
Definition wf_grant (g : grant) : Prop :=
  match g_auth g with AStake (Some l) _ _ => 0 <= l | _ => True end.
Definition wf_op (o : aop) : Prop :=
  match o with
  | OIncrease (Some a) | ODecrease (Some a) => 0 <= a          (* uint256 arguments *)
  | OSpend _ amt ok => ok = true -> 0 < amt                     (* the staking messages refuse non-positive amounts *)
  | OSet g => wf_grant g                                        (* MsgGrant.ValidateBasic *)
  | _ => True
  end.

(** remaining limit = granted - spent, exactly; nothing is spent without or beyond a grant *)
Definition ainv (k : gkey) (s : astate) : Prop :=
  0 <= s_spent s /\
  match s_G s !! k with
  | Some g =>
      match g_auth g with
      | AStake (Some l) _ _ => 0 <= l /\ s_granted s = Some (l + s_spent s)
      | _ => s_granted s = None
      end
  | None => match s_granted s with Some g => s_spent s = g | None => True end
  end.

Lemma ainv_init k : ainv k ainit.
Proof. unfold ainv, ainit; simpl. rewrite lookup_empty. split; [lia|exact I]. Qed.

Local Ltac inv_pair :=
  repeat match goal with
         | H : (_, _) = (_, _) |- _ => inversion H; subst; clear H
         end.

Lemma stake_approve1_cases now vals G k amt G1 st :
  stake_approve1 now vals G k amt = (G1, st) ->
  (st = SErr /\ G1 = G) \/
  (st = SOk /\ exists a, amt = Some a /\ a <= 0 /\ G1 = delete k G) \/
  (st = SOk /\ exists a, amt = Some a /\ 0 < a /\ G1 = <[k := mkgrant (AStake (Some a) vals []) (Some (now + YEAR))]> G) \/
  (st = SOk /\ amt = None /\ G1 = <[k := mkgrant (AStake None vals []) (Some (now + YEAR))]> G).
Proof.
  unfold stake_approve1. destruct (is_nil vals); [intros H; inversion H; auto|].
  destruct amt as [a|].
  - destruct (a <=? 0) eqn:Ea.
    + apply Z.leb_le in Ea. unfold delete_grant. destruct (G !! k); intros H; inversion H; subst; auto.
      right; left. split; [reflexivity|]. exists a. auto.
    + apply Z.leb_gt in Ea. unfold save_grant. assert (now + YEAR <=? now = false) as -> by (apply Z.leb_gt; unfold YEAR; lia).
      intros H; inversion H; subst. right; right; left. split; [reflexivity|]. exists a. auto.
  - unfold save_grant. assert (now + YEAR <=? now = false) as -> by (apply Z.leb_gt; unfold YEAR; lia).
    intros H; inversion H; subst. right; right; right. auto.
Qed.

Lemma stake_change1_cases (inc : bool) now G k amt G1 st :
  (if inc then stake_increase1 now G k amt else stake_decrease1 now G k amt) = (G1, st) ->
  (st <> SOk /\ G1 = G) \/
  (st = SOk /\ G1 = G /\ exists al dl e, G !! k = Some (mkgrant (AStake None al dl) e)) \/
  (st = SOk /\ exists l a al dl e, amt = Some a /\ G !! k = Some (mkgrant (AStake (Some l) al dl) e) /\
                (inc = false -> a <= l) /\
                G1 = <[k := mkgrant (AStake (Some (if inc then l + a else l - a)) al dl) e]> G).
Proof.
  assert (Hsave : forall x al dl e G2, save_grant now G k (AStake (Some x) al dl) e = Some G2 ->
                                       G2 = <[k := mkgrant (AStake (Some x) al dl) e]> G).
  { intros x al dl e G2. unfold save_grant. destruct e as [e|]; [destruct (e <=? now); [discriminate|]|]; intros H; inversion H; reflexivity. }
  destruct inc; unfold stake_increase1, stake_decrease1;
    (destruct (get_auth now G k) as [g|] eqn:Eg; [|intros H; inversion H; left; split; [discriminate|reflexivity]]);
    apply get_auth_some in Eg as [E1 E2];
    destruct g as [a e]; destruct a as [[l|] al dl| |]; simpl;
    try (intros H; inversion H; left; split; [discriminate|reflexivity]).
  - destruct amt as [x|]; [|intros H; inversion H; left; split; [discriminate|reflexivity]].
    destruct (MAXU <? l + x); [intros H; inversion H; left; split; [discriminate|reflexivity]|].
    destruct (save_grant now G k (AStake (Some (l + x)) al dl) e) as [G2|] eqn:Es;
      [|intros H; inversion H; left; split; [discriminate|reflexivity]].
    intros H; inversion H; subst. right; right. split; [reflexivity|].
    exists l, x, al, dl, e. repeat split; auto; try discriminate; try (apply Hsave; exact Es).
  - intros H; inversion H; subst. right; left. split; [reflexivity|]. split; [reflexivity|]. exists al, dl, e. exact E1.
  - destruct amt as [x|]; [|intros H; inversion H; left; split; [discriminate|reflexivity]].
    destruct (l <? x) eqn:Elx; [intros H; inversion H; left; split; [discriminate|reflexivity]|]. apply Z.ltb_ge in Elx.
    destruct (save_grant now G k (AStake (Some (l - x)) al dl) e) as [G2|] eqn:Es;
      [|intros H; inversion H; left; split; [discriminate|reflexivity]].
    intros H; inversion H; subst. right; right. split; [reflexivity|].
    exists l, x, al, dl, e. repeat split; auto; try (apply Hsave; exact Es).
  - intros H; inversion H; subst. right; left. split; [reflexivity|]. split; [reflexivity|]. exists al, dl, e. exact E1.
Qed.

Lemma astep_inv vals k s o : wf_op o -> ainv k s -> ainv k (astep false vals k s o).
Proof.
  intros Hw [Hs Hi]. destruct o as [amt|amt|amt| |val amt ok|g|dt]; simpl.
  - (* approve *)
    destruct (stake_approve1 (s_now s) vals (s_G s) k amt) as [G1 st] eqn:E.
    apply stake_approve1_cases in E as [[-> ->]|[[-> (a & -> & Ha & ->)]|[[-> (a & -> & Ha & ->)]|(-> & -> & ->)]]].
    + split; assumption.
    + assert (a <=? 0 = true) as -> by (apply Z.leb_le; lia). split; simpl; [lia|]. rewrite lookup_delete. exact I.
    + assert (a <=? 0 = false) as -> by (apply Z.leb_gt; lia). split; simpl; [lia|]. rewrite lookup_insert. simpl.
      split; [lia|f_equal; lia].
    + split; simpl; [lia|]. rewrite lookup_insert. reflexivity.
  - (* increase *)
    destruct (stake_increase1 (s_now s) (s_G s) k amt) as [G1 st] eqn:E.
    apply (stake_change1_cases true) in E as [[Hn ->]|[(-> & -> & al & dl & e & E1)|(-> & l & a & al & dl & e & -> & E1 & _ & ->)]].
    + destruct st; try congruence; split; assumption.
    + rewrite E1 in Hi. simpl in Hi. rewrite Hi. destruct amt; split; simpl; try assumption; rewrite E1; simpl; assumption.
    + rewrite E1 in Hi. simpl in Hi. destruct Hi as [Hl Hg]. rewrite Hg. simpl in Hw.
      split; simpl; [assumption|]. rewrite lookup_insert. simpl. split; [lia|f_equal; lia].
  - (* decrease *)
    destruct (stake_decrease1 (s_now s) (s_G s) k amt) as [G1 st] eqn:E.
    apply (stake_change1_cases false) in E as [[Hn ->]|[(-> & -> & al & dl & e & E1)|(-> & l & a & al & dl & e & -> & E1 & Hle & ->)]].
    + destruct st; try congruence; split; assumption.
    + rewrite E1 in Hi. simpl in Hi. rewrite Hi. destruct amt; split; simpl; try assumption; rewrite E1; simpl; assumption.
    + rewrite E1 in Hi. simpl in Hi. destruct Hi as [Hl Hg]. rewrite Hg. simpl in Hw. specialize (Hle eq_refl).
      split; simpl; [assumption|]. rewrite lookup_insert. simpl. split; [lia|f_equal; lia].
  - (* revoke *)
    unfold stake_revoke1, delete_grant. destruct (s_G s !! k) eqn:E; [|split; [assumption|rewrite E; assumption]].
    split; simpl; [lia|]. rewrite lookup_delete. exact I.
  - (* spend, corrected order *)
    destruct (stake_spend false (s_now s) (s_G s) k val amt ok) as [[G1 eff] st] eqn:E.
    destruct eff.
    + pose proof (spec_effect_implies_ok _ _ _ _ _ _ _ _ E) as ->.
      apply stake_spend_ok in E as (lim & al & dl & exp & E1 & E2 & Ad & -> & _ & E3).
      simpl in Hw. specialize (Hw eq_refl). rewrite E1 in Hi. simpl in Hi.
      destruct lim as [l|].
      * destruct Hi as [Hl Hg]. destruct E3 as (E3a & E3b & E3c). split; simpl; [lia|].
        destruct (Z.eq_dec amt l) as [->|Hne].
        -- rewrite E3b by reflexivity. rewrite lookup_delete. rewrite Hg. lia.
        -- rewrite E3c by lia. rewrite lookup_insert. simpl. rewrite Hg. split; [lia|f_equal; lia].
      * subst G1. split; simpl; [lia|]. rewrite E1. simpl. exact Hi.
    + assert (G1 = s_G s) as ->.
      { unfold stake_spend in E. destruct (stake_spend_update (s_now s) (s_G s) k val amt) as [[G2|]|]; [destruct ok| |]; inversion E; reflexivity. }
      split; simpl; assumption.
  - (* native grant *)
    split; simpl; [lia|]. rewrite lookup_insert. simpl in Hw. unfold wf_grant in Hw. unfold limit_of.
    destruct (g_auth g) as [[l|] ? ?| |]; auto. split; [exact Hw|f_equal; lia].
  - split; simpl; assumption.
Qed.

Lemma arun_inv vals k ops : forall s, Forall wf_op ops -> ainv k s -> ainv k (arun false vals k ops s).
Proof.
  unfold arun. induction ops as [|o r IH]; intros s Hw Hi; simpl; [assumption|].
  inversion Hw; subst. apply IH; [assumption|]. apply astep_inv; assumption.
Qed.

(** over every history: what was spent since the grant was last (re)defined never
    exceeds what was granted, and a limited grant holds exactly the difference *)
Theorem spent_le_allowance_spec vals k ops :
  Forall wf_op ops ->
  let s := arun false vals k ops ainit in
  (forall g, s_granted s = Some g -> s_spent s <= g) /\
  (forall l al dl exp, s_G s !! k = Some (mkgrant (AStake (Some l) al dl) exp) -> s_granted s = Some (l + s_spent s) /\ 0 <= l).
Proof.
  intros Hw s. pose proof (arun_inv vals k ops ainit Hw (ainv_init k)) as [Hs Hi]. fold s in Hs, Hi.
  split.
  - intros g Hg. destruct (s_G s !! k) as [gr|] eqn:E.
    + destruct gr as [a e]; destruct a as [[l|] al dl| |]; simpl in Hi; try congruence.
      destruct Hi as [Hl Hg']. rewrite Hg' in Hg. inversion Hg. lia.
    + rewrite Hg in Hi. lia.
  - intros l al dl exp E. rewrite E in Hi. simpl in Hi. destruct Hi; auto.
Qed.

(** the code's order breaks it: 1000 granted for validator 0, 300 + 900 taken for validator 1 *)
Definition k10_ops : list aop :=
  [OSet (mkgrant (AStake (Some 1000) [0%N] []) (Some 5000)); OSpend 1%N 300 true; OSpend 1%N 900 true].
Theorem spent_le_allowance_refuted :
  Forall wf_op k10_ops /\
  let s := arun true [0%N; 1%N] (0%N, 2%N, MDelegate) k10_ops ainit in
  s_granted s = Some 1000 /\ s_spent s = 1200 /\
  s_G s !! (0%N, 2%N, MDelegate) = Some (mkgrant (AStake (Some 1000) [0%N] []) (Some 5000)).
Proof.
  split.
  - repeat constructor; simpl; try lia. unfold wf_grant; simpl; lia.
  - vm_compute. repeat split.
Qed.

(** ... and only there: a history in which no spend meets a grant that cannot be
    updated runs identically in both orders *)
Fixpoint k10_free (vals : list N) (k : gkey) (ops : list aop) (s : astate) : bool :=
  match ops with
  | [] => true
  | o :: r =>
      (match o with
       | OSpend val amt ok =>
           negb (bool_decide (stake_spend_update (s_now s) (s_G s) k val amt = Some None))
       | _ => true
       end) && k10_free vals k r (astep false vals k s o)
  end.

Lemma astep_impl_eq_spec vals k s o :
  (match o with OSpend val amt ok => stake_spend_update (s_now s) (s_G s) k val amt <> Some None | _ => True end) ->
  astep true vals k s o = astep false vals k s o.
Proof.
  destruct o; simpl; try reflexivity. intros H. rewrite (impl_eq_spec_outside_k10 _ _ _ _ _ _ H). reflexivity.
Qed.

Theorem impl_history_eq_spec_outside_k10 vals k ops : forall s,
  k10_free vals k ops s = true -> arun true vals k ops s = arun false vals k ops s.
Proof.
  unfold arun. induction ops as [|o r IH]; intros s H; simpl; [reflexivity|].
  simpl in H. apply andb_true_iff in H as [H1 H2].
  rewrite astep_impl_eq_spec.
  - apply IH. exact H2.
  - destruct o; auto. apply negb_true_iff, bool_decide_eq_false in H1. exact H1.
Qed.

Corollary spent_le_allowance_impl_outside_k10 vals k ops :
  Forall wf_op ops -> k10_free vals k ops ainit = true ->
  let s := arun true vals k ops ainit in forall g, s_granted s = Some g -> s_spent s <= g.
Proof.
  intros Hw Hk. rewrite (impl_history_eq_spec_outside_k10 _ _ _ _ Hk).
  apply (spent_le_allowance_spec vals k ops Hw).
Qed.

(** non-vacuity: approve 500, spend 200, increase 100, spend 400 (exhausts), spend 1 (refused) *)
Example allowance_history_ex :
  let ops := [OApprove (Some 500); OSpend 0%N 200 true; OIncrease (Some 100); OSpend 1%N 400 true; OSpend 1%N 1 true] in
  Forall wf_op ops /\ k10_free [0%N; 1%N] (0%N, 2%N, MDelegate) ops ainit = true /\
  let s := arun true [0%N; 1%N] (0%N, 2%N, MDelegate) ops ainit in
  s_granted s = Some 600 /\ s_spent s = 600 /\ s_G s !! (0%N, 2%N, MDelegate) = None.
Proof.
  split; [repeat constructor; simpl; intros; lia|]. split; vm_compute; auto.
Qed.
